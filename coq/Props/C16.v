(* C16 — Inflight window is respected and delivery keeps flowing while acks flow.
   Only statements, `exact`, Print Assumptions and Examples.

   Model: BC (Broker/Conn.v), a deterministic monitor of the events of the connections of
   one session; [bc_run es = Some s]: the trace [es] is accepted and leads to state [s].
   State components used below: [cw s] the window W the current connection was set up
   with, [tdeq s] the dequeue tokens (free window slots) in the channel, [dp s] the
   dequeuer's program counter (DToken: waiting for a token; DWait .. DSend: it holds a
   token and is dequeuing / storing / sending one message), [pp s] the processor's
   (PAckDel id: it received PUBACK/PUBCOMP id and is about to delete the stored packet
   and return the slot).

   c16_bound (ConnSpec.v): on every connection, the number of distinct ids of QoS>0
   PUBLISH (and PUBREL) packets sent successfully, resends included, and not yet
   acknowledged by PUBACK/PUBCOMP never exceeds W — as long as the peer has acknowledged
   (PUBACK, PUBREC, PUBCOMP) only ids in flight during the session.

   C16_bound_refuted     c16_bound is FALSE of the model, and of the code: on a resumed
                         connection the processor re-sends EVERY stored packet and takes a
                         token for each only "if any" (client.go: "continue if depleted").
                         Accepted counter-example: the next connection of the session is set up
                         with a smaller window (tr_c16_shrink).
   C16_bound_const_window  MAIN THEOREM.  c16_bound holds of every accepted trace on which the
                         window does not shrink between the connections of a session
                         (c16_window_const, Broker/ConnProofsCDefs.v: as long as the peer has not
                         acknowledged an id not in flight — the clause excuses such a peer for the
                         rest of the session anyway —, at every Setup that continues a session (not
                         fresh) the window is >= the window of the previous Setup, and NextID does
                         not return an id that is still in the outgoing store, which would take
                         65535 allocations while one message stays unacknowledged).  No assumption
                         on the peer.
   C16_bound_partial     c16_bound holds of every accepted trace on which, at every resume,
                         the listing of the outgoing store (EAll Outgoing) contains at most W
                         packets, W the window of that connection (c16_resume_fits).
   C16_conservation      tokens are never created beyond the window: tdeq <= W in every
                         reachable state; and under the same hypothesis, unless the peer sent a
                         spurious acknowledgement on the current connection,
                           in flight + free slots + slot held by the dequeuer
                             + slot being returned by the processor <= W.
   C16_conservation_const_window  the same inequality, and "stored packets <= W" once the
                         connection is set up, under c16_window_const instead of c16_resume_fits.
   C16_slots_not_lost    "window slots are returned by every completed handshake and are not lost over
                         time or across reconnects": under c16_window_const, c16_slots_not_lost2
                         (Broker/ConnProofsCDefs.v) holds of every accepted trace: the dequeuer, once it
                         has delivered and is waiting for a slot, reports a token-wait timeout only when
                         in flight + acknowledgements in the processor's hands >= W  (unless the peer
                         acknowledged an id not in flight).  Behind it is the lower bound
                           W <= in flight + acks in hand + free slots + slot held by the dequeuer
                         while the dequeuer is alive (ConnProofsC8.RLr), the converse of
                         C16_conservation_const_window.
   C16_qos0_free         every accepted successful send of a fresh QoS 0 PUBLISH is the
                         dequeuer's delivery (DSend) and returns its slot at once:
                         tdeq' = min W (tdeq + 1), the dequeuer is back at its token wait.
   C16_ack_returns       every successful removal from the outgoing store (the processor
                         handling PUBACK/PUBCOMP) returns a slot: tdeq' = min W (tdeq + 1).
   C16_progress_enabled  in every reachable state where the dequeuer waits for a token and a slot
                         is free, the Dequeue call is enabled (for the dequeuer's goroutine, or
                         for any role-less goroutine if the dequeuer has not acted yet; the
                         goroutine must not be inside an acknowledgement closure) and takes one slot.
   C16_no_timeout_with_slot  in such a state the dequeuer's token timeout is NOT enabled.
   C16_quiescent_in_dequeue  whenever the model accepts the quiescence marker the dequeuer is
                         inside Dequeue (holding a slot) and the connection is not dying. *)
From Coq Require Import List NArith Bool.
From GM Require Import Base.Lts Codec.Packet Session.Store Broker.Conn Broker.ConnSpec
  Broker.ConnProofsCDefs Broker.ConnProofsCTraces Broker.ConnProofsC4 Broker.ConnProofsC5 Broker.ConnProofsC7
  Broker.ConnProofsC8.
Import ListNotations.
Open Scope N_scope.

(* the full statement: false *)
Definition C16_bound_statement : Prop := forall es s, bc_run es = Some s -> c16_bound es = true.

Theorem C16_bound_refuted : exists es s, bc_run es = Some s /\ c16_bound es = false.
Proof. exact c16_bound_refuted_holds. Qed.
Print Assumptions C16_bound_refuted.

(* the counter-example: accepted, satisfies every C08 clause *)
Example C16_bound_refuted_shrink :
  tc_accepted tr_c16_shrink = true /\ c16_bound tr_c16_shrink = false /\
  c16_resume_fits tr_c16_shrink = false /\ spec_c08 tr_c16_shrink = true.
Proof. vm_compute. repeat split. Qed.

(* a peer that acknowledged an id not in flight is excused for the rest of the session (the
   scanner's flag survives ENewConn): window 1 on both connections, a spurious PUBACK on the
   first returns a slot, two messages are stored when the connection is lost and both are
   re-sent — accepted, no violation of the clause, although the resume does not fit *)
Example C16_spurious_peer_excused :
  tc_accepted tr_c16_spurious = true /\ c16_bound tr_c16_spurious = true /\
  c16_resume_fits tr_c16_spurious = false.
Proof. vm_compute. repeat split. Qed.

Theorem C16_bound_const_window : forall es s,
  bc_run es = Some s -> c16_window_const es = true -> c16_bound es = true.
Proof. exact c16_bound_const_window_holds. Qed.
Print Assumptions C16_bound_const_window.

(* the hypothesis is met by the traces with a resume, also by the one with a misbehaving peer;
   it excludes the counter-example *)
Example C16_bound_const_window_nonvacuous :
  tc_accepted tr_resume = true /\ c16_window_const tr_resume = true /\
  c16_window_const tr_c16_spurious = true /\ c16_window_const tr_w1 = true /\
  c16_window_const tr_c16_shrink = false /\
  In (ETx 5 (Publish true tc_m1 1) true true) tr_resume /\ In (ETx 5 (Pubrel 2) true true) tr_resume.
Proof. vm_compute. repeat split; auto 60. Qed.

Theorem C16_bound_partial : forall es s,
  bc_run es = Some s -> c16_resume_fits es = true -> c16_bound es = true.
Proof. exact c16_bound_partial_holds. Qed.
Print Assumptions C16_bound_partial.

(* the hypothesis is met by traces with resumes *)
Example C16_bound_partial_nonvacuous :
  tc_accepted tr_resume = true /\ c16_resume_fits tr_resume = true /\ c16_bound tr_resume = true /\
  In (ETx 5 (Publish true tc_m1 1) true true) tr_resume.
Proof. vm_compute. repeat split; auto 60. Qed.

Theorem C16_conservation : forall es s,
  bc_run es = Some s ->
  tdeq s <= cw s /\
  (c16_resume_fits es = true ->
   exists t, srun wb_step (WbSt 0 [] false) es = Some t /\
     (wb_spur t = true \/
      N.of_nat (length (wb_fl t)) + tdeq s + held (dp s) + credit (pp s) <= cw s)).
Proof. exact c16_conservation_holds. Qed.
Print Assumptions C16_conservation.

Theorem C16_conservation_const_window : forall es s,
  bc_run es = Some s -> c16_window_const es = true ->
  exists t, srun wb_step (WbSt 0 [] false) es = Some t /\
    (wb_spur t = true \/
     (N.of_nat (length (wb_fl t)) + tdeq s + held (dp s) + credit (pp s) <= cw s /\
      (cw s <> 0 -> N.of_nat (length (s_out (sess s))) <= cw s))).
Proof. exact c16_conservation_const_window_holds. Qed.
Print Assumptions C16_conservation_const_window.

Theorem C16_slots_not_lost : forall es s,
  bc_run es = Some s -> c16_window_const es = true -> c16_slots_not_lost2 es = true.
Proof. exact c16_slots_not_lost_holds. Qed.
Print Assumptions C16_slots_not_lost.

(* window 1, one unacknowledged delivery, the next message waits: the token timeout is accepted and
   legitimate (window full); so is a timeout that fires while the processor holds the PUBACK whose
   slot it has not put back yet, or after the delete of the acknowledged packet failed *)
Example C16_slots_not_lost_nonvacuous :
  tc_accepted tr_sl_full = true /\ c16_window_const tr_sl_full = true /\ c16_slots_not_lost2 tr_sl_full = true /\
  In (EDie 3 KClient) tr_sl_full /\
  tc_accepted tr_sl_race = true /\ c16_slots_not_lost2 tr_sl_race = true /\
  tc_accepted tr_sl_delfail = true /\ c16_slots_not_lost2 tr_sl_delfail = true.
Proof. vm_compute. repeat split; auto 40. Qed.

(* discriminating traces: a timeout with a free slot (window 2, one message in flight), on one
   connection and after a resume whose retransmission was acknowledged: the clause answers false,
   and the model does not accept them *)
Example C16_slots_not_lost_rejects :
  c16_slots_not_lost2 tr_sl_lost = false /\ tc_accepted tr_sl_lost = false /\
  c16_slots_not_lost2 tr_sl_lost_resume = false /\ tc_accepted tr_sl_lost_resume = false /\
  c16_window_const tr_sl_lost = true /\ c16_window_const tr_sl_lost_resume = true.
Proof. vm_compute. repeat split. Qed.

Theorem C16_qos0_free : forall es s g m id a s',
  bc_run es = Some s -> m_qos m = 0 ->
  step s (ETx g (Publish false m id) a true) = Some s' ->
  dp s = DSend (Publish false m id) /\ dp s' = DToken /\ tdeq s' = N.min (cw s) (tdeq s + 1) /\ cw s' = cw s.
Proof. exact c16_qos0_free_holds. Qed.
Print Assumptions C16_qos0_free.

Theorem C16_ack_returns : forall s g id s',
  step s (EDelete g Outgoing id true) = Some s' ->
  pp s = PAckDel id /\ pp s' = PLoop /\ tdeq s' = N.min (cw s) (tdeq s + 1) /\ cw s' = cw s.
Proof. exact c16_ack_returns_holds. Qed.
Print Assumptions C16_ack_returns.

Theorem C16_progress_enabled : forall es s g,
  bc_run es = Some s ->
  dp s = DToken -> 0 < tdeq s -> in_closure s g = false ->
  (gdeq s = Some g \/ (gdeq s = None /\ role_free s g = true)) ->
  exists s', step s (EDeqCall g) = Some s' /\ dp s' = DWait /\ tdeq s' + 1 = tdeq s /\ gdeq s' = Some g.
Proof. exact c16_progress_enabled_holds. Qed.
Print Assumptions C16_progress_enabled.

Theorem C16_no_timeout_with_slot : forall es s g,
  bc_run es = Some s -> dp s = DToken -> 0 < tdeq s ->
  (gdeq s = Some g \/ (gdeq s = None /\ role_free s g = true)) ->
  step s (EDie g KClient) = None.
Proof. exact c16_no_timeout_with_slot_holds. Qed.
Print Assumptions C16_no_timeout_with_slot.

Theorem C16_quiescent_in_dequeue : forall es s,
  bc_run (es ++ [EQuiescent]) = Some s -> dp s = DWait /\ dying s = false.
Proof. exact c16_quiescent_in_dequeue_holds. Qed.
Print Assumptions C16_quiescent_in_dequeue.

(* non-vacuity *)

(* window 1, two queued messages: after the first PUBLISH the Dequeue call is NOT enabled;
   after its PUBACK was processed it is, and the whole exchange is accepted, bounded *)
Example C16_window_one :
  tc_accepted tr_w1 = true /\ c16_bound tr_w1 = true /\ c16_resume_fits tr_w1 = true /\
  tc_accepted (tr_w1_a ++ [EDeqCall 3]) = false /\
  tc_accepted (tr_w1_a ++ [ERx 2 (Puback 1); EDelete 2 Outgoing 1 true; EDeqCall 3]) = true.
Proof. vm_compute. repeat split. Qed.

(* a state meeting the hypotheses of C16_progress_enabled / C16_no_timeout_with_slot:
   window 1, first message acknowledged, dequeuer (goroutine 3) back at its token wait *)
Example C16_progress_nonvacuous :
  exists s, bc_run (tr_w1_a ++ [ERx 2 (Puback 1); EDelete 2 Outgoing 1 true]) = Some s /\
            dp s = DToken /\ tdeq s = 1 /\ gdeq s = Some 3 /\ in_closure s 3 = false.
Proof. eexists. split; [vm_compute; reflexivity|]. vm_compute. repeat split. Qed.

(* QoS 0 deliveries do not occupy the window: three in a row through a window of 1 *)
Example C16_qos0_nonvacuous :
  tc_accepted tr_qos0 = true /\ c16_bound tr_qos0 = true /\
  exists s, bc_run tr_qos0 = Some s /\ cw s = 1.
Proof. split; [vm_compute; reflexivity|]. split; [vm_compute; reflexivity|]. eexists. split; vm_compute; reflexivity. Qed.

(* the conservation inequality is tight on a concrete trace: window 2, one QoS 1 message in
   flight, the dequeuer inside Dequeue: 1 in flight + 0 free + 1 held = 2 *)
Example C16_conservation_tight :
  exists s t, bc_run (firstn 13 tr_qos1) = Some s /\
    srun wb_step (WbSt 0 [] false) (firstn 13 tr_qos1) = Some t /\
    wb_spur t = false /\ wb_fl t = [1] /\ tdeq s = 0 /\ held (dp s) = 1 /\ credit (pp s) = 0 /\ cw s = 2.
Proof. eexists. eexists. split; [vm_compute; reflexivity|]. split; [vm_compute; reflexivity|]. vm_compute. repeat split. Qed.

(* the clause does reject *)
Example C16_bound_rejects :
  c16_bound [ENewConn; ESetup 2 (SOk false false 1 10 10);
             ETx 3 (Publish false tc_m1 1) true true; ETx 3 (Publish false tc_m1b 2) true true] = false.
Proof. vm_compute. reflexivity. Qed.
