(* C07 — clauses added by the clause-by-clause audit (/verif/audit/C07.md).  Only statements,
   `exact`, Print Assumptions, Examples.  bc_run es = Some s: the broker-connection monitor
   (Broker/Conn.v) accepts the trace es.

   C07_release_in_ack   (ConnSpec6.v) the stored QoS 2 PUBLISH leaves the publisher's session
                        (Delete Incoming id) only through the goroutine that is inside the
                        acknowledgement closure handed to the backend with the Publish that
                        PUBREL id triggered: between that closure's first invocation and its return.
                        Not when Publish merely returned, not on reconnect, not by the handlers of
                        the subscriber-side acknowledgements.  With C07_ack_after_accept (the
                        processor itself sends PUBCOMP only for an id the session does not know) this
                        is "PUBCOMP only after the backend has accepted", also across retransmitted
                        PUBRELs and resumed sessions.
   C07_acted_on         (ConnSpec6.v) no PUBLISH and no PUBREL is dropped: before it reads again
                        (and before quiescence) the processor has passed a QoS 0/1 PUBLISH to the
                        backend, saved a QoS 2 PUBLISH, looked up the id of a PUBREL - or reported a
                        client error (token-wait timeout).
   C07_release_intact   (ConnSpec2.v, also C15) what is handed on at PUBREL id is the message of the
                        stored PUBLISH (topic, payload, QoS, retain flag).
   C07_one_handover     (ConnSpec2.v c15_in_order, also C15) at most one backend Publish per received
                        PUBLISH / PUBREL, and only for the packet received last. *)
From Coq Require Import List NArith Bool.
From GM Require Import Base.Lts Codec.Packet Session.Store Broker.Conn Broker.ConnSpec Broker.ConnSpec2 Broker.ConnSpec6
  Broker.ConnProofsE1 Broker.ConnProofsE2 Broker.ConnProofsE5 Broker.ConnProofsD0 Broker.ConnProofsD1
  Broker.ConnProofsB0 Broker.ConnProofsCTraces Broker.ConnProofsA_traces.
Import ListNotations.
Open Scope N_scope.

Theorem C07_release_in_ack : forall es s, bc_run es = Some s -> c07_release_in_ack es = true.
Proof. exact c07_release_in_ack_holds. Qed.
Print Assumptions C07_release_in_ack.

Theorem C07_acted_on : forall es s, bc_run es = Some s -> c20_acted_on es = true.
Proof. exact c20_acted_on_holds. Qed.
Print Assumptions C07_acted_on.

Theorem C07_release_intact : forall es s, bc_run es = Some s -> c15_release_intact es = true.
Proof. exact c15_release_intact_holds. Qed.
Print Assumptions C07_release_intact.

Theorem C07_one_handover : forall es s, bc_run es = Some s -> c15_in_order es = true.
Proof. exact c15_in_order_holds. Qed.
Print Assumptions C07_one_handover.

(* non-vacuity: the clauses hold on accepted traces with complete and interrupted QoS 2 handshakes,
   and reject a release outside the acknowledgement and a dropped request *)
Example C07_audit_nonvacuous :
  acc tr_handshake = true /\ audit_clauses tr_handshake = true /\
  acc tr_pubcomp_write_fails = true /\ audit_clauses tr_pubcomp_write_fails = true /\
  acc tr_delfail_resume = true /\ audit_clauses tr_delfail_resume = true.
Proof. vm_compute. repeat split. Qed.
Example C07_audit_rejects :
  c07_release_in_ack [ENewConn; ERx 2 (Pubrel 1); ELookup 2 Incoming 1 (LRes (Some (Publish false e_m2 1)));
                      EPub 2 e_m2 (Some 1); EPubRet 2 true; EDelete 2 Incoming 1 true] = false.
Proof. exact (proj1 audit_clauses_reject). Qed.
