(* C15, backend stage (separate file: Backend.v and Conn.v both define `step`/`state`). *)
From Coq Require Import List NArith Bool.
From Coq.Strings Require Import Byte.
From GM Require Import Codec.Packet Topic.MatchSpec Broker.Backend Broker.BackendSpec Broker.BackendProofsHist Broker.BackendLog.
Import ListNotations.
Open Scope N_scope.

(* per session and queue: what is queued is exactly what the specification says was enqueued and
   not yet dequeued, in publish order *)
Theorem C15_queue_fifo : forall cap ops k temp,
  names_ok ops = true ->
  match get_session (run_state (init cap) ops) k with
  | Some s => queue temp s = expected k temp (trace (init cap) ops) []
  | None => True
  end.
Proof. exact delivery_log. Qed.
Print Assumptions C15_queue_fifo.
