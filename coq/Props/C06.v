(* C06 — Broker delivers to exactly the matching subscribers: once, intact, QoS-capped.
   MemoryBackend model MB (Broker/Backend.v); clauses in Broker/BackendSpec.v.
   Only statements, `exact`, and Print Assumptions.

   `holds_along P cap ops`: at every step (state, operation, result, next state) of the
   history `ops` run from the empty backend with SessionQueueSize = cap, P holds
   (steps whose oracle argument is not a possible outcome, result RBadOracle, excepted). *)
From Coq Require Import List NArith Bool String.
From Coq.Strings Require Import Byte.
From GM Require Import Codec.Packet Topic.MatchSpec Broker.Backend Broker.BackendSpec
  Broker.BackendProofs Broker.BackendProofsPublish Broker.BackendProofsSteps Broker.BackendProofsHist.
Import ListNotations.
Open Scope N_scope.

(* At each Publish of every history: a session's queue (temporary for QoS 0, stored otherwise)
   gains the message iff the session holds a filter f with topic_matches f topic at that
   moment (offline-and-full: dropped; receiver closing: may be skipped; call cut short by
   ErrQueueFull: some of them) — exactly one copy whatever the number of matching filters,
   topic and payload unchanged, retain = false; its subscriptions, its other queue, its
   active connection and all sessions without a matching filter are unchanged; no session
   appears or disappears; the result is ErrQueueFull iff the publisher's own matching queue
   is full, and the call waits iff another live session's matching queue is full. *)
Theorem C06_targets : forall cap ops, holds_along targets_ok cap ops.
Proof. exact targets_along. Qed.
Print Assumptions C06_targets.

(* Every Dequeue returns the head of the chosen queue with topic, payload and retain flag
   intact and qos = min m.qos q for some (f, q) of the session with topic_matches f topic
   (m.qos if no filter matches any more); only that queue of that session changes. *)
Theorem C06_qos : forall cap ops, holds_along qos_ok cap ops.
Proof. exact qos_along. Qed.
Print Assumptions C06_qos.

(* After Subscribe the granted QoS of every filter of the packet is the one the packet asks
   for it (whatever it was before, each filter its own), all other filters keep theirs. *)
Theorem C06_resub : forall cap ops, holds_along resub_ok cap ops.
Proof. exact resub_along. Qed.
Print Assumptions C06_resub.

(* After Unsubscribe the named filters are gone, all others and both queues are unchanged;
   with C06_targets: no later Publish enqueues on account of a removed filter. *)
Theorem C06_unsub : forall cap ops, holds_along unsub_ok cap ops.
Proof. exact unsub_along. Qed.
Print Assumptions C06_unsub.

(* lookupSubscription (Tree.MatchFirst as coded: the last report of the walk wins) finds a
   subscription iff the session holds a matching filter, and what it finds matches *)
Theorem C06_match_first : forall subs t,
  name_ok t = true ->
  is_some (pick_sub subs t) = has_match subs t /\
  (forall s, pick_sub subs t = Some s -> In s subs /\ topic_matches (fst s) t = true).
Proof. intros subs t H. split; [exact (pick_sub_has_match subs t H)|exact (pick_sub_sound subs t)]. Qed.
Print Assumptions C06_match_first.

(* non-vacuity: overlapping filters a/+@1, a/#@0 and a QoS 2 retained publish on a/b: one copy,
   flag cleared, capped to the QoS of the filter MatchFirst reports (a/#) *)
Definition b (s : string) : bytes := list_byte_of_string s.
Example C06_nonvacuous :
  fst (run (init 2)
    [OSetup 1 (b "x") false; OSubscribe 1 [(b "a/+", 1); (b "a/#", 0)] [[]; []];
     OSetup 2 [] true; OPublish 2 (Msg (b "a/b") (b "p") 2 true) []; ODequeue 1 false; ODequeue 1 false])
  = [RSetup false; ROk; RSetup false; ROk; RMsg (Msg (b "a/b") (b "p") 0 false); REmpty].
Proof. vm_compute; reflexivity. Qed.
