(* C06 — Broker delivers to exactly the matching subscribers: once, intact, QoS-capped.
   MemoryBackend model MB (Broker/Backend.v); clauses in Broker/BackendSpec.v.
   Only statements, `exact`, and Print Assumptions.

   `holds_along P cap ops`: at every step (state, operation, result, next state) of the
   history `ops` run from the empty backend with SessionQueueSize = cap, P holds
   (steps whose oracle argument is not a possible outcome, result RBadOracle, excepted). *)
From Coq Require Import List NArith Bool String.
From Coq.Strings Require Import Byte.
From GM Require Import Codec.Packet Topic.MatchSpec Broker.Backend Broker.BackendSpec
  Broker.BackendProofs Broker.BackendProofsPublish Broker.BackendProofsSteps Broker.BackendProofsHist
  Broker.BackendReadings Broker.BackendLog Broker.BackendFrame.
(* further theorems of this property about the connection monitor: *)
From GM Require Props.C06_conn.
Import ListNotations.
Open Scope N_scope.

(* At each Publish of every history, either the call is refused with ErrQueueFull — exactly when the LIVE publisher's
   own session holds a matching filter and its queue for this message is full — and then nothing has changed
   (C06_queue_full_atomic), or it waits (another live session's matching queue is full; nothing has changed), or it
   returns nil and then EVERY session that holds a filter f with topic_matches f topic at that moment has gained the
   message in its queue for this QoS class (temporary for QoS 0, stored otherwise) — exactly one copy whatever the
   number of matching filters, topic and payload unchanged, retain = false — with two documented exceptions: an
   offline session whose queue is full, and a session whose connection is closing and whose queue is full (this
   includes the closing publisher's own session: a will is never refused) keep their queue as it is.  Sessions
   without a matching filter, all subscriptions, active connections and the other queue of every session are
   unchanged; no session appears or disappears.  There is no partial fan-out. *)
Theorem C06_targets : forall cap ops, holds_along targets_ok cap ops.
Proof. exact targets_along. Qed.
Print Assumptions C06_targets.

(* ErrQueueFull is atomic: in every history a Publish that returns ErrQueueFull has changed nothing (no session, no
   queue, not the retained store), and it is the pre-check that refused it *)
Theorem C06_queue_full_atomic : forall cap ops st c m got st',
  In (st, OPublish c m got, RQueueFull, st') (trace (init cap) ops) ->
  st' = st /\ own_refused st c m = true.
Proof. exact queue_full_atomic. Qed.
Print Assumptions C06_queue_full_atomic.

(* the same as a step clause (evaluated on the implementation) *)
Theorem C06_queue_full_atomic_step : forall cap ops, holds_along refused_ok cap ops.
Proof. exact refused_along. Qed.
Print Assumptions C06_queue_full_atomic_step.

(* the publish of a closing connection (its will, published by cleanup) is never refused; its own full queue is
   skipped like any other closing receiver's (C06_targets) *)
Theorem C06_closing_publisher_not_refused : forall cap ops st c m got r st',
  In (st, OPublish c m got, r, st') (trace (init cap) ops) ->
  mem_n c (st_dying st) = true -> r <> RQueueFull.
Proof. exact closing_publisher_not_refused. Qed.
Print Assumptions C06_closing_publisher_not_refused.

(* the same as a step clause (evaluated on the implementation) *)
Theorem C06_closing_publisher_step : forall cap ops, holds_along closing_accepted_ok cap ops.
Proof. exact closing_accepted_along. Qed.
Print Assumptions C06_closing_publisher_step.

(* Every Dequeue returns the head of the chosen queue with topic, payload and retain flag
   intact and qos = min m.qos q for some (f, q) of the session with topic_matches f topic
   (m.qos if no filter matches any more); only that queue of that session changes. *)
Theorem C06_qos : forall cap ops, holds_along qos_ok cap ops.
Proof. exact qos_along. Qed.
Print Assumptions C06_qos.

(* After Subscribe the granted QoS of every filter of the packet is the one the packet asks
   for it (whatever it was before, each filter its own), all other filters keep theirs. *)
Theorem C06_resub : forall cap ops, holds_along resub_ok cap ops.
Proof. exact resub_along. Qed.
Print Assumptions C06_resub.

(* After Unsubscribe the named filters are gone, all others and both queues are unchanged;
   with C06_targets: no later Publish enqueues on account of a removed filter. *)
Theorem C06_unsub : forall cap ops, holds_along unsub_ok cap ops.
Proof. exact unsub_along. Qed.
Print Assumptions C06_unsub.

(* the same two clauses as propositions, for one observed step *)
Theorem C06_targets_reading : forall st c m got st' k s,
  targets_ok st (OPublish c m got) ROk st' = true -> name_ok (m_topic m) = true ->
  In (k, s) (sessions st) ->
  exists s', get_session st' k = Some s' /\
    s_subs s' = s_subs s /\ s_act s' = s_act s /\ other_queue m s' = other_queue m s /\
    ((exists f q, In (f, q) (s_subs s) /\ topic_matches f (m_topic m) = true) ->
       is_full (st_cap st) (queue_of m s) = false -> queue_of m s' = queue_of m s ++ [copy m]) /\
    ((forall f q, In (f, q) (s_subs s) -> topic_matches f (m_topic m) = false) -> queue_of m s' = queue_of m s) /\
    (queue_of m s' = queue_of m s \/ queue_of m s' = queue_of m s ++ [copy m]).
Proof. exact targets_reading. Qed.
Print Assumptions C06_targets_reading.

Theorem C06_qos_reading : forall st c temp m' st',
  qos_ok st (ODequeue c temp) (RMsg m') st' = true ->
  exists k s m rest, session_of st c = Some (k, s) /\ (if temp then s_tq s else s_sq s) = m :: rest /\
    m_topic m' = m_topic m /\ m_payload m' = m_payload m /\ m_retain m' = m_retain m /\
    (name_ok (m_topic m) = true ->
       (exists f q, In (f, q) (s_subs s) /\ topic_matches f (m_topic m) = true /\ m_qos m' = N.min (m_qos m) q) \/
       ((forall f q, In (f, q) (s_subs s) -> topic_matches f (m_topic m) = false) /\ m_qos m' = m_qos m)).
Proof. exact qos_reading. Qed.
Print Assumptions C06_qos_reading.

(* Delivery log.  `expected k temp steps []` (Broker/BackendLog.v) replays, for queue `temp` of session k, what
   the specification says each observed step does to it: a Publish appends one copy iff the session holds a
   matching filter at that moment and the queue has room (offline/closing receivers: dropped when full; a refused
   or waiting call: nothing), a Subscribe appends the retained replay, a Dequeue by the
   holder removes the front element, resuming a stored session resets its temporary queue, a session that is
   deleted or created starts empty.  After every history each existing queue holds exactly that:
   dequeued ++ queued = enqueued, in publish order. *)
Theorem C06_delivery_log : forall cap ops k temp,
  names_ok ops = true ->
  match get_session (run_state (init cap) ops) k with
  | Some s => queue temp s = expected k temp (trace (init cap) ops) []
  | None => True
  end.
Proof. exact delivery_log. Qed.
Print Assumptions C06_delivery_log.

(* The delivery log as a clause on ONE observed step (`delivery_ok`, Broker/BackendLog.v): every queue of every
   session existing after the step = what it held before, minus what this step dequeued from its front, plus what the
   specification says this step enqueues — decided at Publish time from the subscriptions of that moment, whatever
   Subscribe/Unsubscribe did before or does later; a Dequeue that returns a message returns the head of the chosen
   queue.  Holds at every step of every history (Publish steps with a '#' level in the topic name excepted). *)
Theorem C06_delivery_step : forall cap ops,
  Forall (fun x => let '(st, o, r, st') := x in delivery_ok st o r st' = true) (trace (init cap) ops).
Proof. exact delivery_along. Qed.
Print Assumptions C06_delivery_step.

(* in particular: a queued message survives an Unsubscribe, and Dequeue hands out the head of the queue whatever the
   subscriptions are at that moment (only its QoS is capped) *)
Theorem C06_unsubscribe_keeps_queues : forall st c fs k s,
  get_session st k = Some s ->
  exists s', get_session (snd (unsubscribe st c fs)) k = Some s' /\ s_tq s' = s_tq s /\ s_sq s' = s_sq s.
Proof. exact unsubscribe_keeps_queues. Qed.
Print Assumptions C06_unsubscribe_keeps_queues.

Theorem C06_dequeue_returns_head : forall st c temp k s m rest,
  session_of st c = Some (k, s) -> queue temp s = m :: rest ->
  exists m', fst (dequeue st c temp) = RMsg m' /\
             m_topic m' = m_topic m /\ m_payload m' = m_payload m /\ m_retain m' = m_retain m /\ m_qos m' <= m_qos m /\
             exists s', get_session (snd (dequeue st c temp)) k = Some s' /\ queue temp s' = rest /\
                        queue (negb temp) s' = queue (negb temp) s /\ s_subs s' = s_subs s.
Proof. exact dequeue_returns_head. Qed.
Print Assumptions C06_dequeue_returns_head.

(* "Everything else is unchanged", at every step of every history (`frame_ok`, Broker/BackendFrame.v): a session's
   subscriptions change only by a Subscribe/Unsubscribe of the connection holding it; its active connection only when
   a Setup completes on it or its holder terminates; a session disappears only as the temporary session of a
   terminating connection or the stored session of a client id whose clean Setup completes, and appears only as the
   (empty) session a completing Setup hands out.  With C06_delivery_step (queues) nothing about a session changes
   except as the operations say. *)
Theorem C06_frame : forall cap ops,
  Forall (fun x => let '(st, o, r, st') := x in frame_ok st o r st' = true) (trace (init cap) ops).
Proof. exact frame_along. Qed.
Print Assumptions C06_frame.

(* lookupSubscription (Tree.MatchFirst as coded: the last report of the walk wins) finds a
   subscription iff the session holds a matching filter, and what it finds matches *)
Theorem C06_match_first : forall subs t,
  name_ok t = true ->
  is_some (pick_sub subs t) = has_match subs t /\
  (forall s, pick_sub subs t = Some s -> In s subs /\ topic_matches (fst s) t = true).
Proof. intros subs t H. split; [exact (pick_sub_has_match subs t H)|exact (pick_sub_sound subs t)]. Qed.
Print Assumptions C06_match_first.

(* non-vacuity: overlapping filters a/+@1, a/#@0 and a QoS 2 retained publish on a/b: one copy,
   flag cleared, capped to the QoS of the filter MatchFirst reports (a/#) *)
Definition b (s : string) : bytes := list_byte_of_string s.
Example C06_nonvacuous :
  fst (run (init 2)
    [OSetup 1 (b "x") false; OSubscribe 1 [(b "a/+", 1); (b "a/#", 0)] [[]; []];
     OSetup 2 [] true; OPublish 2 (Msg (b "a/b") (b "p") 2 true) []; ODequeue 1 false; ODequeue 1 false])
  = [RSetup false; ROk; RSetup false; ROk; RMsg (Msg (b "a/b") (b "p") 0 false); REmpty].
Proof. vm_compute; reflexivity. Qed.

(* non-vacuity of the delivery log: two matching QoS>=1 publishes, one dequeue, one non-matching publish *)
Example C06_delivery_log_nonvacuous :
  let ops := [OSetup 1 (b "x") false; OSubscribe 1 [(b "a/#", 1)] [[]]; OSetup 2 [] true;
              OPublish 2 (Msg (b "a/b") (b "p1") 1 true) []; OPublish 2 (Msg (b "a/b") (b "p2") 2 false) [];
              ODequeue 1 false; OPublish 2 (Msg (b "b") (b "p3") 1 false) []] in
  names_ok ops = true /\
  expected (KStored (b "x")) false (trace (init 3) ops) [] = [Msg (b "a/b") (b "p2") 2 false] /\
  option_map s_sq (get_session (run_state (init 3) ops) (KStored (b "x"))) = Some [Msg (b "a/b") (b "p2") 2 false].
Proof. vm_compute; repeat split; reflexivity. Qed.
