(* C19 — Concurrent sends stay whole; close loses nothing; no hang after close or error.
   Only statements, `exact`, Print Assumptions, and Examples.

   CN (Transport/BaseConn.v): Send/Close, Receive/SetReadTimeout are atomic events
   (the two mutexes; trusted + race detector), the flush timer and carrier failures are
   events / scripts.  The theorems hold for EVERY interleaving of events of any number of
   senders and EVERY carrier script (write failure after k writes, deadline failure after k
   calls, failing Close, source ending anywhere), for every codec (detect/decode).
   Runtime clauses — real mutex atomicity, "no call blocks" — are checked by the harness
   (watchdog, -race), not proved: PARTIAL. *)
From Coq Require Import List NArith Bool.
From Coq.Strings Require Import Byte.
From GM Require Import Codec.Packet Stream.Stream Stream.EncStream Stream.EncStreamProofs
  Transport.BaseConn Transport.BaseConnProofs Stream.ToyCodec.
Import ListNotations.
Open Scope N_scope.

(* the wire is always a prefix of the concatenation of the encodings handed to the writer, in
   the order of the Send events (the serialisation order under sendMutex, which extends every
   sender's own order); all of them returned nil except possibly the last, after which the
   writer is dead; the accepted log is exactly the Sends that returned nil, in event order.
   Hence: whole packets only, never interleaved, per-sender order kept. *)
Theorem C19_whole : forall detect decode d0 wl cs e lim dl dlc cf evs s rs,
  Forall good_ev evs ->
  cn_run detect decode (cinit d0 wl cs e lim dl dlc cf) evs = (s, rs) ->
  (exists rest, cn_wire s ++ rest = log_bytes (c_sent s)) /\
  (c_sent s = c_acc s \/ exists x, c_sent s = x :: c_acc s /\ e_berr (c_enc s) <> None) /\
  rev (c_acc s) = accepted evs rs.
Proof. exact whole. Qed.
Print Assumptions C19_whole.

(* Close on a connection whose carrier has not failed: the wire then holds every accepted send,
   the last buffered one included; nothing is left in the buffer; Close returns nil *)
Theorem C19_close_flushes : forall detect decode s s' r,
  inv s -> healthy (c_enc s) -> cn_step detect decode s CClose = (s', r) ->
  cn_wire s' = log_bytes (c_acc s') /\ c_acc s' = c_acc s /\ c_sent s' = c_acc s' /\
  e_buf (c_enc s') = [] /\ c_closed s' = true /\
  (c_closed s = false -> c_clfail s = false -> r = CROk).
Proof. exact close_flushes. Qed.
Print Assumptions C19_close_flushes.

(* the same from the initial state: any mix of flushed / buffered Sends of any senders, timer
   firings, delay changes, then Close, no carrier failure: every Send returned nil, Close
   returned nil, and the wire is exactly everything that was sent, in order *)
Theorem C19_close_loses_nothing : forall detect decode d0 cs e lim dl dlc evs s rs,
  Forall quiet_ev evs ->
  cn_run detect decode (cinit d0 None cs e lim dl dlc false) (evs ++ [CClose]) = (s, rs) ->
  cn_wire s = concat (sends_of evs) /\ e_buf (c_enc s) = [] /\
  Forall (fun r => r = CROk \/ r = CRNone) rs /\ last rs CRNone = CROk.
Proof. exact close_loses_nothing. Qed.
Print Assumptions C19_close_loses_nothing.

(* the invariant behind the clauses below holds after every event sequence *)
Theorem C19_invariant : forall detect decode evs s s' rs,
  inv s -> Forall good_ev evs -> cn_run detect decode s evs = (s', rs) -> inv s'.
Proof. exact run_inv. Qed.
Print Assumptions C19_invariant.

(* every error from Send or Receive, and every Close, leaves the carrier closed *)
Theorem C19_errors_close : forall detect decode s ev s' r,
  cn_step detect decode s ev = (s', r) ->
  match ev, r with
  | CSend _ _ _, CROk => True
  | CSend _ _ _, _ => c_closed s' = true
  | CReceive, CRPacket _ _ => True
  | CReceive, _ => c_closed s' = true
  | CClose, _ => c_closed s' = true
  | _, _ => True
  end.
Proof. exact errors_close. Qed.
Print Assumptions C19_errors_close.

(* after Close or any error: a Send that has to flush (sync, or delay 0) fails at once *)
Theorem C19_after_close_flushed : forall detect decode s who bs async s' r,
  inv s -> c_closed s = true -> bs <> [] -> async = false \/ e_delay0 (c_enc s) = true ->
  cn_step detect decode s (CSend who (Some bs) async) = (s', r) -> r <> CROk.
Proof. exact after_close_flushed_send. Qed.
Print Assumptions C19_after_close_flushed.

(* if a buffered Send is accepted there, its bytes are in the buffer and the timer is armed
   (or the writer is already dead) … *)
Theorem C19_after_close_buffered : forall detect decode s who bs async s',
  inv s -> c_closed s = true -> bs <> [] ->
  cn_step detect decode s (CSend who (Some bs) async) = (s', CROk) ->
  c_closed s' = true /\ e_buf (c_enc s') <> [] /\ (e_armed (c_enc s') = true \/ e_berr (c_enc s') <> None).
Proof. exact after_close_buffered_send. Qed.
Print Assumptions C19_after_close_buffered.

(* … the next timer firing kills the buffered writer … *)
Theorem C19_after_close_timer : forall detect decode s s' r,
  inv s -> c_closed s = true -> e_buf (c_enc s) <> [] -> cn_step detect decode s CTimer = (s', r) ->
  e_berr (c_enc s') <> None.
Proof. exact after_close_timer. Qed.
Print Assumptions C19_after_close_timer.

(* … and from then on EVERY Send of a packet and every Close reports an error (bufio.Writer's
   error is sticky; stronger than "the first Send after the flush delay fails") *)
Theorem C19_dead_writer_forever : forall detect decode s ev s' r,
  e_berr (c_enc s) <> None -> good_ev ev -> cn_step detect decode s ev = (s', r) ->
  e_berr (c_enc s') <> None /\
  match ev with CSend _ _ _ | CClose => r <> CROk | _ => True end.
Proof. exact dead_writer_forever. Qed.
Print Assumptions C19_dead_writer_forever.

(* Receive after Close / error never waits for the carrier: a packet cut from the front of the
   bytes already buffered (strictly shrinking them) or an error; an error once they are used up *)
Theorem C19_after_close_receive : forall detect decode s s' r,
  inv s -> c_closed s = true -> cn_step detect decode s CReceive = (s', r) ->
  c_closed s' = true /\
  match r with
  | CRPacket fr p => d_buf (c_dec s) = fr ++ d_buf (c_dec s') /\ fr <> []
  | CRRecvErr _ | CRErr _ => True
  | _ => False
  end /\
  (d_buf (c_dec s) = [] -> r = CRRecvErr (ESource code_closed)).
Proof. exact after_close_receive. Qed.
Print Assumptions C19_after_close_receive.

(* ---------------------------------------------------------------- non-vacuity *)

(* two senders, buffered sends, Close flushes both; afterwards a buffered send is accepted,
   the timer fires, every later send (buffered or flushed) fails; Receive fails *)
Example C19_example :
  let '(s, rs) := cn_run detect_impl toy_decode (cinit false None [] SEof 0 None true false)
      [CSend 1 (Some [xc0; x00]) true; CSend 2 (Some [x40; x02; x00; x07]) true; CClose;
       CSend 2 (Some [xe0; x00]) true; CTimer;
       CSend 1 (Some [xc0; x00]) true; CSend 1 (Some [xc0; x00]) true; CSend 1 (Some [xc0; x00]) false; CReceive; CClose] in
  cn_wire s = [xc0; x00; x40; x02; x00; x07] /\
  rs = [CROk; CROk; CROk; CROk; CRNone; CRErr 2; CRErr 2; CRErr 2; CRRecvErr (ESource 2); CRErr 2] /\
  map fst (rev (c_acc s)) = [1; 2; 2].
Proof. vm_compute. repeat split. Qed.

(* data that had arrived before Close is still delivered when the carrier tolerates
   SetReadDeadline after Close (c_dlc = false); a carrier failure after one write cuts
   nothing in the middle of a packet *)
Example C19_example_receive_and_failure :
  let '(s, rs) := cn_run detect_impl toy_decode (cinit true (Some 1) [[xc0; x00; xe0; x00]; [xc0]] SEof 0 None false false)
      [CReceive; CSend 1 (Some [xc0; x00]) false; CClose; CReceive; CReceive; CSend 2 (Some [xe0; x00]) false] in
  rs = [CRPacket [xc0; x00] Pingreq; CROk; CROk; CRPacket [xe0; x00] Disconnect; CRRecvErr (ESource 2); CRErr 2] /\
  cn_wire s = [xc0; x00].
Proof. vm_compute. repeat split. Qed.
