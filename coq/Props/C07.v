(* C07 — Broker acks a publisher only after acceptance; QoS 2 is forwarded exactly once.

   Property (properties.jsonl, C07): the broker sends PUBACK (QoS 1) or PUBCOMP (QoS 2) for a
   message only after the backend has accepted responsibility for it, and PUBREC only after the
   message has been recorded in the publisher's session.  For every interleaving of
   retransmitted PUBLISH and PUBREL packets and of connection failures at any point of the
   handshake followed by session resumption, each QoS 2 message is handed on for delivery
   exactly once.  Every PUBREL - also one for an unknown packet id - is answered by a PUBCOMP.

   The theorems are about BC (coq/Broker/Conn.v), the monitor of one broker connection
   (/repo/broker/client.go) over the events a recording Conn/Session/Backend observe;
   `bc_run es = Some s` says "the model accepts the trace es" (a session lifetime: any number
   of connections over one session, with every scheduling of processor, dequeuer, acker,
   cleanup and of the backend's acknowledgement closures, and every failure of a write, a
   session operation or a backend call).  The clauses are the scanners of
   coq/Broker/ConnSpec.v, which look at the trace alone.

   For EVERY accepted trace:

   C07_pubrec_after_store   A PUBREC id is sent only by the goroutine that received, as its last
                            packet, a QoS 2 PUBLISH with that id, and only after its
                            `Save Incoming (PUBLISH id)` succeeded.
   C07_pubrel_answered      Whenever the connection is quiescent (alive, processor back in
                            Receive, dequeuer blocked, acker idle, ack queue empty, no closure
                            running), every PUBREL received on this connection has had a PUBCOMP
                            with its id sent successfully - by the processor itself when the
                            session does not know the id, otherwise by the acker after the
                            backend invoked the closure - except for PUBRELs whose backend
                            Publish the backend has not acknowledged yet (closure not invoked).
   (C07_ack_after_accept    = C20_responses, Props/C20.v: PUBACK/PUBCOMP only for a closure the
                            backend has invoked, with the id of the request it was handed out
                            for, at most once.  Proved in Broker/ConnProofsA_resp2.v as
                            c20_responses_holds; to restate it here add
                              (stated below as C07_ack_after_accept)
                              Proof. exact ConnProofsA_resp2.c20_responses_holds. Qed.)

   Exactly-once.  A handshake of id starts when a PUBLISH id is saved in the incoming store; a
   backend Publish issued for PUBREL id is acknowledged when the backend invokes its closure;
   the closure releases the handshake by deleting the stored PUBLISH, and only then queues
   PUBCOMP.
     c07_no_publish_after_release   once released, no further backend Publish for id until a new
                                    PUBLISH id is saved;
     c07_single_ack                 at most one backend Publish of a handshake is acknowledged
                                    (an acknowledgement whose release failed does not count).
   Both are FALSE of the model - and of the code (open known finding) - when the backend
   acknowledges late: C07_*_refuted give accepted traces (the first one observed on the
   implementation).  They hold for every accepted trace that satisfies `prompt_acks`:
   whenever a PUBREL's stored PUBLISH is looked up and found, (1) no goroutine is inside an
   acknowledgement of an earlier hand-over of that id with its Delete still to come, and (2)
   every earlier hand-over of that id that has not been acknowledged yet is never acknowledged
   afterwards ("acknowledge before the next PUBREL for that id is processed, or never").
   MemoryBackend, which acknowledges inside Publish, satisfies it trivially; so does a backend
   that never acknowledges.

   Only statements, `exact`, Print Assumptions, and non-vacuity examples. *)
From Coq Require Import List NArith Bool.
From Coq.Strings Require Import Byte.
From GM Require Import Base.Lts Codec.Packet Session.Store Broker.Conn Broker.ConnSpec
  Broker.ConnProofsB0 Broker.ConnProofsB2 Broker.ConnProofsB5 Broker.ConnProofsB6 Broker.ConnProofsB7
  Broker.ConnSpec3 Broker.ConnProofsA_resp2 Broker.ConnProofsA_tok.
(* further theorems of this property about the connection monitor: *)
From GM Require Props.C07_progress.
Import ListNotations.
Open Scope N_scope.

(* PUBACK / PUBCOMP (and SUBACK / UNSUBACK) leave only for a request whose closure the backend
   has invoked, with that request's id, at most once; the processor itself sends PUBCOMP only
   for a PUBREL whose id the session does not know (clause c20_responses, shared with C20) *)
Theorem C07_ack_after_accept : forall es s, bc_run es = Some s -> c20_responses es = true.
Proof. exact c20_responses_holds. Qed.
Print Assumptions C07_ack_after_accept.

Theorem C07_pubrec_after_store : forall es s, bc_run es = Some s -> c07_pubrec_after_store es = true.
Proof. exact pubrec_after_store. Qed.
Print Assumptions C07_pubrec_after_store.

Theorem C07_pubrel_answered : forall es s, bc_run es = Some s -> c07_pubrel_answered es = true.
Proof. exact pubrel_answered. Qed.
Print Assumptions C07_pubrel_answered.

(* the full-strength exactly-once statements; both are refuted *)
Definition C07_no_publish_after_release_full : Prop :=
  forall es s, bc_run es = Some s -> c07_no_publish_after_release es = true.
Definition C07_single_ack_full : Prop :=
  forall es s, bc_run es = Some s -> c07_single_ack es = true.

Theorem C07_no_publish_after_release_refuted :
  exists es s, bc_run es = Some s /\ c07_no_publish_after_release es = false.
Proof. exact no_publish_after_release_refuted. Qed.
Print Assumptions C07_no_publish_after_release_refuted.

Theorem C07_single_ack_refuted : exists es s, bc_run es = Some s /\ c07_single_ack es = false.
Proof. exact single_ack_refuted. Qed.
Print Assumptions C07_single_ack_refuted.

Theorem C07_no_publish_after_release_partial : forall es s,
  bc_run es = Some s -> prompt_acks es = true -> c07_no_publish_after_release es = true.
Proof. exact no_publish_after_release_partial. Qed.
Print Assumptions C07_no_publish_after_release_partial.

Theorem C07_single_ack_partial : forall es s,
  bc_run es = Some s -> prompt_acks es = true -> c07_single_ack es = true.
Proof. exact single_ack_partial. Qed.
Print Assumptions C07_single_ack_partial.

(* ---- non-vacuity: traces observed on the implementation (go/cmd/brokerconn, family c07) and
   constructed ones; `accepted es` is `bc_run es <> None`, `all_c07` the four clauses above ---- *)

(* a full QoS 2 handshake with a synchronous acknowledgement, then quiescence *)
Example C07_ex_handshake :
  accepted tr_handshake = true /\ prompt_acks tr_handshake = true /\ all_c07 tr_handshake = true.
Proof. exact tr_handshake_ok. Qed.

(* a retransmitted PUBREL is answered directly with PUBCOMP: no second backend Publish *)
Example C07_ex_pubrel_retransmitted :
  accepted tr_pubrel_retx = true /\ prompt_acks tr_pubrel_retx = true /\ all_c07 tr_pubrel_retx = true.
Proof. exact tr_pubrel_retx_ok. Qed.

(* the repaired defect: the PUBCOMP write fails, new connection, session resumed, the
   retransmitted PUBREL is answered directly without a second backend Publish *)
Example C07_ex_pubcomp_write_fails :
  accepted tr_pubcomp_write_fails = true /\ prompt_acks tr_pubcomp_write_fails = true /\
  all_c07 tr_pubcomp_write_fails = true.
Proof. exact tr_pubcomp_write_fails_ok. Qed.

(* the closure's removal of the stored PUBLISH fails (session error), the client resumes and
   retransmits PUBREL: handed on and acknowledged again, which both clauses allow because the
   handshake was never released *)
Example C07_ex_release_fails_then_resume :
  accepted tr_delfail_resume = true /\ prompt_acks tr_delfail_resume = true /\ all_c07 tr_delfail_resume = true.
Proof. exact tr_delfail_resume_ok. Qed.

(* a backend that never acknowledges: quiescent with the PUBREL unanswered, allowed *)
Example C07_ex_never_acknowledged :
  accepted tr_never_ack = true /\ prompt_acks tr_never_ack = true /\ all_c07 tr_never_ack = true.
Proof. exact tr_never_ack_ok. Qed.

(* the refuting traces violate the hypothesis of the partial theorems, as they must:
   observed (late acknowledgement across a retransmitted PUBREL) ... *)
Example C07_ex_late_ack :
  accepted tr_late_ack = true /\ prompt_acks tr_late_ack = false /\
  c07_pubrec_after_store tr_late_ack = true /\ c07_pubrel_answered tr_late_ack = true /\
  c07_no_publish_after_release tr_late_ack = true /\ c07_single_ack tr_late_ack = false.
Proof. exact tr_late_ack_ok. Qed.

(* ... and constructed (the late acknowledgement releases the handshake between the processor's
   Lookup and its backend Publish; the same with the closure already invoked at the Lookup) *)
Example C07_ex_race :
  accepted tr_race = true /\ prompt_acks tr_race = false /\ c07_no_publish_after_release tr_race = false.
Proof. exact tr_race_ok. Qed.
Example C07_ex_race_busy :
  accepted tr_race_busy = true /\ prompt_acks tr_race_busy = false /\
  c07_no_publish_after_release tr_race_busy = false.
Proof. exact tr_race_busy_ok. Qed.
