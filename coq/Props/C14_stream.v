(* C14, stream level (separate file: the stream models and the connection models share names).
   Every byte stream a peer may send — in any fragmentation, with or without a read limit — is turned
   by the stream decoder with the real codec into packets followed by one terminal error; the run never
   ends in fuel exhaustion, every frame was accepted by the decoder model (never a panic), the frames
   are a prefix of the bytes sent, and with a limit no allocation request and no frame exceeds it. *)
From Coq Require Import List NArith Bool.
From Coq.Strings Require Import Byte.
From GM Require Import Codec.Packet Codec.Dec Stream.Stream Stream.StreamCodec Stream.StreamTotal.
Import ListNotations.
Open Scope N_scope.

Theorem C14_total_stream : forall lim cs e,
  let a := dec_all detect_impl codec_decode lim cs e in
  a_err a <> EOutOfFuel /\
  term_err_codec lim e (a_err a) /\
  Forall (fun fp => exists ty n, Dec.decode_go ty (fst fp) = Dec.DOk (snd fp) n /\ n <= len (fst fp)) (a_frames a) /\
  (exists rest, concat cs = concat (map fst (a_frames a)) ++ rest) /\
  (0 < lim -> Forall (fun x => x <= lim) (a_allocs a)) /\
  (0 < lim -> Forall (fun fp => len (fst fp) <= lim) (a_frames a)).
Proof. exact stream_total. Qed.
Print Assumptions C14_total_stream.
