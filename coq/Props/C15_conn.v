(* C15 — Per-publisher message order is preserved end to end, including
   retransmissions: the part that one broker connection (/repo/broker/client.go)
   contributes, stated over the traces of the connection model BC (Broker/Conn.v)
   by the clauses of Broker/ConnSpec2.v.  Only statements, `exact`, Print Assumptions.

   What each clause means for C15:

   C15_in_order        Inbound direction.  One processor goroutine per connection
                       handles the packets in arrival order; every backend Publish it
                       issues is for the packet it received LAST (a QoS 0/1 PUBLISH
                       with exactly that message, or the PUBREL releasing a stored
                       QoS 2 message), and at most one per received packet.  Hence the
                       messages of one publisher at one QoS level reach the backend
                       (whose global mutex orders the fan-out, Broker/Backend.v) in
                       the order in which they were published.

   C15_release_intact  The message handed to the backend for PUBREL id is exactly the
                       message of the PUBLISH stored under id (topic, payload, qos,
                       retain as stored): the QoS 2 detour through the session store
                       neither reorders nor alters what is delivered.

   C15_dequeue_order   Outbound direction.  The single dequeuer goroutine forwards in
                       dequeue order: between two dequeues it sends exactly one fresh
                       PUBLISH, carrying the dequeued message; so a subscriber is sent
                       the messages in the order of its session queue.

   C15_resend_order    "Packets retransmitted after a session is resumed are sent in
                       the order of their original transmission": what the session
                       lists on resume is in the order in which the ids were first
                       saved; a PUBREL that replaced its PUBLISH keeps the place.
                       (c08_resend, property C08, says the list is then re-sent in
                       exactly that order before anything new is dequeued.)  The
                       theorem is about the model's list store (Session/Store.v,
                       first-save order); that the Go PacketStore lists in this order
                       is what the session check (C18) and the brokerconn check
                       compare on the implementation. *)
From Coq Require Import List NArith Bool.
From Coq.Strings Require Import Byte.
From GM Require Import Base.Lts Codec.Packet Session.Store Broker.Conn Broker.ConnSpec Broker.ConnSpec2
  Broker.ConnSpec5 Broker.ConnProofsD0 Broker.ConnProofsD1 Broker.ConnProofsD5 Broker.ConnProofsDTraces.
Import ListNotations.
Open Scope N_scope.

Theorem C15_in_order : forall es s, bc_run es = Some s -> c15_in_order es = true.
Proof. exact c15_in_order_holds. Qed.
Print Assumptions C15_in_order.

Theorem C15_release_intact : forall es s, bc_run es = Some s -> c15_release_intact es = true.
Proof. exact c15_release_intact_holds. Qed.
Print Assumptions C15_release_intact.

Theorem C15_resend_order : forall es s, bc_run es = Some s -> c15_resend_order es = true.
Proof. exact c15_resend_order_holds. Qed.
Print Assumptions C15_resend_order.

Theorem C15_dequeue_order : forall es s, bc_run es = Some s -> c15_dequeue_order es = true.
Proof. exact c15_dequeue_order_holds. Qed.
Print Assumptions C15_dequeue_order.

(* C15_resend_first (clause c15_resend_first of Broker/ConnSpec5.v): retransmissions come
   first.  On every connection, from the successful Setup until Restore -- while the stored
   outgoing packets are listed and re-sent -- nothing is dequeued (no EDeqCall / EDeqRet) and
   nothing is sent except, by the processor, the CONNACK and then exactly the listed packets
   (PUBLISH with dup set, PUBREL) in listing order; Restore only when the list is exhausted.
   With C15_resend_order (the list is in original-transmission order) and C15_dequeue_order
   this is "packets retransmitted after a session is resumed are sent in the order of their
   original transmission", ahead of anything published while the subscriber was offline. *)
Theorem C15_resend_first : forall es s, bc_run es = Some s -> c15_resend_first es = true.
Proof. exact c15_resend_first_holds. Qed.
Print Assumptions C15_resend_first.

(* the resume witness satisfies it; a fresh PUBLISH overtaking the retransmission, a
   re-send out of listing order and an early Restore are rejected (by the model too) *)
Example C15_resend_first_witness :
  (exists s, bc_run td_resume = Some s) /\ c15_resend_first td_resume = true /\
  c15_resend_first td_bad_rf_overtake = false /\ c15_resend_first td_bad_rf_order = false /\
  c15_resend_first td_bad_rf_early = false /\ c15_dequeue_order td_bad_rf_overtake = true.
Proof. split; [vm_compute; eexists; reflexivity|]. vm_compute. repeat split; reflexivity. Qed.

(* ------------------------------------------------------------ non-vacuity *)

(* inbound QoS 0 / QoS 1 / QoS 1 flows, each ending in a backend Publish: accepted,
   three Publish calls *)
Example C15_witness_qos1 :
  (exists s, bc_run td_in_q1 = Some s) /\ count_ev is_pub td_in_q1 = 3%nat /\ c15_in_order td_in_q1 = true.
Proof. split; [vm_compute; eexists; reflexivity|split; vm_compute; reflexivity]. Qed.

(* inbound QoS 2 flow (PUBLISH, duplicate PUBLISH, PUBREL, release, PUBCOMP; a second
   PUBREL for the released id): accepted, exactly one backend Publish *)
Example C15_witness_qos2 :
  (exists s, bc_run td_in_q2 = Some s) /\ count_ev is_pub td_in_q2 = 1%nat /\
  c15_in_order td_in_q2 = true /\ c15_release_intact td_in_q2 = true.
Proof. split; [vm_compute; eexists; reflexivity|repeat split; vm_compute; reflexivity]. Qed.

(* three deliveries (QoS 1, 0, 2) in dequeue order *)
Example C15_witness_dequeue :
  (exists s, bc_run td_deq = Some s) /\ count_ev is_deqmsg td_deq = 3%nat /\ c15_dequeue_order td_deq = true.
Proof. split; [vm_compute; eexists; reflexivity|split; vm_compute; reflexivity]. Qed.

(* a resume that lists two stored packets in first-save order, the first one a PUBREL
   that replaced its PUBLISH; what is listed is exactly [PUBREL 1; PUBLISH 2] *)
Example C15_witness_resume :
  (exists s, bc_run td_resume = Some s) /\ c15_resend_order td_resume = true /\
  In (EAll 5 Outgoing (Some [Pubrel 1; Publish false td_q1 2])) td_resume /\
  In (ESave 3 Outgoing (Publish false td_q2 1) true) td_resume /\
  In (ESave 2 Outgoing (Pubrel 1) true) td_resume.
Proof.
  split; [vm_compute; eexists; reflexivity|]. split; [vm_compute; reflexivity|].
  unfold td_resume. repeat split; repeat (apply in_or_app; first [left; cbn; tauto|right]); cbn; tauto.
Qed.

(* the clauses do reject: wrong message, two Publishes for one packet, altered release,
   listing out of first-save order, a dequeue before the previous message was sent, a
   PUBLISH carrying another message *)
Example C15_clauses_reject :
  c15_in_order td_bad_order = false /\ c15_in_order td_bad_twice = false /\
  c15_release_intact td_bad_release = false /\ c15_resend_order td_bad_resend = false /\
  c15_dequeue_order td_bad_deq = false /\ c15_dequeue_order td_bad_deq2 = false.
Proof. vm_compute. repeat split; reflexivity. Qed.
