(* C07 — "the publisher's handshake always terminates", the part one broker connection
   contributes, as statements about the state of the connection model BC (Broker/Conn.v)
   at quiescence (the model-state counterpart of the trace clause c07_pubrel_answered).
   Only statements, `exact`, Print Assumptions.

   pending_pubrels es   (Broker/ConnSpec5.v) the ids of the PUBRELs received on the
                        current connection for which no PUBCOMP has been sent yet, read
                        off the trace alone.
   awaits_ack s id c    (Broker/ConnProofsD4.v) c is a closure in the table of s, of the
                        current connection, of kind KPubcomp id, with status CReg:
                        handed to the backend with the Publish that PUBREL id
                        triggered, and not invoked yet.

   C07_pubrel_waits_for_ack   In every state in which the model accepts the quiescence
                        marker (the connection is alive, the processor is back in
                        Receive, the acker has nothing to send, no closure is running),
                        every pending PUBREL id has such a closure: the ONLY thing
                        standing between the publisher and its PUBCOMP is the backend's
                        acknowledgement of the publish (no lost PUBREL, no PUBCOMP stuck
                        in the connection).  Stated over traces (bc_run (es ++
                        [EQuiescent])) and over states (quiescent s = true).

   C07_ack_leads_to_pubcomp   ... and once the backend acknowledges -- on any goroutine
                        g -- nothing else is needed: the acknowledgement, the release
                        (delete) of the stored PUBLISH, the closure's return and the
                        acker's PUBCOMP id are accepted in a row, after which the ack
                        queue is empty again and id has left the pending list (once). *)
From Coq Require Import List NArith Bool.
From Coq.Strings Require Import Byte.
From GM Require Import Base.Lts Codec.Packet Session.Store Broker.Conn Broker.ConnSpec Broker.ConnSpec2
  Broker.ConnSpec5 Broker.ConnProofsD4 Broker.ConnProofsDTraces.
Import ListNotations.
Open Scope N_scope.

Theorem C07_pubrel_waits_for_ack : forall es s, bc_run (es ++ [EQuiescent]) = Some s ->
  forall id, In id (pending_pubrels es) ->
  exists c, In c (clos s) /\ c_conn c = conn_no s /\ c_kind c = KPubcomp id /\ c_stat c = CReg.
Proof. exact pubrel_waits_for_ack. Qed.
Print Assumptions C07_pubrel_waits_for_ack.

Theorem C07_pubrel_waits_for_ack_state : forall es s, bc_run es = Some s -> quiescent s = true ->
  forall id, In id (pending_pubrels es) -> exists c, awaits_ack s id c.
Proof. exact pubrel_waits_for_ack_state. Qed.
Print Assumptions C07_pubrel_waits_for_ack_state.

Theorem C07_ack_leads_to_pubcomp : forall es s, bc_run es = Some s -> quiescent s = true ->
  forall id c, awaits_ack s id c -> forall g,
  let tail := [EAckCall (c_k c) g; EDelete g Incoming id true; EAckRet (c_k c) g;
               ETx (ack_g s) (Pubcomp id) true true] in
  (exists s', Lts.run step s tail = Some s' /\ ackq s' = []) /\
  pending_pubrels (es ++ tail) = nremove1 id (pending_pubrels es).
Proof. exact ack_leads_to_pubcomp. Qed.
Print Assumptions C07_ack_leads_to_pubcomp.

(* ------------------------------------------------------------ non-vacuity *)

(* two QoS 2 handshakes have reached PUBREL and the backend withholds both
   acknowledgements: the state is quiescent, both ids are pending, their closures (keys
   11 and 12) are registered and not invoked; then the backend acknowledges id 2 on a
   goroutine of its own (9) and the PUBCOMP leaves; id 1 is still pending *)
Example C07_witness_withheld :
  exists s, bc_run (td_withheld ++ [EQuiescent]) = Some s /\ quiescent s = true /\
    pending_pubrels td_withheld = [2; 1] /\
    In (Clo 11 1 (KPubcomp 1) CReg) (clos s) /\ In (Clo 12 1 (KPubcomp 2) CReg) (clos s) /\ conn_no s = 1 /\
    ack_g s = 4 /\
    (exists s', Lts.run step s [EAckCall 12 9; EDelete 9 Incoming 2 true; EAckRet 12 9; ETx 4 (Pubcomp 2) true true] = Some s'
                /\ quiescent s' = true) /\
    pending_pubrels (td_withheld ++ [EAckCall 12 9; EDelete 9 Incoming 2 true; EAckRet 12 9; ETx 4 (Pubcomp 2) true true]) = [1].
Proof.
  vm_compute. eexists. split; [reflexivity|]. repeat split; try tauto. eexists. split; reflexivity.
Qed.

(* the complete flow td_in_q2 (backend acknowledges inside Publish): nothing pending at
   its quiescence marker *)
Example C07_witness_none_pending :
  pending_pubrels (td_open td_conn 2 10 false [] ++
    [EDeqCall 3; ERx 2 (Publish false td_q2 1); ESave 2 Incoming (Publish false td_q2 1) true; ETx 2 (Pubrec 1) true true;
     ERx 2 (Pubrel 1); ELookup 2 Incoming 1 (LRes (Some (Publish false td_q2 1)));
     EPub 2 td_q2 (Some 1); EAckCall 1 2; EDelete 2 Incoming 1 true; EAckRet 1 2; EPubRet 2 true;
     ETx 4 (Pubcomp 1) true true]) = [].
Proof. vm_compute. reflexivity. Qed.
