(* C12 — Will is published exactly once iff an accepted client ends without DISCONNECT.

   Property (properties.jsonl, C12): for every way a connection can end — DISCONNECT
   packet, network error or EOF, malformed or out-of-protocol packet, keep-alive expiry,
   displacement by a newer connection with the same client id, backend or engine shutdown,
   rejected authentication — the will supplied at connect is published, with its topic,
   payload, QoS and retain flag, exactly once if the client had been accepted and did not
   send DISCONNECT, and is not published in any other case.

   The theorem is about BC (coq/Broker/Conn.v), the monitor of one broker connection;
   bc_run es = Some s says "the model accepts the trace es"; all the ways to end are
   different orders of the same events (receive error, Die with its cause, Close from
   outside, failing backend or session calls).  The clause c12_will (coq/Broker/ConnSpec.v)
   looks at the trace alone.  For EVERY accepted trace, per connection (ENewConn … EClosed):

   C12_will   A Publish without ack closure by a goroutine that never received anything
              (the cleanup) happens only if Setup succeeded, the CONNECT (first packet)
              carried a will, no DISCONNECT was received after acceptance, with exactly that
              message, at most once, and before Terminate; Terminate is called only if
              authentication succeeded, at most once; and when the connection ends (EClosed)
              the will HAS been published exactly once iff (Setup ok, will present, no
              DISCONNECT), and Terminate HAS been called exactly once iff authentication
              succeeded.

   Only statements, `exact`, Print Assumptions, and non-vacuity examples. *)
From Coq Require Import List NArith Bool.
From Coq.Strings Require Import Byte.
From GM Require Import Base.Lts Codec.Packet Session.Store Broker.Conn Broker.ConnSpec
  Broker.ConnProofsA_will Broker.ConnProofsA_all Broker.ConnProofsA_traces.
Import ListNotations.
Open Scope N_scope.

Theorem C12_will : forall es s, bc_run es = Some s -> c12_will es = true.
Proof. exact c12_will_holds. Qed.
Print Assumptions C12_will.

Theorem C12_spec : forall es s, bc_run es = Some s -> spec_c12 es = true.
Proof. exact spec_c12_holds. Qed.
Print Assumptions C12_spec.

(* ---- non-vacuity: concrete traces the model accepts (observed on the implementation by
   go/cmd/brokerconn, family c12; see Broker/ConnProofsA_traces.v) ---- *)

(* the peer vanishes in the middle of a QoS 2 handshake: the cleanup publishes the will
   (QoS 1, retained), then terminates *)
Example C12_nonvacuous_will : exists s,
  bc_run [ENewConn;
          ERx 2 (Connect (Conn [x63] 0 [] [] true (Some (Msg [x77; x2f; x31] [x78] 1 true)) 4));
          EAuth 2 AOk; ESetup 2 (SOk false false 10 10 10); ETx 2 (Connack false 0) false true;
          EAll 2 Outgoing (Some []); ERestore 2 true; EDeqCall 3;
          ERx 2 (Publish false (Msg [x74] [x01] 2 false) 1);
          ESave 2 Incoming (Publish false (Msg [x74] [x01] 2 false) 1) true; ETx 2 (Pubrec 1) true true;
          ERxErr 2; EDie 2 KTransport; EConnClose 2; EDeqRet 3 QNone;
          EPub 4 (Msg [x77; x2f; x31] [x78] 1 true) None; EPubRet 4 true; ETerm 4 true; EClosed] = Some s.
Proof. vm_compute. eexists. reflexivity. Qed.

(* DISCONNECT: no will *)
Example C12_nonvacuous_disconnect : exists s,
  bc_run [ENewConn;
          ERx 2 (Connect (Conn [x63] 0 [] [] true (Some (Msg [x77; x2f; x31] [x78] 1 true)) 4));
          EAuth 2 AOk; ESetup 2 (SOk false false 10 10 10); ETx 2 (Connack false 0) false true;
          EAll 2 Outgoing (Some []); ERestore 2 true; EDeqCall 3;
          ERx 2 Disconnect; EConnClose 2; EDeqRet 3 QNone; ETerm 4 true; EClosed] = Some s.
Proof. vm_compute. eexists. reflexivity. Qed.

(* rejected authentication: no will, no Terminate *)
Example C12_nonvacuous_deny : exists s,
  bc_run [ENewConn;
          ERx 2 (Connect (Conn [x63] 0 [] [] true (Some (Msg [x77; x2f; x31] [x78] 1 true)) 4));
          EAuth 2 ADeny; ETx 2 (Connack false 5) false true; EDie 2 KClient; EConnClose 2; EClosed] = Some s.
Proof. vm_compute. eexists. reflexivity. Qed.

(* observed traces: EOF, DISCONNECT, denial, a second CONNECT (will published), a failing
   backend Publish (will published), an authentication error, Close() from outside *)
Example C12_nonvacuous_observed :
  forallb accepted_a [tr_will_eof; tr_will_disconnect; tr_will_deny; tr_will_second_connect;
                      tr_will_failpub; tr_will_autherr; tr_will_close; tr_will_deny ++ tr_will_eof] = true.
Proof. vm_compute. reflexivity. Qed.

(* the clause is not trivially true: a missing will, a will after DISCONNECT, a second
   will, a changed message, a will for a client that was never set up *)
Example C12_clause_discriminates :
  let c := Connect (Conn [] 0 [] [] true (Some (Msg [x77] [x78] 1 true)) 4) in
  let w := Msg [x77] [x78] 1 true in
  c12_will [ENewConn; ERx 2 c; EAuth 2 AOk; ESetup 2 (SOk false false 1 1 1); ETerm 4 true; EClosed] = false /\
  c12_will [ENewConn; ERx 2 c; EAuth 2 AOk; ESetup 2 (SOk false false 1 1 1); ERx 2 Disconnect; EPub 4 w None] = false /\
  c12_will [ENewConn; ERx 2 c; EAuth 2 AOk; ESetup 2 (SOk false false 1 1 1); EPub 4 w None; EPub 4 w None] = false /\
  c12_will [ENewConn; ERx 2 c; EAuth 2 AOk; ESetup 2 (SOk false false 1 1 1); EPub 4 (Msg [x77] [x78] 0 true) None] = false /\
  c12_will [ENewConn; ERx 2 c; EAuth 2 ADeny; EPub 4 w None] = false /\
  c12_will [ENewConn; ERx 2 c; EAuth 2 AOk; ESetup 2 (SOk false false 1 1 1); EPub 4 w None; ETerm 4 true; EClosed] = true.
Proof. vm_compute. repeat split; reflexivity. Qed.
