(* IdsProofs.v — C18, counter part: ids are never zero, and any 65535
   consecutive allocations are pairwise distinct from every one of the 65536
   states, across the uint16 wrap. *)
From Coq Require Import List NArith ZArith Lia ZifyN ZifyNat ZifyBool.
From GM Require Import Session.Ids.
Import ListNotations.
Open Scope N_scope.
Ltac Zify.zify_post_hook ::= Z.div_mod_to_equations.

Lemma next_id_nonzero s : fst (next_id s) <> 0.
Proof. unfold next_id; cbn [fst]. destruct (N.eqb_spec s 0); lia. Qed.

Lemma next_id_state_bound s : snd (next_id s) < 65536.
Proof. unfold next_id; cbn [snd]. lia. Qed.

Lemma next_id_id_bound s : s < 65536 -> fst (next_id s) < 65536.
Proof. unfold next_id; cbn [fst]. destruct (N.eqb_spec s 0); lia. Qed.

Lemma nth_id_nonzero s k : nth_id s k <> 0.
Proof. revert s; induction k as [|k IH]; intros s; cbn [nth_id]; [apply next_id_nonzero|apply IH]. Qed.

(* closed form: the counter walks the cycle 1,2,…,65535 *)
Lemma nth_id_closed s k :
  s < 65536 -> nth_id s k = ((N.max s 1 - 1 + N.of_nat k) mod 65535) + 1.
Proof.
  revert s; induction k as [|k IH]; intros s Hs; cbn [nth_id].
  - unfold next_id; cbn [fst]. destruct (N.eqb_spec s 0); lia.
  - rewrite IH by apply next_id_state_bound.
    unfold next_id; cbn [snd]. destruct (N.eqb_spec s 0); lia.
Qed.

Lemma nth_id_distinct s k1 k2 :
  s < 65536 -> (k1 < k2)%nat -> N.of_nat k2 - N.of_nat k1 < 65535 ->
  nth_id s k1 <> nth_id s k2.
Proof.
  intros Hs Hlt Hw. rewrite !nth_id_closed by exact Hs. lia.
Qed.

Lemma nth_id_range s k : s < 65536 -> 1 <= nth_id s k <= 65535.
Proof. intros Hs. rewrite nth_id_closed by exact Hs. lia. Qed.

(* take_ids is the list of nth_id *)
Lemma take_ids_nth s n :
  fst (take_ids s n) = map (nth_id s) (seq 0 n).
Proof.
  revert s; induction n as [|n IH]; intros s; [reflexivity|].
  cbn [take_ids]. destruct (next_id s) as [i s'] eqn:E.
  specialize (IH s'). destruct (take_ids s' n) as [ids s''].
  cbn [fst] in *. cbn [seq map]. f_equal.
  - cbn [nth_id]. now rewrite E.
  - rewrite IH. rewrite <- seq_shift, map_map. apply map_ext. intros k. cbn [nth_id]. now rewrite E.
Qed.

Lemma NoDup_map_seq (f : nat -> N) n :
  (forall i j, (i < j < n)%nat -> f i <> f j) -> NoDup (map f (seq 0 n)).
Proof.
  intros H. assert (G : forall a m, (a + m <= n)%nat -> NoDup (map f (seq a m))).
  { intros a m; revert a; induction m as [|m IH]; intros a Hb; cbn [seq map]; constructor.
    - rewrite in_map_iff. intros (j & Hj & Hin). apply in_seq in Hin.
      apply (H a j); [lia|congruence].
    - apply IH; lia. }
  apply (G 0%nat n); lia.
Qed.

Theorem take_ids_nodup s n :
  s < 65536 -> N.of_nat n <= 65535 -> NoDup (fst (take_ids s n)) /\ ~ In 0 (fst (take_ids s n)).
Proof.
  intros Hs Hn. rewrite take_ids_nth. split.
  - apply NoDup_map_seq. intros i j Hij. apply nth_id_distinct; [exact Hs|lia|lia].
  - rewrite in_map_iff. intros (k & Hk & _). exact (nth_id_nonzero s k Hk).
Qed.

Lemma reset_starts_at_one k : nth_id reset_ids k = (N.of_nat k mod 65535) + 1.
Proof. unfold reset_ids. rewrite nth_id_closed by lia. f_equal. Qed.
