(* StoreSpec.v — the specification the packet store is compared with: per
   direction a plain map from packet id to the last packet saved under it
   (a function N -> option packet), plus the order in which the ids currently
   present were first saved.  Nothing here mentions the store's list. *)
From Coq Require Import List NArith Bool.
From GM Require Import Codec.Packet Session.Ids Session.Store.
Import ListNotations.
Open Scope N_scope.

Definition amap := N -> option packet.
Definition amap_empty : amap := fun _ => None.
Definition upd (m : amap) (i : N) (v : option packet) : amap :=
  fun j => if j =? i then v else m j.

Record dspec := DSpec { d_map : amap; d_keys : list N }.
Definition dspec_empty := DSpec amap_empty [].

Definition dspec_save (s : dspec) (p : packet) : dspec :=
  match get_id p with
  | None => s                                            (* packets without id are ignored *)
  | Some i => DSpec (upd (d_map s) i (Some p))
                    (match d_map s i with Some _ => d_keys s | None => d_keys s ++ [i] end)
  end.

Definition dspec_delete (s : dspec) (i : N) : dspec :=
  DSpec (upd (d_map s) i None) (filter (fun j => negb (j =? i)) (d_keys s)).

Definition opt_list {A} (o : option A) : list A := match o with Some x => [x] | None => [] end.

Definition dspec_all (s : dspec) : list packet :=
  flat_map (fun i => opt_list (d_map s i)) (d_keys s).

Record sspec := SSpec { sp_counter : N; sp_in : dspec; sp_out : dspec }.
Definition sspec_new := SSpec 1 dspec_empty dspec_empty.

Definition sp_dir (s : sspec) (d : direction) := match d with Incoming => sp_in s | Outgoing => sp_out s end.
Definition sp_with (s : sspec) (d : direction) (x : dspec) :=
  match d with
  | Incoming => SSpec (sp_counter s) x (sp_out s)       (* the other direction is untouched *)
  | Outgoing => SSpec (sp_counter s) (sp_in s) x
  end.

Definition sspec_step (s : sspec) (o : sop) : sspec * sout :=
  match o with
  | ONextID => let '(i, c) := next_id (sp_counter s) in (SSpec c (sp_in s) (sp_out s), RId i)
  | OSave d p => (sp_with s d (dspec_save (sp_dir s d) p), RUnit)
  | OLookup d i => (s, RPacket (d_map (sp_dir s d) i))
  | ODelete d i => (sp_with s d (dspec_delete (sp_dir s d) i), RUnit)
  | OAll d => (s, RAll (dspec_all (sp_dir s d)))
  | OReset => (SSpec 1 dspec_empty dspec_empty, RUnit)
  end.

Fixpoint sspec_run (s : sspec) (ops : list sop) : sspec * list sout :=
  match ops with
  | [] => (s, [])
  | o :: ops' => let '(s', r) := sspec_step s o in
                 let '(s'', rs) := sspec_run s' ops' in (s'', r :: rs)
  end.
