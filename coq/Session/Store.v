(* Store.v — model of session.PacketStore and session.MemorySession
   (/repo/session/packet_store.go, memory_session.go).

   The Go store is a map id -> packet plus the sequence number of the first
   save under each id; All() lists by that sequence number.  The model is the
   list of (id, packet) entries in first-save order. *)
From Coq Require Import List NArith Bool.
From GM Require Import Codec.Packet Session.Ids.
Import ListNotations.
Open Scope N_scope.

Definition store := list (N * packet).

Definition store_empty : store := [].

Fixpoint store_put (st : store) (i : N) (p : packet) : store :=
  match st with
  | [] => [(i, p)]
  | (j, q) :: st' => if i =? j then (j, p) :: st' else (j, q) :: store_put st' i p
  end.

(* Save: packets without an id are ignored *)
Definition store_save (st : store) (p : packet) : store :=
  match get_id p with
  | Some i => store_put st i p
  | None => st
  end.

Fixpoint store_lookup (st : store) (i : N) : option packet :=
  match st with
  | [] => None
  | (j, q) :: st' => if i =? j then Some q else store_lookup st' i
  end.

Fixpoint store_delete (st : store) (i : N) : store :=
  match st with
  | [] => []
  | (j, q) :: st' => if i =? j then st' else (j, q) :: store_delete st' i
  end.

Definition store_all (st : store) : list packet := map snd st.

(* MemorySession *)
Inductive direction := Incoming | Outgoing.

Record session := Sess { s_counter : N; s_in : store; s_out : store }.

Definition session_new : session := Sess init_ids [] [].

Definition sess_store (s : session) (d : direction) : store :=
  match d with Incoming => s_in s | Outgoing => s_out s end.

Definition sess_with (s : session) (d : direction) (st : store) : session :=
  match d with
  | Incoming => Sess (s_counter s) st (s_out s)
  | Outgoing => Sess (s_counter s) (s_in s) st
  end.

Inductive sop :=
| ONextID
| OSave (d : direction) (p : packet)
| OLookup (d : direction) (i : N)
| ODelete (d : direction) (i : N)
| OAll (d : direction)
| OReset.

Inductive sout :=
| RId (i : N)
| RUnit
| RPacket (p : option packet)
| RAll (ps : list packet).

Definition sess_step (s : session) (o : sop) : session * sout :=
  match o with
  | ONextID => let '(i, c) := next_id (s_counter s) in (Sess c (s_in s) (s_out s), RId i)
  | OSave d p => (sess_with s d (store_save (sess_store s d) p), RUnit)
  | OLookup d i => (s, RPacket (store_lookup (sess_store s d) i))
  | ODelete d i => (sess_with s d (store_delete (sess_store s d) i), RUnit)
  | OAll d => (s, RAll (store_all (sess_store s d)))
  | OReset => (Sess reset_ids [] [], RUnit)
  end.

Fixpoint sess_run (s : session) (ops : list sop) : session * list sout :=
  match ops with
  | [] => (s, [])
  | o :: ops' => let '(s', r) := sess_step s o in
                 let '(s'', rs) := sess_run s' ops' in (s'', r :: rs)
  end.
