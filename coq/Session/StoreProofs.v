(* StoreProofs.v — C18, store part: the list store refines StoreSpec for
   every operation history. *)
From Coq Require Import List NArith Bool Lia.
From GM Require Import Codec.Packet Session.Ids Session.Store Session.StoreSpec.
Import ListNotations.
Open Scope N_scope.

Definition keys (st : store) : list N := map fst st.

Lemma lookup_put st i p j :
  store_lookup (store_put st i p) j = if j =? i then Some p else store_lookup st j.
Proof.
  induction st as [|[k q] st IH]; cbn [store_put store_lookup].
  - destruct (j =? i); reflexivity.
  - destruct (N.eqb_spec i k) as [->|Hik]; cbn [store_lookup].
    + destruct (N.eqb_spec j k); reflexivity.
    + rewrite IH. destruct (N.eqb_spec j k) as [->|]; [|reflexivity].
      destruct (N.eqb_spec k i); [congruence|reflexivity].
Qed.

Lemma lookup_none_notin st i : store_lookup st i = None <-> ~ In i (keys st).
Proof.
  induction st as [|[k q] st IH]; cbn [store_lookup keys map fst In]; [tauto|].
  destruct (N.eqb_spec i k) as [->|Hik].
  - split; [discriminate|intros H; exfalso; apply H; now left].
  - rewrite IH. unfold keys. split; [intros H [E|E]; [congruence|tauto]|tauto].
Qed.

Lemma keys_put st i p :
  keys (store_put st i p) =
  match store_lookup st i with Some _ => keys st | None => keys st ++ [i] end.
Proof.
  induction st as [|[k q] st IH]; cbn [store_put store_lookup keys map fst app]; [reflexivity|].
  destruct (N.eqb_spec i k) as [->|Hik]; cbn [map fst]; [reflexivity|].
  fold (keys (store_put st i p)). rewrite IH. fold (keys st).
  destruct (store_lookup st i); reflexivity.
Qed.

Lemma filter_id {A} (f : A -> bool) l : (forall x, In x l -> f x = true) -> filter f l = l.
Proof.
  induction l as [|x l IH]; intros H; cbn [filter]; [reflexivity|].
  rewrite (H x (or_introl eq_refl)). f_equal. apply IH. intros y Hy. apply H. now right.
Qed.

Lemma keys_delete st i :
  NoDup (keys st) -> keys (store_delete st i) = filter (fun j => negb (j =? i)) (keys st).
Proof.
  induction st as [|[k q] st IH]; intros Hnd; cbn [store_delete keys map fst filter]; [reflexivity|].
  inversion Hnd as [|? ? Hnotin Hnd']; subst.
  destruct (N.eqb_spec i k) as [->|Hik].
  - rewrite N.eqb_refl. cbn [negb]. fold (keys st).
    symmetry. apply filter_id. intros j Hj. destruct (N.eqb_spec j k) as [->|]; [contradiction|reflexivity].
  - destruct (N.eqb_spec k i); [congruence|]. cbn [negb map fst]. f_equal. apply IH; assumption.
Qed.

Lemma lookup_delete st i j :
  NoDup (keys st) ->
  store_lookup (store_delete st i) j = if j =? i then None else store_lookup st j.
Proof.
  induction st as [|[k q] st IH]; intros Hnd; cbn [store_delete store_lookup].
  - destruct (j =? i); reflexivity.
  - inversion Hnd as [|? ? Hnotin Hnd' Heq]. clear Heq.
    destruct (N.eqb_spec i k) as [Eik|Hik].
    + destruct (N.eqb_spec j i) as [Eji|Hji].
      * apply lookup_none_notin. rewrite Eji, Eik. exact Hnotin.
      * destruct (N.eqb_spec j k) as [Ejk|]; [congruence|reflexivity].
    + cbn [store_lookup]. rewrite IH by assumption.
      destruct (N.eqb_spec j k) as [Ejk|]; [|reflexivity].
      destruct (N.eqb_spec j i); [congruence|reflexivity].
Qed.

Lemma NoDup_app_intro_single (l : list N) x : NoDup l -> ~ In x l -> NoDup (l ++ [x]).
Proof.
  induction l as [|y l IH]; intros Hnd Hn; cbn [app]; [constructor; [intros []|constructor]|].
  inversion Hnd; subst. constructor.
  - rewrite in_app_iff. cbn [In]. intros [?|[?|[]]]; [contradiction|subst; apply Hn; now left].
  - apply IH; [assumption|]. intros ?; apply Hn; now right.
Qed.

Lemma nodup_put st i p : NoDup (keys st) -> NoDup (keys (store_put st i p)).
Proof.
  intros H. rewrite keys_put. destruct (store_lookup st i) eqn:E; [exact H|].
  apply lookup_none_notin in E. apply NoDup_app_intro_single; assumption.
Qed.

Lemma nodup_delete st i : NoDup (keys st) -> NoDup (keys (store_delete st i)).
Proof. intros H. rewrite keys_delete by exact H. apply NoDup_filter. exact H. Qed.

Lemma flat_map_ext_in' {A B} (f g : A -> list B) l :
  (forall x, In x l -> f x = g x) -> flat_map f l = flat_map g l.
Proof.
  induction l as [|x l IH]; intros H; cbn [flat_map]; [reflexivity|].
  rewrite (H x (or_introl eq_refl)), IH; [reflexivity|]. intros y Hy; apply H; now right.
Qed.

Lemma all_via_keys st :
  NoDup (keys st) ->
  store_all st = flat_map (fun i => opt_list (store_lookup st i)) (keys st).
Proof.
  induction st as [|[k q] st IH]; intros Hnd; [reflexivity|].
  inversion Hnd as [|? ? Hnotin Hnd']; subst.
  cbn [store_all map snd keys fst flat_map store_lookup]. rewrite N.eqb_refl. cbn [opt_list app].
  f_equal. fold (store_all st) (keys st). rewrite IH by assumption.
  apply flat_map_ext_in'.
  intros i Hi. destruct (N.eqb_spec i k) as [->|]; [contradiction|reflexivity].
Qed.

(* the simulation relation between a list store and its specification *)
Definition drel (st : store) (sp : dspec) : Prop :=
  NoDup (keys st) /\ keys st = d_keys sp /\ forall i, store_lookup st i = d_map sp i.

Lemma drel_empty : drel store_empty dspec_empty.
Proof. repeat split; constructor. Qed.

Lemma drel_save st sp p : drel st sp -> drel (store_save st p) (dspec_save sp p).
Proof.
  intros (Hnd & Hk & Hm). unfold store_save, dspec_save.
  destruct (get_id p) as [i|]; [|split; [assumption|split; assumption]].
  repeat split; cbn [d_map d_keys].
  - apply nodup_put; exact Hnd.
  - rewrite keys_put, Hk, Hm. reflexivity.
  - intros j. rewrite lookup_put. unfold upd. now rewrite Hm.
Qed.

Lemma drel_delete st sp i : drel st sp -> drel (store_delete st i) (dspec_delete sp i).
Proof.
  intros (Hnd & Hk & Hm). unfold dspec_delete. repeat split; cbn [d_map d_keys].
  - apply nodup_delete; exact Hnd.
  - rewrite keys_delete by exact Hnd. now rewrite Hk.
  - intros j. rewrite lookup_delete by exact Hnd. unfold upd. now rewrite Hm.
Qed.

Lemma drel_all st sp : drel st sp -> store_all st = dspec_all sp.
Proof.
  intros (Hnd & Hk & Hm). rewrite all_via_keys by exact Hnd. unfold dspec_all. rewrite Hk.
  apply flat_map_ext. intros i. now rewrite Hm.
Qed.

Definition srel (s : session) (sp : sspec) : Prop :=
  s_counter s = sp_counter sp /\ drel (s_in s) (sp_in sp) /\ drel (s_out s) (sp_out sp).

Lemma srel_dir s sp d : srel s sp -> drel (sess_store s d) (sp_dir sp d).
Proof. intros (_ & Hi & Ho). destruct d; assumption. Qed.

Lemma srel_with s sp d st x : srel s sp -> drel st x -> srel (sess_with s d st) (sp_with sp d x).
Proof. intros (Hc & Hi & Ho) H. destruct d; (split; [exact Hc|split; assumption]). Qed.

Lemma srel_step s sp o :
  srel s sp -> srel (fst (sess_step s o)) (fst (sspec_step sp o)) /\
               snd (sess_step s o) = snd (sspec_step sp o).
Proof.
  intros R. pose proof R as (Hc & Hi & Ho).
  destruct o as [|d p|d i|d i|d|]; cbn [sess_step sspec_step].
  - rewrite Hc. destruct (next_id (sp_counter sp)) as [i c]. cbn [fst snd].
    split; [split; [reflexivity|split; assumption]|reflexivity].
  - cbn [fst snd]. split; [|reflexivity]. apply srel_with; [exact R|]. apply drel_save, srel_dir, R.
  - cbn [fst snd]. split; [exact R|]. f_equal. apply (srel_dir _ _ d R).
  - cbn [fst snd]. split; [|reflexivity]. apply srel_with; [exact R|]. apply drel_delete, srel_dir, R.
  - cbn [fst snd]. split; [exact R|]. f_equal. apply drel_all, srel_dir, R.
  - cbn [fst snd]. split; [|reflexivity]. split; [reflexivity|split; apply drel_empty].
Qed.

Theorem session_refines_spec ops :
  forall s sp, srel s sp ->
  snd (sess_run s ops) = snd (sspec_run sp ops) /\ srel (fst (sess_run s ops)) (fst (sspec_run sp ops)).
Proof.
  induction ops as [|o ops IH]; intros s sp R; cbn [sess_run sspec_run]; [split; [reflexivity|exact R]|].
  destruct (srel_step s sp o R) as [R' Hout].
  destruct (sess_step s o) as [s' r]. destruct (sspec_step sp o) as [sp' r'].
  cbn [fst snd] in R', Hout. subst r'.
  specialize (IH s' sp' R'). destruct (sess_run s' ops) as [s'' rs]. destruct (sspec_run sp' ops) as [sp'' rs'].
  cbn [fst snd] in *. destruct IH as [E R'']. split; [now rewrite E|exact R''].
Qed.

Lemma srel_new : srel session_new sspec_new.
Proof. split; [reflexivity|split; apply drel_empty]. Qed.

(* ids of a store are exactly the ids the packets carry *)
Definition ids_ok (st : store) : Prop := forall i p, In (i, p) st -> get_id p = Some i.

Lemma ids_ok_put st i p : ids_ok st -> get_id p = Some i -> ids_ok (store_put st i p).
Proof.
  induction st as [|[k q] st IH]; intros Hok Hp j r; cbn [store_put In].
  - intros [E|[]]; injection E as <- <-; exact Hp.
  - destruct (N.eqb_spec i k) as [->|]; cbn [In].
    + intros [E|Hin]; [injection E as <- <-; exact Hp|apply Hok; now right].
    + intros [E|Hin]; [apply Hok; now left|].
      apply IH; [intros ? ? ?; apply Hok; now right|exact Hp|exact Hin].
Qed.
