(* Ids.v — model of session.IDCounter (/repo/session/id_counter.go).
   The state is the uint16 field `next`; uint16 wrap-around is written out. *)
From Coq Require Import List NArith.
Import ListNotations.
Open Scope N_scope.

(* NextID: if next == 0 { next++ }; id := next; next++ (uint16); return id *)
Definition next_id (s : N) : N * N :=
  let s1 := if s =? 0 then 1 else s in (s1, (s1 + 1) mod 65536).

(* Reset: next = 1 *)
Definition reset_ids : N := 1.

(* NewIDCounter *)
Definition init_ids : N := 1.

(* the id returned by the (k+1)-th consecutive NextID call from state s *)
Fixpoint nth_id (s : N) (k : nat) : N :=
  match k with
  | O => fst (next_id s)
  | S k' => nth_id (snd (next_id s)) k'
  end.

(* ids and final state of n consecutive calls *)
Fixpoint take_ids (s : N) (n : nat) : list N * N :=
  match n with
  | O => ([], s)
  | S n' => let '(id, s') := next_id s in
            let '(ids, s'') := take_ids s' n' in (id :: ids, s'')
  end.
