(* KeepAlive.v — the arithmetic of broker.Client.processConnect
   (/repo/broker/client.go): MaximumKeepAlive default, the enforced keep alive,
   the read timeout with its 50% grace period, the token defaults.
   Definitions only (extractable); proofs are in KeepAliveProofs.v.

   Go type                       model
   time.Duration (int64, ns)     Z where the sign is tested by the code, N after defaulting
   int (Parallel..., Inflight)   Z before defaulting, N after
   uint16 KeepAlive (seconds)    N  (theorems assume < 65536)
   float64(d) for 0 <= d < 2^63  f64_of_int : N -> N   (the integer the double denotes)
*)
From Coq Require Import NArith ZArith Bool.
Open Scope N_scope.

Definition second : N := 1000000000.
Definition default_max_keep_alive : N := 300 * second.      (* 5 * time.Minute *)
Definition default_token_timeout : N := 30 * second.
Definition default_count : N := 10.

(* if c.MaximumKeepAlive <= 0 { c.MaximumKeepAlive = 5 * time.Minute } *)
Definition eff_max (m : Z) : N :=
  if (m <=? 0)%Z then default_max_keep_alive else Z.to_N m.

(* requestedKeepAlive := time.Duration(pkt.KeepAlive) * time.Second *)
Definition requested (ka : N) : N := ka * second.

(* if requestedKeepAlive == 0 || requestedKeepAlive > c.MaximumKeepAlive { requestedKeepAlive = c.MaximumKeepAlive } *)
Definition eff_keep_alive (m : Z) (ka : N) : N :=
  let mx := eff_max m in
  let r := requested ka in
  if (r =? 0) || (mx <? r) then mx else r.

(* float64(r) for an int64 r >= 0: exact below 2^53, otherwise rounded to 53
   significant bits, to nearest, ties to the even significand (IEEE 754
   default rounding, which is what the conversion instruction does). The
   result is the integer the double denotes. *)
Definition f64_of_int (r : N) : N :=
  if r <? 2 ^ 53 then r
  else
    let e := N.log2 r - 52 in
    let q := N.shiftr r e in
    let rem := r - N.shiftl q e in
    let half := N.shiftl 1 (e - 1) in
    let q' := if rem <? half then q
              else if half <? rem then q + 1
              else if N.even q then q else q + 1 in
    N.shiftl q' e.

(* time.Duration(float64(r) * 0.5): the product with 0.5 is exact (a power of
   two, no underflow for integers), the conversion back truncates. *)
Definition grace (r : N) : N := f64_of_int r / 2.

(* int64 value of the two's complement bit pattern n < 2^64 *)
Definition int64_of_bits (n : N) : Z :=
  let n := n mod 2 ^ 64 in
  if n <? 2 ^ 63 then Z.of_N n else (Z.of_N n - 2 ^ 64)%Z.

(* the argument of c.conn.SetReadTimeout:
   requestedKeepAlive + time.Duration(float64(requestedKeepAlive)*0.5), an int64 addition (wraps) *)
Definition read_timeout (m : Z) (ka : N) : Z :=
  let r := eff_keep_alive m ka in
  int64_of_bits (r + grace r).

(* the closed form the theorems compare against: 1.5 * r, rounded down *)
Definition one_and_a_half (r : N) : N := r + r / 2.

(* if c.ParallelPublishes <= 0 { = 10 }   (same for ParallelSubscribes, InflightMessages) *)
Definition eff_count (n : Z) : N := if (n <=? 0)%Z then default_count else Z.to_N n.

(* if c.TokenTimeout == 0 { = 30 s }   — a negative value is kept *)
Definition eff_token_timeout (t : Z) : Z :=
  if (t =? 0)%Z then Z.of_N default_token_timeout else t.

(* make(chan packet.Generic, c.ParallelPublishes+c.ParallelSubscribes) *)
Definition ack_queue_cap (pp ps : Z) : N := eff_count pp + eff_count ps.

(* everything the connect handler derives from the client's settings and the
   CONNECT packet's keep alive, as the harness observes it *)
Record settings := Settings {
  s_max_keep_alive : N;      (* MaximumKeepAlive after defaulting *)
  s_read_timeout   : Z;      (* argument of SetReadTimeout *)
  s_publishes      : N;
  s_subscribes     : N;
  s_inflight       : N;
  s_token_timeout  : Z;
  s_ack_queue      : N }.

Definition connect_settings (m : Z) (ka : N) (pp ps im tt : Z) : settings :=
  Settings (eff_max m) (read_timeout m ka) (eff_count pp) (eff_count ps) (eff_count im)
           (eff_token_timeout tt) (ack_queue_cap pp ps).
