(* Dispatch.v — which URL scheme selects which carrier in transport.Dialer.Dial
   and transport.Launcher.Launch (/repo/transport/dialer.go, launcher.go), the
   default ports, and what a connection attempt of each kind can reach.
   Definitions only (extractable); proofs in DispatchProofs.v.

   The scheme text is what stands before "://" in the address.  net/url
   (trusted) checks its syntax and lower-cases it; both are modelled here
   (scheme_ok, lower) so that the tie can start from the address as written. *)
From Coq Require Import List NArith Bool.
From Coq.Strings Require Import Byte.
From GM Require Import Codec.Packet.
Import ListNotations.
Open Scope N_scope.

Inductive carrier := KNet | KTls | KWs | KWss.

Definition carrier_eqb (a b : carrier) : bool :=
  match a, b with KNet, KNet | KTls, KTls | KWs, KWs | KWss, KWss => true | _, _ => false end.

(* the names as the switch statements spell them *)
Definition s_tcp   : bytes := ["t"; "c"; "p"]%byte.
Definition s_mqtt  : bytes := ["m"; "q"; "t"; "t"]%byte.
Definition s_tls   : bytes := ["t"; "l"; "s"]%byte.
Definition s_ssl   : bytes := ["s"; "s"; "l"]%byte.
Definition s_mqtts : bytes := ["m"; "q"; "t"; "t"; "s"]%byte.
Definition s_ws    : bytes := ["w"; "s"]%byte.
Definition s_wss   : bytes := ["w"; "s"; "s"]%byte.

(* switch addr.Scheme { case "tcp", "mqtt": … case "tls", "ssl", "mqtts": … case "ws": … case "wss": … default: unsupported }
   — Dialer.Dial *)
Definition dial_kind (s : bytes) : option carrier :=
  if bytes_eqb s s_tcp || bytes_eqb s s_mqtt then Some KNet
  else if bytes_eqb s s_tls || bytes_eqb s s_ssl || bytes_eqb s s_mqtts then Some KTls
  else if bytes_eqb s s_ws then Some KWs
  else if bytes_eqb s s_wss then Some KWss
  else None.

(* the same switch, written a second time in Launcher.Launch *)
Definition launch_kind (s : bytes) : option carrier :=
  if bytes_eqb s s_tcp || bytes_eqb s s_mqtt then Some KNet
  else if bytes_eqb s s_tls || bytes_eqb s s_ssl || bytes_eqb s s_mqtts then Some KTls
  else if bytes_eqb s s_ws then Some KWs
  else if bytes_eqb s s_wss then Some KWss
  else None.

Definition scheme_table : list (bytes * carrier) :=
  [(s_tcp, KNet); (s_mqtt, KNet); (s_tls, KTls); (s_ssl, KTls); (s_mqtts, KTls); (s_ws, KWs); (s_wss, KWss)].

(* DialConfig.ensureDefaults: 1883, 8883, 80, 443 unless configured (empty = not configured) *)
Record dial_ports := Ports { p_tcp : option N; p_tls : option N; p_ws : option N; p_wss : option N }.
Definition no_ports : dial_ports := Ports None None None None.
Definition or_default (o : option N) (d : N) : N := match o with Some p => p | None => d end.
Definition default_port (cfg : dial_ports) (k : carrier) : N :=
  match k with
  | KNet => or_default (p_tcp cfg) 1883
  | KTls => or_default (p_tls cfg) 8883
  | KWs  => or_default (p_ws cfg) 80
  | KWss => or_default (p_wss cfg) 443
  end.

(* net/url: scheme = letter (letter | digit | '+' | '-' | '.')*, lower-cased by Parse *)
Definition is_upper (b : byte) : bool := (65 <=? Byte.to_N b) && (Byte.to_N b <=? 90).
Definition is_lower (b : byte) : bool := (97 <=? Byte.to_N b) && (Byte.to_N b <=? 122).
Definition is_digit (b : byte) : bool := (48 <=? Byte.to_N b) && (Byte.to_N b <=? 57).
Definition is_letter (b : byte) : bool := is_upper b || is_lower b.
Definition is_scheme_char (b : byte) : bool :=
  is_letter b || is_digit b || (Byte.to_N b =? 43) || (Byte.to_N b =? 45) || (Byte.to_N b =? 46).
Definition scheme_ok (s : bytes) : bool :=
  match s with
  | [] => false
  | b :: r => is_letter b && forallb is_scheme_char r
  end.
Definition lower_byte (b : byte) : byte :=
  if is_upper b then match Byte.of_N (Byte.to_N b + 32) with Some c => c | None => b end else b.
Definition lower (s : bytes) : bytes := map lower_byte s.

(* the outcome of Dial / Launch as far as the dispatch is concerned.
   address as written:  None      = no "scheme://" part, an absolute path such as "/x" (parses, empty scheme)
                        Some s    = s "://" host *)
Inductive outcome := OParseError | OUnsupported | OKind (k : carrier).

Definition dispatch (kind : bytes -> option carrier) (written : option bytes) : outcome :=
  match written with
  | None => OUnsupported
  | Some s =>
      if scheme_ok s then match kind (lower s) with Some k => OKind k | None => OUnsupported end
      else OParseError
  end.

Definition dial_outcome := dispatch dial_kind.
Definition launch_outcome := dispatch launch_kind.

(* what a connection attempt of kind k achieves against a listening server of kind srv: the kind of
   connection it returns, or nothing (the handshake fails).  A plain TCP connect succeeds against
   anything that listens; TLS needs a TLS listener; a WebSocket upgrade needs the matching server. *)
Definition reaches (k srv : carrier) : option carrier :=
  match k, srv with
  | KNet, _ => Some KNet
  | KTls, KTls | KTls, KWss => Some KTls
  | KWs, KWs => Some KWs
  | KWss, KWss => Some KWss
  | _, _ => None
  end.

(* a launched server of kind k: is it a WebSocketServer (else a NetServer), does it listen with TLS *)
Definition server_shape (k : carrier) : bool * bool :=
  match k with KNet => (false, false) | KTls => (false, true) | KWs => (true, false) | KWss => (true, true) end.

Definition all_carriers : list carrier := [KNet; KTls; KWs; KWss].
