(* DispatchProofs.v — facts about the scheme dispatch of Dispatch.v. *)
From Coq Require Import List NArith Bool Lia.
From Coq.Strings Require Import Byte.
From GM Require Import Codec.Packet Misc.Dispatch.
Import ListNotations.
Open Scope N_scope.

Lemma byte_eqb_iff (a b : byte) : Byte.eqb a b = true <-> a = b.
Proof. split; [apply Byte.byte_dec_bl|apply Byte.byte_dec_lb]. Qed.

Lemma bytes_eqb_iff a : forall b, bytes_eqb a b = true <-> a = b.
Proof.
  induction a as [|x a IH]; intros [|y b]; cbn [bytes_eqb]; try (split; [discriminate|discriminate]); [tauto|].
  rewrite andb_true_iff, byte_eqb_iff, IH. split; [intros [-> ->]; reflexivity|intros H; injection H; auto].
Qed.

Lemma bytes_eqb_false a b : bytes_eqb a b = false <-> a <> b.
Proof.
  destruct (bytes_eqb a b) eqn:E.
  - apply bytes_eqb_iff in E. split; [discriminate|congruence].
  - split; [intros _ H; apply bytes_eqb_iff in H; congruence|reflexivity].
Qed.

(* the dial switch is exactly the table of seven names *)
Lemma dial_kind_table s k : dial_kind s = Some k <-> In (s, k) scheme_table.
Proof.
  unfold dial_kind, scheme_table. cbn [In].
  destruct (bytes_eqb s s_tcp) eqn:E1; [apply bytes_eqb_iff in E1; subst s|apply bytes_eqb_false in E1].
  { cbn. split; [intros H; injection H as <-; tauto|]. intros [H|[H|[H|[H|[H|[H|[H|[]]]]]]]]; inversion H; reflexivity. }
  destruct (bytes_eqb s s_mqtt) eqn:E2; [apply bytes_eqb_iff in E2; subst s|apply bytes_eqb_false in E2].
  { cbn. split; [intros H; injection H as <-; tauto|]. intros [H|[H|[H|[H|[H|[H|[H|[]]]]]]]]; inversion H; reflexivity. }
  destruct (bytes_eqb s s_tls) eqn:E3; [apply bytes_eqb_iff in E3; subst s|apply bytes_eqb_false in E3].
  { cbn. split; [intros H; injection H as <-; tauto|]. intros [H|[H|[H|[H|[H|[H|[H|[]]]]]]]]; inversion H; reflexivity. }
  destruct (bytes_eqb s s_ssl) eqn:E4; [apply bytes_eqb_iff in E4; subst s|apply bytes_eqb_false in E4].
  { cbn. split; [intros H; injection H as <-; tauto|]. intros [H|[H|[H|[H|[H|[H|[H|[]]]]]]]]; inversion H; reflexivity. }
  destruct (bytes_eqb s s_mqtts) eqn:E5; [apply bytes_eqb_iff in E5; subst s|apply bytes_eqb_false in E5].
  { cbn. split; [intros H; injection H as <-; tauto|]. intros [H|[H|[H|[H|[H|[H|[H|[]]]]]]]]; inversion H; reflexivity. }
  destruct (bytes_eqb s s_ws) eqn:E6; [apply bytes_eqb_iff in E6; subst s|apply bytes_eqb_false in E6].
  { cbn. split; [intros H; injection H as <-; tauto|]. intros [H|[H|[H|[H|[H|[H|[H|[]]]]]]]]; inversion H; reflexivity. }
  destruct (bytes_eqb s s_wss) eqn:E7; [apply bytes_eqb_iff in E7; subst s|apply bytes_eqb_false in E7].
  { cbn. split; [intros H; injection H as <-; tauto|]. intros [H|[H|[H|[H|[H|[H|[H|[]]]]]]]]; inversion H; reflexivity. }
  cbn. split; [discriminate|]. intros [H|[H|[H|[H|[H|[H|[H|[]]]]]]]]; inversion H; congruence.
Qed.

(* Launch and Dial dispatch identically *)
Lemma launch_agrees s : launch_kind s = dial_kind s.
Proof. reflexivity. Qed.

(* each supported name has exactly one kind *)
Lemma table_functional s k1 k2 : In (s, k1) scheme_table -> In (s, k2) scheme_table -> k1 = k2.
Proof. intros H1 H2. apply dial_kind_table in H1, H2. congruence. Qed.

Lemma table_names_distinct : NoDup (map fst scheme_table).
Proof.
  cbn. repeat constructor; cbn; intros H;
    repeat (destruct H as [H|H]; [discriminate H|]); exact H.
Qed.

(* every supported name is a well-formed, lower-case scheme: none of them can be a parse error *)
Lemma table_names_ok s k : In (s, k) scheme_table -> scheme_ok s = true /\ lower s = s.
Proof.
  cbn. intros [H|[H|[H|[H|[H|[H|[H|[]]]]]]]]; inversion H; subst; split; vm_compute; reflexivity.
Qed.

(* byte level: lower-casing keeps scheme characters and is idempotent *)
Lemma lower_byte_letter b : is_letter (lower_byte b) = is_letter b.
Proof. destruct b; vm_compute; reflexivity. Qed.
Lemma lower_byte_char b : is_scheme_char (lower_byte b) = is_scheme_char b.
Proof. destruct b; vm_compute; reflexivity. Qed.
Lemma lower_byte_idem b : lower_byte (lower_byte b) = lower_byte b.
Proof. destruct b; vm_compute; reflexivity. Qed.

Lemma lower_idem s : lower (lower s) = lower s.
Proof. unfold lower. rewrite map_map. apply map_ext. exact lower_byte_idem. Qed.

Lemma scheme_ok_lower s : scheme_ok (lower s) = scheme_ok s.
Proof.
  destruct s as [|b r]; [reflexivity|]. cbn [lower map scheme_ok]. rewrite lower_byte_letter. f_equal.
  induction r as [|c r IH]; [reflexivity|]. cbn [map forallb]. rewrite lower_byte_char, IH. reflexivity.
Qed.

(* the outcome does not depend on the case the scheme is written in *)
Lemma dispatch_case_insensitive kind s : dispatch kind (Some (lower s)) = dispatch kind (Some s).
Proof. unfold dispatch. rewrite scheme_ok_lower, lower_idem. reflexivity. Qed.

(* the three outcomes, characterised *)
Lemma dial_parse_error s : dial_outcome (Some s) = OParseError <-> scheme_ok s = false.
Proof.
  unfold dial_outcome, dispatch. destruct (scheme_ok s); [|tauto].
  destruct (dial_kind (lower s)); split; discriminate.
Qed.

Lemma dial_supported s k : dial_outcome (Some s) = OKind k <-> scheme_ok s = true /\ In (lower s, k) scheme_table.
Proof.
  unfold dial_outcome, dispatch. rewrite <- dial_kind_table. destruct (scheme_ok s).
  - destruct (dial_kind (lower s)) as [k'|]; split.
    + intros H; injection H as <-. tauto.
    + intros [_ H]; injection H as <-. reflexivity.
    + discriminate.
    + intros [_ H]; discriminate.
  - split; [discriminate|intros [H _]; discriminate].
Qed.

Lemma dial_unsupported s :
  dial_outcome (Some s) = OUnsupported <-> scheme_ok s = true /\ forall k, ~ In (lower s, k) scheme_table.
Proof.
  unfold dial_outcome, dispatch. destruct (scheme_ok s).
  - destruct (dial_kind (lower s)) as [k'|] eqn:E; split.
    + discriminate.
    + intros [_ H]. exfalso. apply (H k'). apply dial_kind_table. exact E.
    + intros _. split; [reflexivity|]. intros k H. apply dial_kind_table in H. congruence.
    + reflexivity.
  - split; [discriminate|intros [H _]; discriminate].
Qed.

Lemma no_scheme_unsupported kind : dispatch kind None = OUnsupported.
Proof. reflexivity. Qed.

Lemma launch_outcome_agrees w : launch_outcome w = dial_outcome w.
Proof. reflexivity. Qed.

(* default ports *)
Lemma default_ports_documented :
  default_port no_ports KNet = 1883 /\ default_port no_ports KTls = 8883 /\
  default_port no_ports KWs = 80 /\ default_port no_ports KWss = 443.
Proof. repeat split; reflexivity. Qed.

Lemma default_ports_configured a b c d :
  let cfg := Ports (Some a) (Some b) (Some c) (Some d) in
  default_port cfg KNet = a /\ default_port cfg KTls = b /\ default_port cfg KWs = c /\ default_port cfg KWss = d.
Proof. repeat split; reflexivity. Qed.

(* what the tie observes identifies the kind: two kinds that reach the same servers in the same way are equal *)
Lemma reaches_identifies k1 k2 : (forall srv, reaches k1 srv = reaches k2 srv) -> k1 = k2.
Proof.
  intros H. pose proof (H KNet) as A. pose proof (H KTls) as B. pose proof (H KWs) as C. pose proof (H KWss) as D.
  destruct k1, k2; cbn in *; congruence.
Qed.

Lemma reaches_own k : reaches k k = Some k.
Proof. destruct k; reflexivity. Qed.

Lemma reaches_kind k srv k' : reaches k srv = Some k' -> k' = k.
Proof. destruct k, srv; cbn; congruence. Qed.

Lemma server_shape_inj k1 k2 : server_shape k1 = server_shape k2 -> k1 = k2.
Proof. destruct k1, k2; cbn; congruence. Qed.
