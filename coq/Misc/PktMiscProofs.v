(* PktMiscProofs.v — the obvious facts about the small functions of PktMisc.v. *)
From Coq Require Import List NArith Bool Lia.
From Coq.Strings Require Import Byte.
From GM Require Import Codec.Packet Misc.PktMisc.
Import ListNotations.
Open Scope N_scope.

Lemma qos_successful_iff q : qos_successful q = true <-> q <= 2.
Proof.
  unfold qos_successful. rewrite !orb_true_iff, !N.eqb_eq. lia.
Qed.

Lemma qos_failure_not_successful : qos_successful 128 = false.
Proof. reflexivity. Qed.

Lemma id_valid_iff id : id_valid id = true <-> id <> 0.
Proof. unfold id_valid. rewrite negb_true_iff, N.eqb_neq. tauto. Qed.

Lemma connack_valid_iff c : connack_valid c = true <-> c <= 5.
Proof. unfold connack_valid. apply N.leb_le. Qed.

(* the six valid codes, enumerated *)
Lemma le5_cases c : c <= 5 -> c = 0 \/ c = 1 \/ c = 2 \/ c = 3 \/ c = 4 \/ c = 5.
Proof. lia. Qed.

Lemma connack_string_invalid c : 5 < c -> connack_string c = connack_invalid_string.
Proof.
  intros H. destruct c as [|p]; [lia|].
  destruct p as [[[q|q|]|[q|q|]|]|[[q|q|]|[q|q|]|]|]; try reflexivity; lia.
Qed.

(* Valid and String agree: the text is "invalid connack code" exactly for the invalid codes *)
Lemma connack_string_valid_iff c : connack_string c = connack_invalid_string <-> connack_valid c = false.
Proof.
  unfold connack_valid. rewrite N.leb_gt. split.
  - intros H. destruct (N.le_gt_cases c 5) as [L|G]; [|lia].
    exfalso. destruct (le5_cases c L) as [->|[->|[->|[->|[->| ->]]]]]; vm_compute in H; discriminate H.
  - apply connack_string_invalid.
Qed.

(* different valid codes have different texts *)
Lemma connack_string_inj c d : c <= 5 -> d <= 5 -> connack_string c = connack_string d -> c = d.
Proof.
  intros Hc Hd.
  destruct (le5_cases c Hc) as [->|[->|[->|[->|[->| ->]]]]];
  destruct (le5_cases d Hd) as [->|[->|[->|[->|[->| ->]]]]]; intros H; try reflexivity; vm_compute in H; discriminate H.
Qed.

(* Type *)
Lemma type_of_code_some t p : type_of_code t = Some p -> t = type_code p.
Proof.
  destruct t as [|q]; [discriminate|].
  destruct q as [[[[r|r|]|[r|r|]|]|[[r|r|]|[r|r|]|]|]|[[[r|r|]|[r|r|]|]|[[r|r|]|[r|r|]|]|]|]; cbn; intros H; try discriminate H; injection H as <-; reflexivity.
Qed.

Lemma type_of_code_code p : type_of_code (type_code p) = Some p.
Proof. destruct p; reflexivity. Qed.

Lemma type_code_range p : 1 <= type_code p <= 14.
Proof. destruct p; cbn; lia. Qed.

Lemma type_valid_iff t : type_valid t = true <-> exists p, type_of_code t = Some p.
Proof.
  unfold type_valid. rewrite andb_true_iff, !N.leb_le. split.
  - intros [L U].
    assert (C : t = 1 \/ t = 2 \/ t = 3 \/ t = 4 \/ t = 5 \/ t = 6 \/ t = 7 \/ t = 8 \/ t = 9 \/ t = 10 \/
                t = 11 \/ t = 12 \/ t = 13 \/ t = 14) by lia.
    repeat (destruct C as [->|C]; [eexists; reflexivity|]). subst t. eexists; reflexivity.
  - intros [p H]. apply type_of_code_some in H. subst t. apply type_code_range.
Qed.

Lemma type_name_known p : type_name p <> type_unknown.
Proof. destruct p; discriminate. Qed.

Lemma type_name_inj p q : type_name p = type_name q -> p = q.
Proof. destruct p, q; intros H; try reflexivity; discriminate H. Qed.

Lemma type_string_code p : type_string (type_code p) = type_name p.
Proof. unfold type_string. rewrite type_of_code_code. reflexivity. Qed.

(* Valid and String agree: "Unknown" exactly for the invalid types *)
Lemma type_string_valid_iff t : type_string t = type_unknown <-> type_valid t = false.
Proof.
  unfold type_string. destruct (type_of_code t) as [p|] eqn:E.
  - split; [intros H; exfalso; exact (type_name_known p H)|].
    intros H. assert (V : type_valid t = true) by (apply type_valid_iff; eexists; exact E). congruence.
  - split; [|reflexivity]. intros _. destruct (type_valid t) eqn:V; [|reflexivity].
    apply type_valid_iff in V. destruct V as [p V]. congruence.
Qed.

(* different valid types have different names *)
Lemma type_string_inj t u : type_valid t = true -> type_valid u = true -> type_string t = type_string u -> t = u.
Proof.
  intros Vt Vu. apply type_valid_iff in Vt, Vu. destruct Vt as [p Hp], Vu as [q Hq].
  unfold type_string. rewrite Hp, Hq. intros H. apply type_name_inj in H. subst q.
  apply type_of_code_some in Hp, Hq. congruence.
Qed.

(* Message.Copy *)
Lemma message_copy_eq m : message_copy m = m.
Proof. destruct m; reflexivity. Qed.

Lemma message_copy_eqb m : message_eqb (message_copy m) m = true.
Proof.
  rewrite message_copy_eq. unfold message_eqb.
  assert (R : forall s, bytes_eqb s s = true).
  { induction s as [|b s IH]; [reflexivity|]. cbn [bytes_eqb]. rewrite IH.
    rewrite (Byte.byte_dec_lb (eq_refl b)). reflexivity. }
  rewrite !R, N.eqb_refl, Bool.eqb_reflx. reflexivity.
Qed.

(* Message.String is inside the model exactly for ASCII topics *)
Lemma quote_byte_some b : (exists x, quote_byte b = Some x) <-> Byte.to_N b < 128.
Proof.
  unfold quote_byte. destruct (128 <=? Byte.to_N b) eqn:E.
  - apply N.leb_le in E. split; [intros [x H]; discriminate|lia].
  - apply N.leb_gt in E. split; [intros _; exact E|]. intros _.
    repeat match goal with |- exists x, (if ?c then _ else _) = Some x => destruct c end; eexists; reflexivity.
Qed.

Lemma quote_body_some s : (exists x, quote_body s = Some x) <-> forallb (fun b => Byte.to_N b <? 128) s = true.
Proof.
  induction s as [|b s IH]; cbn [quote_body forallb].
  - split; [reflexivity|eexists; reflexivity].
  - rewrite andb_true_iff, N.ltb_lt, <- IH, <- quote_byte_some. split.
    + intros [x H]. destruct (quote_byte b) as [y|]; [|discriminate]. destruct (quote_body s) as [z|]; [|discriminate].
      split; eexists; reflexivity.
    + intros [[y Hy] [z Hz]]. rewrite Hy, Hz. eexists; reflexivity.
Qed.

Lemma message_string_defined m :
  (exists x, message_string m = Some x) <-> forallb (fun b => Byte.to_N b <? 128) (m_topic m) = true.
Proof.
  rewrite <- quote_body_some. unfold message_string, quote_go.
  destruct (quote_body (m_topic m)) as [q|]; split; intros [x H]; try discriminate; eexists; reflexivity.
Qed.
