(* EngineProofs.v — invariants of the Engine monitor and soundness of its trace clauses. *)
From Coq Require Import List NArith ZArith Bool Lia.
From GM Require Import Misc.Engine.
Import ListNotations.
Open Scope N_scope.

(* ------------------------------------------------------------------ small facts *)
Lemma upd_same {A} (f : N -> A) k v : upd f k v k = v.
Proof. unfold upd. rewrite N.eqb_refl. reflexivity. Qed.
Lemma upd_other {A} (f : N -> A) k v x : x <> k -> upd f k v x = f x.
Proof. unfold upd. intros H. destruct (N.eqb_spec x k); [contradiction|reflexivity]. Qed.
Lemma upd_cases {A} (f : N -> A) k v x : (x = k /\ upd f k v x = v) \/ (x <> k /\ upd f k v x = f x).
Proof. destruct (N.eq_dec x k) as [->|H]; [left; split; [reflexivity|apply upd_same]|right; split; [exact H|apply upd_other; exact H]]. Qed.

Lemma is_cstate_true x y : is_cstate x y = true -> x = y.
Proof. destruct x, y; cbn; intros H; try discriminate; reflexivity. Qed.
Lemma is_cstate_refl x : is_cstate x x = true.
Proof. destruct x; reflexivity. Qed.

Definition early (x : cstate) : Prop := x = COffered \/ x = CLimit \/ x = CDelay.

(* the step function, one event at a time, with its guards split into hypotheses *)
Ltac destr_step H :=
  unfold step in H;
  repeat match type of H with
  | (match ?x with _ => _ end) = Some _ => let E := fresh "E" in destruct x eqn:E; try discriminate H
  end;
  try (injection H as <-).

Ltac split_guards :=
  repeat match goal with
  | H : _ && _ = true |- _ => apply andb_prop in H; destruct H
  | H : is_cstate _ _ = true |- _ => apply is_cstate_true in H
  | H : negb _ = true |- _ => apply negb_true_iff in H
  end.

Ltac proj := cbn [e_close e_kill e_ran e_holder e_unstarted e_accs e_aids e_conns e_owner e_ret
                  set_close set_kill set_holder set_unstarted set_acc set_accs set_conn owner_after] in *.

(* ------------------------------------------------------------------ reachable-state invariant *)
Record Inv (s : est) : Prop := {
  inv_aids  : forall a, e_accs s a <> ANone -> In a (e_aids s);
  inv_owner : forall c a, e_owner s c = Some a -> early (e_conns s c) -> e_accs s a = AHasConn c;
  inv_fresh : forall c, e_conns s c = CNone -> e_owner s c = None }.

Lemma inv_init : Inv e_init.
Proof. split; cbn; intros; congruence. Qed.

Lemma settle_not_none x : x <> ANone -> settle_acc x <> ANone.
Proof. destruct x; cbn; congruence. Qed.
Lemma settle_hasconn x c : x = AHasConn c -> settle_acc x = AHasConn c.
Proof. intros ->. reflexivity. Qed.
Lemma settle_none_inv x : settle_acc x <> ANone -> x <> ANone.
Proof. destruct x; cbn; congruence. Qed.

Lemma owner_after_accs s c v a :
  e_accs (owner_after s c v) a = match e_owner s c with Some b => upd (e_accs s) b v a | None => e_accs s a end.
Proof. unfold owner_after. destruct (e_owner s c); reflexivity. Qed.
Lemma owner_after_conns s c v : e_conns (owner_after s c v) = e_conns s.
Proof. unfold owner_after. destruct (e_owner s c); reflexivity. Qed.
Lemma owner_after_owner s c v : e_owner (owner_after s c v) = e_owner s.
Proof. unfold owner_after. destruct (e_owner s c); reflexivity. Qed.
Lemma owner_after_aids s c v : e_aids (owner_after s c v) = e_aids s.
Proof. unfold owner_after. destruct (e_owner s c); reflexivity. Qed.
Lemma owner_after_close s c v : e_close (owner_after s c v) = e_close s.
Proof. unfold owner_after. destruct (e_owner s c); reflexivity. Qed.
Lemma owner_after_holder s c v : e_holder (owner_after s c v) = e_holder s.
Proof. unfold owner_after. destruct (e_owner s c); reflexivity. Qed.
Lemma owner_after_ran s c v : e_ran (owner_after s c v) = e_ran s.
Proof. unfold owner_after. destruct (e_owner s c); reflexivity. Qed.
Lemma owner_after_kill s c v : e_kill (owner_after s c v) = e_kill s.
Proof. unfold owner_after. destruct (e_owner s c); reflexivity. Qed.

Lemma early_not x : early x -> x <> CNone /\ x <> CConfigured /\ x <> CReceiving /\ x <> CRejected.
Proof. intros [H|[H|H]]; subst x; repeat split; discriminate. Qed.

Ltac upd_split :=
  repeat match goal with
  | H : context[upd ?f ?k ?v ?x] |- _ =>
      let U := fresh "U" in let Q := fresh "Q" in
      destruct (upd_cases f k v x) as [[Q U]|[Q U]]; rewrite U in *; clear U;
      [try subst x | try (exfalso; apply Q; reflexivity)]
  | |- context[upd ?f ?k ?v ?x] =>
      let U := fresh "U" in let Q := fresh "Q" in
      destruct (upd_cases f k v x) as [[Q U]|[Q U]]; rewrite U in *; clear U;
      [try subst x | try (exfalso; apply Q; reflexivity)]
  end.

Ltac early_tac :=
  match goal with
  | |- early _ => unfold early; tauto
  | H : early ?x, E : ?x = _ |- _ => exfalso; rewrite E in H; destruct H as [H|[H|H]]; discriminate H
  | H : early CConfigured |- _ => exfalso; destruct H as [H|[H|H]]; discriminate H
  | H : early CReceiving |- _ => exfalso; destruct H as [H|[H|H]]; discriminate H
  | H : early CRejected |- _ => exfalso; destruct H as [H|[H|H]]; discriminate H
  | H : early CNone |- _ => exfalso; destruct H as [H|[H|H]]; discriminate H
  end.

(* use the owner invariant on every (owner, early) pair in the context *)
Ltac use_owner Io :=
  repeat match goal with
  | Ho : e_owner ?s ?c = Some ?a |- _ =>
      lazymatch goal with
      | _ : e_accs s a = AHasConn c |- _ => fail
      | _ => let X := fresh "X" in
             assert (X : e_accs s a = AHasConn c) by (apply (Io c a Ho); first [assumption | unfold early; tauto | (unfold early; rewrite_early)])
      end
  end
with rewrite_early :=
  match goal with
  | E : e_conns _ _ = _ |- _ => rewrite E; tauto
  end.

Lemma inv_step g s e s' : Inv s -> step g s e = Some s' -> Inv s'.
Proof.
  intros [Ia Io Ifr] H. destruct e; destr_step H; split_guards; proj.
  all: try (match goal with |- Inv (owner_after ?t ?c ?v) =>
       split; intros; rewrite ?owner_after_accs, ?owner_after_conns, ?owner_after_owner, ?owner_after_aids in *; proj end).
  all: try (split; proj; intros).
  all: try (match goal with |- context[match e_owner ?s ?c with _ => _ end] => destruct (e_owner s c) eqn:Ob
                       | _ : context[match e_owner ?s ?c with _ => _ end] |- _ => destruct (e_owner s c) eqn:Ob end).
  all: upd_split.
  all: try solve [assumption | congruence | apply Ia; congruence | apply Ifr; congruence | early_tac | apply Io; assumption
                 | apply Io; [assumption | unfold early; tauto] | left; reflexivity | right; apply Ia; congruence ].
  all: try (match goal with E : e_conns _ ?c = CNone |- _ => pose proof (Ifr c E) end; congruence).
  all: try (apply Ia; apply settle_none_inv; assumption).
  all: try (match goal with Ho : e_owner _ ?c = Some ?a, He : early _ |- settle_acc _ = _ => rewrite (Io _ _ Ho He); reflexivity end).
  all: try (use_owner Io; try congruence).
  all: apply Ia; congruence.
Qed.

Lemma inv_run g es : forall s s', Inv s -> erun g s es = Some s' -> Inv s'.
Proof.
  induction es as [|e es IH]; intros s s' I H; cbn [erun] in H.
  - injection H as <-. exact I.
  - destruct (step g s e) as [s1|] eqn:E; [|discriminate]. eapply IH; [eapply inv_step; eassumption|exact H].
Qed.

Lemma all_accs_in s p a : all_accs s p = true -> In a (e_aids s) -> p (e_accs s a) = true.
Proof. unfold all_accs. rewrite forallb_forall. intros H I. exact (H a I). Qed.

Lemma all_accs_map s (f : N -> astate) (p q : astate -> bool) :
  (forall a, In a (e_aids s) -> p (e_accs s a) = true -> q (f a) = true) ->
  all_accs s p = true -> forallb (fun a => q (f a)) (e_aids s) = true.
Proof.
  unfold all_accs. rewrite !forallb_forall. intros H A a I. apply H; [exact I|apply A; exact I].
Qed.

(* ------------------------------------------------------------------ c3: settings before the first Receive *)
Definition sim3 (s : est) (stage : N -> N) : Prop :=
  forall c, (e_conns s c = CLimit -> stage c = 1) /\ (e_conns s c = CDelay -> stage c = 2) /\
            (e_conns s c = CConfigured -> stage c = 3).

Lemma settings_sound g es : forall s stage s', sim3 s stage -> erun g s es = Some s' ->
  settings_before_recv g stage es = true.
Proof.
  induction es as [|e es IH]; intros s stage s' S H; [reflexivity|].
  cbn [erun] in H. destruct (step g s e) as [s1|] eqn:E; [|discriminate].
  assert (K : forall stage', sim3 s1 stage' -> settings_before_recv g stage' es = true)
    by (intros stage' S'; eapply IH; eassumption).
  destruct e; cbn [settings_before_recv]; destr_step E; split_guards; proj.
  all: try (match goal with |- context[owner_after ?t ?c ?v] => idtac | _ : context[owner_after ?t ?c ?v] |- _ => idtac end;
            fail 0) || idtac.
  all: try (apply andb_true_intro; split).
  all: try (apply K; intros c0; specialize (S c0); rewrite ?owner_after_conns; proj; upd_split;
            repeat split; intros; try congruence; try (apply S; assumption)).
  all: try (match goal with S : sim3 _ ?stage, E : e_conns _ ?c = CConfigured |- (?stage ?c =? 3) = true =>
              rewrite (proj2 (proj2 (S c)) E); reflexivity end).
  all: repeat match goal with H : (?v =? ?x)%Z = true |- context[(?v =? ?x)%Z] => rewrite H end.
  all: try reflexivity.
  all: try (match goal with S : _ /\ _ /\ _, Hc : e_conns ?s ?c = CLimit |- _ => rewrite (proj1 S Hc) end; reflexivity).
  all: try (match goal with S : _ /\ _ /\ _, Hc : e_conns ?s ?c = CDelay |- _ => rewrite (proj1 (proj2 S) Hc) end; reflexivity).
Qed.

Lemma settings_before_recv_sound g es s :
  erun g e_init es = Some s -> settings_before_recv g (fun _ => 0) es = true.
Proof.
  apply settings_sound. intros c. cbn. repeat split; discriminate.
Qed.

(* ------------------------------------------------------------------ c6: OnError only for a failed Accept *)
Definition sim6 (s : est) (failed : N -> bool) : Prop := forall a, e_accs s a = AErr -> failed a = true.

Lemma settle_err x : settle_acc x = AErr -> x = AErr.
Proof. destruct x; cbn; congruence. Qed.

Lemma onerror_sound g es : forall s failed s', sim6 s failed -> erun g s es = Some s' ->
  onerror_justified failed es = true.
Proof.
  induction es as [|e es IH]; intros s failed s' S H; [reflexivity|].
  cbn [erun] in H. destruct (step g s e) as [s1|] eqn:E; [|discriminate].
  assert (K : forall f', sim6 s1 f' -> onerror_justified f' es = true)
    by (intros f' S'; eapply IH; eassumption).
  destruct e; cbn [onerror_justified]; destr_step E; split_guards; proj.
  all: try (apply andb_true_intro; split).
  all: try (apply K; intros a0 A0; rewrite ?owner_after_accs in A0; proj;
            try (match type of A0 with context[match e_owner ?s ?c with _ => _ end] => destruct (e_owner s c) end);
            try (apply settle_err in A0);
            upd_split; try congruence; try (apply S; assumption);
            try (destruct (g_handler g); congruence)).
  all: try (apply S; assumption).
  destruct (dead s); discriminate.
Qed.

Lemma onerror_justified_sound g es s :
  erun g e_init es = Some s -> onerror_justified (fun _ => false) es = true.
Proof. apply onerror_sound. intros a A. cbn in A. discriminate. Qed.

(* ------------------------------------------------------------------ c4: an accept loop stops at its first error *)
Definition P4 (s : est) (a : N) (rep : bool) : Prop :=
  (e_accs s a = AErr /\ rep = false) \/ e_accs s a = AErrDone \/ e_accs s a = ADone.

Lemma settle_P4 x : x = AErrDone \/ x = ADone -> settle_acc x = ADone.
Proof. intros [->| ->]; reflexivity. Qed.

Lemma no_more_sound g es : forall s a rep s', Inv s -> P4 s a rep -> erun g s es = Some s' ->
  no_more_from a rep es = true.
Proof.
  induction es as [|e es IH]; intros s a rep s' I P H; [reflexivity|].
  cbn [erun] in H. destruct (step g s e) as [s1|] eqn:E; [|discriminate].
  pose proof (inv_step _ _ _ _ I E) as I1.
  assert (K : forall rep', P4 s1 a rep' -> no_more_from a rep' es = true)
    by (intros rep' P'; eapply IH; eassumption).
  destruct I as [Ia Io Ifr]. clear I1 IH H.
  destruct e; cbn [no_more_from]; destr_step E; split_guards; proj.
  all: try (match goal with |- context[?a0 =? ?a] => destruct (N.eqb_spec a0 a) as [->|Na]; cbn [negb andb] end).
  all: try solve [exfalso; unfold P4 in P; destruct P as [[P1 _]|[P1|P1]]; congruence].
  all: try solve [apply K; exact P].
  all: try solve [apply K; unfold P4 in *; proj; rewrite upd_other by congruence; exact P].
  all: try solve [apply K; unfold P4 in *; proj; destruct P as [[P1 P2]|[P1|P1]]; rewrite P1; cbn; tauto].
  all: try solve [apply K; unfold P4 in *; rewrite owner_after_accs; proj;
    match goal with Io : forall c a, e_owner ?s c = Some a -> _ -> _, Hc : e_conns ?s ?c = _ , P : _ \/ _ \/ e_accs ?s ?a = ADone |- _ =>
    destruct (e_owner s c) as [b|] eqn:Ob; [|exact P];
    destruct (N.eq_dec b a) as [->|Nb];
    [ exfalso; pose proof (Io c a Ob ltac:(unfold early; rewrite Hc; tauto)) as X;
      destruct P as [[P1 _]|[P1|P1]]; congruence
    | rewrite upd_other by congruence; exact P ] end].
  all: try solve [apply K; unfold P4 in *; proj;
    match goal with |- context[upd _ ?a0 _ ?a] => destruct (N.eq_dec a a0) as [->|Na];
      [exfalso; destruct P as [[P1 _]|[P1|P1]]; congruence | rewrite !upd_other by congruence; exact P] end].
  - (* EOnError a *) unfold P4 in P. destruct P as [[P1 ->]|[P1|P1]]; try congruence.
    cbn [negb andb]. apply K. unfold P4. proj. rewrite upd_same. tauto.
Qed.

Lemma stops_sound g es : forall s s', Inv s -> erun g s es = Some s' -> stops_at_error es = true.
Proof.
  induction es as [|e es IH]; intros s s' I H; [reflexivity|].
  cbn [erun] in H. destruct (step g s e) as [s1|] eqn:E; [|discriminate].
  pose proof (inv_step _ _ _ _ I E) as I1.
  destruct e; cbn [stops_at_error]; try (eapply IH; eassumption).
  apply andb_true_intro; split; [|eapply IH; eassumption].
  eapply no_more_sound; [exact I1| |exact H].
  destr_step E. unfold P4. proj. rewrite upd_same. destruct (g_handler g); tauto.
Qed.

Lemma stops_at_error_sound g es s : erun g e_init es = Some s -> stops_at_error es = true.
Proof. apply stops_sound. exact inv_init. Qed.

(* ------------------------------------------------------------------ c5: the error is reported before the engine rests *)
Lemma reported_sound g es : forall s a s', g_handler g = true -> Inv s -> e_accs s a = AErr ->
  erun g s es = Some s' -> reported_before_rest a es = true.
Proof.
  induction es as [|e es IH]; intros s a s' Hh I P H; [reflexivity|].
  cbn [erun] in H. destruct (step g s e) as [s1|] eqn:E; [|discriminate].
  pose proof (inv_step _ _ _ _ I E) as I1.
  assert (K : e_accs s1 a = AErr -> reported_before_rest a es = true)
    by (intros P'; eapply IH; eassumption).
  assert (Ain : In a (e_aids s)) by (apply (inv_aids _ I); congruence).
  destruct I as [Ia Io Ifr]. clear I1 IH H.
  destruct e; cbn [reported_before_rest]; destr_step E; split_guards; proj.
  all: try (match goal with |- context[?a0 =? ?a] => destruct (N.eqb_spec a0 a) as [->|Na]; try reflexivity end).
  all: try solve [apply K; exact P].
  all: try solve [apply K; proj; rewrite upd_other by congruence; exact P].
  all: try solve [apply K; proj;
    match goal with |- context[upd _ ?a0 _ ?a] => destruct (N.eq_dec a a0) as [->|Na];
      [exfalso; congruence | rewrite !upd_other by congruence; exact P] end].
  all: try solve [apply K; rewrite owner_after_accs; proj;
    match goal with Io : forall c a, e_owner ?s c = Some a -> _ -> _, Hc : e_conns ?s ?c = _ , P : e_accs ?s ?a = AErr |- _ =>
    destruct (e_owner s c) as [b|] eqn:Ob; [|exact P];
    destruct (N.eq_dec b a) as [->|Nb];
    [ exfalso; pose proof (Io c a Ob ltac:(unfold early; rewrite Hc; tauto)) as X; congruence
    | rewrite upd_other by congruence; exact P ] end].
  - (* ECloseRet: impossible, the loop is not finishable *)
    exfalso. match goal with Hc : close_can_return s = true |- _ => unfold close_can_return in Hc; apply andb_prop in Hc; destruct Hc as [_ Hc];
      pose proof (all_accs_in _ _ _ Hc Ain) as X end. rewrite P in X. discriminate.
  - (* EQuiet: impossible, an OnError call is pending *)
    exfalso. match goal with Hc : all_accs s (fun x => negb (astate_eqb x AErr) && _) = true |- _ =>
      pose proof (all_accs_in _ _ _ Hc Ain) as X end. cbn beta in X. rewrite P in X. discriminate.
Qed.

Lemma error_reported_gen g es : forall s s', Inv s -> erun g s es = Some s' -> error_reported g es = true.
Proof.
  induction es as [|e es IH]; intros s s' I H; [reflexivity|].
  cbn [erun] in H. destruct (step g s e) as [s1|] eqn:E; [|discriminate].
  pose proof (inv_step _ _ _ _ I E) as I1.
  destruct e; cbn [error_reported]; try (eapply IH; eassumption).
  apply andb_true_intro; split; [|eapply IH; eassumption].
  destruct (g_handler g) eqn:Hh; [|reflexivity]. cbn [negb orb].
  eapply reported_sound; [exact Hh|exact I1| |exact H].
  destr_step E. proj. rewrite upd_same. rewrite Hh. reflexivity.
Qed.

Lemma error_reported_sound g es s : erun g e_init es = Some s -> error_reported g es = true.
Proof. apply error_reported_gen. exact inv_init. Qed.

(* ------------------------------------------------------------------ c1 / c2: after Close has returned *)
Record P1 (s : est) : Prop := {
  p1_open : is_open s = false;
  p1_holder : e_holder s = None;
  p1_ran : e_ran s = true;
  p1_done : all_accs s is_done = true }.

Lemma all_accs_upd s p b v :
  all_accs s p = true -> p v = true -> forallb (fun a => p (upd (e_accs s) b v a)) (e_aids s) = true.
Proof.
  unfold all_accs. rewrite !forallb_forall. intros A V a I.
  destruct (upd_cases (e_accs s) b v a) as [[_ U]|[_ U]]; rewrite U; [exact V|apply A; exact I].
Qed.

Lemma is_done_settle x : is_done x = true -> is_done (settle_acc x) = true.
Proof. destruct x; cbn; congruence. Qed.
Lemma finishable_settle x : finishable x = true -> is_done (settle_acc x) = true.
Proof. destruct x; cbn; congruence. Qed.

Lemma P1_dead s : P1 s -> dead s = true.
Proof. intros [_ _ R D]. unfold dead. rewrite R, D. reflexivity. Qed.

Lemma P1_not_running s a : Inv s -> P1 s -> is_done (e_accs s a) = false -> e_accs s a = ANone.
Proof.
  intros I P D. destruct (e_accs s a) eqn:E; try reflexivity;
    (assert (In a (e_aids s)) as Ain by (apply (inv_aids _ I); congruence);
     pose proof (all_accs_in _ _ _ (p1_done _ P) Ain) as X; rewrite E in X; cbn in X; cbn in D; congruence).
Qed.

Lemma P1_step g s e s1 : Inv s -> P1 s -> step g s e = Some s1 ->
  P1 s1 /\ is_start e = false /\ is_acceptor_ev e = false.
Proof.
  intros I P E. pose proof (P1_dead _ P) as Dd. pose proof (P1_not_running s) as NR.
  destruct P as [Po Ph Pr Pd].
  destruct e; destr_step E; split_guards; proj; cbn [is_start is_acceptor_ev].
  all: try congruence.
  all: try (match goal with H : holds _ _ = true |- _ => unfold holds in H; rewrite Ph in H; discriminate end).
  all: try (match goal with Ea : e_accs ?s ?a = _ |- _ =>
              exfalso; assert (X : e_accs s a = ANone) by (apply NR; [assumption|split; assumption|rewrite Ea; reflexivity]); congruence end).
  all: split; [|split; reflexivity].
  all: try (split; proj; assumption).
  - (* ECClose *) unfold owner_after. proj. destruct (e_owner s c); split; proj; try assumption.
    unfold all_accs; proj. apply all_accs_upd; [exact Pd|reflexivity].
  - (* EAcceptCall *) split; proj; try assumption; try reflexivity.
    unfold all_accs. proj. cbn [forallb]. rewrite upd_same. rewrite Dd. cbn [is_done andb].
    apply all_accs_upd; [exact Pd|reflexivity].
  - (* EAcceptPanic *) split; proj; try assumption. unfold all_accs; proj. apply all_accs_upd; [exact Pd|reflexivity].
  - (* ECloseCall *) split; proj; try assumption. reflexivity.
  - (* ECloseRet *) split; proj; try assumption; try reflexivity.
    unfold all_accs; proj. apply (all_accs_map s (fun a => settle_acc (e_accs s a)) is_done is_done); [|exact Pd].
    intros a _ X. apply is_done_settle; exact X.
  - (* EQuiet *) split; proj; try assumption.
    unfold all_accs; proj. apply (all_accs_map s (fun a => settle_acc (e_accs s a)) is_done is_done); [|exact Pd].
    intros a _ X. apply is_done_settle; exact X.
Qed.

Lemma closeret_P1 g s s1 : step g s ECloseRet = Some s1 -> P1 s1.
Proof.
  intros E. destr_step E. split_guards. unfold close_can_return in *. split_guards.
  split; proj; try reflexivity; try assumption.
  - unfold no_holder in *. destruct (e_holder s); [discriminate|reflexivity].
  - unfold all_accs; proj. apply (all_accs_map s (fun a => settle_acc (e_accs s a)) finishable is_done); [|assumption].
    intros a _ X. apply finishable_settle; exact X.
Qed.

Lemma after_P1 g es : forall s s', Inv s -> P1 s -> erun g s es = Some s' ->
  forallb (fun e => negb (is_start e) && negb (is_acceptor_ev e)) es = true.
Proof.
  induction es as [|e es IH]; intros s s' I P H; [reflexivity|].
  cbn [erun] in H. destruct (step g s e) as [s1|] eqn:E; [|discriminate].
  destruct (P1_step _ _ _ _ I P E) as (P' & A & B).
  cbn [forallb]. rewrite A, B. cbn [negb andb].
  eapply IH; [eapply inv_step; eassumption|exact P'|exact H].
Qed.

Lemma after_close_gen g es : forall s s', Inv s -> erun g s es = Some s' -> after_close_ok es = true.
Proof.
  induction es as [|e es IH]; intros s s' I H; [reflexivity|].
  cbn [erun] in H. destruct (step g s e) as [s1|] eqn:E; [|discriminate].
  pose proof (inv_step _ _ _ _ I E) as I1.
  destruct e; cbn [after_close_ok]; try (eapply IH; eassumption).
  apply andb_true_intro; split; [|eapply IH; eassumption].
  eapply after_P1; [exact I1|eapply closeret_P1; exact E|exact H].
Qed.

Lemma after_close_sound g es s : erun g e_init es = Some s -> after_close_ok es = true.
Proof. apply after_close_gen. exact inv_init. Qed.

(* c2 *)
Definition P2 (s : est) (late : N -> bool) : Prop :=
  forall c, late c = true -> e_conns s c = COffered \/ e_conns s c = CRejected.

Lemma late_sound g es : forall s late s', Inv s -> P1 s -> P2 s late -> erun g s es = Some s' ->
  late_handles_ok late es = true.
Proof.
  induction es as [|e es IH]; intros s late s' I P L H; [reflexivity|].
  cbn [erun] in H. destruct (step g s e) as [s1|] eqn:E; [|discriminate].
  destruct (P1_step _ _ _ _ I P E) as (P' & A & B).
  pose proof (inv_step _ _ _ _ I E) as I1.
  assert (K : forall late', P2 s1 late' -> late_handles_ok late' es = true)
    by (intros late' L'; eapply IH; eassumption).
  clear IH H I1 P'.
  destruct e; cbn [late_handles_ok]; cbn [is_start is_acceptor_ev] in A, B; try discriminate;
    destr_step E; split_guards; proj.
  all: try solve [apply K; exact L].
  - (* EHandleCall *) apply K. intros c0 Lc. proj.
    destruct (N.eq_dec c0 c) as [->|Nc]; [rewrite upd_same; left; reflexivity|].
    rewrite upd_other by exact Nc. rewrite upd_other in Lc by exact Nc. apply L; exact Lc.
  - (* EHandleRet *) destruct r.
    + apply andb_true_intro; split; [|apply K; exact L].
      destruct (late c) eqn:Lc; [|reflexivity]. exfalso.
      match goal with Hc : _ || _ = true |- _ => apply orb_prop in Hc; destruct Hc as [Hc|Hc]; apply is_cstate_true in Hc end;
        destruct (L c Lc); congruence.
    + apply K; exact L.
  - (* ECClose *) apply K. intros c0 Lc. rewrite owner_after_conns. proj.
    destruct (N.eq_dec c0 c) as [->|Nc]; [rewrite upd_same; right; reflexivity|].
    rewrite upd_other by exact Nc. apply L; exact Lc.
  - (* ERecv *) apply K. intros c0 Lc. proj.
    destruct (N.eq_dec c0 c) as [->|Nc]; [destruct (L c Lc); congruence|].
    rewrite upd_other by exact Nc. apply L; exact Lc.
Qed.

Lemma handle_after_close_gen g es : forall s s', Inv s -> erun g s es = Some s' -> handle_after_close_ok es = true.
Proof.
  induction es as [|e es IH]; intros s s' I H; [reflexivity|].
  cbn [erun] in H. destruct (step g s e) as [s1|] eqn:E; [|discriminate].
  pose proof (inv_step _ _ _ _ I E) as I1.
  destruct e; cbn [handle_after_close_ok]; try (eapply IH; eassumption).
  apply andb_true_intro; split; [|eapply IH; eassumption].
  eapply late_sound; [exact I1|eapply closeret_P1; exact E| |exact H].
  intros c Lc. discriminate.
Qed.

Lemma handle_after_close_sound g es s : erun g e_init es = Some s -> handle_after_close_ok es = true.
Proof. apply handle_after_close_gen. exact inv_init. Qed.

(* ------------------------------------------------------------------ Close that never returns *)

(* (a) no accept loop was ever started: tomb.Wait has nothing to wait for and never returns;
   only a later Accept call (whose loop leaves at once) releases it *)
Definition not_accept_call (e : ev) : Prop := forall a, e <> EAcceptCall a.

Lemma hang_no_accept_step g s e s1 : is_closing s = true -> e_ran s = false -> not_accept_call e ->
  step g s e = Some s1 -> is_closing s1 = true /\ e_ran s1 = false.
Proof.
  intros C R NA E. unfold is_closing in *.
  destruct e; destr_step E; split_guards; proj; rewrite ?owner_after_close, ?owner_after_ran; proj;
    try (split; assumption); try (exfalso; eapply NA; reflexivity).
  - unfold is_closing in *. congruence.
  - unfold close_can_return in *. rewrite R in *. discriminate.
Qed.

Lemma hang_no_accept_run g es : forall s s', is_closing s = true -> e_ran s = false -> Forall not_accept_call es ->
  erun g s es = Some s' -> is_closing s' = true.
Proof.
  induction es as [|e es IH]; intros s s' C R F H; cbn [erun] in H.
  - injection H as <-. exact C.
  - destruct (step g s e) as [s1|] eqn:E; [|discriminate]. inversion F as [|? ? F1 F2]; subst.
    destruct (hang_no_accept_step _ _ _ _ C R F1 E) as [C1 R1]. eapply IH; eassumption.
Qed.

Lemma close_hangs_without_accept g :
  exists s, erun g e_init [ECloseCall; EQuiet] = Some s /\ is_closing s = true /\
    forall es s', Forall not_accept_call es -> erun g s es = Some s' -> is_closing s' = true.
Proof.
  eexists. split; [reflexivity|]. split; [reflexivity|].
  intros es s' F H. eapply hang_no_accept_run; [| |exact F|exact H]; reflexivity.
Qed.

(* … and the Accept call does release it *)
Lemma close_released_by_accept g :
  match erun g e_init [ECloseCall; EQuiet; EHandleCall 1; EQuiet; EAcceptCall 0; ECloseRet; ECClose 1; EHandleRet 1 false; EQuiet] with
  | Some s => is_closed s | None => false end = true.
Proof. reflexivity. Qed.

(* (b) an accept loop holds a connection it has not handled yet when Close takes the mutex:
   the loop waits for the mutex inside Handle, Close waits for the loop — for ever, whatever happens next *)
Record Stuck (a c : N) (s : est) : Prop := {
  st_closing : is_closing s = true;
  st_holder : e_holder s = None;
  st_in : In a (e_aids s);
  st_acc : e_accs s a = AHasConn c;
  st_conn : e_conns s c = COffered }.

Lemma stuck_step g a c s e s1 : Stuck a c s -> step g s e = Some s1 -> Stuck a c s1.
Proof.
  intros [C Hd In Ac Cc] E. unfold is_closing in *.
  destruct e; destr_step E; split_guards; proj.
  all: try (match goal with H : holds _ _ = true |- _ => unfold holds in H; rewrite Hd in H; discriminate end).
  all: try (match goal with H : is_open _ = true |- _ => unfold is_open in H; destruct (e_close s); discriminate end).
  all: try (match goal with H : is_closing _ = false |- _ => unfold is_closing in H; destruct (e_close s); discriminate end).
  all: try (split; unfold is_closing; proj; try assumption; try (right; assumption);
            try (match goal with |- upd _ ?b _ ?a = _ => destruct (N.eq_dec a b) as [->|Nb]; [congruence|rewrite upd_other by exact Nb; assumption] end);
            try (rewrite Ac; reflexivity); fail).
  all: try (exfalso; congruence).
  - (* ECloseRet *) exfalso. unfold close_can_return in *. split_guards.
    match goal with Hc : all_accs s finishable = true |- _ => pose proof (all_accs_in _ _ _ Hc In) as X end.
    rewrite Ac in X. discriminate.
Qed.

Lemma stuck_run g a c es : forall s s', Stuck a c s -> erun g s es = Some s' -> Stuck a c s'.
Proof.
  induction es as [|e es IH]; intros s s' S H; cbn [erun] in H.
  - injection H as <-. exact S.
  - destruct (step g s e) as [s1|] eqn:E; [|discriminate]. eapply IH; [eapply stuck_step; eassumption|exact H].
Qed.

Lemma close_deadlock g :
  exists s, erun g e_init [EAcceptCall 0; ESrvAccept 0; EQuiet; ESrvConn 0 1; ECloseCall] = Some s /\
    forall es s', erun g s es = Some s' -> is_closing s' = true /\ e_conns s' 1 = COffered.
Proof.
  eexists. split; [reflexivity|]. intros es s' H.
  assert (S : Stuck 0 1 s') by (eapply stuck_run; [|exact H]; split; cbn; auto).
  split; [exact (st_closing _ _ _ S)|exact (st_conn _ _ _ S)].
Qed.

(* the documented order — servers fail first, then Close — is accepted and ends closed; afterwards
   Handle closes the connection and returns false, a second Close returns at once *)
Lemma close_returns_example :
  match erun (Cfg 8388608 10000000 10000000000 true) e_init
    [EAcceptCall 0; ESrvAccept 0; EQuiet; ESrvConn 0 1; ELimit 1 8388608; EDelay 1 10000000; ETimeout 1 10000000000;
     ESrvAccept 0; ERecv 1; EQuiet; EHandleCall 2; ELimit 2 8388608; EDelay 2 10000000; ETimeout 2 10000000000;
     EHandleRet 2 true; ERecv 2; EQuiet; ESrvErr 0; EOnError 0; EQuiet; ECloseCall; ECloseRet; EQuiet;
     EHandleCall 3; ECClose 3; EHandleRet 3 false; EQuiet; ECloseCall; ECloseRet; EQuiet; EAcceptCall 1; EAcceptPanic 1; EQuiet] with
  | Some s => is_closed s && dead s | None => false end = true.
Proof. vm_compute. reflexivity. Qed.

(* the monitor does reject: a connection configured after Close returned, a Receive before the timeout was set *)
Lemma rejects_examples :
  erun (Cfg 1 2 3 true) e_init [EAcceptCall 0; ESrvAccept 0; ESrvErr 0; EOnError 0; ECloseCall; ECloseRet; EHandleCall 1; ELimit 1 1] = None /\
  erun (Cfg 1 2 3 true) e_init [EHandleCall 1; ELimit 1 1; EDelay 1 2; ERecv 1] = None /\
  erun (Cfg 1 2 3 true) e_init [EHandleCall 1; ELimit 1 1; EDelay 1 2; ETimeout 1 4] = None /\
  erun (Cfg 1 2 3 true) e_init [EAcceptCall 0; ESrvAccept 0; ESrvErr 0; EOnError 0; ESrvAccept 0] = None.
Proof. repeat split; vm_compute; reflexivity. Qed.
