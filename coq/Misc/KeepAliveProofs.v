(* KeepAliveProofs.v — facts about the keep-alive arithmetic of KeepAlive.v. *)
From Coq Require Import NArith ZArith Bool Lia ZifyN ZifyBool.
From GM Require Import Misc.KeepAlive.
Open Scope N_scope.
Ltac Zify.zify_post_hook ::= Z.div_mod_to_equations.

Ltac consts :=
  change (2 ^ 53) with 9007199254740992 in *;
  change (2 ^ 63) with 9223372036854775808 in *;
  change (2 ^ 64) with 18446744073709551616 in *;
  change (2 ^ 64)%Z with 18446744073709551616%Z in *;
  unfold default_max_keep_alive, default_token_timeout, default_count in *; unfold second in *.

(* ---- the float64 detour -------------------------------------------------- *)

(* below 2^53 the conversion is exact, so the grace period is r / 2 rounded down *)
Lemma grace_exact r : r < 2 ^ 53 -> grace r = r / 2.
Proof.
  intros H. unfold grace, f64_of_int.
  destruct (r <? 2 ^ 53) eqn:E; [reflexivity|]. apply N.ltb_ge in E. consts. lia.
Qed.

(* the bound is sharp in the sense that the integer formula is wrong for a value
   just above it: float64(2^53+3) = 2^53+4 (tie, even significand) *)
Lemma grace_inexact_above : grace (2 ^ 53 + 3) = 2 ^ 52 + 2 /\ (2 ^ 53 + 3) / 2 = 2 ^ 52 + 1.
Proof. split; vm_compute; reflexivity. Qed.

(* every value below 2^53+3 still agrees (2^53, 2^53+1 -> 2^53, 2^53+2): so
   2^53+3 is the first value on which r + r/2 differs from the Go expression *)
Lemma grace_exact_upto r : r < 2 ^ 53 + 3 -> grace r = r / 2.
Proof.
  intros H. destruct (N.lt_ge_cases r (2 ^ 53)) as [L|G]; [apply grace_exact; exact L|].
  consts.
  assert (C : r = 9007199254740992 \/ r = 9007199254740993 \/ r = 9007199254740994) by lia.
  destruct C as [-> | [-> | ->]]; vm_compute; reflexivity.
Qed.

(* ---- the enforced keep alive -------------------------------------------- *)

Lemma eff_max_pos m : 0 < eff_max m.
Proof.
  unfold eff_max. destruct (m <=? 0)%Z eqn:E; consts; lia.
Qed.

Lemma eff_max_default m : (m <= 0)%Z -> eff_max m = 300 * second.
Proof. intros H. unfold eff_max. destruct (m <=? 0)%Z eqn:E; [reflexivity|lia]. Qed.

Lemma eff_max_set m : (0 < m)%Z -> eff_max m = Z.to_N m.
Proof. intros H. unfold eff_max. destruct (m <=? 0)%Z eqn:E; [lia|reflexivity]. Qed.

Lemma requested_small ka : ka < 65536 -> requested ka < 2 ^ 53.
Proof. unfold requested. consts. lia. Qed.

Lemma eff_keep_alive_zero m : eff_keep_alive m 0 = eff_max m.
Proof. reflexivity. Qed.

Lemma eff_keep_alive_min m ka : 0 < ka -> eff_keep_alive m ka = N.min (requested ka) (eff_max m).
Proof.
  intros H. unfold eff_keep_alive, requested. consts.
  destruct (ka * 1000000000 =? 0) eqn:E0; [lia|].
  destruct (eff_max m <? ka * 1000000000) eqn:E1; cbn [orb]; lia.
Qed.

Lemma eff_keep_alive_le_max m ka : eff_keep_alive m ka <= eff_max m.
Proof.
  destruct (N.eq_dec ka 0) as [->|Hk]; [rewrite eff_keep_alive_zero; lia|].
  rewrite eff_keep_alive_min by lia. lia.
Qed.

Lemma eff_keep_alive_pos m ka : 0 < eff_keep_alive m ka.
Proof.
  pose proof (eff_max_pos m) as P.
  destruct (N.eq_dec ka 0) as [->|Hk]; [rewrite eff_keep_alive_zero; exact P|].
  rewrite eff_keep_alive_min by lia. unfold requested. consts. lia.
Qed.

(* at least one second, unless the maximum itself is shorter *)
Lemma eff_keep_alive_ge m ka : N.min second (eff_max m) <= eff_keep_alive m ka.
Proof.
  destruct (N.eq_dec ka 0) as [->|Hk]; [rewrite eff_keep_alive_zero; lia|].
  rewrite eff_keep_alive_min by lia. unfold requested. consts. lia.
Qed.

Lemma eff_keep_alive_small m ka : ka < 65536 -> eff_max m < 2 ^ 53 -> eff_keep_alive m ka < 2 ^ 53.
Proof.
  intros Hk Hm. pose proof (eff_keep_alive_le_max m ka). lia.
Qed.

(* ---- the read timeout ---------------------------------------------------- *)

Lemma int64_of_bits_small n : n < 2 ^ 63 -> int64_of_bits n = Z.of_N n.
Proof.
  intros H. unfold int64_of_bits. consts.
  rewrite N.mod_small by lia.
  destruct (n <? 9223372036854775808) eqn:E; [reflexivity|lia].
Qed.

(* whenever the enforced keep alive is below 2^53 ns (104 days) the Go expression is r + r/2 *)
Lemma read_timeout_of_small m ka :
  eff_keep_alive m ka < 2 ^ 53 ->
  read_timeout m ka = Z.of_N (one_and_a_half (eff_keep_alive m ka)).
Proof.
  intros H. unfold read_timeout, one_and_a_half.
  rewrite grace_exact by exact H.
  apply int64_of_bits_small. consts. lia.
Qed.

Lemma read_timeout_exact m ka : ka < 65536 -> eff_max m < 2 ^ 53 ->
  read_timeout m ka = Z.of_N (one_and_a_half (eff_keep_alive m ka)).
Proof. intros Hk Hm. apply read_timeout_of_small, eff_keep_alive_small; assumption. Qed.

(* a request at or below the maximum is honoured whatever the maximum is
   (no restriction on MaximumKeepAlive: the requested value itself is small) *)
Lemma read_timeout_uncapped m ka : 0 < ka < 65536 -> requested ka <= eff_max m ->
  read_timeout m ka = Z.of_N (one_and_a_half (requested ka)).
Proof.
  intros Hk Hle.
  assert (E : eff_keep_alive m ka = requested ka) by (rewrite eff_keep_alive_min by lia; lia).
  rewrite read_timeout_of_small; rewrite E; [reflexivity|]. apply requested_small; lia.
Qed.

(* = 1.5 * min(requested, maximum) for a non-zero request *)
Lemma read_timeout_formula m ka : 0 < ka < 65536 -> eff_max m < 2 ^ 53 ->
  read_timeout m ka = Z.of_N (one_and_a_half (N.min (requested ka) (eff_max m))).
Proof.
  intros Hk Hm. rewrite read_timeout_exact by lia. rewrite eff_keep_alive_min by lia. reflexivity.
Qed.

(* keep alive 0 ("no keep alive requested") gets the maximum *)
Lemma read_timeout_zero m : eff_max m < 2 ^ 53 ->
  read_timeout m 0 = Z.of_N (one_and_a_half (eff_max m)).
Proof. intros Hm. rewrite read_timeout_exact by (consts; lia). reflexivity. Qed.

Lemma one_and_a_half_mono a b : a <= b -> one_and_a_half a <= one_and_a_half b.
Proof. unfold one_and_a_half. intros H. lia. Qed.

Lemma one_and_a_half_strict a b : a < b -> one_and_a_half a < one_and_a_half b.
Proof. unfold one_and_a_half. intros H. lia. Qed.

(* within [1.5 * min(1 s, maximum), 1.5 * maximum] *)
Lemma read_timeout_bounds m ka : ka < 65536 -> eff_max m < 2 ^ 53 ->
  (Z.of_N (one_and_a_half (N.min second (eff_max m))) <= read_timeout m ka
   <= Z.of_N (one_and_a_half (eff_max m)))%Z.
Proof.
  intros Hk Hm. rewrite read_timeout_exact by assumption.
  pose proof (one_and_a_half_mono _ _ (eff_keep_alive_ge m ka)).
  pose proof (one_and_a_half_mono _ _ (eff_keep_alive_le_max m ka)). lia.
Qed.

(* with a maximum of at least one second: within [1.5 s, 1.5 * maximum] *)
Lemma read_timeout_bounds_1s m ka : ka < 65536 -> second <= eff_max m -> eff_max m < 2 ^ 53 ->
  (1500000000 <= read_timeout m ka <= Z.of_N (one_and_a_half (eff_max m)))%Z.
Proof.
  intros Hk H1 Hm. pose proof (read_timeout_bounds m ka Hk Hm) as B.
  replace (N.min second (eff_max m)) with second in B by lia.
  change (Z.of_N (one_and_a_half second)) with 1500000000%Z in B. exact B.
Qed.

(* never zero, never negative: a read timeout <= 0 would mean "no deadline" in transport.BaseConn *)
Lemma read_timeout_pos m ka : ka < 65536 -> eff_max m < 2 ^ 53 -> (0 < read_timeout m ka)%Z.
Proof.
  intros Hk Hm. rewrite read_timeout_exact by assumption.
  pose proof (eff_keep_alive_pos m ka). unfold one_and_a_half. lia.
Qed.

(* monotone in the request over all non-zero requests (saturating at the maximum) *)
Lemma read_timeout_mono m ka1 ka2 : 0 < ka1 -> ka1 <= ka2 -> ka2 < 65536 -> eff_max m < 2 ^ 53 ->
  (read_timeout m ka1 <= read_timeout m ka2)%Z.
Proof.
  intros H1 H12 H2 Hm. rewrite !read_timeout_formula by lia.
  assert (N.min (requested ka1) (eff_max m) <= N.min (requested ka2) (eff_max m))
    by (unfold requested; consts; lia).
  pose proof (one_and_a_half_mono _ _ H). lia.
Qed.

(* strictly monotone below the maximum *)
Lemma read_timeout_strict m ka1 ka2 : 0 < ka1 -> ka1 < ka2 -> ka2 < 65536 -> requested ka2 <= eff_max m ->
  (read_timeout m ka1 < read_timeout m ka2)%Z.
Proof.
  intros H1 H12 H2 Hle.
  assert (requested ka1 < requested ka2) by (unfold requested; consts; lia).
  rewrite !read_timeout_uncapped by lia.
  pose proof (one_and_a_half_strict _ _ H). lia.
Qed.

(* no request is given more time than "no request" (keep alive 0) *)
Lemma read_timeout_zero_is_max m ka : ka < 65536 -> eff_max m < 2 ^ 53 ->
  (read_timeout m ka <= read_timeout m 0)%Z.
Proof.
  intros Hk Hm. rewrite read_timeout_zero by assumption.
  apply (read_timeout_bounds m ka Hk Hm).
Qed.

(* without the bound on MaximumKeepAlive positivity fails: MaximumKeepAlive =
   math.MaxInt64 ("unlimited") and keep alive 0 wrap to a negative timeout *)
Lemma read_timeout_unbounded_negative :
  (read_timeout 9223372036854775807 0 < 0)%Z /\ (0 < read_timeout 9223372036854775807 65535)%Z.
Proof. split; vm_compute; reflexivity. Qed.

(* ---- the token defaults -------------------------------------------------- *)

Lemma eff_count_pos n : 0 < eff_count n.
Proof. unfold eff_count. destruct (n <=? 0)%Z eqn:E; consts; lia. Qed.

Lemma eff_count_spec n : eff_count n = if (0 <? n)%Z then Z.to_N n else 10.
Proof. unfold eff_count. consts. destruct (n <=? 0)%Z eqn:E, (0 <? n)%Z eqn:F; try reflexivity; lia. Qed.

Lemma eff_token_timeout_nonzero t : eff_token_timeout t <> 0%Z.
Proof. unfold eff_token_timeout. destruct (t =? 0)%Z eqn:E; consts; lia. Qed.

(* the ack queue can take one acknowledgement per outstanding publish and subscribe token *)
Lemma ack_queue_cap_spec pp ps : ack_queue_cap pp ps = eff_count pp + eff_count ps /\ 2 <= ack_queue_cap pp ps.
Proof.
  unfold ack_queue_cap. pose proof (eff_count_pos pp). pose proof (eff_count_pos ps). lia.
Qed.

Lemma read_timeout_unbounded_refuted : exists m ka, ka < 65536 /\ ~ (0 < read_timeout m ka)%Z.
Proof.
  exists 9223372036854775807%Z, 0. split; [reflexivity|].
  pose proof (proj1 read_timeout_unbounded_negative) as G. lia.
Qed.

Lemma tokens_ok pp ps tt :
  0 < eff_count pp /\ eff_token_timeout tt <> 0%Z /\
  ack_queue_cap pp ps = eff_count pp + eff_count ps /\ 2 <= ack_queue_cap pp ps.
Proof.
  exact (conj (eff_count_pos pp) (conj (eff_token_timeout_nonzero tt) (ack_queue_cap_spec pp ps))).
Qed.
