(* Engine.v — life cycle of broker.Engine (/repo/broker/engine.go) as a
   deterministic monitor over the events a recording transport.Conn / Server
   and the harness see.  Definitions only (extractable); proofs in EngineProofs.v.

   The code:   Handle(conn): lock; if !tomb.Alive() { conn.Close(); return false }
                             conn.SetReadLimit; conn.SetMaxWriteDelay; conn.SetReadTimeout; NewClient; return true
               Accept(srv):  tomb.Go(loop: if !Alive return; conn, err := srv.Accept();
                                           err -> OnError(err), return err (kills the tomb); !Handle(conn) -> return)
               Close():      lock; tomb.Kill(nil); tomb.Wait()          (Wait = until every tomb goroutine has returned)

   Environment discipline (what the harness does, and what the monitor assumes):
   API calls (Handle, Accept, Close) are issued at quiescent points — the
   harness waits until nothing happens any more and logs EQuiet — unless the
   previous call is blocked.  Asynchronous completions (the tomb being killed
   after an accept error, an accept loop leaving at its loop head) are "pending"
   until the next EQuiet and the monitor accepts either outcome meanwhile. *)
From Coq Require Import List NArith ZArith Bool.
Import ListNotations.
Open Scope N_scope.

Inductive ev :=
| EHandleCall (c : N)              (* the user calls Handle(c) *)
| EHandleRet  (c : N) (r : bool)   (* … which returns r *)
| ELimit   (c : N) (v : Z)         (* conn c: SetReadLimit(v) *)
| EDelay   (c : N) (v : Z)         (* conn c: SetMaxWriteDelay(v) *)
| ETimeout (c : N) (v : Z)         (* conn c: SetReadTimeout(v) *)
| ECClose  (c : N)                 (* conn c: Close() *)
| ERecv    (c : N)                 (* conn c: first Receive() — the started client is running *)
| EAcceptCall  (a : N)             (* the user calls Accept(server a); returns at once *)
| EAcceptPanic (a : N)             (* … which panicked (tomb.Go after all goroutines terminated) *)
| ESrvAccept (a : N)               (* accept loop a calls server.Accept() *)
| ESrvConn (a c : N)               (* … which returns connection c *)
| ESrvErr  (a : N)                 (* … which returns an error *)
| EOnError (a : N)                 (* OnError(err of server a) *)
| ECloseCall | ECloseRet
| EQuiet.                          (* harness marker: nothing is running any more *)

Record ecfg := Cfg { g_limit : Z; g_delay : Z; g_timeout : Z; g_handler : bool }.

Inductive astate :=
| ANone                  (* no such accept loop *)
| AHead                  (* at the loop head: checks Alive, then calls server.Accept *)
| AInAccept              (* inside server.Accept() *)
| AHasConn (c : N)       (* got connection c, calls Handle(c): needs the engine mutex *)
| AErr                   (* got an error, OnError call pending *)
| AErrDone               (* about to return the error (which kills the tomb) *)
| APanic                 (* Accept called on a dead tomb: tomb.Go is about to panic, no loop is started *)
| ADone.                 (* returned *)

Inductive cstate := CNone | COffered | CLimit | CDelay | CConfigured | CReceiving | CRejected.

Inductive clstate := ClOpen | ClClosing | ClClosed.

Record est := Est {
  e_close  : clstate;          (* Close not called / holds the mutex and waits / has returned *)
  e_kill   : N;                (* tomb: 0 alive, 1 an accept error was seen (kill pending or done), 2 certainly dying *)
  e_ran    : bool;             (* tomb.Go was called at least once (otherwise the tomb can never be dead) *)
  e_holder : option N;         (* connection whose Handle is between its first and last conn call *)
  e_unstarted : N;             (* clients configured whose first Receive has not been seen yet *)
  e_accs   : N -> astate;
  e_aids   : list N;           (* the accept loops ever started *)
  e_conns  : N -> cstate;
  e_owner  : N -> option N;    (* accept loop that handles the connection (None: the user) *)
  e_ret    : N -> bool }.      (* the user's Handle call has returned *)

Definition e_init : est :=
  Est ClOpen 0 false None 0 (fun _ => ANone) [] (fun _ => CNone) (fun _ => None) (fun _ => false).

Definition upd {A} (f : N -> A) (k : N) (v : A) : N -> A := fun x => if x =? k then v else f x.

Definition set_close s v := Est v (e_kill s) (e_ran s) (e_holder s) (e_unstarted s) (e_accs s) (e_aids s) (e_conns s) (e_owner s) (e_ret s).
Definition set_kill s v := Est (e_close s) v (e_ran s) (e_holder s) (e_unstarted s) (e_accs s) (e_aids s) (e_conns s) (e_owner s) (e_ret s).
Definition set_holder s v := Est (e_close s) (e_kill s) (e_ran s) v (e_unstarted s) (e_accs s) (e_aids s) (e_conns s) (e_owner s) (e_ret s).
Definition set_unstarted s v := Est (e_close s) (e_kill s) (e_ran s) (e_holder s) v (e_accs s) (e_aids s) (e_conns s) (e_owner s) (e_ret s).
Definition set_acc s a v := Est (e_close s) (e_kill s) (e_ran s) (e_holder s) (e_unstarted s) (upd (e_accs s) a v) (e_aids s) (e_conns s) (e_owner s) (e_ret s).
Definition set_accs s f := Est (e_close s) (e_kill s) (e_ran s) (e_holder s) (e_unstarted s) f (e_aids s) (e_conns s) (e_owner s) (e_ret s).
Definition set_conn s c v := Est (e_close s) (e_kill s) (e_ran s) (e_holder s) (e_unstarted s) (e_accs s) (e_aids s) (upd (e_conns s) c v) (e_owner s) (e_ret s).

Definition astate_eqb (x y : astate) : bool :=
  match x, y with
  | ANone, ANone | AHead, AHead | AInAccept, AInAccept | AErr, AErr | AErrDone, AErrDone | ADone, ADone
  | APanic, APanic => true
  | AHasConn c, AHasConn d => c =? d
  | _, _ => false
  end.

Definition is_cstate (x y : cstate) : bool :=
  match x, y with
  | CNone, CNone | COffered, COffered | CLimit, CLimit | CDelay, CDelay
  | CConfigured, CConfigured | CReceiving, CReceiving | CRejected, CRejected => true
  | _, _ => false
  end.

Definition is_open (s : est) : bool := match e_close s with ClOpen => true | _ => false end.
Definition is_closing (s : est) : bool := match e_close s with ClClosing => true | _ => false end.
Definition is_closed (s : est) : bool := match e_close s with ClClosed => true | _ => false end.
Definition no_holder (s : est) : bool := match e_holder s with None => true | _ => false end.
Definition holds (s : est) (c : N) : bool := match e_holder s with Some d => d =? c | None => false end.

(* an accept loop that can return without the mutex and without its server *)
Definition finishable (x : astate) : bool :=
  match x with ADone | AHead | AErrDone | APanic => true | _ => false end.
Definition all_accs (s : est) (p : astate -> bool) : bool := forallb (fun a => p (e_accs s a)) (e_aids s).
(* returned, or never started (a panicking Accept call starts no loop) *)
Definition is_done (x : astate) : bool := match x with ADone | APanic => true | _ => false end.
(* tomb dead: some goroutine ran and all have returned *)
Definition dead (s : est) : bool := e_ran s && all_accs s is_done.
Definition close_can_return (s : est) : bool := e_ran s && all_accs s finishable.

(* what the accept loop that owns connection c does after its Handle(c) returned *)
Definition owner_after (s : est) (c : N) (v : astate) : est :=
  match e_owner s c with Some a => set_acc s a v | None => s end.

Definition settle_acc (x : astate) : astate :=
  match x with AErrDone | AHead => ADone | y => y end.

Definition step (g : ecfg) (s : est) (e : ev) : option est :=
  match e with
  | EHandleCall c =>
      if is_cstate (e_conns s c) CNone then Some (set_conn s c COffered) else None
  | EHandleRet c r =>
      match e_owner s c with
      | Some _ => None
      | None =>
        if e_ret s c then None
        else if (if r then is_cstate (e_conns s c) CConfigured || is_cstate (e_conns s c) CReceiving
                 else is_cstate (e_conns s c) CRejected)
        then Some (Est (e_close s) (e_kill s) (e_ran s) (e_holder s) (e_unstarted s) (e_accs s) (e_aids s)
                       (e_conns s) (e_owner s) (upd (e_ret s) c true))
        else None
      end
  | ELimit c v =>
      (* Handle found the tomb alive: the mutex is free, Close has not been called, no kill for certain *)
      if is_cstate (e_conns s c) COffered && no_holder s && is_open s && (e_kill s <=? 1) && (v =? g_limit g)%Z
      then Some (set_holder (set_conn s c CLimit) (Some c)) else None
  | EDelay c v =>
      if is_cstate (e_conns s c) CLimit && holds s c && (v =? g_delay g)%Z
      then Some (set_conn s c CDelay) else None
  | ETimeout c v =>
      if is_cstate (e_conns s c) CDelay && holds s c && (v =? g_timeout g)%Z
      then Some (owner_after (set_unstarted (set_holder (set_conn s c CConfigured) None) (e_unstarted s + 1)) c AHead)
      else None
  | ECClose c =>
      (* Handle found the tomb dying: needs the mutex (not while Close holds it) and a reason to be dying *)
      if is_cstate (e_conns s c) COffered && no_holder s && negb (is_closing s) && ((1 <=? e_kill s) || is_closed s)
      then Some (owner_after (set_conn s c CRejected) c ADone) else None
  | ERecv c =>
      if is_cstate (e_conns s c) CConfigured
      then Some (set_unstarted (set_conn s c CReceiving) (e_unstarted s - 1)) else None
  | EAcceptCall a =>
      match e_accs s a with
      | ANone => Some (Est (e_close s) (e_kill s) true (e_holder s) (e_unstarted s)
                            (upd (e_accs s) a (if dead s then APanic else AHead))
                            (a :: e_aids s) (e_conns s) (e_owner s) (e_ret s))
      | _ => None
      end
  | EAcceptPanic a =>
      match e_accs s a with APanic => Some (set_acc s a ADone) | _ => None end
  | ESrvAccept a =>
      match e_accs s a with
      | AHead => if is_open s && (e_kill s <=? 1) then Some (set_acc s a AInAccept) else None
      | _ => None
      end
  | ESrvConn a c =>
      match e_accs s a with
      | AInAccept =>
          if is_cstate (e_conns s c) CNone
          then Some (Est (e_close s) (e_kill s) (e_ran s) (e_holder s) (e_unstarted s) (upd (e_accs s) a (AHasConn c))
                         (e_aids s) (upd (e_conns s) c COffered) (upd (e_owner s) c (Some a)) (e_ret s))
          else None
      | _ => None
      end
  | ESrvErr a =>
      match e_accs s a with
      | AInAccept => Some (set_kill (set_acc s a (if g_handler g then AErr else AErrDone)) (N.max (e_kill s) 1))
      | _ => None
      end
  | EOnError a =>
      match e_accs s a with
      | AErr => if g_handler g then Some (set_acc s a AErrDone) else None
      | _ => None
      end
  | ECloseCall =>
      (* issued at a quiescent point: the mutex is free, Close takes it and kills the tomb at once *)
      if no_holder s && negb (is_closing s)
      then Some (set_kill (set_close s ClClosing) 2) else None
  | ECloseRet =>
      if is_closing s && no_holder s && close_can_return s
      then Some (set_accs (set_close s ClClosed) (fun a => settle_acc (e_accs s a))) else None
  | EQuiet =>
      (* nothing runs: no Handle in progress, every started client has asked for its first packet, no OnError
         pending, no accept loop at its head unless it leaves there, Close has returned if it could *)
      if no_holder s && (e_unstarted s =? 0)
         && all_accs s (fun x => negb (astate_eqb x AErr) && negb (astate_eqb x APanic))
         && (all_accs s (fun x => negb (astate_eqb x AHead)) || (1 <=? e_kill s))
         && negb (is_closing s && close_can_return s)
      then Some (set_accs (set_kill s (if 1 <=? e_kill s then 2 else 0)) (fun a => settle_acc (e_accs s a)))
      else None
  end.

Fixpoint erun (g : ecfg) (s : est) (es : list ev) : option est :=
  match es with
  | [] => Some s
  | e :: es' => match step g s e with Some s' => erun g s' es' | None => None end
  end.

(* number of events accepted before the first rejected one (for the tie's diagnostics) *)
Fixpoint eaccepted (g : ecfg) (s : est) (es : list ev) : nat :=
  match es with
  | [] => O
  | e :: es' => match step g s e with Some s' => S (eaccepted g s' es') | None => O end
  end.

(* ------------------------------------------------------------------ trace clauses
   scanners over the event list alone: the statements of the theorems and, extracted,
   the judges of the traces observed on the implementation *)

Definition is_start (e : ev) : bool :=
  match e with ELimit _ _ | EDelay _ _ | ETimeout _ _ => true | _ => false end.
Definition is_acceptor_ev (e : ev) : bool :=
  match e with ESrvAccept _ | ESrvConn _ _ | ESrvErr _ | EOnError _ => true | _ => false end.

(* c1: once Close has returned no client is started (no connection is configured) and no accept loop does anything *)
Fixpoint after_close_ok (es : list ev) : bool :=
  match es with
  | [] => true
  | ECloseRet :: es' => forallb (fun e => negb (is_start e) && negb (is_acceptor_ev e)) es' && after_close_ok es'
  | _ :: es' => after_close_ok es'
  end.

(* c2: a Handle call made after Close returned does not return true *)
Fixpoint late_handles_ok (late : N -> bool) (es : list ev) : bool :=
  match es with
  | [] => true
  | EHandleCall c :: es' => late_handles_ok (upd late c true) es'
  | EHandleRet c true :: es' => negb (late c) && late_handles_ok late es'
  | _ :: es' => late_handles_ok late es'
  end.
Fixpoint handle_after_close_ok (es : list ev) : bool :=
  match es with
  | [] => true
  | ECloseRet :: es' => late_handles_ok (fun _ => false) es' && handle_after_close_ok es'
  | _ :: es' => handle_after_close_ok es'
  end.

(* c3: the first Receive on a connection comes after SetReadLimit, SetMaxWriteDelay, SetReadTimeout
   with the engine's values, in this order.  stage: 0 nothing, 1 limit, 2 delay, 3 timeout *)
Fixpoint settings_before_recv (g : ecfg) (stage : N -> N) (es : list ev) : bool :=
  match es with
  | [] => true
  | ELimit c v :: es' => settings_before_recv g (upd stage c (if (v =? g_limit g)%Z then 1 else 0)) es'
  | EDelay c v :: es' =>
      settings_before_recv g (upd stage c (if (stage c =? 1) && (v =? g_delay g)%Z then 2 else 0)) es'
  | ETimeout c v :: es' =>
      settings_before_recv g (upd stage c (if (stage c =? 2) && (v =? g_timeout g)%Z then 3 else 0)) es'
  | ERecv c :: es' => (stage c =? 3) && settings_before_recv g stage es'
  | _ :: es' => settings_before_recv g stage es'
  end.

(* c4: an accept loop stops at its first Accept error: nothing more from its server afterwards,
   OnError at most once and only after the error *)
Fixpoint no_more_from (a : N) (reported : bool) (es : list ev) : bool :=
  match es with
  | [] => true
  | ESrvAccept b :: es' | ESrvErr b :: es' => negb (b =? a) && no_more_from a reported es'
  | ESrvConn b _ :: es' => negb (b =? a) && no_more_from a reported es'
  | EOnError b :: es' => if b =? a then negb reported && no_more_from a true es' else no_more_from a reported es'
  | _ :: es' => no_more_from a reported es'
  end.
Fixpoint stops_at_error (es : list ev) : bool :=
  match es with
  | [] => true
  | ESrvErr a :: es' => no_more_from a false es' && stops_at_error es'
  | EOnError a :: es' => stops_at_error es'
  | _ :: es' => stops_at_error es'
  end.

(* c5: with a handler installed the error is reported before the engine comes to rest / Close returns *)
Fixpoint reported_before_rest (a : N) (es : list ev) : bool :=
  match es with
  | [] => true                               (* trace ends before the engine rests: nothing to say yet *)
  | EOnError b :: es' => if b =? a then true else reported_before_rest a es'
  | EQuiet :: _ | ECloseRet :: _ => false
  | _ :: es' => reported_before_rest a es'
  end.
Fixpoint error_reported (g : ecfg) (es : list ev) : bool :=
  match es with
  | [] => true
  | ESrvErr a :: es' => (negb (g_handler g) || reported_before_rest a es') && error_reported g es'
  | _ :: es' => error_reported g es'
  end.

(* c6: OnError is only ever called for a server whose Accept failed *)
Fixpoint onerror_justified (failed : N -> bool) (es : list ev) : bool :=
  match es with
  | [] => true
  | ESrvErr a :: es' => onerror_justified (upd failed a true) es'
  | EOnError a :: es' => failed a && onerror_justified failed es'
  | _ :: es' => onerror_justified failed es'
  end.

Definition engine_clauses (g : ecfg) (es : list ev) : list bool :=
  [after_close_ok es; handle_after_close_ok es; settings_before_recv g (fun _ => 0) es;
   stops_at_error es; error_reported g es; onerror_justified (fun _ => false) es].
