(* PktMisc.v — the small total functions of package packet:
   QOS.Successful, ID.Valid, ConnackCode.Valid/String, Type.Valid/String,
   Message.Copy/String (/repo/packet/packet.go, connack.go, type.go, message.go).
   Definitions only (extractable); proofs in PktMiscProofs.v.

   byte-sized Go types (QOS, ConnackCode, Type) are N below 256, ID is N below 65536. *)
From Coq Require Import List NArith Bool.
From Coq.Strings Require Import Byte.
From GM Require Import Codec.Packet.
Import ListNotations.
Open Scope N_scope.

(* func (qos QOS) Successful() bool { return qos == 0 || qos == 1 || qos == 2 } *)
Definition qos_successful (q : N) : bool := (q =? 0) || (q =? 1) || (q =? 2).

(* func (id ID) Valid() bool { return id != 0 } *)
Definition id_valid (id : N) : bool := negb (id =? 0).

(* func (cc ConnackCode) Valid() bool { return cc <= 5 } *)
Definition connack_valid (c : N) : bool := c <=? 5.

(* ASCII text -> bytes, written out so that the extraction needs no string support *)
Definition sp : byte := " "%byte.
Definition t_connection := ["c"; "o"; "n"; "n"; "e"; "c"; "t"; "i"; "o"; "n"]%byte.
Definition t_refused := t_connection ++ [sp] ++ ["r"; "e"; "f"; "u"; "s"; "e"; "d"; ":"]%byte ++ [sp].

Definition connack_string (c : N) : bytes :=
  match c with
  | 0 => t_connection ++ [sp] ++ ["a"; "c"; "c"; "e"; "p"; "t"; "e"; "d"]%byte
  | 1 => t_refused ++ ["u"; "n"; "a"; "c"; "c"; "e"; "p"; "t"; "a"; "b"; "l"; "e"]%byte ++ [sp]
           ++ ["p"; "r"; "o"; "t"; "o"; "c"; "o"; "l"]%byte ++ [sp] ++ ["v"; "e"; "r"; "s"; "i"; "o"; "n"]%byte
  | 2 => t_refused ++ ["i"; "d"; "e"; "n"; "t"; "i"; "f"; "i"; "e"; "r"]%byte ++ [sp] ++ ["r"; "e"; "j"; "e"; "c"; "t"; "e"; "d"]%byte
  | 3 => t_refused ++ ["s"; "e"; "r"; "v"; "e"; "r"]%byte ++ [sp] ++ ["u"; "n"; "a"; "v"; "a"; "i"; "l"; "a"; "b"; "l"; "e"]%byte
  | 4 => t_refused ++ ["b"; "a"; "d"]%byte ++ [sp] ++ ["u"; "s"; "e"; "r"]%byte ++ [sp] ++ ["n"; "a"; "m"; "e"]%byte ++ [sp]
           ++ ["o"; "r"]%byte ++ [sp] ++ ["p"; "a"; "s"; "s"; "w"; "o"; "r"; "d"]%byte
  | 5 => t_refused ++ ["n"; "o"; "t"]%byte ++ [sp] ++ ["a"; "u"; "t"; "h"; "o"; "r"; "i"; "z"; "e"; "d"]%byte
  | _ => ["i"; "n"; "v"; "a"; "l"; "i"; "d"]%byte ++ [sp] ++ ["c"; "o"; "n"; "n"; "a"; "c"; "k"]%byte ++ [sp] ++ ["c"; "o"; "d"; "e"]%byte
  end.
Definition connack_invalid_string : bytes := connack_string 6.

(* func (t Type) Valid() bool { return t >= CONNECT && t <= DISCONNECT } *)
Definition type_valid (t : N) : bool := (1 <=? t) && (t <=? 14).

Definition type_name (t : ptype) : bytes :=
  match t with
  | TConnect => ["C"; "o"; "n"; "n"; "e"; "c"; "t"]
  | TConnack => ["C"; "o"; "n"; "n"; "a"; "c"; "k"]
  | TPublish => ["P"; "u"; "b"; "l"; "i"; "s"; "h"]
  | TPuback => ["P"; "u"; "b"; "a"; "c"; "k"]
  | TPubrec => ["P"; "u"; "b"; "r"; "e"; "c"]
  | TPubrel => ["P"; "u"; "b"; "r"; "e"; "l"]
  | TPubcomp => ["P"; "u"; "b"; "c"; "o"; "m"; "p"]
  | TSubscribe => ["S"; "u"; "b"; "s"; "c"; "r"; "i"; "b"; "e"]
  | TSuback => ["S"; "u"; "b"; "a"; "c"; "k"]
  | TUnsubscribe => ["U"; "n"; "s"; "u"; "b"; "s"; "c"; "r"; "i"; "b"; "e"]
  | TUnsuback => ["U"; "n"; "s"; "u"; "b"; "a"; "c"; "k"]
  | TPingreq => ["P"; "i"; "n"; "g"; "r"; "e"; "q"]
  | TPingresp => ["P"; "i"; "n"; "g"; "r"; "e"; "s"; "p"]
  | TDisconnect => ["D"; "i"; "s"; "c"; "o"; "n"; "n"; "e"; "c"; "t"]
  end%byte.
Definition type_unknown : bytes := ["U"; "n"; "k"; "n"; "o"; "w"; "n"]%byte.

(* func (t Type) String() string *)
Definition type_string (t : N) : bytes :=
  match type_of_code t with Some p => type_name p | None => type_unknown end.

(* ---- Message.Copy: `func (m Message) Copy() *Message { return &m }` — a new struct with the same four
   field values.  In this value model that is the identity; what the Go copy shares with the
   original (the payload's backing array) is outside a value model and is observed on the Go side. *)
Definition message_copy (m : message) : message :=
  Msg (m_topic m) (m_payload m) (m_qos m) (m_retain m).

(* ---- Message.String: fmt.Sprintf("<Message Topic=%q QOS=%d Retain=%t Payload=%x>", …) *)
Definition hex_digit (n : N) : byte :=
  match n with
  | 0 => "0" | 1 => "1" | 2 => "2" | 3 => "3" | 4 => "4" | 5 => "5" | 6 => "6" | 7 => "7"
  | 8 => "8" | 9 => "9" | 10 => "a" | 11 => "b" | 12 => "c" | 13 => "d" | 14 => "e" | _ => "f"
  end%byte.
Definition hex_byte (b : byte) : bytes := [hex_digit (Byte.to_N b / 16); hex_digit (Byte.to_N b mod 16)].
Definition hex (s : bytes) : bytes := flat_map hex_byte s.

(* %d of a small number *)
Fixpoint dec_fuel (fuel : nat) (n : N) (acc : bytes) : bytes :=
  match fuel with
  | O => acc
  | S f => let acc' := hex_digit (n mod 10) :: acc in
           if n / 10 =? 0 then acc' else dec_fuel f (n / 10) acc'
  end.
Definition dec (n : N) : bytes := dec_fuel 20 n [].

(* %q (strconv.Quote) of a string all of whose bytes are ASCII; None = outside the model (a byte >= 0x80:
   UTF-8 decoding and unicode.IsPrint would be needed) *)
Definition bsl : byte := "\"%byte.
Definition quote_byte (b : byte) : option bytes :=
  let n := Byte.to_N b in
  if 128 <=? n then None
  else if n =? 34 then Some [bsl; b]
  else if n =? 92 then Some [bsl; b]
  else if n =? 7 then Some [bsl; "a"%byte]
  else if n =? 8 then Some [bsl; "b"%byte]
  else if n =? 12 then Some [bsl; "f"%byte]
  else if n =? 10 then Some [bsl; "n"%byte]
  else if n =? 13 then Some [bsl; "r"%byte]
  else if n =? 9 then Some [bsl; "t"%byte]
  else if n =? 11 then Some [bsl; "v"%byte]
  else if (n <? 32) || (n =? 127) then Some ([bsl; "x"%byte] ++ hex_byte b)
  else Some [b].
Fixpoint quote_body (s : bytes) : option bytes :=
  match s with
  | [] => Some []
  | b :: r => match quote_byte b, quote_body r with
              | Some x, Some y => Some (x ++ y)
              | _, _ => None
              end
  end.
Definition dq : byte := """"%byte.
Definition quote_go (s : bytes) : option bytes :=
  match quote_body s with Some x => Some ([dq] ++ x ++ [dq]) | None => None end.

Definition bool_text (b : bool) : bytes := if b then ["t"; "r"; "u"; "e"]%byte else ["f"; "a"; "l"; "s"; "e"]%byte.

Definition message_string (m : message) : option bytes :=
  match quote_go (m_topic m) with
  | None => None
  | Some q =>
      Some (["<"; "M"; "e"; "s"; "s"; "a"; "g"; "e"; " "; "T"; "o"; "p"; "i"; "c"; "="]%byte ++ q
            ++ [" "; "Q"; "O"; "S"; "="]%byte ++ dec (m_qos m)
            ++ [" "; "R"; "e"; "t"; "a"; "i"; "n"; "="]%byte ++ bool_text (m_retain m)
            ++ [" "; "P"; "a"; "y"; "l"; "o"; "a"; "d"; "="]%byte ++ hex (m_payload m) ++ [">"]%byte)
  end.
