(* DecProofsSpec2.v — C02 spec equivalence, part 2: PUBLISH, SUBACK, SUBSCRIBE,
   UNSUBSCRIBE on framed buffers. *)
From Coq Require Import List NArith ZArith Bool Lia ZifyN ZifyNat ZifyBool.
From Coq.Strings Require Import Byte.
From GM Require Import Codec.Packet Codec.Dec Codec.RefDecode Codec.DecProofsBase Codec.DecProofsSafe
     Codec.DecProofsLocal Codec.DecProofsSpec.
Import ListNotations.
Open Scope N_scope.
Ltac Zify.zify_post_hook ::= Z.div_mod_to_equations.

Lemma u16_short cur : len cur < 2 -> u16 cur = None.
Proof. rewrite u16_eq. destruct cur as [| b0 [| b1 r]]; rewrite ?len_cons; try reflexivity; lia. Qed.

Lemma u8_short cur : len cur < 1 -> u8 cur = None.
Proof. destruct cur; rewrite ?len_cons; [reflexivity | lia]. Qed.

(* ---------- PUBLISH ---------- *)
Lemma nibble_publish_bits b :
  bit (nibble_lo b) 3 = testbit (nibble_lo b) 3 /\
  (N.land (nibble_lo b) 1 =? 1) = testbit (nibble_lo b) 0 /\
  N.land (N.shiftr (nibble_lo b) 1) 3 = (nibble_lo b / 2) mod 4.
Proof. destruct b; repeat split; reflexivity. Qed.

Lemma payload_framed src hl rl total rs dup topic qos retain id :
  len src = hl + rl -> hl <= total -> at_ src total rs ->
  ok_part
    (let l := (Z.of_N rl - (Z.of_N total - Z.of_N hl))%Z in
     if (0 <? l)%Z
     then match slice src total (total + Z.to_N l) with
          | Some payload => DOk (Publish dup (Msg topic payload qos retain) id) (total + len payload)
          | None => DPanic
          end
     else DOk (Publish dup (Msg topic [] qos retain) id) total)
  = Some (Publish dup (Msg topic rs qos retain) id, len src).
Proof.
  intros Hs Hh Hat. pose proof (at_len _ _ _ Hat) as Hl. destruct Hat as [Ht Hc]. cbv zeta.
  destruct (0 <? Z.of_N rl - (Z.of_N total - Z.of_N hl))%Z eqn:E.
  - rewrite slice_ok by lia.
    replace (total + Z.to_N (Z.of_N rl - (Z.of_N total - Z.of_N hl)) - total) with (len rs) by lia.
    rewrite Hc. rewrite firstn_all2 by (unfold len; lia). cbn [ok_part]. do 2 f_equal. clear - Hl Ht. lia.
  - assert (Hr : rs = []) by (apply len_0; lia). rewrite Hr in *. rewrite len_nil in Hl. cbn [ok_part]. do 2 f_equal. lia.
Qed.

Lemma publish_framed src b0 k rl body :
  framed src b0 k rl body ->
  ok_part (decode_publish src) = ref_decode TPublish src.
Proof.
  intros F. unfold decode_publish. apply (framed_reduce _ _ _ _ _ _ _ F).
  pose proof (fr_len _ _ _ _ _ F) as Hl. pose proof (fr_total _ _ _ _ _ F) as Ht.
  pose proof (fr_at _ _ _ _ _ F) as Hat.
  rewrite (firstn_framed _ _ _ _ _ F).
  destruct (nibble_publish_bits b0) as (Hb3 & Hb0 & Hq). rewrite Hb3, Hb0, Hq.
  set (flags := nibble_lo b0). set (qos := (flags / 2) mod 4).
  cbn [body_grammar]. unfold publish_body. fold qos.
  unfold parse_all, bind, guard, ret, RefDecode.rest. cbv zeta.
  rewrite qos_successful_le.
  destruct (qos <=? 2) eqn:Eq; [| reflexivity]. cbn [negb].
  step rp_lp Hat topic rs Ep Hat'; [| reflexivity].
  apply lp_len in Ep. destruct Ep as [Ep _]. change (blen topic) with (len topic).
  destruct (len topic =? 0) eqn:Et; [reflexivity |]. cbn [negb].
  pose proof (at_len _ _ _ Hat') as Hl'.
  assert (Hh : 1 + k <= len src - len rs) by lia.
  destruct (qos =? 0) eqn:E0; cbn [negb].
  - rewrite (payload_framed src (1 + k) rl _ rs) by (assumption || lia). reflexivity.
  - unfold packet_id, bind, guard, ret.
    destruct (len src <? len src - len rs + 2) eqn:E2.
    + rewrite u16_short by lia. reflexivity.
    + step rp_u16 Hat' pid rs' Ep' Hat''; [| reflexivity].
      apply u16_len in Ep'. destruct Ep' as [Ep' _].
      destruct (pid =? 0); [reflexivity |]. cbn [negb].
      rewrite (payload_framed src (1 + k) rl _ rs') by (assumption || lia). reflexivity.
Qed.

(* ---------- many ---------- *)
Lemma many_fuel_rest {A} (p : parser A) : forall fuel s l r, many_fuel fuel p s = Some (l, r) -> r = [].
Proof.
  induction fuel as [| fuel IH]; intros s l r; destruct s as [| b s']; cbn [many_fuel]; intros H.
  - apply Some_inj2 in H. destruct H; auto.
  - discriminate.
  - apply Some_inj2 in H. destruct H; auto.
  - destruct (p (b :: s')) as [[a s''] |]; [| discriminate].
    destruct (many_fuel fuel p s'') as [[l' r'] |] eqn:E; [| discriminate].
    apply Some_inj2 in H. destruct H as [_ <-]. apply (IH _ _ _ E).
Qed.

(* parse_all of `id <- packet_id ;; xs <- many1 elem ;; ret (mk id xs)` once the id has been read *)
Lemma many1_tail {A} (elem : parser A) (mk : list A -> packet) (cur : bytes) (L : N) :
  (match
     match (xs <- many1 elem ;; (fun s : bytes => Some (mk xs, s))) cur with
     | Some (a, []) => Some a
     | _ => None
     end
   with
   | Some p => Some (p, L)
   | None => None
   end) =
  (match many_fuel (length cur) elem cur with
   | Some (l, _) => match l with [] => None | _ => Some (mk l, L) end
   | None => None
   end).
Proof.
  unfold bind, many1. destruct cur as [| b r]; [reflexivity |].
  destruct (many_fuel (length (b :: r)) elem (b :: r)) as [[l rs] |] eqn:E; [| reflexivity].
  pose proof (many_fuel_rest _ _ _ _ _ E) as ->.
  cbn [many_fuel length] in E.
  destruct (elem (b :: r)) as [[a s''] |]; [| discriminate].
  destruct (many_fuel (length r) elem s'') as [[l' r'] |]; [| discriminate].
  apply Some_inj2 in E. destruct E as [<- _]. reflexivity.
Qed.

(* ---------- SUBACK ---------- *)
Definition suback_elem : parser N := c <- u8 ;; check (c <=? 2) || (c =? 128) ;; ret c.

Lemma suback_loop_framed src id : forall count fuel total cur codes,
  at_ src total cur -> N.of_nat count = len cur -> (count <= fuel)%nat ->
  ok_part (suback_loop count src id total codes) =
  match many_fuel fuel suback_elem cur with
  | Some (l, _) => Some (Suback id (codes ++ l), len src)
  | None => None
  end.
Proof.
  induction count as [| count IH]; intros fuel total cur codes Hat Hc Hf.
  - assert (cur = []) by (apply len_0; lia). subst cur.
    pose proof (proj1 (at_end _ _ _ Hat) eq_refl) as ->.
    destruct fuel; cbn [many_fuel suback_loop ok_part]; rewrite app_nil_r; reflexivity.
  - destruct fuel as [| fuel]; [lia |].
    destruct cur as [| b r]; [rewrite len_nil in Hc; lia |].
    cbn [suback_loop many_fuel].
    step rp_u8 Hat rc rs Ep Hat'.
    + unfold suback_elem at 1. unfold bind, guard, ret. rewrite Ep.
      pose proof (u8_len _ _ _ Ep) as [Hl _]. rewrite qos_successful_le.
      destruct ((rc <=? 2) || (rc =? 128)) eqn:Eg.
      * replace (negb (rc <=? 2) && negb (rc =? 128)) with false by lia.
        rewrite (IH fuel _ rs) by (assumption || lia).
        destruct (many_fuel fuel suback_elem rs) as [[l r'] |]; [| reflexivity].
        rewrite <- app_assoc. reflexivity.
      * replace (negb (rc <=? 2) && negb (rc =? 128)) with true by lia. reflexivity.
    + unfold suback_elem at 1. unfold bind. rewrite Ep. reflexivity.
Qed.

Lemma suback_framed src b0 k rl body :
  framed src b0 k rl body ->
  ok_part (decode_suback src) = ref_decode TSuback src.
Proof.
  intros F. unfold decode_suback. apply (framed_reduce _ _ _ _ _ _ _ F).
  pose proof (fr_len _ _ _ _ _ F) as Hl. pose proof (fr_total _ _ _ _ _ F) as Ht.
  pose proof (fr_at _ _ _ _ _ F) as Hat.
  rewrite (firstn_framed _ _ _ _ _ F).
  cbn [body_grammar]. unfold suback_body, parse_all. fold suback_elem.
  unfold packet_id. unfold bind at 1 2 3. unfold guard, ret.
  step rp_u16 Hat pid rs Ep Hat'; [| reflexivity].
  apply u16_len in Ep. destruct Ep as [Ep _].
  destruct (pid =? 0) eqn:E0; [reflexivity |]. cbn [negb]. cbv zeta.
  rewrite (many1_tail suback_elem (Suback pid) rs (len src)).
  destruct (Z.of_N rl - 2 <? 1)%Z eqn:Er.
  - assert (rs = []) by (apply len_0; lia). subst rs. reflexivity.
  - rewrite (suback_loop_framed src pid _ (length rs) _ rs) by (assumption || (unfold len in *; lia)).
    destruct (many_fuel (length rs) suback_elem rs) as [[l r'] |] eqn:Em; [| reflexivity].
    cbn [app]. destruct l as [| c l']; [| reflexivity].
    destruct rs as [| x y]; [rewrite len_nil in Ep; lia |].
    cbn [many_fuel length] in Em.
    destruct (suback_elem (x :: y)) as [[a s''] |]; [| discriminate].
    destruct (many_fuel (length y) suback_elem s'') as [[l2 r2] |]; discriminate.
Qed.

(* ---------- SUBSCRIBE ---------- *)
Definition subscribe_elem : parser (bytes * N) := filter <- lp_bytes ;; q <- qos_byte ;; ret (filter, q).

Lemma subscribe_loop_framed src id : forall fuel1 fuel2 total cur subs,
  at_ src total cur -> len cur < N.of_nat fuel1 -> len cur <= N.of_nat fuel2 ->
  ok_part (subscribe_loop fuel1 src id total (Z.of_N (len cur)) subs) =
  match many_fuel fuel2 subscribe_elem cur with
  | Some (l, _) => match subs ++ l with [] => None | _ => Some (Subscribe id (subs ++ l), len src) end
  | None => None
  end.
Proof.
  induction fuel1 as [| fuel1 IH]; intros fuel2 total cur subs Hat H1 H2; [lia |].
  cbn [subscribe_loop].
  destruct cur as [| b r].
  - rewrite len_nil. change (0 <? Z.of_N 0)%Z with false. cbv iota.
    pose proof (proj1 (at_end _ _ _ Hat) eq_refl) as ->.
    assert (Hm : many_fuel fuel2 subscribe_elem [] = Some ([], [])) by (destruct fuel2; reflexivity).
    rewrite Hm, app_nil_r. destruct subs; reflexivity.
  - set (cur := b :: r) in *.
    assert (Hpos : (0 <? Z.of_N (len cur))%Z = true) by (unfold cur; rewrite len_cons; lia).
    rewrite Hpos.
    destruct fuel2 as [| fuel2]; [unfold cur in H2; rewrite len_cons in H2; lia |].
    assert (Hm : many_fuel (S fuel2) subscribe_elem cur =
                 match subscribe_elem cur with
                 | Some (a, s') => match many_fuel fuel2 subscribe_elem s' with
                                   | Some (l, s'') => Some (a :: l, s'')
                                   | None => None
                                   end
                 | None => None
                 end) by reflexivity.
    rewrite Hm. clear Hm.
    unfold subscribe_elem at 1. unfold qos_byte. unfold bind at 1 2 3 4. unfold guard, ret.
    step rp_lp Hat topic rs Ep Hat'; [| reflexivity].
    pose proof (lp_len _ _ _ Ep) as [Hl _].
    pose proof (at_len _ _ _ Hat') as Hl'.
    destruct (len src <? len src - len rs + 1) eqn:E1.
    + rewrite u8_short by lia. reflexivity.
    + step rp_u8' Hat' q rs' Ep' Hat''; [| reflexivity].
      pose proof (u8_len _ _ _ Ep') as [Hl2 _].
      rewrite qos_successful_le. destruct (q <=? 2) eqn:Eq; [| reflexivity]. cbn [negb].
      replace (Z.of_N (len cur) - (2 + Z.of_N (len topic) + 1))%Z with (Z.of_N (len rs')) by lia.
      rewrite (IH fuel2 _ rs') by (assumption || lia).
      destruct (many_fuel fuel2 subscribe_elem rs') as [[l r'] |]; [| reflexivity].
      rewrite <- app_assoc. reflexivity.
Qed.

Lemma subscribe_framed src b0 k rl body :
  framed src b0 k rl body ->
  ok_part (decode_subscribe src) = ref_decode TSubscribe src.
Proof.
  intros F. unfold decode_subscribe. apply (framed_reduce _ _ _ _ _ _ _ F).
  pose proof (fr_len _ _ _ _ _ F) as Hl. pose proof (fr_total _ _ _ _ _ F) as Ht.
  pose proof (fr_at _ _ _ _ _ F) as Hat. pose proof (fr_k _ _ _ _ _ F) as Hk.
  rewrite (firstn_framed _ _ _ _ _ F).
  cbn [body_grammar]. unfold subscribe_body, parse_all. fold subscribe_elem.
  unfold packet_id. unfold bind at 1 2 3. unfold guard, ret.
  destruct (len src <? 1 + k + 2) eqn:E2.
  - rewrite u16_short by lia. reflexivity.
  - step rp_u16 Hat pid rs Ep Hat'; [| reflexivity].
    apply u16_len in Ep. destruct Ep as [Ep _].
    destruct (pid =? 0) eqn:E0; [reflexivity |]. cbn [negb].
      rewrite (many1_tail subscribe_elem (Subscribe pid) rs (len src)).
    replace (Z.of_N rl - 2)%Z with (Z.of_N (len rs)) by lia.
    rewrite (subscribe_loop_framed src pid _ (length rs) _ rs) by (assumption || (unfold len in *; lia)).
    reflexivity.
Qed.

(* ---------- UNSUBSCRIBE ---------- *)
Lemma unsubscribe_loop_framed src id : forall fuel1 fuel2 total cur topics,
  at_ src total cur -> len cur < N.of_nat fuel1 -> len cur <= N.of_nat fuel2 ->
  ok_part (unsubscribe_loop fuel1 src id total (Z.of_N (len cur)) topics) =
  match many_fuel fuel2 lp_bytes cur with
  | Some (l, _) => match topics ++ l with [] => None | _ => Some (Unsubscribe id (topics ++ l), len src) end
  | None => None
  end.
Proof.
  induction fuel1 as [| fuel1 IH]; intros fuel2 total cur topics Hat H1 H2; [lia |].
  cbn [unsubscribe_loop].
  destruct cur as [| b r].
  - rewrite len_nil. change (0 <? Z.of_N 0)%Z with false. cbv iota.
    pose proof (proj1 (at_end _ _ _ Hat) eq_refl) as ->.
    assert (Hm : many_fuel fuel2 lp_bytes [] = Some ([], [])) by (destruct fuel2; reflexivity).
    rewrite Hm, app_nil_r. destruct topics; reflexivity.
  - set (cur := b :: r) in *.
    assert (Hpos : (0 <? Z.of_N (len cur))%Z = true) by (unfold cur; rewrite len_cons; lia).
    rewrite Hpos.
    destruct fuel2 as [| fuel2]; [unfold cur in H2; rewrite len_cons in H2; lia |].
    assert (Hm : many_fuel (S fuel2) lp_bytes cur =
                 match lp_bytes cur with
                 | Some (a, s') => match many_fuel fuel2 lp_bytes s' with
                                   | Some (l, s'') => Some (a :: l, s'')
                                   | None => None
                                   end
                 | None => None
                 end) by reflexivity.
    rewrite Hm. clear Hm.
    destruct Hat as [Ht Hc]. rewrite slice_from_ok by assumption. rewrite Hc.
    pose proof (rp_lp cur) as Hrp. pose proof (lp_n cur) as Hn.
    destruct (read_lp_bytes cur) as [topic n | n |] eqn:Er.
    + destruct Hrp as [Hle Hp]. rewrite Hp. destruct (Hn _ _ eq_refl) as [Hn1 _].
      pose proof (len_skipn (N.to_nat total) src) as Hls. rewrite Hc in Hls.
      replace (Z.of_N (len cur) - Z.of_N n)%Z with (Z.of_N (len (skipn (N.to_nat n) cur)))
        by (rewrite len_skipn; lia).
      rewrite (IH fuel2 _ (skipn (N.to_nat n) cur)).
      * destruct (many_fuel fuel2 lp_bytes (skipn (N.to_nat n) cur)) as [[l r'] |]; [| reflexivity].
        rewrite <- app_assoc. reflexivity.
      * split; [lia |]. rewrite <- Hc. rewrite skipn_add. f_equal. lia.
      * rewrite len_skipn. lia.
      * rewrite len_skipn. lia.
    + rewrite Hrp. reflexivity.
    + contradiction.
Qed.

Lemma unsubscribe_framed src b0 k rl body :
  framed src b0 k rl body ->
  ok_part (decode_unsubscribe src) = ref_decode TUnsubscribe src.
Proof.
  intros F. unfold decode_unsubscribe. apply (framed_reduce _ _ _ _ _ _ _ F).
  pose proof (fr_len _ _ _ _ _ F) as Hl. pose proof (fr_total _ _ _ _ _ F) as Ht.
  pose proof (fr_at _ _ _ _ _ F) as Hat. pose proof (fr_k _ _ _ _ _ F) as Hk.
  rewrite (firstn_framed _ _ _ _ _ F).
  cbn [body_grammar]. unfold unsubscribe_body, parse_all.
  unfold packet_id. unfold bind at 1 2 3. unfold guard, ret.
  step rp_u16 Hat pid rs Ep Hat'; [| reflexivity].
  apply u16_len in Ep. destruct Ep as [Ep _].
  destruct (pid =? 0) eqn:E0; [reflexivity |]. cbn [negb].
  rewrite (many1_tail lp_bytes (Unsubscribe pid) rs (len src)).
  replace (Z.of_N rl - 2)%Z with (Z.of_N (len rs)) by lia.
  rewrite (unsubscribe_loop_framed src pid _ (length rs) _ rs) by (assumption || (unfold len in *; lia)).
  reflexivity.
Qed.
