(* EncProofsTypes.v — every Encode of Enc.v, walked once for ALL packets when the buffer
   holds at least Len() bytes (fits_*: success writes exactly Len() bytes, never a panic) and
   once for buffers that are too short (short_*: an error).  Simple types first. *)
From Coq Require Import List NArith ZArith Bool Lia ZifyN ZifyNat ZifyBool.
From Coq.Strings Require Import Byte.
From GM Require Import Codec.Packet Codec.WF Codec.Enc Codec.EncProofsBase.
Import ListNotations.
Open Scope N_scope.
Ltac Zify.zify_post_hook ::= Z.div_mod_to_equations.

(* the cursor after encodeHeader *)
Definition hcur (t : ptype) (flags rl : N) (dst : bytes) : cur :=
  Cur (rev (first_byte t flags :: vb rl)) (drop (header_len_go rl) dst).

Lemma done_hcur t f rl dst : c_done (hcur t f rl dst) = first_byte t f :: vb rl.
Proof. rewrite c_done_eq. unfold hcur. cbn [c_rdone]. apply rev_involutive. Qed.
Lemma rest_hcur t f rl dst : c_rest (hcur t f rl dst) = drop (header_len_go rl) dst.
Proof. reflexivity. Qed.
Lemma total_hcur t f rl dst : rl <= max_varint -> total (hcur t f rl dst) = header_len_go rl.
Proof.
  intros H. rewrite total_done, done_hcur, blen_cons, blen_vb by exact H. reflexivity.
Qed.

Lemma encode_header_nf dst flags rl tl t :
  header_len_go rl <= blen dst -> tl <= blen dst ->
  encode_header dst flags rl tl t = if rl <=? max_varint then SOk (hcur t flags rl dst) else SErr 0.
Proof.
  intros Hh Ht. destruct (rl <=? max_varint) eqn:E.
  - apply N.leb_le in E. rewrite encode_header_fits by assumption. reflexivity.
  - apply N.leb_gt in E. unfold encode_header. rewrite !len_lt_false by assumption. cbn [orb].
    destruct dst as [| b0 d1].
    + unfold header_len_go in Hh. rewrite blen_nil in Hh. lia.
    + rewrite write_varint_too_big by exact E. reflexivity.
Qed.

(* what an Encode into a buffer of at least L bytes may do *)
Definition fits_ok (L : N) (dst : bytes) (r : bres) : Prop :=
  match r with
  | BOk n d => n = L /\ blen d = blen dst
  | BErr _ => True
  | BPanic => False
  end.

Definition is_err (r : bres) : Prop := exists n, r = BErr n.

Ltac norm :=
  rewrite ?total_push, ?done_push, ?rest_push, ?total_hcur, ?done_hcur, ?rest_hcur,
    ?blen_app, ?blen_drop, ?blen_lpb, ?blen_u16, ?blen_cons, ?blen_nil, ?blen_vb
    by (assumption || lia).
Ltac cap := norm; unfold header_len_go in *; lia.

Ltac leb_hyps :=
  repeat match goal with
  | H : (_ <=? _) = true |- _ => apply N.leb_le in H
  | H : (_ <=? _) = false |- _ => apply N.leb_gt in H
  | H : (_ <? _) = true |- _ => apply N.ltb_lt in H
  | H : (_ <? _) = false |- _ => apply N.ltb_ge in H
  | H : (_ =? _) = true |- _ => apply N.eqb_eq in H
  | H : (_ =? _) = false |- _ => apply N.eqb_neq in H
  end.

(* closes  fits_ok L dst (finish (SOk <pushes on hcur>)) *)
Ltac fits_done :=
  cbn [finish fits_ok]; leb_hyps; split; [cap | cap].

Lemma hl0 : header_len_go 0 = 2. Proof. reflexivity. Qed.
Lemma vl0 : varint_len_go 0 = 1. Proof. reflexivity. Qed.
Lemma hl2 : header_len_go 2 = 2. Proof. reflexivity. Qed.
Lemma vl2 : varint_len_go 2 = 1. Proof. reflexivity. Qed.

Lemma header_len_go_pos rl : 1 <= header_len_go rl.
Proof. unfold header_len_go. lia. Qed.

(* ---------------------------------------------------------------- naked *)
Lemma naked_len_2 : naked_len = 2. Proof. reflexivity. Qed.

Lemma encode_naked_fits dst t : 2 <= blen dst -> encode_naked dst t = SOk (hcur t 0 0 dst).
Proof.
  intros H. unfold encode_naked. rewrite encode_header_nf by (rewrite ?naked_len_2; exact H).
  reflexivity.
Qed.

Lemma fits_naked dst t : naked_len <= blen dst -> fits_ok naked_len dst (finish (encode_naked dst t)).
Proof.
  rewrite naked_len_2. intros H. rewrite encode_naked_fits by exact H.
  assert (Hm : 0 <= max_varint) by (unfold max_varint; lia).
  cbn [finish fits_ok]. split; norm; rewrite ?hl0, ?vl0; lia.
Qed.

Lemma short_naked dst t : blen dst < naked_len -> is_err (finish (encode_naked dst t)).
Proof.
  intros H. unfold encode_naked. rewrite encode_header_short by exact H. eexists; reflexivity.
Qed.

(* ---------------------------------------------------------------- identified *)
Lemma identified_len_4 : identified_len = 4. Proof. reflexivity. Qed.

Lemma encode_identified_fits dst id t : 4 <= blen dst ->
  encode_identified dst id t =
  if id =? 0 then SErr 0 else SOk (push (hcur t 0 2 dst) (u16 id) 2).
Proof.
  intros H. unfold encode_identified, id_valid. destruct (id =? 0); cbn [negb]; [reflexivity |].
  rewrite encode_header_nf by (rewrite ?identified_len_4; change (header_len_go 2) with 2; lia).
  change (2 <=? max_varint) with true. cbn [sbind].
  rewrite put_u16_fits by (rewrite rest_hcur, blen_drop; change (header_len_go 2) with 2; lia).
  reflexivity.
Qed.

Lemma fits_identified dst id t :
  identified_len <= blen dst -> fits_ok identified_len dst (finish (encode_identified dst id t)).
Proof.
  rewrite identified_len_4. intros H. rewrite encode_identified_fits by exact H.
  destruct (id =? 0); [exact I |].
  assert (Hm : 2 <= max_varint) by (unfold max_varint; lia).
  cbn [finish fits_ok]. split; norm; rewrite ?hl2, ?vl2; lia.
Qed.

Lemma short_identified dst id t :
  blen dst < identified_len -> is_err (finish (encode_identified dst id t)).
Proof.
  intros H. unfold encode_identified. destruct (negb (id_valid id)); [eexists; reflexivity |].
  rewrite encode_header_short by exact H. eexists; reflexivity.
Qed.

(* ---------------------------------------------------------------- connack *)
Lemma connack_len_4 : connack_len = 4. Proof. reflexivity. Qed.

Lemma encode_connack_fits dst sp rc : 4 <= blen dst ->
  encode_connack dst sp rc =
  let c := push (hcur TConnack 0 2 dst) [n2b (if sp then 1 else 0)] 1 in
  if rc <=? 5 then SOk (push c [n2b rc] 1) else SErr (total c).
Proof.
  intros H. unfold encode_connack.
  rewrite encode_header_nf by (rewrite ?connack_len_4; change (header_len_go 2) with 2; lia).
  change (2 <=? max_varint) with true. cbn [sbind].
  rewrite put_u8_fits by (rewrite rest_hcur, blen_drop; change (header_len_go 2) with 2; lia).
  cbn [sbind]. cbv zeta. destruct (rc <=? 5); cbn [negb]; [| reflexivity].
  rewrite put_u8_fits by (rewrite rest_push, rest_hcur, !blen_drop; change (header_len_go 2) with 2; lia).
  reflexivity.
Qed.

Lemma fits_connack dst sp rc :
  connack_len <= blen dst -> fits_ok connack_len dst (finish (encode_connack dst sp rc)).
Proof.
  rewrite connack_len_4. intros H. rewrite encode_connack_fits by exact H. cbv zeta.
  destruct (rc <=? 5); [| exact I].
  assert (Hm : 2 <= max_varint) by (unfold max_varint; lia).
  cbn [finish fits_ok]. split; norm; rewrite ?hl2, ?vl2; lia.
Qed.

Lemma short_connack dst sp rc : blen dst < connack_len -> is_err (finish (encode_connack dst sp rc)).
Proof.
  intros H. unfold encode_connack. rewrite encode_header_short by exact H. eexists; reflexivity.
Qed.

(* ---------------------------------------------------------------- suback *)
Definition code_ok (rc : N) : bool := qos_successful rc || (rc =? 128).

Lemma encode_codes_fits codes : forall c, N.of_nat (length codes) <= blen (c_rest c) ->
  encode_codes c codes =
  if forallb code_ok codes then SOk (push c (map n2b codes) (N.of_nat (length codes))) else SErr 0.
Proof.
  induction codes as [| rc more IH]; intros c H.
  - cbn [encode_codes forallb map length]. unfold push. cbn [rev_append N.of_nat].
    rewrite drop_0. destruct c; reflexivity.
  - cbn [encode_codes forallb]. unfold code_ok at 1.
    cbn [length] in H. rewrite Nat2N.inj_succ in H.
    destruct (qos_successful rc) eqn:Q; cbn [negb andb orb].
    + rewrite put_u8_fits by lia. cbn [sbind]. rewrite IH by (rewrite rest_push, blen_drop; lia).
      destruct (forallb code_ok more); [| reflexivity].
      f_equal. unfold push. cbn [c_rdone c_rest map rev_append length]. rewrite drop_drop.
      f_equal. f_equal. lia.
    + destruct (rc =? 128); cbn [negb andb orb]; [| reflexivity].
      rewrite put_u8_fits by lia. cbn [sbind]. rewrite IH by (rewrite rest_push, blen_drop; lia).
      destruct (forallb code_ok more); [| reflexivity].
      f_equal. unfold push. cbn [c_rdone c_rest map rev_append length]. rewrite drop_drop.
      f_equal. f_equal. lia.
Qed.

Lemma encode_suback_fits dst id codes : suback_len codes <= blen dst ->
  encode_suback dst id codes =
  if suback_plen codes <=? max_varint then
    if id =? 0 then SErr 0 else
    if forallb code_ok codes
    then SOk (push (push (hcur TSuback 0 (suback_plen codes) dst) (u16 id) 2) (map n2b codes)
                   (N.of_nat (length codes)))
    else SErr 0
  else SErr 0.
Proof.
  unfold suback_len. cbv zeta. intros H. unfold encode_suback.
  rewrite encode_header_nf by (unfold suback_len; cbv zeta; lia).
  destruct (suback_plen codes <=? max_varint) eqn:E; [| reflexivity]. cbn [sbind].
  unfold id_valid. destruct (id =? 0); cbn [negb]; [reflexivity |].
  unfold suback_plen in *.
  rewrite put_u16_fits by (rewrite rest_hcur, blen_drop; lia). cbn [sbind].
  rewrite encode_codes_fits by (rewrite rest_push, rest_hcur, !blen_drop; lia).
  reflexivity.
Qed.

Lemma blen_map_n2b codes : blen (map n2b codes) = N.of_nat (length codes).
Proof. unfold blen. rewrite map_length. reflexivity. Qed.

Lemma fits_suback dst id codes :
  suback_len codes <= blen dst -> fits_ok (suback_len codes) dst (finish (encode_suback dst id codes)).
Proof.
  intros H. rewrite encode_suback_fits by exact H.
  destruct (suback_plen codes <=? max_varint) eqn:E; [| exact I].
  destruct (id =? 0); [exact I |]. destruct (forallb code_ok codes); [| exact I].
  unfold suback_len in *. cbv zeta in *. unfold suback_plen in *.
  cbn [finish fits_ok]. leb_hyps. split; norm; rewrite ?blen_map_n2b; unfold header_len_go in *; lia.
Qed.

Lemma short_suback dst id codes :
  blen dst < suback_len codes -> is_err (finish (encode_suback dst id codes)).
Proof.
  intros H. unfold encode_suback. rewrite encode_header_short by exact H. eexists; reflexivity.
Qed.
