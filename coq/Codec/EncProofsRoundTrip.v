(* EncProofsRoundTrip.v — C01_roundtrip: decoding wire_spec p gives p back and consumes all.

   Route: the decoder side proved (DecProofsSpec3.spec_equiv_framed) that on a buffer framed to
   its header-declared extent the Go decoder model decode_go and the reference decoder
   RefDecode.ref_decode (a parser-combinator grammar written from the standard) agree.  Here:
   wire_spec p is framed, and ref_decode parses it back to p. *)
From Coq Require Import List NArith ZArith Bool Lia ZifyN ZifyNat ZifyBool.
From Coq.Strings Require Import Byte.
From GM Require Import Codec.Packet Codec.WF Codec.Enc Codec.WireSpec Codec.EncProofsBase Codec.EncProofsSpec
  Codec.EncProofsTypes Codec.EncProofs Codec.EncProofsTop.
From GM Require Codec.Dec Codec.RefDecode Codec.DecProofsBase Codec.DecProofsEnc Codec.DecProofsSpec Codec.DecProofsSpec3.
Import ListNotations.
Open Scope N_scope.
Ltac Zify.zify_post_hook ::= Z.div_mod_to_equations.

Module R := RefDecode.

(* ---------------------------------------------------------------- parser steps on encoded pieces *)
Lemma to_N_n2b v : Byte.to_N (n2b v) = v mod 256.
Proof. exact (b2n_n2b v). Qed.

Lemma u8_n2b v r : R.u8 (n2b v :: r) = Some (v mod 256, r).
Proof. cbn [R.u8]. rewrite to_N_n2b. reflexivity. Qed.

Lemma u16_two_byte_int v r : v <= 65535 -> R.u16 (two_byte_int v ++ r) = Some (v, r).
Proof.
  intros H. unfold two_byte_int. cbn [app]. change byte_of with n2b.
  unfold R.u16, R.bind. rewrite u8_n2b, u8_n2b. unfold R.ret. do 2 f_equal. lia.
Qed.

Lemma take_app s r : R.take (blen s) (s ++ r) = Some (s, r).
Proof.
  unfold R.take. replace (blen s <=? R.blen (s ++ r)) with true.
  - fold (Enc.take (blen s) (s ++ r)). fold (Enc.drop (blen s) (s ++ r)).
    rewrite take_app_exact, drop_app_exact. reflexivity.
  - symmetry. apply N.leb_le. change R.blen with blen. rewrite blen_app. lia.
Qed.

Lemma lp_bytes_prefixed s r : blen s <= 65535 -> R.lp_bytes (prefixed s ++ r) = Some (s, r).
Proof.
  intros H. unfold prefixed, R.lp_bytes, R.bind. rewrite <- app_assoc, size_blen.
  rewrite u16_two_byte_int by exact H. apply take_app.
Qed.

Lemma packet_id_ok id r : 1 <= id <= 65535 -> R.packet_id (two_byte_int id ++ r) = Some (id, r).
Proof.
  intros H. unfold R.packet_id, R.bind. rewrite u16_two_byte_int by lia.
  replace (id =? 0) with false by (symmetry; apply N.eqb_neq; lia). reflexivity.
Qed.

(* lists: every element encoded by enc, parsed back by p *)
Lemma many_fuel_concat {A} (p : R.parser A) (enc : A -> bytes) (l : list A) :
  (forall x r, In x l -> p (enc x ++ r) = Some (x, r)) ->
  (forall x, In x l -> enc x <> []) ->
  forall fuel, (length l <= fuel)%nat -> R.many_fuel fuel p (concat (map enc l)) = Some (l, []).
Proof.
  induction l as [| x l IH]; intros Hp Hn fuel Hf.
  - destruct fuel; reflexivity.
  - cbn [map concat]. destruct fuel as [| fuel]; [cbn [length] in Hf; lia |].
    assert (Hx : enc x <> []) by (apply Hn; left; reflexivity).
    destruct (enc x ++ concat (map enc l)) as [| b s] eqn:E.
    { apply app_eq_nil in E. destruct E as [E _]. contradiction. }
    rewrite <- E. cbn [R.many_fuel]. rewrite E. rewrite <- E.
    rewrite Hp by (left; reflexivity).
    rewrite IH; [reflexivity | | | cbn [length] in Hf; lia].
    + intros y r Hy. apply Hp. right. exact Hy.
    + intros y Hy. apply Hn. right. exact Hy.
Qed.

Lemma concat_length_ge {A} (enc : A -> bytes) (l : list A) :
  (forall x, In x l -> enc x <> []) -> (length l <= length (concat (map enc l)))%nat.
Proof.
  induction l as [| x l IH]; intros Hn; [cbn; lia |].
  cbn [map concat length]. rewrite app_length.
  assert (Hx : enc x <> []) by (apply Hn; left; reflexivity).
  destruct (enc x) as [| b s]; [contradiction |]. cbn [length].
  specialize (IH (fun y Hy => Hn y (or_intror Hy))). lia.
Qed.

Lemma many1_concat {A} (p : R.parser A) (enc : A -> bytes) (l : list A) :
  l <> [] ->
  (forall x r, In x l -> p (enc x ++ r) = Some (x, r)) ->
  (forall x, In x l -> enc x <> []) ->
  R.many1 p (concat (map enc l)) = Some (l, []).
Proof.
  intros Hl Hp Hn. unfold R.many1.
  destruct (concat (map enc l)) as [| b s] eqn:E.
  - destruct l as [| x l]; [contradiction |]. cbn [map concat] in E.
    apply app_eq_nil in E. destruct E as [E _]. exfalso. apply (Hn x); [left; reflexivity | exact E].
  - rewrite <- E. apply many_fuel_concat; [exact Hp | exact Hn | apply concat_length_ge; exact Hn].
Qed.

(* ---------------------------------------------------------------- framing *)
Lemma vb_vbytes x : vb x = DecProofsEnc.vbytes x.
Proof. reflexivity. Qed.

Lemma remaining_length_vb_app rl tail : rl <= max_varint ->
  R.remaining_length (vb rl ++ tail) = Some (rl, varint_len rl, tail).
Proof. intros H. rewrite vb_vbytes. apply DecProofsEnc.remaining_length_vbytes. exact H. Qed.

Lemma wf_extent p : wf p = true -> R.extent (wire_spec p) = Some (Dec.len (wire_spec p)).
Proof.
  intros W. change Dec.len with blen. rewrite blen_wire_spec by exact W.
  rewrite wire_spec_shape by exact W. cbn [app R.extent].
  rewrite remaining_length_vb_app by (apply wf_body_len in W; exact W).
  unfold total_len. reflexivity.
Qed.

(* ---------------------------------------------------------------- the first byte *)
Lemma first_byte_split tv fl : tv <= 15 -> fl <= 15 ->
  Byte.to_N (n2b (16 * tv + fl)) / 16 = tv /\ Byte.to_N (n2b (16 * tv + fl)) mod 16 = fl.
Proof. intros H1 H2. rewrite to_N_n2b. split; lia. Qed.

Lemma type_value_code p : type_value p = type_code (ptype_of p).
Proof. destruct p; reflexivity. Qed.

Lemma type_value_le p : type_value p <= 15.
Proof. destruct p; cbn [type_value]; lia. Qed.

(* reading the fixed header of wire_spec p leaves the grammar of the type on the body *)
Lemma ref_decode_shape p : wf p = true -> flag_bits p <= 15 ->
  (ptype_of p = TPublish \/ flag_bits p = R.reserved_flags (ptype_of p)) ->
  R.ref_decode (ptype_of p) (wire_spec p) =
  match R.parse_all (R.body_grammar (ptype_of p) (flag_bits p)) (variable_header p ++ payload p) with
  | Some q => Some (q, total_len p)
  | None => None
  end.
Proof.
  intros W Hf Hr. rewrite wire_spec_shape by exact W. cbn [app R.ref_decode].
  destruct (first_byte_split (type_value p) (flag_bits p) (type_value_le p) Hf) as [E1 E2].
  rewrite E1, E2, type_value_code, N.eqb_refl. cbn [negb].
  assert (G : negb (ptype_eqb (ptype_of p) TPublish) && negb (flag_bits p =? R.reserved_flags (ptype_of p)) = false).
  { destruct Hr as [Hr | Hr]; [rewrite Hr; reflexivity | rewrite Hr, N.eqb_refl; apply andb_false_r]. }
  rewrite G. rewrite remaining_length_vb_app by (apply wf_body_len in W; exact W).
  change R.blen with blen. rewrite body_size.
  replace (body_len p <? body_len p) with false by (symmetry; apply N.ltb_ge; lia).
  rewrite <- (body_size p) at 1. fold (Enc.take (blen (variable_header p ++ payload p)) (variable_header p ++ payload p)).
  rewrite take_all by lia. unfold total_len.
  destruct (R.parse_all _ _); reflexivity.
Qed.

(* ---------------------------------------------------------------- the grammar parses each body back *)
Definition parses (p : packet) : Prop :=
  R.parse_all (R.body_grammar (ptype_of p) (flag_bits p)) (variable_header p ++ payload p) = Some p.

Lemma parses_identified id (mk : N -> packet) :
  1 <= id <= 65535 -> R.parse_all (R.id_body mk) (two_byte_int id ++ []) = Some (mk id).
Proof.
  intros H. unfold R.parse_all, R.id_body, R.bind. rewrite packet_id_ok by exact H. reflexivity.
Qed.

Lemma parses_connack sp rc : rc <= 5 -> parses (Connack sp rc).
Proof.
  intros H. unfold parses. cbn [ptype_of flag_bits variable_header payload R.body_grammar app].
  unfold R.parse_all, R.connack_body, R.bind. change byte_of with n2b. rewrite u8_n2b.
  assert (B : bit sp mod 256 = bit sp) by (destruct sp; reflexivity). rewrite B.
  replace (bit sp <=? 1) with true by (destruct sp; reflexivity). cbn [R.guard].
  rewrite u8_n2b, N.mod_small by lia.
  replace (rc <=? 5) with true by (symmetry; apply N.leb_le; exact H). cbn [R.guard R.ret].
  destruct sp; reflexivity.
Qed.

Lemma publish_flag_bits dup retain qos : qos <= 2 ->
  let f := 8 * bit dup + 2 * qos + bit retain in
  R.testbit f 3 = dup /\ (f / 2) mod 4 = qos /\ R.testbit f 0 = retain.
Proof.
  intros H. cbv zeta. unfold R.testbit. change (2 ^ 3) with 8. change (2 ^ 0) with 1.
  destruct dup, retain; cbn [bit]; repeat split;
    first [ apply N.eqb_eq; lia | apply N.eqb_neq; lia | lia ].
Qed.

Lemma parses_publish dup m id :
  msg_ok m = true -> (if m_qos m =? 0 then id =? 0 else id_ok id) = true -> parses (Publish dup m id).
Proof.
  intros Wm Wi. unfold msg_ok in Wm. rewrite !andb_true_iff in Wm. destruct Wm as [[Wm1 Wm2] Wm3].
  rewrite nonempty_present in Wm1. unfold str_ok in Wm2. unfold qos_ok in Wm3. leb_hyps.
  unfold parses. cbn [ptype_of flag_bits variable_header payload R.body_grammar].
  destruct (publish_flag_bits dup (m_retain m) (m_qos m) Wm3) as (F1 & F2 & F3).
  unfold R.parse_all, R.publish_body, R.bind. rewrite F1, F2, F3.
  replace (m_qos m <=? 2) with true by (symmetry; apply N.leb_le; exact Wm3). cbn [R.guard].
  rewrite <- app_assoc. rewrite lp_bytes_prefixed by exact Wm2.
  change R.blen with blen. rewrite blen_eq0_present, Wm1. cbn [negb R.guard].
  destruct m as [topic pl qos retain]. cbn [m_qos m_topic m_payload m_retain] in *.
  destruct (qos =? 0) eqn:Q; leb_hyps.
  - subst id. cbn [app R.ret R.rest]. reflexivity.
  - apply id_ok_iff in Wi. rewrite packet_id_ok by exact Wi. cbn [R.rest]. reflexivity.
Qed.

Lemma parses_subscribe id subs :
  1 <= id <= 65535 -> subs <> [] ->
  forallb (fun s => str_ok (fst s) && qos_ok (snd s)) subs = true -> parses (Subscribe id subs).
Proof.
  intros Hid Hn Hl. unfold parses. cbn [ptype_of flag_bits variable_header payload R.body_grammar].
  unfold R.parse_all, R.subscribe_body, R.bind. rewrite packet_id_ok by exact Hid.
  rewrite many1_concat; [reflexivity | exact Hn | |].
  - intros [t q] r Hin. rewrite forallb_forall in Hl. specialize (Hl _ Hin). cbn [fst snd] in *.
    apply andb_true_iff in Hl. destruct Hl as [H1 H2]. unfold str_ok in H1. unfold qos_ok in H2. leb_hyps.
    rewrite <- app_assoc. rewrite lp_bytes_prefixed by exact H1. cbn [app]. change byte_of with n2b.
    unfold R.qos_byte, R.bind. rewrite u8_n2b, N.mod_small by lia.
    replace (q <=? 2) with true by (symmetry; apply N.leb_le; exact H2). reflexivity.
  - intros [t q] _ E. apply app_eq_nil in E. destruct E as [_ E]. discriminate E.
Qed.

Lemma map_singletons codes : map byte_of codes = concat (map (fun c => [byte_of c]) codes).
Proof. induction codes as [| c l IH]; [reflexivity |]. cbn [map concat app]. rewrite IH. reflexivity. Qed.

Lemma parses_suback id codes :
  1 <= id <= 65535 -> codes <> [] ->
  forallb (fun c => qos_ok c || (c =? 128)) codes = true -> parses (Suback id codes).
Proof.
  intros Hid Hn Hl. unfold parses. cbn [ptype_of flag_bits variable_header payload R.body_grammar].
  unfold R.parse_all, R.suback_body, R.bind. rewrite packet_id_ok by exact Hid.
  rewrite map_singletons.
  rewrite many1_concat; [reflexivity | exact Hn | |].
  - intros c r Hin. rewrite forallb_forall in Hl. specialize (Hl _ Hin).
    cbn [app]. change byte_of with n2b. rewrite u8_n2b.
    assert (Hc : c <= 128).
    { apply orb_true_iff in Hl. destruct Hl as [Hl | Hl]; unfold qos_ok in *; leb_hyps; lia. }
    rewrite N.mod_small by lia. unfold qos_ok in Hl. rewrite Hl. reflexivity.
  - intros c _ E. discriminate E.
Qed.

Lemma parses_unsubscribe id ts :
  1 <= id <= 65535 -> ts <> [] -> forallb str_ok ts = true -> parses (Unsubscribe id ts).
Proof.
  intros Hid Hn Hl. unfold parses. cbn [ptype_of flag_bits variable_header payload R.body_grammar].
  unfold R.parse_all, R.unsubscribe_body, R.bind. rewrite packet_id_ok by exact Hid.
  rewrite many1_concat; [reflexivity | exact Hn | |].
  - intros t r Hin. rewrite forallb_forall in Hl. specialize (Hl _ Hin). unfold str_ok in Hl. leb_hyps.
    apply lp_bytes_prefixed. exact Hl.
  - intros t _ E. unfold prefixed, two_byte_int in E. discriminate E.
Qed.

Lemma nonempty_neq {A} (l : list A) : nonempty l = true -> l <> [].
Proof. destruct l; [discriminate | discriminate]. Qed.

(* ---------------------------------------------------------------- connect *)
Definition cfb (bu bp bc : bool) (w : option (N * bool)) : N :=
  128 * bit bu + 64 * bit bp
  + match w with Some (q, r) => 32 * bit r + 8 * q + 4 | None => 0 end
  + 2 * bit bc.

Lemma cfb_bits bu bp bc w :
  match w with Some (q, _) => q <= 2 | None => True end ->
  let fl := cfb bu bp bc w in
  fl mod 256 = fl /\
  R.testbit fl 7 = bu /\ R.testbit fl 6 = bp /\
  R.testbit fl 5 = match w with Some (_, r) => r | None => false end /\
  (fl / 8) mod 4 = match w with Some (q, _) => q | None => 0 end /\
  R.testbit fl 2 = match w with Some _ => true | None => false end /\
  R.testbit fl 1 = bc /\ R.testbit fl 0 = false.
Proof.
  intros H. destruct w as [[q r] |].
  - assert (C : q = 0 \/ q = 1 \/ q = 2) by lia.
    destruct C as [-> | [-> | ->]]; destruct bu, bp, bc, r; vm_compute; repeat split; reflexivity.
  - destruct bu, bp, bc; vm_compute; repeat split; reflexivity.
Qed.

Lemma connect_flag_byte_cfb k :
  connect_flag_byte k =
  cfb (present (c_username k)) (present (c_password k)) (c_clean k)
      (match c_will k with Some w => Some (m_qos w, m_retain w) | None => None end).
Proof. unfold connect_flag_byte, cfb. destruct (c_will k); reflexivity. Qed.

Lemma optional_parse flag s r : blen s <= 65535 -> flag = present s ->
  (if flag then R.lp_bytes else R.ret []) (optional s ++ r) = Some (s, r).
Proof.
  intros H ->. unfold optional. destruct s as [| x s'] eqn:E.
  - reflexivity.
  - cbn [present]. rewrite <- E in *. apply lp_bytes_prefixed. exact H.
Qed.

Lemma parses_connect k : wf (Connect k) = true -> parses (Connect k).
Proof.
  intros W. apply wf_split in W. destruct W as [_ W].
  rewrite !andb_true_iff in W. destruct W as [[[[[[[Wv Wk] Wc] Wu] Wp] Wcc] Wup] Ww].
  unfold str_ok in Wc, Wu, Wp. rewrite !nonempty_present in *.
  rewrite ?(nonempty_present (c_password k)), ?(nonempty_present (c_username k)) in Wup. leb_hyps.
  unfold parses. cbn [ptype_of flag_bits variable_header payload R.body_grammar].
  rewrite <- !app_assoc. cbn [app]. change byte_of with n2b.
  unfold R.parse_all, R.connect_body. unfold R.bind at 1.
  rewrite lp_bytes_prefixed by (rewrite blen_protocol_name; unfold proto_name_len; destruct (c_version k =? 3); lia).
  unfold R.bind at 1. rewrite u8_n2b.
  assert (Hv : c_version k = 3 \/ c_version k = 4).
  { apply orb_true_iff in Wv. destruct Wv as [V | V]; leb_hyps; [left | right]; exact V. }
  assert (Hg : (bytes_eqb (protocol_name (c_version k)) R.MQTT && (c_version k mod 256 =? 4))
               || (bytes_eqb (protocol_name (c_version k)) R.MQIsdp && (c_version k mod 256 =? 3)) = true).
  { destruct Hv as [-> | ->]; reflexivity. }
  unfold R.bind at 1. rewrite Hg. cbn [R.guard].
  assert (Hm : c_version k mod 256 = c_version k) by (destruct Hv as [-> | ->]; reflexivity).
  rewrite Hm.
  unfold R.bind at 1. rewrite u8_n2b. rewrite connect_flag_byte_cfb.
  set (wopt := match c_will k with Some w => Some (m_qos w, m_retain w) | None => None end).
  assert (Hq : match wopt with Some (q, _) => q <= 2 | None => True end).
  { subst wopt. destruct (c_will k) as [w |]; [| exact I].
    apply andb_true_iff in Ww. destruct Ww as [Wm _]. unfold msg_ok in Wm.
    rewrite !andb_true_iff in Wm. destruct Wm as [_ Wq]. unfold qos_ok in Wq. leb_hyps. exact Wq. }
  destruct (cfb_bits (present (c_username k)) (present (c_password k)) (c_clean k) wopt Hq)
    as (B0 & B7 & B6 & B5 & B43 & B2 & B1 & Bz).
  rewrite B0. cbv zeta. rewrite B7, B6, B5, B43, B2, B1, Bz. cbn [negb].
  unfold R.bind at 1. cbn [R.guard].
  assert (G2 : (match wopt with Some (q, _) => q | None => 0 end <=? 2) = true).
  { apply N.leb_le. destruct wopt as [[q r] |]; [exact Hq | lia]. }
  unfold R.bind at 1. rewrite G2. cbn [R.guard].
  assert (G3 : match wopt with Some _ => true | None => false end
               || ((match wopt with Some (q, _) => q | None => 0 end =? 0)
                   && negb match wopt with Some (_, r) => r | None => false end) = true).
  { destruct wopt as [[q r] |]; reflexivity. }
  unfold R.bind at 1. rewrite G3. cbn [R.guard].
  unfold R.bind at 1. rewrite Wup. cbn [R.guard].
  unfold R.bind at 1. rewrite u16_two_byte_int by exact Wk.
  unfold R.bind at 1. rewrite lp_bytes_prefixed by exact Wc.
  change R.blen with blen. rewrite blen_eq0_present, negb_involutive.
  unfold R.bind at 1. rewrite Wcc. cbn [R.guard].
  destruct k as [cid ka user pass clean will ver]. cbn [c_client_id c_keep_alive c_username c_password c_clean c_will c_version] in *.
  subst wopt. destruct will as [w |].
  - apply andb_true_iff in Ww. destruct Ww as [Wm Wpl]. unfold msg_ok in Wm.
    rewrite !andb_true_iff in Wm. destruct Wm as [[Wt1 Wt2] _].
    rewrite nonempty_present in Wt1. unfold str_ok in Wt2, Wpl. leb_hyps.
    unfold R.bind at 1. unfold R.bind at 1.
    rewrite <- !app_assoc. rewrite lp_bytes_prefixed by exact Wt2.
    unfold R.bind at 1. rewrite blen_eq0_present, Wt1. cbn [negb R.guard].
    unfold R.bind at 1. rewrite lp_bytes_prefixed by exact Wpl. cbn [R.ret].
    unfold R.bind at 1. rewrite optional_parse by (exact Wu || reflexivity).
    unfold R.bind at 1. rewrite <- (app_nil_r (optional pass)). rewrite optional_parse by (exact Wp || reflexivity).
    cbn [R.ret]. destruct w. reflexivity.
  - unfold R.bind at 1. cbn [R.ret app].
    unfold R.bind at 1. rewrite optional_parse by (exact Wu || reflexivity).
    unfold R.bind at 1. rewrite <- (app_nil_r (optional pass)). rewrite optional_parse by (exact Wp || reflexivity).
    reflexivity.
Qed.

(* ---------------------------------------------------------------- the theorem *)
Lemma wf_parses p : wf p = true -> parses p.
Proof.
  intros W. pose proof W as W0.
  destruct p as [c | sp rc | dup m id | id | id | id | id | id subs | id codes | id ts | id | | |];
    apply wf_split in W; destruct W as [_ W].
  - apply parses_connect. exact W0.
  - apply parses_connack. leb_hyps. exact W.
  - apply andb_true_iff in W. destruct W as [W1 W2]. apply parses_publish; assumption.
  - apply id_ok_iff in W. apply (parses_identified id Puback W).
  - apply id_ok_iff in W. apply (parses_identified id Pubrec W).
  - apply id_ok_iff in W. apply (parses_identified id Pubrel W).
  - apply id_ok_iff in W. apply (parses_identified id Pubcomp W).
  - rewrite !andb_true_iff in W. destruct W as [[W1 W2] W3]. apply id_ok_iff in W1.
    apply parses_subscribe; [exact W1 | apply nonempty_neq; exact W2 | exact W3].
  - rewrite !andb_true_iff in W. destruct W as [[W1 W2] W3]. apply id_ok_iff in W1.
    apply parses_suback; [exact W1 | apply nonempty_neq; exact W2 | exact W3].
  - rewrite !andb_true_iff in W. destruct W as [[W1 W2] W3]. apply id_ok_iff in W1.
    apply parses_unsubscribe; [exact W1 | apply nonempty_neq; exact W2 | exact W3].
  - apply id_ok_iff in W. apply (parses_identified id Unsuback W).
  - reflexivity.
  - reflexivity.
  - reflexivity.
Qed.

Lemma wf_flag_bits p : wf p = true ->
  flag_bits p <= 15 /\ (ptype_of p = TPublish \/ flag_bits p = R.reserved_flags (ptype_of p)).
Proof.
  intros W. destruct p as [c | sp rc | dup m id | id | id | id | id | id subs | id codes | id ts | id | | |];
    cbn [flag_bits ptype_of R.reserved_flags]; try (split; [lia | right; reflexivity]).
  apply wf_split in W. destruct W as [_ W]. apply andb_true_iff in W. destruct W as [W _].
  unfold msg_ok in W. rewrite !andb_true_iff in W. destruct W as [_ Wq]. unfold qos_ok in Wq. leb_hyps.
  split; [destruct dup, (m_retain m); cbn [bit]; lia | left; reflexivity].
Qed.

Theorem ref_roundtrip p : wf p = true -> R.ref_decode (ptype_of p) (wire_spec p) = Some (p, total_len p).
Proof.
  intros W. destruct (wf_flag_bits p W) as [F1 F2].
  rewrite ref_decode_shape by assumption. pose proof (wf_parses p W) as P. unfold parses in P.
  rewrite P. reflexivity.
Qed.

Theorem roundtrip p : wf p = true -> Dec.decode_go (ptype_of p) (wire_spec p) = Dec.DOk p (total_len p).
Proof.
  intros W. apply (DecProofsSpec3.spec_equiv_framed _ _ _ _ (wf_extent p W)).
  apply ref_roundtrip. exact W.
Qed.
