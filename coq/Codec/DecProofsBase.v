(* DecProofsBase.v — facts about the helpers of Dec.v: lengths, checked slices,
   readUint / readLPBytes / readVarint / decodeHeader in arithmetic form. *)
From Coq Require Import List NArith ZArith Bool Lia ZifyN ZifyNat ZifyBool.
From Coq.Strings Require Import Byte.
From GM Require Import Codec.Packet Codec.Dec Codec.RefDecode.
Import ListNotations.
Open Scope N_scope.
Ltac Zify.zify_post_hook ::= Z.div_mod_to_equations.

(* injectivity as lemmas: `injection` would partially evaluate sums such as 2 + l *)
Lemma ROk_inj {A} (v v' : A) n n' : ROk v n = ROk v' n' -> v = v' /\ n = n'.
Proof. intros H; injection H; auto. Qed.
Lemma RErr_inj {A} n n' : @RErr A n = RErr n' -> n = n'.
Proof. intros H; injection H; auto. Qed.
Lemma DOk_inj p p' n n' : DOk p n = DOk p' n' -> p = p' /\ n = n'.
Proof. intros H; injection H; auto. Qed.
Lemma DErr_inj n n' : DErr n = DErr n' -> n = n'.
Proof. intros H; injection H; auto. Qed.
Lemma HOk_inj a b c a' b' c' : HOk a b c = HOk a' b' c' -> a = a' /\ b = b' /\ c = c'.
Proof. intros H; injection H; auto. Qed.
Lemma HErr_inj n n' : HErr n = HErr n' -> n = n'.
Proof. intros H; injection H; auto. Qed.

Lemma Some_inj {A} (a b : A) : Some a = Some b -> a = b.
Proof. intros H; injection H; auto. Qed.
Lemma Some_inj2 {A B} (a a' : A) (b b' : B) : Some (a, b) = Some (a', b') -> a = a' /\ b = b'.
Proof. intros H; injection H; auto. Qed.
Lemma Some_inj3 {A B C} (a a' : A) (b b' : B) (c c' : C) :
  Some (a, b, c) = Some (a', b', c') -> a = a' /\ b = b' /\ c = c'.
Proof. intros H; injection H; auto. Qed.

(* ---------- lengths ---------- *)
Lemma len_nil : len [] = 0.
Proof. reflexivity. Qed.

Lemma len_cons b l : len (b :: l) = 1 + len l.
Proof. unfold len. cbn [length]. lia. Qed.

Lemma len_app a b : len (a ++ b) = len a + len b.
Proof. unfold len. rewrite app_length. lia. Qed.

Lemma len_skipn n l : len (skipn n l) = len l - N.of_nat n.
Proof. unfold len. rewrite skipn_length. lia. Qed.

Lemma len_firstn n l : len (firstn n l) = N.min (N.of_nat n) (len l).
Proof. unfold len. rewrite firstn_length. lia. Qed.

Lemma len_blen l : blen l = len l.
Proof. reflexivity. Qed.

Lemma len_0 l : len l = 0 -> l = [].
Proof. destruct l; [reflexivity | rewrite len_cons; lia]. Qed.

Lemma skipn_add {A} (a b : nat) (l : list A) : skipn a (skipn b l) = skipn (b + a) l.
Proof.
  revert l. induction b as [| b IH]; intros l; [reflexivity |].
  destruct l; [cbn; destruct a; reflexivity | cbn [skipn Nat.add]; apply IH].
Qed.

Lemma b2n_lt b : b2n b < 256.
Proof. unfold b2n. pose proof (Byte.to_N_bounded b). lia. Qed.

Lemma qos_successful_le q : qos_successful q = (q <=? 2).
Proof. unfold qos_successful. lia. Qed.

(* ---------- checked slices ---------- *)
Lemma slice_from_ok bs lo : lo <= len bs -> slice_from bs lo = Some (skipn (N.to_nat lo) bs).
Proof. intros H. unfold slice_from. destruct (lo <=? len bs) eqn:E; [reflexivity | lia]. Qed.

Lemma slice_to_ok bs hi : hi <= len bs -> slice_to bs hi = Some (firstn (N.to_nat hi) bs).
Proof. intros H. unfold slice_to. destruct (hi <=? len bs) eqn:E; [reflexivity | lia]. Qed.

Lemma slice_ok bs lo hi : lo <= hi -> hi <= len bs ->
  slice bs lo hi = Some (firstn (N.to_nat (hi - lo)) (skipn (N.to_nat lo) bs)).
Proof.
  intros H1 H2. unfold slice.
  destruct (lo <=? hi) eqn:E1; [| lia]. destruct (hi <=? len bs) eqn:E2; [reflexivity | lia].
Qed.

(* ---------- bit arithmetic ---------- *)
Lemma land_shiftl_low a b s : a < 2 ^ s -> N.land a (N.shiftl b s) = 0.
Proof.
  intros H. apply N.bits_inj_0. intros n. rewrite N.land_spec.
  destruct (N.ltb_spec n s) as [L | L].
  - rewrite (N.shiftl_spec_low b s n L). apply andb_false_r.
  - destruct (N.eq_dec a 0) as [-> | NZ]; [rewrite N.bits_0; reflexivity |].
    rewrite (N.bits_above_log2 a n); [reflexivity |].
    apply N.log2_lt_pow2; [lia |].
    apply N.lt_le_trans with (2 ^ s); [assumption |]. apply N.pow_le_mono_r; lia.
Qed.

Lemma lor_shiftl_add a b s : a < 2 ^ s -> N.lor a (N.shiftl b s) = a + b * 2 ^ s.
Proof.
  intros H. rewrite <- N.lxor_lor by (apply land_shiftl_low; assumption).
  rewrite <- N.add_nocarry_lxor by (apply land_shiftl_low; assumption).
  rewrite N.shiftl_mul_pow2. reflexivity.
Qed.

(* ---------- readUint ---------- *)
Lemma read_uint_1 buf :
  read_uint buf 1 = match buf with [] => RErr 0 | b :: _ => ROk (b2n b) 1 end.
Proof.
  unfold read_uint. destruct buf as [| b r].
  - reflexivity.
  - rewrite len_cons. destruct (1 + len r <? 1) eqn:E; [lia | reflexivity].
Qed.

Lemma read_uint_2 buf :
  read_uint buf 2 = match buf with
                    | b0 :: b1 :: _ => ROk (256 * b2n b0 + b2n b1) 2
                    | _ => RErr 0
                    end.
Proof.
  unfold read_uint. destruct buf as [| b0 [| b1 r]].
  - reflexivity.
  - reflexivity.
  - rewrite !len_cons. destruct (1 + (1 + len r) <? 2) eqn:E; [lia |].
    change (index (b0 :: b1 :: r) 1) with (Some b1). change (index (b0 :: b1 :: r) 0) with (Some b0).
    cbv iota beta. f_equal. rewrite lor_shiftl_add by (pose proof (b2n_lt b1); cbn; lia).
    change (2 ^ 8) with 256. lia.
Qed.

Lemma read_uint8_eq buf : read_uint8 buf = match buf with [] => RErr 0 | b :: _ => ROk (b2n b) 1 end.
Proof. apply read_uint_1. Qed.

(* ---------- readLPBytes ---------- *)
Lemma read_lp_bytes_eq buf :
  read_lp_bytes buf =
  match buf with
  | b0 :: b1 :: r =>
      let l := 256 * b2n b0 + b2n b1 in
      if len r <? l then RErr 2 else ROk (firstn (N.to_nat l) r) (2 + l)
  | _ => RErr 0
  end.
Proof.
  unfold read_lp_bytes. rewrite read_uint_2. destruct buf as [| b0 [| b1 r]]; try reflexivity.
  set (l := 256 * b2n b0 + b2n b1).
  rewrite slice_from_ok by (rewrite !len_cons; lia).
  change (skipn (N.to_nat 2) (b0 :: b1 :: r)) with r.
  cbv zeta. destruct (len r <? l) eqn:E; [reflexivity |].
  rewrite slice_ok by (rewrite ?len_cons; lia).
  change (skipn (N.to_nat 2) (b0 :: b1 :: r)) with r.
  replace (2 + l - 2) with l by lia. reflexivity.
Qed.

(* ---------- Uvarint / readVarint in arithmetic form ---------- *)
Lemma u64_small x : x < 18446744073709551616 -> u64 x = x.
Proof. intros H. unfold u64. apply N.mod_small. assumption. Qed.

Lemma mul_bound64 a p : a < 256 -> p <= 2097152 -> a * p < 18446744073709551616.
Proof. intros; nia. Qed.

Lemma lt_pow_step x a p : x < p -> a < 128 -> x + a * p < p * 128.
Proof. intros; nia. Qed.

Lemma lor_u64 x a s p : p = 2 ^ s -> x < p -> a < 256 -> p <= 2097152 ->
  N.lor x (u64 (N.shiftl a s)) = x + a * p.
Proof.
  intros -> Hx Ha Hp. rewrite u64_small by (rewrite N.shiftl_mul_pow2; apply mul_bound64; assumption).
  apply lor_shiftl_add. assumption.
Qed.

(* the loop of binary.Uvarint agrees with the 2.2.3 algorithm as long as at most 4 bytes are looked at *)
Lemma pow2_s7 s : 2 ^ (s + 7) = 2 ^ s * 128.
Proof. rewrite N.pow_add_r. reflexivity. Qed.

Lemma uvarint_loop_some fuel : forall buf i x s p v k rest,
  s = 7 * i -> p = 2 ^ s ->
  i + N.of_nat fuel <= 4 -> x < p ->
  remlen fuel p buf = Some (v, k, rest) ->
  uvarint_loop buf i x s = UvOk (x + v) (i + k) /\ x + v < p * 128 ^ k /\ 1 <= k /\ k <= N.of_nat fuel
  /\ rest = skipn (N.to_nat k) buf /\ k <= len buf.
Proof.
  induction fuel as [| fuel IH]; intros buf i x s p v k rest Hs Hpp Hi Hx Hr.
  - discriminate.
  - destruct buf as [| b r]; [discriminate |].
    cbn [remlen] in Hr. cbn [uvarint_loop].
    destruct (i =? 10) eqn:E10; [lia |].
    change (Byte.to_N b) with (b2n b) in Hr.
    pose proof (b2n_lt b) as Hb.
    assert (Hp : p <= 2097152).
    { subst p. change 2097152 with (2 ^ 21). apply N.pow_le_mono_r; lia. }
    destruct (b2n b <? 128) eqn:E128.
    + injection Hr as <- <- <-.
      destruct ((i =? 9) && (1 <? b2n b)) eqn:E9; [lia |].
      rewrite (lor_u64 x (b2n b) s p) by assumption.
      rewrite len_cons. repeat split; try lia.
      change (128 ^ 1) with 128. apply lt_pow_step; [assumption | lia].
    + destruct (remlen fuel (p * 128) r) as [[[v' k'] rest'] |] eqn:Er; [| discriminate].
      injection Hr as <- <- <-.
      assert (Hland : N.land (b2n b) 127 = b2n b - 128).
      { change 127 with (N.ones 7). rewrite N.land_ones. change (2 ^ 7) with 128. lia. }
      rewrite Hland. rewrite (lor_u64 x (b2n b - 128) s p) by (try assumption; lia).
      specialize (IH r (i + 1) (x + (b2n b - 128) * p) (s + 7) (p * 128) v' k' rest').
      destruct IH as (H1 & H2 & H3 & H4 & H5 & H6);
        [lia | subst p; symmetry; apply pow2_s7 | lia | apply lt_pow_step; [assumption | lia] | assumption |].
      rewrite H1. rewrite len_cons. repeat split; try lia.
      * f_equal; lia.
      * rewrite N.pow_add_r. change (128 ^ 1) with 128. lia.
      * subst rest'. replace (N.to_nat (k' + 1)) with (S (N.to_nat k')) by lia. reflexivity.
Qed.

Lemma uvarint_loop_none fuel : forall buf i x s p,
  s = 7 * i -> p = 2 ^ s ->
  i + N.of_nat fuel <= 4 -> (length buf <= fuel)%nat ->
  remlen fuel p buf = None ->
  uvarint_loop buf i x s = UvShort.
Proof.
  induction fuel as [| fuel IH]; intros buf i x s p Hs Hpp Hi Hl Hr.
  - destruct buf; [reflexivity | cbn in Hl; lia].
  - destruct buf as [| b r]; [reflexivity |].
    cbn [remlen] in Hr. cbn [uvarint_loop].
    destruct (i =? 10) eqn:E10; [lia |].
    change (Byte.to_N b) with (b2n b) in Hr.
    destruct (b2n b <? 128) eqn:E128; [discriminate |].
    destruct (remlen fuel (p * 128) r) as [[[v' k'] rest'] |] eqn:Er; [discriminate |].
    apply (IH r (i + 1) _ (s + 7) (p * 128)); [lia | subst p; symmetry; apply pow2_s7 | lia | cbn in Hl; lia | assumption].
Qed.

(* remlen looks at no more than `fuel` bytes *)
Lemma remlen_firstn fuel : forall mult buf,
  remlen fuel mult (firstn fuel buf) =
  match remlen fuel mult buf with
  | Some (v, k, _) => Some (v, k, skipn (N.to_nat k) (firstn fuel buf))
  | None => None
  end.
Proof.
  induction fuel as [| fuel IH]; intros mult buf.
  - reflexivity.
  - destruct buf as [| b r]; [reflexivity |].
    cbn [firstn remlen].
    destruct (Byte.to_N b <? 128); [reflexivity |].
    rewrite IH. destruct (remlen fuel (mult * 128) r) as [[[v k] rest] |]; [| reflexivity].
    replace (N.to_nat (k + 1)) with (S (N.to_nat k)) by lia. reflexivity.
Qed.

Lemma remlen_bounds fuel : forall mult buf v k rest,
  remlen fuel mult buf = Some (v, k, rest) ->
  1 <= k /\ k <= N.of_nat fuel /\ k <= len buf /\ rest = skipn (N.to_nat k) buf.
Proof.
  induction fuel as [| fuel IH]; intros mult buf v k rest H.
  - discriminate.
  - destruct buf as [| b r]; [discriminate |]. cbn [remlen] in H.
    destruct (Byte.to_N b <? 128) eqn:E.
    + injection H as <- <- <-. rewrite len_cons. repeat split; try lia.
    + destruct (remlen fuel (mult * 128) r) as [[[v' k'] rest'] |] eqn:Er; [| discriminate].
      injection H as <- <- <-. destruct (IH _ _ _ _ _ Er) as (H1 & H2 & H3 & H4).
      rewrite len_cons. repeat split; try lia.
      subst rest'. replace (N.to_nat (k' + 1)) with (S (N.to_nat k')) by lia. reflexivity.
Qed.

Lemma remlen_value fuel : forall mult buf v k rest,
  remlen fuel mult buf = Some (v, k, rest) -> v + mult <= mult * 128 ^ k.
Proof.
  induction fuel as [| fuel IH]; intros mult buf v k rest H.
  - discriminate.
  - destruct buf as [| b r]; [discriminate |]. cbn [remlen] in H.
    pose proof (Byte.to_N_bounded b) as Hb.
    destruct (Byte.to_N b <? 128) eqn:E.
    + injection H as <- <- <-. change (128 ^ 1) with 128. nia.
    + destruct (remlen fuel (mult * 128) r) as [[[v' k'] rest'] |] eqn:Er; [| discriminate].
      injection H as <- <- <-. pose proof (IH _ _ _ _ _ Er) as H5.
      rewrite N.pow_add_r. change (128 ^ 1) with 128. nia.
Qed.

Lemma read_varint_eq buf :
  read_varint buf = match remaining_length buf with
                    | Some (v, k, _) => ROk v k
                    | None => RErr 0
                    end.
Proof.
  unfold read_varint, remaining_length.
  assert (Hb : exists buf', (if 4 <? len buf then slice_to buf 4 else Some buf) = Some buf'
                           /\ buf' = firstn 4 buf).
  { destruct (4 <? len buf) eqn:E.
    - rewrite slice_to_ok by lia. eexists; split; reflexivity.
    - eexists; split; [reflexivity |]. symmetry. apply firstn_all2. unfold len in E. lia. }
  destruct Hb as (buf' & -> & ->).
  pose proof (remlen_firstn 4 1 buf) as Hf.
  unfold uvarint.
  destruct (remlen 4 1 buf) as [[[v k] rest] |] eqn:Er.
  - destruct (uvarint_loop_some 4 (firstn 4 buf) 0 0 0 1 v k _ eq_refl eq_refl ltac:(lia) ltac:(lia) Hf) as (H1 & _).
    rewrite H1. f_equal.
  - rewrite (uvarint_loop_none 4 (firstn 4 buf) 0 0 0 1); [reflexivity | reflexivity | reflexivity | lia | | exact Hf].
    rewrite firstn_length. lia.
Qed.

(* ---------- decodeHeader in arithmetic form ---------- *)
Definition nibble_hi (b : byte) : N := b2n b / 16.
Definition nibble_lo (b : byte) : N := b2n b mod 16.

Lemma shiftr4 b : N.shiftr (b2n b) 4 = nibble_hi b.
Proof. unfold nibble_hi. rewrite N.shiftr_div_pow2. reflexivity. Qed.

Lemma land15 b : N.land (b2n b) 15 = nibble_lo b.
Proof. unfold nibble_lo. change 15 with (N.ones 4). rewrite N.land_ones. reflexivity. Qed.

Definition header_spec (src : bytes) (t : ptype) : hres :=
  match src with
  | b0 :: r =>
      match r with
      | [] => HErr 0
      | _ =>
          if negb (nibble_hi b0 =? type_code t) then HErr 1 else
          if negb (ptype_eqb t TPublish) && negb (nibble_lo b0 =? default_flags t) then HErr 1 else
          match remaining_length r with
          | None => HErr 1
          | Some (rl, k, after) => if len after <? rl then HErr (1 + k) else HOk (1 + k) (nibble_lo b0) rl
          end
      end
  | [] => HErr 0
  end.

Lemma decode_header_eq src t : decode_header src t = header_spec src t.
Proof.
  unfold decode_header, header_spec.
  destruct src as [| b0 [| b1 r]]; try reflexivity.
  set (r1 := b1 :: r).
  assert (Hl : len (b0 :: r1) <? 2 = false) by (unfold r1; rewrite !len_cons; lia).
  rewrite Hl. cbn [index N.to_nat nth_error].
  rewrite shiftr4, land15.
  destruct (negb (nibble_hi b0 =? type_code t)); [reflexivity |].
  destruct (negb (ptype_eqb t TPublish) && negb (nibble_lo b0 =? default_flags t)); [reflexivity |].
  rewrite slice_from_ok by (rewrite len_cons; lia).
  change (skipn (N.to_nat 1) (b0 :: r1)) with r1.
  rewrite read_varint_eq.
  destruct (remaining_length r1) as [[[rl k] after] |] eqn:Er; [| reflexivity].
  destruct (remlen_bounds _ _ _ _ _ _ Er) as (H1 & H2 & H3 & H4).
  rewrite slice_from_ok by (rewrite len_cons; lia).
  replace (N.to_nat (1 + k)) with (S (N.to_nat k)) by lia.
  cbn [skipn]. rewrite <- H4. reflexivity.
Qed.

(* what a successful header decode tells *)
Lemma header_ok_inv src t total flags rl :
  decode_header src t = HOk total flags rl ->
  exists b0 r k,
    src = b0 :: r /\ nibble_hi b0 = type_code t /\ flags = nibble_lo b0 /\
    (t = TPublish \/ flags = default_flags t) /\
    remaining_length r = Some (rl, k, skipn (N.to_nat k) r) /\ total = 1 + k /\
    1 <= k /\ k <= 4 /\ total + rl <= len src /\ rl < 268435456.
Proof.
  rewrite decode_header_eq. unfold header_spec.
  destruct src as [| b0 [| b1 r]]; try discriminate.
  set (r1 := b1 :: r).
  destruct (negb (nibble_hi b0 =? type_code t)) eqn:Et; [discriminate |].
  destruct (negb (ptype_eqb t TPublish) && negb (nibble_lo b0 =? default_flags t)) eqn:Ef; [discriminate |].
  destruct (remaining_length r1) as [[[rl' k] after] |] eqn:Er; [| discriminate].
  destruct (len after <? rl') eqn:El; [discriminate |].
  intros H. remember (1 + k) as tk eqn:Htk. injection H as <- <- <-.
  destruct (remlen_bounds _ _ _ _ _ _ Er) as (H1 & H2 & H3 & H4).
  pose proof (remlen_value _ _ _ _ _ _ Er) as H5.
  exists b0, r1, k. subst after. rewrite len_skipn in El.
  assert (Hpow : 128 ^ k <= 128 ^ 4) by (apply N.pow_le_mono_r; lia).
  change (128 ^ 4) with 268435456 in Hpow.
  apply negb_false_iff in Et.
  assert (Hfl : t = TPublish \/ nibble_lo b0 = default_flags t).
  { apply andb_false_iff in Ef. destruct Ef as [Ef | Ef]; apply negb_false_iff in Ef.
    + left. unfold ptype_eqb in Ef. destruct t; try reflexivity; discriminate.
    + right. lia. }
  rewrite len_cons.
  repeat split; try lia; try assumption.
Qed.

Lemma header_no_panic src t : decode_header src t <> HPanic.
Proof.
  rewrite decode_header_eq. unfold header_spec.
  destruct src as [| b0 [| b1 r]]; try discriminate.
  destruct (negb _); [discriminate |]. destruct (_ && _); [discriminate |].
  destruct (remaining_length _) as [[[rl k] after] |]; [| discriminate].
  destruct (_ <? _); discriminate.
Qed.

Lemma header_err_bound src t n : decode_header src t = HErr n -> n <= len src.
Proof.
  rewrite decode_header_eq. unfold header_spec.
  destruct src as [| b0 [| b1 r]]; try (intros H; injection H as <-; rewrite ?len_cons; lia).
  destruct (negb _); [intros H; injection H as <-; rewrite !len_cons; lia |].
  destruct (_ && _); [intros H; injection H as <-; rewrite !len_cons; lia |].
  destruct (remaining_length _) as [[[rl k] after] |] eqn:Er; [| intros H; injection H as <-; rewrite !len_cons; lia].
  destruct (remlen_bounds _ _ _ _ _ _ Er) as (H1 & H2 & H3 & H4).
  destruct (_ <? _); [| discriminate]. intros H. replace n with (1 + k) by congruence.
  rewrite !len_cons in *. lia.
Qed.
