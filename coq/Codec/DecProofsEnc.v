(* DecProofsEnc.v — what the decoder model does on canonically encoded pieces, in purely
   arithmetic form (no dependency on the encoder model): exported for the round-trip
   theorem C01_roundtrip of the encoder side. *)
From Coq Require Import List NArith ZArith Bool Lia ZifyN ZifyNat ZifyBool.
From Coq.Strings Require Import Byte.
From GM Require Import Codec.Packet Codec.WF Codec.Dec Codec.RefDecode Codec.DecProofsBase.
Import ListNotations.
Open Scope N_scope.
Ltac Zify.zify_post_hook ::= Z.div_mod_to_equations.

Definition n2b (n : N) : byte :=
  match Byte.of_N (n mod 256) with Some b => b | None => x00 end.

Lemma b2n_n2b n : b2n (n2b n) = n mod 256.
Proof.
  unfold n2b, b2n. destruct (Byte.of_N (n mod 256)) as [b |] eqn:E.
  - apply Byte.to_of_N. exact E.
  - apply Byte.of_N_None_iff in E. lia.
Qed.

Lemma to_N_n2b n : Byte.to_N (n2b n) = n mod 256.
Proof. apply b2n_n2b. Qed.

(* the canonical (minimal) remaining-length bytes of 2.2.3, per size class *)
Definition vbytes (rl : N) : bytes :=
  if rl <? 128 then [n2b rl]
  else if rl <? 16384 then [n2b (rl mod 128 + 128); n2b (rl / 128)]
  else if rl <? 2097152 then [n2b (rl mod 128 + 128); n2b ((rl / 128) mod 128 + 128); n2b (rl / 16384)]
  else [n2b (rl mod 128 + 128); n2b ((rl / 128) mod 128 + 128); n2b ((rl / 16384) mod 128 + 128);
        n2b (rl / 2097152)].

Lemma remlen_lt fuel mult b r :
  Byte.to_N b < 128 -> remlen (S fuel) mult (b :: r) = Some (Byte.to_N b * mult, 1, r).
Proof. intros H. cbn [remlen]. destruct (Byte.to_N b <? 128) eqn:E; [reflexivity | lia]. Qed.

Lemma remlen_ge fuel mult b r :
  128 <= Byte.to_N b ->
  remlen (S fuel) mult (b :: r) =
  match remlen fuel (mult * 128) r with
  | Some (v, k, r') => Some ((Byte.to_N b - 128) * mult + v, k + 1, r')
  | None => None
  end.
Proof. intros H. cbn [remlen]. destruct (Byte.to_N b <? 128) eqn:E; [lia | reflexivity]. Qed.

Lemma remaining_length_vbytes rl tail :
  rl <= 268435455 -> remaining_length (vbytes rl ++ tail) = Some (rl, varint_len rl, tail).
Proof.
  intros H. unfold remaining_length, vbytes, varint_len.
  destruct (rl <? 128) eqn:E1.
  - cbn [app]. rewrite remlen_lt by (rewrite to_N_n2b; lia). rewrite to_N_n2b. do 3 f_equal. lia.
  - destruct (rl <? 16384) eqn:E2.
    + cbn [app]. rewrite remlen_ge by (rewrite to_N_n2b; lia).
      rewrite remlen_lt by (rewrite to_N_n2b; lia). rewrite !to_N_n2b. do 3 f_equal; lia.
    + destruct (rl <? 2097152) eqn:E3.
      * cbn [app]. rewrite remlen_ge by (rewrite to_N_n2b; lia).
        rewrite remlen_ge by (rewrite to_N_n2b; lia).
        rewrite remlen_lt by (rewrite to_N_n2b; lia). rewrite !to_N_n2b. do 3 f_equal; lia.
      * cbn [app]. rewrite remlen_ge by (rewrite to_N_n2b; lia).
        rewrite remlen_ge by (rewrite to_N_n2b; lia).
        rewrite remlen_ge by (rewrite to_N_n2b; lia).
        rewrite remlen_lt by (rewrite to_N_n2b; lia). rewrite !to_N_n2b. do 3 f_equal; lia.
Qed.

(* (1) readVarint on the canonical bytes followed by anything *)
Theorem read_varint_vbytes rl tail :
  rl <= 268435455 -> read_varint (vbytes rl ++ tail) = ROk rl (varint_len rl).
Proof. intros H. rewrite read_varint_eq, remaining_length_vbytes by assumption. reflexivity. Qed.

Lemma vbytes_nonempty rl : exists x y, vbytes rl = x :: y.
Proof.
  unfold vbytes. destruct (rl <? 128); [eauto |]. destruct (rl <? 16384); [eauto |].
  destruct (rl <? 2097152); eauto.
Qed.

(* (2) decodeHeader on first byte, canonical remaining length, body *)
Theorem decode_header_vbytes b0 rl body t :
  b2n b0 / 16 = type_code t ->
  (t = TPublish \/ b2n b0 mod 16 = default_flags t) ->
  rl <= 268435455 -> rl <= len body ->
  decode_header (b0 :: vbytes rl ++ body) t = HOk (1 + varint_len rl) (b2n b0 mod 16) rl.
Proof.
  intros Hty Hfl Hrl Hb. rewrite decode_header_eq. unfold header_spec.
  destruct (vbytes_nonempty rl) as (x0 & y0 & Hv).
  remember (vbytes rl ++ body) as r eqn:Hr.
  destruct r as [| x y]; [rewrite Hv in Hr; discriminate |].
  cbv iota. rewrite Hr.
  fold (nibble_hi b0) in Hty. fold (nibble_lo b0) in Hfl. fold (nibble_lo b0).
  assert (E1 : negb (nibble_hi b0 =? type_code t) = false) by lia.
  rewrite E1.
  assert (E2 : negb (ptype_eqb t TPublish) && negb (nibble_lo b0 =? default_flags t) = false).
  { destruct Hfl as [-> | Hfl]; [reflexivity |]. apply andb_false_iff. right. lia. }
  rewrite E2. rewrite remaining_length_vbytes by assumption.
  destruct (len body <? rl) eqn:E3; [lia | reflexivity].
Qed.

(* (3) two-byte big-endian numbers and length-prefixed strings *)
Theorem read_uint2_enc l tail :
  l <= 65535 -> read_uint (n2b (l / 256) :: n2b (l mod 256) :: tail) 2 = ROk l 2.
Proof.
  intros H. rewrite read_uint_2. rewrite !b2n_n2b. f_equal. lia.
Qed.

Theorem read_lp_bytes_enc s tail :
  len s <= 65535 ->
  read_lp_bytes (n2b (len s / 256) :: n2b (len s mod 256) :: s ++ tail) = ROk s (2 + len s).
Proof.
  intros H. rewrite read_lp_bytes_eq. cbv zeta. rewrite !b2n_n2b.
  replace (256 * (len s / 256 mod 256) + len s mod 256 mod 256) with (len s) by lia.
  rewrite len_app. destruct (len s + len tail <? len s) eqn:E; [lia |].
  rewrite firstn_app. replace (N.to_nat (len s) - length s)%nat with 0%nat by (unfold len; lia).
  cbn [firstn]. rewrite app_nil_r. rewrite firstn_all2 by (unfold len; lia). reflexivity.
Qed.

Theorem read_uint8_enc n tail : n <= 255 -> read_uint8 (n2b n :: tail) = ROk n 1.
Proof. intros H. rewrite read_uint8_eq, b2n_n2b. f_equal. lia. Qed.
