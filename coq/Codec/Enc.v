(* Enc.v — model of the ENCODER side of /repo/packet (C01).  Definitions only.

   What is mirrored, separately, so that a disagreement between them is
   expressible in the model instead of being assumed away:

     len_go p            each type's Len()/len() arithmetic with headerLen / varintLen
     encode_into dst p   each type's Encode(dst): the field walk over a buffer
                         `dst` (a list of bytes with ARBITRARY prior content),
                         in the order of the Go statements, including every check
     encode_go cap p     Encode(make([]byte, cap))
     encoder_write       packet.Encoder.Write (stream.go): pooled buffer of exactly
                         Len() bytes, first Len() bytes shipped

   Go slices.  Every Encode works on `dst[total:]` with `total` growing.  The
   model keeps a cursor with dst = c_done ++ c_rest and total = len c_done;
   `c_rest` IS the slice dst[total:].  A helper
   `w(buf []byte, …) (n int, err error)` becomes `w buf … : wres` returning the
   count n AND the new content of buf (same length); `advance` performs
   `total += n; if err != nil { return total, err }`.

   Outcomes are explicit: a Go panic (index/slice out of range) is WPanic /
   SPanic / BPanic / EPanic, an error return is …Err n (n = the count returned
   next to the error).  Go's `int`/`uint64` are unbounded N here; uint8/uint16
   conversions are explicit `mod`.                                            *)
From Coq Require Import List NArith Bool.
From Coq.Strings Require Import Byte.
From GM Require Import Codec.Packet Codec.WF.
Import ListNotations.
Open Scope N_scope.

(* ---------------------------------------------------------------- bytes *)
Definition b2n (b : byte) : N := Byte.to_N b.
Definition n2b (n : N) : byte :=
  match Byte.of_N (n mod 256) with Some b => b | None => x00 end.     (* byte(n) *)

Definition take (n : N) (l : bytes) : bytes := firstn (N.to_nat n) l.
Definition drop (n : N) (l : bytes) : bytes := skipn (N.to_nat n) l.

(* len(buf) < n, without walking more than n elements of buf *)
Fixpoint len_lt (buf : bytes) (n : N) : bool :=
  match buf with
  | [] => 0 <? n
  | _ :: r => if n =? 0 then false else len_lt r (N.pred n)
  end.

(* copy(dst, src): overwrites the first min(len dst, len src) bytes of dst … *)
Fixpoint copy_into (dst src : bytes) : bytes :=
  match dst, src with
  | _ :: dst', s :: src' => s :: copy_into dst' src'
  | _, _ => dst
  end.
(* … and returns that number *)
Fixpoint copy_count (dst src : bytes) : N :=
  match dst, src with
  | _ :: dst', _ :: src' => 1 + copy_count dst' src'
  | _, _ => 0
  end.

(* ---------------------------------------------------------------- coding.go *)
Definition max_varint : N := 268435455.

(* func varintLen(n uint64) int *)
Definition varint_len_go (n : N) : N :=
  if n <? 128 then 1
  else if n <? 16384 then 2
  else if n <? 2097152 then 3
  else if n <=? max_varint then 4
  else 0.

(* func headerLen(rl int) int *)
Definition header_len_go (rl : N) : N := 1 + varint_len_go rl.

Inductive wres :=
| WOk (n : N) (buf : bytes)     (* returned n, nil; buf = content after the call *)
| WErr (n : N)                  (* returned n, err *)
| WPanic.

(* writeUint(buf, num, 1, t) / writeUint8 *)
Definition write_u8 (buf : bytes) (num : N) : wres :=
  if len_lt buf 1 then WErr 0 else
  match buf with
  | _ :: r => WOk 1 (n2b num :: r)
  | [] => WPanic
  end.

(* writeUint(buf, num, 2, t): binary.BigEndian.PutUint16(buf, uint16(num)) *)
Definition write_u16 (buf : bytes) (num : N) : wres :=
  if len_lt buf 2 then WErr 0 else
  match buf with
  | _ :: _ :: r => let v := num mod 65536 in WOk 2 (n2b (v / 256) :: n2b v :: r)
  | _ => WPanic
  end.

(* encoding/binary.PutUvarint:
     i := 0; for x >= 0x80 { buf[i] = byte(x) | 0x80; x >>= 7; i++ }; buf[i] = byte(x); return i + 1
   one buffer byte is consumed per iteration, so the recursion is on buf;
   None = index out of range *)
Fixpoint put_uvarint (buf : bytes) (x : N) : option (N * bytes) :=
  match buf with
  | [] => None
  | _ :: rest =>
      if x <? 128 then Some (1, n2b x :: rest)
      else match put_uvarint rest (x / 128) with
           | Some (n, rest') => Some (n + 1, n2b (N.lor (x mod 256) 128) :: rest')
           | None => None
           end
  end.

(* func writeVarint(buf []byte, num uint64, t Type) (int, error) *)
Definition write_varint (buf : bytes) (num : N) : wres :=
  if max_varint <? num then WErr 0 else
  if len_lt buf (varint_len_go num) then WErr 0 else
  match put_uvarint buf num with
  | Some (n, buf') => WOk n buf'
  | None => WPanic
  end.

(* func writeLPBytes(buf []byte, bytes []byte, t Type) (int, error)   (also writeLPString)
   note the test `len(buf) < length` (not length+2) and the truncating copy *)
Definition write_lp_bytes (buf bs : bytes) : wres :=
  let length := blen bs in
  if 65535 <? length then WErr 0 else
  match write_u16 buf length with
  | WOk n buf1 =>
      if len_lt buf1 length then WErr n else
      if len_lt buf1 2 then WPanic else                              (* buf[2:] *)
      WOk (n + copy_count (drop 2 buf1) bs) (take 2 buf1 ++ copy_into (drop 2 buf1) bs)
  | r => r
  end.

(* ---------------------------------------------------------------- cursor *)
(* dst[:total] is kept reversed (c_rdone) so that appending to it is cheap *)
Record cur := Cur { c_rdone : bytes; c_rest : bytes }.
Inductive sres := SOk (c : cur) | SErr (n : N) | SPanic.

Definition c_done (c : cur) : bytes := rev_append (c_rdone c) [].          (* = rev (c_rdone c), linear *)
Definition total (c : cur) : N := blen (c_rdone c).

(* n, err := w(dst[total:], …); total += n; if err != nil { return total, err }
   (a count beyond the slice would make the next dst[total:] panic) *)
Definition advance (c : cur) (r : wres) : sres :=
  match r with
  | WOk n b =>
      if len_lt b n then SPanic else SOk (Cur (rev_append (take n b) (c_rdone c)) (drop n b))
  | WErr n => SErr (total c + n)
  | WPanic => SPanic
  end.

Definition fail (c : cur) : sres := SErr (total c).                   (* return total, makeError(…) *)

Definition sbind (s : sres) (f : cur -> sres) : sres :=
  match s with SOk c => f c | SErr n => SErr n | SPanic => SPanic end.
Notation "'do' c <- s ; k" := (sbind s (fun c => k)) (at level 200, c name, s at level 100, k at level 200).

Definition put_u8 (c : cur) (v : N) : sres := advance c (write_u8 (c_rest c) v).
Definition put_u16 (c : cur) (v : N) : sres := advance c (write_u16 (c_rest c) v).
Definition put_lp (c : cur) (bs : bytes) : sres := advance c (write_lp_bytes (c_rest c) bs).

(* ---------------------------------------------------------------- header.go *)
(* func encodeHeader(dst []byte, flags byte, rl int, tl int, t Type) (int, error) *)
Definition encode_header (dst : bytes) (flags rl tl : N) (t : ptype) : sres :=
  if len_lt dst (header_len_go rl) || len_lt dst tl then SErr 0 else
  match dst with
  | [] => SPanic                                                       (* dst[0] *)
  | _ :: d1 =>
      let type_and_flags :=
        N.lor (N.lor ((type_code t * 16) mod 256) (N.land (default_flags t) 15)) flags in
      match write_varint d1 rl with                                    (* writeVarint(dst[1:], …) *)
      | WOk n d1' =>
          if len_lt d1' n then SPanic
          else SOk (Cur (rev_append (take n d1') [n2b type_and_flags]) (drop n d1'))
      | WErr _ => SErr 0                                               (* return 0, err *)
      | WPanic => SPanic
      end
  end.

(* ---------------------------------------------------------------- results of Encode *)
Inductive bres :=
| BOk (n : N) (dst : bytes)     (* returned n, nil; dst = buffer content afterwards *)
| BErr (n : N)
| BPanic.

Definition finish (s : sres) : bres :=
  match s with
  | SOk c => BOk (total c) (c_done c ++ c_rest c)
  | SErr n => BErr n
  | SPanic => BPanic
  end.

(* packet.go: QOS.Successful, ID.Valid *)
Definition qos_successful (q : N) : bool := (q =? 0) || (q =? 1) || (q =? 2).
Definition id_valid (id : N) : bool := negb (id =? 0).

(* ---------------------------------------------------------------- naked.go / identified.go *)
Definition naked_len : N := header_len_go 0.
Definition encode_naked (dst : bytes) (t : ptype) : sres :=
  encode_header dst 0 0 naked_len t.

Definition identified_len : N := header_len_go 2 + 2.
Definition encode_identified (dst : bytes) (id : N) (t : ptype) : sres :=
  if negb (id_valid id) then SErr 0 else
  do c <- encode_header dst 0 2 identified_len t;
  put_u16 c id.

(* ---------------------------------------------------------------- connack.go *)
Definition connack_len : N := header_len_go 2 + 2.
Definition encode_connack (dst : bytes) (sp : bool) (rc : N) : sres :=
  do c <- encode_header dst 0 2 connack_len TConnack;
  let flags := if sp then 1 else 0 in
  do c <- put_u8 c flags;
  if negb (rc <=? 5) then fail c else                                  (* ConnackCode.Valid *)
  put_u8 c rc.

(* ---------------------------------------------------------------- publish.go *)
Definition publish_plen (m : message) : N :=
  let total := 2 + blen (m_topic m) + blen (m_payload m) in
  if negb (m_qos m =? 0) then total + 2 else total.
Definition publish_len (m : message) : N :=
  let ml := publish_plen m in header_len_go ml + ml.

Definition encode_publish (dst : bytes) (dup : bool) (m : message) (id : N) : bres :=
  if blen (m_topic m) =? 0 then BErr 0 else
  let flags := 0 in
  let flags := if dup then N.lor flags 8 else flags in
  let flags := if m_retain m then N.lor flags 1 else flags in
  if negb (qos_successful (m_qos m)) then BErr 0 else
  if (0 <? m_qos m) && negb (id_valid id) then BErr 0 else
  let flags := N.lor (N.land flags 249) ((m_qos m * 2) mod 256) in
  match (do c <- encode_header dst flags (publish_plen m) (publish_len m) TPublish;
         do c <- put_lp c (m_topic m);
         if negb (m_qos m =? 0) then put_u16 c id else SOk c) with
  | SOk c =>
      (* copy(dst[total:], payload); total += len(payload); return total, nil *)
      BOk (total c + blen (m_payload m)) (c_done c ++ copy_into (c_rest c) (m_payload m))
  | SErr n => BErr n
  | SPanic => BPanic
  end.

(* ---------------------------------------------------------------- subscribe.go *)
Fixpoint subscribe_plen_loop (total : N) (subs : list (bytes * N)) : N :=
  match subs with
  | [] => total
  | s :: more => subscribe_plen_loop (total + (2 + blen (fst s) + 1)) more
  end.
Definition subscribe_plen (subs : list (bytes * N)) : N := subscribe_plen_loop 2 subs.
Definition subscribe_len (subs : list (bytes * N)) : N :=
  let ml := subscribe_plen subs in header_len_go ml + ml.

Fixpoint encode_subs (c : cur) (subs : list (bytes * N)) : sres :=
  match subs with
  | [] => SOk c
  | s :: more =>
      do c <- put_lp c (fst s);
      if negb (qos_successful (snd s)) then fail c else
      do c <- put_u8 c (snd s);
      encode_subs c more
  end.

Definition encode_subscribe (dst : bytes) (id : N) (subs : list (bytes * N)) : sres :=
  if negb (id_valid id) then SErr 0 else
  do c <- encode_header dst 0 (subscribe_plen subs) (subscribe_len subs) TSubscribe;
  do c <- put_u16 c id;
  encode_subs c subs.

(* ---------------------------------------------------------------- suback.go *)
Definition suback_plen (codes : list N) : N := 2 + N.of_nat (length codes).
Definition suback_len (codes : list N) : N :=
  let ml := suback_plen codes in header_len_go ml + ml.

Fixpoint encode_codes (c : cur) (codes : list N) : sres :=
  match codes with
  | [] => SOk c
  | rc :: more =>
      if negb (qos_successful rc) && negb (rc =? 128) then SErr 0 else    (* return 0, … *)
      do c <- put_u8 c rc;
      encode_codes c more
  end.

Definition encode_suback (dst : bytes) (id : N) (codes : list N) : sres :=
  do c <- encode_header dst 0 (suback_plen codes) (suback_len codes) TSuback;
  if negb (id_valid id) then SErr 0 else                               (* checked AFTER the header; returns 0 *)
  do c <- put_u16 c id;
  encode_codes c codes.

(* ---------------------------------------------------------------- unsubscribe.go *)
Fixpoint unsubscribe_plen_loop (total : N) (ts : list bytes) : N :=
  match ts with
  | [] => total
  | t :: more => unsubscribe_plen_loop (total + (2 + blen t)) more
  end.
Definition unsubscribe_plen (ts : list bytes) : N := unsubscribe_plen_loop 2 ts.
Definition unsubscribe_len (ts : list bytes) : N :=
  let ml := unsubscribe_plen ts in header_len_go ml + ml.

Fixpoint encode_topics (c : cur) (ts : list bytes) : sres :=
  match ts with
  | [] => SOk c
  | t :: more => do c <- put_lp c t; encode_topics c more
  end.

Definition encode_unsubscribe (dst : bytes) (id : N) (ts : list bytes) : sres :=
  do c <- encode_header dst 0 (unsubscribe_plen ts) (unsubscribe_len ts) TUnsubscribe;
  if negb (id_valid id) then SErr 0 else
  do c <- put_u16 c id;
  encode_topics c ts.

(* ---------------------------------------------------------------- connect.go *)
Definition mqisdp : bytes := [x4d; x51; x49; x73; x64; x70].           (* "MQIsdp" *)
Definition mqtt : bytes := [x4d; x51; x54; x54].                       (* "MQTT" *)
(* versionNames[v] for v in {3,4} (only reached for those) *)
Definition version_name (v : N) : bytes := if v =? 3 then mqisdp else if v =? 4 then mqtt else [].

Definition connect_plen (c : connect) : N :=
  let total := 0 in
  let total := if c_version c =? 3 then total + (2 + 6 + 1) else total + (2 + 4 + 1) in
  let total := total + (1 + 2) in
  let total := total + (2 + blen (c_client_id c)) in
  let total := match c_will c with
               | Some w => total + (2 + blen (m_topic w) + 2 + blen (m_payload w))
               | None => total end in
  let total := if 0 <? blen (c_username c) then total + (2 + blen (c_username c)) else total in
  let total := if 0 <? blen (c_password c) then total + (2 + blen (c_password c)) else total in
  total.
Definition connect_len (c : connect) : N :=
  let ml := connect_plen c in header_len_go ml + ml.

(* the connect flags byte as Encode builds it; None = one of the will checks failed *)
Definition connect_flags (k : connect) : option N :=
  let f := 0 in
  let f := if 0 <? blen (c_username k) then N.lor f 128 else f in
  let f := if 0 <? blen (c_password k) then N.lor f 64 else f in
  match (match c_will k with
         | Some w =>
             let f := N.lor f 4 in
             if blen (m_topic w) =? 0 then None else
             if negb (qos_successful (m_qos w)) then None else
             let f := N.lor (N.land f 231) ((m_qos w * 8) mod 256) in
             Some (if m_retain w then N.lor f 32 else f)
         | None => Some f
         end) with
  | None => None
  | Some f =>
      if (blen (c_client_id k) =? 0) && negb (c_clean k) then None else
      Some (if c_clean k then N.lor f 2 else f)
  end.

Definition encode_connect (dst : bytes) (k : connect) : sres :=
  do c <- encode_header dst 0 (connect_plen k) (connect_len k) TConnect;
  let version := if c_version k =? 0 then 4 else c_version k in       (* Encode mutates Version 0 to 4 *)
  if negb (version =? 4) && negb (version =? 3) then fail c else
  do c <- put_lp c (version_name version);
  do c <- put_u8 c version;
  match connect_flags k with
  | None => fail c
  | Some flags =>
      do c <- put_u8 c flags;
      do c <- put_u16 c (c_keep_alive k);
      do c <- put_lp c (c_client_id k);
      do c <- (match c_will k with
               | Some w => do c <- put_lp c (m_topic w); put_lp c (m_payload w)
               | None => SOk c
               end);
      if (blen (c_username k) =? 0) && (0 <? blen (c_password k)) then fail c else
      do c <- (if 0 <? blen (c_username k) then put_lp c (c_username k) else SOk c);
      if 0 <? blen (c_password k) then put_lp c (c_password k) else SOk c
  end.

(* ---------------------------------------------------------------- Generic.Len / Generic.Encode *)
Definition len_go (p : packet) : N :=
  match p with
  | Connect c => connect_len c
  | Connack _ _ => connack_len
  | Publish _ m _ => publish_len m
  | Puback _ | Pubrec _ | Pubrel _ | Pubcomp _ | Unsuback _ => identified_len
  | Subscribe _ subs => subscribe_len subs
  | Suback _ codes => suback_len codes
  | Unsubscribe _ ts => unsubscribe_len ts
  | Pingreq | Pingresp | Disconnect => naked_len
  end.

Definition encode_into (dst : bytes) (p : packet) : bres :=
  match p with
  | Connect c => finish (encode_connect dst c)
  | Connack sp rc => finish (encode_connack dst sp rc)
  | Publish dup m id => encode_publish dst dup m id
  | Puback id => finish (encode_identified dst id TPuback)
  | Pubrec id => finish (encode_identified dst id TPubrec)
  | Pubrel id => finish (encode_identified dst id TPubrel)
  | Pubcomp id => finish (encode_identified dst id TPubcomp)
  | Unsuback id => finish (encode_identified dst id TUnsuback)
  | Subscribe id subs => finish (encode_subscribe dst id subs)
  | Suback id codes => finish (encode_suback dst id codes)
  | Unsubscribe id ts => finish (encode_unsubscribe dst id ts)
  | Pingreq => finish (encode_naked dst TPingreq)
  | Pingresp => finish (encode_naked dst TPingresp)
  | Disconnect => finish (encode_naked dst TDisconnect)
  end.

(* Encode(make([]byte, cap)): returned count and the bytes dst[:n] (all of dst if n > cap) *)
Inductive eres :=
| EOk (n : N) (written : bytes)
| EErr (n : N)
| EPanic.

Definition observe (r : bres) : eres :=
  match r with
  | BOk n dst => EOk n (take n dst)
  | BErr n => EErr n
  | BPanic => EPanic
  end.

Definition zeros (cap : N) : bytes := repeat x00 (N.to_nat cap).

Definition encode_go (cap : N) (p : packet) : eres := observe (encode_into (zeros cap) p).

(* ---------------------------------------------------------------- stream.go: Encoder.Write *)
(* buffer.Reset(); buffer.Grow(n); buf := buffer.Bytes()[0:n] — n bytes whose content is
   whatever earlier packets left in the pooled buffer (`prior`, padded if shorter) *)
Definition pool_buf (prior : bytes) (n : N) : bytes := take n (prior ++ zeros n).

Inductive xres :=
| XSent (wire : bytes)          (* the bytes handed to the writer *)
| XErr                          (* Encode failed: nothing written *)
| XPanic.

Definition encoder_write (prior : bytes) (p : packet) : xres :=
  let packet_length := len_go p in
  let buf := pool_buf prior packet_length in
  match encode_into buf p with
  | BOk _ buf' => XSent buf'                                           (* `_, err := pkt.Encode(buf)`; writes buf *)
  | BErr _ => XErr
  | BPanic => XPanic
  end.
