(* EncJudgeProofs.v — the model passes every judge of EncJudge.v, for every packet value,
   every fill byte, every extra capacity, every list of short capacities, every prior pool
   content.  Hence: a judge that fails on the implementation's observations is a clause of
   C01 failing on a concrete input. *)
From Coq Require Import List NArith ZArith Bool Lia ZifyN ZifyNat ZifyBool.
From Coq.Strings Require Import Byte.
From GM Require Import Codec.Packet Codec.WF Codec.Enc Codec.WireSpec Codec.EncProofsBase Codec.EncProofsSpec
  Codec.EncProofsTypes Codec.EncProofs Codec.EncProofsTop Codec.EncProofsRoundTrip Codec.EncJudge.
From GM Require Codec.Dec.
Import ListNotations.
Open Scope N_scope.

(* ---------------------------------------------------------------- equality tests are reflexive *)
Lemma byte_eqb_refl b : Byte.eqb b b = true.
Proof. apply Byte.byte_dec_lb. reflexivity. Qed.

Lemma bytes_eqb_refl a : bytes_eqb a a = true.
Proof. induction a as [| x a IH]; [reflexivity |]. cbn [bytes_eqb]. rewrite byte_eqb_refl, IH. reflexivity. Qed.

Lemma list_eqb_refl {A} (eqb : A -> A -> bool) (H : forall x, eqb x x = true) l : list_eqb eqb l l = true.
Proof. induction l as [| x l IH]; [reflexivity |]. cbn [list_eqb]. rewrite H, IH. reflexivity. Qed.

Lemma bool_eqb_refl b : Bool.eqb b b = true.
Proof. destruct b; reflexivity. Qed.

Lemma message_eqb_refl m : message_eqb m m = true.
Proof. unfold message_eqb. rewrite !bytes_eqb_refl, N.eqb_refl, bool_eqb_refl. reflexivity. Qed.

Lemma packet_eqb_refl p : packet_eqb p p = true.
Proof.
  destruct p as [c | sp rc | dup m id | id | id | id | id | id subs | id codes | id ts | id | | |];
    cbn [packet_eqb]; rewrite ?N.eqb_refl, ?bool_eqb_refl, ?message_eqb_refl; try reflexivity.
  - unfold connect_eqb. rewrite !bytes_eqb_refl, !N.eqb_refl, bool_eqb_refl.
    destruct (c_will c) as [w |]; cbn [option_eqb]; rewrite ?message_eqb_refl; reflexivity.
  - rewrite list_eqb_refl; [reflexivity |]. intros x. rewrite bytes_eqb_refl, N.eqb_refl. reflexivity.
  - rewrite list_eqb_refl; [reflexivity | apply N.eqb_refl].
  - rewrite list_eqb_refl; [reflexivity | apply bytes_eqb_refl].
Qed.

(* ---------------------------------------------------------------- small facts *)
Lemma drop_repeat x a b : drop a (repeat x (N.to_nat (a + b))) = repeat x (N.to_nat b).
Proof.
  unfold drop. replace (N.to_nat (a + b)) with (N.to_nat a + N.to_nat b)%nat by lia.
  rewrite repeat_app, skipn_app, repeat_length, Nat.sub_diag.
  rewrite skipn_all2 by (rewrite repeat_length; lia). reflexivity.
Qed.

Lemma encoder_write_len p prior :
  match encoder_write prior p with
  | XSent bs => blen bs = len_go p
  | XErr => True
  | XPanic => False
  end.
Proof.
  unfold encoder_write. cbv zeta.
  pose proof (encode_fits (pool_buf prior (len_go p)) p) as F. rewrite blen_pool_buf in F.
  specialize (F (N.le_refl _)).
  destruct (encode_into (pool_buf prior (len_go p)) p) as [n d | n |]; cbn [fits_ok] in F.
  - destruct F as [_ F]. rewrite F. apply blen_pool_buf.
  - exact I.
  - exact F.
Qed.

(* ---------------------------------------------------------------- the model passes *)
Theorem model_passes p fill extra caps prior : all_judges p (model_obs p fill extra caps prior) = true.
Proof.
  unfold all_judges, model_obs. cbv zeta.
  set (L := len_go p). set (e := encode_go L p).
  assert (Hcnt : counts_len L e = true).
  { unfold counts_len. destruct e as [n bs | n |] eqn:E; try reflexivity.
    destruct (encode_len_is_written p L n bs E) as [-> ->]. fold L. rewrite !N.eqb_refl. reflexivity. }
  assert (Hnp : not_panic e = true).
  { unfold not_panic. destruct e eqn:E; try reflexivity. exfalso. exact (encode_no_panic p L E). }
  pose proof (encode_fits (repeat fill (N.to_nat (L + extra))) p) as F.
  rewrite blen_repeat in F. specialize (F ltac:(fold L; lia)).
  assert (Hshorts_np : forallb (fun cr : N * eres => not_panic (snd cr)) (map (fun c => (c, encode_go c p)) caps) = true).
  { apply forallb_forall. intros [c r] Hin. apply in_map_iff in Hin. destruct Hin as (c' & E & _).
    injection E as <- <-. cbn [snd]. unfold not_panic. destruct (encode_go c' p) eqn:E'; try reflexivity.
    exfalso. exact (encode_no_panic p c' E'). }
  assert (Hshort : forallb (fun cr : N * eres => negb (fst cr <? L) || is_err (snd cr)) (map (fun c => (c, encode_go c p)) caps) = true).
  { apply forallb_forall. intros [c r] Hin. apply in_map_iff in Hin. destruct Hin as (c' & E & _).
    injection E as <- <-. cbn [fst snd]. destruct (c' <? L) eqn:C; [| reflexivity]. apply N.ltb_lt in C.
    destruct (encode_short_buffer p c' C) as [n ->]. reflexivity. }
  pose proof (encoder_write_len p prior) as Wl.
  destruct (wf p) eqn:W.
  - (* well-formed *)
    pose proof (encode_layout p W) as El. fold L in El. fold e in El.
    pose proof (encode_dirty p (repeat fill (N.to_nat (L + extra))) W) as Ed.
    rewrite blen_repeat in Ed. specialize (Ed ltac:(fold L; lia)). fold L in Ed. rewrite drop_repeat in Ed.
    pose proof (encoder_write_exact p prior W) as Ew.
    pose proof (roundtrip p W) as Er. pose proof (len_go_total_len p W) as Et. fold L in Et.
    pose proof (blen_wire_spec p W) as Eb.
    unfold j_len_is_written, j_len_spec, j_encode_total, j_layout, j_dirty, j_short, j_wire_exact, j_roundtrip.
    cbn [o_len o_enc o_len2 o_again o_fill o_extra o_dirty o_shorts o_wr o_rt].
    rewrite Hcnt, Hnp, Hshorts_np, Hshort, Ed, Ew, El, W. cbn [negb orb andb is_ok has_layout].
    rewrite Er, packet_eqb_refl, !bytes_eqb_refl, blen_app, blen_repeat, Eb, <- Et.
    replace (N.of_nat (N.to_nat extra)) with extra by lia.
    rewrite !N.eqb_refl. reflexivity.
  - (* any other packet *)
    unfold j_len_is_written, j_len_spec, j_encode_total, j_layout, j_dirty, j_short, j_wire_exact, j_roundtrip.
    cbn [o_len o_enc o_len2 o_again o_fill o_extra o_dirty o_shorts o_wr o_rt].
    rewrite Hcnt, Hnp, Hshorts_np, Hshort, W. cbn [negb orb andb]. rewrite N.eqb_refl.
    destruct (encode_into (repeat fill (N.to_nat (L + extra))) p) as [n d | n |]; cbn [fits_ok] in F.
    + destruct F as [F1 F2]. rewrite F1, F2, blen_repeat. fold L.
      replace (N.of_nat (N.to_nat (L + extra))) with (L + extra) by lia. rewrite !N.eqb_refl. cbn [andb].
      destruct (encoder_write prior p) as [bs | |]; [fold L in Wl; rewrite Wl, N.eqb_refl; reflexivity | reflexivity | contradiction].
    + destruct (encoder_write prior p) as [bs | |]; [fold L in Wl; rewrite Wl, N.eqb_refl; reflexivity | reflexivity | contradiction].
    + contradiction.
Qed.

(* several packets through the stream encoder, each with its own stale pool content *)
Theorem model_stream (pps : list (packet * bytes)) :
  j_stream (map fst pps)
           (concat (map (fun pp => match encoder_write (snd pp) (fst pp) with XSent b => b | _ => [] end) pps)) = true.
Proof.
  unfold j_stream. destruct (forallb wf (map fst pps)) eqn:W; [| reflexivity]. cbn [negb orb].
  replace (concat (map (fun pp => match encoder_write (snd pp) (fst pp) with XSent b => b | _ => [] end) pps))
    with (concat (map wire_spec (map fst pps))); [apply bytes_eqb_refl |].
  induction pps as [| [p prior] pps IH]; [reflexivity |].
  cbn [map fst snd forallb concat] in *. apply andb_true_iff in W. destruct W as [W1 W2].
  rewrite (encoder_write_exact p prior W1), IH by exact W2. reflexivity.
Qed.

(* encodeHeader *)
Lemma first_byte_header t flags : flags < 16 ->
  first_byte t flags = byte_of (16 * type_code t + N.lor (default_flags t) flags).
Proof.
  intros H.
  assert (C : flags = 0 \/ flags = 1 \/ flags = 2 \/ flags = 3 \/ flags = 4 \/ flags = 5 \/ flags = 6 \/ flags = 7 \/
              flags = 8 \/ flags = 9 \/ flags = 10 \/ flags = 11 \/ flags = 12 \/ flags = 13 \/ flags = 14 \/ flags = 15) by lia.
  repeat (destruct C as [-> | C]); try subst flags; destruct t; vm_compute; reflexivity.
Qed.

Theorem model_header t flags rl tl dst :
  j_header t flags rl tl (blen dst) (finish (encode_header dst flags rl tl t)) = true.
Proof.
  unfold j_header.
  destruct (blen dst <? header_len_go rl) eqn:C1.
  { cbn [orb]. unfold encode_header. rewrite (len_lt_true dst (header_len_go rl)) by (apply N.ltb_lt; exact C1). reflexivity. }
  destruct (blen dst <? tl) eqn:C2.
  { cbn [orb]. rewrite encode_header_short by (apply N.ltb_lt; exact C2). reflexivity. }
  cbn [orb]. apply N.ltb_ge in C1. apply N.ltb_ge in C2.
  rewrite encode_header_nf by assumption. change 268435455 with max_varint.
  destruct (max_varint <? rl) eqn:C3.
  { replace (rl <=? max_varint) with false by (symmetry; apply N.leb_gt; apply N.ltb_lt; exact C3). reflexivity. }
  apply N.ltb_ge in C3. replace (rl <=? max_varint) with true by (symmetry; apply N.leb_le; exact C3).
  destruct (flags <? 16) eqn:C4; [| reflexivity]. apply N.ltb_lt in C4.
  rewrite finish_hcur by exact C3. unfold header_bytes.
  rewrite remaining_length_vb by exact C3. rewrite <- first_byte_header by exact C4.
  rewrite blen_cons, blen_vb by exact C3. fold (header_len_go rl). rewrite N.eqb_refl.
  rewrite take_app_n by (rewrite blen_cons, blen_vb by exact C3; reflexivity).
  rewrite bytes_eqb_refl, blen_app, blen_cons, blen_vb, blen_drop by exact C3.
  unfold header_len_go in *. replace (1 + varint_len_go rl + (blen dst - (1 + varint_len_go rl))) with (blen dst) by lia.
  rewrite N.eqb_refl. reflexivity.
Qed.
