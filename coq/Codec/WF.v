(* WF.v — what "well-formed packet value" means (C01), per type, and the
   remaining length of a packet computed from field sizes alone.
   Shared by the encoder side (C01) and the decoder side (C02).  Definitions only. *)
From Coq Require Import List NArith Bool.
From Coq.Strings Require Import Byte.
From GM Require Import Codec.Packet.
Import ListNotations.
Open Scope N_scope.

Definition blen (b : bytes) : N := N.of_nat (length b).
Definition nonempty {A} (l : list A) : bool := match l with [] => false | _ => true end.

Definition max_remaining : N := 268435455.

(* size of a length-prefixed string *)
Definition lp (b : bytes) : N := 2 + blen b.

Definition will_len (w : option message) : N :=
  match w with None => 0 | Some m => lp (m_topic m) + lp (m_payload m) end.

(* present iff non-empty, exactly as the Go struct encodes it *)
Definition opt_lp (b : bytes) : N := match b with [] => 0 | _ => lp b end.

Definition proto_name_len (v : N) : N := if v =? 3 then 6 else 4.

(* remaining length (variable header + payload) from the field sizes *)
Definition body_len (p : packet) : N :=
  match p with
  | Connect c =>
      2 + proto_name_len (c_version c) + 1 + 1 + 2 + lp (c_client_id c) + will_len (c_will c)
      + opt_lp (c_username c) + opt_lp (c_password c)
  | Connack _ _ => 2
  | Publish _ m _ => lp (m_topic m) + (if m_qos m =? 0 then 0 else 2) + blen (m_payload m)
  | Puback _ | Pubrec _ | Pubrel _ | Pubcomp _ | Unsuback _ => 2
  | Subscribe _ subs => 2 + fold_right (fun s acc => lp (fst s) + 1 + acc) 0 subs
  | Suback _ codes => 2 + N.of_nat (length codes)
  | Unsubscribe _ ts => 2 + fold_right (fun t acc => lp t + acc) 0 ts
  | Pingreq | Pingresp | Disconnect => 0
  end.

Definition varint_len (n : N) : N :=
  if n <? 128 then 1 else if n <? 16384 then 2 else if n <? 2097152 then 3 else 4.

(* total encoded length *)
Definition total_len (p : packet) : N := 1 + varint_len (body_len p) + body_len p.

Definition id_ok (i : N) : bool := (1 <=? i) && (i <=? 65535).
Definition str_ok (b : bytes) : bool := blen b <=? 65535.
Definition qos_ok (q : N) : bool := q <=? 2.

Definition msg_ok (m : message) : bool :=
  nonempty (m_topic m) && str_ok (m_topic m) && qos_ok (m_qos m).

Definition wf (p : packet) : bool :=
  (body_len p <=? max_remaining) &&
  match p with
  | Connect c =>
      ((c_version c =? 3) || (c_version c =? 4)) &&
      (c_keep_alive c <=? 65535) &&
      str_ok (c_client_id c) && str_ok (c_username c) && str_ok (c_password c) &&
      (nonempty (c_client_id c) || c_clean c) &&                      (* empty id only with clean session *)
      (nonempty (c_username c) || negb (nonempty (c_password c))) &&  (* password only with username *)
      match c_will c with
      | None => true
      | Some m => msg_ok m && str_ok (m_payload m)
      end
  | Connack _ rc => rc <=? 5
  | Publish _ m id =>
      msg_ok m && (if m_qos m =? 0 then id =? 0 else id_ok id)         (* the wire carries no id at QoS 0 *)
  | Puback id | Pubrec id | Pubrel id | Pubcomp id | Unsuback id => id_ok id
  | Subscribe id subs =>
      id_ok id && nonempty subs && forallb (fun s => str_ok (fst s) && qos_ok (snd s)) subs
  | Suback id codes =>
      id_ok id && nonempty codes && forallb (fun c => qos_ok c || (c =? 128)) codes
  | Unsubscribe id ts => id_ok id && nonempty ts && forallb str_ok ts
  | Pingreq | Pingresp | Disconnect => true
  end.

(* what a broker forwards: the decoded message as a fresh PUBLISH at a QoS not
   above the original, with any id valid for that QoS *)
Definition forwardable (m : message) : Prop :=
  forall q id retain, q <= m_qos m ->
    (if q =? 0 then id = 0 else id_ok id = true) ->
    wf (Publish false (Msg (m_topic m) (m_payload m) q retain) id) = true.
