(* EncProofsTypes2.v — publish, unsubscribe, subscribe: the walks of EncProofsTypes.v
   continued (loops by induction over the list). *)
From Coq Require Import List NArith ZArith Bool Lia ZifyN ZifyNat ZifyBool.
From Coq.Strings Require Import Byte.
From GM Require Import Codec.Packet Codec.WF Codec.Enc Codec.EncProofsBase Codec.EncProofsSpec Codec.EncProofsTypes.
Import ListNotations.
Open Scope N_scope.
Ltac Zify.zify_post_hook ::= Z.div_mod_to_equations.

Lemma push_push c w1 k1 w2 k2 : push (push c w1 k1) w2 k2 = push c (w1 ++ w2) (k1 + k2).
Proof.
  unfold push. cbn [c_rdone c_rest]. rewrite drop_drop. f_equal.
  rewrite !rev_append_rev, rev_app_distr, app_assoc. reflexivity.
Qed.

Lemma push_nil c : push c [] 0 = c.
Proof. destruct c. reflexivity. Qed.

(* ---------------------------------------------------------------- publish *)
Definition publish_idb (qos id : N) : bytes := if qos =? 0 then [] else u16 id.

Lemma blen_publish_idb qos id : blen (publish_idb qos id) = if qos =? 0 then 0 else 2.
Proof. unfold publish_idb. destruct (qos =? 0); reflexivity. Qed.

Lemma encode_publish_fits dst dup m id : publish_len m <= blen dst ->
  encode_publish dst dup m id =
  if blen (m_topic m) =? 0 then BErr 0 else
  if negb (qos_successful (m_qos m)) then BErr 0 else
  if (0 <? m_qos m) && negb (id_valid id) then BErr 0 else
  if publish_plen m <=? max_varint then
    if blen (m_topic m) <=? 65535 then
      BOk (publish_len m)
          ((first_byte TPublish (publish_flags dup (m_retain m) (m_qos m)) :: vb (publish_plen m))
           ++ lpb (m_topic m) ++ publish_idb (m_qos m) id ++ m_payload m
           ++ drop (publish_len m) dst)
    else BErr (header_len_go (publish_plen m))
  else BErr 0.
Proof.
  intros H. unfold encode_publish.
  destruct (blen (m_topic m) =? 0); [reflexivity |].
  destruct (negb (qos_successful (m_qos m))); [reflexivity |].
  destruct ((0 <? m_qos m) && negb (id_valid id)); [reflexivity |].
  fold (publish_flags dup (m_retain m) (m_qos m)).
  assert (Hl : publish_len m = header_len_go (publish_plen m) + publish_plen m) by reflexivity.
  assert (Hp : publish_plen m = 2 + blen (m_topic m) + blen (m_payload m) + (if m_qos m =? 0 then 0 else 2)).
  { unfold publish_plen. destruct (m_qos m =? 0); cbn [negb]; lia. }
  rewrite encode_header_nf by lia.
  destruct (publish_plen m <=? max_varint) eqn:E; [| reflexivity]. apply N.leb_le in E. cbn [sbind].
  rewrite put_lp_fits by (rewrite rest_hcur, blen_drop; destruct (m_qos m =? 0); lia).
  destruct (blen (m_topic m) <=? 65535) eqn:E2; cbn [sbind]; [| rewrite total_hcur by exact E; reflexivity].
  set (h := hcur TPublish (publish_flags dup (m_retain m) (m_qos m)) (publish_plen m) dst) in *.
  assert (Hc : (if negb (m_qos m =? 0) then put_u16 (push h (lpb (m_topic m)) (2 + blen (m_topic m))) id
                else SOk (push h (lpb (m_topic m)) (2 + blen (m_topic m)))) =
               SOk (push h (lpb (m_topic m) ++ publish_idb (m_qos m) id)
                         (2 + blen (m_topic m) + blen (publish_idb (m_qos m) id)))).
  { unfold publish_idb. destruct (m_qos m =? 0) eqn:Q; cbn [negb].
    - rewrite app_nil_r. f_equal. f_equal. rewrite blen_nil. lia.
    - rewrite put_u16_fits by (subst h; rewrite rest_push, rest_hcur, !blen_drop; lia).
      rewrite push_push. reflexivity. }
  rewrite Hc. clear Hc.
  rewrite blen_publish_idb. subst h.
  f_equal.
  - rewrite total_push, total_hcur, blen_app, blen_lpb, blen_publish_idb by exact E. lia.
  - rewrite done_push, done_hcur, rest_push, rest_hcur, drop_drop.
    rewrite copy_into_fits by (rewrite blen_drop; destruct (m_qos m =? 0); lia).
    rewrite drop_drop. rewrite <- !app_assoc. do 4 f_equal.
    f_equal. destruct (m_qos m =? 0); lia.
Qed.

Lemma blen_publish_bytes dup m id : publish_plen m <= max_varint ->
  blen ((first_byte TPublish (publish_flags dup (m_retain m) (m_qos m)) :: vb (publish_plen m))
        ++ lpb (m_topic m) ++ publish_idb (m_qos m) id ++ m_payload m) = publish_len m.
Proof.
  intros E. rewrite !blen_app, blen_cons, blen_vb, blen_lpb, blen_publish_idb by exact E.
  unfold publish_len, publish_plen, header_len_go. cbv zeta. destruct (m_qos m =? 0); cbn [negb]; lia.
Qed.

Lemma fits_publish dst dup m id :
  publish_len m <= blen dst -> fits_ok (publish_len m) dst (encode_publish dst dup m id).
Proof.
  intros H. rewrite encode_publish_fits by exact H.
  destruct (blen (m_topic m) =? 0); [exact I |].
  destruct (negb (qos_successful (m_qos m))); [exact I |].
  destruct ((0 <? m_qos m) && negb (id_valid id)); [exact I |].
  destruct (publish_plen m <=? max_varint) eqn:E; [| exact I]. apply N.leb_le in E.
  destruct (blen (m_topic m) <=? 65535); [| exact I].
  cbn [fits_ok]. split; [reflexivity |].
  rewrite !app_assoc. rewrite blen_app. rewrite <- !app_assoc.
  rewrite (blen_publish_bytes dup m id E), blen_drop. lia.
Qed.

Lemma short_publish dst dup m id :
  blen dst < publish_len m -> is_err (encode_publish dst dup m id).
Proof.
  intros H. unfold encode_publish.
  destruct (blen (m_topic m) =? 0); [eexists; reflexivity |].
  destruct (negb (qos_successful (m_qos m))); [eexists; reflexivity |].
  destruct ((0 <? m_qos m) && negb (id_valid id)); [eexists; reflexivity |].
  rewrite encode_header_short by exact H. eexists; reflexivity.
Qed.

(* ---------------------------------------------------------------- unsubscribe *)
Definition tsize (ts : list bytes) : N := fold_right (fun t a => lp t + a) 0 ts.
Definition tbytes (ts : list bytes) : bytes := concat (map lpb ts).

Lemma blen_tbytes ts : blen (tbytes ts) = tsize ts.
Proof.
  induction ts as [| t more IH]; [reflexivity |].
  unfold tbytes, tsize in *. cbn [map concat fold_right]. rewrite blen_app, blen_lpb, IH. unfold lp. lia.
Qed.

Lemma encode_topics_spec ts : forall c, tsize ts <= blen (c_rest c) ->
  match encode_topics c ts with
  | SOk c' => c' = push c (tbytes ts) (tsize ts) /\ forallb str_ok ts = true
  | SErr _ => forallb str_ok ts = false
  | SPanic => False
  end.
Proof.
  induction ts as [| t more IH]; intros c H.
  - cbn [encode_topics forallb]. split; [| reflexivity]. symmetry. apply push_nil.
  - cbn [encode_topics forallb]. unfold tsize in H. cbn [fold_right] in H. fold (tsize more) in H.
    unfold lp in H. rewrite put_lp_fits by lia. change (str_ok t) with (blen t <=? 65535).
    destruct (blen t <=? 65535); cbn [sbind andb]; [| reflexivity].
    specialize (IH (push c (lpb t) (2 + blen t))).
    rewrite rest_push, blen_drop in IH. specialize (IH ltac:(lia)).
    destruct (encode_topics (push c (lpb t) (2 + blen t)) more) as [c' | n |]; [| exact IH | exact IH].
    destruct IH as [-> ->]. split; [| reflexivity]. rewrite push_push. reflexivity.
Qed.

Lemma unsubscribe_plen_tsize ts : unsubscribe_plen ts = 2 + tsize ts.
Proof.
  unfold unsubscribe_plen, tsize.
  assert (G : forall acc, unsubscribe_plen_loop acc ts = acc + fold_right (fun t a => lp t + a) 0 ts).
  { induction ts as [| t more IH]; intros acc; cbn [unsubscribe_plen_loop fold_right]; [lia |].
    rewrite IH. unfold lp. lia. }
  apply G.
Qed.

(* the outcome of Unsubscribe.Encode into a buffer that is large enough *)
Lemma encode_unsubscribe_spec dst id ts : unsubscribe_len ts <= blen dst ->
  match encode_unsubscribe dst id ts with
  | SOk c' =>
      c' = push (hcur TUnsubscribe 0 (unsubscribe_plen ts) dst) (u16 id ++ tbytes ts) (2 + tsize ts)
      /\ unsubscribe_plen ts <= max_varint /\ id <> 0 /\ forallb str_ok ts = true
  | SErr _ => max_varint < unsubscribe_plen ts \/ id = 0 \/ forallb str_ok ts = false
  | SPanic => False
  end.
Proof.
  unfold unsubscribe_len. cbv zeta. intros H. unfold encode_unsubscribe.
  rewrite encode_header_nf by (unfold unsubscribe_len; cbv zeta; lia).
  destruct (unsubscribe_plen ts <=? max_varint) eqn:E; [| apply N.leb_gt in E; left; exact E].
  apply N.leb_le in E. cbn [sbind]. unfold id_valid.
  destruct (id =? 0) eqn:I0; cbn [negb]; [apply N.eqb_eq in I0; right; left; exact I0 |].
  apply N.eqb_neq in I0.
  pose proof (unsubscribe_plen_tsize ts) as Hs.
  rewrite put_u16_fits by (rewrite rest_hcur, blen_drop; lia). cbn [sbind].
  pose proof (encode_topics_spec ts (push (hcur TUnsubscribe 0 (unsubscribe_plen ts) dst) (u16 id) 2)) as S.
  rewrite rest_push, rest_hcur, !blen_drop in S. specialize (S ltac:(lia)).
  destruct (encode_topics _ ts) as [c' | n |]; [| right; right; exact S | exact S].
  destruct S as [-> S]. rewrite push_push. repeat split; assumption.
Qed.

Lemma fits_unsubscribe dst id ts : unsubscribe_len ts <= blen dst ->
  fits_ok (unsubscribe_len ts) dst (finish (encode_unsubscribe dst id ts)).
Proof.
  intros H. pose proof (encode_unsubscribe_spec dst id ts H) as S.
  destruct (encode_unsubscribe dst id ts) as [c' | n |]; [| exact I | exact S].
  destruct S as (-> & E & _ & _). pose proof (unsubscribe_plen_tsize ts) as Hs.
  unfold unsubscribe_len in *. cbv zeta in *.
  cbn [finish fits_ok]. split; norm; rewrite ?blen_tbytes; unfold header_len_go in *; lia.
Qed.

Lemma short_unsubscribe dst id ts :
  blen dst < unsubscribe_len ts -> is_err (finish (encode_unsubscribe dst id ts)).
Proof.
  intros H. unfold encode_unsubscribe. rewrite encode_header_short by exact H. eexists; reflexivity.
Qed.

(* ---------------------------------------------------------------- subscribe *)
Definition ssize (subs : list (bytes * N)) : N := fold_right (fun s a => lp (fst s) + 1 + a) 0 subs.
Definition sbytes (subs : list (bytes * N)) : bytes :=
  concat (map (fun s => lpb (fst s) ++ [n2b (snd s)]) subs).
Definition sub_ok (s : bytes * N) : bool := str_ok (fst s) && qos_successful (snd s).

Lemma blen_sbytes subs : blen (sbytes subs) = ssize subs.
Proof.
  induction subs as [| s more IH]; [reflexivity |].
  unfold sbytes, ssize in *. cbn [map concat fold_right].
  rewrite !blen_app, blen_lpb, blen_cons, blen_nil, IH. unfold lp. lia.
Qed.

Lemma encode_subs_spec subs : forall c, ssize subs <= blen (c_rest c) ->
  match encode_subs c subs with
  | SOk c' => c' = push c (sbytes subs) (ssize subs) /\ forallb sub_ok subs = true
  | SErr _ => forallb sub_ok subs = false
  | SPanic => False
  end.
Proof.
  induction subs as [| s more IH]; intros c H.
  - cbn [encode_subs forallb]. split; [| reflexivity]. symmetry. apply push_nil.
  - cbn [encode_subs forallb]. unfold ssize in H. cbn [fold_right] in H. fold (ssize more) in H.
    unfold lp in H. rewrite put_lp_fits by lia.
    change (sub_ok s) with ((blen (fst s) <=? 65535) && qos_successful (snd s)).
    destruct (blen (fst s) <=? 65535); cbn [sbind andb]; [| reflexivity].
    destruct (qos_successful (snd s)); cbn [negb andb]; [| reflexivity].
    rewrite put_u8_fits by (rewrite rest_push, blen_drop; lia). cbn [sbind].
    rewrite push_push.
    specialize (IH (push c (lpb (fst s) ++ [n2b (snd s)]) (2 + blen (fst s) + 1))).
    rewrite rest_push, blen_drop in IH. specialize (IH ltac:(lia)).
    destruct (encode_subs _ more) as [c' | n |]; [| exact IH | exact IH].
    destruct IH as [-> ->]. split; [| reflexivity]. rewrite push_push.
    reflexivity.
Qed.

Lemma subscribe_plen_ssize subs : subscribe_plen subs = 2 + ssize subs.
Proof.
  unfold subscribe_plen, ssize.
  assert (G : forall acc, subscribe_plen_loop acc subs = acc + fold_right (fun s a => lp (fst s) + 1 + a) 0 subs).
  { induction subs as [| s more IH]; intros acc; cbn [subscribe_plen_loop fold_right]; [lia |].
    rewrite IH. unfold lp. lia. }
  apply G.
Qed.

Lemma encode_subscribe_spec dst id subs : subscribe_len subs <= blen dst ->
  match encode_subscribe dst id subs with
  | SOk c' =>
      c' = push (hcur TSubscribe 0 (subscribe_plen subs) dst) (u16 id ++ sbytes subs) (2 + ssize subs)
      /\ subscribe_plen subs <= max_varint /\ id <> 0 /\ forallb sub_ok subs = true
  | SErr _ => max_varint < subscribe_plen subs \/ id = 0 \/ forallb sub_ok subs = false
  | SPanic => False
  end.
Proof.
  unfold subscribe_len. cbv zeta. intros H. unfold encode_subscribe, id_valid.
  destruct (id =? 0) eqn:I0; cbn [negb]; [apply N.eqb_eq in I0; right; left; exact I0 |].
  apply N.eqb_neq in I0.
  rewrite encode_header_nf by (unfold subscribe_len; cbv zeta; lia).
  destruct (subscribe_plen subs <=? max_varint) eqn:E; [| apply N.leb_gt in E; left; exact E].
  apply N.leb_le in E. cbn [sbind].
  pose proof (subscribe_plen_ssize subs) as Hs.
  rewrite put_u16_fits by (rewrite rest_hcur, blen_drop; lia). cbn [sbind].
  pose proof (encode_subs_spec subs (push (hcur TSubscribe 0 (subscribe_plen subs) dst) (u16 id) 2)) as S.
  rewrite rest_push, rest_hcur, !blen_drop in S. specialize (S ltac:(lia)).
  destruct (encode_subs _ subs) as [c' | n |]; [| right; right; exact S | exact S].
  destruct S as [-> S]. rewrite push_push. repeat split; assumption.
Qed.

Lemma fits_subscribe dst id subs : subscribe_len subs <= blen dst ->
  fits_ok (subscribe_len subs) dst (finish (encode_subscribe dst id subs)).
Proof.
  intros H. pose proof (encode_subscribe_spec dst id subs H) as S.
  destruct (encode_subscribe dst id subs) as [c' | n |]; [| exact I | exact S].
  destruct S as (-> & E & _ & _). pose proof (subscribe_plen_ssize subs) as Hs.
  unfold subscribe_len in *. cbv zeta in *.
  cbn [finish fits_ok]. split; norm; rewrite ?blen_sbytes; unfold header_len_go in *; lia.
Qed.

Lemma short_subscribe dst id subs :
  blen dst < subscribe_len subs -> is_err (finish (encode_subscribe dst id subs)).
Proof.
  intros H. unfold encode_subscribe. destruct (negb (id_valid id)); [eexists; reflexivity |].
  rewrite encode_header_short by exact H. eexists; reflexivity.
Qed.
