(* EncProofsSpec.v — the pieces of WireSpec.v expressed with the byte strings the Go
   helpers produce (EncProofsBase: vb, u16, lpb, first_byte), and what wf says per type. *)
From Coq Require Import List NArith ZArith Bool Lia ZifyN ZifyNat ZifyBool.
From Coq.Strings Require Import Byte.
From GM Require Import Codec.Packet Codec.WF Codec.Enc Codec.WireSpec Codec.EncProofsBase.
Import ListNotations.
Open Scope N_scope.
Ltac Zify.zify_post_hook ::= Z.div_mod_to_equations.

Lemma byte_of_n2b n : byte_of n = n2b n.
Proof. reflexivity. Qed.
Lemma size_blen b : size b = blen b.
Proof. reflexivity. Qed.

Ltac bytes_eq :=
  repeat match goal with
  | |- ?a :: ?l = ?b :: ?m => apply (f_equal2 cons); [apply n2b_eq; lia |]
  | |- [] = [] => reflexivity
  end.

Lemma remaining_length_vb x : x <= max_varint -> remaining_length x = vb x.
Proof.
  unfold max_varint, remaining_length, vb. intros H.
  cbn [remaining_length_bytes]. cbv zeta. change byte_of with n2b.
  destruct (x <? 128) eqn:E1.
  { apply N.ltb_lt in E1. destruct (0 <? x / 128) eqn:F1; [apply N.ltb_lt in F1; lia |].
    bytes_eq. }
  apply N.ltb_ge in E1. destruct (0 <? x / 128) eqn:F1; [| apply N.ltb_ge in F1; lia].
  destruct (x <? 16384) eqn:E2.
  { apply N.ltb_lt in E2. destruct (0 <? x / 128 / 128) eqn:F2; [apply N.ltb_lt in F2; lia |].
    bytes_eq. }
  apply N.ltb_ge in E2. destruct (0 <? x / 128 / 128) eqn:F2; [| apply N.ltb_ge in F2; lia].
  destruct (x <? 2097152) eqn:E3.
  { apply N.ltb_lt in E3.
    destruct (0 <? x / 128 / 128 / 128) eqn:F3; [apply N.ltb_lt in F3; lia |].
    bytes_eq. }
  apply N.ltb_ge in E3.
  destruct (0 <? x / 128 / 128 / 128) eqn:F3; [| apply N.ltb_ge in F3; lia].
  destruct (0 <? x / 128 / 128 / 128 / 128) eqn:F4; [apply N.ltb_lt in F4; lia |].
  bytes_eq.
Qed.

Lemma two_byte_int_u16 v : v <= 65535 -> two_byte_int v = u16 v.
Proof.
  intros H. unfold two_byte_int, u16. rewrite !byte_of_n2b.
  rewrite (N.mod_small v 65536) by lia. rewrite n2b_mod. reflexivity.
Qed.

Lemma prefixed_lpb s : blen s <= 65535 -> prefixed s = lpb s.
Proof. intros H. unfold prefixed, lpb. rewrite size_blen, two_byte_int_u16 by exact H. reflexivity. Qed.

Lemma blen_two_byte_int v : blen (two_byte_int v) = 2.
Proof. reflexivity. Qed.
Lemma blen_prefixed s : blen (prefixed s) = 2 + blen s.
Proof. unfold prefixed. rewrite blen_app, blen_two_byte_int. reflexivity. Qed.

(* the first byte of the fixed header, for the flags each Go encoder passes *)
Lemma first_byte_plain t :
  first_byte t 0 = n2b (16 * type_code t + default_flags t).
Proof. destruct t; vm_compute; reflexivity. Qed.

Lemma qos_successful_cases q : qos_successful q = true <-> q = 0 \/ q = 1 \/ q = 2.
Proof.
  unfold qos_successful. rewrite !orb_true_iff, !N.eqb_eq. tauto.
Qed.
Lemma qos_successful_le q : qos_successful q = (q <=? 2).
Proof.
  apply eq_true_iff_eq. rewrite qos_successful_cases, N.leb_le. lia.
Qed.

Definition publish_flags (dup retain : bool) (qos : N) : N :=
  let flags := 0 in
  let flags := if dup then N.lor flags 8 else flags in
  let flags := if retain then N.lor flags 1 else flags in
  N.lor (N.land flags 249) ((qos * 2) mod 256).

Lemma first_byte_publish dup retain qos : qos <= 2 ->
  first_byte TPublish (publish_flags dup retain qos) = n2b (16 * 3 + (8 * bit dup + 2 * qos + bit retain)).
Proof.
  intros H. assert (C : qos = 0 \/ qos = 1 \/ qos = 2) by lia.
  destruct C as [-> | [-> | ->]]; destruct dup, retain; vm_compute; reflexivity.
Qed.

(* ---------------------------------------------------------------- sums *)
Lemma subscribe_plen_loop_sum subs : forall acc,
  subscribe_plen_loop acc subs = acc + fold_right (fun s a => lp (fst s) + 1 + a) 0 subs.
Proof.
  induction subs as [| s more IH]; intros acc; cbn [subscribe_plen_loop fold_right]; [lia |].
  rewrite IH. unfold lp. lia.
Qed.

Lemma unsubscribe_plen_loop_sum ts : forall acc,
  unsubscribe_plen_loop acc ts = acc + fold_right (fun t a => lp t + a) 0 ts.
Proof.
  induction ts as [| t more IH]; intros acc; cbn [unsubscribe_plen_loop fold_right]; [lia |].
  rewrite IH. unfold lp. lia.
Qed.

Lemma present_blen s : (0 <? blen s) = present s.
Proof. destruct s; [reflexivity |]. rewrite blen_cons. cbn [present]. apply N.ltb_lt. lia. Qed.
Lemma nonempty_present s : nonempty s = present s.
Proof. destruct s; reflexivity. Qed.
Lemma blen_eq0_present s : (blen s =? 0) = negb (present s).
Proof. destruct s; [reflexivity |]. rewrite blen_cons. cbn [present negb]. apply N.eqb_neq. lia. Qed.

Lemma opt_lp_present s : opt_lp s = if present s then 2 + blen s else 0.
Proof. destruct s; reflexivity. Qed.

(* ---------------------------------------------------------------- Len() = total_len *)
Lemma varint_len_go_eq x : x <= max_remaining -> varint_len_go x = varint_len x.
Proof.
  unfold max_remaining, varint_len_go, varint_len, max_varint. intros H.
  destruct (x <? 128); [reflexivity |]. destruct (x <? 16384); [reflexivity |].
  destruct (x <? 2097152); [reflexivity |].
  destruct (x <=? 268435455) eqn:E; [reflexivity | apply N.leb_gt in E; lia].
Qed.

(* the type's len() is the remaining length computed from the field sizes *)
Definition plen_go (p : packet) : N :=
  match p with
  | Connect c => connect_plen c
  | Connack _ _ => 2
  | Publish _ m _ => publish_plen m
  | Puback _ | Pubrec _ | Pubrel _ | Pubcomp _ | Unsuback _ => 2
  | Subscribe _ subs => subscribe_plen subs
  | Suback _ codes => suback_plen codes
  | Unsubscribe _ ts => unsubscribe_plen ts
  | Pingreq | Pingresp | Disconnect => 0
  end.

Lemma len_go_plen p : len_go p = header_len_go (plen_go p) + plen_go p.
Proof. destruct p; reflexivity. Qed.

Lemma plen_go_body_len p : plen_go p = body_len p.
Proof.
  destruct p as [c | | dup m id | | | | | id subs | id codes | id ts | | | |]; cbn [plen_go body_len]; try reflexivity.
  - unfold connect_plen, proto_name_len, will_len, lp. rewrite !present_blen, !opt_lp_present.
    destruct (c_version c =? 3), (c_will c), (present (c_username c)), (present (c_password c)); lia.
  - unfold publish_plen, lp. destruct (m_qos m =? 0); cbn [negb]; lia.
  - unfold subscribe_plen. rewrite subscribe_plen_loop_sum. reflexivity.
  - unfold unsubscribe_plen. rewrite unsubscribe_plen_loop_sum. reflexivity.
Qed.

Lemma wf_body_len p : wf p = true -> body_len p <= max_remaining.
Proof. unfold wf. intros H. apply andb_true_iff in H. destruct H as [H _]. apply N.leb_le. exact H. Qed.

Theorem len_go_total_len p : wf p = true -> len_go p = total_len p.
Proof.
  intros H. rewrite len_go_plen, plen_go_body_len. unfold total_len, header_len_go.
  rewrite varint_len_go_eq by (apply wf_body_len; exact H). lia.
Qed.
