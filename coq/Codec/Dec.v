(* Dec.v — model of the DECODER side of /repo/packet, statement by statement.

   Go                                   here
   packet.DetectPacket                  detect_go
   decodeHeader      (header.go)        decode_header
   readUint/readUint8 (coding.go)       read_uint
   readVarint + binary.Uvarint          read_varint, uvarint
   readLPBytes/readLPString             read_lp_bytes
   Type.New().Decode(src)               decode_go t src

   Conventions: every Go slice expression s[lo:], s[:hi], s[lo:hi] and index
   s[i] goes through a CHECKED helper (slice_from, slice_to, slice, index) that
   yields None where Go would panic; the callers turn None into DPanic/RPanic.
   (s[:hi] is checked against len, Go checks against cap: the model panics on
   at least the inputs Go panics on.)  Go `int` quantities that are produced by
   subtraction (publish payload length, subscribe/unsubscribe/suback counters)
   are Z; offsets and lengths are N.  The running offset is called `total`, as
   in the Go code.  Loop fuel exhaustion yields DPanic (excluded by C02_no_panic).

   Definitions only; the proofs are in DecProofs*.v. *)
From Coq Require Import List NArith ZArith Bool.
From Coq.Strings Require Import Byte.
From GM Require Import Codec.Packet.
Import ListNotations.
Open Scope N_scope.

(* result of Decode: packet and bytes reported consumed | error and bytes reported consumed | panic *)
Inductive dres := DOk (p : packet) (n : N) | DErr (n : N) | DPanic.

(* result of the read helpers: (value, n, nil) | (_, n, err) | panic *)
Inductive rd (A : Type) := ROk (v : A) (n : N) | RErr (n : N) | RPanic.
Arguments ROk {A} v n.
Arguments RErr {A} n.
Arguments RPanic {A}.

(* result of decodeHeader: (total, flags, rl, nil) | (total, 0, 0, err) | panic *)
Inductive hres := HOk (total flags rl : N) | HErr (n : N) | HPanic.

(* result of DetectPacket: (length, type nibble); the length is a Go int and can be
   negative after int64 wrap-around *)
Inductive detres := Detected (l : Z) (t : N) | DetPanic.

Definition b2n (b : byte) : N := Byte.to_N b.
Definition len (bs : bytes) : N := N.of_nat (length bs).

(* ---- checked slice / index expressions ---- *)
Definition slice_from (bs : bytes) (lo : N) : option bytes :=          (* bs[lo:] *)
  if lo <=? len bs then Some (skipn (N.to_nat lo) bs) else None.
Definition slice_to (bs : bytes) (hi : N) : option bytes :=            (* bs[:hi] *)
  if hi <=? len bs then Some (firstn (N.to_nat hi) bs) else None.
Definition slice (bs : bytes) (lo hi : N) : option bytes :=            (* bs[lo:hi] *)
  if (lo <=? hi) && (hi <=? len bs)
  then Some (firstn (N.to_nat (hi - lo)) (skipn (N.to_nat lo) bs)) else None.
Definition index (bs : bytes) (i : N) : option byte :=                 (* bs[i] *)
  nth_error bs (N.to_nat i).

(* ---- coding.go ---- *)

(* readUint(buf, width, t); widths 4 and 8 are never requested by a Decode and are
   treated like the `default: panic` arm *)
Definition read_uint (buf : bytes) (width : N) : rd N :=
  if len buf <? width then RErr 0 else
  match width with
  | 1 => match index buf 0 with
         | Some b => ROk (b2n b) width
         | None => RPanic
         end
  | 2 => match index buf 1, index buf 0 with                           (* binary.BigEndian.Uint16: _ = b[1] first *)
         | Some b1, Some b0 => ROk (N.lor (b2n b1) (N.shiftl (b2n b0) 8)) width
         | _, _ => RPanic
         end
  | _ => RPanic
  end.

Definition read_uint8 (buf : bytes) : rd N := read_uint buf 1.

(* encoding/binary.Uvarint: (x, i+1) | (0, 0) | (0, -(i+1)) *)
Inductive uvres := UvOk (x : N) (n : N) | UvShort | UvOverflow (n : N).

Definition u64 (x : N) : N := x mod 18446744073709551616.

Fixpoint uvarint_loop (buf : bytes) (i : N) (x : N) (s : N) : uvres :=
  match buf with
  | [] => UvShort
  | b :: rest =>
      if i =? 10 then UvOverflow (i + 1) else
      if b2n b <? 128 then
        if (i =? 9) && (1 <? b2n b) then UvOverflow (i + 1)
        else UvOk (N.lor x (u64 (N.shiftl (b2n b) s))) (i + 1)
      else uvarint_loop rest (i + 1) (N.lor x (u64 (N.shiftl (N.land (b2n b) 127) s))) (s + 7)
  end.

Definition uvarint (buf : bytes) : uvres := uvarint_loop buf 0 0 0.

(* readVarint(buf, t) *)
Definition read_varint (buf : bytes) : rd N :=
  match (if 4 <? len buf then slice_to buf 4 else Some buf) with
  | None => RPanic
  | Some buf' =>
      match uvarint buf' with
      | UvOk num n => ROk num n
      | _ => RErr 0                                                    (* n <= 0 *)
      end
  end.

(* readLPBytes(buf, safe, t); the copy made when safe = true has the same value,
   so `safe` does not appear (ownership is checked on the Go side of the tie).
   readLPString is string(readLPBytes(buf, false)). *)
Definition read_lp_bytes (buf : bytes) : rd bytes :=
  match read_uint buf 2 with
  | RPanic => RPanic
  | RErr n => RErr n
  | ROk length n =>
      match slice_from buf n with
      | None => RPanic
      | Some rest =>
          if len rest <? length then RErr n else
          match slice buf n (n + length) with
          | None => RPanic
          | Some bs => ROk bs (n + length)
          end
      end
  end.

(* ---- header.go: decodeHeader(src, t) ---- *)
Definition decode_header (src : bytes) (t : ptype) : hres :=
  if len src <? 2 then HErr 0 else
  match index src 0 with
  | None => HPanic
  | Some b0 =>
      let decoded_type := N.shiftr (b2n b0) 4 in
      let flags := N.land (b2n b0) 15 in
      let total := 1 in
      if negb (decoded_type =? type_code t) then HErr total else
      if negb (ptype_eqb t TPublish) && negb (flags =? default_flags t) then HErr total else
      match slice_from src total with
      | None => HPanic
      | Some buf =>
          match read_varint buf with
          | RPanic => HPanic
          | RErr n => HErr (total + n)
          | ROk rl n =>
              let total := total + n in
              match slice_from src total with
              | None => HPanic
              | Some rest => if len rest <? rl then HErr total else HOk total flags rl
              end
          end
      end
  end.

(* the recurring four statements
     v, n, err := read(src[total:]);  total += n;  if err != nil { return total, err } *)
Definition rd_at {A} (src : bytes) (total : N) (f : bytes -> rd A) (k : A -> N -> dres) : dres :=
  match slice_from src total with
  | None => DPanic
  | Some buf =>
      match f buf with
      | RPanic => DPanic
      | RErr n => DErr (total + n)
      | ROk v n => k v (total + n)
      end
  end.

Definition qos_successful (q : N) : bool := (q =? 0) || (q =? 1) || (q =? 2).

Definition bit (x : N) (i : N) : bool := N.land (N.shiftr x i) 1 =? 1.

(* versionNames[v] *)
Definition version_name (v : N) : bytes :=
  if v =? 3 then [x4d; x51; x49; x73; x64; x70]        (* "MQIsdp" *)
  else if v =? 4 then [x4d; x51; x54; x54]             (* "MQTT" *)
  else [].

(* ---- connect.go ---- *)
Definition decode_connect (src : bytes) : dres :=
  match decode_header src TConnect with
  | HPanic => DPanic
  | HErr n => DErr n
  | HOk total _ rl =>
      let end_ := total + rl in
      rd_at src total read_lp_bytes (fun proto_name total =>
      rd_at src total read_uint8 (fun version total =>
      if negb (version =? 4) && negb (version =? 3) then DErr total else
      if negb (bytes_eqb proto_name (version_name version)) then DErr total else
      rd_at src total read_uint8 (fun connect_flags total =>
      let username_flag := bit connect_flags 7 in
      let password_flag := bit connect_flags 6 in
      let will_flag := bit connect_flags 2 in
      let will_retain := bit connect_flags 5 in
      let will_qos := N.land (N.shiftr connect_flags 3) 3 in
      let clean := bit connect_flags 1 in
      if negb (N.land connect_flags 1 =? 0) then DErr total else
      if negb (qos_successful will_qos) then DErr total else
      if negb will_flag && (will_retain || negb (will_qos =? 0)) then DErr total else
      if negb username_flag && password_flag then DErr total else
      rd_at src total (fun buf => read_uint buf 2) (fun keep_alive total =>
      rd_at src total read_lp_bytes (fun client_id total =>
      if (len client_id =? 0) && negb clean then DErr total else
      let after_will (will : option message) (total : N) : dres :=
        let after_user (username : bytes) (total : N) : dres :=
          let after_pass (password : bytes) (total : N) : dres :=
            if total <? end_ then DErr total else
            DOk (Connect (Conn client_id keep_alive username password clean will version)) total in
          if password_flag then rd_at src total read_lp_bytes after_pass
          else after_pass [] total in
        if username_flag then rd_at src total read_lp_bytes after_user
        else after_user [] total in
      if will_flag then
        rd_at src total read_lp_bytes (fun will_topic total =>
        if len will_topic =? 0 then DErr total else
        rd_at src total read_lp_bytes (fun will_payload total =>
        after_will (Some (Msg will_topic will_payload will_qos will_retain)) total))
      else after_will None total)))))
  end.

(* ---- connack.go ---- *)
Definition decode_connack (src : bytes) : dres :=
  match decode_header src TConnack with
  | HPanic => DPanic
  | HErr n => DErr n
  | HOk total _ rl =>
      if negb (rl =? 2) then DErr total else
      rd_at src total read_uint8 (fun connack_flags total =>
      if negb (N.land connack_flags 254 =? 0) then DErr total else
      let session_present := N.land connack_flags 1 =? 1 in
      rd_at src total read_uint8 (fun rc total =>
      if negb (rc <=? 5) then DErr total else
      DOk (Connack session_present rc) total))
  end.

(* ---- publish.go ---- *)
Definition decode_publish (src : bytes) : dres :=
  match decode_header src TPublish with
  | HPanic => DPanic
  | HErr n => DErr n
  | HOk hl flags rl =>
      let total := hl in
      match slice_to src (hl + rl) with                                 (* src = src[:hl+rl] *)
      | None => DPanic
      | Some src =>
          let dup := bit flags 3 in
          let retain := N.land flags 1 =? 1 in
          let qos := N.land (N.shiftr flags 1) 3 in
          if negb (qos_successful qos) then DErr total else
          rd_at src total read_lp_bytes (fun topic total =>
          if len topic =? 0 then DErr total else
          let payload_part (id : N) (total : N) : dres :=
            let l := (Z.of_N rl - (Z.of_N total - Z.of_N hl))%Z in
            if (0 <? l)%Z then
              match slice src total (total + Z.to_N l) with
              | None => DPanic
              | Some payload => DOk (Publish dup (Msg topic payload qos retain) id) (total + len payload)
              end
            else DOk (Publish dup (Msg topic [] qos retain) id) total in
          if negb (qos =? 0) then
            if len src <? total + 2 then DErr total else
            rd_at src total (fun buf => read_uint buf 2) (fun pid total =>
            if pid =? 0 then DErr total else payload_part pid total)
          else payload_part 0 total)
      end
  end.

(* ---- subscribe.go ---- *)
Fixpoint subscribe_loop (fuel : nat) (src : bytes) (id : N) (total : N) (sl : Z)
         (subs : list (bytes * N)) : dres :=
  if (0 <? sl)%Z then
    match fuel with
    | O => DPanic
    | S fuel' =>
        rd_at src total read_lp_bytes (fun topic total =>
        if len src <? total + 1 then DErr total else
        rd_at src total (fun buf => read_uint buf 1) (fun qos total =>
        if negb (qos_successful qos) then DErr total else
        subscribe_loop fuel' src id total (sl - (2 + Z.of_N (len topic) + 1))%Z (subs ++ [(topic, qos)])))
    end
  else if N.of_nat (length subs) =? 0 then DErr total
  else DOk (Subscribe id subs) total.

Definition decode_subscribe (src : bytes) : dres :=
  match decode_header src TSubscribe with
  | HPanic => DPanic
  | HErr n => DErr n
  | HOk total _ rl =>
      match slice_to src (total + rl) with                              (* src = src[:total+rl] *)
      | None => DPanic
      | Some src =>
          if len src <? total + 2 then DErr total else
          rd_at src total (fun buf => read_uint buf 2) (fun pid total =>
          if pid =? 0 then DErr total else
          subscribe_loop (length src) src pid total (Z.of_N rl - 2)%Z [])
      end
  end.

(* ---- suback.go ---- *)
Fixpoint suback_loop (count : nat) (src : bytes) (id : N) (total : N) (codes : list N) : dres :=
  match count with
  | O => DOk (Suback id codes) total
  | S count' =>
      rd_at src total read_uint8 (fun rc total =>
      if negb (qos_successful rc) && negb (rc =? 128) then DErr total else
      suback_loop count' src id total (codes ++ [rc]))
  end.

Definition decode_suback (src : bytes) : dres :=
  match decode_header src TSuback with
  | HPanic => DPanic
  | HErr n => DErr n
  | HOk total _ rl =>
      match slice_to src (total + rl) with                              (* src = src[:total+rl] *)
      | None => DPanic
      | Some src =>
          rd_at src total (fun buf => read_uint buf 2) (fun pid total =>
          if pid =? 0 then DErr total else
          let rcl := (Z.of_N rl - 2)%Z in
          if (rcl <? 1)%Z then DErr total else
          suback_loop (Z.to_nat rcl) src pid total [])
      end
  end.

(* ---- unsubscribe.go ---- *)
Fixpoint unsubscribe_loop (fuel : nat) (src : bytes) (id : N) (total : N) (tl : Z)
         (topics : list bytes) : dres :=
  if (0 <? tl)%Z then
    match fuel with
    | O => DPanic
    | S fuel' =>
        match slice_from src total with
        | None => DPanic
        | Some buf =>
            match read_lp_bytes buf with
            | RPanic => DPanic
            | RErr n => DErr (total + n)
            | ROk topic n =>
                unsubscribe_loop fuel' src id (total + n) (tl - Z.of_N n)%Z (topics ++ [topic])
            end
        end
    end
  else if N.of_nat (length topics) =? 0 then DErr total
  else DOk (Unsubscribe id topics) total.

Definition decode_unsubscribe (src : bytes) : dres :=
  match decode_header src TUnsubscribe with
  | HPanic => DPanic
  | HErr n => DErr n
  | HOk total _ rl =>
      match slice_to src (total + rl) with                              (* src = src[:total+rl] *)
      | None => DPanic
      | Some src =>
          rd_at src total (fun buf => read_uint buf 2) (fun pid total =>
          if pid =? 0 then DErr total else
          unsubscribe_loop (length src) src pid total (Z.of_N rl - 2)%Z [])
      end
  end.

(* ---- identified.go: identifiedDecode(src, &id, t) ---- *)
Definition decode_identified (t : ptype) (mk : N -> packet) (src : bytes) : dres :=
  match decode_header src t with
  | HPanic => DPanic
  | HErr n => DErr n
  | HOk total _ rl =>
      if negb (rl =? 2) then DErr total else
      rd_at src total (fun buf => read_uint buf 2) (fun pid total =>
      if pid =? 0 then DErr total else DOk (mk pid) total)
  end.

(* ---- naked.go: nakedDecode(src, t): rl is tested before err ---- *)
Definition decode_naked (t : ptype) (p : packet) (src : bytes) : dres :=
  match decode_header src t with
  | HPanic => DPanic
  | HErr hl => DErr hl                                                  (* rl = 0 here, so `return hl, err` *)
  | HOk hl _ rl => if negb (rl =? 0) then DErr hl else DOk p hl
  end.

(* Type.New().Decode(src) *)
Definition decode_go (t : ptype) (src : bytes) : dres :=
  match t with
  | TConnect => decode_connect src
  | TConnack => decode_connack src
  | TPublish => decode_publish src
  | TPuback => decode_identified TPuback Puback src
  | TPubrec => decode_identified TPubrec Pubrec src
  | TPubrel => decode_identified TPubrel Pubrel src
  | TPubcomp => decode_identified TPubcomp Pubcomp src
  | TSubscribe => decode_subscribe src
  | TSuback => decode_suback src
  | TUnsubscribe => decode_unsubscribe src
  | TUnsuback => decode_identified TUnsuback Unsuback src
  | TPingreq => decode_naked TPingreq Pingreq src
  | TPingresp => decode_naked TPingresp Pingresp src
  | TDisconnect => decode_naked TDisconnect Disconnect src
  end.

(* ---- packet.go: DetectPacket(src) ---- *)
Definition int64_of_u64 (x : N) : Z :=                                  (* int(rl) *)
  if x <? 9223372036854775808 then Z.of_N x else (Z.of_N x - 18446744073709551616)%Z.
Definition wrap_int64 (z : Z) : Z :=                                    (* int arithmetic on a 64-bit platform *)
  ((z + 9223372036854775808) mod 18446744073709551616 - 9223372036854775808)%Z.

Definition detect_go (src : bytes) : detres :=
  if len src <? 2 then Detected 0 0 else
  match index src 0 with
  | None => DetPanic
  | Some b0 =>
      let t := N.shiftr (b2n b0) 4 in
      match slice_from src 1 with
      | None => DetPanic
      | Some buf =>
          match uvarint buf with
          | UvOk rl n => Detected (wrap_int64 (1 + Z.of_N n + int64_of_u64 rl)) t
          | _ => Detected 0 0                                           (* n <= 0 *)
          end
      end
  end.
