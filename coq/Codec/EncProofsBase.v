(* EncProofsBase.v — bytes, lists, and what each encoder helper of Enc.v does when the
   buffer is large enough (C01).  Proofs only. *)
From Coq Require Import List NArith ZArith Bool Lia ZifyN ZifyNat ZifyBool.
From Coq.Strings Require Import Byte.
From GM Require Import Codec.Packet Codec.WF Codec.Enc.
Import ListNotations.
Open Scope N_scope.
Ltac Zify.zify_post_hook ::= Z.div_mod_to_equations.

(* ---------------------------------------------------------------- bytes *)
Lemma b2n_n2b n : b2n (n2b n) = n mod 256.
Proof.
  unfold n2b, b2n. destruct (Byte.of_N (n mod 256)) as [b |] eqn:E.
  - apply Byte.to_of_N. exact E.
  - apply Byte.of_N_None_iff in E. lia.
Qed.

Lemma n2b_mod n : n2b (n mod 256) = n2b n.
Proof. unfold n2b. rewrite N.mod_mod by lia. reflexivity. Qed.

Lemma n2b_eq a b : a mod 256 = b mod 256 -> n2b a = n2b b.
Proof. unfold n2b. intros ->. reflexivity. Qed.

Lemma n2b_b2n b : n2b (b2n b) = b.
Proof.
  unfold n2b, b2n. pose proof (Byte.to_N_bounded b) as H.
  rewrite N.mod_small by lia. rewrite Byte.of_to_N. reflexivity.
Qed.

(* byte(x) | 0x80 *)
Lemma lor_128_byte b : N.lor (b2n b) 128 = b2n b mod 128 + 128.
Proof. destruct b; vm_compute; reflexivity. Qed.

Lemma lor_128 x : N.lor (x mod 256) 128 = x mod 128 + 128.
Proof.
  assert (H : x mod 256 = b2n (n2b x)) by (rewrite b2n_n2b; reflexivity).
  rewrite H, lor_128_byte, b2n_n2b. lia.
Qed.

(* ---------------------------------------------------------------- lengths, take, drop *)
Lemma blen_nil : blen [] = 0. Proof. reflexivity. Qed.
Lemma blen_cons x l : blen (x :: l) = 1 + blen l.
Proof. unfold blen. cbn [length]. lia. Qed.
Lemma blen_app a b : blen (a ++ b) = blen a + blen b.
Proof. unfold blen. rewrite app_length. lia. Qed.
Lemma blen_rev a : blen (rev a) = blen a.
Proof. unfold blen. rewrite rev_length. reflexivity. Qed.
Lemma blen_0 l : blen l = 0 -> l = [].
Proof. destruct l; [reflexivity | rewrite blen_cons; lia]. Qed.

Lemma take_0 l : take 0 l = []. Proof. reflexivity. Qed.
Lemma drop_0 l : drop 0 l = l. Proof. reflexivity. Qed.

Lemma blen_take n l : n <= blen l -> blen (take n l) = n.
Proof. unfold blen, take. intros H. rewrite firstn_length. lia. Qed.
Lemma blen_drop n l : blen (drop n l) = blen l - n.
Proof. unfold blen, drop. rewrite skipn_length. lia. Qed.
Lemma take_drop n l : take n l ++ drop n l = l.
Proof. apply firstn_skipn. Qed.

Lemma skipn_skipn_nat (a : nat) : forall (b : nat) (l : bytes), skipn a (skipn b l) = skipn (b + a) l.
Proof.
  induction b as [| b IH]; intros l; [reflexivity |].
  destruct l as [| x l]; [cbn [skipn]; destruct a; reflexivity |].
  cbn [skipn Nat.add]. apply IH.
Qed.

Lemma drop_drop a b l : drop a (drop b l) = drop (b + a) l.
Proof.
  unfold drop. rewrite skipn_skipn_nat. f_equal. lia.
Qed.

Lemma drop_all n l : blen l <= n -> drop n l = [].
Proof. unfold drop, blen. intros H. apply skipn_all2. lia. Qed.

Lemma take_all n l : blen l <= n -> take n l = l.
Proof. unfold take, blen. intros H. apply firstn_all2. lia. Qed.

Lemma take_app_exact w r : take (blen w) (w ++ r) = w.
Proof.
  unfold take, blen. rewrite Nat2N.id.
  rewrite firstn_app, Nat.sub_diag, firstn_all. cbn [firstn]. apply app_nil_r.
Qed.
Lemma drop_app_exact w r : drop (blen w) (w ++ r) = r.
Proof.
  unfold drop, blen. rewrite Nat2N.id.
  rewrite skipn_app, Nat.sub_diag, skipn_all. reflexivity.
Qed.

Lemma take_app_n n w r : n = blen w -> take n (w ++ r) = w.
Proof. intros ->. apply take_app_exact. Qed.
Lemma drop_app_n n w r : n = blen w -> drop n (w ++ r) = r.
Proof. intros ->. apply drop_app_exact. Qed.

Lemma drop_cons n x l : 1 <= n -> drop n (x :: l) = drop (n - 1) l.
Proof.
  intros H. unfold drop. replace (N.to_nat n) with (S (N.to_nat (n - 1))) by lia. reflexivity.
Qed.

Lemma drop_1 x l : drop 1 (x :: l) = l.
Proof. reflexivity. Qed.
Lemma drop_2 x y l : drop 2 (x :: y :: l) = l.
Proof. reflexivity. Qed.
Lemma take_2 x y l : take 2 (x :: y :: l) = [x; y].
Proof. reflexivity. Qed.

Lemma blen_repeat x n : blen (repeat x n) = N.of_nat n.
Proof. unfold blen. rewrite repeat_length. reflexivity. Qed.
Lemma blen_zeros n : blen (zeros n) = n.
Proof. unfold zeros. rewrite blen_repeat. lia. Qed.

(* len(buf) < n *)
Lemma len_lt_spec buf : forall n, len_lt buf n = (blen buf <? n).
Proof.
  induction buf as [| x r IH]; intros n; cbn [len_lt].
  - rewrite blen_nil. reflexivity.
  - rewrite blen_cons. destruct (n =? 0) eqn:E.
    + symmetry. apply N.ltb_ge. lia.
    + rewrite IH. apply eq_true_iff_eq. rewrite !N.ltb_lt. lia.
Qed.

Lemma len_lt_false buf n : n <= blen buf -> len_lt buf n = false.
Proof. intros H. rewrite len_lt_spec. apply N.ltb_ge. exact H. Qed.
Lemma len_lt_true buf n : blen buf < n -> len_lt buf n = true.
Proof. intros H. rewrite len_lt_spec. apply N.ltb_lt. exact H. Qed.

(* copy with a source that fits *)
Lemma copy_into_fits src : forall dst, blen src <= blen dst ->
  copy_into dst src = src ++ drop (blen src) dst.
Proof.
  induction src as [| s src IH]; intros dst H.
  - destruct dst; reflexivity.
  - destruct dst as [| d dst]; [rewrite blen_cons, blen_nil in H; lia |].
    cbn [copy_into]. rewrite !blen_cons in H. rewrite IH by lia.
    rewrite blen_cons, drop_cons by lia. cbn [app]. do 3 f_equal. lia.
Qed.

Lemma copy_count_fits src : forall dst, blen src <= blen dst -> copy_count dst src = blen src.
Proof.
  induction src as [| s src IH]; intros dst H.
  - destruct dst; reflexivity.
  - destruct dst as [| d dst]; [rewrite blen_cons, blen_nil in H; lia |].
    cbn [copy_count]. rewrite !blen_cons in H. rewrite IH by lia. rewrite blen_cons. reflexivity.
Qed.

Lemma copy_into_len src : forall dst, blen (copy_into dst src) = blen dst.
Proof.
  induction src as [| s src IH]; intros dst.
  - destruct dst; reflexivity.
  - destruct dst as [| d dst]; [reflexivity |]. cbn [copy_into]. rewrite !blen_cons, IH. reflexivity.
Qed.

Lemma copy_count_le src : forall dst, copy_count dst src <= blen dst.
Proof.
  induction src as [| s src IH]; intros dst.
  - destruct dst; cbn [copy_count]; lia.
  - destruct dst as [| d dst]; [cbn [copy_count]; lia |]. cbn [copy_count].
    rewrite blen_cons. specialize (IH dst). lia.
Qed.

(* ---------------------------------------------------------------- the writers *)
(* big-endian 16 bit, as writeUint(…, 2) leaves it *)
Definition u16 (v : N) : bytes := [n2b ((v mod 65536) / 256); n2b (v mod 65536)].
(* length prefix + bytes *)
Definition lpb (bs : bytes) : bytes := u16 (blen bs) ++ bs.

Lemma blen_u16 v : blen (u16 v) = 2. Proof. reflexivity. Qed.
Lemma blen_lpb bs : blen (lpb bs) = 2 + blen bs.
Proof. unfold lpb. rewrite blen_app, blen_u16. reflexivity. Qed.

Lemma write_u8_fits buf v : 1 <= blen buf -> write_u8 buf v = WOk 1 (n2b v :: drop 1 buf).
Proof.
  intros H. unfold write_u8. rewrite len_lt_false by exact H.
  destruct buf as [| x r]; [rewrite blen_nil in H; lia | reflexivity].
Qed.
Lemma write_u8_short buf v : blen buf < 1 -> write_u8 buf v = WErr 0.
Proof. intros H. unfold write_u8. rewrite len_lt_true by exact H. reflexivity. Qed.

Lemma write_u16_fits buf v : 2 <= blen buf -> write_u16 buf v = WOk 2 (u16 v ++ drop 2 buf).
Proof.
  intros H. unfold write_u16. rewrite len_lt_false by exact H.
  destruct buf as [| x [| y r]]; rewrite ?blen_cons, ?blen_nil in H; try lia. reflexivity.
Qed.
Lemma write_u16_short buf v : blen buf < 2 -> write_u16 buf v = WErr 0.
Proof. intros H. unfold write_u16. rewrite len_lt_true by exact H. reflexivity. Qed.

Lemma write_lp_fits buf bs : blen bs <= 65535 -> 2 + blen bs <= blen buf ->
  write_lp_bytes buf bs = WOk (2 + blen bs) (lpb bs ++ drop (2 + blen bs) buf).
Proof.
  intros Hs Hc. unfold write_lp_bytes.
  destruct (65535 <? blen bs) eqn:E; [apply N.ltb_lt in E; lia |].
  rewrite write_u16_fits by lia.
  assert (Hl : blen (u16 (blen bs) ++ drop 2 buf) = blen buf).
  { rewrite blen_app, blen_u16, blen_drop. lia. }
  rewrite !len_lt_false by lia.
  rewrite (drop_app_n 2) by reflexivity. rewrite (take_app_n 2) by reflexivity.
  rewrite copy_count_fits by (rewrite blen_drop; lia).
  rewrite copy_into_fits by (rewrite blen_drop; lia).
  rewrite drop_drop. unfold lpb. rewrite <- app_assoc. reflexivity.
Qed.

Lemma write_lp_too_long buf bs : 65535 < blen bs -> write_lp_bytes buf bs = WErr 0.
Proof.
  intros H. unfold write_lp_bytes. apply N.ltb_lt in H. rewrite H. reflexivity.
Qed.

(* whatever the buffer: never a panic, and a success returns the buffer at its old length
   with a count inside it *)
Lemma write_lp_safe buf bs :
  match write_lp_bytes buf bs with
  | WOk n b => n <= blen b /\ blen b = blen buf
  | WErr _ => True
  | WPanic => False
  end.
Proof.
  unfold write_lp_bytes. destruct (65535 <? blen bs); [exact I |].
  destruct (N.lt_ge_cases (blen buf) 2) as [H | H].
  - rewrite write_u16_short by exact H. exact I.
  - rewrite write_u16_fits by exact H.
    assert (Hl : blen (u16 (blen bs) ++ drop 2 buf) = blen buf).
    { rewrite blen_app, blen_u16, blen_drop. lia. }
    destruct (len_lt _ (blen bs)); [exact I |].
    rewrite (len_lt_false _ 2) by lia.
    rewrite (drop_app_n 2) by reflexivity. rewrite (take_app_n 2) by reflexivity.
    rewrite blen_app, copy_into_len, blen_drop, blen_u16.
    pose proof (copy_count_le bs (drop 2 buf)) as Hc. rewrite blen_drop in Hc. lia.
Qed.

(* ---------------------------------------------------------------- varint *)
(* the bytes PutUvarint writes for a value below 128^4, per size class *)
Definition vb (x : N) : bytes :=
  if x <? 128 then [n2b x]
  else if x <? 16384 then [n2b (x mod 128 + 128); n2b (x / 128)]
  else if x <? 2097152 then [n2b (x mod 128 + 128); n2b ((x / 128) mod 128 + 128); n2b (x / 16384)]
  else [n2b (x mod 128 + 128); n2b ((x / 128) mod 128 + 128); n2b ((x / 16384) mod 128 + 128);
        n2b (x / 2097152)].

Lemma blen_vb x : x <= max_varint -> blen (vb x) = varint_len_go x.
Proof.
  unfold vb, varint_len_go, max_varint. intros H.
  destruct (x <? 128); [reflexivity |]. destruct (x <? 16384); [reflexivity |].
  destruct (x <? 2097152); [reflexivity |].
  destruct (x <=? 268435455) eqn:E; [reflexivity | apply N.leb_gt in E; lia].
Qed.

Lemma put_uvarint_small x b r : x < 128 -> put_uvarint (b :: r) x = Some (1, n2b x :: r).
Proof. intros H. cbn [put_uvarint]. apply N.ltb_lt in H. rewrite H. reflexivity. Qed.

Lemma put_uvarint_big x b r : 128 <= x ->
  put_uvarint (b :: r) x =
  match put_uvarint r (x / 128) with
  | Some (n, r') => Some (n + 1, n2b (x mod 128 + 128) :: r')
  | None => None
  end.
Proof.
  intros H. cbn [put_uvarint]. apply N.ltb_ge in H. rewrite H. rewrite lor_128. reflexivity.
Qed.

Lemma put_uvarint_fits x buf : x <= max_varint -> varint_len_go x <= blen buf ->
  put_uvarint buf x = Some (varint_len_go x, vb x ++ drop (varint_len_go x) buf).
Proof.
  unfold vb, varint_len_go, max_varint. intros Hx Hc.
  destruct (x <? 128) eqn:E1.
  { apply N.ltb_lt in E1. destruct buf as [| b0 r]; [rewrite blen_nil in Hc; lia |].
    rewrite put_uvarint_small by lia. reflexivity. }
  apply N.ltb_ge in E1.
  destruct (x <? 16384) eqn:E2.
  { apply N.ltb_lt in E2.
    destruct buf as [| b0 [| b1 r]]; rewrite ?blen_cons, ?blen_nil in Hc; try lia.
    rewrite put_uvarint_big by lia. rewrite put_uvarint_small by lia. reflexivity. }
  apply N.ltb_ge in E2.
  destruct (x <? 2097152) eqn:E3.
  { apply N.ltb_lt in E3.
    destruct buf as [| b0 [| b1 [| b2 r]]]; rewrite ?blen_cons, ?blen_nil in Hc; try lia.
    rewrite put_uvarint_big by lia. rewrite put_uvarint_big by lia.
    rewrite put_uvarint_small by lia.
    replace (x / 128 / 128) with (x / 16384) by lia. reflexivity. }
  apply N.ltb_ge in E3.
  destruct (x <=? 268435455) eqn:E4; [| apply N.leb_gt in E4; lia].
  destruct buf as [| b0 [| b1 [| b2 [| b3 r]]]]; rewrite ?blen_cons, ?blen_nil in Hc; try lia.
  rewrite put_uvarint_big by lia. rewrite put_uvarint_big by lia. rewrite put_uvarint_big by lia.
  rewrite put_uvarint_small by lia.
  replace (x / 128 / 128) with (x / 16384) by lia.
  replace (x / 16384 / 128) with (x / 2097152) by lia. reflexivity.
Qed.

Lemma write_varint_fits x buf : x <= max_varint -> varint_len_go x <= blen buf ->
  write_varint buf x = WOk (varint_len_go x) (vb x ++ drop (varint_len_go x) buf).
Proof.
  intros Hx Hc. unfold write_varint.
  destruct (max_varint <? x) eqn:E; [apply N.ltb_lt in E; lia |].
  rewrite len_lt_false by exact Hc. rewrite put_uvarint_fits by assumption. reflexivity.
Qed.

Lemma write_varint_too_big x buf : max_varint < x -> write_varint buf x = WErr 0.
Proof. intros H. unfold write_varint. apply N.ltb_lt in H. rewrite H. reflexivity. Qed.

Lemma write_varint_short x buf : blen buf < varint_len_go x -> write_varint buf x = WErr 0.
Proof.
  intros H. unfold write_varint. destruct (max_varint <? x); [reflexivity |].
  rewrite len_lt_true by exact H. reflexivity.
Qed.

Lemma varint_len_go_pos x : x <= max_varint -> 1 <= varint_len_go x <= 4.
Proof.
  unfold varint_len_go, max_varint. intros H.
  destruct (x <? 128); [lia |]. destruct (x <? 16384); [lia |]. destruct (x <? 2097152); [lia |].
  destruct (x <=? 268435455) eqn:E; [lia | apply N.leb_gt in E; lia].
Qed.

(* ---------------------------------------------------------------- the cursor *)
(* the cursor after w was written over the first k bytes of the rest *)
Definition push (c : cur) (w : bytes) (k : N) : cur :=
  Cur (rev_append w (c_rdone c)) (drop k (c_rest c)).

Lemma c_done_eq c : c_done c = rev (c_rdone c).
Proof. unfold c_done. rewrite rev_append_rev, app_nil_r. reflexivity. Qed.

Lemma done_push c w k : c_done (push c w k) = c_done c ++ w.
Proof.
  rewrite !c_done_eq. unfold push. cbn [c_rdone]. rewrite rev_append_rev, rev_app_distr, rev_involutive.
  reflexivity.
Qed.
Lemma rest_push c w k : c_rest (push c w k) = drop k (c_rest c).
Proof. reflexivity. Qed.
Lemma total_push c w k : total (push c w k) = total c + blen w.
Proof.
  unfold total, push. cbn [c_rdone]. rewrite rev_append_rev, blen_app, blen_rev. lia.
Qed.
Lemma total_done c : total c = blen (c_done c).
Proof. rewrite c_done_eq, blen_rev. reflexivity. Qed.

Lemma advance_fits c n w r : n = blen w ->
  advance c (WOk n (w ++ r)) = SOk (Cur (rev_append w (c_rdone c)) r).
Proof.
  intros ->. unfold advance. rewrite len_lt_false by (rewrite blen_app; lia).
  rewrite take_app_exact, drop_app_exact. reflexivity.
Qed.

Lemma put_u8_fits c v : 1 <= blen (c_rest c) -> put_u8 c v = SOk (push c [n2b v] 1).
Proof.
  intros H. unfold put_u8. rewrite write_u8_fits by exact H.
  change (n2b v :: drop 1 (c_rest c)) with ([n2b v] ++ drop 1 (c_rest c)).
  rewrite advance_fits by reflexivity. reflexivity.
Qed.

Lemma put_u16_fits c v : 2 <= blen (c_rest c) -> put_u16 c v = SOk (push c (u16 v) 2).
Proof.
  intros H. unfold put_u16. rewrite write_u16_fits by exact H.
  rewrite advance_fits by reflexivity. reflexivity.
Qed.

Lemma put_lp_fits c bs : 2 + blen bs <= blen (c_rest c) ->
  put_lp c bs = if blen bs <=? 65535 then SOk (push c (lpb bs) (2 + blen bs)) else SErr (total c).
Proof.
  intros H. unfold put_lp. destruct (blen bs <=? 65535) eqn:E.
  - apply N.leb_le in E. rewrite write_lp_fits by assumption.
    rewrite advance_fits by (rewrite blen_lpb; reflexivity). reflexivity.
  - apply N.leb_gt in E. rewrite write_lp_too_long by exact E. unfold advance. f_equal. lia.
Qed.

(* without any assumption on the capacity: no panic *)
Lemma put_lp_safe c bs : put_lp c bs <> SPanic.
Proof.
  unfold put_lp. pose proof (write_lp_safe (c_rest c) bs) as H.
  destruct (write_lp_bytes (c_rest c) bs) as [n b | n |]; cbn [advance].
  - destruct H as [H1 H2]. rewrite len_lt_false by exact H1. discriminate.
  - discriminate.
  - contradiction.
Qed.

(* ---------------------------------------------------------------- encodeHeader *)
Definition first_byte (t : ptype) (flags : N) : byte :=
  n2b (N.lor (N.lor ((type_code t * 16) mod 256) (N.land (default_flags t) 15)) flags).

Lemma encode_header_short dst flags rl tl t : blen dst < tl -> encode_header dst flags rl tl t = SErr 0.
Proof.
  intros H. unfold encode_header. rewrite (len_lt_true dst tl) by exact H.
  rewrite orb_true_r. reflexivity.
Qed.

Lemma encode_header_fits dst flags rl tl t :
  rl <= max_varint -> header_len_go rl <= blen dst -> tl <= blen dst ->
  encode_header dst flags rl tl t =
  SOk (Cur (rev (first_byte t flags :: vb rl)) (drop (header_len_go rl) dst)).
Proof.
  intros Hr Hh Ht. unfold encode_header.
  rewrite !len_lt_false by assumption. cbn [orb].
  unfold header_len_go in *. pose proof (varint_len_go_pos rl Hr) as Hp.
  destruct dst as [| b0 d1]; [rewrite blen_nil in Hh; lia |].
  rewrite blen_cons in Hh.
  rewrite write_varint_fits by (assumption || lia).
  rewrite len_lt_false by (rewrite blen_app, blen_vb by exact Hr; lia).
  rewrite take_app_n by (symmetry; apply blen_vb; exact Hr).
  rewrite drop_app_n by (symmetry; apply blen_vb; exact Hr).
  rewrite drop_cons by lia. replace (1 + varint_len_go rl - 1) with (varint_len_go rl) by lia.
  rewrite rev_append_rev. cbn [rev]. reflexivity.
Qed.

Lemma encode_header_never_panics dst flags rl tl t : encode_header dst flags rl tl t <> SPanic.
Proof.
  unfold encode_header.
  destruct (len_lt dst (header_len_go rl)) eqn:E1; [discriminate |].
  destruct (len_lt dst tl) eqn:E2; [discriminate |]. cbn [orb].
  rewrite len_lt_spec in E1. apply N.ltb_ge in E1. unfold header_len_go in E1.
  destruct dst as [| b0 d1]; [rewrite blen_nil in E1; lia |]. rewrite blen_cons in E1.
  destruct (N.le_gt_cases rl max_varint) as [Hr | Hr].
  - rewrite write_varint_fits by (assumption || lia).
    rewrite len_lt_false by (rewrite blen_app, blen_vb by exact Hr; lia). discriminate.
  - rewrite write_varint_too_big by exact Hr. discriminate.
Qed.

Lemma encode_header_big dst flags rl tl t :
  max_varint < rl -> exists n, encode_header dst flags rl tl t = SErr n.
Proof.
  intros Hr. unfold encode_header.
  destruct (len_lt dst (header_len_go rl)) eqn:E1; [eexists; reflexivity |].
  destruct (len_lt dst tl) eqn:E2; [eexists; reflexivity |]. cbn [orb].
  rewrite len_lt_spec in E1. apply N.ltb_ge in E1. unfold header_len_go in E1.
  destruct dst as [| b0 d1]; [rewrite blen_nil in E1; lia |].
  rewrite write_varint_too_big by exact Hr. eexists; reflexivity.
Qed.
