(* EncProofsTop.v — the C01 theorems about Encode / Encoder.Write in the form Props/C01.v states them. *)
From Coq Require Import List NArith ZArith Bool Lia ZifyN ZifyNat ZifyBool.
From Coq.Strings Require Import Byte.
From GM Require Import Codec.Packet Codec.WF Codec.Enc Codec.WireSpec Codec.EncProofsBase Codec.EncProofsSpec
  Codec.EncProofsTypes Codec.EncProofs.
Import ListNotations.
Open Scope N_scope.

Lemma len_go_wire_spec p : wf p = true -> blen (wire_spec p) = len_go p.
Proof. intros W. rewrite blen_wire_spec, len_go_total_len by exact W. reflexivity. Qed.

(* a well-formed packet into a buffer of at least Len() bytes with ANY prior content:
   Len() bytes written, they are wire_spec p, the rest of the buffer is untouched *)
Theorem encode_dirty p dst : wf p = true -> len_go p <= blen dst ->
  encode_into dst p = BOk (len_go p) (wire_spec p ++ drop (len_go p) dst).
Proof. intros W H. exact (encode_wf dst p W H). Qed.

Theorem encode_layout p : wf p = true -> encode_go (len_go p) p = EOk (len_go p) (wire_spec p).
Proof.
  intros W. unfold encode_go.
  rewrite encode_dirty by (exact W || (rewrite blen_zeros; lia)).
  cbn [observe]. f_equal. rewrite drop_all by (rewrite blen_zeros; lia). rewrite app_nil_r.
  apply take_all. rewrite len_go_wire_spec by exact W. lia.
Qed.

Theorem encode_total p : wf p = true -> exists bs, encode_go (len_go p) p = EOk (len_go p) bs.
Proof. intros W. exists (wire_spec p). apply encode_layout. exact W. Qed.

Theorem encode_short_buffer p cap : cap < len_go p -> exists n, encode_go cap p = EErr n.
Proof.
  intros H. unfold encode_go.
  destruct (encode_short (zeros cap) p) as [n E]; [rewrite blen_zeros; exact H |].
  exists n. rewrite E. reflexivity.
Qed.

Theorem encode_len_is_written p cap n bs :
  encode_go cap p = EOk n bs -> n = len_go p /\ blen bs = len_go p.
Proof.
  unfold encode_go. intros E.
  destruct (N.lt_ge_cases cap (len_go p)) as [H | H].
  - destruct (encode_short (zeros cap) p) as [m Em]; [rewrite blen_zeros; exact H |].
    rewrite Em in E. discriminate E.
  - pose proof (encode_fits (zeros cap) p) as F. rewrite blen_zeros in F. specialize (F H).
    destruct (encode_into (zeros cap) p) as [m d | m |]; cbn [observe] in E; try discriminate E.
    cbn [fits_ok] in F. destruct F as [F1 F2]. injection E as E1 E2. subst n bs m.
    rewrite blen_zeros in F2. split; [reflexivity |]. apply blen_take. lia.
Qed.

Theorem encode_no_panic p cap : encode_go cap p <> EPanic.
Proof.
  unfold encode_go.
  destruct (N.lt_ge_cases cap (len_go p)) as [H | H].
  - destruct (encode_short (zeros cap) p) as [m Em]; [rewrite blen_zeros; exact H |].
    rewrite Em. discriminate.
  - pose proof (encode_fits (zeros cap) p) as F. rewrite blen_zeros in F. specialize (F H).
    destruct (encode_into (zeros cap) p) as [m d | m |]; cbn [observe]; [discriminate | discriminate | contradiction].
Qed.

Lemma blen_pool_buf prior n : blen (pool_buf prior n) = n.
Proof. unfold pool_buf. apply blen_take. rewrite blen_app, blen_zeros. lia. Qed.

(* Encoder.Write: whatever the pooled buffer held, exactly wire_spec p goes to the writer *)
Theorem encoder_write_exact p prior : wf p = true -> encoder_write prior p = XSent (wire_spec p).
Proof.
  intros W. unfold encoder_write. cbv zeta.
  rewrite encode_dirty by (exact W || (rewrite blen_pool_buf; lia)).
  rewrite drop_all by (rewrite blen_pool_buf; lia). rewrite app_nil_r. reflexivity.
Qed.
