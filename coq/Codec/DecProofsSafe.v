(* DecProofsSafe.v — C02 no_panic and consumed: on every byte list, every Decode
   returns Ok/Err with a count within the buffer, and DetectPacket returns.
   Structure: each checked slice is guarded by the length test that precedes it. *)
From Coq Require Import List NArith ZArith Bool Lia ZifyN ZifyNat ZifyBool.
From Coq.Strings Require Import Byte.
From GM Require Import Codec.Packet Codec.Dec Codec.RefDecode Codec.DecProofsBase.
Import ListNotations.
Open Scope N_scope.
Ltac Zify.zify_post_hook ::= Z.div_mod_to_equations.

(* no panic, and the reported count is at most L *)
Definition safe (L : N) (r : dres) : Prop :=
  match r with DOk _ n => n <= L | DErr n => n <= L | DPanic => False end.

(* a read helper never panics and never reports more than it was given *)
Definition reader_ok {A} (f : bytes -> rd A) : Prop :=
  forall buf, match f buf with ROk _ n => n <= len buf | RErr n => n <= len buf | RPanic => False end.

Lemma reader_uint8 : reader_ok read_uint8.
Proof. intros buf. rewrite read_uint8_eq. destruct buf; rewrite ?len_cons; lia. Qed.

Lemma reader_uint1 : reader_ok (fun buf => read_uint buf 1).
Proof. exact reader_uint8. Qed.

Lemma reader_uint2 : reader_ok (fun buf => read_uint buf 2).
Proof. intros buf. rewrite read_uint_2. destruct buf as [| b0 [| b1 r]]; rewrite ?len_cons; lia. Qed.

Lemma reader_lp : reader_ok read_lp_bytes.
Proof.
  intros buf. rewrite read_lp_bytes_eq. destruct buf as [| b0 [| b1 r]]; rewrite ?len_cons; try lia.
  cbv zeta. destruct (len r <? 256 * b2n b0 + b2n b1) eqn:E; lia.
Qed.

Lemma uint1_n buf v n : read_uint buf 1 = ROk v n -> n = 1.
Proof. rewrite read_uint_1. destruct buf; [discriminate |]. intros H; injection H as _ <-. reflexivity. Qed.

Lemma uint2_n buf v n : read_uint buf 2 = ROk v n -> n = 2.
Proof.
  rewrite read_uint_2. destruct buf as [| b0 [| b1 r]]; try discriminate.
  intros H; injection H as _ <-. reflexivity.
Qed.

Lemma lp_n buf v n : read_lp_bytes buf = ROk v n -> n = 2 + len v /\ n <= len buf.
Proof.
  rewrite read_lp_bytes_eq. destruct buf as [| b0 [| b1 r]]; try discriminate.
  cbv zeta. destruct (len r <? 256 * b2n b0 + b2n b1) eqn:E; [discriminate |].
  intros H. apply ROk_inj in H. destruct H as [<- <-]. rewrite len_firstn, !len_cons. lia.
Qed.

Lemma rd_at_safe {A} L src total (f : bytes -> rd A) k :
  total <= len src -> len src <= L -> reader_ok f ->
  (forall v n, f (skipn (N.to_nat total) src) = ROk v n -> total + n <= len src -> safe L (k v (total + n))) ->
  safe L (rd_at src total f k).
Proof.
  intros Ht HL Hf Hk. unfold rd_at. rewrite slice_from_ok by assumption.
  pose proof (Hf (skipn (N.to_nat total) src)) as Hb. rewrite len_skipn in Hb.
  destruct (f (skipn (N.to_nat total) src)) as [v n | n |] eqn:E.
  - apply Hk; [reflexivity | lia].
  - cbn [safe]. lia.
  - contradiction.
Qed.

Lemma safe_mono L L' r : L <= L' -> safe L r -> safe L' r.
Proof. destruct r; cbn [safe]; lia. Qed.

Lemma slice_some bs lo hi p : slice bs lo hi = Some p -> len p = hi - lo /\ hi <= len bs.
Proof.
  unfold slice. destruct (lo <=? hi) eqn:E1; [| discriminate].
  destruct (hi <=? len bs) eqn:E2; [| discriminate].
  intros H; injection H as <-. rewrite len_firstn, len_skipn. lia.
Qed.

Ltac reader :=
  first [ exact reader_uint8 | exact reader_uint1 | exact reader_uint2 | exact reader_lp ].

Ltac safe_step :=
  match goal with
  | |- safe _ (DErr _) => cbn [safe]; lia
  | |- safe _ (DOk _ _) => cbn [safe]; lia
  | |- safe _ (if ?b then _ else _) => destruct b eqn:?
  | |- safe _ (rd_at _ _ _ _) =>
      apply rd_at_safe; [lia | lia | reader | let v := fresh "v" in let n := fresh "n" in
                                              let Hr := fresh "Hr" in let Hn := fresh "Hn" in intros v n Hr Hn]
  end.
Ltac safe_tac := cbv zeta; repeat (safe_step; cbv zeta).

(* ---------- the header step, shared by all types ---------- *)
Lemma header_cases src t (P : hres -> Prop) :
  (forall n, decode_header src t = HErr n -> n <= len src -> P (HErr n)) ->
  (forall total flags rl, decode_header src t = HOk total flags rl ->
     2 <= total -> total + rl <= len src -> P (HOk total flags rl)) ->
  P (decode_header src t).
Proof.
  intros He Ho. destruct (decode_header src t) as [total flags rl | n |] eqn:E.
  - destruct (header_ok_inv _ _ _ _ _ E) as (b0 & r & k & _ & _ & _ & _ & _ & Ht & Hk1 & _ & Hl & _).
    apply Ho; [reflexivity | lia | lia].
  - apply He; [reflexivity |]. apply (header_err_bound _ _ _ E).
  - exfalso. apply (header_no_panic _ _ E).
Qed.

(* ---------- per type ---------- *)
Lemma connect_safe src : safe (len src) (decode_connect src).
Proof.
  unfold decode_connect. apply (header_cases src TConnect); [intros n _ Hn; cbn [safe]; lia |].
  intros total flags rl _ Ht Hl. safe_tac.
Qed.

Lemma connack_safe src : safe (len src) (decode_connack src).
Proof.
  unfold decode_connack. apply (header_cases src TConnack); [intros n _ Hn; cbn [safe]; lia |].
  intros total flags rl _ Ht Hl. safe_tac.
Qed.

Lemma identified_safe t mk src : safe (len src) (decode_identified t mk src).
Proof.
  unfold decode_identified. apply (header_cases src t); [intros n _ Hn; cbn [safe]; lia |].
  intros total flags rl _ Ht Hl. safe_tac.
Qed.

Lemma naked_safe t p src : safe (len src) (decode_naked t p src).
Proof.
  unfold decode_naked. apply (header_cases src t); [intros n _ Hn; cbn [safe]; lia |].
  intros total flags rl _ Ht Hl. safe_tac.
Qed.

Lemma publish_safe src : safe (len src) (decode_publish src).
Proof.
  unfold decode_publish. apply (header_cases src TPublish); [intros n _ Hn; cbn [safe]; lia |].
  intros hl flags rl _ Ht Hl.
  rewrite slice_to_ok by lia.
  set (src' := firstn (N.to_nat (hl + rl)) src).
  assert (Hs : len src' = hl + rl) by (unfold src'; rewrite len_firstn; lia).
  apply (safe_mono (len src')); [lia |].
  assert (Hpay : forall dup topic qos retain id total, hl <= total -> total <= len src' ->
     safe (len src')
       (let l := (Z.of_N rl - (Z.of_N total - Z.of_N hl))%Z in
        if (0 <? l)%Z
        then match slice src' total (total + Z.to_N l) with
             | Some payload => DOk (Publish dup (Msg topic payload qos retain) id) (total + len payload)
             | None => DPanic
             end
        else DOk (Publish dup (Msg topic [] qos retain) id) total)).
  { intros dup topic qos retain id total H1 H2. cbv zeta.
    destruct (0 <? Z.of_N rl - (Z.of_N total - Z.of_N hl))%Z eqn:El; [| cbn [safe]; lia].
    destruct (slice src' total (total + Z.to_N (Z.of_N rl - (Z.of_N total - Z.of_N hl)))) as [p |] eqn:Es.
    - apply slice_some in Es. cbn [safe]. lia.
    - unfold slice in Es.
      destruct (total <=? total + Z.to_N (Z.of_N rl - (Z.of_N total - Z.of_N hl))) eqn:E1; [| lia].
      destruct (total + Z.to_N (Z.of_N rl - (Z.of_N total - Z.of_N hl)) <=? len src') eqn:E2; [discriminate | lia]. }
  cbv zeta.
  destruct (negb (qos_successful (N.land (N.shiftr flags 1) 3))); [cbn [safe]; lia |].
  apply rd_at_safe; [lia | lia | reader |]. intros topic n Hr Hn.
  destruct (len topic =? 0); [cbn [safe]; lia |].
  destruct (negb (N.land (N.shiftr flags 1) 3 =? 0)).
  - destruct (len src' <? hl + n + 2); [cbn [safe]; lia |].
    apply rd_at_safe; [lia | lia | reader |]. intros pid n' Hr' Hn'.
    destruct (pid =? 0); [cbn [safe]; lia |].
    apply (Hpay (bit flags 3) topic (N.land (N.shiftr flags 1) 3) (N.land flags 1 =? 1) pid); lia.
  - apply (Hpay (bit flags 3) topic (N.land (N.shiftr flags 1) 3) (N.land flags 1 =? 1) 0); lia.
Qed.

Lemma subscribe_loop_safe src id : forall fuel total sl subs,
  total <= len src -> len src < total + N.of_nat fuel ->
  safe (len src) (subscribe_loop fuel src id total sl subs).
Proof.
  induction fuel as [| fuel IH]; intros total sl subs Ht Hf; cbn [subscribe_loop].
  - destruct (0 <? sl)%Z; [lia |]. safe_tac.
  - destruct (0 <? sl)%Z; [| safe_tac].
    apply rd_at_safe; [lia | lia | reader |]. intros topic n Hr Hn.
    apply lp_n in Hr. destruct Hr as [Hr _].
    destruct (len src <? total + n + 1); [cbn [safe]; lia |].
    apply rd_at_safe; [lia | lia | reader |]. intros q n' Hr' Hn'.
    apply uint1_n in Hr'. subst n'.
    destruct (negb (qos_successful q)); [cbn [safe]; lia |].
    apply IH; lia.
Qed.

Lemma subscribe_safe src : safe (len src) (decode_subscribe src).
Proof.
  unfold decode_subscribe. apply (header_cases src TSubscribe); [intros n _ Hn; cbn [safe]; lia |].
  intros hl flags rl _ Ht Hl.
  rewrite slice_to_ok by lia.
  set (src' := firstn (N.to_nat (hl + rl)) src).
  assert (Hs : len src' = hl + rl) by (unfold src'; rewrite len_firstn; lia).
  apply (safe_mono (len src')); [lia |].
  destruct (len src' <? hl + 2); [cbn [safe]; lia |].
  apply rd_at_safe; [lia | lia | reader |]. intros pid n Hr Hn.
  apply uint2_n in Hr. subst n.
  destruct (pid =? 0); [cbn [safe]; lia |].
  apply subscribe_loop_safe; [lia |]. unfold len. lia.
Qed.

Lemma suback_loop_safe src id : forall count total codes,
  total <= len src -> safe (len src) (suback_loop count src id total codes).
Proof.
  induction count as [| count IH]; intros total codes Ht; cbn [suback_loop].
  - cbn [safe]. lia.
  - apply rd_at_safe; [lia | lia | reader |]. intros rc n Hr Hn.
    destruct (negb (qos_successful rc) && negb (rc =? 128)); [cbn [safe]; lia |].
    apply IH. lia.
Qed.

Lemma suback_safe src : safe (len src) (decode_suback src).
Proof.
  unfold decode_suback. apply (header_cases src TSuback); [intros n _ Hn; cbn [safe]; lia |].
  intros hl flags rl _ Ht Hl.
  rewrite slice_to_ok by lia.
  set (src' := firstn (N.to_nat (hl + rl)) src).
  assert (Hs : len src' = hl + rl) by (unfold src'; rewrite len_firstn; lia).
  apply (safe_mono (len src')); [lia |].
  apply rd_at_safe; [lia | lia | reader |]. intros pid n Hr Hn.
  destruct (pid =? 0); [cbn [safe]; lia |]. cbv zeta.
  destruct (Z.of_N rl - 2 <? 1)%Z; [cbn [safe]; lia |].
  apply suback_loop_safe. lia.
Qed.

Lemma unsubscribe_loop_safe src id : forall fuel total tl topics,
  total <= len src -> len src < total + N.of_nat fuel ->
  safe (len src) (unsubscribe_loop fuel src id total tl topics).
Proof.
  induction fuel as [| fuel IH]; intros total tl topics Ht Hf; cbn [unsubscribe_loop].
  - destruct (0 <? tl)%Z; [lia |]. safe_tac.
  - destruct (0 <? tl)%Z; [| safe_tac].
    rewrite slice_from_ok by lia.
    pose proof (reader_lp (skipn (N.to_nat total) src)) as Hb. rewrite len_skipn in Hb.
    destruct (read_lp_bytes (skipn (N.to_nat total) src)) as [topic n | n |] eqn:E.
    + apply lp_n in E. destruct E as [E _]. apply IH; lia.
    + cbn [safe]. lia.
    + contradiction.
Qed.

Lemma unsubscribe_safe src : safe (len src) (decode_unsubscribe src).
Proof.
  unfold decode_unsubscribe. apply (header_cases src TUnsubscribe); [intros n _ Hn; cbn [safe]; lia |].
  intros hl flags rl _ Ht Hl.
  rewrite slice_to_ok by lia.
  set (src' := firstn (N.to_nat (hl + rl)) src).
  assert (Hs : len src' = hl + rl) by (unfold src'; rewrite len_firstn; lia).
  apply (safe_mono (len src')); [lia |].
  apply rd_at_safe; [lia | lia | reader |]. intros pid n Hr Hn.
  apply uint2_n in Hr. subst n.
  destruct (pid =? 0); [cbn [safe]; lia |].
  apply unsubscribe_loop_safe; [lia |]. unfold len. lia.
Qed.

Theorem decode_safe t src : safe (len src) (decode_go t src).
Proof.
  destruct t; cbn [decode_go];
    first [ apply connect_safe | apply connack_safe | apply publish_safe | apply identified_safe
          | apply subscribe_safe | apply suback_safe | apply unsubscribe_safe | apply naked_safe ].
Qed.

Theorem detect_no_panic src : detect_go src <> DetPanic.
Proof.
  unfold detect_go. destruct src as [| b0 [| b1 r]]; try discriminate.
  assert (Hl : len (b0 :: b1 :: r) <? 2 = false) by (rewrite !len_cons; lia).
  rewrite Hl. change (index (b0 :: b1 :: r) 0) with (Some b0). cbv iota beta zeta.
  rewrite slice_from_ok by (rewrite !len_cons; lia).
  destruct (uvarint _); discriminate.
Qed.

Theorem decode_no_panic t src : decode_go t src <> DPanic.
Proof. pose proof (decode_safe t src) as H. intros E. rewrite E in H. exact H. Qed.

Theorem decode_consumed t src r n :
  decode_go t src = DOk r n \/ decode_go t src = DErr n -> n <= len src.
Proof.
  pose proof (decode_safe t src) as H. intros [E | E]; rewrite E in H; exact H.
Qed.
