(* RefDecode.v — the reference decoder C02 is stated against.

   Written from MQTT 3.1.1 sections 2 and 3, the other way round from the Go code:
     1. read the fixed header (2.2): type nibble, flag nibble, remaining length (2.2.3);
     2. CUT the buffer to the header-declared extent (the packet must be wholly there);
     3. parse the body with the grammar of the packet type (3.1 ... 3.14), written with
        a few parser combinators over `list byte`;
     4. demand that the body is consumed exactly, and build the packet.
   No offsets, no buffers, no shared code with Dec.v.

   The leniencies of the library that define the oracle (DESIGN.md, C02), each written in
   explicitly at the line marked with its label:
     L1 strings are byte strings (no UTF-8 validation, U+0000 allowed);
     L2 topic names / filters are not checked for wildcard syntax;
     L3 non-minimal remaining-length encodings of at most 4 bytes are accepted;
     L4 DUP is accepted on QoS 0 publishes;
     L5 protocol "MQIsdp"/3 is accepted besides "MQTT"/4;
     L6 client id length/charset unrestricted; session-present allowed with a non-zero
        connack code; suback code 0x80 accepted;
     L7 concerns DetectPacket only (see C02_detect_agrees).
   Everything else is strict: reserved flags, QoS 3, packet id 0, a remaining length that
   does not match the body, will/auth flag consistency, empty lists, empty publish/will topic. *)
From Coq Require Import List NArith Bool.
From Coq.Strings Require Import Byte.
From GM Require Import Codec.Packet.
Import ListNotations.
Open Scope N_scope.

(* ---- parser combinators ---- *)
Definition parser (A : Type) := bytes -> option (A * bytes).

Definition ret {A} (a : A) : parser A := fun s => Some (a, s).
Definition bind {A B} (p : parser A) (f : A -> parser B) : parser B :=
  fun s => match p s with Some (a, s') => f a s' | None => None end.
Definition guard (b : bool) : parser unit := fun s => if b then Some (tt, s) else None.

Notation "x <- p ;; q" := (bind p (fun x => q)) (at level 61, p at next level, right associativity).
Notation "'check' b ;; q" := (bind (guard b) (fun _ => q)) (at level 61, right associativity).

Definition blen (s : bytes) : N := N.of_nat (length s).

Definition u8 : parser N :=
  fun s => match s with b :: r => Some (Byte.to_N b, r) | [] => None end.
Definition u16 : parser N := h <- u8 ;; l <- u8 ;; ret (256 * h + l).          (* 1.5.2 big-endian *)
Definition take (n : N) : parser bytes :=
  fun s => if n <=? blen s then Some (firstn (N.to_nat n) s, skipn (N.to_nat n) s) else None.
Definition lp_bytes : parser bytes := n <- u16 ;; take n.                       (* 1.5.3; L1: any bytes *)
Definition rest : parser bytes := fun s => Some (s, []).

(* one or more p, until the input is empty *)
Fixpoint many_fuel {A} (fuel : nat) (p : parser A) : parser (list A) :=
  fun s => match s with
           | [] => Some ([], [])
           | _ => match fuel with
                  | O => None
                  | S fuel' => match p s with
                               | Some (a, s') => match many_fuel fuel' p s' with
                                                 | Some (l, s'') => Some (a :: l, s'')
                                                 | None => None
                                                 end
                               | None => None
                               end
                  end
           end.
Definition many1 {A} (p : parser A) : parser (list A) :=
  fun s => match s with
           | [] => None                                                         (* at least one *)
           | _ => many_fuel (length s) p s
           end.

(* the body must be consumed exactly *)
Definition parse_all {A} (p : parser A) (s : bytes) : option A :=
  match p s with Some (a, []) => Some a | _ => None end.

Definition testbit (x i : N) : bool := (x / 2 ^ i) mod 2 =? 1.

(* ---- 2.2.3 remaining length: at most 4 bytes, 7 bits each, least significant first ---- *)
Fixpoint remlen (fuel : nat) (mult : N) (s : bytes) : option (N * N * bytes) :=   (* value, bytes used, rest *)
  match fuel, s with
  | S fuel', b :: r =>
      let d := Byte.to_N b in
      if d <? 128 then Some (d * mult, 1, r)                                    (* L3: minimality not demanded *)
      else match remlen fuel' (mult * 128) r with
           | Some (v, k, r') => Some ((d - 128) * mult + v, k + 1, r')
           | None => None
           end
  | _, _ => None
  end.
Definition remaining_length : bytes -> option (N * N * bytes) := remlen 4 1.

(* the header-declared extent of the packet starting at bs: 1 + length bytes + remaining length *)
Definition extent (bs : bytes) : option N :=
  match bs with
  | _ :: r => match remaining_length r with
              | Some (rl, k, _) => Some (1 + k + rl)
              | None => None
              end
  | [] => None
  end.

(* 2.2.2 table 2.2: the fixed flag nibble of every type but PUBLISH *)
Definition reserved_flags (t : ptype) : N :=
  match t with TPubrel | TSubscribe | TUnsubscribe => 2 | _ => 0 end.

Definition MQTT : bytes := [x4d; x51; x54; x54].
Definition MQIsdp : bytes := [x4d; x51; x49; x73; x64; x70].

Definition packet_id : parser N := id <- u16 ;; check negb (id =? 0) ;; ret id.  (* 2.3.1 non-zero *)
Definition qos_byte : parser N := q <- u8 ;; check (q <=? 2) ;; ret q.

(* ---- 3.1 CONNECT ---- *)
Definition connect_body : parser packet :=
  name <- lp_bytes ;;
  level <- u8 ;;
  check (bytes_eqb name MQTT && (level =? 4)) || (bytes_eqb name MQIsdp && (level =? 3)) ;;   (* L5 *)
  fl <- u8 ;;
  let username_flag := testbit fl 7 in
  let password_flag := testbit fl 6 in
  let will_retain := testbit fl 5 in
  let will_qos := (fl / 8) mod 4 in
  let will_flag := testbit fl 2 in
  let clean := testbit fl 1 in
  check negb (testbit fl 0) ;;                                                  (* 3.1.2-3 reserved *)
  check (will_qos <=? 2) ;;                                                     (* 3.1.2-14 *)
  check will_flag || ((will_qos =? 0) && negb will_retain) ;;                   (* 3.1.2-13, 3.1.2-15 *)
  check username_flag || negb password_flag ;;                                  (* 3.1.2-22 *)
  keep_alive <- u16 ;;
  client_id <- lp_bytes ;;                                                      (* L6: any length / bytes *)
  check negb (blen client_id =? 0) || clean ;;                                  (* 3.1.3-7 *)
  will <- (if will_flag then
             topic <- lp_bytes ;;
             check negb (blen topic =? 0) ;;                                    (* 4.7.3-1; L2 otherwise *)
             message <- lp_bytes ;;
             ret (Some (Msg topic message will_qos will_retain))
           else ret None) ;;
  username <- (if username_flag then lp_bytes else ret []) ;;
  password <- (if password_flag then lp_bytes else ret []) ;;
  ret (Connect (Conn client_id keep_alive username password clean will level)).

(* ---- 3.2 CONNACK ---- *)
Definition connack_body : parser packet :=
  ack <- u8 ;;
  check (ack <=? 1) ;;                                                          (* bits 7-1 reserved *)
  rc <- u8 ;;
  check (rc <=? 5) ;;                                                           (* table 3.1; L6: sp with rc <> 0 *)
  ret (Connack (ack =? 1) rc).

(* ---- 3.3 PUBLISH ---- *)
Definition publish_body (flags : N) : parser packet :=
  let dup := testbit flags 3 in                                                 (* L4: dup with qos 0 accepted *)
  let qos := (flags / 2) mod 4 in
  let retain := testbit flags 0 in
  check (qos <=? 2) ;;                                                          (* 3.3.1-4 *)
  topic <- lp_bytes ;;
  check negb (blen topic =? 0) ;;                                               (* 4.7.3-1; L2 otherwise *)
  id <- (if qos =? 0 then ret 0 else packet_id) ;;
  payload <- rest ;;
  ret (Publish dup (Msg topic payload qos retain) id).

(* ---- 3.8 SUBSCRIBE, 3.9 SUBACK, 3.10 UNSUBSCRIBE ---- *)
Definition subscribe_body : parser packet :=
  id <- packet_id ;;
  subs <- many1 (filter <- lp_bytes ;; q <- qos_byte ;; ret (filter, q)) ;;     (* 3.8.3-3 at least one; L2 *)
  ret (Subscribe id subs).

Definition suback_body : parser packet :=
  id <- packet_id ;;
  codes <- many1 (c <- u8 ;; check (c <=? 2) || (c =? 128) ;; ret c) ;;         (* 3.9.3; L6: 0x80 *)
  ret (Suback id codes).

Definition unsubscribe_body : parser packet :=
  id <- packet_id ;;
  topics <- many1 lp_bytes ;;                                                   (* 3.10.3-2 at least one; L2 *)
  ret (Unsubscribe id topics).

Definition id_body (mk : N -> packet) : parser packet := id <- packet_id ;; ret (mk id).

Definition body_grammar (t : ptype) (flags : N) : parser packet :=
  match t with
  | TConnect => connect_body
  | TConnack => connack_body
  | TPublish => publish_body flags
  | TPuback => id_body Puback                                                   (* 3.4 *)
  | TPubrec => id_body Pubrec                                                   (* 3.5 *)
  | TPubrel => id_body Pubrel                                                   (* 3.6 *)
  | TPubcomp => id_body Pubcomp                                                 (* 3.7 *)
  | TSubscribe => subscribe_body
  | TSuback => suback_body
  | TUnsubscribe => unsubscribe_body
  | TUnsuback => id_body Unsuback                                               (* 3.11 *)
  | TPingreq => ret Pingreq                                                     (* 3.12 *)
  | TPingresp => ret Pingresp                                                   (* 3.13 *)
  | TDisconnect => ret Disconnect                                               (* 3.14 *)
  end.

(* ---- the reference decoder: Some (packet, extent) or None ---- *)
Definition ref_decode (t : ptype) (bs : bytes) : option (packet * N) :=
  match bs with
  | [] => None
  | b0 :: r =>
      let type_nibble := Byte.to_N b0 / 16 in
      let flags := Byte.to_N b0 mod 16 in
      if negb (type_nibble =? type_code t) then None else
      if negb (ptype_eqb t TPublish) && negb (flags =? reserved_flags t) then None else   (* 2.2.2 *)
      match remaining_length r with
      | None => None
      | Some (rl, k, after) =>
          if blen after <? rl then None else                                    (* wholly present *)
          let body := firstn (N.to_nat rl) after in                             (* cut to the declared extent *)
          match parse_all (body_grammar t flags) body with
          | Some p => Some (p, 1 + k + rl)
          | None => None
          end
      end
  end.
