(* EncProofsTypes3.v — Connect.Encode: the walk for all packets into a buffer that is large
   enough (fits_connect), into one that is too short (short_connect), and the exact result
   when every check passes (encode_connect_ok). *)
From Coq Require Import List NArith ZArith Bool Lia ZifyN ZifyNat ZifyBool.
From Coq.Strings Require Import Byte.
From GM Require Import Codec.Packet Codec.WF Codec.Enc Codec.EncProofsBase Codec.EncProofsSpec
  Codec.EncProofsTypes Codec.EncProofsTypes2.
Import ListNotations.
Open Scope N_scope.
Ltac Zify.zify_post_hook ::= Z.div_mod_to_equations.

Definition will_bytes (w : option message) : bytes :=
  match w with Some m => lpb (m_topic m) ++ lpb (m_payload m) | None => [] end.
Definition opt_bytes (s : bytes) : bytes := if 0 <? blen s then lpb s else [].

Definition connect_bytes (k : connect) (flags : N) : bytes :=
  lpb (version_name (c_version k)) ++ [n2b (c_version k)] ++ [n2b flags] ++ u16 (c_keep_alive k)
  ++ lpb (c_client_id k) ++ will_bytes (c_will k) ++ opt_bytes (c_username k) ++ opt_bytes (c_password k).

Lemma blen_mqisdp : blen mqisdp = 6. Proof. reflexivity. Qed.
Lemma blen_mqtt : blen mqtt = 4. Proof. reflexivity. Qed.

(* the version Encode works with: 0 becomes 4 *)
Lemma version_cases v :
  let v' := if v =? 0 then 4 else v in
  negb (v' =? 4) && negb (v' =? 3) = false ->
  ((v =? 3) = true /\ v' = 3) \/ ((v =? 3) = false /\ v' = 4).
Proof.
  cbv zeta. destruct (v =? 0) eqn:E0.
  - apply N.eqb_eq in E0. subst v. intros _. right. split; reflexivity.
  - intros H. destruct (v =? 4) eqn:E4.
    + apply N.eqb_eq in E4. subst v. right. split; reflexivity.
    + destruct (v =? 3) eqn:E3; [| discriminate H]. apply N.eqb_eq in E3. left. split; [reflexivity | exact E3].
Qed.

Ltac ccap := rewrite ?rest_push, ?rest_hcur, ?blen_drop, ?blen_mqisdp, ?blen_mqtt; unfold header_len_go in *; lia.

(* one step of the walk in "anything may fail" mode: goal  fits_ok L dst (finish <expr>) *)
Ltac fstep :=
  cbn [sbind];
  match goal with
  | |- context [put_u8 ?c ?v] => rewrite (put_u8_fits c v) by ccap
  | |- context [put_u16 ?c ?v] => rewrite (put_u16_fits c v) by ccap
  | |- context [put_lp ?c ?b] => rewrite (put_lp_fits c b) by ccap
  | |- context [if (?a <=? 65535) then SOk _ else SErr _] => destruct (a <=? 65535); [| exact I]
  end.

Lemma fits_connect dst k : connect_len k <= blen dst ->
  fits_ok (connect_len k) dst (finish (encode_connect dst k)).
Proof.
  unfold connect_len. cbv zeta. intros H. unfold encode_connect.
  rewrite encode_header_nf by (unfold connect_len; cbv zeta; lia).
  destruct (connect_plen k <=? max_varint) eqn:E; [| exact I]. apply N.leb_le in E. cbn [sbind].
  set (h := hcur TConnect 0 (connect_plen k) dst).
  assert (Hh : blen (c_rest h) = blen dst - header_len_go (connect_plen k)) by (subst h; rewrite rest_hcur, blen_drop; reflexivity).
  assert (Ht : total h = header_len_go (connect_plen k)) by (subst h; apply total_hcur; exact E).
  assert (Hd : blen (c_done h) = header_len_go (connect_plen k)) by (rewrite <- total_done; exact Ht).
  set (v' := if c_version k =? 0 then 4 else c_version k).
  destruct (negb (v' =? 4) && negb (v' =? 3)) eqn:EV; [exact I |].
  apply version_cases in EV. fold v' in EV.
  assert (Hp : connect_plen k =
    (if c_version k =? 3 then 9 else 7) + 3 + (2 + blen (c_client_id k))
    + match c_will k with Some w => 2 + blen (m_topic w) + 2 + blen (m_payload w) | None => 0 end
    + (if 0 <? blen (c_username k) then 2 + blen (c_username k) else 0)
    + (if 0 <? blen (c_password k) then 2 + blen (c_password k) else 0)).
  { unfold connect_plen. destruct (c_version k =? 3), (c_will k), (0 <? blen (c_username k)), (0 <? blen (c_password k)); lia. }
  generalize dependent v'. intros v' EV.
  destruct (connect_flags k) as [flags |];
  destruct (c_will k) as [w |];
  destruct (0 <? blen (c_username k)) eqn:U; destruct (0 <? blen (c_password k)) eqn:P;
  destruct (blen (c_username k) =? 0) eqn:U0; leb_hyps; try lia; cbn [andb];
  destruct EV as [[V ->] | [V ->]]; rewrite V in Hp;
  change (version_name 3) with mqisdp; change (version_name 4) with mqtt;
  repeat fstep; try exact I;
  cbn [finish fits_ok]; split;
  rewrite ?total_push, ?done_push, ?rest_push, ?blen_app, ?blen_drop, ?blen_lpb, ?blen_u16,
    ?blen_cons, ?blen_nil, ?blen_mqisdp, ?blen_mqtt, ?Ht, ?Hd, ?Hh; unfold header_len_go in *; lia.
Qed.

Lemma short_connect dst k : blen dst < connect_len k -> is_err (finish (encode_connect dst k)).
Proof.
  intros H. unfold encode_connect. rewrite encode_header_short by exact H. eexists; reflexivity.
Qed.

(* one step of the walk when every check is known to pass: hypotheses  _ <= 65535  in the context *)
Ltac ostep :=
  cbn [sbind];
  match goal with
  | |- context [put_u8 ?c ?v] => rewrite (put_u8_fits c v) by ccap
  | |- context [put_u16 ?c ?v] => rewrite (put_u16_fits c v) by ccap
  | |- context [put_lp ?c ?b] => rewrite (put_lp_fits c b) by ccap
  | |- context [if (?a <=? 65535) then SOk _ else SErr _] =>
      replace (a <=? 65535) with true by (symmetry; apply N.leb_le; first [assumption | rewrite ?blen_mqisdp, ?blen_mqtt; lia])
  end.

Definition will_strs_ok (w : option message) : Prop :=
  match w with Some m => blen (m_topic m) <= 65535 /\ blen (m_payload m) <= 65535 | None => True end.

Lemma encode_connect_ok dst k flags :
  connect_len k <= blen dst ->
  connect_plen k <= max_varint ->
  c_version k = 3 \/ c_version k = 4 ->
  connect_flags k = Some flags ->
  blen (c_client_id k) <= 65535 -> will_strs_ok (c_will k) ->
  blen (c_username k) <= 65535 -> blen (c_password k) <= 65535 ->
  (blen (c_username k) = 0 -> blen (c_password k) = 0) ->
  encode_connect dst k =
  SOk (push (hcur TConnect 0 (connect_plen k) dst) (connect_bytes k flags) (connect_plen k)).
Proof.
  unfold connect_len. cbv zeta. intros H E HV EF Hcid Hw Hu Hpw Hup. unfold encode_connect.
  rewrite encode_header_nf by (unfold connect_len; cbv zeta; lia).
  replace (connect_plen k <=? max_varint) with true by (symmetry; apply N.leb_le; exact E). cbn [sbind].
  set (h := hcur TConnect 0 (connect_plen k) dst).
  assert (Hh : blen (c_rest h) = blen dst - header_len_go (connect_plen k)) by (subst h; rewrite rest_hcur, blen_drop; reflexivity).
  rewrite EF.
  assert (Hp : connect_plen k =
    (if c_version k =? 3 then 9 else 7) + 3 + (2 + blen (c_client_id k))
    + match c_will k with Some w => 2 + blen (m_topic w) + 2 + blen (m_payload w) | None => 0 end
    + (if 0 <? blen (c_username k) then 2 + blen (c_username k) else 0)
    + (if 0 <? blen (c_password k) then 2 + blen (c_password k) else 0)).
  { unfold connect_plen. destruct (c_version k =? 3), (c_will k), (0 <? blen (c_username k)), (0 <? blen (c_password k)); lia. }
  unfold connect_bytes, will_bytes, opt_bytes.
  destruct (c_will k) as [w |]; cbn [will_strs_ok] in Hw; [destruct Hw as [Hw1 Hw2] |];
  destruct (0 <? blen (c_username k)) eqn:U; destruct (0 <? blen (c_password k)) eqn:P;
  destruct (blen (c_username k) =? 0) eqn:U0; leb_hyps; try lia; cbn [andb];
  destruct HV as [V | V]; rewrite V in *; cbn [N.eqb Pos.eqb negb andb] in *;
  change (version_name 3) with mqisdp; change (version_name 4) with mqtt;
  repeat ostep; cbn [sbind];
  rewrite !push_push; f_equal; f_equal;
  solve [ rewrite <- ?app_assoc; cbn [app]; rewrite ?app_nil_r; reflexivity
        | rewrite ?blen_mqisdp, ?blen_mqtt; lia ].
Qed.
