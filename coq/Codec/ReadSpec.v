(* ReadSpec.v — what ONE packet.Decoder.Read must return on a byte stream, stated with the
   reference decoder (RefDecode.v) and the header-declared extent only: no detection loop,
   no buffers.  `bs` is everything the source will still deliver, `e` what it reports after
   that, `lim` the read limit (0 = none).  Result in the vocabulary of the stream model
   (Stream.v): outcome, allocation request, largest Peek, rest of the stream.
   Definitions only (extracted: the model runner judges the observed Read with it);
   Stream/ReadSpecProofs.v proves that the stream model with the real codec computes it. *)
From Coq Require Import List NArith Bool.
From Coq.Strings Require Import Byte.
From GM Require Import Codec.Packet Codec.RefDecode Stream.Stream Stream.StreamSpec.
Import ListNotations.
Open Scope N_scope.

Definition read_spec (lim : N) (bs : bytes) (e : src_end) : sres :=
  match bs with
  | [] => (RFail (end_err e 0), None, 2, [])                      (* nothing left: io.EOF (or the source's error) *)
  | b0 :: r =>
      match remaining_length r with
      | Some (rl, k, _) =>                                         (* a complete fixed header of 1 + k bytes *)
          let n := 1 + k + rl in
          let dl := 1 + k in
          if (0 <? lim) && (lim <? n) then (RFail EReadLimit, None, dl, bs)      (* refused on the header alone *)
          else match type_of_code (Byte.to_N b0 / 16) with
               | None => (RFail EInvalidType, None, dl, bs)                        (* type nibble 0 or 15 *)
               | Some ty =>
                   if len bs <? n then (RFail (end_err e (len bs)), Some n, dl, [])   (* stream ends inside the packet *)
                   else let frame := firstn (N.to_nat n) bs in
                        match ref_decode ty frame with
                        | Some (p, _) => (RPacket frame p, Some n, dl, skipn (N.to_nat n) bs)
                        | None => (RFail EDecode, Some n, dl, skipn (N.to_nat n) bs)
                        end
               end
      | None =>
          if len r <? 4 then (RFail (end_err e (len bs)), None, len bs + 1, bs)   (* stream ends inside the header *)
          else (RFail EDetectionOverflow, None, 5, bs)                            (* 4 continuation bytes *)
      end
  end.
