(* EncProofs.v — the C01 statements about the encoder model:
     encode_short   a buffer shorter than Len(): an error (any packet)
     encode_fits    a buffer of at least Len() bytes: never a panic; success writes exactly Len() bytes (any packet)
     encode_wf      well-formed packet: success, and the first Len() bytes are wire_spec p,
                    whatever the buffer held before; the bytes beyond stay untouched *)
From Coq Require Import List NArith ZArith Bool Lia ZifyN ZifyNat ZifyBool.
From Coq.Strings Require Import Byte.
From GM Require Import Codec.Packet Codec.WF Codec.Enc Codec.WireSpec Codec.EncProofsBase Codec.EncProofsSpec
  Codec.EncProofsTypes Codec.EncProofsTypes2 Codec.EncProofsTypes3.
Import ListNotations.
Open Scope N_scope.
Ltac Zify.zify_post_hook ::= Z.div_mod_to_equations.

(* ---------------------------------------------------------------- all packets *)
Theorem encode_short dst p : blen dst < len_go p -> exists n, encode_into dst p = BErr n.
Proof.
  destruct p; cbn [len_go encode_into]; intros H.
  - apply short_connect; exact H.
  - apply short_connack; exact H.
  - apply short_publish; exact H.
  - apply short_identified; exact H.
  - apply short_identified; exact H.
  - apply short_identified; exact H.
  - apply short_identified; exact H.
  - apply short_subscribe; exact H.
  - apply short_suback; exact H.
  - apply short_unsubscribe; exact H.
  - apply short_identified; exact H.
  - apply short_naked; exact H.
  - apply short_naked; exact H.
  - apply short_naked; exact H.
Qed.

Theorem encode_fits dst p : len_go p <= blen dst -> fits_ok (len_go p) dst (encode_into dst p).
Proof.
  destruct p; cbn [len_go encode_into]; intros H.
  - apply fits_connect; exact H.
  - apply fits_connack; exact H.
  - apply fits_publish; exact H.
  - apply fits_identified; exact H.
  - apply fits_identified; exact H.
  - apply fits_identified; exact H.
  - apply fits_identified; exact H.
  - apply fits_subscribe; exact H.
  - apply fits_suback; exact H.
  - apply fits_unsubscribe; exact H.
  - apply fits_identified; exact H.
  - apply fits_naked; exact H.
  - apply fits_naked; exact H.
  - apply fits_naked; exact H.
Qed.

(* ---------------------------------------------------------------- the body of wire_spec *)
Lemma blen_protocol_name v : blen (protocol_name v) = proto_name_len v.
Proof. unfold protocol_name, proto_name_len. destruct (v =? 3); reflexivity. Qed.

Lemma blen_optional s : blen (optional s) = opt_lp s.
Proof. unfold optional. destruct s; [reflexivity |]. cbn [present opt_lp]. rewrite blen_prefixed. reflexivity. Qed.

Lemma body_size p : blen (variable_header p ++ payload p) = body_len p.
Proof.
  destruct p as [c | sp rc | dup m id | | | | | id subs | id codes | id ts | | | |];
    cbn [variable_header payload body_len]; rewrite ?app_nil_r; try reflexivity.
  - rewrite !blen_app, !blen_prefixed, !blen_optional, blen_protocol_name, blen_two_byte_int, !blen_cons, blen_nil.
    unfold will_len, lp. destruct (c_will c); rewrite ?blen_app, ?blen_prefixed, ?blen_nil; lia.
  - rewrite !blen_app, blen_prefixed. unfold lp.
    destruct (m_qos m =? 0); rewrite ?blen_nil, ?blen_two_byte_int; lia.
  - rewrite blen_app, blen_two_byte_int. f_equal.
    induction subs as [| s more IH]; [reflexivity |].
    cbn [map concat fold_right]. rewrite !blen_app, blen_prefixed, blen_cons, blen_nil, IH. unfold lp. lia.
  - rewrite blen_app, blen_two_byte_int. unfold blen. rewrite map_length. reflexivity.
  - rewrite blen_app, blen_two_byte_int. f_equal.
    induction ts as [| t more IH]; [reflexivity |].
    cbn [map concat fold_right]. rewrite !blen_app, blen_prefixed, IH. unfold lp. lia.
Qed.

Lemma wire_spec_shape p : wf p = true ->
  wire_spec p =
  (n2b (16 * type_value p + flag_bits p) :: vb (body_len p)) ++ variable_header p ++ payload p.
Proof.
  intros H. unfold wire_spec, fixed_header. cbv zeta. rewrite size_blen, body_size.
  rewrite remaining_length_vb by (apply wf_body_len in H; exact H). reflexivity.
Qed.

Theorem blen_wire_spec p : wf p = true -> blen (wire_spec p) = total_len p.
Proof.
  intros H. rewrite wire_spec_shape by exact H.
  rewrite blen_app, blen_cons, body_size, blen_vb by (apply wf_body_len in H; exact H).
  rewrite varint_len_go_eq by (apply wf_body_len; exact H). unfold total_len. lia.
Qed.

(* ---------------------------------------------------------------- per type: the first Len() bytes *)
Definition exact (dst : bytes) (p : packet) : Prop :=
  encode_into dst p = BOk (len_go p) (wire_spec p ++ drop (len_go p) dst).

Lemma wf_split p : wf p = true ->
  body_len p <= max_varint /\
  match p with
  | Connect c =>
      ((c_version c =? 3) || (c_version c =? 4)) &&
      (c_keep_alive c <=? 65535) &&
      str_ok (c_client_id c) && str_ok (c_username c) && str_ok (c_password c) &&
      (nonempty (c_client_id c) || c_clean c) &&
      (nonempty (c_username c) || negb (nonempty (c_password c))) &&
      match c_will c with
      | None => true
      | Some m => msg_ok m && str_ok (m_payload m)
      end
  | Connack _ rc => rc <=? 5
  | Publish _ m id => msg_ok m && (if m_qos m =? 0 then id =? 0 else id_ok id)
  | Puback id | Pubrec id | Pubrel id | Pubcomp id | Unsuback id => id_ok id
  | Subscribe id subs =>
      id_ok id && nonempty subs && forallb (fun s => str_ok (fst s) && qos_ok (snd s)) subs
  | Suback id codes =>
      id_ok id && nonempty codes && forallb (fun c => qos_ok c || (c =? 128)) codes
  | Unsubscribe id ts => id_ok id && nonempty ts && forallb str_ok ts
  | Pingreq | Pingresp | Disconnect => true
  end = true.
Proof.
  unfold wf. intros H. apply andb_true_iff in H. destruct H as [H1 H2].
  split; [apply N.leb_le in H1; exact H1 | exact H2].
Qed.

Lemma id_ok_iff i : id_ok i = true <-> 1 <= i <= 65535.
Proof. unfold id_ok. rewrite andb_true_iff, !N.leb_le. tauto. Qed.

Lemma finish_push h w k :
  finish (SOk (push h w k)) = BOk (total h + blen w) ((c_done h ++ w) ++ drop k (c_rest h)).
Proof. cbn [finish]. rewrite total_push, done_push, rest_push. reflexivity. Qed.

Lemma finish_hcur t f rl dst : rl <= max_varint ->
  finish (SOk (hcur t f rl dst)) = BOk (header_len_go rl) ((first_byte t f :: vb rl) ++ drop (header_len_go rl) dst).
Proof. intros H. cbn [finish]. rewrite total_hcur, done_hcur, rest_hcur by exact H. reflexivity. Qed.

Lemma exact_naked dst p t :
  (p = Pingreq /\ t = TPingreq) \/ (p = Pingresp /\ t = TPingresp) \/ (p = Disconnect /\ t = TDisconnect) ->
  2 <= blen dst ->
  finish (encode_naked dst t) = BOk 2 (wire_spec p ++ drop 2 dst).
Proof.
  intros C H. rewrite encode_naked_fits by exact H.
  rewrite finish_hcur by (unfold max_varint; lia).
  destruct C as [[-> ->] | [[-> ->] | [-> ->]]]; reflexivity.
Qed.

Lemma exact_identified dst id t p :
  1 <= id <= 65535 -> 4 <= blen dst ->
  wire_spec p = [n2b (16 * type_code t + default_flags t); n2b 2] ++ two_byte_int id ->
  finish (encode_identified dst id t) = BOk 4 (wire_spec p ++ drop 4 dst).
Proof.
  intros Hid H W. rewrite encode_identified_fits by exact H.
  destruct (id =? 0) eqn:E; [apply N.eqb_eq in E; lia |].
  rewrite finish_push. rewrite total_hcur, done_hcur, rest_hcur by (unfold max_varint; lia).
  rewrite drop_drop. f_equal. rewrite W, first_byte_plain, two_byte_int_u16 by lia. reflexivity.
Qed.

Lemma subs_bytes_eq subs :
  forallb (fun s => str_ok (fst s) && qos_ok (snd s)) subs = true ->
  concat (map (fun s => prefixed (fst s) ++ [byte_of (snd s)]) subs) = sbytes subs.
Proof.
  induction subs as [| s more IH]; intros H; [reflexivity |].
  cbn [forallb] in H. apply andb_true_iff in H. destruct H as [H1 H2].
  apply andb_true_iff in H1. destruct H1 as [H1 _]. unfold str_ok in H1. apply N.leb_le in H1.
  unfold sbytes in *. cbn [map concat]. rewrite IH by exact H2. rewrite prefixed_lpb by exact H1. reflexivity.
Qed.

Lemma subs_ok_eq subs :
  forallb (fun s => str_ok (fst s) && qos_ok (snd s)) subs = forallb sub_ok subs.
Proof.
  induction subs as [| s more IH]; [reflexivity |]. cbn [forallb]. rewrite IH. unfold sub_ok, qos_ok.
  rewrite qos_successful_le. reflexivity.
Qed.

Lemma topics_bytes_eq ts : forallb str_ok ts = true -> concat (map prefixed ts) = tbytes ts.
Proof.
  induction ts as [| t more IH]; intros H; [reflexivity |].
  cbn [forallb] in H. apply andb_true_iff in H. destruct H as [H1 H2]. unfold str_ok in H1. apply N.leb_le in H1.
  unfold tbytes in *. cbn [map concat]. rewrite IH by exact H2. rewrite prefixed_lpb by exact H1. reflexivity.
Qed.

Lemma codes_ok_eq codes :
  forallb (fun c => qos_ok c || (c =? 128)) codes = forallb code_ok codes.
Proof.
  induction codes as [| c more IH]; [reflexivity |]. cbn [forallb]. rewrite IH. unfold code_ok, qos_ok.
  rewrite qos_successful_le. reflexivity.
Qed.

(* ---------------------------------------------------------------- connect flags *)
Lemma connect_flags_wf k :
  (nonempty (c_client_id k) || c_clean k) = true ->
  match c_will k with None => True | Some m => msg_ok m = true end ->
  exists flags, connect_flags k = Some flags /\ n2b flags = n2b (connect_flag_byte k).
Proof.
  intros Hc Hw. unfold connect_flags, connect_flag_byte.
  rewrite !present_blen, !blen_eq0_present. rewrite nonempty_present in Hc.
  destruct (c_will k) as [w |].
  - unfold msg_ok in Hw. rewrite !andb_true_iff in Hw. destruct Hw as [[Hw1 _] Hw3].
    rewrite nonempty_present in Hw1. rewrite blen_eq0_present, Hw1. cbn [negb].
    unfold qos_ok in Hw3. apply N.leb_le in Hw3. rewrite qos_successful_le.
    replace (m_qos w <=? 2) with true by (symmetry; apply N.leb_le; exact Hw3). cbn [negb].
    assert (C : m_qos w = 0 \/ m_qos w = 1 \/ m_qos w = 2) by lia.
    destruct (present (c_client_id k)), (c_clean k); try discriminate Hc; cbn [negb andb];
    destruct C as [-> | [-> | ->]];
    destruct (present (c_username k)), (present (c_password k)), (m_retain w);
    eexists; (split; [reflexivity | vm_compute; reflexivity]).
  - destruct (present (c_client_id k)), (c_clean k); try discriminate Hc; cbn [negb andb];
    destruct (present (c_username k)), (present (c_password k));
    eexists; (split; [reflexivity | vm_compute; reflexivity]).
Qed.

(* ---------------------------------------------------------------- well-formed packets, type by type *)
Lemma exact_connack dst sp rc :
  wf (Connack sp rc) = true -> len_go (Connack sp rc) <= blen dst -> exact dst (Connack sp rc).
Proof.
  intros W H. unfold exact. cbn [len_go encode_into] in *. rewrite connack_len_4 in *.
  apply wf_split in W. destruct W as [_ W].
  rewrite encode_connack_fits by exact H. cbv zeta. rewrite W. rewrite push_push, finish_push.
  rewrite total_hcur, done_hcur, rest_hcur, drop_drop by (unfold max_varint; lia).
  destruct sp; reflexivity.
Qed.

Lemma exact_publish dst dup m id :
  wf (Publish dup m id) = true -> len_go (Publish dup m id) <= blen dst -> exact dst (Publish dup m id).
Proof.
  intros W H. unfold exact. pose proof (wire_spec_shape _ W) as S.
  pose proof (plen_go_body_len (Publish dup m id)) as PB. cbn [plen_go] in PB.
  cbn [len_go encode_into] in *. apply wf_split in W. destruct W as [Wb W].
  apply andb_true_iff in W. destruct W as [Wm Wi]. unfold msg_ok in Wm.
  rewrite !andb_true_iff in Wm. destruct Wm as [[Wm1 Wm2] Wm3].
  rewrite nonempty_present in Wm1. unfold str_ok in Wm2. unfold qos_ok in Wm3.
  rewrite encode_publish_fits by exact H.
  rewrite blen_eq0_present, Wm1, qos_successful_le, Wm3. cbn [negb].
  assert (Hid : ((0 <? m_qos m) && negb (id_valid id)) = false).
  { unfold id_valid. destruct (m_qos m =? 0) eqn:Q; leb_hyps.
    - rewrite Q. reflexivity.
    - apply id_ok_iff in Wi. destruct (id =? 0) eqn:I0; leb_hyps; [lia |]. apply andb_false_r. }
  rewrite Hid, Wm2. rewrite PB.
  replace (body_len (Publish dup m id) <=? max_varint) with true by (symmetry; apply N.leb_le; exact Wb).
  f_equal. rewrite S. rewrite <- !app_assoc. cbn [app]. f_equal.
  - leb_hyps. rewrite first_byte_publish by exact Wm3. reflexivity.
  - f_equal. cbn [variable_header payload]. leb_hyps. rewrite prefixed_lpb by exact Wm2.
    rewrite <- !app_assoc. f_equal. unfold publish_idb.
    destruct (m_qos m =? 0) eqn:Q; [reflexivity |]. leb_hyps. apply id_ok_iff in Wi.
    rewrite two_byte_int_u16 by lia. reflexivity.
Qed.

Lemma exact_subscribe dst id subs :
  wf (Subscribe id subs) = true -> len_go (Subscribe id subs) <= blen dst -> exact dst (Subscribe id subs).
Proof.
  intros W H. unfold exact. pose proof (wire_spec_shape _ W) as S.
  pose proof (plen_go_body_len (Subscribe id subs)) as PB. cbn [plen_go] in PB.
  cbn [len_go encode_into] in *. apply wf_split in W. destruct W as [Wb W].
  rewrite !andb_true_iff in W. destruct W as [[Wi _] Wl]. apply id_ok_iff in Wi.
  pose proof (encode_subscribe_spec dst id subs H) as E.
  destruct (encode_subscribe dst id subs) as [c' | n |].
  - destruct E as (-> & E1 & _ & _). rewrite finish_push.
    rewrite total_hcur, done_hcur, rest_hcur, drop_drop by exact E1.
    pose proof (subscribe_plen_ssize subs) as Hs. unfold subscribe_len. cbv zeta.
    f_equal.
    + rewrite blen_app, blen_u16, blen_sbytes. lia.
    + rewrite S. rewrite <- !app_assoc. cbn [app]. rewrite first_byte_plain, PB. f_equal. f_equal.
      cbn [variable_header payload]. rewrite two_byte_int_u16 by lia. rewrite subs_bytes_eq by exact Wl.
      rewrite <- ?app_assoc. do 3 f_equal; lia.
  - rewrite subs_ok_eq in Wl. rewrite Wl in E. rewrite PB in E. destruct E as [E | [E | E]]; [lia | lia | discriminate E].
  - contradiction.
Qed.

Lemma exact_unsubscribe dst id ts :
  wf (Unsubscribe id ts) = true -> len_go (Unsubscribe id ts) <= blen dst -> exact dst (Unsubscribe id ts).
Proof.
  intros W H. unfold exact. pose proof (wire_spec_shape _ W) as S.
  pose proof (plen_go_body_len (Unsubscribe id ts)) as PB. cbn [plen_go] in PB.
  cbn [len_go encode_into] in *. apply wf_split in W. destruct W as [Wb W].
  rewrite !andb_true_iff in W. destruct W as [[Wi _] Wl]. apply id_ok_iff in Wi.
  pose proof (encode_unsubscribe_spec dst id ts H) as E.
  destruct (encode_unsubscribe dst id ts) as [c' | n |].
  - destruct E as (-> & E1 & _ & _). rewrite finish_push.
    rewrite total_hcur, done_hcur, rest_hcur, drop_drop by exact E1.
    pose proof (unsubscribe_plen_tsize ts) as Hs. unfold unsubscribe_len. cbv zeta.
    f_equal.
    + rewrite blen_app, blen_u16, blen_tbytes. lia.
    + rewrite S. rewrite <- !app_assoc. cbn [app]. rewrite first_byte_plain, PB. f_equal. f_equal.
      cbn [variable_header payload]. rewrite two_byte_int_u16 by lia. rewrite topics_bytes_eq by exact Wl.
      rewrite <- ?app_assoc. do 3 f_equal; lia.
  - rewrite Wl in E. rewrite PB in E. destruct E as [E | [E | E]]; [lia | lia | discriminate E].
  - contradiction.
Qed.

Lemma exact_suback dst id codes :
  wf (Suback id codes) = true -> len_go (Suback id codes) <= blen dst -> exact dst (Suback id codes).
Proof.
  intros W H. unfold exact. pose proof (wire_spec_shape _ W) as S.
  pose proof (plen_go_body_len (Suback id codes)) as PB. cbn [plen_go] in PB.
  cbn [len_go encode_into] in *. apply wf_split in W. destruct W as [Wb W].
  rewrite !andb_true_iff in W. destruct W as [[Wi _] Wl]. apply id_ok_iff in Wi.
  rewrite encode_suback_fits by exact H. rewrite PB.
  replace (body_len (Suback id codes) <=? max_varint) with true by (symmetry; apply N.leb_le; exact Wb).
  destruct (id =? 0) eqn:I0; leb_hyps; [lia |]. rewrite codes_ok_eq in Wl. rewrite Wl.
  rewrite push_push, finish_push. rewrite <- PB.
  rewrite total_hcur, done_hcur, rest_hcur, drop_drop by (rewrite PB; exact Wb).
  unfold suback_len. cbv zeta. unfold suback_plen in *.
  f_equal.
  - rewrite blen_app, blen_u16, blen_map_n2b. lia.
  - rewrite S. rewrite <- !app_assoc. cbn [app]. rewrite first_byte_plain, <- PB. f_equal. f_equal.
    cbn [variable_header payload]. rewrite two_byte_int_u16 by lia. change byte_of with n2b.
    rewrite <- ?app_assoc. do 3 f_equal; lia.
Qed.

Lemma exact_connect dst k :
  wf (Connect k) = true -> len_go (Connect k) <= blen dst -> exact dst (Connect k).
Proof.
  intros W H. unfold exact. pose proof (wire_spec_shape _ W) as S.
  pose proof (plen_go_body_len (Connect k)) as PB. cbn [plen_go] in PB.
  cbn [len_go encode_into] in *. apply wf_split in W. destruct W as [Wb W].
  rewrite !andb_true_iff in W. destruct W as [[[[[[[Wv Wk] Wc] Wu] Wp] Wcc] Wup] Ww].
  unfold str_ok in Wc, Wu, Wp. leb_hyps.
  destruct (connect_flags_wf k Wcc) as (flags & EF & Fb).
  { destruct (c_will k); [| exact I]. apply andb_true_iff in Ww. tauto. }
  rewrite (encode_connect_ok dst k flags); try assumption.
  - rewrite finish_push. rewrite total_hcur, done_hcur, rest_hcur, drop_drop by (rewrite PB; exact Wb).
    assert (Bl : blen (connect_bytes k flags) = connect_plen k).
    { rewrite PB, <- body_size. cbn [variable_header payload]. unfold connect_bytes.
      rewrite !blen_app, !blen_lpb, !blen_prefixed, !blen_cons, !blen_nil, blen_u16, blen_two_byte_int, !blen_optional.
      assert (Bn : blen (version_name (c_version k)) = blen (protocol_name (c_version k))).
      { unfold version_name, protocol_name. apply orb_true_iff in Wv. destruct Wv as [V | V]; leb_hyps; rewrite V; reflexivity. }
      rewrite Bn. unfold will_bytes, opt_bytes. rewrite !present_blen, !opt_lp_present.
      destruct (c_will k), (present (c_username k)), (present (c_password k));
        rewrite ?blen_app, ?blen_lpb, ?blen_prefixed, ?blen_nil; lia. }
    unfold connect_len. cbv zeta. f_equal; [lia |].
    rewrite S. rewrite <- !app_assoc. cbn [app]. rewrite first_byte_plain, PB. f_equal. f_equal.
    assert (Bb : connect_bytes k flags = variable_header (Connect k) ++ payload (Connect k)).
    { cbn [variable_header payload]. unfold connect_bytes. rewrite <- !app_assoc. cbn [app].
      assert (Bn : version_name (c_version k) = protocol_name (c_version k)).
      { unfold version_name, protocol_name. apply orb_true_iff in Wv. destruct Wv as [V | V]; leb_hyps; rewrite V; reflexivity. }
      rewrite Bn. change byte_of with n2b. rewrite <- Fb.
      rewrite (prefixed_lpb (protocol_name (c_version k))) by (rewrite blen_protocol_name; unfold proto_name_len; destruct (c_version k =? 3); lia).
      rewrite two_byte_int_u16 by exact Wk. rewrite (prefixed_lpb (c_client_id k)) by exact Wc.
      do 5 f_equal.
      unfold will_bytes, opt_bytes, optional. rewrite !present_blen.
      assert (Ou : (if present (c_username k) then lpb (c_username k) else []) =
                   (if present (c_username k) then prefixed (c_username k) else [])).
      { destruct (present (c_username k)); [rewrite prefixed_lpb by exact Wu |]; reflexivity. }
      assert (Op : (if present (c_password k) then lpb (c_password k) else []) =
                   (if present (c_password k) then prefixed (c_password k) else [])).
      { destruct (present (c_password k)); [rewrite prefixed_lpb by exact Wp |]; reflexivity. }
      rewrite Ou, Op. destruct (c_will k) as [w |]; [| reflexivity].
      rewrite !andb_true_iff in Ww. destruct Ww as [Wm Wpl]. unfold msg_ok in Wm.
      rewrite !andb_true_iff in Wm. destruct Wm as [[_ Wt] _]. unfold str_ok in Wt, Wpl. leb_hyps.
      rewrite !prefixed_lpb by assumption. rewrite <- !app_assoc. reflexivity. }
    rewrite Bb, <- app_assoc. reflexivity.
  - rewrite PB. exact Wb.
  - apply orb_true_iff in Wv. destruct Wv as [V | V]; leb_hyps; [left | right]; exact V.
  - destruct (c_will k) as [w |]; [| exact I]. cbn [will_strs_ok].
    rewrite !andb_true_iff in Ww. destruct Ww as [Wm Wpl]. unfold msg_ok in Wm.
    rewrite !andb_true_iff in Wm. destruct Wm as [[_ Wt] _]. unfold str_ok in Wt, Wpl. leb_hyps. split; assumption.
  - intros U0. apply blen_0 in U0. rewrite U0 in Wup. cbn [nonempty orb] in Wup.
    destruct (c_password k); [reflexivity | discriminate Wup].
Qed.

Theorem encode_wf dst p : wf p = true -> len_go p <= blen dst -> exact dst p.
Proof.
  intros W H.
  destruct p as [c | sp rc | dup m id | id | id | id | id | id subs | id codes | id ts | id | | |].
  - apply exact_connect; assumption.
  - apply exact_connack; assumption.
  - apply exact_publish; assumption.
  - unfold exact. cbn [len_go encode_into] in *. rewrite identified_len_4 in *.
    apply wf_split in W. destruct W as [_ W]. apply id_ok_iff in W.
    apply exact_identified; [exact W | exact H | reflexivity].
  - unfold exact. cbn [len_go encode_into] in *. rewrite identified_len_4 in *.
    apply wf_split in W. destruct W as [_ W]. apply id_ok_iff in W.
    apply exact_identified; [exact W | exact H | reflexivity].
  - unfold exact. cbn [len_go encode_into] in *. rewrite identified_len_4 in *.
    apply wf_split in W. destruct W as [_ W]. apply id_ok_iff in W.
    apply exact_identified; [exact W | exact H | reflexivity].
  - unfold exact. cbn [len_go encode_into] in *. rewrite identified_len_4 in *.
    apply wf_split in W. destruct W as [_ W]. apply id_ok_iff in W.
    apply exact_identified; [exact W | exact H | reflexivity].
  - apply exact_subscribe; assumption.
  - apply exact_suback; assumption.
  - apply exact_unsubscribe; assumption.
  - unfold exact. cbn [len_go encode_into] in *. rewrite identified_len_4 in *.
    apply wf_split in W. destruct W as [_ W]. apply id_ok_iff in W.
    apply exact_identified; [exact W | exact H | reflexivity].
  - unfold exact. cbn [len_go encode_into] in *. rewrite naked_len_2 in *.
    apply (exact_naked dst Pingreq); [left; split; reflexivity | exact H].
  - unfold exact. cbn [len_go encode_into] in *. rewrite naked_len_2 in *.
    apply (exact_naked dst Pingresp); [right; left; split; reflexivity | exact H].
  - unfold exact. cbn [len_go encode_into] in *. rewrite naked_len_2 in *.
    apply (exact_naked dst Disconnect); [right; right; split; reflexivity | exact H].
Qed.
