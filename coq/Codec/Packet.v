(* Packet.v — the packet values of MQTT 3.1.1 as the Go structs of /repo/packet
   hold them.  Definitions only (extractable); no proofs here.

   Go type            model
   string / []byte    list byte
   packet.ID uint16   N   (wf: 1..65535)
   packet.QOS byte    N
   uint16 keep alive  N
   *Message (will)    option message
*)
From Coq Require Import List NArith Bool.
From Coq.Strings Require Import Byte.
Import ListNotations.
Open Scope N_scope.

Definition bytes := list byte.

Record message := Msg {
  m_topic   : bytes;
  m_payload : bytes;
  m_qos     : N;
  m_retain  : bool }.

Record connect := Conn {
  c_client_id  : bytes;
  c_keep_alive : N;
  c_username   : bytes;
  c_password   : bytes;
  c_clean      : bool;
  c_will       : option message;
  c_version    : N }.

Inductive packet :=
| Connect     (c : connect)
| Connack     (sp : bool) (rc : N)
| Publish     (dup : bool) (m : message) (id : N)
| Puback      (id : N)
| Pubrec      (id : N)
| Pubrel      (id : N)
| Pubcomp     (id : N)
| Subscribe   (id : N) (subs : list (bytes * N))
| Suback      (id : N) (codes : list N)
| Unsubscribe (id : N) (topics : list bytes)
| Unsuback    (id : N)
| Pingreq
| Pingresp
| Disconnect.

(* packet.Type: the 14 valid type nibbles *)
Inductive ptype :=
| TConnect | TConnack | TPublish | TPuback | TPubrec | TPubrel | TPubcomp
| TSubscribe | TSuback | TUnsubscribe | TUnsuback | TPingreq | TPingresp | TDisconnect.

Definition type_code (t : ptype) : N :=
  match t with
  | TConnect => 1 | TConnack => 2 | TPublish => 3 | TPuback => 4 | TPubrec => 5
  | TPubrel => 6 | TPubcomp => 7 | TSubscribe => 8 | TSuback => 9
  | TUnsubscribe => 10 | TUnsuback => 11 | TPingreq => 12 | TPingresp => 13
  | TDisconnect => 14
  end.

Definition type_of_code (n : N) : option ptype :=
  match n with
  | 1 => Some TConnect | 2 => Some TConnack | 3 => Some TPublish | 4 => Some TPuback
  | 5 => Some TPubrec | 6 => Some TPubrel | 7 => Some TPubcomp | 8 => Some TSubscribe
  | 9 => Some TSuback | 10 => Some TUnsubscribe | 11 => Some TUnsuback
  | 12 => Some TPingreq | 13 => Some TPingresp | 14 => Some TDisconnect
  | _ => None
  end.

Definition all_types : list ptype :=
  [TConnect; TConnack; TPublish; TPuback; TPubrec; TPubrel; TPubcomp;
   TSubscribe; TSuback; TUnsubscribe; TUnsuback; TPingreq; TPingresp; TDisconnect].

Definition ptype_of (p : packet) : ptype :=
  match p with
  | Connect _ => TConnect | Connack _ _ => TConnack | Publish _ _ _ => TPublish
  | Puback _ => TPuback | Pubrec _ => TPubrec | Pubrel _ => TPubrel | Pubcomp _ => TPubcomp
  | Subscribe _ _ => TSubscribe | Suback _ _ => TSuback | Unsubscribe _ _ => TUnsubscribe
  | Unsuback _ => TUnsuback | Pingreq => TPingreq | Pingresp => TPingresp
  | Disconnect => TDisconnect
  end.

Definition ptype_eqb (a b : ptype) : bool := N.eqb (type_code a) (type_code b).

(* Type.defaultFlags *)
Definition default_flags (t : ptype) : N :=
  match t with
  | TPubrel | TSubscribe | TUnsubscribe => 2
  | _ => 0
  end.

(* packet.GetID: the 9 id-bearing types *)
Definition get_id (p : packet) : option N :=
  match p with
  | Publish _ _ id | Puback id | Pubrec id | Pubrel id | Pubcomp id
  | Subscribe id _ | Suback id _ | Unsubscribe id _ | Unsuback id => Some id
  | _ => None
  end.

(* decidable equality on packets, as booleans (used by the extracted drivers) *)
Definition byte_eqb (a b : byte) : bool := Byte.eqb a b.

Fixpoint bytes_eqb (a b : bytes) : bool :=
  match a, b with
  | [], [] => true
  | x :: a', y :: b' => Byte.eqb x y && bytes_eqb a' b'
  | _, _ => false
  end.

Definition message_eqb (a b : message) : bool :=
  bytes_eqb (m_topic a) (m_topic b) && bytes_eqb (m_payload a) (m_payload b) &&
  N.eqb (m_qos a) (m_qos b) && Bool.eqb (m_retain a) (m_retain b).

Definition option_eqb {A} (eqb : A -> A -> bool) (a b : option A) : bool :=
  match a, b with
  | None, None => true
  | Some x, Some y => eqb x y
  | _, _ => false
  end.

Fixpoint list_eqb {A} (eqb : A -> A -> bool) (a b : list A) : bool :=
  match a, b with
  | [], [] => true
  | x :: a', y :: b' => eqb x y && list_eqb eqb a' b'
  | _, _ => false
  end.

Definition connect_eqb (a b : connect) : bool :=
  bytes_eqb (c_client_id a) (c_client_id b) && N.eqb (c_keep_alive a) (c_keep_alive b) &&
  bytes_eqb (c_username a) (c_username b) && bytes_eqb (c_password a) (c_password b) &&
  Bool.eqb (c_clean a) (c_clean b) && option_eqb message_eqb (c_will a) (c_will b) &&
  N.eqb (c_version a) (c_version b).

Definition packet_eqb (a b : packet) : bool :=
  match a, b with
  | Connect x, Connect y => connect_eqb x y
  | Connack s r, Connack s' r' => Bool.eqb s s' && N.eqb r r'
  | Publish d m i, Publish d' m' i' => Bool.eqb d d' && message_eqb m m' && N.eqb i i'
  | Puback i, Puback j | Pubrec i, Pubrec j | Pubrel i, Pubrel j | Pubcomp i, Pubcomp j
  | Unsuback i, Unsuback j => N.eqb i j
  | Subscribe i s, Subscribe j s' =>
      N.eqb i j && list_eqb (fun x y => bytes_eqb (fst x) (fst y) && N.eqb (snd x) (snd y)) s s'
  | Suback i c, Suback j c' => N.eqb i j && list_eqb N.eqb c c'
  | Unsubscribe i t, Unsubscribe j t' => N.eqb i j && list_eqb bytes_eqb t t'
  | Pingreq, Pingreq | Pingresp, Pingresp | Disconnect, Disconnect => true
  | _, _ => false
  end.
