(* DecProofsFwd.v — C02: admitted application messages are forwardable; DetectPacket
   agrees with the header-declared extent; what holds of CONNECT locality. *)
From Coq Require Import List NArith ZArith Bool Lia ZifyN ZifyNat ZifyBool.
From Coq.Strings Require Import Byte.
From GM Require Import Codec.Packet Codec.WF Codec.Dec Codec.RefDecode Codec.DecProofsBase Codec.DecProofsSafe
     Codec.DecProofsLocal.
Import ListNotations.
Open Scope N_scope.
Ltac Zify.zify_post_hook ::= Z.div_mod_to_equations.

(* ---------- forwardable ---------- *)
Lemma forwardable_intro m :
  len (m_topic m) <> 0 -> len (m_topic m) <= 65535 -> m_qos m <= 2 ->
  2 + len (m_topic m) + (if m_qos m =? 0 then 0 else 2) + len (m_payload m) <= 268435455 ->
  forwardable m.
Proof.
  intros Hne Ht Hq Hb q id retain Hle Hid.
  unfold wf, body_len, msg_ok, str_ok, qos_ok, lp, max_remaining, id_ok in *.
  cbn [m_topic m_payload m_qos m_retain].
  change (WF.blen (m_topic m)) with (len (m_topic m)). change (WF.blen (m_payload m)) with (len (m_payload m)).
  assert (Hn : nonempty (m_topic m) = true).
  { destruct (m_topic m); [rewrite len_nil in Hne; lia | reflexivity]. }
  rewrite Hn. destruct (q =? 0) eqn:E0; destruct (m_qos m =? 0) eqn:Em; try lia.
Qed.

(* a postcondition on successful results, threaded through the walk like `safe` *)
Definition post (P : packet -> N -> Prop) (r : dres) : Prop :=
  match r with DOk p n => P p n | _ => True end.

Lemma rd_at_post {A} P src total (f : bytes -> rd A) k :
  (forall v n, total <= len src -> f (skipn (N.to_nat total) src) = ROk v n -> post P (k v (total + n))) ->
  post P (rd_at src total f k).
Proof.
  intros Hk. unfold rd_at, slice_from. destruct (total <=? len src) eqn:E; [| exact I].
  destruct (f (skipn (N.to_nat total) src)) as [v n | n |] eqn:Ef; [| exact I | exact I].
  apply Hk; [lia | reflexivity].
Qed.

Lemma lp_value buf v n : read_lp_bytes buf = ROk v n -> len v <= 65535 /\ n = 2 + len v /\ n <= len buf.
Proof.
  intros H. destruct (lp_n _ _ _ H) as [H1 H2]. split; [| split; assumption].
  rewrite read_lp_bytes_eq in H. destruct buf as [| b0 [| b1 r]]; try discriminate.
  cbv zeta in H. destruct (len r <? 256 * b2n b0 + b2n b1) eqn:E; [discriminate |].
  apply ROk_inj in H. destruct H as [<- _]. rewrite len_firstn.
  pose proof (b2n_lt b0). pose proof (b2n_lt b1). lia.
Qed.

Definition will_forwardable (p : packet) (_ : N) : Prop :=
  match p with
  | Connect c => match c_will c with Some m => forwardable m | None => True end
  | _ => True
  end.

Ltac post_step :=
  match goal with
  | |- post _ (DErr _) => exact I
  | |- post _ DPanic => exact I
  | |- post _ (if ?b then _ else _) => destruct b eqn:?
  | |- post _ (rd_at _ _ _ _) =>
      apply rd_at_post; let v := fresh "v" in let n := fresh "n" in
                        let Ht := fresh "Ht" in let Hr := fresh "Hr" in intros v n Ht Hr
  end.

Lemma connect_will_forwardable src : post will_forwardable (decode_connect src).
Proof.
  unfold decode_connect. destruct (decode_header src TConnect) as [total flags rl | n |]; try exact I.
  cbv zeta. repeat (post_step; cbv zeta);
    cbn [post will_forwardable c_will]; try exact I;
    match goal with
    | Ht : read_lp_bytes _ = ROk ?wt _, Hp : read_lp_bytes _ = ROk ?wp _
      |- forwardable (Msg ?wt ?wp _ _) =>
        apply lp_value in Ht; apply lp_value in Hp;
        apply forwardable_intro; cbn [m_topic m_payload m_qos]
    end;
    try lia.
  all: rewrite qos_successful_le in *;
       repeat match goal with H : _ /\ _ |- _ => destruct H end;
       try match goal with |- context [if ?b then 0 else 2] => destruct b end; lia.
Qed.

Definition publish_forwardable (p : packet) (_ : N) : Prop :=
  match p with Publish _ m _ => forwardable m | _ => True end.

Lemma publish_msg_forwardable src : post publish_forwardable (decode_publish src).
Proof.
  unfold decode_publish.
  destruct (decode_header src TPublish) as [hl flags rl | n |] eqn:Eh; try exact I.
  destruct (header_ok_inv _ _ _ _ _ Eh) as (b0 & r & k & _ & _ & _ & _ & _ & Hhl & Hk1 & _ & Hl & Hrl).
  unfold slice_to. destruct (hl + rl <=? len src) eqn:El; [| exact I].
  set (src' := firstn (N.to_nat (hl + rl)) src).
  assert (Hs : len src' = hl + rl) by (unfold src'; rewrite len_firstn; lia).
  cbv zeta.
  set (qos := N.land (N.shiftr flags 1) 3).
  destruct (negb (qos_successful qos)) eqn:Eq; [exact I |].
  rewrite qos_successful_le in Eq.
  apply rd_at_post. intros topic n Ht Hr. apply lp_value in Hr. destruct Hr as (Hr1 & Hr2 & Hr3).
  rewrite len_skipn in Hr3.
  destruct (len topic =? 0) eqn:Et; [exact I |].
  assert (Hpay : forall dup retain id total,
     total = hl + n + (if qos =? 0 then 0 else 2) -> total <= len src' ->
     post publish_forwardable
       (let l := (Z.of_N rl - (Z.of_N total - Z.of_N hl))%Z in
        if (0 <? l)%Z
        then match slice src' total (total + Z.to_N l) with
             | Some payload => DOk (Publish dup (Msg topic payload qos retain) id) (total + len payload)
             | None => DPanic
             end
        else DOk (Publish dup (Msg topic [] qos retain) id) total)).
  { intros dup retain id total Htot Hle. cbv zeta.
    destruct (0 <? Z.of_N rl - (Z.of_N total - Z.of_N hl))%Z eqn:E0.
    - destruct (slice src' total (total + Z.to_N (Z.of_N rl - (Z.of_N total - Z.of_N hl)))) as [p |] eqn:Es; [| exact I].
      apply slice_some in Es. destruct Es as [Es _].
      cbn [post publish_forwardable]. apply forwardable_intro; cbn [m_topic m_payload m_qos];
        first [lia | destruct (qos =? 0) eqn:Eq0; lia].
    - cbn [post publish_forwardable]. apply forwardable_intro; cbn [m_topic m_payload m_qos]; rewrite ?len_nil;
        first [lia | destruct (qos =? 0) eqn:Eq0; lia]. }
  destruct (negb (qos =? 0)) eqn:Eq0.
  - destruct (len src' <? hl + n + 2) eqn:E2; [exact I |].
    apply rd_at_post. intros pid n' Ht' Hr'. apply uint2_n in Hr'. subst n'.
    destruct (pid =? 0); [exact I |].
    apply Hpay; [| lia]. destruct (qos =? 0); [discriminate | lia].
  - apply Hpay; [| lia]. destruct (qos =? 0); [lia | discriminate].
Qed.

Theorem publish_forwardable_thm bs d m id n :
  decode_go TPublish bs = DOk (Publish d m id) n -> forwardable m.
Proof.
  cbn [decode_go]. intros H. pose proof (publish_msg_forwardable bs) as P. rewrite H in P. exact P.
Qed.

Theorem will_forwardable_thm bs c m n :
  decode_go TConnect bs = DOk (Connect c) n -> c_will c = Some m -> forwardable m.
Proof.
  cbn [decode_go]. intros H Hw. pose proof (connect_will_forwardable bs) as P. rewrite H in P.
  cbn [post will_forwardable] in P. rewrite Hw in P. exact P.
Qed.

(* ---------- DetectPacket ---------- *)
Theorem detect_agrees bs l t n :
  detect_go bs = Detected l t -> extent bs = Some n ->
  l = Z.of_N n /\ exists b0 r, bs = b0 :: r /\ t = nibble_hi b0.
Proof.
  intros Hd He. destruct (extent_inv _ _ He) as (b0 & r & rl & k & -> & Er & -> & Hk1 & Hk4 & Hkl).
  unfold detect_go in Hd.
  assert (Hl : len (b0 :: r) <? 2 = false) by (rewrite len_cons; lia).
  rewrite Hl in Hd. change (index (b0 :: r) 0) with (Some b0) in Hd. cbv iota beta zeta in Hd.
  rewrite slice_from_ok in Hd by (rewrite len_cons; lia).
  change (skipn (N.to_nat 1) (b0 :: r)) with r in Hd.
  unfold uvarint in Hd. unfold remaining_length in Er.
  destruct (uvarint_loop_some 4 r 0 0 0 1 rl k _ eq_refl eq_refl ltac:(lia) ltac:(lia) Er) as (H1 & H2 & _).
  rewrite H1 in Hd. cbn [N.add] in Hd.
  assert (Hrl : rl < 268435456).
  { assert (Hp : 128 ^ k <= 128 ^ 4) by (apply N.pow_le_mono_r; lia).
    change (128 ^ 4) with 268435456 in Hp. lia. }
  assert (Hw : wrap_int64 (1 + Z.of_N k + int64_of_u64 rl) = Z.of_N (1 + k + rl)).
  { unfold int64_of_u64. destruct (rl <? 9223372036854775808) eqn:E; [| lia].
    unfold wrap_int64. lia. }
  rewrite Hw in Hd. injection Hd as <- <-. split; [reflexivity |].
  exists b0, r. split; [reflexivity |]. apply shiftr4.
Qed.

(* ---------- CONNECT: successful decodes are stable under extension ---------- *)
Definition ext_stable {A} (f : bytes -> rd A) : Prop :=
  forall buf ext v n, f buf = ROk v n -> f (buf ++ ext) = ROk v n.

Lemma stable_u8 : ext_stable read_uint8.
Proof.
  intros buf ext v n. rewrite !read_uint8_eq. destruct buf as [| b r]; [discriminate | trivial].
Qed.

Lemma stable_u16 : ext_stable (fun buf => read_uint buf 2).
Proof.
  intros buf ext v n. cbv beta. rewrite !read_uint_2. destruct buf as [| b0 [| b1 r]]; try discriminate. trivial.
Qed.

Lemma stable_lp : ext_stable read_lp_bytes.
Proof.
  intros buf ext v n. rewrite !read_lp_bytes_eq. destruct buf as [| b0 [| b1 r]]; try discriminate.
  cbn [app]. cbv zeta. set (l := 256 * b2n b0 + b2n b1).
  destruct (len r <? l) eqn:E; [discriminate |].
  rewrite len_app. destruct (len r + len ext <? l) eqn:E'; [lia |].
  rewrite firstn_app. replace (N.to_nat l - length r)%nat with 0%nat by (unfold len in E; lia).
  cbn [firstn]. rewrite app_nil_r. trivial.
Qed.

Lemma skipn_app_le {A} (n : nat) (l1 l2 : list A) : (n <= length l1)%nat -> skipn n (l1 ++ l2) = skipn n l1 ++ l2.
Proof.
  intros H. rewrite skipn_app. replace (n - length l1)%nat with 0%nat by lia. reflexivity.
Qed.

Lemma rd_at_ext {A} src ext total (f : bytes -> rd A) k k' p m :
  ext_stable f ->
  rd_at src total f k = DOk p m ->
  (forall v t', k v t' = DOk p m -> k' v t' = DOk p m) ->
  rd_at (src ++ ext) total f k' = DOk p m.
Proof.
  intros Hs H Hk. unfold rd_at, slice_from in *.
  destruct (total <=? len src) eqn:E; [| discriminate].
  rewrite len_app. destruct (total <=? len src + len ext) eqn:E'; [| lia].
  rewrite skipn_app_le by (unfold len in E; lia).
  destruct (f (skipn (N.to_nat total) src)) as [v n | n |] eqn:Ef; try discriminate.
  rewrite (Hs _ ext _ _ Ef). apply Hk. exact H.
Qed.

Lemma header_ext src ext t a b c :
  decode_header src t = HOk a b c -> decode_header (src ++ ext) t = HOk a b c.
Proof.
  intros H. destruct (header_ok_inv _ _ _ _ _ H) as (b0 & r & k & -> & Hty & -> & Hfl & Er & -> & Hk1 & Hk4 & Hl & _).
  rewrite decode_header_eq in *. unfold header_spec in *. cbn [app].
  destruct r as [| x y]; [discriminate |]. cbn [app].
  destruct (negb _); [discriminate |]. destruct (_ && _); [discriminate |].
  change (x :: y ++ ext) with ((x :: y) ++ ext).
  unfold remaining_length in *.
  rewrite (remlen_prefix _ _ _ ((x :: y) ++ ext) _ _ _ Er).
  - rewrite Er in H. rewrite len_skipn, len_app. rewrite len_skipn in H.
    destruct (len (x :: y) - N.of_nat (N.to_nat k) <? c) eqn:E1; [discriminate |].
    destruct (len (x :: y) + len ext - N.of_nat (N.to_nat k) <? c) eqn:E2; [lia | reflexivity].
  - rewrite firstn_app. rewrite len_cons in Hl.
    replace (N.to_nat k - length (x :: y))%nat with 0%nat by (unfold len in Hl; cbn [length] in *; lia).
    cbn [firstn]. apply app_nil_r.
Qed.

Ltac ext_step :=
  match goal with
  | H : DErr _ = DOk _ _ |- _ => discriminate H
  | H : DPanic = DOk _ _ |- _ => discriminate H
  | H : (if ?b then _ else _) = DOk _ _ |- _ => destruct b eqn:?
  | H : rd_at ?src ?total ?f ?k = DOk ?p ?m |- rd_at (?src ++ ?ext) ?total ?f ?k' = DOk ?p ?m =>
      apply (rd_at_ext src ext total f k k' p m);
      [ first [exact stable_u8 | exact stable_u16 | exact stable_lp] | exact H
      | let v := fresh "v" in let t' := fresh "t'" in let H' := fresh "H'" in
        clear H; intros v t' H'; cbv beta in * ]
  | H : ?x = DOk _ _ |- ?x = DOk _ _ => exact H
  end.

Theorem connect_ok_ext src ext p m :
  decode_connect src = DOk p m -> decode_connect (src ++ ext) = DOk p m.
Proof.
  unfold decode_connect.
  destruct (decode_header src TConnect) as [total flags rl | n |] eqn:Eh; try discriminate.
  rewrite (header_ext _ ext _ _ _ _ Eh). cbv zeta. intros H.
  repeat (ext_step; cbv zeta in * ).
Qed.

(* C02_local_connect_partial *)
Theorem connect_local_partial bs tail n p m :
  extent bs = Some n -> n <= len bs ->
  decode_go TConnect (firstn (N.to_nat n) bs) = DOk p m ->
  decode_go TConnect (bs ++ tail) = DOk p m.
Proof.
  intros He Hn H. cbn [decode_go] in *.
  rewrite <- (firstn_skipn (N.to_nat n) bs). rewrite <- app_assoc.
  apply connect_ok_ext. exact H.
Qed.
