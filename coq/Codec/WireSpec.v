(* WireSpec.v — the wire format of MQTT 3.1.1 control packets, written from the
   OASIS standard (sections 1.5, 2 and 3), NOT from the Go code.  Definitions only.

   A control packet is   fixed header ++ variable header ++ payload   (2.1):

     fixed header   = one byte (type in bits 7-4, flags in bits 3-0; 2.2.1, 2.2.2)
                      followed by the Remaining Length (2.2.3)
     Remaining Length = number of bytes of variable header + payload, in the
                      variable length encoding of 2.2.3 (1 to 4 bytes)

   Nothing here mentions buffers, offsets or capacities.  A packet value that
   the standard does not allow (see WF.wf) still gets some byte string; the
   theorems only speak about well-formed values.

   Conventions of Packet.v: strings are byte lists; an empty username/password
   means "not present"; MQTT 3.1 (protocol level 3, name "MQIsdp") is accepted
   next to 3.1.1 (level 4, name "MQTT").                                       *)
From Coq Require Import List NArith Bool.
From Coq.Strings Require Import Byte.
From GM Require Import Codec.Packet.
Import ListNotations.
Open Scope N_scope.

Definition byte_of (n : N) : byte :=
  match Byte.of_N (n mod 256) with Some b => b | None => x00 end.

Definition size (b : bytes) : N := N.of_nat (length b).

(* 1.5.2  two byte integer, big-endian: MSB then LSB *)
Definition two_byte_int (n : N) : bytes := [byte_of (n / 256); byte_of (n mod 256)].

(* 1.5.3  UTF-8 encoded string / 3.1.3 binary data: two byte length, then the bytes *)
Definition prefixed (s : bytes) : bytes := two_byte_int (size s) ++ s.

(* 2.2.3  Remaining Length, the standard's encoding algorithm:
     do  encodedByte = X MOD 128;  X = X DIV 128
         if (X > 0) encodedByte = encodedByte OR 128
         output encodedByte
     while (X > 0)
   at most four bytes (values up to 268 435 455) *)
Fixpoint remaining_length_bytes (max_bytes : nat) (x : N) : bytes :=
  match max_bytes with
  | O => []
  | S more =>
      let encoded := x mod 128 in
      let x' := x / 128 in
      if 0 <? x' then byte_of (encoded + 128) :: remaining_length_bytes more x'
      else [byte_of encoded]
  end.
Definition remaining_length (x : N) : bytes := remaining_length_bytes 4 x.

(* 2.2.1 table 2.1: control packet type values *)
Definition type_value (p : packet) : N :=
  match p with
  | Connect _ => 1 | Connack _ _ => 2 | Publish _ _ _ => 3 | Puback _ => 4 | Pubrec _ => 5
  | Pubrel _ => 6 | Pubcomp _ => 7 | Subscribe _ _ => 8 | Suback _ _ => 9
  | Unsubscribe _ _ => 10 | Unsuback _ => 11 | Pingreq => 12 | Pingresp => 13 | Disconnect => 14
  end.

Definition bit (b : bool) : N := if b then 1 else 0.

(* 2.2.2 table 2.2: flag bits.  PUBLISH: DUP(3) QoS(2-1) RETAIN(0);
   PUBREL, SUBSCRIBE, UNSUBSCRIBE: 0010; all others 0000 *)
Definition flag_bits (p : packet) : N :=
  match p with
  | Publish dup m _ => 8 * bit dup + 2 * m_qos m + bit (m_retain m)
  | Pubrel _ | Subscribe _ _ | Unsubscribe _ _ => 2
  | _ => 0
  end.

(* 3.1.2 CONNECT variable header *)
Definition protocol_name (level : N) : bytes :=
  if level =? 3 then [x4d; x51; x49; x73; x64; x70]       (* "MQIsdp" (MQTT 3.1) *)
  else [x4d; x51; x54; x54].                              (* "MQTT" *)

Definition present (s : bytes) : bool := match s with [] => false | _ => true end.

(* 3.1.2.3 connect flags: user name(7) password(6) will retain(5) will QoS(4-3)
   will flag(2) clean session(1) reserved(0) = 0 *)
Definition connect_flag_byte (c : connect) : N :=
  128 * bit (present (c_username c)) + 64 * bit (present (c_password c))
  + match c_will c with
    | Some w => 32 * bit (m_retain w) + 8 * m_qos w + 4
    | None => 0
    end
  + 2 * bit (c_clean c).

Definition optional (s : bytes) : bytes := if present s then prefixed s else [].

(* the variable header (2.3, 3.x.2) *)
Definition variable_header (p : packet) : bytes :=
  match p with
  | Connect c =>
      prefixed (protocol_name (c_version c)) ++ [byte_of (c_version c)]
      ++ [byte_of (connect_flag_byte c)] ++ two_byte_int (c_keep_alive c)
  | Connack sp rc => [byte_of (bit sp); byte_of rc]                       (* 3.2.2 *)
  | Publish _ m id =>                                                     (* 3.3.2: id only at QoS 1, 2 *)
      prefixed (m_topic m) ++ (if m_qos m =? 0 then [] else two_byte_int id)
  | Puback id | Pubrec id | Pubrel id | Pubcomp id | Unsuback id
  | Subscribe id _ | Suback id _ | Unsubscribe id _ => two_byte_int id
  | Pingreq | Pingresp | Disconnect => []
  end.

(* the payload (2.4, 3.x.3) *)
Definition payload (p : packet) : bytes :=
  match p with
  | Connect c =>                                                          (* 3.1.3: in this order *)
      prefixed (c_client_id c)
      ++ match c_will c with
         | Some w => prefixed (m_topic w) ++ prefixed (m_payload w)
         | None => []
         end
      ++ optional (c_username c) ++ optional (c_password c)
  | Publish _ m _ => m_payload m                                          (* 3.3.3 *)
  | Subscribe _ subs =>                                                   (* 3.8.3: filter, requested QoS *)
      concat (map (fun s => prefixed (fst s) ++ [byte_of (snd s)]) subs)
  | Suback _ codes => map byte_of codes                                   (* 3.9.3 *)
  | Unsubscribe _ ts => concat (map prefixed ts)                          (* 3.10.3 *)
  | _ => []
  end.

Definition fixed_header (p : packet) (remaining : N) : bytes :=
  byte_of (16 * type_value p + flag_bits p) :: remaining_length remaining.

Definition wire_spec (p : packet) : bytes :=
  let body := variable_header p ++ payload p in
  fixed_header p (size body) ++ body.
