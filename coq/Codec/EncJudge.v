(* EncJudge.v — the clauses of C01 as boolean judges over what the harness OBSERVED the
   implementation do with one packet value (no model involved): the check evaluates them,
   extracted, on every case.  EncJudgeProofs.v proves that the model's own behaviour passes
   every judge for EVERY packet (so a failing judge is a failing property clause, never a
   quirk of the judge).  Definitions only. *)
From Coq Require Import List NArith Bool.
From Coq.Strings Require Import Byte.
From GM Require Import Codec.Packet Codec.WF Codec.Enc Codec.WireSpec.
From GM Require Codec.Dec.
Import ListNotations.
Open Scope N_scope.

Record obs := Obs {
  o_len    : N;                    (* Len() *)
  o_enc    : eres;                 (* Encode(make([]byte, Len())): count and dst[:count] *)
  o_len2   : N;                    (* Len() again, after Encode, same object *)
  o_again  : eres;                 (* a second Encode of the same object into a fresh Len()-byte buffer *)
  o_fill   : byte;                 (* the dirty buffer: Len()+extra bytes, all = fill *)
  o_extra  : N;
  o_dirty  : bres;                 (* Encode into it: count and the WHOLE buffer afterwards *)
  o_shorts : list (N * eres);      (* (capacity, outcome of Encode(make([]byte, capacity))) *)
  o_wr     : xres;                 (* Encoder.Write after a larger packet went through the pool *)
  o_rt     : Dec.dres }.           (* Type.New().Decode(dst[:count]) of the first Encode *)

Definition is_ok (r : eres) : bool := match r with EOk _ _ => true | _ => false end.
Definition is_err (r : eres) : bool := match r with EErr _ => true | _ => false end.
Definition not_panic (r : eres) : bool := match r with EPanic => false | _ => true end.

(* "writes exactly the number of bytes the packet reports as its length": for EVERY packet,
   whenever an Encode succeeds its count and the bytes it produced are Len() *)
Definition counts_len (L : N) (r : eres) : bool :=
  match r with EOk n bs => (n =? L) && (blen bs =? L) | _ => true end.

Definition j_len_is_written (p : packet) (o : obs) : bool :=
  counts_len (o_len o) (o_enc o) && counts_len (o_len o) (o_again o) && (o_len2 o =? o_len o) &&
  match o_dirty o with
  | BOk n d => (n =? o_len o) && (blen d =? o_len o + o_extra o)
  | _ => true
  end.

(* Len() is what the standard's layout occupies *)
Definition j_len_spec (p : packet) (o : obs) : bool :=
  negb (wf p) || ((o_len o =? total_len p) && (o_len o =? blen (wire_spec p))).

(* "for every well-formed packet … encoding succeeds"; and no Encode ever panics *)
Definition j_encode_total (p : packet) (o : obs) : bool :=
  not_panic (o_enc o) && not_panic (o_again o) && forallb (fun cr => not_panic (snd cr)) (o_shorts o) &&
  match o_dirty o with BPanic => false | _ => true end &&
  (negb (wf p) || (is_ok (o_enc o) && is_ok (o_again o))).

(* "… and produces the byte layout the specification mandates" — every time it is encoded *)
Definition has_layout (p : packet) (r : eres) : bool :=
  match r with EOk _ bs => bytes_eqb bs (wire_spec p) | _ => false end.
Definition j_layout (p : packet) (o : obs) : bool :=
  negb (wf p) || (has_layout p (o_enc o) && has_layout p (o_again o)).

(* a dirty, larger destination: the first Len() bytes are the layout whatever the buffer held,
   and nothing beyond them is written *)
Definition j_dirty (p : packet) (o : obs) : bool :=
  negb (wf p) ||
  match o_dirty o with
  | BOk _ d => bytes_eqb d (wire_spec p ++ repeat (o_fill o) (N.to_nat (o_extra o)))
  | _ => false
  end.

(* a destination shorter than Len(): an error, for every packet *)
Definition j_short (p : packet) (o : obs) : bool :=
  forallb (fun cr => negb (fst cr <? o_len o) || is_err (snd cr)) (o_shorts o).

(* the stream encoder puts exactly the layout on the wire (no stale pool bytes), and never
   more or fewer bytes than Len() *)
Definition j_wire_exact (p : packet) (o : obs) : bool :=
  match o_wr o with
  | XSent bs => (blen bs =? o_len o) && (negb (wf p) || bytes_eqb bs (wire_spec p))
  | XErr => negb (wf p)
  | XPanic => false
  end.

(* "decoding those bytes consumes all of them and yields a packet equal to the original" *)
Definition j_roundtrip (p : packet) (o : obs) : bool :=
  negb (wf p) ||
  match o_rt o with
  | Dec.DOk q n => packet_eqb q p && (n =? o_len o)
  | _ => false
  end.

(* several packets through ONE stream encoder (asynchronous writes, then Flush): the wire
   carries the concatenation of their layouts *)
Definition j_stream (ps : list packet) (wire : bytes) : bool :=
  negb (forallb wf ps) || bytes_eqb wire (concat (map wire_spec ps)).

(* encodeHeader alone: with room for the header and tl bytes and a representable remaining
   length it writes type/flags and the 2.2.3 encoding *)
Definition header_bytes (t : ptype) (flags rl : N) : bytes :=
  byte_of (16 * type_code t + N.lor (default_flags t) flags) :: remaining_length rl.
Definition j_header (t : ptype) (flags rl tl cap : N) (r : bres) : bool :=
  if (cap <? header_len_go rl) || (cap <? tl) then match r with BErr _ => true | _ => false end   (* too short: an error *)
  else if 268435455 <? rl then match r with BErr _ => true | _ => false end                        (* not representable *)
  else if flags <? 16 then
    match r with
    | BOk n d => (n =? blen (header_bytes t flags rl)) && bytes_eqb (take n d) (header_bytes t flags rl)
                 && (blen d =? cap)
    | _ => false
    end
  else match r with BPanic => false | _ => true end.

(* ---------------------------------------------------------------- the model's own observations *)
Definition model_obs (p : packet) (fill : byte) (extra : N) (caps : list N) (prior : bytes) : obs :=
  let L := len_go p in
  let e := encode_go L p in
  Obs L e L e fill extra
      (encode_into (repeat fill (N.to_nat (L + extra))) p)
      (map (fun c => (c, encode_go c p)) caps)
      (encoder_write prior p)
      (match e with EOk _ bs => Dec.decode_go (ptype_of p) bs | _ => Dec.DErr 0 end).

Definition all_judges (p : packet) (o : obs) : bool :=
  j_len_is_written p o && j_len_spec p o && j_encode_total p o && j_layout p o && j_dirty p o &&
  j_short p o && j_wire_exact p o && j_roundtrip p o.
