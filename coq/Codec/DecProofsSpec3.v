(* DecProofsSpec3.v — C02 spec equivalence, part 3: CONNECT on framed buffers, and
   the theorems: every type on framed buffers, every type but CONNECT on arbitrary ones. *)
From Coq Require Import List NArith ZArith Bool Lia ZifyN ZifyNat ZifyBool.
From Coq.Strings Require Import Byte.
From GM Require Import Codec.Packet Codec.Dec Codec.RefDecode Codec.DecProofsBase Codec.DecProofsSafe
     Codec.DecProofsLocal Codec.DecProofsSpec Codec.DecProofsSpec2.
Import ListNotations.
Open Scope N_scope.
Ltac Zify.zify_post_hook ::= Z.div_mod_to_equations.

(* ---------- CONNECT ---------- *)
Lemma connect_flag_bits b :
  bit (b2n b) 7 = testbit (b2n b) 7 /\ bit (b2n b) 6 = testbit (b2n b) 6 /\
  bit (b2n b) 5 = testbit (b2n b) 5 /\ bit (b2n b) 2 = testbit (b2n b) 2 /\
  bit (b2n b) 1 = testbit (b2n b) 1 /\
  N.land (N.shiftr (b2n b) 3) 3 = (b2n b / 8) mod 4 /\
  (N.land (b2n b) 1 =? 0) = negb (testbit (b2n b) 0).
Proof. destruct b; repeat split; reflexivity. Qed.

Lemma version_check name v :
  (if negb (v =? 4) && negb (v =? 3) then true else negb (bytes_eqb name (version_name v)))
  = negb ((bytes_eqb name MQTT && (v =? 4)) || (bytes_eqb name MQIsdp && (v =? 3))).
Proof.
  unfold version_name.
  destruct (v =? 4) eqn:E4; destruct (v =? 3) eqn:E3; cbn [negb andb]; try lia.
  - rewrite andb_true_r, andb_false_r, orb_false_r. reflexivity.
  - rewrite andb_true_r, andb_false_r. reflexivity.
Qed.

(* the last statement of Connect.Decode against the end of the body *)
Lemma connect_fin src total rs (end_ : N) (p : packet) :
  at_ src total rs -> end_ = len src ->
  ok_part (if total <? end_ then DErr total else DOk p total) =
  match (match Some (p, rs) with
         | Some (a, []) => Some a
         | Some (a, _ :: _) => None
         | None => None
         end) with
  | Some q => Some (q, len src)
  | None => None
  end.
Proof.
  intros Hat ->. pose proof (at_len _ _ _ Hat) as Hl. destruct Hat as [Ht _].
  destruct rs as [| x y].
  - rewrite len_nil in Hl. destruct (total <? len src) eqn:E; [lia |].
    cbn [ok_part]. do 2 f_equal. lia.
  - rewrite len_cons in Hl. destruct (total <? len src) eqn:E; [reflexivity | lia].
Qed.

Ltac lp_step Hat v rs Ep Hat' := step rp_lp Hat v rs Ep Hat'; [| reflexivity].

Lemma connect_framed src b0 k rl body :
  framed src b0 k rl body ->
  ok_part (decode_connect src) = ref_decode TConnect src.
Proof.
  intros F. unfold decode_connect. apply (framed_reduce _ _ _ _ _ _ _ F).
  pose proof (fr_len _ _ _ _ _ F) as Hl. pose proof (fr_total _ _ _ _ _ F) as Ht.
  pose proof (fr_at _ _ _ _ _ F) as Hat.
  assert (Hend : 1 + k + rl = len src) by lia.
  cbn [body_grammar]. unfold connect_body, parse_all. unfold bind, guard, ret. cbv zeta.
  lp_step Hat name rs1 Ep1 Hat1.
  step rp_u8 Hat1 v rs2 Ep2 Hat2; [| reflexivity].
  (* protocol name and level *)
  pose proof (version_check name v) as Hv.
  destruct (negb (v =? 4) && negb (v =? 3)) eqn:Ev.
  { symmetry in Hv. apply negb_true_iff in Hv. rewrite Hv. reflexivity. }
  destruct (negb (bytes_eqb name (version_name v))) eqn:En.
  { symmetry in Hv. apply negb_true_iff in Hv. rewrite Hv. reflexivity. }
  symmetry in Hv. apply negb_false_iff in Hv. rewrite Hv.
  (* connect flags *)
  step rp_u8 Hat2 cf rs3 Ep3 Hat3; [| reflexivity].
  destruct (u8_byte _ _ _ Ep3) as [fb ->].
  destruct (connect_flag_bits fb) as (B7 & B6 & B5 & B2 & B1 & BQ & B0).
  rewrite B7, B6, B5, B2, B1, BQ, B0.
  set (uf := testbit (b2n fb) 7). set (pf := testbit (b2n fb) 6). set (wr := testbit (b2n fb) 5).
  set (wf := testbit (b2n fb) 2). set (clean := testbit (b2n fb) 1). set (wq := (b2n fb / 8) mod 4).
  destruct (negb (testbit (b2n fb) 0)); [| reflexivity]. cbn [negb].
  rewrite qos_successful_le. destruct (wq <=? 2) eqn:Eq; [| reflexivity]. cbn [negb].
  replace (negb wf && (wr || negb (wq =? 0))) with (negb (wf || ((wq =? 0) && negb wr)))
    by (destruct wf, wr, (wq =? 0); reflexivity).
  destruct (wf || ((wq =? 0) && negb wr)) eqn:Ew; [| reflexivity]. cbn [negb].
  replace (negb uf && pf) with (negb (uf || negb pf)) by (destruct uf, pf; reflexivity).
  destruct (uf || negb pf) eqn:Eu; [| reflexivity]. cbn [negb].
  (* keep alive, client id *)
  step rp_u16 Hat3 ka rs4 Ep4 Hat4; [| reflexivity].
  lp_step Hat4 cid rs5 Ep5 Hat5.
  change (blen cid) with (len cid).
  replace ((len cid =? 0) && negb clean) with (negb (negb (len cid =? 0) || clean))
    by (destruct (len cid =? 0), clean; reflexivity).
  destruct (negb (len cid =? 0) || clean) eqn:Ec; [| reflexivity]. cbn [negb].
  (* will, username, password *)
  destruct wf.
  - lp_step Hat5 wt rs6 Ep6 Hat6.
    change (blen wt) with (len wt).
    destruct (len wt =? 0) eqn:Ewt; [reflexivity |]. cbn [negb].
    lp_step Hat6 wp rs7 Ep7 Hat7.
    destruct uf.
    + lp_step Hat7 un rs8 Ep8 Hat8.
      destruct pf.
      * lp_step Hat8 pw rs9 Ep9 Hat9. apply (connect_fin _ _ _ _ _ Hat9 Hend).
      * apply (connect_fin _ _ _ _ _ Hat8 Hend).
    + destruct pf.
      * lp_step Hat7 pw rs9 Ep9 Hat9. apply (connect_fin _ _ _ _ _ Hat9 Hend).
      * apply (connect_fin _ _ _ _ _ Hat7 Hend).
  - destruct uf.
    + lp_step Hat5 un rs8 Ep8 Hat8.
      destruct pf.
      * lp_step Hat8 pw rs9 Ep9 Hat9. apply (connect_fin _ _ _ _ _ Hat9 Hend).
      * apply (connect_fin _ _ _ _ _ Hat8 Hend).
    + destruct pf.
      * lp_step Hat5 pw rs9 Ep9 Hat9. apply (connect_fin _ _ _ _ _ Hat9 Hend).
      * apply (connect_fin _ _ _ _ _ Hat5 Hend).
Qed.

(* ---------- every type, framed ---------- *)
Theorem spec_framed t src :
  extent src = Some (len src) -> ok_part (decode_go t src) = ref_decode t src.
Proof.
  intros He. destruct (framed_intro _ He) as (b0 & k & rl & body & F).
  destruct t; cbn [decode_go].
  - apply (connect_framed _ _ _ _ _ F).
  - apply (connack_framed _ _ _ _ _ F).
  - apply (publish_framed _ _ _ _ _ F).
  - apply (identified_framed _ _ _ _ _ _ _ F). reflexivity.
  - apply (identified_framed _ _ _ _ _ _ _ F). reflexivity.
  - apply (identified_framed _ _ _ _ _ _ _ F). reflexivity.
  - apply (identified_framed _ _ _ _ _ _ _ F). reflexivity.
  - apply (subscribe_framed _ _ _ _ _ F).
  - apply (suback_framed _ _ _ _ _ F).
  - apply (unsubscribe_framed _ _ _ _ _ F).
  - apply (identified_framed _ _ _ _ _ _ _ F). reflexivity.
  - apply (naked_framed _ _ _ _ _ _ _ F). reflexivity.
  - apply (naked_framed _ _ _ _ _ _ _ F). reflexivity.
  - apply (naked_framed _ _ _ _ _ _ _ F). reflexivity.
Qed.

(* ---------- arbitrary buffers ---------- *)
(* the reference decoder is local by construction *)
Lemma ref_extent t src p m : ref_decode t src = Some (p, m) -> extent src = Some m /\ m <= len src.
Proof.
  unfold ref_decode, extent. destruct src as [| b0 r]; [discriminate |].
  destruct (negb _); [discriminate |]. destruct (_ && _); [discriminate |].
  destruct (remaining_length r) as [[[rl k] after] |] eqn:Er; [| discriminate].
  destruct (remlen_bounds _ _ _ _ _ _ Er) as (H1 & H2 & H3 & H4).
  destruct (blen after <? rl) eqn:E; [discriminate |].
  destruct (parse_all _ _); [| discriminate].
  intros H. apply Some_inj2 in H. destruct H as [_ <-]. split; [reflexivity |].
  subst after. change (blen (skipn (N.to_nat k) r)) with (len (skipn (N.to_nat k) r)) in E.
  rewrite len_skipn in E. rewrite len_cons. lia.
Qed.

Lemma ref_trunc t src n :
  extent src = Some n -> n <= len src -> ref_decode t (firstn (N.to_nat n) src) = ref_decode t src.
Proof.
  intros He Hn. destruct (extent_inv _ _ He) as (b0 & r & rl & k & -> & Er & -> & Hk1 & Hk4 & Hkl).
  rewrite len_cons in Hn.
  replace (N.to_nat (1 + k + rl)) with (S (N.to_nat (k + rl))) by lia. cbn [firstn].
  unfold ref_decode.
  destruct (negb _); [reflexivity |]. destruct (_ && _); [reflexivity |].
  assert (Er' : remaining_length (firstn (N.to_nat (k + rl)) r)
                = Some (rl, k, skipn (N.to_nat k) (firstn (N.to_nat (k + rl)) r))).
  { apply (remlen_prefix _ _ _ _ _ _ _ Er). apply firstn_firstn_le. lia. }
  rewrite Er, Er'.
  change blen with len. rewrite !len_skipn, len_firstn.
  assert (E1 : (N.min (N.of_nat (N.to_nat (k + rl))) (len r) - N.of_nat (N.to_nat k) <? rl) = false) by lia.
  assert (E2 : (len r - N.of_nat (N.to_nat k) <? rl) = false) by lia.
  rewrite E1, E2.
  rewrite skipn_firstn_comm. rewrite firstn_firstn.
  replace (Nat.min (N.to_nat rl) (N.to_nat (k + rl) - N.to_nat k)) with (N.to_nat rl) by lia.
  reflexivity.
Qed.

Lemma extent_firstn src n :
  extent src = Some n -> n <= len src ->
  extent (firstn (N.to_nat n) src) = Some (len (firstn (N.to_nat n) src)).
Proof.
  intros He Hn. rewrite len_firstn. replace (N.min (N.of_nat (N.to_nat n)) (len src)) with n by lia.
  destruct (extent_inv _ _ He) as (b0 & r & rl & k & -> & Er & -> & Hk1 & Hk4 & Hkl).
  replace (N.to_nat (1 + k + rl)) with (S (N.to_nat (k + rl))) by lia. cbn [firstn extent].
  unfold remaining_length in *.
  rewrite (remlen_prefix _ _ _ (firstn (N.to_nat (k + rl)) r) _ _ _ Er); [reflexivity |].
  apply firstn_firstn_le. lia.
Qed.

(* a successful Go decode implies a header-declared extent inside the buffer *)
Lemma header_extent src t total flags rl :
  decode_header src t = HOk total flags rl -> extent src = Some (total + rl) /\ total + rl <= len src.
Proof.
  intros H. destruct (header_ok_inv _ _ _ _ _ H) as (b0 & r & k & -> & _ & _ & _ & Er & -> & _ & _ & Hl & _).
  split; [| assumption]. cbn [extent]. rewrite Er. reflexivity.
Qed.

Lemma go_extent t src p m :
  decode_go t src = DOk p m -> exists n, extent src = Some n /\ n <= len src.
Proof.
  assert (G : forall t', (exists a b c, decode_header src t' = HOk a b c) ->
                         exists n, extent src = Some n /\ n <= len src).
  { intros t' (a & b & c & H). apply header_extent in H. eauto. }
  destruct t; cbn [decode_go];
    unfold decode_connect, decode_connack, decode_publish, decode_identified, decode_subscribe,
           decode_suback, decode_unsubscribe, decode_naked;
    match goal with
    | |- context [decode_header src ?t'] =>
        destruct (decode_header src t') as [a b c | e |] eqn:E; [intros _; apply (G t'); eauto | discriminate | discriminate]
    end.
Qed.

Theorem spec_equiv_eq t src :
  t <> TConnect -> ok_part (decode_go t src) = ref_decode t src.
Proof.
  intros Ht.
  destruct (extent src) as [n |] eqn:He.
  - destruct (n <=? len src) eqn:Hn.
    + rewrite <- (decode_trunc t src n Ht He) by lia.
      rewrite <- (ref_trunc t src n He) by lia.
      apply spec_framed. apply extent_firstn; [assumption | lia].
    + destruct (decode_go t src) as [p m | m |] eqn:Eg; cbn [ok_part].
      * destruct (go_extent _ _ _ _ Eg) as (n' & He' & Hn'). rewrite He in He'.
        apply Some_inj in He'. subst n'. lia.
      * destruct (ref_decode t src) as [[p' m'] |] eqn:Er; [| reflexivity].
        destruct (ref_extent _ _ _ _ Er) as [He' Hn']. rewrite He in He'. apply Some_inj in He'. subst m'. lia.
      * destruct (ref_decode t src) as [[p' m'] |] eqn:Er; [| reflexivity].
        destruct (ref_extent _ _ _ _ Er) as [He' Hn']. rewrite He in He'. apply Some_inj in He'. subst m'. lia.
  - destruct (decode_go t src) as [p m | m |] eqn:Eg; cbn [ok_part].
    + destruct (go_extent _ _ _ _ Eg) as (n' & He' & Hn'). rewrite He in He'. discriminate.
    + destruct (ref_decode t src) as [[p' m'] |] eqn:Er; [| reflexivity].
      destruct (ref_extent _ _ _ _ Er) as [He' Hn']. rewrite He in He'. discriminate.
    + destruct (ref_decode t src) as [[p' m'] |] eqn:Er; [| reflexivity].
      destruct (ref_extent _ _ _ _ Er) as [He' Hn']. rewrite He in He'. discriminate.
Qed.

Lemma ok_part_iff d o : ok_part d = o -> forall p n, d = DOk p n <-> o = Some (p, n).
Proof.
  intros <- p n. destruct d as [p' n' | n' |]; cbn [ok_part]; split; intros H; try discriminate.
  - apply DOk_inj in H. destruct H as [-> ->]. reflexivity.
  - apply Some_inj2 in H. destruct H as [-> ->]. reflexivity.
Qed.

(* C02_spec_equiv *)
Theorem spec_equiv t src p n :
  t <> TConnect -> (decode_go t src = DOk p n <-> ref_decode t src = Some (p, n)).
Proof. intros Ht. apply ok_part_iff. apply spec_equiv_eq. assumption. Qed.

Theorem spec_equiv_framed t src p n :
  extent src = Some (len src) -> (decode_go t src = DOk p n <-> ref_decode t src = Some (p, n)).
Proof. intros He. apply ok_part_iff. apply spec_framed. assumption. Qed.
