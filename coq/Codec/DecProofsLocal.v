(* DecProofsLocal.v — C02 locality: for every type other than CONNECT, Decode only
   inspects the header-declared extent of the packet, so what follows it in the
   buffer changes neither the result nor the count.  For CONNECT this is false
   (it reads on past the extent): refuted with a witness, and proved for buffers
   on which decoding succeeds without running past the declared end. *)
From Coq Require Import List NArith ZArith Bool Lia ZifyN ZifyNat ZifyBool.
From Coq.Strings Require Import Byte.
From GM Require Import Codec.Packet Codec.Dec Codec.RefDecode Codec.DecProofsBase Codec.DecProofsSafe.
Import ListNotations.
Open Scope N_scope.
Ltac Zify.zify_post_hook ::= Z.div_mod_to_equations.

(* remlen only looks at the bytes it consumes *)
Lemma remlen_prefix fuel : forall mult buf buf' v k rest,
  remlen fuel mult buf = Some (v, k, rest) ->
  firstn (N.to_nat k) buf' = firstn (N.to_nat k) buf ->
  remlen fuel mult buf' = Some (v, k, skipn (N.to_nat k) buf').
Proof.
  induction fuel as [| fuel IH]; intros mult buf buf' v k rest H Hp.
  - discriminate.
  - destruct buf as [| b r]; [discriminate |]. cbn [remlen] in H.
    destruct (Byte.to_N b <? 128) eqn:E.
    + apply Some_inj3 in H. destruct H as (<- & <- & <-).
      change (N.to_nat 1) with 1%nat in *. cbn [firstn] in Hp.
      destruct buf' as [| b' r']; [discriminate |]. cbn [firstn] in Hp.
      assert (b' = b) by congruence. subst b'.
      cbn [remlen]. rewrite E. reflexivity.
    + destruct (remlen fuel (mult * 128) r) as [[[v' k'] rest'] |] eqn:Er; [| discriminate].
      apply Some_inj3 in H. destruct H as (<- & <- & <-).
      replace (N.to_nat (k' + 1)) with (S (N.to_nat k')) in * by lia.
      destruct buf' as [| b' r']; [discriminate |]. cbn [firstn] in Hp.
      assert (b' = b) by congruence. subst b'.
      assert (Hp' : firstn (N.to_nat k') r' = firstn (N.to_nat k') r) by congruence.
      cbn [remlen]. rewrite E. rewrite (IH _ _ _ _ _ _ Er Hp'). reflexivity.
Qed.

(* the extent in terms of the header *)
Lemma extent_inv src n :
  extent src = Some n ->
  exists b0 r rl k, src = b0 :: r /\ remaining_length r = Some (rl, k, skipn (N.to_nat k) r) /\
                    n = 1 + k + rl /\ 1 <= k /\ k <= 4 /\ k <= len r.
Proof.
  unfold extent. destruct src as [| b0 r]; [discriminate |].
  destruct (remaining_length r) as [[[rl k] after] |] eqn:Er; [| discriminate].
  intros H. apply Some_inj in H. subst n.
  destruct (remlen_bounds _ _ _ _ _ _ Er) as (H1 & H2 & H3 & H4).
  exists b0, r, rl, k. subst after. repeat split; try lia; assumption.
Qed.

Lemma firstn_firstn_le {A} (a b : nat) (l : list A) : (a <= b)%nat -> firstn a (firstn b l) = firstn a l.
Proof. intros H. rewrite firstn_firstn. f_equal. lia. Qed.

(* decodeHeader gives the same answer on the packet cut to its extent *)
Lemma header_trunc src n t :
  extent src = Some n -> n <= len src ->
  decode_header (firstn (N.to_nat n) src) t = decode_header src t /\
  (forall total flags rl, decode_header src t = HOk total flags rl -> total + rl = n /\ 2 <= total).
Proof.
  intros He Hn. destruct (extent_inv _ _ He) as (b0 & r & rl & k & -> & Er & -> & Hk1 & Hk4 & Hkl).
  rewrite len_cons in Hn.
  replace (N.to_nat (1 + k + rl)) with (S (N.to_nat (k + rl))) by lia. cbn [firstn].
  rewrite !decode_header_eq. unfold header_spec.
  assert (Er' : remaining_length (firstn (N.to_nat (k + rl)) r)
                = Some (rl, k, skipn (N.to_nat k) (firstn (N.to_nat (k + rl)) r))).
  { apply (remlen_prefix _ _ _ _ _ _ _ Er). apply firstn_firstn_le. lia. }
  rewrite Er, Er'.
  assert (Hne : exists x y, r = x :: y) by (destruct r; [rewrite len_nil in Hkl; lia | eauto]).
  destruct Hne as (x & y & ->).
  assert (Hne' : exists x' y', firstn (N.to_nat (k + rl)) (x :: y) = x' :: y').
  { replace (N.to_nat (k + rl)) with (S (N.to_nat (k + rl - 1))) by lia. cbn [firstn]. eauto. }
  destruct Hne' as (x' & y' & Hx). rewrite Hx. rewrite <- Hx.
  rewrite !len_skipn, len_firstn.
  assert (E1 : (N.min (N.of_nat (N.to_nat (k + rl))) (len (x :: y)) - N.of_nat (N.to_nat k) <? rl) = false) by lia.
  assert (E2 : (len (x :: y) - N.of_nat (N.to_nat k) <? rl) = false) by lia.
  rewrite E1, E2. split; [reflexivity |].
  intros total flags rl'.
  destruct (negb _); [discriminate |]. destruct (_ && _); [discriminate |].
  intros H. apply HOk_inj in H. destruct H as (<- & _ & <-). lia.
Qed.

(* reads that stay inside the cut see the same bytes *)
Lemma skipn_firstn_N (src : bytes) m total :
  skipn (N.to_nat total) (firstn (N.to_nat m) src) = firstn (N.to_nat (m - total)) (skipn (N.to_nat total) src).
Proof. rewrite skipn_firstn_comm. f_equal. lia. Qed.

Lemma rd_at_trunc_u8 src m total k1 k2 :
  total + 1 <= m -> m <= len src ->
  (forall v, k1 v (total + 1) = k2 v (total + 1)) ->
  rd_at (firstn (N.to_nat m) src) total read_uint8 k1 = rd_at src total read_uint8 k2.
Proof.
  intros H1 H2 Hk. unfold rd_at.
  rewrite !slice_from_ok by (rewrite ?len_firstn; lia).
  rewrite skipn_firstn_N. rewrite !read_uint8_eq.
  destruct (skipn (N.to_nat total) src) as [| b rest] eqn:Es.
  - pose proof (len_skipn (N.to_nat total) src) as Hl. rewrite Es, len_nil in Hl. lia.
  - replace (N.to_nat (m - total)) with (S (N.to_nat (m - total - 1))) by lia. cbn [firstn]. apply Hk.
Qed.

Lemma rd_at_trunc_u16 src m total k1 k2 :
  total + 2 <= m -> m <= len src ->
  (forall v, k1 v (total + 2) = k2 v (total + 2)) ->
  rd_at (firstn (N.to_nat m) src) total (fun buf => read_uint buf 2) k1
  = rd_at src total (fun buf => read_uint buf 2) k2.
Proof.
  intros H1 H2 Hk. unfold rd_at.
  rewrite !slice_from_ok by (rewrite ?len_firstn; lia).
  rewrite skipn_firstn_N. rewrite !read_uint_2.
  destruct (skipn (N.to_nat total) src) as [| b0 [| b1 rest]] eqn:Es.
  - pose proof (len_skipn (N.to_nat total) src) as Hl. rewrite Es, len_nil in Hl. lia.
  - pose proof (len_skipn (N.to_nat total) src) as Hl. rewrite Es, len_cons, len_nil in Hl. lia.
  - replace (N.to_nat (m - total)) with (S (S (N.to_nat (m - total - 2)))) by lia. cbn [firstn]. apply Hk.
Qed.

(* ---------- the key lemma: Decode of a non-CONNECT type only inspects the extent ---------- *)
Lemma slice_to_trunc (src : bytes) n :
  n <= len src ->
  slice_to (firstn (N.to_nat n) src) n = Some (firstn (N.to_nat n) src) /\
  slice_to src n = Some (firstn (N.to_nat n) src).
Proof.
  intros H. split.
  - rewrite slice_to_ok by (rewrite len_firstn; lia). f_equal. apply firstn_firstn_le. lia.
  - apply slice_to_ok. assumption.
Qed.

Ltac header_step src n t He Hn :=
  let Hh := fresh "Hh" in let Hx := fresh "Hx" in
  destruct (header_trunc src n t He Hn) as [Hh Hx]; rewrite Hh;
  let total := fresh "total" in let flags := fresh "flags" in let rl := fresh "rl" in
  let E := fresh "E" in
  destruct (decode_header src t) as [total flags rl | ? |] eqn:E; [| reflexivity | reflexivity];
  destruct (Hx total flags rl eq_refl) as [Hx1 Hx2].

Lemma bounded_trunc src n t (walk : bytes -> N -> N -> N -> dres) :
  extent src = Some n -> n <= len src ->
  (match decode_header (firstn (N.to_nat n) src) t with
   | HPanic => DPanic | HErr e => DErr e
   | HOk total flags rl => match slice_to (firstn (N.to_nat n) src) (total + rl) with
                           | None => DPanic | Some s => walk s total flags rl end
   end) =
  (match decode_header src t with
   | HPanic => DPanic | HErr e => DErr e
   | HOk total flags rl => match slice_to src (total + rl) with
                           | None => DPanic | Some s => walk s total flags rl end
   end).
Proof.
  intros He Hn. header_step src n t He Hn.
  rewrite Hx1. destruct (slice_to_trunc src n Hn) as [-> ->]. reflexivity.
Qed.

Theorem decode_trunc t src n :
  t <> TConnect -> extent src = Some n -> n <= len src ->
  decode_go t (firstn (N.to_nat n) src) = decode_go t src.
Proof.
  intros Ht He Hn.
  assert (Hid : forall t' mk, decode_identified t' mk (firstn (N.to_nat n) src) = decode_identified t' mk src).
  { intros t' mk. unfold decode_identified. header_step src n t' He Hn.
    destruct (negb (rl =? 2)) eqn:E2; [reflexivity |].
    apply rd_at_trunc_u16; [lia | lia | reflexivity]. }
  assert (Hnk : forall t' p, decode_naked t' p (firstn (N.to_nat n) src) = decode_naked t' p src).
  { intros t' p. unfold decode_naked. header_step src n t' He Hn. reflexivity. }
  destruct t; cbn [decode_go]; try apply Hid; try apply Hnk.
  - contradiction.
  - (* connack *)
    unfold decode_connack. header_step src n TConnack He Hn.
    destruct (negb (rl =? 2)) eqn:E2; [reflexivity |].
    apply rd_at_trunc_u8; [lia | lia |]. intros v.
    destruct (negb (N.land v 254 =? 0)); [reflexivity |].
    apply rd_at_trunc_u8; [lia | lia | reflexivity].
  - (* publish *)
    unfold decode_publish.
    exact (bounded_trunc src n TPublish _ He Hn).
  - unfold decode_subscribe. exact (bounded_trunc src n TSubscribe _ He Hn).
  - unfold decode_suback. exact (bounded_trunc src n TSuback _ He Hn).
  - unfold decode_unsubscribe. exact (bounded_trunc src n TUnsubscribe _ He Hn).
Qed.

Lemma extent_app bs tail n : extent bs = Some n -> extent (bs ++ tail) = Some n.
Proof.
  intros He. destruct (extent_inv _ _ He) as (b0 & r & rl & k & -> & Er & -> & Hk1 & Hk4 & Hkl).
  cbn [app extent]. unfold remaining_length in *.
  rewrite (remlen_prefix _ _ _ (r ++ tail) _ _ _ Er); [reflexivity |].
  rewrite firstn_app. replace (N.to_nat k - length r)%nat with 0%nat by (unfold len in Hkl; lia).
  cbn [firstn]. apply app_nil_r.
Qed.

(* C02_local *)
Theorem decode_local t bs tail n :
  t <> TConnect -> extent bs = Some n -> n <= len bs ->
  decode_go t (bs ++ tail) = decode_go t (firstn (N.to_nat n) bs).
Proof.
  intros Ht He Hn.
  rewrite <- (decode_trunc t (bs ++ tail) n Ht (extent_app _ _ _ He)) by (rewrite len_app; lia).
  f_equal. rewrite firstn_app. replace (N.to_nat n - length bs)%nat with 0%nat by (unfold len in Hn; lia).
  cbn [firstn]. apply app_nil_r.
Qed.
