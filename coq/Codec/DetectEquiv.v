(* DetectEquiv.v — the two models of packet.DetectPacket agree on ALL byte lists.

   Dec.detect_go (C02)       : Go's Uvarint with lor / shift on uint64, result (l : Z, t) with
                               int64 wrap-around of 1 + n + int(rl), or DetPanic
   Stream.detect_impl (C03)  : arithmetic Uvarint, unsigned sum mod 2^64, every non-positive
                               length folded into DetNeedMore
   packet.Decoder.Read only tests `packetLength <= 0`; abs_det is that view of detect_go. *)
From Coq Require Import List NArith ZArith Bool Lia ZifyN ZifyNat ZifyBool.
From Coq.Strings Require Import Byte.
From GM Require Import Codec.Packet Codec.Dec Codec.DecProofsBase Codec.DecProofsSafe.
From GM Require Stream.Stream.
Import ListNotations.
Open Scope N_scope.
Ltac Zify.zify_post_hook ::= Z.div_mod_to_equations.

Definition abs_det (r : detres) : Stream.detection :=
  match r with
  | Detected l t => if (0 <? l)%Z then Stream.DetLen (Z.to_N l) t else Stream.DetNeedMore
  | DetPanic => Stream.DetNeedMore
  end.

(* the view of binary.Uvarint both callers use: n <= 0 is one outcome *)
Definition uv_view (r : uvres) : option (N * N) :=
  match r with UvOk v n => Some (v, n) | _ => None end.

Lemma UvOk_inj v n v' n' : UvOk v n = UvOk v' n' -> v = v' /\ n = n'.
Proof. intros H; injection H; auto. Qed.

(* at index 10 both give up, whatever was accumulated *)
Lemma uv_at_10 buf x s x' s' :
  Stream.uvarint buf 10 x' s' = uv_view (uvarint_loop buf 10 x s).
Proof. destruct buf; reflexivity. Qed.

Lemma pow2_le_56 i : i <= 8 -> 2 ^ (7 * i) <= 72057594037927936.
Proof. intros H. change 72057594037927936 with (2 ^ 56). apply N.pow_le_mono_r; lia. Qed.

Lemma mul_lt_64 a p : a < 128 -> p <= 72057594037927936 -> a * p < 18446744073709551616.
Proof. intros; nia. Qed.

Lemma acc_step x a p : x < p -> a < 128 -> x + a * p < p * 128.
Proof. intros; nia. Qed.

(* the loops agree, and a reported value fits in 64 bits *)
Lemma uv_equiv : forall buf i x,
  i <= 9 -> x < 2 ^ (7 * i) ->
  Stream.uvarint buf i x (7 * i) = uv_view (uvarint_loop buf i x (7 * i)) /\
  (forall v n, uvarint_loop buf i x (7 * i) = UvOk v n -> v < 18446744073709551616 /\ n <= 10).
Proof.
  induction buf as [| b r IH]; intros i x Hi Hx.
  - split; [reflexivity | discriminate].
  - cbn [Stream.uvarint uvarint_loop].
    destruct (i =? 10) eqn:E10; [lia |].
    change (Byte.to_N b) with (b2n b). pose proof (b2n_lt b) as Hb.
    set (p := 2 ^ (7 * i)) in *.
    destruct (b2n b <? 128) eqn:E128.
    + destruct ((i =? 9) && (1 <? b2n b)) eqn:E9; [split; [reflexivity | discriminate] |].
      assert (Hfit : b2n b * p < 18446744073709551616).
      { destruct (i =? 9) eqn:Ei.
        - assert (i = 9) by lia. subst i. unfold p. change (2 ^ (7 * 9)) with 9223372036854775808. lia.
        - apply mul_lt_64; [lia | apply pow2_le_56; lia]. }
      assert (Hv : N.lor x (u64 (N.shiftl (b2n b) (7 * i))) = x + b2n b * p).
      { rewrite u64_small by (rewrite N.shiftl_mul_pow2; exact Hfit).
        apply lor_shiftl_add. exact Hx. }
      rewrite Hv. split; [reflexivity |].
      intros v n H. apply UvOk_inj in H. destruct H as [<- <-]. split; [| lia].
      destruct (i =? 9) eqn:Ei.
      * assert (i = 9) by lia. subst i. unfold p in *. change (2 ^ (7 * 9)) with 9223372036854775808 in *. lia.
      * assert (Hp : p <= 72057594037927936) by (apply pow2_le_56; lia). nia.
    + assert (Hland : N.land (b2n b) 127 = b2n b - 128).
      { change 127 with (N.ones 7). rewrite N.land_ones. change (2 ^ 7) with 128. lia. }
      rewrite Hland.
      destruct (i =? 9) eqn:Ei.
      * (* the 10th byte continues: the next step gives up in both, the accumulators no longer matter *)
        assert (i = 9) by lia. subst i. change (9 + 1) with 10.
        split; [apply uv_at_10 |].
        intros v n H. destruct r; cbn [uvarint_loop] in H; discriminate.
      * assert (Hp : p <= 72057594037927936) by (apply pow2_le_56; lia).
        assert (Hv : N.lor x (u64 (N.shiftl (b2n b - 128) (7 * i))) = x + (b2n b - 128) * p).
        { rewrite u64_small by (rewrite N.shiftl_mul_pow2; apply mul_lt_64; [lia | exact Hp]).
          apply lor_shiftl_add. exact Hx. }
        rewrite Hv. replace (7 * i + 7) with (7 * (i + 1)) by lia.
        apply IH; [lia |].
        replace (7 * (i + 1)) with (7 * i + 7) by lia. rewrite N.pow_add_r. fold p.
        change (2 ^ 7) with 128. apply acc_step; [exact Hx | lia].
Qed.

Lemma wrap_view n rl :
  n <= 10 -> rl < 18446744073709551616 ->
  let l := wrap_int64 (1 + Z.of_N n + int64_of_u64 rl) in
  let tot := (1 + n + rl) mod 2 ^ 64 in
  (0 <? l)%Z = (0 <? tot) && (tot <? 2 ^ 63) /\ ((0 < l)%Z -> Z.to_N l = tot).
Proof.
  intros Hn Hr. cbv zeta. change (2 ^ 64) with 18446744073709551616. change (2 ^ 63) with 9223372036854775808.
  unfold wrap_int64, int64_of_u64.
  destruct (rl <? 9223372036854775808) eqn:E; split; lia.
Qed.

(* the stream decoder's view of detect_go is detect_impl, on every byte list *)
Theorem detect_equiv : forall bs, Stream.detect_impl bs = abs_det (detect_go bs).
Proof.
  intros bs. unfold Stream.detect_impl, detect_go.
  destruct bs as [| b0 [| b1 r]]; try reflexivity.
  assert (Hl : Dec.len (b0 :: b1 :: r) <? 2 = false) by (rewrite !len_cons; lia).
  rewrite Hl. change (index (b0 :: b1 :: r) 0) with (Some b0). cbv iota beta zeta.
  rewrite slice_from_ok by (rewrite !len_cons; lia).
  change (skipn (N.to_nat 1) (b0 :: b1 :: r)) with (b1 :: r).
  unfold uvarint.
  destruct (uv_equiv (b1 :: r) 0 0 ltac:(lia) ltac:(cbn; lia)) as [He Hb].
  change (7 * 0) with 0 in He, Hb. rewrite He.
  destruct (uvarint_loop (b1 :: r) 0 0 0) as [rl n | | ovf] eqn:Eu; cbn [uv_view]; try reflexivity.
  destruct (Hb rl n eq_refl) as [Hrl Hn].
  destruct (wrap_view n rl Hn Hrl) as [W1 W2]. cbv zeta in W1, W2.
  cbn [abs_det]. rewrite W1.
  destruct ((0 <? (1 + n + rl) mod 2 ^ 64) && ((1 + n + rl) mod 2 ^ 64 <? 2 ^ 63)) eqn:Et; [| reflexivity].
  rewrite W2 by lia. rewrite shiftr4. reflexivity.
Qed.

(* hence: detection never reports a length of 0 to the read loop, and a reported length
   is a positive int64 *)
Corollary detect_impl_len bs total t :
  Stream.detect_impl bs = Stream.DetLen total t -> 0 < total /\ total < 2 ^ 63 /\ t < 16.
Proof.
  unfold Stream.detect_impl. destruct bs as [| b0 [| b1 r]]; try discriminate.
  destruct (Stream.uvarint (b1 :: r) 0 0 0) as [[rl n] |]; [| discriminate].
  cbv zeta. change (2 ^ 64) with 18446744073709551616. change (2 ^ 63) with 9223372036854775808.
  destruct ((0 <? _) && (_ <? _)) eqn:E; [| discriminate].
  intros H.
  assert (Hi : forall a b a' b', Stream.DetLen a b = Stream.DetLen a' b' -> a = a' /\ b = b')
    by (intros a b a' b' H'; injection H'; auto).
  apply Hi in H. destruct H as [<- <-]. pose proof (Byte.to_N_bounded b0). split; [lia | split; lia].
Qed.
