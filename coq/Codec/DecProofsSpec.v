(* DecProofsSpec.v — C02 spec equivalence, part 1: the bridge between the offset walk
   of Dec.v and the parser combinators of RefDecode.v, the header, and the simple types.
   `ok_part (decode_go t src) = ref_decode t src` on buffers framed to their extent. *)
From Coq Require Import List NArith ZArith Bool Lia ZifyN ZifyNat ZifyBool.
From Coq.Strings Require Import Byte.
From GM Require Import Codec.Packet Codec.Dec Codec.RefDecode Codec.DecProofsBase Codec.DecProofsSafe
     Codec.DecProofsLocal.
Import ListNotations.
Open Scope N_scope.
Ltac Zify.zify_post_hook ::= Z.div_mod_to_equations.

Definition ok_part (d : dres) : option (packet * N) :=
  match d with DOk p n => Some (p, n) | _ => None end.

(* the walk is at offset `total` of src, the unread remainder is cur *)
Definition at_ (src : bytes) (total : N) (cur : bytes) : Prop :=
  total <= len src /\ skipn (N.to_nat total) src = cur.

Lemma at_len src total cur : at_ src total cur -> len cur = len src - total.
Proof. intros [H <-]. rewrite len_skipn. lia. Qed.

(* a read helper and a parser that do the same thing *)
Definition rp {A} (f : bytes -> rd A) (p : parser A) : Prop :=
  forall buf, match f buf with
              | ROk v n => n <= len buf /\ p buf = Some (v, skipn (N.to_nat n) buf)
              | RErr _ => p buf = None
              | RPanic => False
              end.

Lemma rp_u8 : rp read_uint8 u8.
Proof.
  intros buf. rewrite read_uint8_eq. destruct buf as [| b r]; [reflexivity |].
  rewrite len_cons. split; [lia | reflexivity].
Qed.

Lemma rp_u8' : rp (fun buf => read_uint buf 1) u8.
Proof. exact rp_u8. Qed.

Lemma u16_eq buf : u16 buf = match buf with
                             | b0 :: b1 :: r => Some (256 * b2n b0 + b2n b1, r)
                             | _ => None
                             end.
Proof. destruct buf as [| b0 [| b1 r]]; reflexivity. Qed.

Lemma rp_u16 : rp (fun buf => read_uint buf 2) u16.
Proof.
  intros buf. rewrite read_uint_2, u16_eq. destruct buf as [| b0 [| b1 r]]; try reflexivity.
  rewrite !len_cons. split; [lia | reflexivity].
Qed.

Lemma lp_bytes_eq buf :
  lp_bytes buf = match buf with
                 | b0 :: b1 :: r =>
                     let l := 256 * b2n b0 + b2n b1 in
                     if l <=? len r then Some (firstn (N.to_nat l) r, skipn (N.to_nat l) r) else None
                 | _ => None
                 end.
Proof.
  unfold lp_bytes, bind. rewrite u16_eq. destruct buf as [| b0 [| b1 r]]; reflexivity.
Qed.

Lemma rp_lp : rp read_lp_bytes lp_bytes.
Proof.
  intros buf. rewrite read_lp_bytes_eq, lp_bytes_eq. destruct buf as [| b0 [| b1 r]]; try reflexivity.
  cbv zeta. set (l := 256 * b2n b0 + b2n b1).
  destruct (len r <? l) eqn:E.
  - destruct (l <=? len r) eqn:E'; [lia | reflexivity].
  - destruct (l <=? len r) eqn:E'; [| lia]. rewrite !len_cons. split; [lia |].
    replace (N.to_nat (2 + l)) with (S (S (N.to_nat l))) by lia. reflexivity.
Qed.

(* parsers consume a suffix *)
Lemma u8_len cur v rest : u8 cur = Some (v, rest) -> len cur = 1 + len rest /\ v < 256.
Proof.
  destruct cur as [| b r]; [discriminate |]. intros H. apply Some_inj2 in H. destruct H as [<- <-].
  rewrite len_cons. split; [reflexivity | apply b2n_lt].
Qed.

Lemma u16_len cur v rest : u16 cur = Some (v, rest) -> len cur = 2 + len rest /\ v < 65536.
Proof.
  rewrite u16_eq. destruct cur as [| b0 [| b1 r]]; try discriminate.
  intros H. apply Some_inj2 in H. destruct H as [<- <-]. rewrite !len_cons.
  pose proof (b2n_lt b0). pose proof (b2n_lt b1). split; lia.
Qed.

Lemma lp_len cur v rest : lp_bytes cur = Some (v, rest) -> len cur = 2 + len v + len rest /\ len v < 65536.
Proof.
  rewrite lp_bytes_eq. destruct cur as [| b0 [| b1 r]]; try discriminate.
  cbv zeta. destruct (_ <=? _) eqn:E; [| discriminate].
  intros H. apply Some_inj2 in H. destruct H as [<- <-].
  rewrite !len_cons, len_firstn, len_skipn.
  pose proof (b2n_lt b0). pose proof (b2n_lt b1). split; lia.
Qed.

(* one read step of the walk = one parser step on the remainder *)
Lemma ok_rd_at {A} src total cur (f : bytes -> rd A) (p : parser A) k :
  rp f p -> at_ src total cur ->
  ok_part (rd_at src total f k) =
    match p cur with
    | Some (v, rest) => ok_part (k v (len src - len rest))
    | None => None
    end
  /\ (forall v rest, p cur = Some (v, rest) -> at_ src (len src - len rest) rest).
Proof.
  intros Hrp [Ht Hc]. unfold rd_at. rewrite slice_from_ok by assumption. rewrite Hc.
  pose proof (Hrp cur) as H. pose proof (len_skipn (N.to_nat total) src) as Hl. rewrite Hc in Hl.
  destruct (f cur) as [v n | n |] eqn:E.
  - destruct H as [Hn Hp]. rewrite Hp. rewrite len_skipn.
    replace (len src - (len cur - N.of_nat (N.to_nat n))) with (total + n) by lia.
    split; [reflexivity |].
    intros v' rest' H'. apply Some_inj2 in H'. destruct H' as [_ <-].
    rewrite len_skipn. split; [lia |].
    replace (len src - (len cur - N.of_nat (N.to_nat n))) with (total + n) by lia.
    rewrite <- Hc. rewrite skipn_add. f_equal. lia.
  - rewrite H. split; [reflexivity | discriminate].
  - contradiction.
Qed.

Ltac step f_rp Hat v rest Ep Hat' :=
  match goal with
  | |- context [ok_part (rd_at ?src ?total ?f ?k)] =>
      let Hs := fresh "Hs" in let Hn := fresh "Hn" in
      destruct (ok_rd_at src total _ f _ k f_rp Hat) as [Hs Hn]; rewrite Hs; clear Hs;
      match goal with
      | |- context [match ?p ?cur with _ => _ end] =>
          destruct (p cur) as [[v rest] |] eqn:Ep; [pose proof (Hn _ _ eq_refl) as Hat'; clear Hn | clear Hn]
      end
  end.

(* ---------- the fixed header on a framed buffer ---------- *)
Lemma flags_tables t : default_flags t = reserved_flags t.
Proof. destruct t; reflexivity. Qed.

Lemma ptype_eqb_publish t : ptype_eqb t TPublish = true -> t = TPublish.
Proof. destruct t; try reflexivity; discriminate. Qed.

(* a framed buffer: header, then exactly the declared number of body bytes *)
Record framed (src : bytes) (b0 : byte) (k rl : N) (body : bytes) : Prop := {
  fr_src : exists r, src = b0 :: r /\ remaining_length r = Some (rl, k, body) /\ body = skipn (N.to_nat k) r;
  fr_len : len body = rl;
  fr_total : len src = 1 + k + rl;
  fr_k : 1 <= k <= 4;
  fr_at : at_ src (1 + k) body }.

Lemma framed_intro src : extent src = Some (len src) ->
  exists b0 k rl body, framed src b0 k rl body.
Proof.
  intros He. destruct (extent_inv _ _ He) as (b0 & r & rl & k & -> & Er & Hn & Hk1 & Hk4 & Hkl).
  exists b0, k, rl, (skipn (N.to_nat k) r). rewrite len_cons in Hn. constructor.
  - exists r. repeat split; assumption.
  - rewrite len_skipn. lia.
  - rewrite len_cons. lia.
  - lia.
  - split; [rewrite len_cons; lia |]. replace (N.to_nat (1 + k)) with (S (N.to_nat k)) by lia. reflexivity.
Qed.

Lemma framed_header src b0 k rl body t :
  framed src b0 k rl body ->
  decode_header src t =
    if negb (nibble_hi b0 =? type_code t) then HErr 1 else
    if negb (ptype_eqb t TPublish) && negb (nibble_lo b0 =? default_flags t) then HErr 1 else
    HOk (1 + k) (nibble_lo b0) rl.
Proof.
  intros [(r & -> & Er & Hb) Hl Ht Hk Hat]. rewrite decode_header_eq. unfold header_spec.
  destruct r as [| x y]; [discriminate |].
  rewrite Er. destruct (negb _); [reflexivity |]. destruct (_ && _); [reflexivity |].
  destruct (len body <? rl) eqn:E; [lia | reflexivity].
Qed.

Lemma framed_ref src b0 k rl body t :
  framed src b0 k rl body ->
  ref_decode t src =
    if negb (nibble_hi b0 =? type_code t) then None else
    if negb (ptype_eqb t TPublish) && negb (nibble_lo b0 =? default_flags t) then None else
    match parse_all (body_grammar t (nibble_lo b0)) body with
    | Some p => Some (p, len src)
    | None => None
    end.
Proof.
  intros [(r & -> & Er & Hb) Hl Ht Hk Hat]. unfold ref_decode.
  change (Byte.to_N b0 / 16) with (nibble_hi b0). change (Byte.to_N b0 mod 16) with (nibble_lo b0).
  rewrite <- flags_tables.
  destruct (negb _); [reflexivity |]. destruct (_ && _); [reflexivity |].
  rewrite Er. rewrite len_blen. destruct (len body <? rl) eqn:E; [lia |].
  rewrite firstn_all2 by (unfold len in Hl; lia).
  rewrite Ht. reflexivity.
Qed.

Lemma firstn_framed src b0 k rl body :
  framed src b0 k rl body -> slice_to src (1 + k + rl) = Some src.
Proof.
  intros F. rewrite slice_to_ok by (rewrite (fr_total _ _ _ _ _ F); lia).
  f_equal. apply firstn_all2. pose proof (fr_total _ _ _ _ _ F) as H. unfold len in H. lia.
Qed.

(* the common frame of every per-type proof: both sides reject a bad first byte alike *)
Lemma framed_reduce src b0 k rl body t (walk : N -> N -> N -> dres) :
  framed src b0 k rl body ->
  (ok_part (walk (1 + k) (nibble_lo b0) rl) =
   match parse_all (body_grammar t (nibble_lo b0)) body with
   | Some p => Some (p, len src)
   | None => None
   end) ->
  ok_part (match decode_header src t with
           | HPanic => DPanic | HErr n => DErr n
           | HOk total flags rl => walk total flags rl end) = ref_decode t src.
Proof.
  intros F H. rewrite (framed_header _ _ _ _ _ t F), (framed_ref _ _ _ _ _ t F).
  destruct (negb _); [reflexivity |]. destruct (_ && _); [reflexivity |]. exact H.
Qed.

Lemma at_end src total cur : at_ src total cur -> (cur = [] <-> total = len src).
Proof.
  intros H. pose proof (at_len _ _ _ H) as Hl. destruct H as [Ht _]. split.
  - intros ->. rewrite len_nil in Hl. lia.
  - intros ->. apply len_0. lia.
Qed.

(* ---------- naked types ---------- *)
Lemma naked_framed t p src b0 k rl body :
  framed src b0 k rl body -> body_grammar t (nibble_lo b0) = ret p ->
  ok_part (decode_naked t p src) = ref_decode t src.
Proof.
  intros F Hg. unfold decode_naked. apply (framed_reduce _ _ _ _ _ _ _ F). rewrite Hg.
  unfold parse_all, ret. pose proof (fr_len _ _ _ _ _ F) as Hl. pose proof (fr_total _ _ _ _ _ F) as Ht.
  destruct (negb (rl =? 0)) eqn:E.
  - destruct body; [rewrite len_nil in Hl; lia | reflexivity].
  - assert (body = []) by (apply len_0; lia). subst body. cbn [ok_part]. do 2 f_equal. lia.
Qed.

(* ---------- identified types ---------- *)
Lemma identified_framed t mk src b0 k rl body :
  framed src b0 k rl body -> body_grammar t (nibble_lo b0) = id_body mk ->
  ok_part (decode_identified t mk src) = ref_decode t src.
Proof.
  intros F Hg. unfold decode_identified. apply (framed_reduce _ _ _ _ _ _ _ F). rewrite Hg.
  pose proof (fr_len _ _ _ _ _ F) as Hl. pose proof (fr_total _ _ _ _ _ F) as Ht.
  pose proof (fr_at _ _ _ _ _ F) as Hat.
  unfold id_body, packet_id, parse_all, bind, guard, ret.
  destruct (negb (rl =? 2)) eqn:E2.
  - cbn [ok_part]. destruct (u16 body) as [[v rs] |] eqn:Ep; [| reflexivity].
    apply u16_len in Ep. destruct (negb (v =? 0)); [| reflexivity].
    destruct rs; [rewrite len_nil in Ep; lia | reflexivity].
  - step rp_u16 Hat v rs Ep Hat'; [| reflexivity].
    apply u16_len in Ep. assert (rs = []) by (apply len_0; lia). subst rs.
    rewrite len_nil, N.sub_0_r.
    destruct (v =? 0); reflexivity.
Qed.

(* ---------- connack ---------- *)
Lemma byte_land254 b : (N.land (b2n b) 254 =? 0) = (b2n b <=? 1).
Proof. destruct b; reflexivity. Qed.
Lemma byte_land1 b : (N.land (b2n b) 1 =? 1) = (b2n b mod 2 =? 1).
Proof. destruct b; reflexivity. Qed.

Lemma u8_byte cur v rs : u8 cur = Some (v, rs) -> exists b, v = b2n b.
Proof. destruct cur as [| b r]; [discriminate |]. intros H. apply Some_inj2 in H. destruct H as [<- _]. eauto. Qed.

Lemma connack_framed src b0 k rl body :
  framed src b0 k rl body ->
  ok_part (decode_connack src) = ref_decode TConnack src.
Proof.
  intros F. unfold decode_connack. apply (framed_reduce _ _ _ _ _ _ _ F).
  pose proof (fr_len _ _ _ _ _ F) as Hl. pose proof (fr_total _ _ _ _ _ F) as Ht.
  pose proof (fr_at _ _ _ _ _ F) as Hat.
  cbn [body_grammar]. unfold connack_body, parse_all, bind, guard, ret.
  destruct (negb (rl =? 2)) eqn:E2.
  - cbn [ok_part]. destruct (u8 body) as [[v rs] |] eqn:Ep; [| reflexivity].
    apply u8_len in Ep. destruct (v <=? 1); [| reflexivity].
    destruct (u8 rs) as [[v' rs'] |] eqn:Ep'; [| reflexivity].
    apply u8_len in Ep'. destruct (v' <=? 5); [| reflexivity].
    destruct rs'; [rewrite len_nil in Ep'; lia | reflexivity].
  - step rp_u8 Hat v rs Ep Hat'; [| reflexivity].
    destruct (u8_byte _ _ _ Ep) as [b ->]. apply u8_len in Ep.
    rewrite byte_land254. destruct (b2n b <=? 1) eqn:Ev; [| reflexivity]. cbn [negb].
    step rp_u8 Hat' v' rs' Ep' Hat''; [| reflexivity].
    apply u8_len in Ep'. assert (rs' = []) by (apply len_0; lia). subst rs'.
    rewrite len_nil, N.sub_0_r.
    destruct (v' <=? 5); [| reflexivity]. cbn [negb ok_part].
    rewrite byte_land1. do 3 f_equal.
    destruct (b2n b mod 2 =? 1) eqn:E1; destruct (b2n b =? 1) eqn:E1'; try reflexivity; lia.
Qed.
