(* DecProofsDetect.v — DetectPacket against decodeHeader: whenever decodeHeader accepts a
   header for some static type, DetectPacket reports exactly the extent it computes
   (header length + remaining length) and that type. *)
From Coq Require Import List NArith ZArith Bool Lia ZifyN ZifyNat ZifyBool.
From Coq.Strings Require Import Byte.
From GM Require Import Codec.Packet Codec.Dec Codec.RefDecode Codec.DecProofsBase Codec.DecProofsSpec3
     Codec.DecProofsFwd.
Import ListNotations.
Open Scope N_scope.

Theorem detect_agrees_header bs ty total flags rl :
  decode_header bs ty = HOk total flags rl ->
  detect_go bs = Detected (Z.of_N (total + rl)) (type_code ty).
Proof.
  intros H. destruct (header_extent _ _ _ _ _ H) as [He _].
  destruct (header_ok_inv _ _ _ _ _ H) as (b0 & r & k & Hbs & Hty & _).
  destruct (detect_go bs) as [l t |] eqn:Ed.
  - destruct (detect_agrees _ _ _ _ Ed He) as [-> (b0' & r' & Hbs' & ->)].
    rewrite Hbs in Hbs'. injection Hbs' as <- <-. rewrite Hty. reflexivity.
  - exfalso. exact (DecProofsSafe.detect_no_panic bs Ed).
Qed.
