(* Lts.v — deterministic monitors and the one induction over traces. *)
From Coq Require Import List.
Import ListNotations.

Section Lts.
  Variables (state event : Type).
  Variable step : state -> event -> option state.

  Fixpoint run (s : state) (es : list event) : option state :=
    match es with
    | [] => Some s
    | e :: es' => match step s e with
                  | Some s' => run s' es'
                  | None => None
                  end
    end.

  Lemma run_app s es1 es2 :
    run s (es1 ++ es2) = match run s es1 with Some s' => run s' es2 | None => None end.
  Proof.
    revert s; induction es1 as [|e es1 IH]; intros s; cbn [run app]; [reflexivity|].
    destruct (step s e) as [s'|]; [apply IH|reflexivity].
  Qed.

  Theorem invariant_all_traces (Inv : state -> Prop) (s0 : state) :
    Inv s0 ->
    (forall s e s', Inv s -> step s e = Some s' -> Inv s') ->
    forall es s, run s0 es = Some s -> Inv s.
  Proof.
    intros H0 Hstep es; revert s0 H0.
    induction es as [|e es IH]; intros s0 H0 s Hrun; cbn [run] in Hrun.
    - injection Hrun as <-; exact H0.
    - destruct (step s0 e) as [s1|] eqn:E; [|discriminate].
      eapply IH; [eapply Hstep; eassumption|exact Hrun].
  Qed.

  (* every prefix of an accepted trace is accepted *)
  Lemma run_prefix s es1 es2 s' :
    run s (es1 ++ es2) = Some s' -> exists s1, run s es1 = Some s1 /\ run s1 es2 = Some s'.
  Proof.
    rewrite run_app. destruct (run s es1) as [s1|]; [|discriminate].
    intros H; exists s1; split; [reflexivity|exact H].
  Qed.
End Lts.

Arguments run {state event} step s es.
