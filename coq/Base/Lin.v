(* Lin.v — linearizability of a concurrent history against a sequential
   specification, and a fuel-bounded checker (Wing & Gong search).

   A history is a list of COMPLETED operations, each with the operation, the
   observed result, and two timestamps taken from one global clock: `e_call`
   before the call, `e_ret` after the return.  Operation a really precedes b when
   a returned before b was called.  The sequential specification is a
   deterministic `step : state -> op -> state * res`; `agree expected observed`
   says when an observed result is acceptable (e.g. equal up to order).

     linearizable init h   there is a permutation of h that never places an
                           operation before one that really precedes it, and
                           along which the specification, started in `init`,
                           produces results that agree with the observed ones.
     lin_verdict … fuel    Yes / No / OutOfFuel: depth-first search; a candidate
                           for the next linearization point is any pending
                           operation that no other pending operation precedes and
                           whose observed result agrees with the specification;
                           `fuel` bounds the number of search nodes.
     lin_check             verdict = Yes.

   lin_check_sound     lin_check = true -> linearizable
   lin_verdict_No      verdict = No     -> ~ linearizable        (the search is complete) *)
From Coq Require Import List Bool NArith Permutation Lia.
Import ListNotations.
Open Scope N_scope.

Section Lin.
  Variables (state op res : Type).
  Variable step : state -> op -> state * res.
  Variable agree : res -> res -> bool.            (* expected (specification), observed *)

  Record event := Ev { e_op : op; e_res : res; e_call : N; e_ret : N }.

  Definition precedes (a b : event) : bool := e_ret a <? e_call b.

  (* no element is placed before one that really precedes it *)
  Fixpoint rt_ok (l : list event) : Prop :=
    match l with
    | [] => True
    | a :: l' => (forall b, In b l' -> precedes b a = false) /\ rt_ok l'
    end.

  (* the specification produces the observed results along l *)
  Fixpoint legal (s : state) (l : list event) : Prop :=
    match l with
    | [] => True
    | a :: l' => agree (snd (step s (e_op a))) (e_res a) = true /\ legal (fst (step s (e_op a))) l'
    end.

  Definition linearizable_from (s : state) (h : list event) : Prop :=
    exists l, Permutation l h /\ rt_ok l /\ legal s l.

  (* ---------------------------------------------------------------- the checker *)
  Inductive outcome := Yes | No | OutOfFuel.

  (* every way to take one element out of a list *)
  Fixpoint picks (l : list event) : list (event * list event) :=
    match l with
    | [] => []
    | x :: l' => (x, l') :: map (fun p : event * list event => (fst p, x :: snd p)) (picks l')
    end.

  Definition minimal (a : event) (rest : list event) : bool :=
    forallb (fun b => negb (precedes b a)) rest.

  (* try the candidates in turn; `rec` searches the remaining operations *)
  Fixpoint try_cands (rec : state -> list event -> N -> outcome * N)
           (s : state) (cands : list (event * list event)) (fuel : N) : outcome * N :=
    match cands with
    | [] => (No, fuel)
    | (a, rest) :: cands' =>
        if minimal a rest && agree (snd (step s (e_op a))) (e_res a) then
          if fuel =? 0 then (OutOfFuel, 0)
          else match rec (fst (step s (e_op a))) rest (fuel - 1) with
               | (Yes, f) => (Yes, f)
               | (OutOfFuel, f) => (OutOfFuel, f)
               | (No, f) => try_cands rec s cands' f
               end
        else try_cands rec s cands' fuel
    end.

  Fixpoint search (depth : nat) (s : state) (pending : list event) (fuel : N) : outcome * N :=
    match pending with
    | [] => (Yes, fuel)
    | _ :: _ =>
        match depth with
        | O => (OutOfFuel, fuel)
        | S d => try_cands (search d) s (picks pending) fuel
        end
    end.

  Definition lin_verdict (init : state) (h : list event) (fuel : N) : outcome :=
    fst (search (length h) init h fuel).

  Definition lin_check (init : state) (h : list event) (fuel : N) : bool :=
    match lin_verdict init h fuel with Yes => true | _ => false end.

  (* ---------------------------------------------------------------- proofs *)
  Lemma picks_perm : forall l a rest, In (a, rest) (picks l) -> Permutation (a :: rest) l.
  Proof.
    induction l as [|x l IH]; intros a rest H; simpl in H; [destruct H|].
    destruct H as [H | H].
    - inversion H; subst. reflexivity.
    - apply in_map_iff in H. destruct H as [[a' r'] [Heq Hin]]. simpl in Heq. inversion Heq; subst.
      eapply perm_trans; [apply perm_swap|]. constructor. apply IH. exact Hin.
  Qed.

  Lemma picks_complete : forall l a, In a l -> exists rest, In (a, rest) (picks l).
  Proof.
    induction l as [|x l IH]; intros a H; [destruct H|]. simpl.
    destruct H as [-> | H].
    - exists l. left. reflexivity.
    - destruct (IH a H) as [rest Hr]. exists (x :: rest). right.
      apply in_map_iff. exists (a, rest). split; [reflexivity | exact Hr].
  Qed.

  Lemma picks_length : forall l a rest, In (a, rest) (picks l) -> length l = S (length rest).
  Proof. intros l a rest H. apply picks_perm in H. apply Permutation_length in H. simpl in H. symmetry. exact H. Qed.

  Lemma minimal_spec : forall a rest, minimal a rest = true <-> forall b, In b rest -> precedes b a = false.
  Proof.
    intros a rest. unfold minimal. rewrite forallb_forall. split; intros H b Hb.
    - apply negb_true_iff. apply H. exact Hb.
    - apply negb_true_iff. apply H. exact Hb.
  Qed.

  Lemma try_cands_sound : forall rec s pending,
    (forall s' p f f', rec s' p f = (Yes, f') -> linearizable_from s' p) ->
    forall cands fuel fuel', (forall c, In c cands -> In c (picks pending)) ->
    try_cands rec s cands fuel = (Yes, fuel') -> linearizable_from s pending.
  Proof.
    intros rec s pending Hrec. induction cands as [|[a rest] cands IH]; intros fuel fuel' Hsub H; simpl in H; [discriminate|].
    destruct (minimal a rest && agree (snd (step s (e_op a))) (e_res a)) eqn:Eg.
    - destruct (fuel =? 0); [discriminate|].
      destruct (rec (fst (step s (e_op a))) rest (fuel - 1)) as [[| |] f] eqn:Er.
      + apply andb_true_iff in Eg. destruct Eg as [Em Ea].
        destruct (Hrec _ _ _ _ Er) as [l' [Hp [Hrt Hl]]].
        exists (a :: l'). split; [|split].
        * eapply perm_trans; [constructor; exact Hp|]. apply picks_perm. apply Hsub. left. reflexivity.
        * simpl. split; [|exact Hrt]. intros b Hb. apply (proj1 (minimal_spec a rest) Em).
          apply (Permutation_in _ Hp). exact Hb.
        * simpl. split; assumption.
      + apply (IH f fuel'); [|exact H]. intros c Hc. apply Hsub. right. exact Hc.
      + discriminate.
    - apply (IH fuel fuel'); [|exact H]. intros c Hc. apply Hsub. right. exact Hc.
  Qed.

  Lemma search_sound : forall depth s pending fuel fuel',
    search depth s pending fuel = (Yes, fuel') -> linearizable_from s pending.
  Proof.
    induction depth as [|d IH]; intros s pending fuel fuel' H; destruct pending as [|x p].
    - exists []. repeat split; constructor.
    - simpl in H. discriminate.
    - exists []. repeat split; constructor.
    - change (search (S d) s (x :: p) fuel) with (try_cands (search d) s (picks (x :: p)) fuel) in H.
      apply (try_cands_sound (search d) s (x :: p) IH _ _ _ (fun c Hc => Hc) H).
  Qed.

  Theorem lin_check_sound : forall init h fuel, lin_check init h fuel = true -> linearizable_from init h.
  Proof.
    intros init h fuel H. unfold lin_check, lin_verdict in H.
    destruct (search (length h) init h fuel) as [o f] eqn:E. simpl in H.
    destruct o; try discriminate. exact (search_sound _ _ _ _ _ E).
  Qed.

  (* completeness: a finished search that found nothing refutes linearizability *)
  Lemma try_cands_complete : forall rec s,
    (forall s' p f f', rec s' p f = (No, f') -> ~ linearizable_from s' p) ->
    forall cands fuel fuel', try_cands rec s cands fuel = (No, fuel') ->
    forall a rest l', In (a, rest) cands -> Permutation l' rest -> rt_ok (a :: l') -> legal s (a :: l') -> False.
  Proof.
    intros rec s Hrec. induction cands as [|[a0 rest0] cands IH]; intros fuel fuel' H a rest l' Hin Hp Hrt Hl; [destruct Hin|].
    simpl in H. destruct Hin as [Heq | Hin].
    - inversion Heq; subst a0 rest0. clear Heq.
      simpl in Hrt, Hl. destruct Hrt as [Hmin Hrt]. destruct Hl as [Ha Hl].
      assert (Em : minimal a rest = true).
      { apply minimal_spec. intros b Hb. apply Hmin. apply (Permutation_in _ (Permutation_sym Hp)). exact Hb. }
      rewrite Em, Ha in H. simpl in H.
      destruct (fuel =? 0); [discriminate|].
      destruct (rec (fst (step s (e_op a))) rest (fuel - 1)) as [[| |] f] eqn:Er; try discriminate.
      apply (Hrec _ _ _ _ Er). exists l'. repeat split; assumption.
    - destruct (minimal a0 rest0 && agree (snd (step s (e_op a0))) (e_res a0)).
      + destruct (fuel =? 0); [discriminate|].
        destruct (rec (fst (step s (e_op a0))) rest0 (fuel - 1)) as [[| |] f] eqn:Er; try discriminate.
        exact (IH f fuel' H a rest l' Hin Hp Hrt Hl).
      + exact (IH fuel fuel' H a rest l' Hin Hp Hrt Hl).
  Qed.

  Lemma search_complete : forall depth s pending fuel fuel',
    search depth s pending fuel = (No, fuel') -> ~ linearizable_from s pending.
  Proof.
    induction depth as [|d IH]; intros s pending fuel fuel' H; destruct pending as [|x p]; try (simpl in H; discriminate).
    change (search (S d) s (x :: p) fuel) with (try_cands (search d) s (picks (x :: p)) fuel) in H.
    intros [l [Hp [Hrt Hl]]].
    destruct l as [|a l']; [apply Permutation_nil in Hp; discriminate|].
    assert (Hin : In a (x :: p)) by (apply (Permutation_in _ Hp); left; reflexivity).
    destruct (picks_complete _ _ Hin) as [rest Hr].
    apply (try_cands_complete (search d) s IH _ _ _ H a rest l' Hr); try assumption.
    apply (Permutation_cons_inv (a := a)). eapply perm_trans; [exact Hp|].
    apply Permutation_sym. apply picks_perm. exact Hr.
  Qed.

  Theorem lin_verdict_No : forall init h fuel, lin_verdict init h fuel = No -> ~ linearizable_from init h.
  Proof.
    intros init h fuel H. unfold lin_verdict in H.
    destruct (search (length h) init h fuel) as [o f] eqn:E. simpl in H. subst o.
    exact (search_complete _ _ _ _ _ E).
  Qed.

  (* the depth bound `length h` is never the reason for OutOfFuel: only the node budget is *)
  Lemma try_cands_fuel : forall rec s pending,
    (forall s' p f f', length pending = S (length p) -> rec s' p f = (OutOfFuel, f') -> f' = 0) ->
    forall cands fuel fuel', (forall c, In c cands -> In c (picks pending)) ->
    try_cands rec s cands fuel = (OutOfFuel, fuel') -> fuel' = 0.
  Proof.
    intros rec s pending Hrec. induction cands as [|[a rest] cands IH]; intros fuel fuel' Hsub H; simpl in H; [discriminate|].
    destruct (minimal a rest && agree (snd (step s (e_op a))) (e_res a)).
    - destruct (fuel =? 0); [inversion H; reflexivity|].
      destruct (rec (fst (step s (e_op a))) rest (fuel - 1)) as [[| |] f] eqn:Er.
      + discriminate.
      + apply (IH f fuel'); [|exact H]. intros c Hc. apply Hsub. right. exact Hc.
      + inversion H; subst. apply (Hrec _ _ _ _ (picks_length _ _ _ (Hsub _ (or_introl eq_refl))) Er).
    - apply (IH fuel fuel'); [|exact H]. intros c Hc. apply Hsub. right. exact Hc.
  Qed.

  Lemma search_fuel : forall depth s pending fuel fuel', (length pending <= depth)%nat ->
    search depth s pending fuel = (OutOfFuel, fuel') -> fuel' = 0.
  Proof.
    induction depth as [|d IH]; intros s pending fuel fuel' Hlen H; destruct pending as [|x p]; try (simpl in H; discriminate).
    - simpl in Hlen. lia.
    - change (search (S d) s (x :: p) fuel) with (try_cands (search d) s (picks (x :: p)) fuel) in H.
      apply (try_cands_fuel (search d) s (x :: p)) with (cands := picks (x :: p)) (fuel := fuel); [| auto | exact H].
      intros s' p' f f' Hl Hs. apply (IH s' p' f f'); [|exact Hs]. simpl in Hlen, Hl. lia.
  Qed.
End Lin.

Arguments Ev {op res} _ _ _ _.
Arguments e_op {op res} _.
Arguments e_res {op res} _.
Arguments e_call {op res} _.
Arguments e_ret {op res} _.
