(* Levels.v — how topic/tree.go walks a topic string.

   tree.go never splits a topic up front: every recursive call looks at the
   whole remaining string, takes `topicSegment(topic, "/")` (everything before
   the first separator, or the whole string) and continues with
   `topicShorten(topic, "/")` (everything after the first separator, or the
   sentinel "\x00" when there is none); the recursion stops when the remaining
   string equals the sentinel.  `segment`, `shorten`, `is_end` mirror these,
   `walk` iterates them (fuel = length + 2, never exhausted: `walk_fuel_enough`).

   Results: on a NUL-free string the walk visits exactly the plain split on
   '/' (`walk_is_split`), the split is injective (`split_levels_inj`, via
   `join`), and every non-empty list of slash-free levels is the split of its
   join (`split_join`). *)
From Coq Require Import List Bool Arith Lia.
From Coq.Strings Require Import Byte.
From GM Require Import Topic.MatchSpec.
Import ListNotations.

Definition topic_end : list byte := [b_nul].

(* topic == topicEnd *)
Definition is_end (s : list byte) : bool :=
  match s with
  | [c] => Byte.eqb c b_nul
  | _ => false
  end.

(* topicSegment: topic[:i] for the first separator, else topic *)
Fixpoint segment (s : list byte) : level :=
  match s with
  | [] => []
  | c :: s' => if Byte.eqb c b_slash then [] else c :: segment s'
  end.

(* topicShorten: topic[i+1:] for the first separator, else the sentinel *)
Fixpoint shorten (s : list byte) : list byte :=
  match s with
  | [] => topic_end
  | c :: s' => if Byte.eqb c b_slash then s' else shorten s'
  end.

Fixpoint walk_fuel (fuel : nat) (s : list byte) : list level :=
  match fuel with
  | O => []
  | S f => if is_end s then [] else segment s :: walk_fuel f (shorten s)
  end.

Definition walk (s : list byte) : list level := walk_fuel (S (S (length s))) s.

(* inverse of split_levels *)
Fixpoint join (p : list level) : list byte :=
  match p with
  | [] => []
  | l :: p' => match p' with [] => l | _ :: _ => l ++ b_slash :: join p' end
  end.

(* a list of levels that is the split of some NUL-free string *)
Definition level_ok (l : level) : Prop := ~ In b_slash l /\ ~ In b_nul l.
Definition path_ok (p : list level) : Prop := p <> [] /\ Forall level_ok p.

(* ------------------------------------------------------------------ facts *)

Lemma byte_eqb_eq : forall a b, Byte.eqb a b = true <-> a = b.
Proof.
  intros a b. split.
  - intros H. apply Byte.byte_dec_bl in H. exact H.
  - intros ->. apply Byte.byte_dec_lb. reflexivity.
Qed.

Lemma byte_eqb_neq : forall a b, Byte.eqb a b = false <-> a <> b.
Proof.
  intros a b. split.
  - intros H E. apply byte_eqb_eq in E. congruence.
  - intros H. destruct (Byte.eqb a b) eqn:E; [apply byte_eqb_eq in E; contradiction | reflexivity].
Qed.

Lemma level_eqb_eq : forall a b, level_eqb a b = true <-> a = b.
Proof.
  induction a as [|x a IH]; destruct b as [|y b]; simpl; split; try congruence; try reflexivity.
  - intros H. apply andb_true_iff in H. destruct H as [H1 H2].
    apply byte_eqb_eq in H1. apply IH in H2. subst. reflexivity.
  - intros H. inversion H; subst. apply andb_true_iff. split.
    + apply byte_eqb_eq. reflexivity.
    + apply IH. reflexivity.
Qed.

Lemma level_eqb_refl : forall a, level_eqb a a = true.
Proof. intros a. apply level_eqb_eq. reflexivity. Qed.

Lemma level_eqb_neq : forall a b, level_eqb a b = false <-> a <> b.
Proof.
  intros a b. split.
  - intros H E. apply level_eqb_eq in E. congruence.
  - intros H. destruct (level_eqb a b) eqn:E; [apply level_eqb_eq in E; contradiction | reflexivity].
Qed.

Lemma level_eqb_sym : forall a b, level_eqb a b = level_eqb b a.
Proof.
  intros a b. destruct (level_eqb a b) eqn:E.
  - apply level_eqb_eq in E. subst. symmetry. apply level_eqb_refl.
  - apply level_eqb_neq in E. symmetry. apply level_eqb_neq. congruence.
Qed.

Lemma level_eq_dec : forall a b : level, {a = b} + {a <> b}.
Proof. intros a b. destruct (level_eqb a b) eqn:E; [left; apply level_eqb_eq; exact E | right; apply level_eqb_neq; exact E]. Defined.

Lemma path_eq_dec : forall a b : list level, {a = b} + {a <> b}.
Proof. apply list_eq_dec. apply level_eq_dec. Defined.

Lemma has_byte_In : forall b l, has_byte b l = true <-> In b l.
Proof.
  intros b l. unfold has_byte. rewrite existsb_exists. split.
  - intros [x [Hin He]]. apply byte_eqb_eq in He. subst. exact Hin.
  - intros Hin. exists b. split; [exact Hin | apply byte_eqb_eq; reflexivity].
Qed.

Lemma has_byte_false : forall b l, has_byte b l = false <-> ~ In b l.
Proof.
  intros b l. split.
  - intros H Hin. apply has_byte_In in Hin. congruence.
  - intros H. destruct (has_byte b l) eqn:E; [apply has_byte_In in E; contradiction | reflexivity].
Qed.

Lemma no_nul_In : forall s, no_nul s = true <-> ~ In b_nul s.
Proof.
  intros s. unfold no_nul. rewrite negb_true_iff. apply has_byte_false.
Qed.

Lemma split_levels_nonempty : forall s, split_levels s <> [].
Proof.
  induction s as [|c s IH]; simpl; [discriminate|].
  destruct (Byte.eqb c b_slash); [discriminate|].
  destruct (split_levels s); discriminate.
Qed.

(* one step of the walk against one step of the split *)
Lemma seg_short_spec : forall s,
  (segment s = s /\ shorten s = topic_end /\ split_levels s = [s] /\ ~ In b_slash s) \/
  (length (shorten s) < length s /\ split_levels s = segment s :: split_levels (shorten s) /\
   (forall b, In b (shorten s) -> In b s) /\ (forall b, In b (segment s) -> In b s)).
Proof.
  induction s as [|c s IH]; simpl.
  - left. repeat split; auto.
  - destruct (Byte.eqb c b_slash) eqn:E.
    + right. repeat split; auto; try lia. intros b [].
    + apply byte_eqb_neq in E.
      destruct IH as [[H1 [H2 [H3 H4]]] | [H1 [H2 [H3 H4]]]].
      * left. rewrite H1, H2, H3. repeat split; auto. intros [Hc | Hc]; [congruence | contradiction].
      * right. rewrite H2. repeat split; auto; try lia.
        intros b [Hb | Hb]; [left; exact Hb | right; apply H4; exact Hb].
Qed.

Lemma is_end_no_nul : forall s, ~ In b_nul s -> is_end s = false.
Proof.
  intros s H. destruct s as [|c [|d s]]; simpl; try reflexivity.
  apply byte_eqb_neq. intros ->. apply H. left. reflexivity.
Qed.

Lemma walk_fuel_split : forall f s, ~ In b_nul s -> length s + 2 <= f -> walk_fuel f s = split_levels s.
Proof.
  induction f as [|f IH]; intros s Hn Hf; [lia|].
  simpl. rewrite (is_end_no_nul s Hn).
  destruct (seg_short_spec s) as [[H1 [H2 [H3 H4]]] | [H1 [H2 [H3 H4]]]].
  - rewrite H1, H2, H3. destruct f as [|f]; [lia|]. reflexivity.
  - rewrite H2. f_equal. apply IH; [|lia]. intros Hin. apply Hn. apply H3. exact Hin.
Qed.

(* the walk of tree.go over a NUL-free topic visits exactly the levels of the plain split *)
Lemma walk_is_split : forall s, no_nul s = true -> walk s = split_levels s.
Proof.
  intros s H. apply no_nul_In in H. unfold walk. apply walk_fuel_split; [exact H | lia].
Qed.

(* the fuel of `walk` is never exhausted: more fuel gives the same walk, for every string *)
Lemma walk_fuel_enough : forall f s, length s + 2 <= f -> walk_fuel f s = walk s.
Proof.
  assert (G : forall f g s, length s + 2 <= f -> length s + 2 <= g -> walk_fuel f s = walk_fuel g s).
  { induction f as [|f IH]; intros g s Hf Hg; [lia|].
    destruct g as [|g]; [lia|]. simpl.
    destruct (is_end s) eqn:E; [reflexivity|]. f_equal.
    destruct (seg_short_spec s) as [[H1 [H2 _]] | [H1 _]].
    - rewrite H2. destruct f as [|f]; [lia|]. destruct g as [|g]; [lia|]. reflexivity.
    - apply IH; lia. }
  intros f s Hf. unfold walk. apply G; [exact Hf | lia].
Qed.

Lemma join_split : forall s, join (split_levels s) = s.
Proof.
  induction s as [|c s IH]; simpl; [reflexivity|].
  destruct (Byte.eqb c b_slash) eqn:E.
  - apply byte_eqb_eq in E. subst c.
    destruct (split_levels s) as [|l ls] eqn:Es; [exfalso; exact (split_levels_nonempty s Es)|].
    simpl. simpl in IH. rewrite IH. reflexivity.
  - destruct (split_levels s) as [|l ls] eqn:Es; [exfalso; exact (split_levels_nonempty s Es)|].
    simpl. simpl in IH. destruct ls as [|l2 ls]; simpl; simpl in IH; rewrite IH; reflexivity.
Qed.

(* different topic strings have different level lists: a map keyed by level lists is a map keyed by topics *)
Lemma split_levels_inj : forall s1 s2, split_levels s1 = split_levels s2 -> s1 = s2.
Proof.
  intros s1 s2 H. rewrite <- (join_split s1), <- (join_split s2), H. reflexivity.
Qed.

Lemma split_level_noslash : forall l, ~ In b_slash l -> split_levels l = [l].
Proof.
  induction l as [|c l IH]; intros H; simpl; [reflexivity|].
  destruct (Byte.eqb c b_slash) eqn:E.
  - apply byte_eqb_eq in E. exfalso. apply H. left. exact E.
  - rewrite IH; [reflexivity|]. intros Hin. apply H. right. exact Hin.
Qed.

Lemma split_app_slash : forall l s, ~ In b_slash l -> split_levels (l ++ b_slash :: s) = l :: split_levels s.
Proof.
  induction l as [|c l IH]; intros s H; simpl.
  - reflexivity.
  - destruct (Byte.eqb c b_slash) eqn:E.
    + apply byte_eqb_eq in E. exfalso. apply H. left. exact E.
    + rewrite IH; [reflexivity|]. intros Hin. apply H. right. exact Hin.
Qed.

Lemma split_join : forall p, path_ok p -> split_levels (join p) = p.
Proof.
  intros p [Hne Hok]. induction p as [|l p IH]; [congruence|].
  inversion Hok as [|? ? Hl Hp]; subst. destruct Hl as [Hs _].
  destruct p as [|l2 p].
  - simpl. apply split_level_noslash. exact Hs.
  - change (join (l :: l2 :: p)) with (l ++ b_slash :: join (l2 :: p)).
    rewrite split_app_slash by exact Hs. f_equal. apply IH; [discriminate | exact Hp].
Qed.

Lemma join_no_nul : forall p, Forall level_ok p -> ~ In b_nul (join p).
Proof.
  induction p as [|l p IH]; intros Hok; [intros []|].
  inversion Hok as [|? ? Hl Hp]; subst. destruct Hl as [_ Hn].
  destruct p as [|l2 p]; [exact Hn|].
  change (join (l :: l2 :: p)) with (l ++ b_slash :: join (l2 :: p)).
  intros Hin. apply in_app_or in Hin. destruct Hin as [Hin | [Hin | Hin]].
  - exact (Hn Hin).
  - discriminate Hin.
  - exact (IH Hp Hin).
Qed.

Lemma split_levels_bytes : forall s l b, In l (split_levels s) -> In b l -> In b s.
Proof.
  induction s as [|c s IH]; intros l b Hl Hb; simpl in Hl.
  - destruct Hl as [<- | []]. exact Hb.
  - destruct (Byte.eqb c b_slash) eqn:E.
    + destruct Hl as [<- | Hl]; [destruct Hb|]. right. exact (IH l b Hl Hb).
    + destruct (split_levels s) as [|l0 ls] eqn:Es; [exfalso; exact (split_levels_nonempty s Es)|].
      destruct Hl as [<- | Hl].
      * destruct Hb as [<- | Hb]; [left; reflexivity|]. right. apply (IH l0 b); [left; reflexivity | exact Hb].
      * right. apply (IH l b); [right; exact Hl | exact Hb].
Qed.

Lemma split_levels_noslash : forall s l, In l (split_levels s) -> ~ In b_slash l.
Proof.
  induction s as [|c s IH]; intros l Hl; simpl in Hl.
  - destruct Hl as [<- | []]. intros [].
  - destruct (Byte.eqb c b_slash) eqn:E.
    + destruct Hl as [<- | Hl]; [intros [] | exact (IH l Hl)].
    + apply byte_eqb_neq in E.
      destruct (split_levels s) as [|l0 ls] eqn:Es; [exfalso; exact (split_levels_nonempty s Es)|].
      destruct Hl as [<- | Hl].
      * intros [Hc | Hc]; [congruence|]. apply (IH l0); [left; reflexivity | exact Hc].
      * apply IH. right. exact Hl.
Qed.

Lemma split_path_ok : forall s, no_nul s = true -> path_ok (split_levels s).
Proof.
  intros s H. apply no_nul_In in H. split; [apply split_levels_nonempty|].
  apply Forall_forall. intros l Hl. split.
  - exact (split_levels_noslash s l Hl).
  - intros Hb. apply H. exact (split_levels_bytes s l _ Hl Hb).
Qed.

(* every well-formed path is the split of a NUL-free topic string *)
Lemma path_ok_string : forall p, path_ok p -> exists s, no_nul s = true /\ split_levels s = p.
Proof.
  intros p H. exists (join p). split.
  - apply no_nul_In. apply join_no_nul. exact (proj2 H).
  - apply split_join. exact H.
Qed.
