(* TreeSpec.v — what topic.Tree is supposed to be: a finite map from topics to
   duplicate-free value lists.  Independent of tree.go: no trie, no walk, no
   sentinel; topics are split with MatchSpec.split_levels and the wildcard
   queries are defined through MatchSpec.matches only.  Definitions only.

   tmap            association list  topic (list of levels) -> non-empty value list;
                   one entry per topic (m_set deletes before it inserts).
                   split_levels is injective (Levels.split_levels_inj), so this
                   is a map keyed by topic strings.
   s_add s_set s_remove s_empty s_clear              the operations
   s_get s_match s_search s_all s_count              the queries
   s_shape         the printed structure of the tree, as a function of the map alone
   answer_ok m q a   "answer a is what the map m allows for query q": lists up
                   to Permutation (a set of values, each once), Count exact (it
                   counts every (topic, value) pair, All de-duplicates), the
                   First variants may return any element of the corresponding
                   list and return nothing exactly when it is empty.
   answer_okb      the same as a boolean (run by the model runner on the
                   implementation's answers); TreeSpecProofs.answer_okb_sound. *)
From Coq Require Import List Bool NArith Permutation.
From Coq.Strings Require Import Byte.
From GM Require Import Topic.MatchSpec Topic.Levels Topic.Trie.
Import ListNotations.
Open Scope N_scope.

Definition path := list level.

Fixpoint path_eqb (a b : path) : bool :=
  match a, b with
  | [], [] => true
  | x :: a', y :: b' => level_eqb x y && path_eqb a' b'
  | _, _ => false
  end.

Definition tmap := list (path * list N).

Fixpoint mget (m : tmap) (p : path) : list N :=
  match m with
  | [] => []
  | (q, vs) :: m' => if path_eqb p q then vs else mget m' p
  end.

Fixpoint m_del (p : path) (m : tmap) : tmap :=
  match m with
  | [] => []
  | (q, vs) :: m' => if path_eqb p q then m_del p m' else (q, vs) :: m_del p m'
  end.

(* bind p to vs; an empty list is no binding *)
Definition m_set (p : path) (vs : list N) (m : tmap) : tmap :=
  match vs with
  | [] => m_del p m
  | _ :: _ => (p, vs) :: m_del p m
  end.

Definition sv_add (v : N) (vs : list N) : list N :=
  if in_dec N.eq_dec v vs then vs else vs ++ [v].
Definition sv_remove (v : N) (vs : list N) : list N := remove N.eq_dec v vs.

Definition s_add (p : path) (v : N) (m : tmap) : tmap := m_set p (sv_add v (mget m p)) m.
Definition s_set (p : path) (v : N) (m : tmap) : tmap := m_set p [v] m.
Definition s_remove (p : path) (v : N) (m : tmap) : tmap := m_set p (sv_remove v (mget m p)) m.
Definition s_empty (p : path) (m : tmap) : tmap := m_del p m.
Fixpoint s_clear (v : N) (m : tmap) : tmap :=
  match m with
  | [] => []
  | (q, vs) :: m' =>
      match sv_remove v vs with
      | [] => s_clear v m'
      | w :: ws => (q, w :: ws) :: s_clear v m'
      end
  end.

Definition s_get (m : tmap) (p : path) : list N := mget m p.

(* values of every stored filter that matches the name *)
Definition s_match (m : tmap) (name : path) : list N :=
  nodup N.eq_dec (flat_map (fun e : path * list N => if matches (fst e) name then snd e else []) m).
(* values of every stored name that the filter matches *)
Definition s_search (m : tmap) (f : path) : list N :=
  nodup N.eq_dec (flat_map (fun e : path * list N => if matches f (fst e) then snd e else []) m).
Definition s_all (m : tmap) : list N := nodup N.eq_dec (flat_map snd m).
Definition s_count (m : tmap) : N := fold_right N.add 0 (map (fun e : path * list N => N.of_nat (length (snd e))) m).

(* what String() shows of a tree without emptied branches: one node per non-empty
   prefix of a stored topic, with the number of values stored at exactly that prefix *)
Fixpoint prefixes (p : path) : list path :=
  match p with
  | [] => []
  | l :: p' => [l] :: map (cons l) (prefixes p')
  end.
Definition s_nodes (m : tmap) : list path :=
  nodup path_eq_dec (flat_map (fun e : path * list N => prefixes (fst e)) m).
Definition s_shape (m : tmap) : list (path * N) :=
  map (fun p => (p, N.of_nat (length (mget m p)))) (s_nodes m).

Definition apply_spec (m : tmap) (o : op) : tmap :=
  match o with
  | OAdd s v => s_add (split_levels s) v m
  | OSet s v => s_set (split_levels s) v m
  | ORemove s v => s_remove (split_levels s) v m
  | OEmpty s => s_empty (split_levels s) m
  | OClear v => s_clear v m
  | OReset => []
  end.

Definition run_spec (ops : list op) : tmap := fold_left apply_spec ops [].

Definition first_ok (o : option N) (l : list N) : Prop :=
  match o with
  | None => l = []
  | Some v => In v l
  end.

(* the scope of C04/C05: topics NUL-free, names looked up with Match wildcard-free, Search filters valid *)
Definition query_ok (q : query) : bool :=
  match q with
  | QGet s => no_nul s
  | QMatch s | QMatchFirst s => wildcard_free s
  | QSearch s | QSearchFirst s => valid_filter s
  | QAll | QCount => true
  end.

Definition op_ok (o : op) : bool :=
  match o with
  | OAdd s _ | OSet s _ | ORemove s _ | OEmpty s => no_nul s
  | OClear _ | OReset => true
  end.

Definition answer_ok (m : tmap) (q : query) (a : answer) : Prop :=
  match q, a with
  | QGet s, AList l => Permutation l (s_get m (split_levels s))
  | QMatch s, AList l => Permutation l (s_match m (split_levels s))
  | QMatchFirst s, AFirst o => first_ok o (s_match m (split_levels s))
  | QSearch s, AList l => Permutation l (s_search m (split_levels s))
  | QSearchFirst s, AFirst o => first_ok o (s_search m (split_levels s))
  | QAll, AList l => Permutation l (s_all m)
  | QCount, ACount n => n = s_count m
  | _, _ => False
  end.

(* boolean versions, for the model runner *)
Fixpoint remove_one (v : N) (l : list N) : option (list N) :=
  match l with
  | [] => None
  | x :: l' => if N.eqb x v then Some l'
               else match remove_one v l' with Some r => Some (x :: r) | None => None end
  end.

Fixpoint permb (l1 l2 : list N) : bool :=
  match l1 with
  | [] => match l2 with [] => true | _ :: _ => false end
  | x :: l1' => match remove_one x l2 with Some l2' => permb l1' l2' | None => false end
  end.

Definition first_okb (o : option N) (l : list N) : bool :=
  match o with
  | None => match l with [] => true | _ :: _ => false end
  | Some v => existsb (N.eqb v) l
  end.

Definition answer_okb (m : tmap) (q : query) (a : answer) : bool :=
  match q, a with
  | QGet s, AList l => permb l (s_get m (split_levels s))
  | QMatch s, AList l => permb l (s_match m (split_levels s))
  | QMatchFirst s, AFirst o => first_okb o (s_match m (split_levels s))
  | QSearch s, AList l => permb l (s_search m (split_levels s))
  | QSearchFirst s, AFirst o => first_okb o (s_search m (split_levels s))
  | QAll, AList l => permb l (s_all m)
  | QCount, ACount n => N.eqb n (s_count m)
  | _, _ => false
  end.

(* operations that commute: different topics, or Clear against anything that
   does not speak about the same value *)
Definition op_topic (o : op) : option (list byte) :=
  match o with
  | OAdd s _ | OSet s _ | ORemove s _ | OEmpty s => Some s
  | OClear _ | OReset => None
  end.

Definition independent (o1 o2 : op) : Prop :=
  match o1, o2 with
  | OReset, _ | _, OReset => False
  | OClear v, OClear w => True
  | OClear v, OAdd _ w | OClear v, OSet _ w | OAdd _ w, OClear v | OSet _ w, OClear v => v <> w
  | OClear _, ORemove _ _ | ORemove _ _, OClear _ => True
  | OClear _, OEmpty _ | OEmpty _, OClear _ => True
  | _, _ => match op_topic o1, op_topic o2 with
            | Some s1, Some s2 => s1 <> s2
            | _, _ => False
            end
  end.

(* two maps with the same contents (the list order of a tmap is not observable) *)
Definition map_equiv (m1 m2 : tmap) : Prop := forall p, mget m1 p = mget m2 p.
