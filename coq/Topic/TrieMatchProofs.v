(* TrieMatchProofs.v — what match() and search() compute, in terms of `tget` and
   the reference relation `matches`:

     tmatch_raw_spec   name free of whole-level wildcards:
                       v ∈ tmatch_raw name t  <->  ∃ f, v ∈ tget f t ∧ matches f name
     tsearch_raw_spec  wf t, '#' only as last level of the filter:
                       v ∈ tsearch_raw f t    <->  ∃ n, v ∈ tget n t ∧ matches f n
     tmatch_first_rel / tsearch_first_rel
                       the First variants return nothing iff the list is empty, else one of its elements *)
From Coq Require Import List Bool NArith Permutation Lia.
From Coq.Strings Require Import Byte.
From GM Require Import Topic.MatchSpec Topic.Levels Topic.Trie Topic.TrieProofs.
Import ListNotations.
Open Scope N_scope.

Definition plain_level (l : level) : Prop := is_plus l = false /\ is_hash l = false.
Definition name_ok (name : list level) : Prop := Forall plain_level name.

(* '#' occurs as a whole level only in last position *)
Fixpoint hash_last (f : list level) : Prop :=
  match f with
  | [] => True
  | l :: f' => (is_hash l = true -> f' = []) /\ hash_last f'
  end.

Lemma is_hash_eq : forall l, is_hash l = true <-> l = lv_hash.
Proof. intros l. unfold is_hash, lv_hash. apply level_eqb_eq. Qed.

Lemma is_plus_eq : forall l, is_plus l = true <-> l = lv_plus.
Proof. intros l. unfold is_plus, lv_plus. apply level_eqb_eq. Qed.

Lemma matches_cons : forall l f' n,
  matches (l :: f') n =
  if is_hash l && (match f' with [] => true | _ :: _ => false end) then true
  else match n with
       | [] => false
       | l' :: n' => (is_plus l || level_eqb l l') && matches f' n'
       end.
Proof. reflexivity. Qed.

Lemma matches_nil : forall n, matches [] n = true <-> n = [].
Proof. intros [|x n]; simpl; split; congruence. Qed.

Lemma wildcard_free_name_ok : forall s, wildcard_free s = true -> name_ok (split_levels s).
Proof.
  intros s H. unfold wildcard_free in H.
  apply andb_true_iff in H. destruct H as [H Hh]. apply andb_true_iff in H. destruct H as [_ Hp].
  apply negb_true_iff in Hh. apply negb_true_iff in Hp.
  apply has_byte_false in Hh. apply has_byte_false in Hp.
  apply Forall_forall. intros l Hl. split.
  - destruct (is_plus l) eqn:E; [|reflexivity]. apply is_plus_eq in E. subst l.
    exfalso. apply Hp. apply (split_levels_bytes s lv_plus); [exact Hl | left; reflexivity].
  - destruct (is_hash l) eqn:E; [|reflexivity]. apply is_hash_eq in E. subst l.
    exfalso. apply Hh. apply (split_levels_bytes s lv_hash); [exact Hl | left; reflexivity].
Qed.

Lemma valid_levels_hash_last : forall f, valid_filter_levels f = true -> hash_last f.
Proof.
  induction f as [|l f IH]; intros H; simpl; [exact I|].
  simpl in H. apply andb_true_iff in H. destruct H as [H Hf].
  apply andb_true_iff in H. destruct H as [Hh _].
  split; [|apply IH; exact Hf].
  intros E. assert (Hb : has_byte b_hash l = true).
  { apply is_hash_eq in E. subst l. reflexivity. }
  rewrite Hb, E in Hh. simpl in Hh. destruct f; [reflexivity | discriminate].
Qed.

Lemma valid_filter_hash_last : forall s, valid_filter s = true -> hash_last (split_levels s).
Proof.
  intros s H. unfold valid_filter in H. apply andb_true_iff in H. apply valid_levels_hash_last. exact (proj2 H).
Qed.

Lemma tget_single : forall l vs ks,
  tget [l] (Node vs ks) = match find_kid l ks with Some c => vals_of c | None => [] end.
Proof. intros l vs ks. rewrite tget_cons. destruct (find_kid l ks) as [[vs' ks']|]; reflexivity. Qed.

(* ------------------------------------------------------------------ match *)
Lemma tmatch_raw_spec : forall name t v, name_ok name ->
  (In v (tmatch_raw name t) <-> exists f, In v (tget f t) /\ matches f name = true).
Proof.
  induction name as [|l rest IH]; intros [vs ks] v Hok.
  - simpl tmatch_raw. rewrite in_app_iff. split.
    + intros [H | H].
      * exists [lv_hash]. rewrite tget_single. split; [exact H | reflexivity].
      * exists []. split; [exact H | reflexivity].
    + intros [f [Hin Hm]]. destruct f as [|l0 f'].
      * right. exact Hin.
      * rewrite matches_cons in Hm.
        destruct (is_hash l0 && match f' with [] => true | _ :: _ => false end) eqn:E; [|discriminate].
        apply andb_true_iff in E. destruct E as [E1 E2]. destruct f'; [|discriminate].
        apply is_hash_eq in E1. subst l0. left. rewrite tget_single in Hin. exact Hin.
  - inversion Hok as [|? ? [Hp Hh] Hrest]; subst.
    simpl tmatch_raw. rewrite Hp, Hh. simpl orb. cbv iota. rewrite !in_app_iff. split.
    + intros [H | [H | H]].
      * exists [lv_hash]. rewrite tget_single. split; [exact H | reflexivity].
      * destruct (find_kid lv_plus ks) as [c|] eqn:Ef; [|destruct H].
        apply (IH c v Hrest) in H. destruct H as [f' [Hin Hm]].
        exists (lv_plus :: f'). rewrite tget_cons, Ef. split; [exact Hin|].
        rewrite matches_cons. change (is_hash lv_plus) with false. simpl. exact Hm.
      * destruct (find_kid l ks) as [c|] eqn:Ef; [|destruct H].
        apply (IH c v Hrest) in H. destruct H as [f' [Hin Hm]].
        exists (l :: f'). rewrite tget_cons, Ef. split; [exact Hin|].
        rewrite matches_cons, Hh, level_eqb_refl, orb_true_r. simpl. exact Hm.
    + intros [f [Hin Hm]]. destruct f as [|l0 f'].
      * simpl in Hm. discriminate.
      * rewrite matches_cons in Hm.
        destruct (is_hash l0 && match f' with [] => true | _ :: _ => false end) eqn:E.
        -- apply andb_true_iff in E. destruct E as [E1 E2]. destruct f'; [|discriminate].
           apply is_hash_eq in E1. subst l0. left. rewrite tget_single in Hin. exact Hin.
        -- apply andb_true_iff in Hm. destruct Hm as [Hl Hm].
           rewrite tget_cons in Hin. destruct (find_kid l0 ks) as [c|] eqn:Ef; [|destruct Hin].
           right. destruct (is_plus l0) eqn:Ep.
           ++ left. apply is_plus_eq in Ep. subst l0. rewrite Ef.
              apply (IH c v Hrest). exists f'. split; assumption.
           ++ right. simpl in Hl. apply level_eqb_eq in Hl. subst l0. rewrite Ef.
              apply (IH c v Hrest). exists f'. split; assumption.
Qed.

(* ------------------------------------------------------------------ first variants *)
Definition first_rel (o : option N) (l : list N) : Prop :=
  match o with
  | None => l = []
  | Some v => In v l
  end.

Lemma first_rel_hd : forall l, first_rel (hd_opt l) l.
Proof. intros [|x l]; simpl; [reflexivity | left; reflexivity]. Qed.

Lemma first_rel_later : forall a b l1 l2, first_rel a l1 -> first_rel b l2 -> first_rel (later a b) (l1 ++ l2).
Proof.
  intros a b l1 l2 Ha Hb. destruct b as [v|]; simpl in *.
  - apply in_or_app. right. exact Hb.
  - subst l2. rewrite app_nil_r. exact Ha.
Qed.

Lemma first_rel_nil : first_rel None [].
Proof. reflexivity. Qed.

Lemma first_rel_clean : forall o l, first_rel o l -> first_rel o (clean l).
Proof.
  intros [v|] l H; simpl in *; [apply clean_In; exact H | apply clean_nil; exact H].
Qed.

Lemma tmatch_first_rel : forall name t, first_rel (tmatch_first name t) (tmatch_raw name t).
Proof.
  induction name as [|l rest IH]; intros [vs ks]; simpl tmatch_first; simpl tmatch_raw.
  - assert (Hh := first_rel_hd (hash_vals ks)).
    destruct (hd_opt (hash_vals ks)) as [v|]; simpl in Hh.
    + simpl. apply in_or_app. left. exact Hh.
    + rewrite Hh. simpl. apply first_rel_hd.
  - assert (Hh := first_rel_hd (hash_vals ks)).
    destruct (hd_opt (hash_vals ks)) as [v|]; simpl in Hh.
    + simpl. apply in_or_app. left. exact Hh.
    + rewrite Hh. simpl app. apply first_rel_later.
      * destruct (find_kid lv_plus ks); [apply IH | reflexivity].
      * destruct (is_plus l || is_hash l); [reflexivity|].
        destruct (find_kid l ks); [apply IH | reflexivity].
Qed.

(* ------------------------------------------------------------------ search *)
Lemma tsearch_raw_unfold : forall f vs ks,
  tsearch_raw f (Node vs ks) =
  match f with
  | [] => vs
  | l :: rest =>
      if is_hash l then vs ++ flat_map (fun kc : level * node => tsearch_raw f (snd kc)) ks
      else if is_plus l then flat_map (fun kc : level * node => tsearch_raw rest (snd kc)) ks
      else match find_kid l ks with Some c => tsearch_raw rest c | None => [] end
  end.
Proof.
  intros f vs ks. destruct f as [|l rest]; [reflexivity|]. simpl.
  destruct (is_hash l).
  - f_equal. apply flat_map_ext. intros [k c]. reflexivity.
  - destruct (is_plus l).
    + apply flat_map_ext. intros [k c]. reflexivity.
    + induction ks as [|[k c] ks IH]; simpl; [reflexivity|].
      destruct (level_eqb l k); [reflexivity | exact IH].
Qed.

Lemma tsearch_raw_spec : forall t f v, wf t -> hash_last f ->
  (In v (tsearch_raw f t) <-> exists n, In v (tget n t) /\ matches f n = true).
Proof.
  intros t. induction t as [vs ks IH] using node_ind2. intros f v Hwf Hf.
  rewrite Forall_forall in IH.
  inversion Hwf as [? ? Hnd Hv Hk]; subst.
  rewrite tsearch_raw_unfold. destruct f as [|l rest].
  - split.
    + intros H. exists []. split; [exact H | reflexivity].
    + intros [n [Hin Hm]]. apply matches_nil in Hm. subst n. exact Hin.
  - destruct Hf as [Hlast Hrest]. destruct (is_hash l) eqn:Eh.
    + (* '#': everything at and below this node *)
      specialize (Hlast eq_refl). subst rest.
      assert (Hall : forall n, matches [l] n = true) by (intros n; rewrite matches_cons, Eh; reflexivity).
      rewrite in_app_iff, in_flat_map. split.
      * intros [H | [[k c] [Hkc H]]].
        -- exists []. split; [exact H | apply Hall].
        -- simpl in H. apply (IH (k, c) Hkc [l] v (Hk _ _ Hkc)) in H; [|simpl; auto].
           destruct H as [n' [Hin _]]. exists (k :: n'). rewrite tget_cons, (In_find_kid _ _ _ Hnd Hkc).
           split; [exact Hin | apply Hall].
      * intros [n [Hin _]]. destruct n as [|k n']; [left; exact Hin|].
        rewrite tget_cons in Hin. destruct (find_kid k ks) as [c|] eqn:Ef; [|destruct Hin].
        apply find_kid_In in Ef. right. exists (k, c). split; [exact Ef|]. simpl.
        apply (IH (k, c) Ef [l] v (Hk _ _ Ef)); [simpl; auto|]. exists n'. split; [exact Hin | apply Hall].
    + destruct (is_plus l) eqn:Ep.
      * (* '+': every child *)
        rewrite in_flat_map. split.
        -- intros [[k c] [Hkc H]]. simpl in H.
           apply (IH (k, c) Hkc rest v (Hk _ _ Hkc) Hrest) in H. destruct H as [n' [Hin Hm]].
           exists (k :: n'). rewrite tget_cons, (In_find_kid _ _ _ Hnd Hkc). split; [exact Hin|].
           rewrite matches_cons, Eh, Ep. simpl. exact Hm.
        -- intros [n [Hin Hm]]. rewrite matches_cons, Eh in Hm. simpl in Hm.
           destruct n as [|k n']; [discriminate|]. rewrite Ep in Hm. simpl in Hm.
           rewrite tget_cons in Hin. destruct (find_kid k ks) as [c|] eqn:Ef; [|destruct Hin].
           apply find_kid_In in Ef. exists (k, c). split; [exact Ef|]. simpl.
           apply (IH (k, c) Ef rest v (Hk _ _ Ef) Hrest). exists n'. split; assumption.
      * (* a literal level *)
        split.
        -- intros H. destruct (find_kid l ks) as [c|] eqn:Ef; [|destruct H].
           assert (Hkc := find_kid_In _ _ _ Ef).
           apply (IH (l, c) Hkc rest v (Hk _ _ Hkc) Hrest) in H. destruct H as [n' [Hin Hm]].
           exists (l :: n'). rewrite tget_cons, Ef. split; [exact Hin|].
           rewrite matches_cons, Eh, level_eqb_refl, orb_true_r. simpl. exact Hm.
        -- intros [n [Hin Hm]]. rewrite matches_cons, Eh in Hm. simpl in Hm.
           destruct n as [|k n']; [discriminate|]. rewrite Ep in Hm. simpl in Hm.
           apply andb_true_iff in Hm. destruct Hm as [Hl Hm]. apply level_eqb_eq in Hl. subst k.
           rewrite tget_cons in Hin. destruct (find_kid l ks) as [c|] eqn:Ef; [|destruct Hin].
           assert (Hkc := find_kid_In _ _ _ Ef).
           apply (IH (l, c) Hkc rest v (Hk _ _ Hkc) Hrest). exists n'. split; assumption.
Qed.

Lemma tsearch_first_unfold : forall f vs ks,
  tsearch_first f (Node vs ks) =
  match f with
  | [] => hd_opt vs
  | l :: rest =>
      if is_hash l then
        match hd_opt vs with
        | Some v => Some v
        | None => fold_left later (map (fun kc : level * node => tsearch_first f (snd kc)) ks) None
        end
      else if is_plus l then fold_left later (map (fun kc : level * node => tsearch_first rest (snd kc)) ks) None
      else match find_kid l ks with Some c => tsearch_first rest c | None => None end
  end.
Proof.
  intros f vs ks. destruct f as [|l rest]; [reflexivity|]. simpl.
  destruct (is_hash l).
  - destruct (hd_opt vs); [reflexivity|]. f_equal. apply map_ext. intros [k c]. reflexivity.
  - destruct (is_plus l).
    + f_equal. apply map_ext. intros [k c]. reflexivity.
    + induction ks as [|[k c] ks IH]; simpl; [reflexivity|].
      destruct (level_eqb l k); [reflexivity | exact IH].
Qed.

Lemma first_rel_fold : forall (g : level * node -> option N) (h : level * node -> list N) ks a l0,
  Forall (fun kc => first_rel (g kc) (h kc)) ks -> first_rel a l0 ->
  first_rel (fold_left later (map g ks) a) (l0 ++ flat_map h ks).
Proof.
  induction ks as [|kc ks IH]; intros a l0 HF Ha; simpl.
  - rewrite app_nil_r. exact Ha.
  - inversion HF as [|? ? H1 H2]; subst. rewrite app_assoc. apply IH; [exact H2|].
    apply first_rel_later; assumption.
Qed.

Lemma tsearch_first_rel : forall t f, first_rel (tsearch_first f t) (tsearch_raw f t).
Proof.
  intros t. induction t as [vs ks IH] using node_ind2. intros f.
  rewrite tsearch_first_unfold, tsearch_raw_unfold. destruct f as [|l rest].
  - apply first_rel_hd.
  - destruct (is_hash l).
    + assert (Hh := first_rel_hd vs). destruct (hd_opt vs) as [v|]; simpl in Hh.
      * simpl. apply in_or_app. left. exact Hh.
      * subst vs. apply (first_rel_fold (fun kc => tsearch_first (l :: rest) (snd kc))
                                        (fun kc => tsearch_raw (l :: rest) (snd kc))); [|reflexivity].
        apply Forall_forall. intros kc Hkc. rewrite Forall_forall in IH. apply IH. exact Hkc.
    + destruct (is_plus l).
      * apply (first_rel_fold (fun kc => tsearch_first rest (snd kc)) (fun kc => tsearch_raw rest (snd kc)) ks None []); [|reflexivity].
        apply Forall_forall. intros kc Hkc. rewrite Forall_forall in IH. apply IH. exact Hkc.
      * destruct (find_kid l ks) as [c|] eqn:Ef; [|reflexivity].
        apply find_kid_In in Ef. rewrite Forall_forall in IH. apply (IH (l, c) Ef).
Qed.

(* ------------------------------------------------------------------ every value SearchFirst may return *)
Lemma tsearch_firsts_unfold : forall f vs ks,
  tsearch_firsts f (Node vs ks) =
  match f with
  | [] => match vs with [] => [] | v :: _ => [v] end
  | l :: rest =>
      if is_hash l then
        match vs with
        | v :: _ => [v]
        | [] => flat_map (fun kc : level * node => tsearch_firsts f (snd kc)) ks
        end
      else if is_plus l then flat_map (fun kc : level * node => tsearch_firsts rest (snd kc)) ks
      else match find_kid l ks with Some c => tsearch_firsts rest c | None => [] end
  end.
Proof.
  intros f vs ks. destruct f as [|l rest]; [reflexivity|]. simpl.
  destruct (is_hash l).
  - destruct vs; [|reflexivity]. apply flat_map_ext. intros [k c]. reflexivity.
  - destruct (is_plus l).
    + apply flat_map_ext. intros [k c]. reflexivity.
    + induction ks as [|[k c] ks IH]; simpl; [reflexivity|].
      destruct (level_eqb l k); [reflexivity | exact IH].
Qed.

Lemma flat_map_nil_iff : forall (A B : Type) (h : A -> list B) l,
  flat_map h l = [] <-> forall x, In x l -> h x = [].
Proof.
  induction l as [|a l IH]; simpl.
  - split; [intros _ x [] | reflexivity].
  - split.
    + intros H x [<- | Hx]; apply app_eq_nil in H; [exact (proj1 H) | apply IH; [exact (proj2 H) | exact Hx]].
    + intros H. rewrite (H a (or_introl eq_refl)). apply IH. intros x Hx. apply H. right. exact Hx.
Qed.

(* the candidates are answers of Search, and there is a candidate exactly when Search finds something *)
Lemma tsearch_firsts_sound : forall t f,
  (forall v, In v (tsearch_firsts f t) -> In v (tsearch_raw f t)) /\
  (tsearch_firsts f t = [] <-> tsearch_raw f t = []).
Proof.
  intros t. induction t as [vs ks IH] using node_ind2. intros f. rewrite Forall_forall in IH.
  rewrite tsearch_firsts_unfold, tsearch_raw_unfold. destruct f as [|l rest].
  - destruct vs as [|x vs].
    + split; [intros v [] | tauto].
    + split; [intros v [<- | []]; left; reflexivity | split; discriminate].
  - destruct (is_hash l).
    + destruct vs as [|x vs].
      * simpl app. split.
        -- intros v Hv. apply in_flat_map in Hv. destruct Hv as [kc [Hkc Hv]].
           apply in_flat_map. exists kc. split; [exact Hkc | apply (proj1 (IH kc Hkc _)); exact Hv].
        -- rewrite !flat_map_nil_iff. split; intros H kc Hkc; apply (IH kc Hkc (l :: rest)); apply H; exact Hkc.
      * split; [intros v [<- | []]; left; reflexivity | split; discriminate].
    + destruct (is_plus l).
      * split.
        -- intros v Hv. apply in_flat_map in Hv. destruct Hv as [kc [Hkc Hv]].
           apply in_flat_map. exists kc. split; [exact Hkc | apply (proj1 (IH kc Hkc _)); exact Hv].
        -- rewrite !flat_map_nil_iff. split; intros H kc Hkc; apply (IH kc Hkc rest); apply H; exact Hkc.
      * destruct (find_kid l ks) as [c|] eqn:Ef; [|split; [intros v [] | tauto]].
        apply find_kid_In in Ef. exact (IH (l, c) Ef rest).
Qed.

Lemma fold_later_in : forall (g : level * node -> option N) (h : level * node -> list N) ks a v,
  (forall kc w, In kc ks -> g kc = Some w -> In w (h kc)) ->
  fold_left later (map g ks) a = Some v -> a = Some v \/ In v (flat_map h ks).
Proof.
  induction ks as [|kc ks IH]; intros a v Hg H; simpl in H; [left; exact H|].
  destruct (IH (later a (g kc)) v (fun kc' w Hin => Hg kc' w (or_intror Hin)) H) as [H1 | H1].
  - destruct (g kc) as [w|] eqn:E; simpl in H1.
    + inversion H1; subst. right. simpl. apply in_or_app. left. apply (Hg kc v); [left; reflexivity | exact E].
    + left. exact H1.
  - right. simpl. apply in_or_app. right. exact H1.
Qed.

(* the model's own SearchFirst (list order of the children) is one of the candidates *)
Lemma tsearch_first_candidate : forall t f v, tsearch_first f t = Some v -> In v (tsearch_firsts f t).
Proof.
  intros t. induction t as [vs ks IH] using node_ind2. intros f v. rewrite Forall_forall in IH.
  rewrite tsearch_first_unfold, tsearch_firsts_unfold. destruct f as [|l rest].
  - destruct vs; simpl; [discriminate|]. intros H. inversion H. left. reflexivity.
  - destruct (is_hash l).
    + destruct vs as [|x vs]; simpl hd_opt; cbv iota.
      * intros H. apply (fold_later_in _ (fun kc => tsearch_firsts (l :: rest) (snd kc))) in H.
        -- destruct H as [H | H]; [discriminate | exact H].
        -- intros kc w Hkc Hw. apply (IH kc Hkc). exact Hw.
      * intros H. inversion H. left. reflexivity.
    + destruct (is_plus l).
      * intros H. apply (fold_later_in _ (fun kc => tsearch_firsts rest (snd kc))) in H.
        -- destruct H as [H | H]; [discriminate | exact H].
        -- intros kc w Hkc Hw. apply (IH kc Hkc). exact Hw.
      * destruct (find_kid l ks) as [c|] eqn:Ef; [|discriminate].
        apply find_kid_In in Ef. apply (IH (l, c) Ef).
Qed.

Lemma search_first_candidates : forall (t : node) (f : list level),
  (forall v, In v (tsearch_firsts f t) -> In v (tsearch_raw f t)) /\
  (tsearch_firsts f t = [] <-> tsearch_raw f t = []) /\
  (forall v, tsearch_first f t = Some v -> In v (tsearch_firsts f t)).
Proof.
  intros t f. destruct (tsearch_firsts_sound t f) as [H1 H2].
  split; [exact H1 | split; [exact H2 | exact (tsearch_first_candidate t f)]].
Qed.
