(* TreeLinProofs.v — the generic soundness / refutation theorems of Base/Lin.v at the
   topic tree instance, with the definition of linearizability written out. *)
From Coq Require Import List Bool NArith Permutation.
From Coq.Strings Require Import Byte.
From GM Require Import Base.Lin Topic.MatchSpec Topic.Trie Topic.TreeSpec Topic.TreeLin.
Import ListNotations.
Open Scope N_scope.

Lemma tree_lin_sound : forall (h : list tevent) fuel, tree_lin_check h fuel = true ->
  exists l, Permutation l h /\ rt_ok lop (lop * list N) l /\ legal tmap lop (lop * list N) lstep lagree [] l.
Proof. intros h fuel H. exact (lin_check_sound _ _ _ lstep lagree [] h fuel H). Qed.

Lemma tree_lin_refutes : forall (h : list tevent) fuel, tree_lin_verdict h fuel = No ->
  ~ exists l, Permutation l h /\ rt_ok lop (lop * list N) l /\ legal tmap lop (lop * list N) lstep lagree [] l.
Proof. intros h fuel H. exact (lin_verdict_No _ _ _ lstep lagree [] h fuel H). Qed.
