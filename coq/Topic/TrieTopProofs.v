(* TrieTopProofs.v — the statements of C04/C05 on topic strings and operation
   histories, assembled from TrieMatchProofs / TrieRefineProofs / TrieCanonProofs. *)
From Coq Require Import List Bool NArith Permutation Lia.
From Coq.Strings Require Import Byte.
From GM Require Import Topic.MatchSpec Topic.Levels Topic.Trie Topic.TrieProofs Topic.TrieMatchProofs
  Topic.TreeSpec Topic.TreeSpecProofs Topic.TrieRefineProofs Topic.TrieCanonProofs.
Import ListNotations.
Open Scope N_scope.

(* values only sit at paths that are splits of NUL-free topic strings *)
Definition stringy (t : tree) : Prop := forall p, tget p t <> [] -> path_ok p.

Lemma remove_val_nil : forall v, remove_val v [] = [].
Proof. reflexivity. Qed.

Lemma stringy_apply : forall t o, wf t -> op_ok o = true -> stringy t -> stringy (apply_trie t o).
Proof.
  intros t o Hw Hok Hs p Hp. rewrite tget_apply in Hp by exact Hw.
  destruct o as [s v | s v | s v | s | v |]; simpl in Hok, Hp;
    try (rewrite (walk_is_split s Hok) in Hp; destruct (path_eq_dec p (split_levels s)) as [-> | E];
         [apply split_path_ok; exact Hok | try (apply Hs; exact Hp)]).
  - apply Hs. intros E. rewrite E in Hp. apply Hp. reflexivity.
  - congruence.
Qed.

Lemma stringy_run : forall ops, forallb op_ok ops = true -> stringy (run_trie ops).
Proof.
  intros ops. unfold run_trie.
  assert (G : forall t, wf t -> stringy t -> forallb op_ok ops = true -> stringy (fold_left apply_trie ops t)).
  { induction ops as [|o ops IH]; intros t Hw Hs Hok; simpl; [exact Hs|].
    simpl in Hok. apply andb_true_iff in Hok. destruct Hok as [Ho Hops].
    apply IH; [apply wf_apply; exact Hw | apply stringy_apply; assumption | exact Hops]. }
  intros Hok. apply G; [exact wf_empty | | exact Hok].
  intros p Hp. unfold New in Hp. rewrite tget_empty_node in Hp. congruence.
Qed.

Lemma wildcard_free_no_nul : forall s, wildcard_free s = true -> no_nul s = true.
Proof.
  intros s H. unfold wildcard_free in H. apply andb_true_iff in H. destruct H as [H _].
  apply andb_true_iff in H. exact (proj1 H).
Qed.

Lemma valid_filter_no_nul : forall s, valid_filter s = true -> no_nul s = true.
Proof. intros s H. unfold valid_filter in H. apply andb_true_iff in H. exact (proj1 H). Qed.

(* paths with values <-> NUL-free topic strings with values *)
Lemma stored_string : forall t (P : path -> bool) v, stringy t ->
  ((exists p, In v (tget p t) /\ P p = true) <->
   (exists s, no_nul s = true /\ In v (Get t s) /\ P (split_levels s) = true)).
Proof.
  intros t P v Hs. split.
  - intros [p [Hin HP]]. assert (Hok : path_ok p) by (apply Hs; intros E; rewrite E in Hin; destruct Hin).
    destruct (path_ok_string p Hok) as [s [Hn Hsp]]. exists s. unfold Get.
    rewrite (walk_is_split s Hn), Hsp. repeat split; assumption.
  - intros [s [Hn [Hin HP]]]. exists (split_levels s). unfold Get in Hin. rewrite (walk_is_split s Hn) in Hin.
    split; assumption.
Qed.

(* ------------------------------------------------------------------ C04 *)
Lemma match_strings : forall ops name v, forallb op_ok ops = true -> wildcard_free name = true ->
  (In v (Match (run_trie ops) name) <->
   exists f, no_nul f = true /\ In v (Get (run_trie ops) f) /\ topic_matches f name = true)
  /\ NoDup (Match (run_trie ops) name).
Proof.
  intros ops name v Hok Hn. split; [|apply clean_NoDup].
  unfold Match, tmatch. rewrite (walk_is_split name (wildcard_free_no_nul name Hn)).
  rewrite clean_In, (tmatch_raw_spec _ _ v (wildcard_free_name_ok name Hn)).
  apply (stored_string (run_trie ops) (fun f => matches f (split_levels name)) v). apply stringy_run. exact Hok.
Qed.

Lemma search_strings : forall ops f v, forallb op_ok ops = true -> valid_filter f = true ->
  (In v (Search (run_trie ops) f) <->
   exists name, no_nul name = true /\ In v (Get (run_trie ops) name) /\ topic_matches f name = true)
  /\ NoDup (Search (run_trie ops) f).
Proof.
  intros ops f v Hok Hf. split; [|apply clean_NoDup].
  unfold Search, tsearch. rewrite (walk_is_split f (valid_filter_no_nul f Hf)).
  rewrite clean_In, (tsearch_raw_spec _ _ v (wf_run ops) (valid_filter_hash_last f Hf)).
  apply (stored_string (run_trie ops) (fun n => matches (split_levels f) n) v). apply stringy_run. exact Hok.
Qed.

Lemma first_rel_iff : forall o l, first_rel o l -> (o = None <-> l = []) /\ (forall v, o = Some v -> In v l).
Proof.
  intros [w|] l H; simpl in H; split.
  - split; [discriminate | intros E; subst l; destruct H].
  - intros v E. inversion E; subst. exact H.
  - split; [intros _; exact H | reflexivity].
  - intros v E. discriminate.
Qed.

Lemma firsts_any_tree : forall (t : tree) (s : list byte),
  ((MatchFirst t s = None <-> Match t s = []) /\ (forall v, MatchFirst t s = Some v -> In v (Match t s))) /\
  ((SearchFirst t s = None <-> Search t s = []) /\ (forall v, SearchFirst t s = Some v -> In v (Search t s))).
Proof.
  intros t s. split; apply first_rel_iff; apply first_rel_clean; [apply tmatch_first_rel | apply tsearch_first_rel].
Qed.

Lemma get_single : forall p q v, tget q (tset v p New) = if path_eq_dec q p then [v] else [].
Proof. intros p q v. rewrite tget_tset. unfold New. rewrite tget_empty_node. reflexivity. Qed.

Lemma directions_agree : forall f name v, valid_filter f = true -> wildcard_free name = true ->
  (In v (Match (Set_ New f v) name) <-> topic_matches f name = true) /\
  (In v (Search (Set_ New name v) f) <-> topic_matches f name = true).
Proof.
  intros f name v Hf Hn.
  assert (Hfn := valid_filter_no_nul f Hf). assert (Hnn := wildcard_free_no_nul name Hn).
  split.
  - unfold Match, tmatch, Set_. rewrite (walk_is_split name Hnn), (walk_is_split f Hfn).
    rewrite clean_In, (tmatch_raw_spec _ _ v (wildcard_free_name_ok name Hn)). split.
    + intros [p [Hin Hm]]. rewrite get_single in Hin.
      destruct (path_eq_dec p (split_levels f)) as [-> | E]; [exact Hm | destruct Hin].
    + intros Hm. exists (split_levels f). rewrite get_single.
      destruct (path_eq_dec (split_levels f) (split_levels f)); [|congruence]. split; [left; reflexivity | exact Hm].
  - unfold Search, tsearch, Set_. rewrite (walk_is_split name Hnn), (walk_is_split f Hfn).
    rewrite clean_In, (tsearch_raw_spec _ _ v (wf_tset v _ New wf_empty) (valid_filter_hash_last f Hf)). split.
    + intros [p [Hin Hm]]. rewrite get_single in Hin.
      destruct (path_eq_dec p (split_levels name)) as [-> | E]; [exact Hm | destruct Hin].
    + intros Hm. exists (split_levels name). rewrite get_single.
      destruct (path_eq_dec (split_levels name) (split_levels name)); [|congruence]. split; [left; reflexivity | exact Hm].
Qed.

(* ------------------------------------------------------------------ C05 *)
Lemma refines_all : forall ops, forallb op_ok ops = true ->
  (forall p, Permutation (mget (abs (run_trie ops)) p) (mget (run_spec ops) p)) /\
  (forall q, query_ok q = true -> answer_ok (run_spec ops) q (answer_trie (run_trie ops) q)) /\
  Permutation (Shape (run_trie ops)) (s_shape (run_spec ops)).
Proof.
  intros ops Hok.
  assert (Hw := wf_run ops). assert (Hm := mwf_run ops). assert (Hr := refines_run ops Hok).
  split; [|split].
  - intros p. rewrite abs_get by exact Hw. apply Hr.
  - intros q Hq. apply answers_agree; assumption.
  - apply shape_refines; try assumption. apply pruned_run.
Qed.

Lemma canonical_abs : forall t1 t2, wf t1 -> wf t2 -> pruned t1 -> pruned t2 ->
  (forall p, Permutation (mget (abs t1) p) (mget (abs t2) p)) -> Permutation (Shape t1) (Shape t2).
Proof.
  intros t1 t2 H1 H2 P1 P2 He. apply shape_canonical; try assumption.
  intros q. rewrite <- (abs_get t1 q H1), <- (abs_get t2 q H2). apply He.
Qed.

(* two histories that leave the same map contents leave trees that print alike and answer alike *)
Lemma history_independent : forall ops1 ops2, forallb op_ok ops1 = true -> forallb op_ok ops2 = true ->
  (forall p, Permutation (mget (run_spec ops1) p) (mget (run_spec ops2) p)) ->
  Permutation (Shape (run_trie ops1)) (Shape (run_trie ops2)) /\
  (forall p, Permutation (tget p (run_trie ops1)) (tget p (run_trie ops2))).
Proof.
  intros ops1 ops2 H1 H2 He.
  assert (G : forall p, Permutation (tget p (run_trie ops1)) (tget p (run_trie ops2))).
  { intros p. eapply perm_trans; [apply (refines_run ops1 H1)|].
    eapply perm_trans; [apply He|]. apply Permutation_sym. apply (refines_run ops2 H2). }
  split; [|exact G].
  apply shape_canonical; try apply wf_run; try apply pruned_run. exact G.
Qed.
