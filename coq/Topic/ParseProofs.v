(* ParseProofs.v — topic.Parse (model Parse.parse) against its specification.

     parse_is_spec        NUL-free input: parse s allow = parse_spec s allow  (so: never OutOfFuel;
                          ErrZeroLength iff the collapsed and trimmed topic is empty; otherwise Ok of
                          that topic iff its levels are well-formed, else ErrWildcards)
     parse_ok_normal      a successful result has no adjacent slashes, no trailing slash, is non-empty,
                          NUL-free, and is a MatchSpec.valid_filter (wildcards allowed) resp.
                          MatchSpec.wildcard_free (not allowed)
     parse_idempotent     Parse of its own output returns it unchanged *)
From Coq Require Import List Bool Arith Lia.
From Coq.Strings Require Import Byte.
From GM Require Import Topic.MatchSpec Topic.Levels Topic.Parse.
Import ListNotations.

Lemma is_slash_eq : forall c, is_slash c = true <-> c = b_slash.
Proof. intros c. unfold is_slash. apply byte_eqb_eq. Qed.

(* ------------------------------------------------------------------ collapse *)
Lemma collapse_from_noadj : forall s b, has_adj_from b (collapse_from b s) = false.
Proof.
  induction s as [|c s IH]; intros b; simpl; [reflexivity|].
  destruct (is_slash c && b) eqn:E.
  - apply andb_true_iff in E. destruct E as [_ ->]. apply IH.
  - simpl. rewrite E. simpl. apply IH.
Qed.

Lemma collapse_from_id : forall s b, has_adj_from b s = false -> collapse_from b s = s.
Proof.
  induction s as [|c s IH]; intros b H; simpl in *; [reflexivity|].
  apply orb_false_iff in H. destruct H as [H1 H2]. rewrite H1. f_equal. apply IH. exact H2.
Qed.

Lemma collapse_from_In : forall s b x, In x (collapse_from b s) -> In x s.
Proof.
  induction s as [|c s IH]; intros b x H; simpl in *; [exact H|].
  destruct (is_slash c && b).
  - right. exact (IH _ _ H).
  - destruct H as [H | H]; [left; exact H | right; exact (IH _ _ H)].
Qed.

(* ------------------------------------------------------------------ trim_right *)
Lemma trim_right_noadj : forall s b, has_adj_from b s = false -> has_adj_from b (trim_right s) = false.
Proof.
  induction s as [|c s IH]; intros b H; simpl in *; [reflexivity|].
  apply orb_false_iff in H. destruct H as [H1 H2].
  destruct (trim_right s) as [|x t] eqn:E.
  - destruct (is_slash c) eqn:Ec; [reflexivity|]. simpl. rewrite Ec. reflexivity.
  - change (has_adj_from b (c :: x :: t)) with ((is_slash c && b) || has_adj_from (is_slash c) (x :: t)).
    rewrite H1. simpl orb. apply IH. exact H2.
Qed.

Lemma trim_right_no_trailing : forall s, ends_with_slash (trim_right s) = false.
Proof.
  induction s as [|c s IH]; simpl; [reflexivity|].
  destruct (trim_right s) as [|x t] eqn:E.
  - destruct (is_slash c) eqn:Ec; [reflexivity | simpl; exact Ec].
  - exact IH.
Qed.

Lemma trim_right_id : forall s, ends_with_slash s = false -> trim_right s = s.
Proof.
  induction s as [|c s IH]; intros H; [reflexivity|].
  destruct s as [|x s'].
  - simpl in *. rewrite H. reflexivity.
  - change (ends_with_slash (c :: x :: s')) with (ends_with_slash (x :: s')) in H.
    change (trim_right (c :: x :: s')) with (match trim_right (x :: s') with [] => if is_slash c then [] else [c] | t => c :: t end).
    rewrite (IH H). reflexivity.
Qed.

Lemma trim_right_In : forall s x, In x (trim_right s) -> In x s.
Proof.
  induction s as [|c s IH]; intros x H; simpl in *; [exact H|].
  destruct (trim_right s) as [|y t] eqn:E.
  - destruct (is_slash c); [destruct H|]. destruct H as [H | []]. left. exact H.
  - destruct H as [H | H]; [left; exact H | right; apply IH; exact H].
Qed.

Lemma norm_In : forall s x, In x (norm s) -> In x s.
Proof. intros s x H. unfold norm in H. apply trim_right_In in H. exact (collapse_from_In _ _ _ H). Qed.

Lemma norm_noadj : forall s, has_adjacent_slashes (norm s) = false.
Proof. intros s. unfold norm, has_adjacent_slashes. apply trim_right_noadj. apply collapse_from_noadj. Qed.

Lemma norm_no_trailing : forall s, ends_with_slash (norm s) = false.
Proof. intros s. apply trim_right_no_trailing. Qed.

Lemma norm_id : forall t, has_adjacent_slashes t = false -> ends_with_slash t = false -> norm t = t.
Proof.
  intros t H1 H2. unfold norm, collapse. rewrite (collapse_from_id t false H1). apply trim_right_id. exact H2.
Qed.

(* ------------------------------------------------------------------ levels *)
(* the loop's three checks, on a level and "this is the last level" *)
Definition level_bad (allow : bool) (l : level) (last : bool) : bool :=
  ((has_byte b_plus l || has_byte b_hash l) && (1 <? length l)) ||
  (negb allow && (is_hash l || is_plus l)) ||
  (is_hash l && negb last).

Fixpoint levels_okb (allow : bool) (ls : list level) : bool :=
  match ls with
  | [] => true
  | l :: ls' => negb (level_bad allow l (match ls' with [] => true | _ :: _ => false end)) && levels_okb allow ls'
  end.

Lemma is_end_topic_end : is_end topic_end = true.
Proof. reflexivity. Qed.

Lemma check_segments_split : forall fuel allow r, ~ In b_nul r -> length r + 2 <= fuel ->
  check_segments fuel allow r = Some (levels_okb allow (split_levels r)).
Proof.
  induction fuel as [|f IH]; intros allow r Hn Hf; [lia|].
  simpl check_segments. unfold segment_bad.
  destruct (seg_short_spec r) as [[H1 [H2 [H3 H4]]] | [H1 [H2 [H3 H4]]]].
  - rewrite H1, H2, H3. rewrite (is_end_no_nul r Hn). rewrite is_end_topic_end.
    simpl levels_okb. unfold level_bad. simpl negb.
    rewrite andb_false_r, orb_false_r, andb_true_r.
    destruct (_ || _) eqn:E; [reflexivity|].
    destruct f as [|f]; [lia|]. reflexivity.
  - assert (Hs : ~ In b_nul (segment r)) by (intros Hin; apply Hn; apply H4; exact Hin).
    assert (Hr : ~ In b_nul (shorten r)) by (intros Hin; apply Hn; apply H3; exact Hin).
    rewrite (is_end_no_nul _ Hs). rewrite H2. rewrite (is_end_no_nul _ Hr).
    destruct (split_levels (shorten r)) as [|l2 ls2] eqn:Es; [exfalso; exact (split_levels_nonempty _ Es)|].
    change (levels_okb allow (segment r :: l2 :: ls2)) with
      (negb (level_bad allow (segment r) false) && levels_okb allow (l2 :: ls2)).
    unfold level_bad. simpl negb.
    destruct (_ || _ || _) eqn:E; [reflexivity|].
    simpl andb. rewrite (IH allow (shorten r) Hr) by lia. rewrite Es. reflexivity.
Qed.

(* the possible shapes of a level with respect to the wildcard characters *)
Lemma level_cases : forall l : level,
  (has_byte b_plus l = false /\ has_byte b_hash l = false /\ is_plus l = false /\ is_hash l = false) \/
  (is_plus l = true /\ has_byte b_plus l = true /\ has_byte b_hash l = false /\ is_hash l = false /\ (1 <? length l) = false) \/
  (is_hash l = true /\ has_byte b_hash l = true /\ has_byte b_plus l = false /\ is_plus l = false /\ (1 <? length l) = false) \/
  ((has_byte b_plus l || has_byte b_hash l) = true /\ (1 <? length l) = true /\ is_plus l = false /\ is_hash l = false).
Proof.
  intros [|c [|d l]].
  - left. repeat split; reflexivity.
  - destruct c; vm_compute; auto 10.
  - assert (Hp : is_plus (c :: d :: l) = false) by (unfold is_plus; simpl; apply andb_false_r).
    assert (Hh : is_hash (c :: d :: l) = false) by (unfold is_hash; simpl; apply andb_false_r).
    destruct (has_byte b_plus (c :: d :: l) || has_byte b_hash (c :: d :: l)) eqn:E.
    + right. right. right. repeat split; try assumption; reflexivity.
    + apply orb_false_iff in E. destruct E as [E1 E2]. left. repeat split; assumption.
Qed.

Lemma levels_okb_allow : forall ls, levels_okb true ls = valid_filter_levels ls.
Proof.
  induction ls as [|l ls IH]; [reflexivity|].
  simpl levels_okb. simpl valid_filter_levels. rewrite IH. unfold level_bad. simpl negb at 2. simpl andb at 2.
  destruct (level_cases l) as [[H1 [H2 [H3 H4]]] | [[H1 [H2 [H3 [H4 H5]]]] | [[H1 [H2 [H3 [H4 H5]]]] | [H1 [H2 [H3 H4]]]]]].
  - rewrite H1, H2, H3, H4. reflexivity.
  - rewrite H1, H2, H3, H4, H5. reflexivity.
  - rewrite H1, H2, H3, H4, H5. simpl. destruct ls; reflexivity.
  - rewrite H1, H2, H3, H4. simpl.
    destruct (has_byte b_hash l); simpl; [reflexivity|].
    simpl in H1. rewrite orb_false_r in H1. rewrite H1. reflexivity.
Qed.

Lemma levels_okb_deny : forall ls,
  levels_okb false ls = forallb (fun l => negb (has_byte b_plus l) && negb (has_byte b_hash l)) ls.
Proof.
  induction ls as [|l ls IH]; [reflexivity|].
  simpl levels_okb. simpl forallb. rewrite IH. unfold level_bad. simpl negb at 2. simpl andb at 2.
  destruct (level_cases l) as [[H1 [H2 [H3 H4]]] | [[H1 [H2 [H3 [H4 H5]]]] | [[H1 [H2 [H3 [H4 H5]]]] | [H1 [H2 [H3 H4]]]]]].
  - rewrite H1, H2, H3, H4. reflexivity.
  - rewrite H1, H2, H3, H4, H5. reflexivity.
  - rewrite H1, H2, H3, H4, H5. reflexivity.
  - rewrite H1, H2, H3, H4. simpl. apply orb_true_iff in H1.
    destruct H1 as [-> | ->]; [reflexivity | rewrite andb_false_r; reflexivity].
Qed.

Lemma split_levels_covers : forall s x, In x s -> x <> b_slash -> exists l, In l (split_levels s) /\ In x l.
Proof.
  induction s as [|c s IH]; intros x Hin Hne; [destruct Hin|]. simpl.
  destruct (Byte.eqb c b_slash) eqn:E.
  - apply byte_eqb_eq in E. destruct Hin as [Hin | Hin]; [congruence|].
    destruct (IH x Hin Hne) as [l [H1 H2]]. exists l. split; [right; exact H1 | exact H2].
  - destruct (split_levels s) as [|l0 ls] eqn:Es; [exfalso; exact (split_levels_nonempty s Es)|].
    destruct Hin as [<- | Hin].
    + exists (c :: l0). split; left; reflexivity.
    + destruct (IH x Hin Hne) as [l [[<- | H1] H2]].
      * exists (c :: l0). split; [left; reflexivity | right; exact H2].
      * exists l. split; [right; exact H1 | exact H2].
Qed.

Lemma has_byte_levels : forall x s, x <> b_slash ->
  has_byte x s = existsb (has_byte x) (split_levels s).
Proof.
  intros x s Hne. destruct (has_byte x s) eqn:E.
  - symmetry. apply has_byte_In in E. destruct (split_levels_covers s x E Hne) as [l [H1 H2]].
    apply existsb_exists. exists l. split; [exact H1 | apply has_byte_In; exact H2].
  - symmetry. destruct (existsb (has_byte x) (split_levels s)) eqn:E2; [|reflexivity].
    apply existsb_exists in E2. destruct E2 as [l [H1 H2]]. apply has_byte_In in H2.
    apply has_byte_false in E. exfalso. apply E. exact (split_levels_bytes s l x H1 H2).
Qed.

Lemma forallb_negb_existsb : forall (A : Type) (f : A -> bool) l, forallb (fun x => negb (f x)) l = negb (existsb f l).
Proof. induction l as [|a l IH]; simpl; [reflexivity|]. rewrite IH, negb_orb. reflexivity. Qed.

Lemma levels_okb_good : forall allow t, levels_okb allow (split_levels t) = topic_good allow t.
Proof.
  intros [|] t; unfold topic_good.
  - apply levels_okb_allow.
  - rewrite levels_okb_deny.
    assert (Hp : b_plus <> b_slash) by discriminate. assert (Hh : b_hash <> b_slash) by discriminate.
    rewrite (has_byte_levels b_plus t Hp), (has_byte_levels b_hash t Hh).
    rewrite <- !forallb_negb_existsb.
    induction (split_levels t) as [|l ls IH]; simpl; [reflexivity|]. rewrite IH.
    destruct (has_byte b_plus l), (has_byte b_hash l); simpl; try reflexivity;
      repeat rewrite andb_false_r; reflexivity.
Qed.

(* ------------------------------------------------------------------ the model is the specification *)
Lemma not_In_norm : forall s, ~ In b_nul s -> ~ In b_nul (norm s).
Proof. intros s H Hin. apply H. exact (norm_In _ _ Hin). Qed.

Theorem parse_is_spec : forall s allow, no_nul s = true -> parse s allow = parse_spec s allow.
Proof.
  intros s allow Hn. apply no_nul_In in Hn. unfold parse, parse_spec.
  destruct s as [|c s]; [reflexivity|].
  assert (E : trim_right (if has_adjacent_slashes (c :: s) then collapse (c :: s) else c :: s) = norm (c :: s)).
  { unfold norm. destruct (has_adjacent_slashes (c :: s)) eqn:Ea; [reflexivity|].
    unfold collapse. rewrite (collapse_from_id _ false Ea). reflexivity. }
  cbv zeta. rewrite E. destruct (norm (c :: s)) as [|x t] eqn:En; [reflexivity|].
  assert (Hnn : ~ In b_nul (x :: t)) by (rewrite <- En; apply not_In_norm; exact Hn).
  rewrite (check_segments_split _ allow (x :: t) Hnn) by lia.
  rewrite levels_okb_good. destruct (topic_good allow (x :: t)); reflexivity.
Qed.

Theorem parse_ok_normal : forall s allow t, no_nul s = true -> parse s allow = POk t ->
  t = norm s /\ normal_form allow t = true /\ no_nul t = true /\
  (allow = true -> valid_filter t = true) /\ (allow = false -> wildcard_free t = true).
Proof.
  intros s allow t Hn H. rewrite (parse_is_spec s allow Hn) in H. unfold parse_spec in H.
  destruct (norm s) as [|x r] eqn:En; [discriminate|].
  destruct (topic_good allow (x :: r)) eqn:Eg; [|discriminate]. inversion H; subst t. clear H.
  assert (Hnn : no_nul (x :: r) = true).
  { apply no_nul_In. rewrite <- En. apply not_In_norm. apply no_nul_In. exact Hn. }
  split; [reflexivity|]. split; [|split; [exact Hnn|split]].
  - unfold normal_form. rewrite <- En at 1 2. rewrite norm_noadj, norm_no_trailing, Eg. reflexivity.
  - intros ->. unfold valid_filter. rewrite Hnn. exact Eg.
  - intros ->. unfold wildcard_free. rewrite Hnn. unfold topic_good in Eg.
    apply andb_true_iff in Eg. destruct Eg as [E1 E2]. rewrite E1, E2. reflexivity.
Qed.

Theorem parse_idempotent : forall s allow t, no_nul s = true -> parse s allow = POk t -> parse t allow = POk t.
Proof.
  intros s allow t Hn H. destruct (parse_ok_normal s allow t Hn H) as [_ [Hnf [Hnt _]]].
  rewrite (parse_is_spec t allow Hnt). unfold parse_spec. unfold normal_form in Hnf.
  apply andb_true_iff in Hnf. destruct Hnf as [Hnf Hg]. apply andb_true_iff in Hnf. destruct Hnf as [Hnf Hne].
  apply andb_true_iff in Hnf. destruct Hnf as [Ha Ht]. apply negb_true_iff in Ha. apply negb_true_iff in Ht.
  rewrite (norm_id t Ha Ht). destruct t as [|x r]; [discriminate|]. rewrite Hg. reflexivity.
Qed.

(* when Parse fails *)
Theorem parse_failures : forall s allow, no_nul s = true ->
  (parse s allow = PErr ErrZeroLength <-> norm s = []) /\
  (parse s allow = PErr ErrWildcards <-> norm s <> [] /\ topic_good allow (norm s) = false) /\
  parse s allow <> POutOfFuel.
Proof.
  intros s allow Hn. rewrite (parse_is_spec s allow Hn). unfold parse_spec.
  destruct (norm s) as [|x r] eqn:En.
  - split; [split; reflexivity|]. split; [|discriminate]. split; [discriminate | intros [H _]; congruence].
  - destruct (topic_good allow (x :: r)) eqn:Eg.
    + split; [split; discriminate|]. split; [|discriminate]. split; [discriminate | intros [_ H]; discriminate].
    + split; [split; discriminate|]. split; [|discriminate]. split; [intros _; split; [discriminate | reflexivity] | reflexivity].
Qed.

(* ContainsWildcards after a Parse that does not allow wildcards *)
Theorem parse_deny_no_wildcards : forall s t, no_nul s = true -> parse s false = POk t -> contains_wildcards t = false.
Proof.
  intros s t Hn H. destruct (parse_ok_normal s false t Hn H) as [_ [_ [_ [_ Hw]]]].
  specialize (Hw eq_refl). unfold wildcard_free in Hw. apply andb_true_iff in Hw. destruct Hw as [Hw H2].
  apply andb_true_iff in Hw. destruct Hw as [_ H1]. apply negb_true_iff in H1. apply negb_true_iff in H2.
  unfold contains_wildcards. rewrite H1, H2. reflexivity.
Qed.
