(* MatchSpec.v — the MQTT 3.1.1 section 4.7 matching relation, written from the
   specification text and independent of topic/tree.go.  Shared by the topic
   tree proofs (C04, C05) and the backend model (C06, C11).  Definitions only.

   A topic (name or filter) is a byte string; its levels are the pieces
   between '/' separators (plain split: "" has one empty level, "/" two,
   "a//b" three).  '+' alone in a level stands for exactly one level, '#'
   alone in the LAST level for zero or more levels (so "a/#" also matches
   "a").  Empty levels are ordinary levels, comparison is byte-exact.
   '$'-prefixed topics are not treated specially (DESIGN.md, C04 scope note). *)
From Coq Require Import List Bool.
From Coq.Strings Require Import Byte.
Import ListNotations.

Definition level := list byte.

Definition b_slash : byte := "/"%byte.
Definition b_plus  : byte := "+"%byte.
Definition b_hash  : byte := "#"%byte.
Definition b_nul   : byte := x00.

Fixpoint level_eqb (a b : level) : bool :=
  match a, b with
  | [], [] => true
  | x :: a', y :: b' => Byte.eqb x y && level_eqb a' b'
  | _, _ => false
  end.

Definition is_plus (l : level) : bool := level_eqb l [b_plus].
Definition is_hash (l : level) : bool := level_eqb l [b_hash].

(* plain split on '/' *)
Fixpoint split_levels (s : list byte) : list level :=
  match s with
  | [] => [[]]
  | c :: s' =>
      if Byte.eqb c b_slash then [] :: split_levels s'
      else match split_levels s' with
           | l :: ls => (c :: l) :: ls
           | [] => [[c]]                      (* unreachable: split_levels is never empty *)
           end
  end.

(* filter levels, name levels *)
Fixpoint matches (f n : list level) : bool :=
  match f with
  | [] => match n with [] => true | _ :: _ => false end
  | l :: f' =>
      if is_hash l && (match f' with [] => true | _ => false end) then true
      else match n with
           | [] => false
           | l' :: n' => (is_plus l || level_eqb l l') && matches f' n'
           end
  end.

Definition topic_matches (filter name : list byte) : bool :=
  matches (split_levels filter) (split_levels name).

(* syntactic side conditions of the properties *)
Definition has_byte (b : byte) (l : list byte) : bool := existsb (Byte.eqb b) l.

(* a filter is valid when a wildcard character occupies a whole level and '#' is last *)
Fixpoint valid_filter_levels (f : list level) : bool :=
  match f with
  | [] => true
  | l :: f' =>
      (if has_byte b_hash l then is_hash l && (match f' with [] => true | _ => false end) else true) &&
      (if has_byte b_plus l then is_plus l else true) &&
      valid_filter_levels f'
  end.

Definition no_nul (s : list byte) : bool := negb (has_byte b_nul s).
Definition valid_filter (s : list byte) : bool := no_nul s && valid_filter_levels (split_levels s).
Definition wildcard_free (s : list byte) : bool :=
  no_nul s && negb (has_byte b_plus s) && negb (has_byte b_hash s).
