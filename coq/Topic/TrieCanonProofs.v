(* TrieCanonProofs.v — history independence: the printed structure of a tree without
   empty nodes is a function of its contents.

     shape_sem        wf, pruned t:  (p, n) ∈ tshape t  <->  p ≠ [] ∧ (∃ q, tget (p ++ q) t ≠ []) ∧ n = |tget p t|
     shape_canonical  two well-formed pruned trees with the same contents have the same shape (up to order)
     shape_refines    ... and it is the shape computed from the specification map alone (s_shape) *)
From Coq Require Import List Bool NArith Permutation Lia.
From Coq.Strings Require Import Byte.
From GM Require Import Topic.MatchSpec Topic.Levels Topic.Trie Topic.TrieProofs Topic.TrieMatchProofs
  Topic.TreeSpec Topic.TreeSpecProofs Topic.TrieRefineProofs.
Import ListNotations.
Open Scope N_scope.

(* the node reached by a path *)
Fixpoint tsub (p : path) (t : node) : option node :=
  match p with
  | [] => Some t
  | l :: p' => match find_kid l (kids_of t) with Some c => tsub p' c | None => None end
  end.

Lemma tget_app : forall p q t, tget (p ++ q) t = match tsub p t with Some c => tget q c | None => [] end.
Proof.
  induction p as [|l p IH]; intros q [vs ks]; [reflexivity|].
  simpl app. rewrite tget_cons. simpl tsub. destruct (find_kid l ks) as [c|]; [apply IH | reflexivity].
Qed.

Lemma tget_tsub : forall p t, tget p t = match tsub p t with Some c => vals_of c | None => [] end.
Proof.
  intros p t. rewrite <- (app_nil_r p) at 1. rewrite tget_app.
  destruct (tsub p t) as [[vs ks]|]; reflexivity.
Qed.

Lemma tshape_unfold : forall vs ks,
  tshape (Node vs ks) =
  flat_map (fun kc : level * node =>
              ([fst kc], N.of_nat (length (vals_of (snd kc)))) :: map (cons_path (fst kc)) (tshape (snd kc))) ks.
Proof. intros vs ks. simpl. apply flat_map_ext. intros [k c]. reflexivity. Qed.

Lemma tshape_In : forall t p n, wf t ->
  (In (p, n) (tshape t) <-> p <> [] /\ exists c, tsub p t = Some c /\ n = N.of_nat (length (vals_of c))).
Proof.
  intros t. induction t as [vs ks IH] using node_ind2. intros p n H.
  inversion H as [? ? Hnd Hv Hk]; subst. rewrite Forall_forall in IH.
  rewrite tshape_unfold, in_flat_map. split.
  - intros [[k c] [Hkc [Hin | Hin]]]; simpl in Hin.
    + inversion Hin; subst. split; [discriminate|]. exists c. simpl.
      rewrite (In_find_kid _ _ _ Hnd Hkc). split; reflexivity.
    + apply in_map_iff in Hin. destruct Hin as [[p' n'] [Heq Hin]]. unfold cons_path in Heq. simpl in Heq.
      inversion Heq; subst. apply (IH (k, c) Hkc p' n (Hk _ _ Hkc)) in Hin.
      destruct Hin as [Hne [c' [Hs Hn]]]. split; [discriminate|]. exists c'. simpl.
      rewrite (In_find_kid _ _ _ Hnd Hkc). split; assumption.
  - intros [Hne [c' [Hs Hn]]]. destruct p as [|l p']; [congruence|]. simpl in Hs.
    destruct (find_kid l ks) as [c|] eqn:Ef; [|discriminate]. apply find_kid_In in Ef.
    exists (l, c). split; [exact Ef|]. simpl. destruct p' as [|l2 p2].
    + left. simpl in Hs. inversion Hs; subst. reflexivity.
    + right. apply in_map_iff. exists (l2 :: p2, n). split; [reflexivity|].
      apply (IH (l, c) Ef (l2 :: p2) n (Hk _ _ Ef)). split; [discriminate|]. exists c'. split; assumption.
Qed.

Lemma NoDup_kids_paths : forall (A : Type) (F : level * node -> list (path * A)) ks,
  NoDup (keys ks) ->
  (forall kc, In kc ks -> NoDup (map fst (F kc)) /\ forall e, In e (F kc) -> exists q, fst e = fst kc :: q) ->
  NoDup (map fst (flat_map F ks)).
Proof.
  induction ks as [|[k c] ks IH]; intros Hnd HF; [constructor|].
  simpl in Hnd. inversion Hnd as [|? ? Hni Hnd']; subst. simpl. rewrite map_app.
  destruct (HF (k, c) (or_introl eq_refl)) as [H1 H2].
  apply NoDup_app_intro; [exact H1 | apply IH; [exact Hnd' | intros kc Hkc; apply HF; right; exact Hkc]|].
  intros x Hx Hin. apply in_map_iff in Hx. destruct Hx as [e [He Hein]]. destruct (H2 e Hein) as [q Hq].
  apply in_map_iff in Hin. destruct Hin as [e' [He' Hein']]. apply in_flat_map in Hein'.
  destruct Hein' as [[k' c'] [Hkc' Hin']]. destruct (HF (k', c') (or_intror Hkc')) as [_ H3].
  destruct (H3 e' Hin') as [q' Hq']. simpl in Hq, Hq'.
  assert (E : k = k') by congruence. subst k'. apply Hni. exact (In_keys _ _ _ Hkc').
Qed.

Lemma tshape_NoDup_paths : forall t, wf t -> NoDup (map fst (tshape t)).
Proof.
  intros t. induction t as [vs ks IH] using node_ind2. intros H.
  inversion H as [? ? Hnd Hv Hk]; subst. rewrite Forall_forall in IH. rewrite tshape_unfold.
  apply NoDup_kids_paths; [exact Hnd|]. intros [k c] Hkc. simpl. split.
  - constructor.
    + intros Hin. rewrite map_map in Hin. apply in_map_iff in Hin. destruct Hin as [[p' n'] [He Hein]].
      apply (tshape_In c p' n' (Hk _ _ Hkc)) in Hein. destruct Hein as [Hne _].
      unfold cons_path in He. simpl in He. inversion He. congruence.
    + match goal with
      | |- NoDup ?x => replace x with (map (cons k) (map fst (tshape c))) by (rewrite !map_map; reflexivity)
      end.
      apply FinFun.Injective_map_NoDup.
      * intros a b E'. inversion E'. reflexivity.
      * apply (IH (k, c) Hkc). exact (Hk _ _ Hkc).
  - intros e [He | He].
    + subst e. exists []. reflexivity.
    + apply in_map_iff in He. destruct He as [e0 [<- _]]. exists (fst e0). reflexivity.
Qed.

Lemma tshape_NoDup : forall t, wf t -> NoDup (tshape t).
Proof. intros t H. apply (NoDup_map_inv fst). apply tshape_NoDup_paths. exact H. Qed.

(* ------------------------------------------------------------------ pruned trees: nodes are witnessed by values *)
Lemma pruned_has_value : forall t, pruned t -> is_empty t = false -> exists q, tget q t <> [].
Proof.
  intros t. induction t as [vs ks IH] using node_ind2. intros Hp He.
  destruct vs as [|v vs]; [|exists []; discriminate].
  destruct ks as [|[k c] ks]; [discriminate|].
  inversion Hp as [? ? Hk]; subst. destruct (Hk k c (or_introl eq_refl)) as [Hce Hcp].
  inversion IH as [|? ? IHc _]; subst. destruct (IHc Hcp Hce) as [q Hq].
  exists (k :: q). rewrite tget_cons. simpl. rewrite level_eqb_refl. exact Hq.
Qed.

Lemma pruned_tsub : forall p t c, pruned t -> p <> [] -> tsub p t = Some c -> is_empty c = false /\ pruned c.
Proof.
  induction p as [|l p IH]; intros [vs ks] c Hp Hne Hs; [congruence|].
  simpl in Hs. destruct (find_kid l ks) as [c1|] eqn:Ef; [|discriminate].
  apply find_kid_In in Ef. inversion Hp as [? ? Hk]; subst. destruct (Hk _ _ Ef) as [H1 H2].
  destruct p as [|l2 p2].
  - simpl in Hs. inversion Hs; subst. split; assumption.
  - apply (IH c1 c H2); [discriminate | exact Hs].
Qed.

Lemma node_iff_value : forall t p, pruned t -> p <> [] ->
  ((exists c, tsub p t = Some c) <-> exists q, tget (p ++ q) t <> []).
Proof.
  intros t p Hp Hne. split.
  - intros [c Hs]. destruct (pruned_tsub p t c Hp Hne Hs) as [H1 H2].
    destruct (pruned_has_value c H2 H1) as [q Hq]. exists q. rewrite tget_app, Hs. exact Hq.
  - intros [q Hq]. rewrite tget_app in Hq. destruct (tsub p t) as [c|]; [exists c; reflexivity | congruence].
Qed.

Lemma shape_sem : forall t p n, wf t -> pruned t ->
  (In (p, n) (tshape t) <->
   p <> [] /\ (exists q, tget (p ++ q) t <> []) /\ n = N.of_nat (length (tget p t))).
Proof.
  intros t p n Hw Hp. rewrite (tshape_In t p n Hw). split.
  - intros [Hne [c [Hs Hn]]]. split; [exact Hne|]. split.
    + apply (node_iff_value t p Hp Hne). exists c. exact Hs.
    + rewrite tget_tsub, Hs. exact Hn.
  - intros [Hne [Hq Hn]]. split; [exact Hne|].
    apply (node_iff_value t p Hp Hne) in Hq. destruct Hq as [c Hs]. exists c. split; [exact Hs|].
    rewrite tget_tsub, Hs in Hn. exact Hn.
Qed.

Lemma perm_nonempty : forall (l l' : list N), Permutation l l' -> l <> [] -> l' <> [].
Proof. intros l l' H Hne E. subst l'. apply Permutation_sym in H. apply Permutation_nil in H. contradiction. Qed.

(* history independence: same contents, same printed structure *)
Lemma shape_canonical : forall t1 t2, wf t1 -> wf t2 -> pruned t1 -> pruned t2 ->
  (forall q, Permutation (tget q t1) (tget q t2)) -> Permutation (tshape t1) (tshape t2).
Proof.
  intros t1 t2 Hw1 Hw2 Hp1 Hp2 He.
  apply NoDup_Permutation; [apply tshape_NoDup; exact Hw1 | apply tshape_NoDup; exact Hw2|].
  intros [p n]. rewrite (shape_sem t1 p n Hw1 Hp1), (shape_sem t2 p n Hw2 Hp2). split.
  - intros [Hne [[q Hq] Hn]]. split; [exact Hne|]. split.
    + exists q. exact (perm_nonempty _ _ (He (p ++ q)) Hq).
    + rewrite Hn. f_equal. apply Permutation_length. apply He.
  - intros [Hne [[q Hq] Hn]]. split; [exact Hne|]. split.
    + exists q. exact (perm_nonempty _ _ (Permutation_sym (He (p ++ q))) Hq).
    + rewrite Hn. f_equal. symmetry. apply Permutation_length. apply He.
Qed.

(* ------------------------------------------------------------------ the shape of the specification map *)
Lemma prefixes_In : forall key p, In p (prefixes key) <-> p <> [] /\ exists q, key = p ++ q.
Proof.
  induction key as [|l key IH]; intros p; simpl.
  - split; [intros [] | intros [Hne [q Hq]]]. destruct p; [congruence | discriminate].
  - split.
    + intros [H | H].
      * subst p. split; [discriminate|]. exists key. reflexivity.
      * apply in_map_iff in H. destruct H as [p' [<- Hin]]. apply IH in Hin. destruct Hin as [_ [q Hq]].
        split; [discriminate|]. exists q. simpl. rewrite Hq. reflexivity.
    + intros [Hne [q Hq]]. destruct p as [|l' p']; [congruence|]. simpl in Hq. inversion Hq; subst.
      destruct p' as [|l2 p2]; [left; reflexivity|]. right. apply in_map_iff. exists (l2 :: p2). split; [reflexivity|].
      apply IH. split; [discriminate|]. exists q. reflexivity.
Qed.

Lemma s_nodes_In : forall m p, mwf m -> (In p (s_nodes m) <-> p <> [] /\ exists q, mget m (p ++ q) <> []).
Proof.
  intros m p [Hnd Hne]. unfold s_nodes. rewrite nodup_In, in_flat_map. split.
  - intros [[key vs] [He Hin]]. simpl in Hin. apply prefixes_In in Hin. destruct Hin as [Hp [q Hq]].
    split; [exact Hp|]. exists q. rewrite <- Hq, (mget_In m key vs Hnd He).
    rewrite Forall_forall in Hne. exact (Hne _ He).
  - intros [Hp [q Hq]]. exists (p ++ q, mget m (p ++ q)). split; [apply mget_nonempty_In; exact Hq|].
    simpl. apply prefixes_In. split; [exact Hp|]. exists q. reflexivity.
Qed.

Lemma s_shape_In : forall m p n, mwf m ->
  (In (p, n) (s_shape m) <-> p <> [] /\ (exists q, mget m (p ++ q) <> []) /\ n = N.of_nat (length (mget m p))).
Proof.
  intros m p n Hm. unfold s_shape. rewrite in_map_iff. split.
  - intros [p' [Heq Hin]]. inversion Heq; subst. apply (s_nodes_In m p Hm) in Hin.
    destruct Hin as [H1 H2]. repeat split; assumption.
  - intros [H1 [H2 H3]]. exists p. split; [rewrite H3; reflexivity|]. apply (s_nodes_In m p Hm). split; assumption.
Qed.

Lemma s_shape_NoDup : forall m, NoDup (s_shape m).
Proof.
  intros m. apply (NoDup_map_inv fst). unfold s_shape. rewrite map_map. simpl. rewrite map_id.
  unfold s_nodes. apply NoDup_nodup.
Qed.

Lemma shape_refines : forall t m, wf t -> pruned t -> mwf m -> refines t m ->
  Permutation (tshape t) (s_shape m).
Proof.
  intros t m Hw Hp Hm Hr.
  apply NoDup_Permutation; [apply tshape_NoDup; exact Hw | apply s_shape_NoDup|].
  intros [p n]. rewrite (shape_sem t p n Hw Hp), (s_shape_In m p n Hm). split.
  - intros [Hne [[q Hq] Hn]]. split; [exact Hne|]. split.
    + exists q. exact (perm_nonempty _ _ (Hr (p ++ q)) Hq).
    + rewrite Hn. f_equal. apply Permutation_length. apply Hr.
  - intros [Hne [[q Hq] Hn]]. split; [exact Hne|]. split.
    + exists q. exact (perm_nonempty _ _ (Permutation_sym (Hr (p ++ q))) Hq).
    + rewrite Hn. f_equal. symmetry. apply Permutation_length. apply Hr.
Qed.
