(* Parse.v — model of topic.Parse and topic.ContainsWildcards (/repo/topic/topic.go),
   and the specification they are proved against.  Definitions only.

   Go works on runes where it looks for '/', '+', '#'; these are ASCII, and in valid
   UTF-8 the bytes 0x2F, 0x2B, 0x23 occur only as those characters, so the model works
   on bytes.  (On INVALID UTF-8 collapseSlashes re-encodes each bad byte as U+FFFD;
   that is outside the model — MQTT topic strings are UTF-8 — and outside the tie.)

     has_adjacent_slashes / collapse   hasAdjacentSlashes / collapseSlashes (`last` rune = a flag)
     trim_right                        strings.TrimRightFunc(topic, r == '/')
     check_segments                    the loop `for segment != topicEnd` with its three checks;
                                       fuel = length + 2, never exhausted (ParseProofs.check_segments_split)
     parse                             Parse: Ok t | ErrZeroLength | ErrWildcards | OutOfFuel
     contains_wildcards                ContainsWildcards

   Specification: `norm s` (collapse then trim) and `parse_spec`: zero length iff norm s
   is empty; otherwise Ok (norm s) iff its levels are a valid filter (wildcards allowed)
   resp. contain no '+' and no '#' at all (not allowed); else ErrWildcards. *)
From Coq Require Import List Bool Arith.
From Coq.Strings Require Import Byte.
From GM Require Import Topic.MatchSpec Topic.Levels.
Import ListNotations.

Definition is_slash (c : byte) : bool := Byte.eqb c b_slash.

Fixpoint has_adj_from (last_slash : bool) (s : list byte) : bool :=
  match s with
  | [] => false
  | c :: s' => (is_slash c && last_slash) || has_adj_from (is_slash c) s'
  end.
Definition has_adjacent_slashes (s : list byte) : bool := has_adj_from false s.

Fixpoint collapse_from (last_slash : bool) (s : list byte) : list byte :=
  match s with
  | [] => []
  | c :: s' =>
      if is_slash c && last_slash then collapse_from true s'      (* continue: `last` stays '/' *)
      else c :: collapse_from (is_slash c) s'
  end.
Definition collapse (s : list byte) : list byte := collapse_from false s.

Fixpoint trim_right (s : list byte) : list byte :=
  match s with
  | [] => []
  | c :: s' =>
      match trim_right s' with
      | [] => if is_slash c then [] else [c]
      | t => c :: t
      end
  end.

Inductive perr := ErrZeroLength | ErrWildcards.
Inductive presult := POk (t : list byte) | PErr (e : perr) | POutOfFuel.

(* one pass of the loop body: the three checks on `segment`, given `remainder` *)
Definition segment_bad (allow : bool) (seg remainder : list byte) : bool :=
  ((has_byte b_plus seg || has_byte b_hash seg) && (1 <? length seg)) ||
  (negb allow && (is_hash seg || is_plus seg)) ||
  (is_hash seg && negb (is_end (shorten remainder))).

Fixpoint check_segments (fuel : nat) (allow : bool) (remainder : list byte) : option bool :=
  match fuel with
  | O => None
  | S f =>
      let seg := segment remainder in
      if is_end seg then Some true                        (* segment == topicEnd: loop ends *)
      else if segment_bad allow seg remainder then Some false
      else check_segments f allow (shorten remainder)
  end.

Definition parse (topic : list byte) (allow : bool) : presult :=
  match topic with
  | [] => PErr ErrZeroLength
  | _ :: _ =>
      let t1 := if has_adjacent_slashes topic then collapse topic else topic in
      let t2 := trim_right t1 in
      match t2 with
      | [] => PErr ErrZeroLength
      | _ :: _ =>
          match check_segments (S (S (length t2))) allow t2 with
          | Some true => POk t2
          | Some false => PErr ErrWildcards
          | None => POutOfFuel
          end
      end
  end.

Definition contains_wildcards (s : list byte) : bool := has_byte b_plus s || has_byte b_hash s.

(* ---------------------------------------------------------------- specification *)
Definition norm (s : list byte) : list byte := trim_right (collapse s).

Definition topic_good (allow : bool) (t : list byte) : bool :=
  if allow then valid_filter_levels (split_levels t)
  else negb (has_byte b_plus t) && negb (has_byte b_hash t).

Definition parse_spec (s : list byte) (allow : bool) : presult :=
  match norm s with
  | [] => PErr ErrZeroLength
  | t => if topic_good allow t then POk t else PErr ErrWildcards
  end.

Fixpoint ends_with_slash (s : list byte) : bool :=
  match s with
  | [] => false
  | [c] => is_slash c
  | _ :: s' => ends_with_slash s'
  end.

(* what a caller may rely on after a successful Parse *)
Definition normal_form (allow : bool) (t : list byte) : bool :=
  negb (has_adjacent_slashes t) && negb (ends_with_slash t) &&
  (match t with [] => false | _ :: _ => true end) && topic_good allow t.

Definition presult_eqb (a b : presult) : bool :=
  match a, b with
  | POk x, POk y => level_eqb x y
  | PErr ErrZeroLength, PErr ErrZeroLength => true
  | PErr ErrWildcards, PErr ErrWildcards => true
  | POutOfFuel, POutOfFuel => true
  | _, _ => false
  end.
