(* Trie.v — executable model of topic.Tree (/repo/topic/tree.go), definitions only.

   node            = Go `node{children map[string]*node; values []interface{}}`.
                     The children map is an association list (first binding of
                     a key counts; the operations keep keys distinct, `wf` in
                     TrieProofs.v); a new key is appended at the end.  Wherever
                     Go ranges over the map (search with a wildcard, all, count,
                     clear, String) the model uses list order, and the results
                     are compared / specified up to Permutation.
   values          = N (the harness stores small ints; Go compares with ==).
                     The value slice of one node is modelled with its exact
                     order: add appends, removeValue is the swap-delete.
   tadd tset tget tremove tclear        mirror add set get remove clear on a
                     list of levels (the levels visited by Levels.walk);
                     `tremove None` is Empty (remove with value nil).
   tmatch_raw / tmatch_first            mirror match() with the two callbacks
                     of Match (append, continue) and MatchFirst (overwrite the
                     result with values[0], return false).  The callback's
                     `false` only ends the call level that reported the '#'
                     child; the result after the walk is the LAST report in the
                     order: '#' child, node itself at the end of the name,
                     '+' subtree, literal subtree.
   tsearch_raw / tsearch_first          mirror search() likewise.
   clean tall tcount tshape             clean, all, count, and the content of
                     String(): one entry (path, number of values) per non-root node.
   Add Set Get Remove Empty Clear Reset Match MatchFirst Search SearchFirst All
   Count Shape     = the exported methods, on topic strings (list byte). *)
From Coq Require Import List Bool NArith.
From Coq.Strings Require Import Byte.
From GM Require Import Topic.MatchSpec Topic.Levels.
Import ListNotations.
Open Scope N_scope.

Inductive node := Node (vals : list N) (kids : list (level * node)).

Definition vals_of (n : node) : list N := match n with Node vs _ => vs end.
Definition kids_of (n : node) : list (level * node) := match n with Node _ ks => ks end.

(* newNode() *)
Definition empty_node : node := Node [] [].

(* len(node.values) == 0 && len(node.children) == 0 *)
Definition is_empty (n : node) : bool :=
  match n with Node [] [] => true | _ => false end.

Definition lv_plus : level := [b_plus].
Definition lv_hash : level := [b_hash].

(* ---------------------------------------------------------------- children map *)
Fixpoint find_kid (l : level) (ks : list (level * node)) : option node :=
  match ks with
  | [] => None
  | (k, c) :: ks' => if level_eqb l k then Some c else find_kid l ks'
  end.

Fixpoint put_kid (l : level) (c : node) (ks : list (level * node)) : list (level * node) :=
  match ks with
  | [] => [(l, c)]
  | (k, c0) :: ks' => if level_eqb l k then (k, c) :: ks' else (k, c0) :: put_kid l c ks'
  end.

Fixpoint del_kid (l : level) (ks : list (level * node)) : list (level * node) :=
  match ks with
  | [] => []
  | (k, c) :: ks' => if level_eqb l k then ks' else (k, c) :: del_kid l ks'
  end.

(* child, ok := node.children[segment]; if !ok { child = newNode(); … } *)
Definition kid_or_new (l : level) (ks : list (level * node)) : node :=
  match find_kid l ks with Some c => c | None => empty_node end.

(* ---------------------------------------------------------------- value slices *)
Definition mem_val (v : N) (vs : list N) : bool := existsb (N.eqb v) vs.

(* add(): duplicate check, then append *)
Definition add_val (v : N) (vs : list N) : list N :=
  if mem_val v vs then vs else vs ++ [v].

(* removeValue: the first occurrence is overwritten with the last element, the slice shrinks by one *)
Fixpoint remove_val (v : N) (vs : list N) : list N :=
  match vs with
  | [] => []
  | x :: vs' =>
      if N.eqb x v then match vs' with [] => [] | _ :: _ => last vs' 0 :: removelast vs' end
      else x :: remove_val v vs'
  end.

(* clean(): keeps the first occurrence of every value, in order *)
Fixpoint clean_acc (acc l : list N) : list N :=
  match l with
  | [] => acc
  | x :: l' => if mem_val x acc then clean_acc acc l' else clean_acc (acc ++ [x]) l'
  end.
Definition clean (l : list N) : list N := clean_acc [] l.

(* ---------------------------------------------------------------- updates *)
Fixpoint tadd (v : N) (p : list level) (n : node) : node :=
  match n with
  | Node vs ks =>
      match p with
      | [] => Node (add_val v vs) ks
      | l :: p' => Node vs (put_kid l (tadd v p' (kid_or_new l ks)) ks)
      end
  end.

Fixpoint tset (v : N) (p : list level) (n : node) : node :=
  match n with
  | Node vs ks =>
      match p with
      | [] => Node [v] ks
      | l :: p' => Node vs (put_kid l (tset v p' (kid_or_new l ks)) ks)
      end
  end.

(* get(): nil when a child is missing; nil and the empty slice are both [] here *)
Fixpoint tget (p : list level) (n : node) : list N :=
  match n with
  | Node vs ks =>
      match p with
      | [] => vs
      | l :: p' => match find_kid l ks with Some c => tget p' c | None => [] end
      end
  end.

(* remove(): value None = nil = Empty.  Go returns "this node is now empty"; that
   is `is_empty` of the returned node, used by the parent to delete the child. *)
Fixpoint tremove (v : option N) (p : list level) (n : node) : node :=
  match n with
  | Node vs ks =>
      match p with
      | [] => Node (match v with None => [] | Some x => remove_val x vs end) ks
      | l :: p' =>
          match find_kid l ks with
          | None => n
          | Some c =>
              let c' := tremove v p' c in
              if is_empty c' then Node vs (del_kid l ks) else Node vs (put_kid l c' ks)
          end
      end
  end.

(* clear(): removeValue here, recurse into every child, delete the children that became empty *)
Fixpoint tclear (v : N) (n : node) : node :=
  match n with
  | Node vs ks =>
      Node (remove_val v vs)
           (filter (fun kc : level * node => negb (is_empty (snd kc)))
                   (map (fun kc : level * node => let '(k, c) := kc in (k, tclear v c)) ks))
  end.

(* ---------------------------------------------------------------- match *)
(* values of the '#' child, reported first at every level when non-empty *)
Definition hash_vals (ks : list (level * node)) : list N :=
  match find_kid lv_hash ks with Some c => vals_of c | None => [] end.

Fixpoint tmatch_raw (name : list level) (n : node) : list N :=
  match n with
  | Node vs ks =>
      hash_vals ks ++
      match name with
      | [] => vs
      | l :: rest =>
          (match find_kid lv_plus ks with Some c => tmatch_raw rest c | None => [] end) ++
          (if is_plus l || is_hash l then []
           else match find_kid l ks with Some c => tmatch_raw rest c | None => [] end)
      end
  end.

Definition tmatch (name : list level) (n : node) : list N := clean (tmatch_raw name n).

Definition hd_opt (vs : list N) : option N := match vs with [] => None | v :: _ => Some v end.
(* the later report overwrites the earlier one *)
Definition later (a b : option N) : option N := match b with Some _ => b | None => a end.

Fixpoint tmatch_first (name : list level) (n : node) : option N :=
  match n with
  | Node vs ks =>
      match hd_opt (hash_vals ks) with
      | Some v => Some v                       (* callback returned false: this call level returns *)
      | None =>
          match name with
          | [] => hd_opt vs
          | l :: rest =>
              later (match find_kid lv_plus ks with Some c => tmatch_first rest c | None => None end)
                    (if is_plus l || is_hash l then None
                     else match find_kid l ks with Some c => tmatch_first rest c | None => None end)
          end
      end
  end.

(* ---------------------------------------------------------------- search *)
(* recursion is on the node: the '#' case re-enters every child with the SAME filter *)
Fixpoint tsearch_raw (f : list level) (n : node) {struct n} : list N :=
  match n with
  | Node vs ks =>
      match f with
      | [] => vs
      | l :: rest =>
          if is_hash l then
            vs ++ flat_map (fun kc : level * node => let '(_, c) := kc in tsearch_raw f c) ks
          else if is_plus l then
            flat_map (fun kc : level * node => let '(_, c) := kc in tsearch_raw rest c) ks
          else
            (fix go (ks : list (level * node)) : list N :=
               match ks with
               | [] => []
               | (k, c) :: ks' => if level_eqb l k then tsearch_raw rest c else go ks'
               end) ks
      end
  end.

Definition tsearch (f : list level) (n : node) : list N := clean (tsearch_raw f n).

(* SearchFirst with the model's child order (Go: map order, so any child may come last) *)
Fixpoint tsearch_first (f : list level) (n : node) {struct n} : option N :=
  match n with
  | Node vs ks =>
      match f with
      | [] => hd_opt vs
      | l :: rest =>
          if is_hash l then
            match hd_opt vs with
            | Some v => Some v                 (* callback returned false: return *)
            | None => fold_left later (map (fun kc : level * node => let '(_, c) := kc in tsearch_first f c) ks) None
            end
          else if is_plus l then
            fold_left later (map (fun kc : level * node => let '(_, c) := kc in tsearch_first rest c) ks) None
          else
            (fix go (ks : list (level * node)) : option N :=
               match ks with
               | [] => None
               | (k, c) :: ks' => if level_eqb l k then tsearch_first rest c else go ks'
               end) ks
      end
  end.

(* every value SearchFirst can return under some iteration order of the children maps *)
Fixpoint tsearch_firsts (f : list level) (n : node) {struct n} : list N :=
  match n with
  | Node vs ks =>
      match f with
      | [] => match vs with [] => [] | v :: _ => [v] end
      | l :: rest =>
          if is_hash l then
            match vs with
            | v :: _ => [v]
            | [] => flat_map (fun kc : level * node => let '(_, c) := kc in tsearch_firsts f c) ks
            end
          else if is_plus l then
            flat_map (fun kc : level * node => let '(_, c) := kc in tsearch_firsts rest c) ks
          else
            (fix go (ks : list (level * node)) : list N :=
               match ks with
               | [] => []
               | (k, c) :: ks' => if level_eqb l k then tsearch_firsts rest c else go ks'
               end) ks
      end
  end.

(* ---------------------------------------------------------------- all, count, shape *)
Fixpoint tall_raw (n : node) : list N :=
  match n with
  | Node vs ks => flat_map (fun kc : level * node => let '(_, c) := kc in tall_raw c) ks ++ vs
  end.
Definition tall (n : node) : list N := clean (tall_raw n).

Fixpoint tcount (n : node) : N :=
  match n with
  | Node vs ks =>
      fold_right N.add 0 (map (fun kc : level * node => let '(_, c) := kc in tcount c) ks) + N.of_nat (length vs)
  end.

Definition cons_path {A} (k : level) (e : list level * A) : list level * A := (k :: fst e, snd e).

(* String(): one line "'key' => <number of values>" per non-root node, nested by indentation *)
Fixpoint tshape (n : node) : list (list level * N) :=
  match n with
  | Node _ ks =>
      flat_map (fun kc : level * node =>
                  let '(k, c) := kc in
                  ([k], N.of_nat (length (vals_of c))) :: map (cons_path k) (tshape c)) ks
  end.

(* the contents: (path, values) of every node that holds values *)
Fixpoint abs (n : node) : list (list level * list N) :=
  match n with
  | Node vs ks =>
      (match vs with [] => [] | _ :: _ => [([], vs)] end) ++
      flat_map (fun kc : level * node => let '(k, c) := kc in map (cons_path k) (abs c)) ks
  end.

(* no empty non-root node *)
Fixpoint prunedb (n : node) : bool :=
  match n with
  | Node _ ks => forallb (fun kc : level * node => let '(_, c) := kc in negb (is_empty c) && prunedb c) ks
  end.

(* ---------------------------------------------------------------- the exported methods *)
Definition tree := node.
Definition New : tree := empty_node.

Definition Add (t : tree) (topic : list byte) (v : N) : tree := tadd v (walk topic) t.
Definition Set_ (t : tree) (topic : list byte) (v : N) : tree := tset v (walk topic) t.
Definition Get (t : tree) (topic : list byte) : list N := tget (walk topic) t.
Definition Remove (t : tree) (topic : list byte) (v : N) : tree := tremove (Some v) (walk topic) t.
Definition Empty (t : tree) (topic : list byte) : tree := tremove None (walk topic) t.
Definition Clear (t : tree) (v : N) : tree := tclear v t.
Definition Reset (t : tree) : tree := empty_node.
Definition Match (t : tree) (topic : list byte) : list N := tmatch (walk topic) t.
Definition MatchFirst (t : tree) (topic : list byte) : option N := tmatch_first (walk topic) t.
Definition Search (t : tree) (topic : list byte) : list N := tsearch (walk topic) t.
Definition SearchFirst (t : tree) (topic : list byte) : option N := tsearch_first (walk topic) t.
Definition SearchFirsts (t : tree) (topic : list byte) : list N := tsearch_firsts (walk topic) t.
Definition All (t : tree) : list N := tall t.
Definition Count (t : tree) : N := tcount t.
Definition Shape (t : tree) : list (list level * N) := tshape t.

(* operation histories *)
Inductive op :=
| OAdd (topic : list byte) (v : N)
| OSet (topic : list byte) (v : N)
| ORemove (topic : list byte) (v : N)
| OEmpty (topic : list byte)
| OClear (v : N)
| OReset.

Definition apply_trie (t : tree) (o : op) : tree :=
  match o with
  | OAdd s v => Add t s v
  | OSet s v => Set_ t s v
  | ORemove s v => Remove t s v
  | OEmpty s => Empty t s
  | OClear v => Clear t v
  | OReset => Reset t
  end.

Definition run_trie (ops : list op) : tree := fold_left apply_trie ops New.

Inductive query :=
| QGet (topic : list byte)
| QMatch (topic : list byte)
| QMatchFirst (topic : list byte)
| QSearch (topic : list byte)
| QSearchFirst (topic : list byte)
| QAll
| QCount.

Inductive answer :=
| AList (l : list N)
| AFirst (o : option N)
| ACount (n : N).

Definition answer_trie (t : tree) (q : query) : answer :=
  match q with
  | QGet s => AList (Get t s)
  | QMatch s => AList (Match t s)
  | QMatchFirst s => AFirst (MatchFirst t s)
  | QSearch s => AList (Search t s)
  | QSearchFirst s => AFirst (SearchFirst t s)
  | QAll => AList (All t)
  | QCount => ACount (Count t)
  end.
