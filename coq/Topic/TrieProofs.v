(* TrieProofs.v — basic facts about the trie model: induction principle for the
   nested type, children-map lemmas, value-slice lemmas, well-formedness (`wf`:
   distinct child keys and distinct values at every node) and its preservation,
   and the characterisation of every update through `tget`:

     tget q (tadd v p t)        = if q = p then add_val v (tget p t) else tget q t
     tget q (tset v p t)        = if q = p then [v] else tget q t
     tget q (tremove v p t)     = if q = p then rem v (tget p t) else tget q t        (pruning is invisible)
     tget q (tclear v t)        = remove_val v (tget q t)                              (pruning is invisible) *)
From Coq Require Import List Bool NArith Permutation Lia.
From Coq.Strings Require Import Byte.
From GM Require Import Topic.MatchSpec Topic.Levels Topic.Trie.
Import ListNotations.
Open Scope N_scope.

(* ------------------------------------------------------------------ induction *)
Section node_induction.
  Variable P : node -> Prop.
  Hypothesis H : forall vs ks, Forall (fun kc : level * node => P (snd kc)) ks -> P (Node vs ks).
  Fixpoint node_ind2 (n : node) : P n :=
    match n with
    | Node vs ks =>
        H vs ks ((fix go (ks : list (level * node)) : Forall (fun kc : level * node => P (snd kc)) ks :=
                    match ks with
                    | [] => Forall_nil _
                    | kc :: ks' => Forall_cons kc (node_ind2 (snd kc)) (go ks')
                    end) ks)
    end.
End node_induction.

(* ------------------------------------------------------------------ children map *)
Definition keys (ks : list (level * node)) : list level := map fst ks.

Lemma find_kid_In : forall l ks c, find_kid l ks = Some c -> In (l, c) ks.
Proof.
  induction ks as [|[k c0] ks IH]; intros c H; simpl in H; [discriminate|].
  destruct (level_eqb l k) eqn:E.
  - apply level_eqb_eq in E. inversion H; subst. left. reflexivity.
  - right. apply IH. exact H.
Qed.

Lemma find_kid_None : forall l ks, find_kid l ks = None <-> ~ In l (keys ks).
Proof.
  induction ks as [|[k c0] ks IH]; simpl.
  - split; auto.
  - destruct (level_eqb l k) eqn:E.
    + apply level_eqb_eq in E. subst. split; [discriminate | intros H; exfalso; apply H; left; reflexivity].
    + apply level_eqb_neq in E. rewrite IH. split.
      * intros H [H1 | H1]; [congruence | contradiction].
      * intros H H1. apply H. right. exact H1.
Qed.

Lemma In_keys : forall k c ks, In (k, c) ks -> In k (keys ks).
Proof. intros k c ks H. unfold keys. change k with (fst (k, c)). apply in_map. exact H. Qed.

Lemma In_find_kid : forall k c ks, NoDup (keys ks) -> In (k, c) ks -> find_kid k ks = Some c.
Proof.
  induction ks as [|[k0 c0] ks IH]; intros Hnd Hin; [destruct Hin|].
  simpl in Hnd. inversion Hnd as [|? ? Hni Hnd']; subst. simpl.
  destruct Hin as [Heq | Hin].
  - inversion Heq; subst. rewrite level_eqb_refl. reflexivity.
  - destruct (level_eqb k k0) eqn:E.
    + apply level_eqb_eq in E. subst. exfalso. apply Hni. exact (In_keys _ _ _ Hin).
    + apply IH; assumption.
Qed.

Lemma find_put_same : forall l c ks, find_kid l (put_kid l c ks) = Some c.
Proof.
  induction ks as [|[k c0] ks IH]; simpl.
  - rewrite level_eqb_refl. reflexivity.
  - destruct (level_eqb l k) eqn:E; simpl; rewrite E; [reflexivity | exact IH].
Qed.

Lemma find_put_other : forall l l' c ks, l' <> l -> find_kid l' (put_kid l c ks) = find_kid l' ks.
Proof.
  intros l l' c ks Hne. induction ks as [|[k c0] ks IH]; simpl.
  - apply level_eqb_neq in Hne. rewrite Hne. reflexivity.
  - destruct (level_eqb l k) eqn:E; simpl.
    + apply level_eqb_eq in E. subst k. apply level_eqb_neq in Hne. rewrite Hne. reflexivity.
    + rewrite IH. reflexivity.
Qed.

Lemma find_del_other : forall l l' ks, l' <> l -> find_kid l' (del_kid l ks) = find_kid l' ks.
Proof.
  intros l l' ks Hne. induction ks as [|[k c0] ks IH]; simpl; [reflexivity|].
  destruct (level_eqb l k) eqn:E; simpl.
  - apply level_eqb_eq in E. subst k. apply level_eqb_neq in Hne. rewrite Hne. reflexivity.
  - rewrite IH. reflexivity.
Qed.

Lemma keys_del_incl : forall l ks k, In k (keys (del_kid l ks)) -> In k (keys ks).
Proof.
  induction ks as [|[k0 c0] ks IH]; intros k H; simpl in *; [exact H|].
  destruct (level_eqb l k0); simpl in *; [right; exact H|].
  destruct H as [H | H]; [left; exact H | right; apply IH; exact H].
Qed.

Lemma In_del_kid : forall l ks k c, In (k, c) (del_kid l ks) -> In (k, c) ks.
Proof.
  induction ks as [|[k0 c0] ks IH]; intros k c H; simpl in *; [exact H|].
  destruct (level_eqb l k0); simpl in *; [right; exact H|].
  destruct H as [H | H]; [left; exact H | right; apply IH; exact H].
Qed.

Lemma NoDup_keys_del : forall l ks, NoDup (keys ks) -> NoDup (keys (del_kid l ks)).
Proof.
  induction ks as [|[k0 c0] ks IH]; intros H; simpl in *; [exact H|].
  inversion H as [|? ? Hni Hnd]; subst.
  destruct (level_eqb l k0); simpl; [exact Hnd|].
  constructor; [|apply IH; exact Hnd].
  intros Hin. apply Hni. exact (keys_del_incl _ _ _ Hin).
Qed.

Lemma find_del_same : forall l ks, NoDup (keys ks) -> find_kid l (del_kid l ks) = None.
Proof.
  induction ks as [|[k0 c0] ks IH]; intros H; simpl in *; [reflexivity|].
  inversion H as [|? ? Hni Hnd]; subst.
  destruct (level_eqb l k0) eqn:E; simpl.
  - apply level_eqb_eq in E. subst k0. apply find_kid_None. exact Hni.
  - rewrite E. apply IH. exact Hnd.
Qed.

Lemma In_put_kid : forall l c ks k c', In (k, c') (put_kid l c ks) -> (k = l /\ c' = c) \/ In (k, c') ks.
Proof.
  induction ks as [|[k0 c0] ks IH]; intros k c' H; simpl in *.
  - destruct H as [H | []]. inversion H; subst. left. split; reflexivity.
  - destruct (level_eqb l k0) eqn:E; simpl in H.
    + apply level_eqb_eq in E. subst k0. destruct H as [H | H].
      * inversion H; subst. left. split; reflexivity.
      * right. right. exact H.
    + destruct H as [H | H]; [right; left; exact H|].
      destruct (IH _ _ H) as [H1 | H1]; [left; exact H1 | right; right; exact H1].
Qed.

Lemma keys_put_incl : forall l c ks k, In k (keys (put_kid l c ks)) -> k = l \/ In k (keys ks).
Proof.
  induction ks as [|[k0 c0] ks IH]; intros k H; simpl in *.
  - destruct H as [H | []]. left. symmetry. exact H.
  - destruct (level_eqb l k0) eqn:E; simpl in H.
    + right. exact H.
    + destruct H as [H | H]; [right; left; exact H|].
      destruct (IH _ H) as [H1 | H1]; [left; exact H1 | right; right; exact H1].
Qed.

Lemma NoDup_keys_put : forall l c ks, NoDup (keys ks) -> NoDup (keys (put_kid l c ks)).
Proof.
  induction ks as [|[k0 c0] ks IH]; intros H; simpl in *.
  - constructor; [intros [] | constructor].
  - inversion H as [|? ? Hni Hnd]; subst.
    destruct (level_eqb l k0) eqn:E; simpl.
    + constructor; assumption.
    + constructor; [|apply IH; exact Hnd].
      intros Hin. destruct (keys_put_incl _ _ _ _ Hin) as [H1 | H1].
      * subst k0. rewrite level_eqb_refl in E. discriminate.
      * contradiction.
Qed.

(* ------------------------------------------------------------------ value slices *)
Lemma mem_val_In : forall v vs, mem_val v vs = true <-> In v vs.
Proof.
  intros v vs. unfold mem_val. rewrite existsb_exists. split.
  - intros [x [Hin He]]. apply N.eqb_eq in He. subst. exact Hin.
  - intros Hin. exists v. split; [exact Hin | apply N.eqb_refl].
Qed.

Lemma mem_val_false : forall v vs, mem_val v vs = false <-> ~ In v vs.
Proof.
  intros v vs. split.
  - intros H Hin. apply mem_val_In in Hin. congruence.
  - intros H. destruct (mem_val v vs) eqn:E; [apply mem_val_In in E; contradiction | reflexivity].
Qed.

Lemma add_val_In : forall v w vs, In w (add_val v vs) <-> w = v \/ In w vs.
Proof.
  intros v w vs. unfold add_val. destruct (mem_val v vs) eqn:E.
  - apply mem_val_In in E. split; [intros H; right; exact H|]. intros [H | H]; [subst; exact E | exact H].
  - rewrite in_app_iff. simpl. split.
    + intros [H | [H | []]]; [right; exact H | left; symmetry; exact H].
    + intros [H | H]; [right; left; symmetry; exact H | left; exact H].
Qed.

Lemma add_val_NoDup : forall v vs, NoDup vs -> NoDup (add_val v vs).
Proof.
  intros v vs H. unfold add_val. destruct (mem_val v vs) eqn:E; [exact H|].
  apply mem_val_false in E.
  apply (Permutation_NoDup (l := v :: vs)); [apply Permutation_cons_append | constructor; assumption].
Qed.

Lemma add_val_nonempty : forall v vs, add_val v vs <> [].
Proof.
  intros v vs. unfold add_val. destruct (mem_val v vs) eqn:E.
  - apply mem_val_In in E. intros ->. destruct E.
  - destruct vs; discriminate.
Qed.

Lemma last_removelast_perm : forall (l : list N) d, l <> [] -> Permutation (last l d :: removelast l) l.
Proof.
  intros l d H. rewrite (app_removelast_last d H) at 3.
  apply Permutation_cons_append.
Qed.

Lemma remove_val_notin : forall v vs, ~ In v vs -> remove_val v vs = vs.
Proof.
  induction vs as [|x vs IH]; intros H; simpl; [reflexivity|].
  destruct (N.eqb x v) eqn:E.
  - apply N.eqb_eq in E. exfalso. apply H. left. exact E.
  - rewrite IH; [reflexivity|]. intros Hin. apply H. right. exact Hin.
Qed.

Lemma remove_val_perm : forall v vs, In v vs -> Permutation (v :: remove_val v vs) vs.
Proof.
  induction vs as [|x vs IH]; intros H; [destruct H|]. simpl.
  destruct (N.eqb x v) eqn:E.
  - apply N.eqb_eq in E. subst x. constructor.
    destruct vs as [|y vs']; [constructor|].
    apply last_removelast_perm. discriminate.
  - apply N.eqb_neq in E. destruct H as [H | H]; [congruence|].
    eapply perm_trans; [apply perm_swap|]. constructor. apply IH. exact H.
Qed.

Lemma remove_val_NoDup : forall v vs, NoDup vs -> NoDup (remove_val v vs).
Proof.
  intros v vs H. destruct (in_dec N.eq_dec v vs) as [Hin | Hni].
  - assert (Hp := remove_val_perm v vs Hin).
    apply Permutation_sym in Hp. apply (Permutation_NoDup Hp) in H. inversion H; assumption.
  - rewrite remove_val_notin; assumption.
Qed.

Lemma remove_val_In : forall v w vs, NoDup vs -> (In w (remove_val v vs) <-> In w vs /\ w <> v).
Proof.
  intros v w vs H. destruct (in_dec N.eq_dec v vs) as [Hin | Hni].
  - assert (Hp := remove_val_perm v vs Hin).
    assert (Hnd : NoDup (v :: remove_val v vs)) by (apply (Permutation_NoDup (Permutation_sym Hp)); exact H).
    inversion Hnd as [|? ? Hv _]; subst. split.
    + intros Hw. split.
      * apply (Permutation_in _ Hp). right. exact Hw.
      * intros ->. contradiction.
    + intros [Hw Hne]. apply (Permutation_in _ (Permutation_sym Hp)) in Hw.
      destruct Hw as [Hw | Hw]; [congruence | exact Hw].
  - rewrite remove_val_notin by exact Hni. split.
    + intros Hw. split; [exact Hw | intros ->; contradiction].
    + intros [Hw _]. exact Hw.
Qed.

Lemma remove_val_incl : forall v w vs, In w (remove_val v vs) -> In w vs.
Proof.
  intros v w vs H. destruct (in_dec N.eq_dec v vs) as [Hin | Hni].
  - apply (Permutation_in _ (remove_val_perm v vs Hin)). right. exact H.
  - rewrite remove_val_notin in H; assumption.
Qed.

Lemma clean_acc_In : forall l acc x, In x (clean_acc acc l) <-> In x acc \/ In x l.
Proof.
  induction l as [|y l IH]; intros acc x; simpl.
  - split; [intros H; left; exact H | intros [H | []]; exact H].
  - destruct (mem_val y acc) eqn:E; rewrite IH.
    + apply mem_val_In in E. split.
      * intros [H | H]; [left; exact H | right; right; exact H].
      * intros [H | [H | H]]; [left; exact H | subst; left; exact E | right; exact H].
    + rewrite in_app_iff. simpl. split.
      * intros [[H | [H | []]] | H]; [left; exact H | right; left; exact H | right; right; exact H].
      * intros [H | [H | H]]; [left; left; exact H | left; right; left; exact H | right; exact H].
Qed.

Lemma clean_acc_NoDup : forall l acc, NoDup acc -> NoDup (clean_acc acc l).
Proof.
  induction l as [|y l IH]; intros acc H; simpl; [exact H|].
  destruct (mem_val y acc) eqn:E; apply IH; [exact H|].
  apply mem_val_false in E.
  apply (Permutation_NoDup (l := y :: acc)); [apply Permutation_cons_append | constructor; assumption].
Qed.

Lemma clean_In : forall l x, In x (clean l) <-> In x l.
Proof.
  intros l x. unfold clean. rewrite clean_acc_In. split; [intros [[] | H]; exact H | intros H; right; exact H].
Qed.

Lemma clean_NoDup : forall l, NoDup (clean l).
Proof. intros l. apply clean_acc_NoDup. constructor. Qed.

Lemma clean_nil : forall l, clean l = [] <-> l = [].
Proof.
  intros l. split.
  - intros H. destruct l as [|x l]; [reflexivity|].
    assert (Hx : In x (clean (x :: l))) by (apply clean_In; left; reflexivity).
    rewrite H in Hx. destruct Hx.
  - intros ->. reflexivity.
Qed.

(* ------------------------------------------------------------------ well-formedness *)
Inductive wf : node -> Prop :=
| wf_node : forall vs ks,
    NoDup (keys ks) -> NoDup vs -> (forall k c, In (k, c) ks -> wf c) -> wf (Node vs ks).

Lemma wf_empty : wf empty_node.
Proof. constructor; [constructor | constructor | intros k c []]. Qed.

Lemma wf_kid_or_new : forall l vs ks, wf (Node vs ks) -> wf (kid_or_new l ks).
Proof.
  intros l vs ks H. inversion H as [? ? _ _ Hk]; subst. unfold kid_or_new.
  destruct (find_kid l ks) as [c|] eqn:E; [|exact wf_empty].
  apply (Hk l). apply find_kid_In. exact E.
Qed.

Lemma wf_put : forall l c vs ks, wf (Node vs ks) -> wf c -> wf (Node vs (put_kid l c ks)).
Proof.
  intros l c vs ks H Hc. inversion H as [? ? Hnd Hv Hk]; subst. constructor.
  - apply NoDup_keys_put. exact Hnd.
  - exact Hv.
  - intros k c' Hin. destruct (In_put_kid _ _ _ _ _ Hin) as [[_ ->] | Hin']; [exact Hc | exact (Hk _ _ Hin')].
Qed.

Lemma wf_del : forall l vs ks, wf (Node vs ks) -> wf (Node vs (del_kid l ks)).
Proof.
  intros l vs ks H. inversion H as [? ? Hnd Hv Hk]; subst. constructor.
  - apply NoDup_keys_del. exact Hnd.
  - exact Hv.
  - intros k c' Hin. exact (Hk _ _ (In_del_kid _ _ _ _ Hin)).
Qed.

Lemma wf_tadd : forall v p t, wf t -> wf (tadd v p t).
Proof.
  induction p as [|l p IH]; intros [vs ks] H; simpl.
  - inversion H; subst. constructor; [assumption | apply add_val_NoDup; assumption | assumption].
  - apply wf_put; [exact H|]. apply IH. exact (wf_kid_or_new l vs ks H).
Qed.

Lemma wf_tset : forall v p t, wf t -> wf (tset v p t).
Proof.
  induction p as [|l p IH]; intros [vs ks] H; simpl.
  - inversion H; subst. constructor; [assumption | constructor; [intros [] | constructor] | assumption].
  - apply wf_put; [exact H|]. apply IH. exact (wf_kid_or_new l vs ks H).
Qed.

Lemma wf_tremove : forall v p t, wf t -> wf (tremove v p t).
Proof.
  induction p as [|l p IH]; intros [vs ks] H; simpl.
  - inversion H; subst. constructor; [assumption | | assumption].
    destruct v; [apply remove_val_NoDup; assumption | constructor].
  - destruct (find_kid l ks) as [c|] eqn:E; [|exact H].
    assert (Hc : wf c) by (inversion H as [? ? _ _ Hk]; subst; apply (Hk l); apply find_kid_In; exact E).
    destruct (is_empty (tremove v p c)); [apply wf_del; exact H | apply wf_put; [exact H | apply IH; exact Hc]].
Qed.

Lemma keys_filter_map : forall (f : node -> node) (g : level * node -> bool) ks k,
  In k (keys (filter g (map (fun kc : level * node => let '(k, c) := kc in (k, f c)) ks))) -> In k (keys ks).
Proof.
  induction ks as [|[k0 c0] ks IH]; intros k H; simpl in *; [exact H|].
  destruct (g (k0, f c0)); simpl in H.
  - destruct H as [H | H]; [left; exact H | right; apply IH; exact H].
  - right. apply IH. exact H.
Qed.

Lemma NoDup_keys_filter_map : forall (f : node -> node) (g : level * node -> bool) ks,
  NoDup (keys ks) -> NoDup (keys (filter g (map (fun kc : level * node => let '(k, c) := kc in (k, f c)) ks))).
Proof.
  induction ks as [|[k0 c0] ks IH]; intros H; simpl in *; [constructor|].
  inversion H as [|? ? Hni Hnd]; subst.
  destruct (g (k0, f c0)); simpl; [|apply IH; exact Hnd].
  constructor; [|apply IH; exact Hnd].
  intros Hin. apply Hni. exact (keys_filter_map _ _ _ _ Hin).
Qed.

Lemma In_filter_map : forall (f : node -> node) (g : level * node -> bool) ks k c',
  In (k, c') (filter g (map (fun kc : level * node => let '(k, c) := kc in (k, f c)) ks)) ->
  exists c, In (k, c) ks /\ c' = f c /\ g (k, c') = true.
Proof.
  intros f g ks k c' H. apply filter_In in H. destruct H as [H Hg].
  apply in_map_iff in H. destruct H as [[k0 c0] [Heq Hin]]. inversion Heq; subst.
  exists c0. repeat split; assumption.
Qed.

Lemma wf_tclear : forall v t, wf t -> wf (tclear v t).
Proof.
  intros v t. induction t as [vs ks IH] using node_ind2. intros H.
  inversion H as [? ? Hnd Hv Hk]; subst. simpl. constructor.
  - apply NoDup_keys_filter_map. exact Hnd.
  - apply remove_val_NoDup. exact Hv.
  - intros k c' Hin. destruct (In_filter_map _ _ _ _ _ Hin) as [c [Hc [-> _]]].
    rewrite Forall_forall in IH. apply (IH (k, c) Hc). exact (Hk _ _ Hc).
Qed.

(* ------------------------------------------------------------------ tget *)
Lemma tget_nil : forall vs ks, tget [] (Node vs ks) = vs.
Proof. reflexivity. Qed.

Lemma tget_cons : forall l p vs ks,
  tget (l :: p) (Node vs ks) = match find_kid l ks with Some c => tget p c | None => [] end.
Proof. reflexivity. Qed.

Lemma tget_empty_node : forall p, tget p empty_node = [].
Proof. intros [|l p]; reflexivity. Qed.

Lemma tget_is_empty : forall p t, is_empty t = true -> tget p t = [].
Proof.
  intros p [vs ks] H. destruct vs; [|discriminate]. destruct ks; [|discriminate]. apply tget_empty_node.
Qed.

Lemma tget_kid_or_new : forall l p vs ks, tget p (kid_or_new l ks) = tget (l :: p) (Node vs ks).
Proof.
  intros l p vs ks. rewrite tget_cons. unfold kid_or_new.
  destruct (find_kid l ks); [reflexivity | apply tget_empty_node].
Qed.

Lemma tget_NoDup : forall p t, wf t -> NoDup (tget p t).
Proof.
  induction p as [|l p IH]; intros [vs ks] H; inversion H as [? ? _ Hv Hk]; subst.
  - exact Hv.
  - rewrite tget_cons. destruct (find_kid l ks) as [c|] eqn:E; [|constructor].
    apply IH. apply (Hk l). apply find_kid_In. exact E.
Qed.

Lemma tget_tadd : forall v p q t,
  tget q (tadd v p t) = if path_eq_dec q p then add_val v (tget p t) else tget q t.
Proof.
  induction p as [|l p IH]; intros q [vs ks]; simpl tadd.
  - destruct q as [|l' q]; destruct (path_eq_dec _ _) as [E | E]; try congruence; reflexivity.
  - destruct q as [|l' q].
    + destruct (path_eq_dec _ _) as [E | E]; [discriminate | reflexivity].
    + rewrite tget_cons. destruct (level_eq_dec l' l) as [-> | Hne].
      * rewrite find_put_same, IH, !(tget_kid_or_new l _ vs ks).
        destruct (path_eq_dec q p) as [-> | E1]; destruct (path_eq_dec _ _) as [E2 | E2]; try congruence; reflexivity.
      * rewrite find_put_other by exact Hne.
        destruct (path_eq_dec _ _) as [E2 | E2]; [congruence | reflexivity].
Qed.

Lemma tget_tset : forall v p q t,
  tget q (tset v p t) = if path_eq_dec q p then [v] else tget q t.
Proof.
  induction p as [|l p IH]; intros q [vs ks]; simpl tset.
  - destruct q as [|l' q]; destruct (path_eq_dec _ _) as [E | E]; try congruence; reflexivity.
  - destruct q as [|l' q].
    + destruct (path_eq_dec _ _) as [E | E]; [discriminate | reflexivity].
    + rewrite tget_cons. destruct (level_eq_dec l' l) as [-> | Hne].
      * rewrite find_put_same, IH, !(tget_kid_or_new l _ vs ks).
        destruct (path_eq_dec q p) as [-> | E1]; destruct (path_eq_dec _ _) as [E2 | E2]; try congruence; reflexivity.
      * rewrite find_put_other by exact Hne.
        destruct (path_eq_dec _ _) as [E2 | E2]; [congruence | reflexivity].
Qed.

Definition rem (v : option N) (vs : list N) : list N :=
  match v with None => [] | Some x => remove_val x vs end.

Lemma rem_nil : forall v, rem v [] = [].
Proof. intros [x|]; reflexivity. Qed.

Lemma tget_tremove : forall v p q t, wf t ->
  tget q (tremove v p t) = if path_eq_dec q p then rem v (tget p t) else tget q t.
Proof.
  induction p as [|l p IH]; intros q [vs ks] H; simpl tremove.
  - destruct q as [|l' q]; destruct (path_eq_dec _ _) as [E | E]; try congruence; reflexivity.
  - destruct (find_kid l ks) as [c|] eqn:Ef.
    + assert (Hc : wf c) by (inversion H as [? ? _ _ Hk]; subst; apply (Hk l); apply find_kid_In; exact Ef).
      assert (Hnd : NoDup (keys ks)) by (inversion H; assumption).
      assert (G : forall q', tget (l :: q') (if is_empty (tremove v p c) then Node vs (del_kid l ks)
                                              else Node vs (put_kid l (tremove v p c) ks))
                             = tget q' (tremove v p c)).
      { intros q'. destruct (is_empty (tremove v p c)) eqn:Ee.
        - rewrite tget_cons, find_del_same by exact Hnd. symmetry. apply tget_is_empty. exact Ee.
        - rewrite tget_cons, find_put_same. reflexivity. }
      destruct q as [|l' q].
      * destruct (path_eq_dec _ _) as [E | E]; [discriminate|].
        destruct (is_empty (tremove v p c)); reflexivity.
      * destruct (level_eq_dec l' l) as [-> | Hne].
        -- rewrite G, (IH q c Hc), !tget_cons, Ef.
           destruct (path_eq_dec q p) as [-> | E1]; destruct (path_eq_dec _ _) as [E2 | E2]; try congruence; reflexivity.
        -- destruct (path_eq_dec _ _) as [E2 | E2]; [congruence|].
           destruct (is_empty (tremove v p c)); rewrite !tget_cons.
           ++ rewrite find_del_other by exact Hne. reflexivity.
           ++ rewrite find_put_other by exact Hne. reflexivity.
    + destruct (path_eq_dec q (l :: p)) as [-> | E]; [|reflexivity].
      rewrite tget_cons, Ef, rem_nil. reflexivity.
Qed.

Lemma find_filter_map : forall (f : node -> node) l ks, NoDup (keys ks) ->
  find_kid l (filter (fun kc : level * node => negb (is_empty (snd kc)))
                     (map (fun kc : level * node => let '(k, c) := kc in (k, f c)) ks))
  = match find_kid l ks with
    | Some c => if is_empty (f c) then None else Some (f c)
    | None => None
    end.
Proof.
  induction ks as [|[k0 c0] ks IH]; intros H; simpl in *; [reflexivity|].
  inversion H as [|? ? Hni Hnd]; subst.
  destruct (level_eqb l k0) eqn:E.
  - apply level_eqb_eq in E. subst k0.
    destruct (is_empty (f c0)) eqn:Ee; simpl.
    + apply find_kid_None. intros Hin. apply Hni. exact (keys_filter_map _ _ _ _ Hin).
    + rewrite level_eqb_refl. reflexivity.
  - destruct (is_empty (f c0)); simpl; [|rewrite E]; apply IH; exact Hnd.
Qed.

Lemma tget_tclear : forall v t q, wf t -> tget q (tclear v t) = remove_val v (tget q t).
Proof.
  intros v t. induction t as [vs ks IH] using node_ind2. intros q H.
  inversion H as [? ? Hnd Hv Hk]; subst. simpl tclear.
  destruct q as [|l q]; [reflexivity|].
  rewrite !tget_cons, find_filter_map by exact Hnd.
  destruct (find_kid l ks) as [c|] eqn:Ef; [|reflexivity].
  apply find_kid_In in Ef. rewrite Forall_forall in IH.
  assert (IHc := IH (l, c) Ef q (Hk _ _ Ef)). simpl in IHc. rewrite <- IHc.
  destruct (is_empty (tclear v c)) eqn:Ee; [|reflexivity].
  symmetry. apply tget_is_empty. exact Ee.
Qed.
