(* TrieRefineProofs.v — the trie refines the map specification.

     refines t m        for every topic the trie holds a permutation of the map's value list
     refines_step       every operation preserves it          (NUL-free topics)
     abs_get            the contents list `abs t` is a map with lookup = tget   (so abs t ≡ m pointwise)
     answers_agree      every query of the scope is answered as the map allows
     pruned_apply       no operation leaves an empty non-root node *)
From Coq Require Import List Bool NArith Permutation Lia.
From Coq.Strings Require Import Byte.
From GM Require Import Topic.MatchSpec Topic.Levels Topic.Trie Topic.TrieProofs Topic.TrieMatchProofs
  Topic.TreeSpec Topic.TreeSpecProofs.
Import ListNotations.
Open Scope N_scope.

(* ------------------------------------------------------------------ one operation, seen through tget *)
Definition teffect (o : op) (q : path) (vs : list N) : list N :=
  match o with
  | OAdd s v => if path_eq_dec q (walk s) then add_val v vs else vs
  | OSet s v => if path_eq_dec q (walk s) then [v] else vs
  | ORemove s v => if path_eq_dec q (walk s) then remove_val v vs else vs
  | OEmpty s => if path_eq_dec q (walk s) then [] else vs
  | OClear v => remove_val v vs
  | OReset => []
  end.

Lemma tget_apply : forall t o q, wf t -> tget q (apply_trie t o) = teffect o q (tget q t).
Proof.
  intros t o q H. destruct o as [s v | s v | s v | s | v |]; unfold apply_trie, teffect.
  - unfold Add. rewrite tget_tadd. destruct (path_eq_dec q (walk s)); [subst|]; reflexivity.
  - unfold Set_. rewrite tget_tset. reflexivity.
  - unfold Remove. rewrite tget_tremove by exact H. destruct (path_eq_dec q (walk s)); [subst|]; reflexivity.
  - unfold Empty. rewrite tget_tremove by exact H. reflexivity.
  - unfold Clear. apply tget_tclear. exact H.
  - apply tget_empty_node.
Qed.

Lemma wf_apply : forall t o, wf t -> wf (apply_trie t o).
Proof.
  intros t o H. destruct o as [s v | s v | s v | s | v |]; simpl.
  - apply wf_tadd. exact H.
  - apply wf_tset. exact H.
  - apply wf_tremove. exact H.
  - apply wf_tremove. exact H.
  - apply wf_tclear. exact H.
  - exact wf_empty.
Qed.

Lemma wf_run_from : forall ops t, wf t -> wf (fold_left apply_trie ops t).
Proof. induction ops as [|o ops IH]; intros t H; simpl; [exact H|]. apply IH. apply wf_apply. exact H. Qed.

Lemma wf_run : forall ops, wf (run_trie ops).
Proof. intros ops. apply wf_run_from. exact wf_empty. Qed.

(* ------------------------------------------------------------------ refinement *)
Definition refines (t : tree) (m : tmap) : Prop := forall q, Permutation (tget q t) (mget m q).

Lemma NoDup_sv_remove : forall v vs, NoDup vs -> NoDup (sv_remove v vs).
Proof.
  intros v vs H. unfold sv_remove. induction H as [|x l Hni Hnd IH]; simpl; [constructor|].
  destruct (N.eq_dec v x); [exact IH|]. constructor; [|exact IH].
  intros Hin. apply in_remove in Hin. apply Hni. exact (proj1 Hin).
Qed.

Lemma remove_perm : forall v vs ws, NoDup vs -> Permutation vs ws ->
  Permutation (remove_val v vs) (sv_remove v ws).
Proof.
  intros v vs ws Hnd Hp.
  assert (Hnd2 : NoDup ws) by (apply (Permutation_NoDup Hp); exact Hnd).
  apply NoDup_Permutation; [apply remove_val_NoDup; exact Hnd | apply NoDup_sv_remove; exact Hnd2|].
  intros w. rewrite remove_val_In by exact Hnd. rewrite sv_remove_In. split.
  - intros [H1 H2]. split; [apply (Permutation_in _ Hp); exact H1 | exact H2].
  - intros [H1 H2]. split; [apply (Permutation_in _ (Permutation_sym Hp)); exact H1 | exact H2].
Qed.

Lemma add_perm : forall v vs ws, Permutation vs ws -> Permutation (add_val v vs) (sv_add v ws).
Proof.
  intros v vs ws Hp. unfold add_val, sv_add.
  destruct (mem_val v vs) eqn:E; destruct (in_dec N.eq_dec v ws) as [H | H].
  - exact Hp.
  - exfalso. apply H. apply (Permutation_in _ Hp). apply mem_val_In. exact E.
  - apply mem_val_false in E. exfalso. apply E. apply (Permutation_in _ (Permutation_sym Hp)). exact H.
  - apply Permutation_app_tail. exact Hp.
Qed.

Lemma effect_perm : forall o q vs ws, op_ok o = true -> NoDup vs -> Permutation vs ws ->
  Permutation (teffect o q vs) (effect o q ws).
Proof.
  intros o q vs ws Hok Hnd Hp. destruct o as [s v | s v | s v | s | v |]; simpl in *;
    try rewrite (walk_is_split s Hok); try destruct (path_eq_dec q (split_levels s));
    try exact Hp; try reflexivity; try (apply add_perm; exact Hp); apply remove_perm; assumption.
Qed.

Lemma refines_step : forall t m o, wf t -> mwf m -> op_ok o = true -> refines t m ->
  refines (apply_trie t o) (apply_spec m o).
Proof.
  intros t m o Ht Hm Hok Hr q. rewrite tget_apply by exact Ht. rewrite mget_apply by exact Hm.
  apply effect_perm; [exact Hok | apply tget_NoDup; exact Ht | apply Hr].
Qed.

Lemma refines_empty : refines New [].
Proof. intros q. unfold New. rewrite tget_empty_node. constructor. Qed.

Lemma refines_run_from : forall ops t m, forallb op_ok ops = true -> wf t -> mwf m -> refines t m ->
  refines (fold_left apply_trie ops t) (fold_left apply_spec ops m).
Proof.
  induction ops as [|o ops IH]; intros t m Hok Ht Hm Hr; simpl; [exact Hr|].
  simpl in Hok. apply andb_true_iff in Hok. destruct Hok as [Ho Hops].
  apply IH; [exact Hops | apply wf_apply; exact Ht | apply mwf_apply; exact Hm | apply refines_step; assumption].
Qed.

Lemma refines_run : forall ops, forallb op_ok ops = true -> refines (run_trie ops) (run_spec ops).
Proof.
  intros ops H. apply refines_run_from; [exact H | exact wf_empty | split; constructor | exact refines_empty].
Qed.

(* ------------------------------------------------------------------ abs *)
Lemma mget_app : forall A B q,
  mget (A ++ B) q = if in_dec path_eq_dec q (mkeys A) then mget A q else mget B q.
Proof.
  induction A as [|[k vs] A IH]; intros B q; simpl; [reflexivity|].
  rewrite path_eqb_dec. destruct (path_eq_dec q k) as [E | E].
  - subst k. destruct (path_eq_dec q q); [|congruence]. reflexivity.
  - rewrite IH. destruct (path_eq_dec k q); [congruence|].
    destruct (in_dec path_eq_dec q (mkeys A)); reflexivity.
Qed.

Lemma mkeys_cons_path : forall k (A : tmap), mkeys (map (cons_path k) A) = map (cons k) (mkeys A).
Proof. intros k A. unfold mkeys. rewrite !map_map. reflexivity. Qed.

Lemma mget_cons_path : forall k A l q,
  mget (map (cons_path k) A) (l :: q) = if level_eq_dec l k then mget A q else [].
Proof.
  induction A as [|[p vs] A IH]; intros l q; simpl.
  - destruct (level_eq_dec l k); reflexivity.
  - rewrite IH. destruct (level_eqb l k) eqn:E.
    + apply level_eqb_eq in E. subst k. simpl. destruct (level_eq_dec l l); [reflexivity | congruence].
    + apply level_eqb_neq in E. simpl. destruct (level_eq_dec l k); [congruence | reflexivity].
Qed.

Definition abs_kids (ks : list (level * node)) : tmap :=
  flat_map (fun kc : level * node => let '(k, c) := kc in map (cons_path k) (abs c)) ks.

Lemma abs_unfold : forall vs ks,
  abs (Node vs ks) = (match vs with [] => [] | _ :: _ => [([], vs)] end) ++ abs_kids ks.
Proof. reflexivity. Qed.

Lemma abs_kids_keys : forall ks p, In p (mkeys (abs_kids ks)) ->
  exists k c q, p = k :: q /\ In (k, c) ks /\ In q (mkeys (abs c)).
Proof.
  induction ks as [|[k c] ks IH]; intros p H; [destruct H|].
  unfold abs_kids in H. simpl in H. unfold mkeys in H. rewrite map_app in H. apply in_app_or in H.
  destruct H as [H | H].
  - fold (mkeys (map (cons_path k) (abs c))) in H. rewrite mkeys_cons_path in H.
    apply in_map_iff in H. destruct H as [q [Hq Hin]].
    exists k, c, q. repeat split; [symmetry; exact Hq | left; reflexivity | exact Hin].
  - destruct (IH p H) as [k' [c' [q [H1 [H2 H3]]]]]. exists k', c', q. repeat split; [exact H1 | right; exact H2 | exact H3].
Qed.

Lemma mget_abs_kids : forall ks l q, NoDup (keys ks) ->
  mget (abs_kids ks) (l :: q) = match find_kid l ks with Some c => mget (abs c) q | None => [] end.
Proof.
  induction ks as [|[k c] ks IH]; intros l q Hnd; [reflexivity|].
  simpl in Hnd. inversion Hnd as [|? ? Hni Hnd']; subst.
  unfold abs_kids. simpl flat_map. fold (abs_kids ks). rewrite mget_app, mkeys_cons_path. simpl find_kid.
  destruct (level_eqb l k) eqn:E.
  - apply level_eqb_eq in E. subst k. rewrite mget_cons_path. destruct (level_eq_dec l l); [|congruence].
    destruct (in_dec path_eq_dec (l :: q) (map (cons l) (mkeys (abs c)))) as [H | H]; [reflexivity|].
    rewrite mget_notin.
    + symmetry. apply mget_notin. intros Hin. apply H. apply in_map. exact Hin.
    + intros Hin. destruct (abs_kids_keys ks _ Hin) as [k' [c' [q' [H1 [H2 _]]]]]. inversion H1; subst.
      apply Hni. exact (In_keys _ _ _ H2).
  - apply level_eqb_neq in E.
    destruct (in_dec path_eq_dec (l :: q) (map (cons k) (mkeys (abs c)))) as [H | H].
    + apply in_map_iff in H. destruct H as [q' [H1 _]]. inversion H1; subst. congruence.
    + apply IH. exact Hnd'.
Qed.

(* lookup in the contents list is tget *)
Lemma abs_get : forall t q, wf t -> mget (abs t) q = tget q t.
Proof.
  intros t. induction t as [vs ks IH] using node_ind2. intros q H.
  inversion H as [? ? Hnd Hv Hk]; subst. rewrite abs_unfold, mget_app.
  destruct q as [|l q].
  - destruct vs as [|v vs]; simpl.
    + apply mget_notin. intros Hin. destruct (abs_kids_keys ks _ Hin) as [k [c [q [H1 _]]]]. discriminate.
    + reflexivity.
  - assert (Hni : ~ In (l :: q) (mkeys (match vs with [] => [] | _ :: _ => [([], vs)] end))).
    { destruct vs; simpl; [intros [] | intros [H1 | []]; discriminate]. }
    destruct (in_dec path_eq_dec (l :: q) _) as [H1 | _]; [contradiction|].
    rewrite mget_abs_kids by exact Hnd. rewrite tget_cons.
    destruct (find_kid l ks) as [c|] eqn:Ef; [|reflexivity].
    apply find_kid_In in Ef. rewrite Forall_forall in IH. apply (IH (l, c) Ef q). exact (Hk _ _ Ef).
Qed.

Lemma NoDup_app_intro : forall (A : Type) (l1 l2 : list A),
  NoDup l1 -> NoDup l2 -> (forall x, In x l1 -> ~ In x l2) -> NoDup (l1 ++ l2).
Proof.
  induction l1 as [|a l1 IH]; intros l2 H1 H2 Hd; simpl; [exact H2|].
  inversion H1 as [|? ? Hni Hnd]; subst. constructor.
  - intros Hin. apply in_app_or in Hin. destruct Hin as [Hin | Hin]; [contradiction|].
    apply (Hd a); [left; reflexivity | exact Hin].
  - apply IH; [exact Hnd | exact H2|]. intros x Hx. apply Hd. right. exact Hx.
Qed.

Lemma abs_kids_mwf : forall ks, NoDup (keys ks) -> (forall k c, In (k, c) ks -> mwf (abs c)) -> mwf (abs_kids ks).
Proof.
  induction ks as [|[k c] ks IH]; intros Hnd Hk; [split; constructor|].
  simpl in Hnd. inversion Hnd as [|? ? Hni Hnd']; subst.
  destruct (IH Hnd' (fun k' c' H => Hk k' c' (or_intror H))) as [IH1 IH2].
  destruct (Hk k c (or_introl eq_refl)) as [Hc1 Hc2].
  unfold abs_kids. simpl flat_map. fold (abs_kids ks). split.
  - unfold mkeys. rewrite map_app. fold (mkeys (map (cons_path k) (abs c))). fold (mkeys (abs_kids ks)).
    apply NoDup_app_intro.
    + rewrite mkeys_cons_path. apply FinFun.Injective_map_NoDup; [|exact Hc1].
      intros a b E. inversion E. reflexivity.
    + exact IH1.
    + intros p Hp Hin. rewrite mkeys_cons_path in Hp. apply in_map_iff in Hp. destruct Hp as [q [Hq _]]. subst p.
      destruct (abs_kids_keys ks _ Hin) as [k' [c' [q' [H1 [H2 _]]]]]. inversion H1; subst.
      apply Hni. exact (In_keys _ _ _ H2).
  - apply Forall_app. split; [|exact IH2].
    apply Forall_forall. intros e He. apply in_map_iff in He. destruct He as [e0 [<- He0]].
    rewrite Forall_forall in Hc2. simpl. exact (Hc2 e0 He0).
Qed.

Lemma abs_mwf : forall t, wf t -> mwf (abs t).
Proof.
  intros t. induction t as [vs ks IH] using node_ind2. intros H.
  inversion H as [? ? Hnd Hv Hk]; subst. rewrite abs_unfold.
  assert (Hkids : mwf (abs_kids ks)).
  { apply abs_kids_mwf; [exact Hnd|]. intros k c Hin. rewrite Forall_forall in IH. apply (IH (k, c) Hin). exact (Hk _ _ Hin). }
  destruct vs as [|v vs]; [exact Hkids|].
  destruct Hkids as [H1 H2]. split; simpl.
  - constructor; [|exact H1]. intros Hin. destruct (abs_kids_keys ks _ Hin) as [k [c [q [E _]]]]. discriminate.
  - constructor; [discriminate | exact H2].
Qed.

(* ------------------------------------------------------------------ count *)
Lemma s_count_app : forall A B, s_count (A ++ B) = s_count A + s_count B.
Proof.
  induction A as [|e A IH]; intros B; simpl; [reflexivity|].
  unfold s_count in *. simpl. rewrite IH. lia.
Qed.

Lemma s_count_cons_path : forall k A, s_count (map (cons_path k) A) = s_count A.
Proof.
  induction A as [|e A IH]; [reflexivity|]. unfold s_count in *. simpl. rewrite IH. reflexivity.
Qed.

Lemma tcount_abs : forall t, tcount t = s_count (abs t).
Proof.
  intros t. induction t as [vs ks IH] using node_ind2.
  rewrite abs_unfold, s_count_app. simpl tcount.
  assert (Hk : fold_right N.add 0 (map (fun kc : level * node => let '(_, c) := kc in tcount c) ks) = s_count (abs_kids ks)).
  { induction ks as [|[k c] ks IHk]; [reflexivity|].
    inversion IH as [|? ? H1 H2]; subst. unfold abs_kids. simpl. fold (abs_kids ks).
    rewrite s_count_app, s_count_cons_path, (IHk H2). simpl in H1. rewrite H1. reflexivity. }
  rewrite Hk. destruct vs as [|v vs].
  - change (s_count []) with 0. simpl length. lia.
  - change (s_count [([], v :: vs)]) with (N.of_nat (length (v :: vs)) + 0). lia.
Qed.

Lemma m_del_notin : forall p m, ~ In p (mkeys m) -> m_del p m = m.
Proof.
  induction m as [|[k vs] m IH]; intros H; simpl; [reflexivity|].
  rewrite path_eqb_dec. destruct (path_eq_dec p k) as [E | E].
  - exfalso. apply H. left. symmetry. exact E.
  - rewrite IH; [reflexivity|]. intros Hin. apply H. right. exact Hin.
Qed.

Lemma s_count_del : forall p m, NoDup (mkeys m) ->
  s_count m = N.of_nat (length (mget m p)) + s_count (m_del p m).
Proof.
  induction m as [|[k vs] m IH]; intros Hnd; [reflexivity|].
  simpl in Hnd. inversion Hnd as [|? ? Hni Hnd']; subst.
  change (s_count ((k, vs) :: m)) with (N.of_nat (length vs) + s_count m).
  simpl mget. simpl m_del.
  rewrite (path_eqb_dec p k). destruct (path_eq_dec p k) as [E | E].
  - subst k. rewrite (m_del_notin p m Hni). reflexivity.
  - change (s_count ((k, vs) :: m_del p m)) with (N.of_nat (length vs) + s_count (m_del p m)).
    rewrite (IH Hnd'). lia.
Qed.

(* the sum of the list lengths depends only on the lookups *)
Lemma s_count_equiv : forall m1 m2, mwf m1 -> mwf m2 ->
  (forall q, length (mget m1 q) = length (mget m2 q)) -> s_count m1 = s_count m2.
Proof.
  induction m1 as [|[k vs] m1 IH]; intros m2 H1 H2 He.
  - destruct m2 as [|[k2 vs2] m2]; [reflexivity|]. exfalso.
    destruct H2 as [_ H2]. inversion H2 as [|? ? Hne _]; subst. simpl in Hne.
    specialize (He k2). simpl in He. rewrite path_eqb_dec in He. destruct (path_eq_dec k2 k2); [|congruence].
    destruct vs2; [congruence | discriminate].
  - destruct H1 as [Hnd1 Hne1]. simpl in Hnd1. inversion Hnd1 as [|? ? Hni Hnd1']; subst.
    inversion Hne1 as [|? ? Hvs Hne1']; subst. simpl in Hvs.
    rewrite (s_count_del k m2 (proj1 H2)).
    assert (Hk : length (mget m2 k) = length vs).
    { rewrite <- He. simpl. rewrite path_eqb_dec. destruct (path_eq_dec k k); [reflexivity | congruence]. }
    rewrite Hk. unfold s_count at 1. simpl. fold (s_count m1). f_equal.
    apply IH; [split; assumption | apply mwf_del; exact H2|].
    intros q. rewrite mget_del. destruct (path_eq_dec q k) as [E | E].
    + subst q. rewrite (mget_notin m1 k Hni). reflexivity.
    + rewrite <- He. simpl. rewrite path_eqb_dec. destruct (path_eq_dec q k); [congruence | reflexivity].
Qed.

Lemma count_refines : forall t m, wf t -> mwf m -> refines t m -> tcount t = s_count m.
Proof.
  intros t m Ht Hm Hr. rewrite tcount_abs. apply s_count_equiv; [apply abs_mwf; exact Ht | exact Hm|].
  intros q. rewrite abs_get by exact Ht. apply Permutation_length. apply Hr.
Qed.

(* ------------------------------------------------------------------ all *)
Lemma tall_raw_unfold : forall vs ks,
  tall_raw (Node vs ks) = flat_map (fun kc : level * node => tall_raw (snd kc)) ks ++ vs.
Proof. intros vs ks. simpl. f_equal. apply flat_map_ext. intros [k c]. reflexivity. Qed.

Lemma tall_raw_spec : forall t v, wf t -> (In v (tall_raw t) <-> exists p, In v (tget p t)).
Proof.
  intros t. induction t as [vs ks IH] using node_ind2. intros v H.
  inversion H as [? ? Hnd Hv Hk]; subst. rewrite Forall_forall in IH.
  rewrite tall_raw_unfold, in_app_iff, in_flat_map. split.
  - intros [[[k c] [Hkc Hin]] | Hin].
    + simpl in Hin. apply (IH (k, c) Hkc v (Hk _ _ Hkc)) in Hin. destruct Hin as [p Hp].
      exists (k :: p). rewrite tget_cons, (In_find_kid _ _ _ Hnd Hkc). exact Hp.
    + exists []. exact Hin.
  - intros [[|l p] Hp].
    + right. exact Hp.
    + rewrite tget_cons in Hp. destruct (find_kid l ks) as [c|] eqn:Ef; [|destruct Hp].
      apply find_kid_In in Ef. left. exists (l, c). split; [exact Ef|]. simpl.
      apply (IH (l, c) Ef v (Hk _ _ Ef)). exists p. exact Hp.
Qed.

(* ------------------------------------------------------------------ queries *)
Lemma in_spec_flat : forall (m : tmap) (g : path -> bool) v, NoDup (mkeys m) ->
  (In v (flat_map (fun e : path * list N => if g (fst e) then snd e else []) m) <->
   exists p, In v (mget m p) /\ g p = true).
Proof.
  intros m g v Hnd. rewrite in_flat_map. split.
  - intros [[p vs] [He Hin]]. simpl in Hin. destruct (g p) eqn:E; [|destruct Hin].
    exists p. rewrite (mget_In m p vs Hnd He). split; [exact Hin | exact E].
  - intros [p [Hin Hg]]. exists (p, mget m p). split.
    + apply mget_nonempty_In. intros E. rewrite E in Hin. destruct Hin.
    + simpl. rewrite Hg. exact Hin.
Qed.

Lemma first_rel_perm : forall o l l', first_rel o l -> Permutation l l' -> first_ok o l'.
Proof.
  intros [v|] l l' H Hp; simpl in *.
  - apply (Permutation_in _ Hp). exact H.
  - subst l. apply Permutation_nil. exact Hp.
Qed.

Lemma match_refines : forall t m name, wf t -> mwf m -> refines t m -> name_ok name ->
  Permutation (tmatch name t) (s_match m name).
Proof.
  intros t m name Ht [Hm _] Hr Hn. unfold tmatch, s_match.
  apply NoDup_Permutation; [apply clean_NoDup | apply NoDup_nodup|].
  intros v. rewrite clean_In, nodup_In, (tmatch_raw_spec name t v Hn).
  rewrite (in_spec_flat m (fun f => matches f name) v Hm). split.
  - intros [f [Hin Hf]]. exists f. split; [apply (Permutation_in _ (Hr f)); exact Hin | exact Hf].
  - intros [f [Hin Hf]]. exists f. split; [apply (Permutation_in _ (Permutation_sym (Hr f))); exact Hin | exact Hf].
Qed.

Lemma search_refines : forall t m f, wf t -> mwf m -> refines t m -> hash_last f ->
  Permutation (tsearch f t) (s_search m f).
Proof.
  intros t m f Ht [Hm _] Hr Hf. unfold tsearch, s_search.
  apply NoDup_Permutation; [apply clean_NoDup | apply NoDup_nodup|].
  intros v. rewrite clean_In, nodup_In, (tsearch_raw_spec t f v Ht Hf).
  rewrite (in_spec_flat m (fun n => matches f n) v Hm). split.
  - intros [n [Hin Hn]]. exists n. split; [apply (Permutation_in _ (Hr n)); exact Hin | exact Hn].
  - intros [n [Hin Hn]]. exists n. split; [apply (Permutation_in _ (Permutation_sym (Hr n))); exact Hin | exact Hn].
Qed.

Lemma all_refines : forall t m, wf t -> mwf m -> refines t m -> Permutation (tall t) (s_all m).
Proof.
  intros t m Ht [Hm _] Hr. unfold tall, s_all.
  apply NoDup_Permutation; [apply clean_NoDup | apply NoDup_nodup|].
  intros v. rewrite clean_In, nodup_In, (tall_raw_spec t v Ht), in_flat_map. split.
  - intros [p Hin]. apply (Permutation_in _ (Hr p)) in Hin. exists (p, mget m p). split; [|exact Hin].
    apply mget_nonempty_In. intros E. rewrite E in Hin. destruct Hin.
  - intros [[p vs] [He Hin]]. exists p. apply (Permutation_in _ (Permutation_sym (Hr p))).
    rewrite (mget_In m p vs Hm He). exact Hin.
Qed.

Lemma answers_agree : forall t m q, wf t -> mwf m -> refines t m -> query_ok q = true ->
  answer_ok m q (answer_trie t q).
Proof.
  intros t m q Ht Hm Hr Hq. destruct q as [s | s | s | s | s | |]; simpl in *.
  - unfold Get. rewrite (walk_is_split s Hq). apply Hr.
  - unfold Match. assert (Hn : no_nul s = true).
    { unfold wildcard_free in Hq. apply andb_true_iff in Hq. destruct Hq as [Hq _]. apply andb_true_iff in Hq. exact (proj1 Hq). }
    rewrite (walk_is_split s Hn). apply match_refines; try assumption. apply wildcard_free_name_ok. exact Hq.
  - unfold MatchFirst. assert (Hn : no_nul s = true).
    { unfold wildcard_free in Hq. apply andb_true_iff in Hq. destruct Hq as [Hq _]. apply andb_true_iff in Hq. exact (proj1 Hq). }
    rewrite (walk_is_split s Hn).
    apply (first_rel_perm _ (tmatch (split_levels s) t)).
    + apply first_rel_clean. apply tmatch_first_rel.
    + apply match_refines; try assumption. apply wildcard_free_name_ok. exact Hq.
  - unfold Search. assert (Hn : no_nul s = true) by (unfold valid_filter in Hq; apply andb_true_iff in Hq; exact (proj1 Hq)).
    rewrite (walk_is_split s Hn). apply search_refines; try assumption. apply valid_filter_hash_last. exact Hq.
  - unfold SearchFirst. assert (Hn : no_nul s = true) by (unfold valid_filter in Hq; apply andb_true_iff in Hq; exact (proj1 Hq)).
    rewrite (walk_is_split s Hn).
    apply (first_rel_perm _ (tsearch (split_levels s) t)).
    + apply first_rel_clean. apply tsearch_first_rel.
    + apply search_refines; try assumption. apply valid_filter_hash_last. exact Hq.
  - apply all_refines; assumption.
  - apply count_refines; assumption.
Qed.

(* ------------------------------------------------------------------ pruning *)
Inductive pruned : node -> Prop :=
| pruned_node : forall vs ks,
    (forall k c, In (k, c) ks -> is_empty c = false /\ pruned c) -> pruned (Node vs ks).

Lemma pruned_empty : pruned empty_node.
Proof. constructor. intros k c []. Qed.

Lemma pruned_kid_or_new : forall l vs ks, pruned (Node vs ks) -> pruned (kid_or_new l ks).
Proof.
  intros l vs ks H. inversion H as [? ? Hk]; subst. unfold kid_or_new.
  destruct (find_kid l ks) as [c|] eqn:E; [|exact pruned_empty].
  apply find_kid_In in E. exact (proj2 (Hk _ _ E)).
Qed.

Lemma pruned_put : forall l c vs ks, pruned (Node vs ks) -> is_empty c = false -> pruned c ->
  pruned (Node vs (put_kid l c ks)).
Proof.
  intros l c vs ks H He Hc. inversion H as [? ? Hk]; subst. constructor.
  intros k c' Hin. destruct (In_put_kid _ _ _ _ _ Hin) as [[_ ->] | Hin']; [split; assumption | exact (Hk _ _ Hin')].
Qed.

Lemma put_kid_nonempty : forall l c ks, put_kid l c ks <> [].
Proof. intros l c [|[k c0] ks]; simpl; [discriminate|]. destruct (level_eqb l k); discriminate. Qed.

Lemma tadd_nonempty : forall v p t, is_empty (tadd v p t) = false.
Proof.
  intros v [|l p] [vs ks]; simpl.
  - destruct (add_val v vs) eqn:E; [exfalso; exact (add_val_nonempty v vs E) | reflexivity].
  - destruct (put_kid l (tadd v p (kid_or_new l ks)) ks) eqn:E; [exfalso; exact (put_kid_nonempty _ _ _ E)|].
    destruct vs; reflexivity.
Qed.

Lemma tset_nonempty : forall v p t, is_empty (tset v p t) = false.
Proof.
  intros v [|l p] [vs ks]; simpl; [reflexivity|].
  destruct (put_kid l (tset v p (kid_or_new l ks)) ks) eqn:E; [exfalso; exact (put_kid_nonempty _ _ _ E)|].
  destruct vs; reflexivity.
Qed.

Lemma pruned_tadd : forall v p t, pruned t -> pruned (tadd v p t).
Proof.
  induction p as [|l p IH]; intros [vs ks] H; simpl.
  - inversion H; subst. constructor. assumption.
  - apply pruned_put; [exact H | apply tadd_nonempty | apply IH; exact (pruned_kid_or_new l vs ks H)].
Qed.

Lemma pruned_tset : forall v p t, pruned t -> pruned (tset v p t).
Proof.
  induction p as [|l p IH]; intros [vs ks] H; simpl.
  - inversion H; subst. constructor. assumption.
  - apply pruned_put; [exact H | apply tset_nonempty | apply IH; exact (pruned_kid_or_new l vs ks H)].
Qed.

Lemma pruned_tremove : forall v p t, pruned t -> pruned (tremove v p t).
Proof.
  induction p as [|l p IH]; intros [vs ks] H; simpl.
  - inversion H; subst. constructor. assumption.
  - destruct (find_kid l ks) as [c|] eqn:E; [|exact H].
    inversion H as [? ? Hk]; subst. apply find_kid_In in E.
    destruct (is_empty (tremove v p c)) eqn:Ee.
    + constructor. intros k c' Hin. exact (Hk _ _ (In_del_kid _ _ _ _ Hin)).
    + apply pruned_put; [exact H | exact Ee | apply IH; exact (proj2 (Hk _ _ E))].
Qed.

Lemma pruned_tclear : forall v t, pruned (tclear v t).
Proof.
  intros v t. induction t as [vs ks IH] using node_ind2. simpl. constructor.
  intros k c' Hin. destruct (In_filter_map _ _ _ _ _ Hin) as [c [Hc [-> Hg]]]. simpl in Hg.
  split; [apply negb_true_iff; exact Hg|]. rewrite Forall_forall in IH. exact (IH (k, c) Hc).
Qed.

Lemma pruned_apply : forall t o, pruned t -> pruned (apply_trie t o).
Proof.
  intros t o H. destruct o as [s v | s v | s v | s | v |]; simpl.
  - apply pruned_tadd. exact H.
  - apply pruned_tset. exact H.
  - apply pruned_tremove. exact H.
  - apply pruned_tremove. exact H.
  - apply pruned_tclear.
  - exact pruned_empty.
Qed.

Lemma pruned_run : forall ops, pruned (run_trie ops).
Proof.
  intros ops. unfold run_trie. assert (G : forall t, pruned t -> pruned (fold_left apply_trie ops t)).
  { induction ops as [|o ops IH]; intros t H; simpl; [exact H|]. apply IH. apply pruned_apply. exact H. }
  apply G. exact pruned_empty.
Qed.

Lemma prunedb_iff : forall t, prunedb t = true <-> pruned t.
Proof.
  intros t. induction t as [vs ks IH] using node_ind2. rewrite Forall_forall in IH. simpl. rewrite forallb_forall. split.
  - intros H. constructor. intros k c Hin. specialize (H (k, c) Hin). simpl in H.
    apply andb_true_iff in H. destruct H as [H1 H2]. split; [apply negb_true_iff; exact H1|].
    apply (IH (k, c) Hin). exact H2.
  - intros H [k c] Hin. inversion H as [? ? Hk]; subst. destruct (Hk _ _ Hin) as [H1 H2].
    apply andb_true_iff. split; [apply negb_true_iff; exact H1 | apply (IH (k, c) Hin); exact H2].
Qed.

Lemma pruned_run_both : forall ops, pruned (run_trie ops) /\ prunedb (run_trie ops) = true.
Proof. intros ops. split; [exact (pruned_run ops) | exact (proj2 (prunedb_iff _) (pruned_run ops))]. Qed.
