(* TreeSpecProofs.v — facts about the map specification alone:
   lookups after every operation (`mget_apply`), the invariant `mwf` (one entry
   per topic, no empty entry), the boolean answer checker is exactly the
   relation (`answer_okb_iff`), and independent operations commute (`spec_commute`). *)
From Coq Require Import List Bool NArith Permutation Lia.
From Coq.Strings Require Import Byte.
From GM Require Import Topic.MatchSpec Topic.Levels Topic.Trie Topic.TreeSpec.
Import ListNotations.
Open Scope N_scope.

Lemma path_eqb_eq : forall a b, path_eqb a b = true <-> a = b.
Proof.
  induction a as [|x a IH]; destruct b as [|y b]; simpl; split; try congruence; try reflexivity.
  - intros H. apply andb_true_iff in H. destruct H as [H1 H2].
    apply level_eqb_eq in H1. apply IH in H2. subst. reflexivity.
  - intros H. inversion H; subst. apply andb_true_iff. split; [apply level_eqb_refl | apply IH; reflexivity].
Qed.

Lemma path_eqb_dec : forall a b, path_eqb a b = if path_eq_dec a b then true else false.
Proof.
  intros a b. destruct (path_eq_dec a b) as [E | E].
  - apply path_eqb_eq. exact E.
  - destruct (path_eqb a b) eqn:H; [apply path_eqb_eq in H; contradiction | reflexivity].
Qed.

Definition mkeys (m : tmap) : list path := map fst m.
Definition mwf (m : tmap) : Prop := NoDup (mkeys m) /\ Forall (fun e : path * list N => snd e <> []) m.

Lemma mget_notin : forall m p, ~ In p (mkeys m) -> mget m p = [].
Proof.
  induction m as [|[q vs] m IH]; intros p H; simpl; [reflexivity|].
  rewrite path_eqb_dec. destruct (path_eq_dec p q) as [E | E].
  - exfalso. apply H. left. symmetry. exact E.
  - apply IH. intros Hin. apply H. right. exact Hin.
Qed.

Lemma mget_In : forall m p vs, NoDup (mkeys m) -> In (p, vs) m -> mget m p = vs.
Proof.
  induction m as [|[q ws] m IH]; intros p vs Hnd Hin; [destruct Hin|].
  simpl in Hnd. inversion Hnd as [|? ? Hni Hnd']; subst. simpl. rewrite path_eqb_dec.
  destruct Hin as [Heq | Hin].
  - inversion Heq; subst. destruct (path_eq_dec p p); [reflexivity | congruence].
  - destruct (path_eq_dec p q) as [E | E].
    + subst q. exfalso. apply Hni. change p with (fst (p, vs)). apply in_map. exact Hin.
    + apply IH; assumption.
Qed.

Lemma mget_nonempty_In : forall m p, mget m p <> [] -> In (p, mget m p) m.
Proof.
  induction m as [|[q ws] m IH]; intros p H; simpl in *; [congruence|].
  rewrite path_eqb_dec in *. destruct (path_eq_dec p q) as [E | E].
  - subst. left. reflexivity.
  - right. apply IH. exact H.
Qed.

Lemma mkeys_del : forall p m q, In q (mkeys (m_del p m)) <-> In q (mkeys m) /\ q <> p.
Proof.
  induction m as [|[k vs] m IH]; intros q; simpl.
  - split; [intros [] | intros [[] _]].
  - rewrite path_eqb_dec. destruct (path_eq_dec p k) as [E | E].
    + subst k. rewrite IH. split.
      * intros [H1 H2]. split; [right; exact H1 | exact H2].
      * intros [[H1 | H1] H2]; [congruence | split; assumption].
    + simpl. rewrite IH. split.
      * intros [H | [H1 H2]]; [subst; split; [left; reflexivity | congruence] | split; [right; exact H1 | exact H2]].
      * intros [[H1 | H1] H2]; [left; exact H1 | right; split; assumption].
Qed.

Lemma mwf_del : forall p m, mwf m -> mwf (m_del p m).
Proof.
  intros p m [Hnd Hne]. induction m as [|[k vs] m IH]; simpl; [split; constructor|].
  simpl in Hnd. inversion Hnd as [|? ? Hni Hnd']; subst. inversion Hne as [|? ? H1 H2]; subst.
  destruct (IH Hnd' H2) as [IH1 IH2].
  destruct (path_eqb p k); [split; assumption|].
  split; simpl.
  - constructor; [|exact IH1]. intros Hin. apply mkeys_del in Hin. apply Hni. exact (proj1 Hin).
  - constructor; assumption.
Qed.

Lemma mwf_set : forall p vs m, mwf m -> mwf (m_set p vs m).
Proof.
  intros p vs m H. unfold m_set. destruct vs as [|v vs]; [apply mwf_del; exact H|].
  destruct (mwf_del p m H) as [H1 H2]. split; simpl.
  - constructor; [|exact H1]. intros Hin. apply mkeys_del in Hin. destruct Hin as [_ Hin]. congruence.
  - constructor; [discriminate | exact H2].
Qed.

Lemma mget_del : forall p m q, mget (m_del p m) q = if path_eq_dec q p then [] else mget m q.
Proof.
  induction m as [|[k vs] m IH]; intros q; simpl.
  - destruct (path_eq_dec q p); reflexivity.
  - rewrite (path_eqb_dec p k). destruct (path_eq_dec p k) as [E | E].
    + subst k. rewrite IH, (path_eqb_dec q p). destruct (path_eq_dec q p); reflexivity.
    + simpl. rewrite IH, (path_eqb_dec q k).
      destruct (path_eq_dec q k) as [E1 | E1]; [|reflexivity].
      destruct (path_eq_dec q p) as [E2 | E2]; [congruence | reflexivity].
Qed.

Lemma mget_set : forall p vs m q, mget (m_set p vs m) q = if path_eq_dec q p then vs else mget m q.
Proof.
  intros p vs m q. unfold m_set. destruct vs as [|v vs].
  - apply mget_del.
  - simpl. rewrite (path_eqb_dec q p), mget_del. destruct (path_eq_dec q p); reflexivity.
Qed.

Lemma mkeys_clear : forall v m q, In q (mkeys (s_clear v m)) -> In q (mkeys m).
Proof.
  induction m as [|[k vs] m IH]; intros q H; simpl in *; [exact H|].
  destruct (sv_remove v vs); simpl in H.
  - right. apply IH. exact H.
  - destruct H as [H | H]; [left; exact H | right; apply IH; exact H].
Qed.

Lemma mwf_clear : forall v m, mwf m -> mwf (s_clear v m).
Proof.
  intros v m [Hnd Hne]. induction m as [|[k vs] m IH]; simpl; [split; constructor|].
  simpl in Hnd. inversion Hnd as [|? ? Hni Hnd']; subst. inversion Hne as [|? ? H1 H2]; subst.
  destruct (IH Hnd' H2) as [IH1 IH2].
  destruct (sv_remove v vs) eqn:E; [split; assumption|].
  split; simpl.
  - constructor; [|exact IH1]. intros Hin. apply Hni. exact (mkeys_clear _ _ _ Hin).
  - constructor; [discriminate | exact IH2].
Qed.

Lemma mget_clear : forall v m q, NoDup (mkeys m) -> mget (s_clear v m) q = sv_remove v (mget m q).
Proof.
  induction m as [|[k vs] m IH]; intros q Hnd; simpl; [reflexivity|].
  simpl in Hnd. inversion Hnd as [|? ? Hni Hnd']; subst.
  rewrite (path_eqb_dec q k). destruct (sv_remove v vs) eqn:E; simpl.
  - destruct (path_eq_dec q k) as [E1 | E1]; [|apply IH; exact Hnd'].
    subst q. rewrite E. apply mget_notin. intros Hin. apply Hni. exact (mkeys_clear _ _ _ Hin).
  - rewrite (path_eqb_dec q k). destruct (path_eq_dec q k) as [E1 | E1]; [congruence | apply IH; exact Hnd'].
Qed.

(* the effect of one operation on the values of one topic *)
Definition effect (o : op) (q : path) (vs : list N) : list N :=
  match o with
  | OAdd s v => if path_eq_dec q (split_levels s) then sv_add v vs else vs
  | OSet s v => if path_eq_dec q (split_levels s) then [v] else vs
  | ORemove s v => if path_eq_dec q (split_levels s) then sv_remove v vs else vs
  | OEmpty s => if path_eq_dec q (split_levels s) then [] else vs
  | OClear v => sv_remove v vs
  | OReset => []
  end.

Lemma mget_apply : forall m o q, mwf m -> mget (apply_spec m o) q = effect o q (mget m q).
Proof.
  intros m o q [Hnd _]. destruct o as [s v | s v | s v | s | v |]; unfold apply_spec, effect.
  - unfold s_add. rewrite mget_set. destruct (path_eq_dec q (split_levels s)); [subst|]; reflexivity.
  - unfold s_set. rewrite mget_set. reflexivity.
  - unfold s_remove. rewrite mget_set. destruct (path_eq_dec q (split_levels s)); [subst|]; reflexivity.
  - unfold s_empty. rewrite mget_del. reflexivity.
  - apply mget_clear. exact Hnd.
  - reflexivity.
Qed.

Lemma mwf_apply : forall m o, mwf m -> mwf (apply_spec m o).
Proof.
  intros m o H. destruct o as [s v | s v | s v | s | v |]; simpl.
  - apply mwf_set. exact H.
  - apply mwf_set. exact H.
  - apply mwf_set. exact H.
  - apply mwf_del. exact H.
  - apply mwf_clear. exact H.
  - split; constructor.
Qed.

Lemma mwf_run_from : forall ops m, mwf m -> mwf (fold_left apply_spec ops m).
Proof.
  induction ops as [|o ops IH]; intros m H; simpl; [exact H|]. apply IH. apply mwf_apply. exact H.
Qed.

Lemma mwf_run : forall ops, mwf (run_spec ops).
Proof. intros ops. apply mwf_run_from. split; constructor. Qed.

(* ------------------------------------------------------------------ the boolean checker *)
Lemma remove_one_perm : forall v l r, remove_one v l = Some r -> Permutation l (v :: r).
Proof.
  induction l as [|x l IH]; intros r H; simpl in H; [discriminate|].
  destruct (N.eqb x v) eqn:E.
  - apply N.eqb_eq in E. inversion H; subst. reflexivity.
  - destruct (remove_one v l) as [r'|]; [|discriminate]. inversion H; subst.
    eapply perm_trans; [apply perm_skip; apply IH; reflexivity | apply perm_swap].
Qed.

Lemma remove_one_In : forall v l, In v l -> exists r, remove_one v l = Some r.
Proof.
  induction l as [|x l IH]; intros H; [destruct H|]. simpl.
  destruct (N.eqb x v) eqn:E; [eexists; reflexivity|].
  apply N.eqb_neq in E. destruct H as [H | H]; [congruence|].
  destruct (IH H) as [r Hr]. rewrite Hr. eexists; reflexivity.
Qed.

Lemma permb_iff : forall l1 l2, permb l1 l2 = true <-> Permutation l1 l2.
Proof.
  induction l1 as [|x l1 IH]; intros l2; simpl.
  - destruct l2; split; intros H.
    + constructor.
    + reflexivity.
    + discriminate.
    + apply Permutation_nil in H. discriminate.
  - split.
    + intros H. destruct (remove_one x l2) as [r|] eqn:E; [|discriminate].
      apply IH in H. apply remove_one_perm in E.
      eapply perm_trans; [apply perm_skip; exact H | apply Permutation_sym; exact E].
    + intros H. assert (Hin : In x l2) by (apply (Permutation_in _ H); left; reflexivity).
      destruct (remove_one_In x l2 Hin) as [r Hr]. rewrite Hr. apply IH.
      apply remove_one_perm in Hr. apply (Permutation_cons_inv (a := x)).
      eapply perm_trans; [exact H | exact Hr].
Qed.

Lemma first_okb_iff : forall o l, first_okb o l = true <-> first_ok o l.
Proof.
  intros [v|] l; simpl.
  - rewrite existsb_exists. split.
    + intros [x [Hin He]]. apply N.eqb_eq in He. subst. exact Hin.
    + intros H. exists v. split; [exact H | apply N.eqb_refl].
  - destruct l; split; try reflexivity; discriminate.
Qed.

Lemma answer_okb_iff : forall m q a, answer_okb m q a = true <-> answer_ok m q a.
Proof.
  intros m q a. destruct q, a; simpl; try (split; [discriminate | intros []]);
    try apply permb_iff; try apply first_okb_iff.
  rewrite N.eqb_eq. reflexivity.
Qed.

(* ------------------------------------------------------------------ commuting operations *)
Lemma sv_remove_In : forall v w vs, In w (sv_remove v vs) <-> In w vs /\ w <> v.
Proof.
  intros v w vs. unfold sv_remove. split.
  - intros H. apply in_remove in H. exact H.
  - intros [H1 H2]. apply in_in_remove; assumption.
Qed.

Lemma sv_remove_app : forall v l1 l2, sv_remove v (l1 ++ l2) = sv_remove v l1 ++ sv_remove v l2.
Proof. intros. unfold sv_remove. apply remove_app. Qed.

Lemma sv_remove_comm : forall v w vs, sv_remove v (sv_remove w vs) = sv_remove w (sv_remove v vs).
Proof.
  intros v w vs. unfold sv_remove. induction vs as [|x vs IH]; simpl; [reflexivity|].
  destruct (N.eq_dec w x) as [E1 | E1]; destruct (N.eq_dec v x) as [E2 | E2]; simpl;
    try rewrite E1; try rewrite E2; simpl;
    repeat (match goal with |- context [N.eq_dec ?a ?b] => destruct (N.eq_dec a b); try congruence end);
    try rewrite IH; try reflexivity; congruence.
Qed.

Lemma sv_remove_add : forall v w vs, v <> w -> sv_remove v (sv_add w vs) = sv_add w (sv_remove v vs).
Proof.
  intros v w vs Hne. unfold sv_add.
  destruct (in_dec N.eq_dec w vs) as [H1 | H1]; destruct (in_dec N.eq_dec w (sv_remove v vs)) as [H2 | H2].
  - reflexivity.
  - exfalso. apply H2. apply sv_remove_In. split; [exact H1 | congruence].
  - exfalso. apply H1. apply sv_remove_In in H2. exact (proj1 H2).
  - rewrite sv_remove_app. f_equal. unfold sv_remove. simpl.
    destruct (N.eq_dec v w); [congruence | reflexivity].
Qed.

Lemma sv_remove_single : forall v w, v <> w -> sv_remove v [w] = [w].
Proof. intros v w H. unfold sv_remove. simpl. destruct (N.eq_dec v w); [congruence | reflexivity]. Qed.

Lemma effect_commute : forall o1 o2 q vs, independent o1 o2 ->
  effect o2 q (effect o1 q vs) = effect o1 q (effect o2 q vs).
Proof.
  intros o1 o2 q vs H.
  destruct o1 as [s1 v1 | s1 v1 | s1 v1 | s1 | v1 |]; destruct o2 as [s2 v2 | s2 v2 | s2 v2 | s2 | v2 |];
    simpl in H; try contradiction; simpl;
    try (assert (Hs : split_levels s1 <> split_levels s2) by (intros E; apply H; apply split_levels_inj; exact E);
         destruct (path_eq_dec q (split_levels s1)) as [E1 | E1]; destruct (path_eq_dec q (split_levels s2)) as [E2 | E2];
         try reflexivity; congruence).
  all: try destruct (path_eq_dec q _);
    first [ reflexivity | apply sv_remove_comm
          | apply sv_remove_add; congruence | symmetry; apply sv_remove_add; congruence
          | apply sv_remove_single; congruence | symmetry; apply sv_remove_single; congruence ].
Qed.

(* independent operations commute on the specification: same contents in either order *)
Lemma spec_commute : forall m o1 o2, mwf m -> independent o1 o2 ->
  map_equiv (apply_spec (apply_spec m o1) o2) (apply_spec (apply_spec m o2) o1).
Proof.
  intros m o1 o2 Hm Hi p.
  rewrite !mget_apply by (try apply mwf_apply; exact Hm).
  apply effect_commute. exact Hi.
Qed.

(* equivalent maps stay equivalent *)
Lemma apply_spec_equiv : forall m1 m2 o, mwf m1 -> mwf m2 -> map_equiv m1 m2 ->
  map_equiv (apply_spec m1 o) (apply_spec m2 o).
Proof.
  intros m1 m2 o H1 H2 He p. rewrite !mget_apply by assumption. rewrite (He p). reflexivity.
Qed.

(* ------------------------------------------------------------------ interleavings *)
Definition run_from (m : tmap) (ops : list op) : tmap := fold_left apply_spec ops m.

Inductive interleave : list op -> list op -> list op -> Prop :=
| il_nil : interleave [] [] []
| il_left : forall x l1 l2 l, interleave l1 l2 l -> interleave (x :: l1) l2 (x :: l)
| il_right : forall y l1 l2 l, interleave l1 l2 l -> interleave l1 (y :: l2) (y :: l).

Lemma run_from_equiv : forall ops m1 m2, mwf m1 -> mwf m2 -> map_equiv m1 m2 ->
  map_equiv (run_from m1 ops) (run_from m2 ops).
Proof.
  induction ops as [|o ops IH]; intros m1 m2 H1 H2 He; simpl; [exact He|].
  apply IH; [apply mwf_apply; exact H1 | apply mwf_apply; exact H2 | apply apply_spec_equiv; assumption].
Qed.

Lemma run_from_app : forall l1 l2 m, run_from m (l1 ++ l2) = run_from (run_from m l1) l2.
Proof. intros l1 l2 m. unfold run_from. apply fold_left_app. Qed.

Lemma map_equiv_trans : forall m1 m2 m3, map_equiv m1 m2 -> map_equiv m2 m3 -> map_equiv m1 m3.
Proof. intros m1 m2 m3 H1 H2 p. rewrite (H1 p). apply H2. Qed.

(* an operation independent of a whole sequence may be moved behind it *)
Lemma move_behind : forall l1 y m, mwf m -> (forall x, In x l1 -> independent x y) ->
  map_equiv (run_from m (y :: l1)) (run_from m (l1 ++ [y])).
Proof.
  induction l1 as [|x l1 IH]; intros y m Hm Hi; [intros p; reflexivity|].
  simpl app. change (run_from m (y :: x :: l1)) with (run_from (apply_spec (apply_spec m y) x) l1).
  change (run_from m (x :: l1 ++ [y])) with (run_from (apply_spec m x) (l1 ++ [y])).
  eapply map_equiv_trans.
  - apply (run_from_equiv l1 _ (apply_spec (apply_spec m x) y)); try (apply mwf_apply; apply mwf_apply; exact Hm).
    intros p. symmetry. apply (spec_commute m x y Hm). apply Hi. left. reflexivity.
  - change (run_from (apply_spec (apply_spec m x) y) l1) with (run_from (apply_spec m x) (y :: l1)).
    apply IH; [apply mwf_apply; exact Hm|]. intros x' Hx'. apply Hi. right. exact Hx'.
Qed.

(* two sequences whose operations are pairwise independent: every interleaving leaves the same
   map as running one after the other *)
Lemma interleave_equiv : forall l1 l2 l, interleave l1 l2 l ->
  (forall x y, In x l1 -> In y l2 -> independent x y) ->
  forall m, mwf m -> map_equiv (run_from m l) (run_from m (l1 ++ l2)).
Proof.
  intros l1 l2 l H. induction H as [|x l1 l2 l H IH | y l1 l2 l H IH]; intros Hi m Hm.
  - intros p. reflexivity.
  - simpl. apply IH; [|apply mwf_apply; exact Hm]. intros a b' Ha Hb. apply Hi; [right; exact Ha | exact Hb].
  - change (run_from m (y :: l)) with (run_from (apply_spec m y) l).
    eapply map_equiv_trans; [apply IH; [|apply mwf_apply; exact Hm]|].
    + intros a b' Ha Hb. apply Hi; [exact Ha | right; exact Hb].
    + change (run_from (apply_spec m y) (l1 ++ l2)) with (run_from m ((y :: l1) ++ l2)).
      replace (l1 ++ y :: l2) with ((l1 ++ [y]) ++ l2) by (rewrite <- app_assoc; reflexivity).
      rewrite (run_from_app (y :: l1) l2 m), (run_from_app (l1 ++ [y]) l2 m). apply run_from_equiv.
      * apply (mwf_run_from (y :: l1)). exact Hm.
      * apply (mwf_run_from (l1 ++ [y])). exact Hm.
      * apply move_behind; [exact Hm|]. intros x Hx. apply Hi; [exact Hx | left; reflexivity].
Qed.
