(* TreeLin.v — the linearizability checker of Base/Lin.v instantiated with the map
   specification of topic.Tree (TreeSpec.v): every exported method is one operation
   of the sequential specification; observed results are value lists, compared up to
   order (Go's map iteration and the swap-delete make the order unspecified); Count
   is observed as a one-element list, the First variants as zero or one element. *)
From Coq Require Import List Bool NArith.
From Coq.Strings Require Import Byte.
From GM Require Import Base.Lin Topic.MatchSpec Topic.Trie Topic.TreeSpec.
Import ListNotations.
Open Scope N_scope.

Inductive lop :=
| LUpd (o : op)                 (* Add Set Remove Empty Clear Reset: the observed result is [] *)
| LGet (topic : list byte)
| LMatch (topic : list byte)
| LSearch (topic : list byte)
| LMatchFirst (topic : list byte)
| LSearchFirst (topic : list byte)
| LAll
| LCount.

(* what the specification expects: a set of values, or for the First variants the set to choose from *)
Definition lstep (m : tmap) (o : lop) : tmap * (lop * list N) :=
  match o with
  | LUpd u => (apply_spec m u, (o, []))
  | LGet s => (m, (o, s_get m (split_levels s)))
  | LMatch s | LMatchFirst s => (m, (o, s_match m (split_levels s)))
  | LSearch s | LSearchFirst s => (m, (o, s_search m (split_levels s)))
  | LAll => (m, (o, s_all m))
  | LCount => (m, (o, [s_count m]))
  end.

Definition lagree (expected observed : lop * list N) : bool :=
  match fst expected with
  | LMatchFirst _ | LSearchFirst _ =>
      match snd observed with
      | [] => match snd expected with [] => true | _ :: _ => false end
      | [v] => existsb (N.eqb v) (snd expected)
      | _ => false
      end
  | _ => permb (snd observed) (snd expected)
  end.

Definition tevent := event lop (lop * list N).
Definition mk_event (o : lop) (observed : list N) (call ret : N) : tevent := Ev o (o, observed) call ret.

Definition tree_lin_verdict (h : list tevent) (fuel : N) : outcome := lin_verdict _ _ _ lstep lagree [] h fuel.
Definition tree_lin_check (h : list tevent) (fuel : N) : bool := lin_check _ _ _ lstep lagree [] h fuel.
Definition tree_linearizable (h : list tevent) : Prop := linearizable_from _ _ _ lstep lagree [] h.
