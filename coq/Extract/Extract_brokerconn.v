(* Extraction of the broker-connection monitor and its trace specifications. *)
From Coq Require Import ExtrOcamlBasic List NArith.
From Coq.Strings Require Import Byte.
From GM Require Import Codec.Packet Session.Ids Session.Store Broker.Conn Broker.ConnSpec Broker.ConnSpec2 Broker.ConnSpec3 Broker.ConnSpec5 Broker.ConnSpec6 Broker.ConnProofsCDefs Broker.EndToEnd Broker.ConnSpec7 Broker.WillE2E.
Extraction Language OCaml.
Separate Extraction
  Byte.to_N Byte.of_N N.of_nat N.to_nat Datatypes.length
  Packet.packet_eqb Packet.get_id Packet.type_code Packet.type_of_code Packet.ptype_of
  Conn.step Conn.bc_init Conn.bc_run
  ConnSpec.c20_gate ConnSpec.c20_single_connack ConnSpec.c20_responses
  ConnSpec.c07_pubrec_after_store ConnSpec.c07_no_publish_after_release ConnSpec.c07_single_ack
  ConnSpec.c07_pubrel_answered ConnSpec.prompt_acks
  ConnSpec.c08_store_before_send ConnSpec.c08_kept_until_acked ConnSpec.c08_resend ConnSpec.c08_no_second_new
  ConnSpec.c16_bound ConnSpec.c12_will
  ConnSpec2.c15_in_order ConnSpec2.c15_release_intact ConnSpec2.c15_resend_order ConnSpec2.c15_dequeue_order ConnSpec5.c14_lifecycle2 ConnSpec5.c06_forward_intact ConnSpec5.c15_resend_first
  ConnSpec3.c08_popped_is_saved ConnSpec3.c08_pubrel_after_store ConnSpec3.c20_tokens
  ConnProofsCDefs.c16_slots_not_lost2
  ConnProofsCDefs.c16_resume_fits ConnProofsCDefs.c16_window_const
  ConnSpec6.c07_release_in_ack ConnSpec6.c20_acted_on ConnSpec6.c20_closes ConnSpec6.c16_quiescent_dequeuing
  ConnSpec6.c08_deqack_after_store ConnSpec6.c08_store_replica
  EndToEnd.forward_link EndToEnd.arrival_link
  ConnSpec7.c08_ledger WillE2E.will_link.
