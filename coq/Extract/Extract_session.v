(* Extract.v — extraction of the executable models for the correspondence
   checks.  ExtrOcamlBasic only; N, positive, Z, nat, byte stay the extracted
   inductive types.  No Extract Constant / Extract Inductive of our own. *)
From Coq Require Import ExtrOcamlBasic List NArith.
From Coq.Strings Require Import Byte.
From GM Require Import Codec.Packet Session.Ids Session.Store.
Extraction Language OCaml.
Separate Extraction
  Datatypes.length
  Byte.to_N Byte.of_N N.of_nat N.to_nat
  Packet.packet_eqb Packet.get_id Packet.type_code Packet.type_of_code Packet.ptype_of
  Ids.next_id Ids.nth_id Ids.take_ids
  Store.sess_run Store.session_new.
