(* Extract_misc.v — extraction of the executable models of coq/Misc for the
   correspondence check X_misc.  ExtrOcamlBasic only; N, positive, Z, nat, byte
   stay the extracted inductive types.  No Extract Constant / Extract Inductive. *)
From Coq Require Import ExtrOcamlBasic List NArith ZArith.
From Coq.Strings Require Import Byte.
From GM Require Import Codec.Packet Misc.KeepAlive.
Extraction Language OCaml.
Separate Extraction
  Datatypes.length
  Byte.to_N Byte.of_N N.of_nat N.to_nat
  Packet.packet_eqb Packet.get_id Packet.type_code Packet.type_of_code Packet.ptype_of
  KeepAlive.connect_settings KeepAlive.eff_count KeepAlive.one_and_a_half KeepAlive.eff_keep_alive.
