(* Extract_misc.v — extraction of the executable models of coq/Misc for the
   correspondence check X_misc.  ExtrOcamlBasic only; N, positive, Z, nat, byte
   stay the extracted inductive types.  No Extract Constant / Extract Inductive. *)
From Coq Require Import ExtrOcamlBasic List NArith ZArith.
From Coq.Strings Require Import Byte.
From GM Require Import Codec.Packet Misc.KeepAlive Misc.Engine Misc.Dispatch Misc.PktMisc.
Extraction Language OCaml.
Separate Extraction
  Datatypes.length
  Byte.to_N Byte.of_N N.of_nat N.to_nat
  Packet.packet_eqb Packet.get_id Packet.type_code Packet.type_of_code Packet.ptype_of
  KeepAlive.connect_settings KeepAlive.eff_count KeepAlive.one_and_a_half KeepAlive.eff_keep_alive
  Engine.erun Engine.eaccepted Engine.e_init Engine.engine_clauses
  Dispatch.dial_outcome Dispatch.launch_outcome Dispatch.reaches Dispatch.server_shape Dispatch.default_port
  Dispatch.no_ports Dispatch.all_carriers
  PktMisc.qos_successful PktMisc.id_valid PktMisc.connack_valid PktMisc.connack_string PktMisc.type_valid PktMisc.type_string
  PktMisc.message_copy PktMisc.message_string Packet.message_eqb.
