(* Extract_backend.v — extraction of the MemoryBackend model and of the boolean
   specification clauses of C06 / C11 / C13 for ocaml/drv_backend.ml.
   ExtrOcamlBasic only. *)
From Coq Require Import ExtrOcamlBasic List NArith.
From Coq.Strings Require Import Byte.
From GM Require Import Codec.Packet Topic.MatchSpec Broker.Backend Broker.BackendSpec Broker.BackendC13 Broker.BackendC08 Broker.BackendLog Broker.BackendFrame.
Extraction Language OCaml.
Separate Extraction
  Datatypes.length
  Byte.to_N Byte.of_N N.of_nat N.to_nat
  Packet.packet_eqb Packet.get_id Packet.type_code Packet.type_of_code Packet.ptype_of
  Packet.message_eqb Packet.bytes_eqb
  MatchSpec.topic_matches
  Backend.init Backend.step Backend.session_of Backend.get_session Backend.search_retained
  Backend.queue_of Backend.pick_sub Backend.skey_eqb Backend.classify
  BackendSpec.targets_ok BackendSpec.live_copy_ok BackendSpec.qos_ok BackendSpec.resub_ok BackendSpec.unsub_ok
  BackendSpec.retained_ok BackendSpec.retained_wf BackendSpec.replay_ok BackendSpec.sessions BackendSpec.refused_ok BackendSpec.closing_accepted_ok
  BackendC13.unique_ok BackendC13.handover_ok BackendC13.resume_clean_ok
  BackendC08.offline_queue_ok BackendC08.session_present_ok
  BackendLog.delivery_ok BackendFrame.frame_ok.
