(* Extract_topic.v — extraction of the topic tree model, the map specification and
   the reference matching relation for modelrun_topic.  ExtrOcamlBasic only. *)
From Coq Require Import ExtrOcamlBasic List NArith.
From Coq.Strings Require Import Byte.
From GM Require Import Codec.Packet Base.Lin Topic.MatchSpec Topic.Levels Topic.Trie Topic.TreeSpec Topic.TreeLin Topic.Parse.
Extraction Language OCaml.
Separate Extraction
  Datatypes.length
  Byte.to_N Byte.of_N N.of_nat N.to_nat
  Packet.packet_eqb Packet.get_id Packet.type_code Packet.type_of_code Packet.ptype_of
  MatchSpec.matches MatchSpec.split_levels MatchSpec.topic_matches MatchSpec.valid_filter
  MatchSpec.wildcard_free MatchSpec.no_nul
  Levels.walk Levels.segment Levels.shorten Levels.join
  Trie.New Trie.apply_trie Trie.run_trie Trie.answer_trie Trie.SearchFirsts Trie.Shape Trie.abs Trie.prunedb
  Trie.Add Trie.Set_ Trie.Get Trie.Match Trie.MatchFirst Trie.Search Trie.SearchFirst Trie.All Trie.Count
  TreeSpec.apply_spec TreeSpec.run_spec TreeSpec.answer_okb TreeSpec.query_ok TreeSpec.op_ok
  TreeSpec.s_get TreeSpec.s_match TreeSpec.s_search TreeSpec.s_all TreeSpec.s_count TreeSpec.s_shape TreeSpec.permb TreeSpec.first_okb
  TreeLin.tree_lin_verdict TreeLin.tree_lin_check TreeLin.mk_event
  Parse.parse Parse.parse_spec Parse.contains_wildcards Parse.normal_form Parse.presult_eqb Parse.norm.
