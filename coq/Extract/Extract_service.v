(* Extract_service.v — extraction of the service monitor (SV) and of the C17 predicates.
   ExtrOcamlBasic only; no Extract Constant / Extract Inductive of our own. *)
From Coq Require Import ExtrOcamlBasic List NArith.
From Coq.Strings Require Import Byte.
From GM Require Import Codec.Packet Client.Service Client.ServiceSpec.
Extraction Language OCaml.
Separate Extraction
  Datatypes.length
  Byte.to_N Byte.of_N N.of_nat N.to_nat
  Packet.packet_eqb Packet.get_id Packet.type_code Packet.type_of_code Packet.ptype_of
  Service.step Service.init Service.fut_get Service.resub_list Service.body_eqb Service.kind_of
  Service.cap Service.started Service.dying Service.kill Service.protected Service.sp Service.ap
  Service.subs Service.queue Service.store Service.futs Service.nextn Service.issued Service.itags
  Service.dispatched Service.dtags Service.drained Service.resubs Service.ready Service.gen
  ServiceSpec.spec_resub ServiceSpec.resub_ok ServiceSpec.subseq_b ServiceSpec.fifo_ok
  ServiceSpec.scan ServiceSpec.is_sup_event ServiceSpec.life_step ServiceSpec.life_ok ServiceSpec.gate_step ServiceSpec.gate_ok.
