(* Extract_codecdec.v — extraction of the decoder model and the reference decoder (C02).
   ExtrOcamlBasic only; no Extract Constant / Extract Inductive of our own. *)
From Coq Require Import ExtrOcamlBasic List NArith ZArith.
From Coq.Strings Require Import Byte.
From GM Require Import Codec.Packet Codec.WF Codec.Dec Codec.RefDecode Codec.ReadSpec Codec.DetectEquiv.
From GM Require Stream.Stream.
Extraction Language OCaml.
Separate Extraction
  Datatypes.length
  Byte.to_N Byte.of_N N.of_nat N.to_nat
  Packet.packet_eqb Packet.get_id Packet.type_code Packet.type_of_code Packet.ptype_of
  Dec.decode_go Dec.detect_go Dec.decode_header Dec.read_varint Dec.read_lp_bytes Dec.read_uint
  RefDecode.ref_decode RefDecode.extent
  ReadSpec.read_spec DetectEquiv.abs_det Stream.detect_impl WF.wf.
