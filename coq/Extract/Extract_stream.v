(* Extract_stream.v — extraction of the stream / transport models (C03, C19).
   ExtrOcamlBasic only; no Extract Constant / Extract Inductive of our own. *)
From Coq Require Import ExtrOcamlBasic List NArith.
From Coq.Strings Require Import Byte.
From GM Require Import Codec.Packet Stream.Stream Stream.EncStream Stream.WsStream Transport.BaseConn.
Extraction Language OCaml.
Separate Extraction
  Datatypes.length
  Byte.to_N Byte.of_N N.of_nat N.to_nat
  Packet.packet_eqb Packet.get_id Packet.type_code Packet.type_of_code Packet.ptype_of
  Stream.detect_impl Stream.dec_read Stream.dec_all Stream.dec_out Stream.pulled Stream.len
  EncStream.einit EncStream.enc_step EncStream.enc_run EncStream.wire_bytes
  WsStream.ws_init WsStream.ws_read WsStream.ws_read_all
  BaseConn.cinit BaseConn.cn_step BaseConn.cn_run BaseConn.cn_wire BaseConn.log_bytes.
