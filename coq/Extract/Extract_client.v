(* Extract_client.v — extraction of the CL monitor (Client/Client.v, Client/Future.v)
   for the trace conformance check of C09 / C10.  ExtrOcamlBasic only. *)
From Coq Require Import ExtrOcamlBasic List NArith.
From Coq.Strings Require Import Byte.
From GM Require Import Codec.Packet Session.Ids Session.Store Client.Future Client.Client Client.TraceScan Client.Tracker Client.ClientLedger.
Extraction Language OCaml.
Separate Extraction
  Datatypes.length
  Byte.to_N Byte.of_N N.of_nat N.to_nat
  Packet.packet_eqb Packet.get_id Packet.type_code Packet.type_of_code Packet.ptype_of
  Client.step Client.init Client.owed_unanswered Client.delivered_twice Client.quiescent
  Client.pending_futures Client.ended Client.store_before_send_ok Client.truthful_ok Client.fut_truthful
  Future.session_present Future.return_code Future.return_codes
  TraceScan.scan_sbs TraceScan.scan_pubrec TraceScan.unresolved
  TraceScan.hs_step TraceScan.scan_hs TraceScan.hs_twice TraceScan.ack_step TraceScan.scan_ack TraceScan.scan_noack TraceScan.order_step TraceScan.scan_order TraceScan.resend_step TraceScan.scan_resend
  TraceScan.close_step TraceScan.scan_close TraceScan.error_closes_ok TraceScan.rel_step TraceScan.rel_ok TraceScan.scan_rel TraceScan.kept_step TraceScan.scan_kept
  ClientLedger.ledger_step ClientLedger.lscan0 ClientLedger.lscan_step ClientLedger.scan_ledger
  Tracker.tk_new Tracker.tk_reset Tracker.tk_window Tracker.tk_ping Tracker.tk_pong Tracker.tk_pending Tracker.pinger_decide.
