(* Extract_codecenc.v — extraction of the encoder model, the wire specification and
   wf for the C01 correspondence check.  ExtrOcamlBasic only. *)
From Coq Require Import ExtrOcamlBasic List NArith.
From Coq.Strings Require Import Byte.
From GM Require Import Codec.Packet Codec.WF Codec.Enc Codec.WireSpec Codec.EncJudge.
Extraction Language OCaml.
Separate Extraction
  Datatypes.length
  Byte.to_N Byte.of_N N.of_nat N.to_nat
  Packet.packet_eqb Packet.get_id Packet.type_code Packet.type_of_code Packet.ptype_of
  Packet.default_flags
  WF.wf WF.total_len WF.body_len WF.varint_len
  Enc.len_go Enc.encode_go Enc.encode_into Enc.encoder_write Enc.observe Enc.zeros
  Enc.varint_len_go Enc.header_len_go Enc.write_varint Enc.encode_header Enc.write_lp_bytes
  Enc.write_u8 Enc.write_u16 Enc.finish
  WireSpec.wire_spec WireSpec.remaining_length
  EncJudge.j_len_is_written EncJudge.j_len_spec EncJudge.j_encode_total EncJudge.j_layout EncJudge.j_dirty
  EncJudge.j_short EncJudge.j_wire_exact EncJudge.j_roundtrip EncJudge.j_stream EncJudge.j_header EncJudge.all_judges.
