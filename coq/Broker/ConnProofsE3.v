(* ConnProofsE3.v — c20_closes and c08_deqack_after_store (ConnSpec6.v) hold of every
   trace the broker-connection model accepts. *)
From Coq Require Import List NArith Bool Lia.
From GM Require Import Base.Lts Codec.Packet Session.Ids Session.Store Session.StoreProofs
  Broker.Conn Broker.ConnSpec Broker.ConnSpec6 Broker.ConnBase
  Broker.ConnProofsB1 Broker.ConnProofsB2 Broker.ConnProofsB3 Broker.ConnProofsB4.
Import ListNotations.
Open Scope N_scope.

(* ============================================================== c20_closes == *)

(* closed = false: nobody has closed the transport of the current connection, so no
   coroutine can have stopped;  denied and not sent: the processor is about to send the
   CONNACK(not authorised);  and the processor is done once cleanup has begun *)
Definition cl_rel (s : bc) (t : cl_st) : Prop :=
  (cl_closed t = false -> dying s = false /\ pp s <> PDone /\ lp s = LNone) /\
  (cl_denied t = true -> cl_sent t = false -> pp s = PDeny) /\
  (lp s <> LNone -> lp s <> LEnd -> pp s = PDone).

Lemma cl_proc_facts s e s' : step_proc s e = Some s' ->
  lp s' = lp s /\ pp s <> PDone /\
  ((exists g, e = EConnClose g) \/ (dying s' = dying s /\ pp s' <> PDone)) /\
  (pp s = PDeny -> exists g a ok, e = ETx g (Connack false 5) a ok) /\
  (pp s' = PDeny -> exists g, e = EAuth g ADeny) /\
  e <> ENewConn /\ e <> EClosed.
Proof.
  intros H. unfold step_proc, proc_dispatch, die_p, guard, take_pub, take_sub, clo_reg, take_deq_if_any, take_deq in H.
  destruct (pp s) eqn:Epp; destruct e; try discriminate H; bm H; inv_some H; sf;
    (split; [reflexivity|]); (split; [discriminate|]);
    (split; [first [left; eexists; reflexivity | right; split; [reflexivity|discriminate]
                    | right; split; [destruct fresh; reflexivity|discriminate]]|]);
    (split; [first [discriminate | intros _; do 3 eexists; reflexivity]|]);
    (split; [first [discriminate | intros _; eexists; reflexivity]|]);
    split; discriminate.
Qed.

Lemma cl_deq_facts s e s' : step_deq s e = Some s' ->
  pp s' = pp s /\ lp s' = lp s /\ ((exists g, e = EConnClose g) \/ dying s' = dying s) /\
  (forall g, e <> EAuth g ADeny) /\ e <> ENewConn /\ e <> EClosed.
Proof.
  intros H. unfold step_deq, take_deq, guard in H.
  destruct (dp s) eqn:Edp; destruct e; try discriminate H; bm H; inv_some H; sf;
    (split; [reflexivity|]); (split; [reflexivity|]);
    (split; [first [left; eexists; reflexivity | right; reflexivity
                    | right; repeat match goal with |- context [match ?b with _ => _ end] => destruct b end; reflexivity]|]);
    (split; [intros g0; discriminate|]); split; discriminate.
Qed.

Lemma cl_ack_facts s e s' : step_ack s e = Some s' ->
  pp s' = pp s /\ lp s' = lp s /\ ((exists g, e = EConnClose g) \/ dying s' = dying s) /\
  (forall g, e <> EAuth g ADeny) /\ e <> ENewConn /\ e <> EClosed.
Proof.
  intros H. unfold step_ack in H.
  destruct (ap s) eqn:Eap; destruct e; try discriminate H; bm H; inv_some H; unfold ack_token_back;
    try match goal with |- context [match ?p with Connect _ => _ | _ => _ end] => destruct p end; sf;
    (split; [reflexivity|]); (split; [reflexivity|]);
    (split; [first [left; eexists; reflexivity | right; reflexivity]|]);
    (split; [intros g0; discriminate|]); split; discriminate.
Qed.

Lemma cl_cleanup_facts s e s' : step_cleanup s e = Some s' ->
  dying s' = dying s /\ lp s <> LEnd /\ lp s' <> LNone /\
  ((lp s = LNone /\ all_stopped s = true /\ pp s' = PDone) \/ (lp s <> LNone /\ pp s' = pp s)) /\
  (forall g, e <> EAuth g ADeny) /\ (forall g, e <> EConnClose g) /\ e <> ENewConn.
Proof.
  intros H. unfold step_cleanup, guard in H.
  destruct (lp s) eqn:Elp; destruct e; try discriminate H; bm H; inv_some H; sf;
    repeat match goal with Hx : _ && _ = true |- _ => apply andb_true_iff in Hx; destruct Hx as [Hx ?] end;
    (split; [reflexivity|]); (split; [discriminate|]); (split; [discriminate|]);
    (split; [first [left; repeat split; first [reflexivity|assumption] | right; split; [discriminate|reflexivity]]|]);
    (split; [intros g0; discriminate|]); (split; [intros g0; discriminate|discriminate]).
Qed.

Lemma cl_clo_facts s e s' : step_clo s e = Some s' ->
  pp s' = pp s /\ lp s' = lp s /\ ((exists g, e = EConnClose g) \/ dying s' = dying s) /\
  (forall g, e <> EAuth g ADeny) /\ e <> ENewConn /\ e <> EClosed.
Proof.
  intros H. apply step_clo_cases in H.
  destruct H as [k g c id -> Hf Hs Hi Hk -> | k g c -> Hf Hs Hi Hk -> | k g c -> Hf Hs Hi -> | g id c -> Hf ->
                | g id c -> Hf -> | g c -> Hin Hs -> | g c -> Hin Hs -> | k g c -> Hf Hs -> | k g c -> Hf Hs Hi ->];
    unfold clo_enqueue; repeat match goal with |- context [if ?b then _ else _] => destruct b end; sf;
    (split; [reflexivity|]); (split; [reflexivity|]);
    (split; [first [left; eexists; reflexivity | right; reflexivity]|]);
    (split; [intros g0; discriminate|]); split; discriminate.
Qed.

Lemma proc_cannot_stop s : dying s = false -> pp s <> PDone -> proc_can_stop s = false.
Proof. unfold proc_can_stop. intros Hd Hp. destruct (pp s); try reflexivity; try exact Hd. contradiction Hp; reflexivity. Qed.

Lemma all_stopped_proc s : all_stopped s = true -> proc_can_stop s = true.
Proof. unfold all_stopped. intros H. apply andb_true_iff in H as [H _]. apply andb_true_iff in H as [H _]. exact H. Qed.

(* the effect of an event that is neither ENewConn nor EClosed on the scanner *)
Lemma cl_step_other t e : e <> ENewConn -> e <> EClosed ->
  exists t', cl_step t e = Some t' /\
    (cl_closed t' = false -> cl_closed t = false /\ forall g, e <> EConnClose g) /\
    (cl_denied t' = true -> cl_sent t' = false ->
       cl_sent t = false /\ (forall g a ok, e <> ETx g (Connack false 5) a ok) /\
       (cl_denied t = true \/ exists g, e = EAuth g ADeny)).
Proof.
  intros N1 N2. destruct e; try (contradiction N1; reflexivity); try (contradiction N2; reflexivity); cbn [cl_step].
  all: try (exists t; split; [reflexivity|]; split;
            [intros Hc; split; [exact Hc|intros g0; discriminate]
            |intros Hd Hs; split; [exact Hs|split; [intros g0 a0 ok0; discriminate|left; exact Hd]]]).
  - (* ETx *)
    destruct (packet_eqb p (Connack false 5)) eqn:Ep.
    + apply packet_eqb_eq in Ep. subst p.
      eexists; split; [reflexivity|]; cbn [cl_closed cl_denied cl_sent]. split;
        [intros Hc; split; [exact Hc|intros g0; discriminate]|intros _ Hs; discriminate Hs].
    + assert (Ht : cl_step t (ETx g p async ok) = Some t).
      { destruct p as [c|sp code|d m i|i|i|i|i|i su|i cs|i ts|i| | |]; try reflexivity.
        destruct sp; [reflexivity|]. cbn [cl_step].
        destruct code as [|q]; [reflexivity|].
        destruct q as [q|q|]; try reflexivity. destruct q as [q|q|]; try reflexivity.
        destruct q as [q|q|]; try reflexivity. cbn in Ep. discriminate Ep. }
      exists t. split; [exact Ht|]. split; [intros Hc; split; [exact Hc|intros g0; discriminate]|].
      intros Hd Hs; split; [exact Hs|split; [|left; exact Hd]].
      intros g0 a0 ok0 E. injection E as _ E _ _. subst p. cbn in Ep. discriminate Ep.
  - (* EConnClose *)
    eexists; split; [reflexivity|]; cbn [cl_closed cl_denied cl_sent]. split; [intros Hc; discriminate Hc|].
    intros Hd Hs; split; [exact Hs|split; [intros g0 a0 ok0; discriminate|left; exact Hd]].
  - (* EAuth *)
    destruct r; try (exists t; split; [reflexivity|]; split;
            [intros Hc; split; [exact Hc|intros g0; discriminate]
            |intros Hd Hs; split; [exact Hs|split; [intros g0 a0 ok0; discriminate|left; exact Hd]]]).
    eexists; split; [reflexivity|]; cbn [cl_closed cl_denied cl_sent]. split;
      [intros Hc; split; [exact Hc|intros g0; discriminate]|].
    intros _ Hs; split; [exact Hs|split; [intros g0 a0 ok0; discriminate|right; eexists; reflexivity]].
Qed.

Lemma cl_rel_roles s t p d a c : cl_rel s t -> cl_rel (set_roles s p d a c) t.
Proof. exact (fun H => H). Qed.

Lemma cl_hstep s t e s' : cl_rel s t -> step s e = Some s' -> exists t', cl_step t e = Some t' /\ cl_rel s' t'.
Proof.
  intros (R1 & R2 & R3) H. apply step_cases in H.
  destruct H as [-> _ -> | -> _ -> | -> _ -> | H | -> H
                | g s1 _ Hev _ _ Hv H | g s1 _ Hev _ _ Rp Hv H | g s1 _ Hev _ _ Rp _ Hv H | g s1 _ Hev _ _ Rp _ _ Hv H
                | g -> _ _ _ Hf ->].
  - (* ENewConn *)
    eexists; split; [reflexivity|]. unfold cl_rel; sf; cbn [cl_closed cl_denied cl_sent].
    split; [intros _; repeat split; discriminate|]. split; [intros Hd; discriminate Hd|intros Hn; contradiction Hn; reflexivity].
  - exists t. split; [reflexivity|]. split; [exact R1|split; [exact R2|exact R3]].
  - exists t. split; [reflexivity|]. split; [exact R1|split; [exact R2|exact R3]].
  - (* closure *)
    destruct (cl_clo_facts _ _ _ H) as (Hp & Hl & Hd & Ha & N1 & N2).
    destruct (cl_step_other t e N1 N2) as (t' & Ht & C1 & C2). exists t'. split; [exact Ht|].
    unfold cl_rel. rewrite Hp, Hl. split; [|split; [|exact R3]].
    + intros Hc. destruct (C1 Hc) as [Hc0 Hne]. destruct Hd as [(g0 & ->)|Hd]; [exfalso; eapply Hne; reflexivity|].
      rewrite Hd. apply R1, Hc0.
    + intros Hdn Hs. destruct (C2 Hdn Hs) as (Hs0 & _ & [Hd0|(g0 & ->)]); [apply R2; assumption|exfalso; eapply Ha; reflexivity].
  - (* EClosed *)
    assert (Hok : cl_closed t = true /\ (cl_denied t = true -> cl_sent t = true)).
    { unfold step_cleanup, guard in H. destruct (lp s) eqn:El; try discriminate H.
      - destruct (all_stopped s && negb (phase_geq_connected (ph s))) eqn:Ea; [|discriminate H].
        apply andb_true_iff in Ea as [Ea _]. apply all_stopped_proc in Ea. split.
        + destruct (cl_closed t) eqn:Ec; [reflexivity|]. destruct (R1 eq_refl) as (Hd & Hp & _).
          rewrite (proc_cannot_stop _ Hd Hp) in Ea. discriminate Ea.
        + intros Hd. destruct (cl_sent t) eqn:Es; [reflexivity|]. unfold proc_can_stop in Ea. rewrite (R2 Hd eq_refl) in Ea. discriminate Ea.
      - split.
        + destruct (cl_closed t) eqn:Ec; [reflexivity|]. destruct (R1 eq_refl) as (_ & _ & Hl). discriminate Hl.
        + intros Hd. destruct (cl_sent t) eqn:Es; [reflexivity|]. pose proof (R2 Hd eq_refl) as Hp.
          rewrite R3 in Hp by discriminate. discriminate Hp. }
    destruct Hok as [Hc Hs]. exists t. split.
    + cbn [cl_step]. rewrite Hc. destruct (cl_denied t); [rewrite (Hs eq_refl)|]; reflexivity.
    + destruct (cl_cleanup_facts _ _ _ H) as (Hd & Hl & Hl' & Hcase & _).
      split; [intros Hx; rewrite Hc in Hx; discriminate Hx|]. split.
      * intros Hdn Hsn. rewrite (Hs Hdn) in Hsn. discriminate Hsn.
      * intros _ _. destruct Hcase as [(_ & _ & Hp)|(Hn & Hp)]; [exact Hp|]. rewrite Hp. apply R3; assumption.
  - (* processor *)
    assert (R1' : cl_closed t = false -> dying s1 = false /\ pp s1 <> PDone /\ lp s1 = LNone)
      by (destruct Hv as [[-> _]|(_ & _ & -> & _)]; exact R1).
    assert (R2' : cl_denied t = true -> cl_sent t = false -> pp s1 = PDeny)
      by (destruct Hv as [[-> _]|(_ & _ & -> & _)]; exact R2).
    assert (R3' : lp s1 <> LNone -> lp s1 <> LEnd -> pp s1 = PDone)
      by (destruct Hv as [[-> _]|(_ & _ & -> & _)]; exact R3).
    destruct (cl_proc_facts _ _ _ H) as (Hl & Hnd & Hd & Hdeny & Hdeny' & N1 & N2).
    destruct (cl_step_other t e N1 N2) as (t' & Ht & C1 & C2). exists t'. split; [exact Ht|].
    unfold cl_rel. rewrite Hl. split; [|split].
    + intros Hc. destruct (C1 Hc) as [Hc0 Hne]. destruct Hd as [(g0 & ->)|[Hd Hp]]; [exfalso; eapply Hne; reflexivity|].
      destruct (R1' Hc0) as (D1 & _ & L1). rewrite Hd. repeat split; assumption.
    + intros Hdn Hs. destruct (C2 Hdn Hs) as (Hs0 & Hntx & [Hd0|(g0 & ->)]).
      * exfalso. destruct (Hdeny (R2' Hd0 Hs0)) as (g0 & a0 & ok0 & ->). eapply Hntx. reflexivity.
      * unfold step_proc in H. destruct (pp s1); try discriminate H; bm H; inv_some H; reflexivity.
    + intros Hn1 Hn2. exfalso. apply Hnd. apply R3'; assumption.
  - (* dequeuer *)
    assert (HR1 : cl_rel s1 t) by (destruct Hv as [[-> _]|(_ & _ & ->)]; (split; [exact R1|split; [exact R2|exact R3]])).
    clear R1 R2 R3. destruct HR1 as (R1 & R2 & R3).
    destruct (cl_deq_facts _ _ _ H) as (Hp & Hl & Hd & Ha & N1 & N2).
    destruct (cl_step_other t e N1 N2) as (t' & Ht & C1 & C2). exists t'. split; [exact Ht|].
    unfold cl_rel. rewrite Hp, Hl. split; [|split; [|exact R3]].
    + intros Hc. destruct (C1 Hc) as [Hc0 Hne]. destruct Hd as [(g0 & ->)|Hd]; [exfalso; eapply Hne; reflexivity|].
      rewrite Hd. apply R1, Hc0.
    + intros Hdn Hs. destruct (C2 Hdn Hs) as (Hs0 & _ & [Hd0|(g0 & ->)]); [apply R2; assumption|exfalso; eapply Ha; reflexivity].
  - (* acker *)
    assert (HR1 : cl_rel s1 t) by (destruct Hv as [[-> _]|(_ & _ & ->)]; (split; [exact R1|split; [exact R2|exact R3]])).
    clear R1 R2 R3. destruct HR1 as (R1 & R2 & R3).
    destruct (cl_ack_facts _ _ _ H) as (Hp & Hl & Hd & Ha & N1 & N2).
    destruct (cl_step_other t e N1 N2) as (t' & Ht & C1 & C2). exists t'. split; [exact Ht|].
    unfold cl_rel. rewrite Hp, Hl. split; [|split; [|exact R3]].
    + intros Hc. destruct (C1 Hc) as [Hc0 Hne]. destruct Hd as [(g0 & ->)|Hd]; [exfalso; eapply Hne; reflexivity|].
      rewrite Hd. apply R1, Hc0.
    + intros Hdn Hs. destruct (C2 Hdn Hs) as (Hs0 & _ & [Hd0|(g0 & ->)]); [apply R2; assumption|exfalso; eapply Ha; reflexivity].
  - (* cleanup, not EClosed *)
    assert (HR1 : cl_rel s1 t) by (destruct Hv as [[-> _]|(_ & _ & ->)]; (split; [exact R1|split; [exact R2|exact R3]])).
    clear R1 R2 R3. destruct HR1 as (R1 & R2 & R3).
    destruct (cl_cleanup_facts _ _ _ H) as (Hd & Hl & Hl' & Hcase & Ha & Hnc & N1).
    assert (N2 : e <> EClosed) by (intros ->; discriminate Hev).
    destruct (cl_step_other t e N1 N2) as (t' & Ht & C1 & C2). exists t'. split; [exact Ht|].
    (* cleanup has begun or begins: somebody closed the transport, and the processor is done *)
    assert (Hc : cl_closed t = true).
    { destruct (cl_closed t) eqn:Ec; [reflexivity|]. destruct (R1 eq_refl) as (D1 & P1 & L1).
      destruct Hcase as [(_ & Ha' & _)|(Hn & _)]; [|contradiction].
      apply all_stopped_proc in Ha'. rewrite (proc_cannot_stop _ D1 P1) in Ha'. discriminate Ha'. }
    assert (Hpd : pp s' = PDone).
    { destruct Hcase as [(_ & _ & Hp)|(Hn & Hp)]; [exact Hp|]. rewrite Hp. apply R3; assumption. }
    unfold cl_rel. split; [|split].
    + intros Hc'. destruct (C1 Hc') as [Hc0 _]. rewrite Hc in Hc0. discriminate Hc0.
    + intros Hdn Hs. exfalso. destruct (C2 Hdn Hs) as (Hs0 & _ & [Hd0|(g0 & ->)]); [|eapply Ha; reflexivity].
      pose proof (R2 Hd0 Hs0) as Hp.
      destruct Hcase as [(_ & Ha' & _)|(Hn & _)].
      * apply all_stopped_proc in Ha'. unfold proc_can_stop in Ha'. rewrite Hp in Ha'. discriminate Ha'.
      * rewrite R3 in Hp; [discriminate Hp|exact Hn|exact Hl].
    + intros _ _. exact Hpd.
  - (* Close() from outside *)
    eexists; split; [reflexivity|]. unfold cl_rel; sf; cbn [cl_closed cl_denied cl_sent].
    split; [intros Hc; discriminate Hc|split; [exact R2|exact R3]].
Qed.

Theorem c20_closes_holds : forall es s, bc_run es = Some s -> c20_closes es = true.
Proof.
  unfold c20_closes. apply (scan_sound cl_step cl_rel cl_hstep).
  unfold cl_rel; cbn. split; [intros H; discriminate H|]. split; [intros H; discriminate H|intros _ H; contradiction H; reflexivity].
Qed.

(* ================================================== c08_deqack_after_store == *)

Definition da_rel (s : bc) (t : list (N * (message * bool))) : Prop :=
  match dp s with
  | DNextId m _ => exists g, gdeq s = Some g /\ aget t g = Some (m, false)
  | DSave p _ => exists g m id, gdeq s = Some g /\ p = Publish false m id /\ aget t g = Some (m, false)
  | DBackAck p => exists g m id b, gdeq s = Some g /\ p = Publish false m id /\ aget t g = Some (m, b) /\
                                   (m_qos m =? 0) || b = true
  | _ => True
  end.

Lemma da_rel_same s s' t : dp s' = dp s -> gdeq s' = gdeq s -> da_rel s t -> da_rel s' t.
Proof. unfold da_rel. intros -> ->. exact (fun x => x). Qed.

Lemma da_rel_idle s' t : (match dp s' with DNextId _ _ | DSave _ _ | DBackAck _ => False | _ => True end) -> da_rel s' t.
Proof. unfold da_rel. destruct (dp s'); intros H; try contradiction; exact I. Qed.

(* events of the processor, the acker, the cleanup and the closures leave the scanner alone *)
Lemma da_proc_quiet s e s' t : step_proc s e = Some s' -> da_step t e = Some t.
Proof.
  intros H. unfold step_proc, proc_dispatch, die_p, guard, take_pub, take_sub, clo_reg, take_deq_if_any, take_deq in H.
  destruct (pp s) eqn:Epp; destruct e; try discriminate H; bm H; reflexivity.
Qed.

Lemma step_proc_dp2 s e s' : step_proc s e = Some s' -> (dp s' = dp s \/ dp s' = DToken) /\ gdeq s' = gdeq s.
Proof.
  intros H. unfold step_proc, proc_dispatch, die_p, guard, take_pub, take_sub, clo_reg, take_deq_if_any, take_deq in H.
  destruct (pp s) eqn:Epp; destruct e; try discriminate H; bm H; inv_some H; sf; (split; [|try destruct fresh; reflexivity]);
    first [left; reflexivity|right; reflexivity|destruct fresh; left; reflexivity].
Qed.

Lemma da_deq s t e s' g : gdeq s = Some g -> ev_g e = Some g -> da_rel s t -> step_deq s e = Some s' ->
  exists t', da_step t e = Some t' /\ da_rel s' t'.
Proof.
  intros Hg Heg HR H. unfold da_rel in HR. unfold step_deq, take_deq, guard in H.
  destruct (dp s) eqn:Edp; destruct e; try discriminate H; bm H; inv_some H;
    cbn [ev_g] in Heg; try injection Heg as Heg; subst; unfold da_rel; sf;
    try (eexists; split; [reflexivity|]; exact I).
  - (* DeqRet, QoS 0, the backend wants an acknowledgement *)
    eexists; split; [reflexivity|]. exists g, m, 0, false.
    repeat split; [exact Hg|apply aget_aput_eq|].
    match goal with Hq : (m_qos m =? 0) = true |- _ => rewrite Hq end. reflexivity.
  - (* DeqRet, QoS > 0 *)
    eexists; split; [reflexivity|]. exists g. split; [exact Hg|apply aget_aput_eq].
  - (* NextId *)
    destruct HR as (g' & G & A). eexists; split; [reflexivity|]. exists g', m, id. repeat split; assumption.
  - (* Save ok, acknowledgement wanted *)
    destruct HR as (g' & m & id & G & -> & A). rewrite Hg in G. injection G as <-.
    match goal with Hq : packet_eqb _ _ = true |- _ => apply packet_eqb_eq in Hq; subst end.
    cbn [da_step]. rewrite A, message_eqb_refl. eexists; split; [reflexivity|].
    exists g, m, id, true. repeat split; [exact Hg|apply aget_aput_eq|apply orb_true_r].
  - (* Save ok *)
    destruct HR as (g' & m & id & G & -> & A). rewrite Hg in G. injection G as <-.
    match goal with Hq : packet_eqb _ _ = true |- _ => apply packet_eqb_eq in Hq; subst end.
    cbn [da_step]. rewrite A, message_eqb_refl. eexists; split; [reflexivity|exact I].
  - (* Save failed *)
    destruct HR as (g' & m & id & G & -> & A).
    match goal with Hq : packet_eqb _ _ = true |- _ => apply packet_eqb_eq in Hq; subst end.
    eexists; split; [reflexivity|]. exact I.
  - (* the acknowledgement *)
    destruct HR as (g' & m & id & b & G & -> & A & C). rewrite Hg in G. injection G as <-.
    cbn [da_step]. rewrite A, C. eexists; split; [reflexivity|]. exact I.
Qed.

Lemma da_rel_learn s t g : gdeq s = None -> da_rel s t -> da_rel (set_roles s (gproc s) (Some g) (gack s) (gcl s)) t.
Proof.
  intros Hn HR. unfold da_rel in *; sf. destruct (dp s); try exact I.
  - destruct HR as (g' & G & _). rewrite Hn in G. discriminate G.
  - destruct HR as (g' & m & id & G & _). rewrite Hn in G. discriminate G.
  - destruct HR as (g' & m & id & b & G & _). rewrite Hn in G. discriminate G.
Qed.

Lemma step_cleanup_dp2 s e s' : step_cleanup s e = Some s' ->
  (dp s' = dp s \/ dp s' = DDone \/ dp s' = DOff) /\ gdeq s' = gdeq s.
Proof.
  intros H. unfold step_cleanup, guard in H.
  destruct (lp s) eqn:Elp; destruct e; try discriminate H; bm H; inv_some H; sf; (split; [|reflexivity]);
    try (left; reflexivity); right; destruct (dp s); auto.
Qed.

Lemma da_hstep s t e s' : da_rel s t -> step s e = Some s' -> exists t', da_step t e = Some t' /\ da_rel s' t'.
Proof.
  intros HR H. apply step_cases in H.
  destruct H as [-> _ -> | -> _ -> | -> _ -> | H | -> H
                | g s1 _ Hev _ _ Hv H | g s1 _ Hev _ _ Rp Hv H | g s1 _ Hev _ _ Rp _ Hv H | g s1 _ Hev _ _ Rp _ _ Hv H
                | g -> _ _ _ Hf ->].
  - exists []. split; [reflexivity|]. exact I.
  - exists t. split; [reflexivity|exact HR].
  - exists t. split; [reflexivity|exact HR].
  - (* closure *)
    exists t. split.
    + apply step_clo_event in H. destruct e; try discriminate H; reflexivity.
    + apply step_clo_shape in H. destruct H as (se & cl & dy & q & ->). exact HR.
  - (* EClosed *)
    exists t. split; [reflexivity|].
    destruct (step_cleanup_dp2 _ _ _ H) as [[Hd|[Hd|Hd]] Hg];
      [eapply da_rel_same; eassumption|apply da_rel_idle; rewrite Hd; exact I|apply da_rel_idle; rewrite Hd; exact I].
  - (* processor *)
    assert (HR1 : da_rel s1 t) by (destruct Hv as [[-> _]|(_ & _ & -> & _)]; exact HR).
    exists t. split; [eapply da_proc_quiet; exact H|].
    destruct (step_proc_dp2 _ _ _ H) as [[Hd|Hd] Hg].
    + eapply da_rel_same; eassumption.
    + apply da_rel_idle. rewrite Hd. exact I.
  - (* dequeuer *)
    assert (Hg1 : gdeq s1 = Some g) by (destruct Hv as [[-> Hg]|(_ & _ & ->)]; [exact Hg|reflexivity]).
    assert (HR1 : da_rel s1 t) by (destruct Hv as [[-> _]|(Hn & _ & ->)]; [exact HR|apply da_rel_learn; assumption]).
    eapply da_deq; eassumption.
  - (* acker *)
    exists t. split.
    + apply step_ack_event in H. destruct e; try contradiction; reflexivity.
    + apply step_ack_shape in H. destruct H as (a & dy & t1 & t2 & t3 & q & ->). unfold da_rel; sf.
      destruct Hv as [[-> _]|(_ & _ & ->)]; exact HR.
  - (* cleanup *)
    assert (HR1 : da_rel s1 t) by (destruct Hv as [[-> _]|(_ & _ & ->)]; exact HR).
    exists t. split.
    + apply step_cleanup_event in H. destruct e; try discriminate H; reflexivity.
    + destruct (step_cleanup_dp2 _ _ _ H) as [[Hd|[Hd|Hd]] Hg];
        [eapply da_rel_same; eassumption|apply da_rel_idle; rewrite Hd; exact I|apply da_rel_idle; rewrite Hd; exact I].
  - exists t. split; [reflexivity|exact HR].
Qed.

Theorem c08_deqack_after_store_holds : forall es s, bc_run es = Some s -> c08_deqack_after_store es = true.
Proof.
  unfold c08_deqack_after_store. apply (scan_sound da_step da_rel da_hstep). exact I.
Qed.
