(* ConnProofsF3.v — the strict ledger clause (no record is ever overwritten) is FALSE of the
   model, as of broker/client.go + session.IDCounter: NextID does not skip ids that are still
   recorded.  Accepted counter-example [tr_wrap] (459 000 events, checked by vm_compute):
   window 2; the client never acknowledges the first message (id 1) while 65534 further QoS 1
   messages (ids 2..65535) are delivered and acknowledged; the 65536th allocation returns id 1
   again, SavePacket replaces the stored PUBLISH of the first message; the connection is lost
   and the resumed connection lists and re-sends only the new message: the first one is gone,
   although every local C08 clause (store before send, kept until acked, store replica, ...)
   holds of the trace.  The plain clause c08_ledger records the victim as LOverwritten. *)
From Coq Require Import List NArith Bool.
From GM Require Import Base.Lts Codec.Packet Session.Store Broker.Conn Broker.ConnSpec Broker.ConnSpec6
  Broker.ConnSpec7 Broker.ConnProofsCDefs Broker.ConnProofsCTraces.
Import ListNotations.
Open Scope N_scope.

(* one delivered and acknowledged QoS 1 message under packet id [id] *)
Definition wr_round (id : N) : list event :=
  [EDeqCall 3; EDeqRet 3 (QMsg tc_m1b false); ENextId 3 id; ESave 3 Outgoing (Publish false tc_m1b id) true;
   ETx 3 (Publish false tc_m1b id) true true; ERx 2 (Puback id); EDelete 2 Outgoing id true].
Fixpoint wr_rounds (n : nat) (id : N) : list event :=
  match n with O => [] | S n' => wr_round id ++ wr_rounds n' (id + 1) end.

Definition tr_wrap : list event :=
  tc_open 2 2 false [] ++
  [EDeqCall 3; EDeqRet 3 (QMsg tc_m1 false); ENextId 3 1; ESave 3 Outgoing (Publish false tc_m1 1) true;
   ETx 3 (Publish false tc_m1 1) true true] ++                       (* tc_m1 under id 1: never acknowledged *)
  wr_rounds (N.to_nat 65534) 2 ++                                      (* ids 2 .. 65535 *)
  [EDeqCall 3; EDeqRet 3 (QMsg tc_m1b false); ENextId 3 1; ESave 3 Outgoing (Publish false tc_m1b 1) true;
   ETx 3 (Publish false tc_m1b 1) true true;                          (* id 1 again: the record of tc_m1 is replaced *)
   ERxErr 2; EDie 2 KTransport; EConnClose 2; ETerm 4 true; EClosed] ++
  tc_open 5 2 true [Publish false tc_m1b 1].                           (* the resume lists the new message only *)

(* what the ledger says at the end: the only record is the new message under id 1; the entry
   closed last is tc_m1, dequeued by event 8: overwritten *)
Definition wrap_ledger_check : bool :=
  match ledger_of tr_wrap with
  | Some t =>
      match lg_log t, hd (LPhantom 0 false) (lg_arch t) with
      | [LMsg _ m1 (LStored 1)], LMsg a m (LOverwritten 1) => message_eqb m1 tc_m1b && message_eqb m tc_m1 && Nat.eqb a 8
      | _, _ => false
      end
  | None => false
  end.

(* each fact is computed by the VM (about 3 s each) *)
Lemma wrap_accepted : tc_accepted tr_wrap = true.
Proof. vm_cast_no_check (eq_refl true). Qed.
Lemma wrap_ledger : c08_ledger tr_wrap = true.
Proof. vm_cast_no_check (eq_refl true). Qed.
Lemma wrap_strict : c08_ledger_strict tr_wrap = false.
Proof. vm_cast_no_check (eq_refl false). Qed.
Lemma wrap_clash : c08_no_id_clash tr_wrap = false.
Proof. vm_cast_no_check (eq_refl false). Qed.
Lemma wrap_replica : c08_store_replica tr_wrap = true.
Proof. vm_cast_no_check (eq_refl true). Qed.
Lemma wrap_overwritten : wrap_ledger_check = true.
Proof. vm_cast_no_check (eq_refl true). Qed.

Lemma accepted_run es : tc_accepted es = true -> exists s, bc_run es = Some s.
Proof. unfold tc_accepted. destruct (bc_run es) as [s|]; [intros _; exists s; reflexivity|discriminate]. Qed.

Theorem c08_ledger_strict_refuted : exists es s, bc_run es = Some s /\ c08_ledger_strict es = false.
Proof.
  destruct (accepted_run _ wrap_accepted) as (s & Hs).
  exists tr_wrap, s. split; [exact Hs|exact wrap_strict].
Qed.

Print Assumptions c08_ledger_strict_refuted.
