(* ConnProofsD3.v — every trace accepted by the broker-connection model BC satisfies
   the clauses of ConnSpec5.v: c06_forward_intact and c14_lifecycle2. *)
From Coq Require Import List NArith Bool Lia.
From Coq.Strings Require Import Byte.
From GM Require Import Base.Lts Codec.Packet Session.Ids Session.Store Session.StoreProofs
  Broker.Conn Broker.ConnSpec Broker.ConnSpec2 Broker.ConnSpec5 Broker.ConnBase
  Broker.ConnProofsD0 Broker.ConnProofsD1 Broker.ConnProofsD2.
Import ListNotations.
Open Scope N_scope.

(* ======================================================== c14_lifecycle2 == *)

Lemma lc_step2_strict t e : lc_step2 t e = lc_step_strict t e.
Proof. reflexivity. Qed.

Theorem c14_lifecycle2_holds : forall es s, bc_run es = Some s -> c14_lifecycle2 es = true.
Proof. exact c14_lifecycle_strict_holds. Qed.

(* ==================================================== c06_forward_intact == *)

Definition fw_v (s : bc) (t : list (N * fw_st)) : option fw_st :=
  match gdeq s with Some g => aget t g | None => None end.

(* the packet the dequeuer holds is the dequeued message under the allocated id *)
Definition fw_holds (p : packet) (v : option fw_st) : Prop :=
  exists m id oid, p = Publish false m id /\ v = Some (FwGot m oid) /\
    ((m_qos m =? 0) = true /\ id = 0 \/ (m_qos m =? 0) = false /\ oid = Some id).

Definition fw_R (s : bc) (t : list (N * fw_st)) : Prop :=
  (forall g v, aget t g = Some v -> gdeq s = Some g) /\
  (dq_early (pp s) = true -> dp s = DOff) /\
  match dp s with
  | DOff => fw_v s t = None
  | DNextId m _ => fw_v s t = Some (FwGot m None) /\ (m_qos m =? 0) = false
  | DSave p _ | DBackAck p | DSend p => fw_holds p (fw_v s t)
  | DToken | DWait => fw_v s t = None \/ fw_v s t = Some FwSent
  | _ => True
  end.

Lemma fw_clo_step t e : clo_event e = true -> fw_step t e = Some t.
Proof. intros H. destruct e; cbn [clo_event] in H; try discriminate H; reflexivity. Qed.

(* an event of a goroutine that is not a dequeuer (and is not a Dequeue returning a
   message) leaves the scanner state alone *)
Lemma fw_noentry_step t e g :
  ev_g e = Some g -> aget t g = None -> dq_neutral e = true \/ ack_event e = true -> fw_step t e = Some t.
Proof.
  intros Hg Ha Hn. destruct e; cbn [ev_g] in Hg; try discriminate Hg; injection Hg as ->; cbn [fw_step]; try reflexivity.
  - destruct p; try reflexivity. rewrite Ha. reflexivity.
  - destruct r; try reflexivity. destruct Hn as [Hn|Hn]; discriminate Hn.
  - rewrite Ha. reflexivity.
Qed.

Lemma cleanup_event_cases e : cleanup_event e = true -> dq_neutral e = true.
Proof. apply cleanup_event_dq. Qed.

Lemma fw_R_roles s t p d a c :
  gdeq s = None \/ d = gdeq s -> fw_R s t -> fw_R (set_roles s p d a c) t.
Proof.
  intros Hd (R1 & R2 & R3). unfold fw_R, fw_v in *. sf. destruct Hd as [Hd| ->]; [|repeat split; assumption].
  assert (Hn : forall g, aget t g = None).
  { intros g. destruct (aget t g) eqn:E; [|reflexivity]. specialize (R1 _ _ E). congruence. }
  rewrite Hd in R3. split; [intros g v E; rewrite Hn in E; discriminate E|]. split; [exact R2|].
  destruct d as [g|]; [rewrite Hn|]; exact R3.
Qed.

Lemma fw_R_frozen s t (p : ppc) d' a' l' :
  fw_R s t ->
  (p = pp s /\ d' = dp s \/ p = PDone /\ d' = match dp s with DOff => DOff | _ => DDone end) ->
  fw_R (BC (conn_no s) (sess s) (clos s) (gproc s) (gdeq s) (gack s) (gcl s) (ph s) p d' a' l'
           (dying s) (will s) (cw s) (cpp s) (cps s) (tdeq s) (tpub s) (tsub s) (ackq s)) t.
Proof.
  intros (R1 & R2 & R3) Hx. unfold fw_R, fw_v in *; sf.
  destruct Hx as [(-> & ->)|(-> & ->)]; [repeat split; assumption|].
  split; [exact R1|split; [discriminate|]]. destruct (dp s); auto.
Qed.

Lemma fw_step_ok s t e s' :
  inv s -> fw_R s t -> step s e = Some s' -> exists t', fw_step t e = Some t' /\ fw_R s' t'.
Proof.
  intros HI HR H. destruct (step_cases _ _ _ H) as
    [He Hlp Hs|He Ho Hs|He Hq Hs|Hc|He Hc|g s1 Ho Hg Hc Hi Hv Hp|g s1 Ho Hg Hc Hi Hr1 Hv Hp
    |g s1 Ho Hg Hc Hi Hr1 Hr2 Hv Hp|g s1 Ho Hg Hc Hi Hr1 Hr2 Hr3 Hv Hp|g He Ho Hc Hi Hf Hs].
  - subst e s'. exists []. split; [reflexivity|]. unfold fw_R, fw_v, new_conn; sf.
    split; [intros g v E; discriminate E|split; reflexivity].
  - subst e s'. exists t. split; [reflexivity|exact HR].
  - subst e s'. exists t. split; [reflexivity|exact HR].
  - exists t. split; [apply fw_clo_step; eapply step_clo_event; exact Hc|].
    destruct (step_clo_shape _ _ _ Hc) as (si & cl & dy & q & ->).
    unfold fw_R, fw_v in *; sf; exact HR.
  - subst e. exists t. split; [reflexivity|].
    destruct (step_cleanup_shape _ _ _ Hc) as (p & d & a & l & -> & _ & Hx).
    apply fw_R_frozen; [exact HR|].
    destruct Hx as [(-> & -> & _)|(_ & _ & -> & -> & _)]; [left|right]; split; reflexivity.
  - (* processor: it is not the dequeuer, so it has no entry *)
    assert (Hn : aget t g = None).
    { destruct (aget t g) eqn:E; [|reflexivity]. destruct HR as (R1 & _). specialize (R1 _ _ E).
      destruct HI as (I1 & _). destruct Hv as [[_ Hgp]|(Hgp & Hf & _)].
      - destruct (I1 g) as (H1 & _). destruct (H1 Hgp) as (Hx & _). contradiction.
      - destruct (role_free_inv _ _ Hf) as (_ & F2 & _). rewrite R1, is_role_some in F2. discriminate F2. }
    assert (HR1 : fw_R s1 t).
    { destruct Hv as [[-> _]|(_ & _ & -> & _)]; [exact HR|]. apply fw_R_roles; [right; reflexivity|exact HR]. }
    destruct (step_proc_dq _ _ _ Hp) as (Hne & Hgd & Hd).
    exists t. split; [eapply fw_noentry_step; [exact Hg|exact Hn|left; exact Hne]|]. destruct HR1 as (R1 & R2 & R3).
    unfold fw_R, fw_v in *. rewrite Hgd. destruct Hd as [(Hd & He)|(Hpr & Hd & He)].
    + rewrite Hd. split; [exact R1|split; [|exact R3]]. intros Hx. apply R2, He, Hx.
    + rewrite Hd, He. rewrite Hpr in R2. rewrite (R2 eq_refl) in R3.
      split; [exact R1|split; [discriminate|left; exact R3]].
  - (* dequeuer *)
    assert (HR1 : fw_R s1 t /\ gdeq s1 = Some g).
    { destruct Hv as [[-> Hgd]|(Hgd & _ & ->)]; [split; [exact HR|exact Hgd]|].
      split; [apply fw_R_roles; [left; exact Hgd|exact HR]|reflexivity]. }
    clear HR H Hv Hc Hi. destruct HR1 as ((R1 & R2 & R3) & Hgd). unfold fw_v in R3. rewrite Hgd in R3.
    unfold step_deq, take_deq, guard in Hp.
    destruct (dp s1) eqn:Edp; destruct e; try discriminate Hp; bm Hp; inv_some Hp; cbn [ev_g] in Hg; injection Hg as ->.
    all: try (exists t; split; [reflexivity|]; unfold fw_R, fw_v; sf;
              split; [exact R1|split; [intros Hx; specialize (R2 Hx); discriminate R2|]]; rewrite ?Hgd; eauto; fail).
    (* a message is dequeued *)
    all: try (exists (aput t g (FwGot m None)); split;
              [cbn [fw_step]; destruct R3 as [R3|R3]; rewrite R3; reflexivity|];
              unfold fw_R, fw_v; sf;
              split; [apply entries_aput; assumption|split; [intros Hx; specialize (R2 Hx); discriminate R2|]];
              rewrite Hgd, aget_aput, N.eqb_refl;
              first [split; [reflexivity|assumption]
                    |exists m, 0, None; split; [reflexivity|split; [reflexivity|left; split; [assumption|reflexivity]]]]; fail).
    (* its id is allocated *)
    all: try (destruct R3 as (R3 & Rq);
              match goal with |- context [ENextId _ ?i] =>
                exists (aput t g (FwGot m (Some i))); split; [cbn [fw_step]; rewrite R3; reflexivity|];
                unfold fw_R, fw_v; sf;
                split; [apply entries_aput; assumption|split; [intros Hx; specialize (R2 Hx); discriminate R2|]];
                rewrite Hgd, aget_aput, N.eqb_refl;
                exists m, i, (Some i); split; [reflexivity|split; [reflexivity|right; split; [exact Rq|reflexivity]]]
              end; fail).
    (* the PUBLISH is sent *)
    all: destruct R3 as (xm & xid & xoid & Ep & R3 & Rw);
         match goal with Hq : packet_eqb _ _ = true |- _ => apply packet_eqb_eq in Hq; rewrite <- Hq end;
         rewrite Ep in *; try discriminate;
         (exists (aput t g FwSent); split;
          [cbn [fw_step]; rewrite R3; cbn [negb andb]; rewrite message_eqb_refl;
           destruct Rw as [(Rq & ->)|(Rq & ->)]; rewrite Rq; cbn [option_eqb andb]; rewrite ?N.eqb_refl; reflexivity|]);
         unfold fw_R, fw_v; sf;
         (split; [apply entries_aput; assumption|split; [intros Hx; specialize (R2 Hx); discriminate R2|]]);
         rewrite ?Hgd, ?aget_aput, ?N.eqb_refl; auto.
  - (* acker *)
    assert (HR1 : fw_R s1 t).
    { destruct Hv as [[-> _]|(_ & _ & ->)]; [exact HR|]. apply fw_R_roles; [right; reflexivity|exact HR]. }
    assert (Hn : aget t g = None).
    { destruct (aget t g) eqn:E; [|reflexivity]. destruct HR as (R1 & _). specialize (R1 _ _ E).
      rewrite R1, is_role_some in Hr2. discriminate Hr2. }
    exists t. split; [eapply fw_noentry_step; [exact Hg|exact Hn|right; eapply step_ack_event; exact Hp]|].
    destruct (step_ack_shape _ _ _ Hp) as (a & dy & t1 & t2 & t3 & q & ->).
    unfold fw_R, fw_v in *; sf; exact HR1.
  - (* cleanup *)
    assert (HR1 : fw_R s1 t).
    { destruct Hv as [[-> _]|(_ & _ & ->)]; [exact HR|]. apply fw_R_roles; [right; reflexivity|exact HR]. }
    assert (Hn : aget t g = None).
    { destruct (aget t g) eqn:E; [|reflexivity]. destruct HR as (R1 & _). specialize (R1 _ _ E).
      rewrite R1, is_role_some in Hr2. discriminate Hr2. }
    exists t. split; [eapply fw_noentry_step; [exact Hg|exact Hn|left; eapply cleanup_event_dq, step_cleanup_event; exact Hp]|].
    destruct (step_cleanup_shape _ _ _ Hp) as (p & d & a & l & -> & _ & Hx).
    apply fw_R_frozen; [exact HR1|].
    destruct Hx as [(-> & -> & _)|(_ & _ & -> & -> & _)]; [left|right]; split; reflexivity.
  - subst e s'. exists t. split; [reflexivity|]. unfold fw_R, fw_v in *; sf; exact HR.
Qed.

Theorem c06_forward_intact_holds : forall es s, bc_run es = Some s -> c06_forward_intact es = true.
Proof.
  apply (scan_sound_inv fw_step inv fw_R inv_init inv_step fw_step_ok).
  unfold fw_R, fw_v, bc_init. sf. split; [intros g v E; discriminate E|split; reflexivity].
Qed.
