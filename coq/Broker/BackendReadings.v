(* BackendReadings.v — what the boolean clauses of BackendSpec.v say, as propositions
   (so that the property theorems can be read without unfolding boolean code). *)
From Coq Require Import List NArith Bool Lia.
From Coq.Strings Require Import Byte.
From GM Require Import Codec.Packet Topic.MatchSpec Broker.Backend Broker.BackendSpec
  Broker.BackendProofs Broker.BackendProofsPublish Broker.BackendProofsSteps.
Import ListNotations.
Open Scope N_scope.

Lemma has_match_true subs t :
  has_match subs t = true <-> exists f q, In (f, q) subs /\ topic_matches f t = true.
Proof.
  unfold has_match. rewrite existsb_exists. split.
  - intros [[f q] [H1 H2]]. exists f, q; auto.
  - intros [f [q [H1 H2]]]. exists (f, q); auto.
Qed.

Lemma has_match_false subs t :
  has_match subs t = false <-> forall f q, In (f, q) subs -> topic_matches f t = false.
Proof.
  split.
  - intros H f q Hin. destruct (topic_matches f t) eqn:E; [|reflexivity].
    assert (X : has_match subs t = true) by (apply has_match_true; exists f, q; auto). congruence.
  - intros H. destruct (has_match subs t) eqn:E; [|reflexivity].
    apply has_match_true in E as [f [q [H1 H2]]]. rewrite (H f q H1) in H2. discriminate.
Qed.

Definition copy (m : message) : message := Msg (m_topic m) (m_payload m) (m_qos m) false.

(* C06_targets for a Publish that returned nil: every session of the state before is still there with the
   same subscriptions, active connection and other queue; its queue for this QoS class gained exactly one
   copy (retain cleared, topic/payload/QoS as published) if it holds a matching filter and the queue has
   room, and is unchanged if it holds no matching filter; nothing else can happen to it. *)
Theorem targets_reading st c m got st' k s :
  targets_ok st (OPublish c m got) ROk st' = true -> name_ok (m_topic m) = true ->
  In (k, s) (sessions st) ->
  exists s', get_session st' k = Some s' /\
    s_subs s' = s_subs s /\ s_act s' = s_act s /\ other_queue m s' = other_queue m s /\
    ((exists f q, In (f, q) (s_subs s) /\ topic_matches f (m_topic m) = true) ->
       is_full (st_cap st) (queue_of m s) = false -> queue_of m s' = queue_of m s ++ [copy m]) /\
    ((forall f q, In (f, q) (s_subs s) -> topic_matches f (m_topic m) = false) -> queue_of m s' = queue_of m s) /\
    (queue_of m s' = queue_of m s \/ queue_of m s' = queue_of m s ++ [copy m]).
Proof.
  intros H Hn Hin. cbn [targets_ok] in H. rewrite Hn in H.
  apply andb_true_iff in H as [H _]. apply andb_true_iff in H as [H _].
  rewrite forallb_forall in H. specialize (H (k, s) Hin). cbn [fst snd] in H.
  destruct (get_session st' k) as [s'|]; [|discriminate]. exists s'. split; [reflexivity|].
  unfold target_ok in H. rewrite !andb_true_iff in H. destruct H as [[[H1 H2] H3] H4].
  apply subs_eqb_eq in H1. apply msgs_eqb_eq in H2. apply (option_eqb_eq N.eqb N.eqb_eq) in H3.
  split; [auto|]. split; [auto|]. split; [auto|].
  unfold gained, kept in H4. fold (copy m) in H4.
  assert (K : forall b, (b = msgs_eqb (queue_of m s') (queue_of m s) \/ b = msgs_eqb (queue_of m s') (queue_of m s ++ [copy m])) ->
              b = true -> queue_of m s' = queue_of m s \/ queue_of m s' = queue_of m s ++ [copy m]).
  { intros b0 [->| ->] X; apply msgs_eqb_eq in X; auto. }
  destruct (has_match (s_subs s) (m_topic m)) eqn:HM.
  - split; [|split].
    + intros _ Full. rewrite Full in H4.
      destruct (s_act s) as [c'|]; [rewrite andb_false_r in H4|]; apply msgs_eqb_eq in H4; exact H4.
    + intros Hno. apply has_match_false in Hno. congruence.
    + destruct (s_act s) as [c'|].
      * destruct (mem_n c' (st_dying st) && is_full (st_cap st) (queue_of m s)); apply msgs_eqb_eq in H4; auto.
      * destruct (is_full (st_cap st) (queue_of m s)); apply msgs_eqb_eq in H4; auto.
  - apply msgs_eqb_eq in H4. split; [|split]; auto.
    intros Hex. apply has_match_true in Hex. congruence.
Qed.

(* C06_qos for a Dequeue that returned a message: it is the head of the chosen queue with topic, payload and
   retain flag intact, and its QoS is min(queued QoS, q) for a filter (f, q) of the session that matches the
   topic — or the queued QoS when the session holds no matching filter any more. *)
Theorem qos_reading st c temp m' st' :
  qos_ok st (ODequeue c temp) (RMsg m') st' = true ->
  exists k s m rest, session_of st c = Some (k, s) /\ (if temp then s_tq s else s_sq s) = m :: rest /\
    m_topic m' = m_topic m /\ m_payload m' = m_payload m /\ m_retain m' = m_retain m /\
    (name_ok (m_topic m) = true ->
       (exists f q, In (f, q) (s_subs s) /\ topic_matches f (m_topic m) = true /\ m_qos m' = N.min (m_qos m) q) \/
       ((forall f q, In (f, q) (s_subs s) -> topic_matches f (m_topic m) = false) /\ m_qos m' = m_qos m)).
Proof.
  intros H. cbn [qos_ok] in H. destruct (session_of st c) as [[k s]|]; [|discriminate].
  destruct (if temp then s_tq s else s_sq s) as [|m rest] eqn:Q; [discriminate|].
  exists k, s, m, rest. split; [reflexivity|]. split; [exact Q|].
  apply andb_true_iff in H as [H _]. apply andb_true_iff in H as [H _].
  unfold qos_capped in H. rewrite !andb_true_iff in H. destruct H as [[[H1 H2] H3] H4].
  apply bytes_eqb_eq in H1, H2. apply Bool.eqb_prop in H3. split; [auto|]. split; [auto|]. split; [auto|].
  intros Hn. rewrite Hn in H4. destruct (has_match (s_subs s) (m_topic m)) eqn:HM.
  - left. apply existsb_exists in H4 as [[f q] [Hin X]]. cbn [fst snd] in X. apply andb_true_iff in X as [X1 X2].
    apply N.eqb_eq in X2. exists f, q; auto.
  - right. split; [apply has_match_false; exact HM|apply N.eqb_eq; exact H4].
Qed.
