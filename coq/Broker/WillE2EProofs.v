(* WillE2EProofs.v — the will, end to end: proofs (definitions: Broker/WillE2E.v).

   Part 1 (model BC)  will_link_holds: every trace the connection model accepts satisfies will_link, by
                      the induction of ConnBase.v from the relations of c12_will (ConnProofsA_will.v:
                      will_R, will_step_lemma) and c20_closes (ConnProofsE3.v: cl_rel, cl_hstep); three
                      facts of the model are added: a Publish is accepted only while the cleanup has
                      not begun; the cleanup begins only when the transport is closed; after EClosed
                      only closures run.
   Part 2 (lists)     what will_link means for a trace: the books wl_obs keeps are the books of
                      c12_will; when the connection has ended the will has been published iff due; where
                      the will's Publish sits in the trace (will_handed_once).
   Part 3 (model MB)  the will's Publish as a step of a backend history: will_step_spec, from
                      publish_queue (delivery log), publish_refused / own_refused_own_full (D22),
                      classify_cases.
   Part 4             the composition: will_e2e_once, will_e2e_never (and their corollaries). *)
From Coq Require Import List NArith Bool Lia PeanoNat.
From Coq.Strings Require Import Byte.
From GM Require Import Base.Lts Codec.Packet Session.Ids Session.Store
  Broker.Conn Broker.ConnSpec Broker.ConnSpec6 Broker.ConnBase
  Broker.ConnProofsA_lib Broker.ConnProofsA_inv Broker.ConnProofsA_will
  Broker.EndToEnd Broker.EndToEndProofsLists Broker.EndToEndProofsConn Broker.EndToEndProofs Broker.WillE2E.
From GM Require Broker.ConnProofsE3.
From GM Require Broker.Backend Broker.BackendSpec Broker.BackendProofs Broker.BackendProofsPublish Broker.BackendProofsSteps
  Broker.BackendOwn Broker.BackendProofsHist Broker.BackendLog Broker.EndToEndProofsBackend.
Import ListNotations.
Open Scope N_scope.

(* ================================================================ Part 1: will_link holds of BC == *)

Definition we_R (s : bc) (x : we_st) : Prop :=
  will_R s (we_wl x) /\ ConnProofsE3.cl_rel s (we_cl x) /\ (we_end x = true -> lp s = LEnd).

(* after the connection has ended only closures run, and a new connection may begin *)
Lemma step_after_end s e s' : lp s = LEnd -> step s e = Some s' ->
  e = ENewConn \/ (clo_event e = true /\ lp s' = LEnd).
Proof.
  intros Hl H.
  assert (Ho : conn_open s = false) by (unfold conn_open; rewrite Hl; reflexivity).
  assert (Hclo : step_clo s e = Some s' -> e = ENewConn \/ (clo_event e = true /\ lp s' = LEnd)).
  { intros Hc. right. split; [eapply step_clo_event; exact Hc|].
    destruct (step_clo_shape _ _ _ Hc) as (se & cl & dy & q & ->). sf. exact Hl. }
  unfold step in H. rewrite Ho in H. cbn [negb] in H.
  destruct e; try (apply Hclo; exact H); try (left; reflexivity); try discriminate H.
  - (* EClosed *) unfold step_cleanup in H. rewrite Hl in H. discriminate H.
  - (* EQuiescent *) unfold guard, quiescent in H. rewrite Ho in H. discriminate H.
Qed.

(* EClosed ends the connection *)
Lemma step_closed_end s s' : step s EClosed = Some s' -> lp s' = LEnd.
Proof.
  cbn [step]. unfold step_cleanup, guard. destruct (lp s); try discriminate.
  - destruct (all_stopped s && negb (phase_geq_connected (ph s))); [|discriminate]. intros H. inv_some H. reflexivity.
  - intros H. inv_some H. reflexivity.
Qed.

(* a Publish is accepted only while the cleanup has not begun; one without closure by a goroutine that is not
   the processor is the cleanup's first step: the three coroutines have stopped *)
Lemma step_pub_facts s g m k s' :
  inv_frozen s -> step s (EPub g m k) = Some s' ->
  lp s = LNone /\ (k = None -> is_role (gproc s) g = false -> all_stopped s = true).
Proof.
  intros Hf H.
  destruct (step_cases _ _ _ H) as
      [He Hl Hs | He Ho Hs | He Hq Hs | Hc | He Hc | g0 s1 Ho Hg Hc Hin Hv Hp | g0 s1 Ho Hg Hc Hin R1 Hv Hp
      | g0 s1 Ho Hg Hc Hin R1 R2 Hv Hp | g0 s1 Ho Hg Hc Hin R1 R2 R3 Hv Hp | g0 He Ho Hc Hin Hfr Hs];
    try discriminate He.
  - apply step_clo_event in Hc. discriminate Hc.
  - (* processor *)
    cbn [ev_g] in Hg. injection Hg as <-.
    assert (Hpp : pp s1 = pp s) by (destruct Hv as [[-> _]|(_ & _ & -> & _)]; reflexivity).
    assert (Hl : lp s = LNone).
    { destruct (lp s) eqn:El; try reflexivity;
        (assert (Hn : lp s <> LNone) by (rewrite El; discriminate)); destruct (Hf Hn) as (Hx & _);
        unfold step_proc in Hp; rewrite Hpp, Hx in Hp; discriminate Hp. }
    split; [exact Hl|]. intros _ Hr. exfalso.
    destruct Hv as [[_ Hx]|(_ & _ & _ & Hrx)]; [|discriminate Hrx].
    rewrite Hx in Hr. cbn [is_role] in Hr. rewrite N.eqb_refl in Hr. discriminate Hr.
  - unfold step_deq in Hp. destruct (dp s1); discriminate Hp.
  - unfold step_ack in Hp. destruct (ap s1); discriminate Hp.
  - (* cleanup *)
    assert (Hl1 : lp s1 = lp s) by (destruct Hv as [[-> _]|(_ & _ & ->)]; reflexivity).
    assert (Ha1 : all_stopped s1 = all_stopped s) by (destruct Hv as [[-> _]|(_ & _ & ->)]; reflexivity).
    unfold step_cleanup in Hp. rewrite Hl1 in Hp. destruct (lp s) eqn:El; try discriminate Hp.
    split; [reflexivity|]. intros -> _.
    rewrite Ha1 in Hp. destruct (all_stopped s); [reflexivity|discriminate Hp].
Qed.

Lemma nmem_procs_of gp g : nmem g (procs_of gp) = is_role gp g.
Proof. destruct gp as [g'|]; cbn [procs_of nmem existsb is_role]; [rewrite orb_false_r|]; reflexivity. Qed.

Lemma clo_event_after_end e : clo_event e = true -> after_end_ok e = true.
Proof. destruct e; cbn; intros H; try discriminate H; reflexivity. Qed.

Lemma we_step_ok s x e s' :
  will_I s -> we_R s x -> step s e = Some s' -> exists x', we_step x e = Some x' /\ we_R s' x'.
Proof.
  intros HI (RW & RC & RE) H.
  destruct (will_step_lemma s (we_wl x) e s' HI RW H) as (t' & Et & RW').
  destruct (ConnProofsE3.cl_hstep s (we_cl x) e s' RC H) as (c' & Ec & RC').
  unfold we_step. rewrite Et, Ec.
  (* what the end flag demands of the event *)
  assert (Hend : we_end x = true -> e = ENewConn \/ (after_end_ok e = true /\ lp s' = LEnd)).
  { intros Hx. destruct (step_after_end s e s' (RE Hx) H) as [->|[Hc Hl]]; [left; reflexivity|right].
    split; [apply clo_event_after_end, Hc|exact Hl]. }
  assert (Hother : (e = ENewConn -> False) -> (negb (we_end x) || after_end_ok e = true) /\ (we_end x = true -> lp s' = LEnd)).
  { intros Hne. destruct (we_end x) eqn:Ex; cbn [negb orb]; [|split; [reflexivity|discriminate]].
    destruct (Hend eq_refl) as [->|[Ha Hl]]; [contradiction Hne; reflexivity|]. split; [exact Ha|intros _; exact Hl]. }
  destruct e;
    try (destruct Hother as [Hb Hl]; [discriminate|]; rewrite Hb; eexists; split; [reflexivity|];
         split; [exact RW'|split; [exact RC'|exact Hl]]; fail).
  - (* ENewConn *)
    eexists; split; [reflexivity|]. split; [exact RW'|split; [exact RC'|]]. cbn [we_end]. discriminate.
  - (* EPub *)
    destruct HI as [_ Hfr]. destruct (step_pub_facts s g m k s' Hfr H) as [Hl Hcl].
    assert (Hne : we_end x = false).
    { destruct (we_end x) eqn:Ex; [|reflexivity]. rewrite (RE eq_refl) in Hl. discriminate Hl. }
    assert (Hp0 : wl_pubs (we_wl x) = 0).
    { unfold will_R, will_R' in RW. destruct RW as (_ & _ & _ & _ & _ & _ & _ & _ & _ & W11). rewrite Hl in W11. apply W11. }
    assert (Hk : match k with Some _ => true | None => nmem g (wl_procs (we_wl x)) || cl_closed (we_cl x) end = true).
    { destruct k as [k|]; [reflexivity|].
      assert (Hpr : wl_procs (we_wl x) = procs_of (gproc s)) by (apply RW).
      rewrite Hpr, nmem_procs_of. destruct (is_role (gproc s) g) eqn:Er; [reflexivity|]. cbn [orb].
      specialize (Hcl eq_refl eq_refl). apply ConnProofsE3.all_stopped_proc in Hcl.
      destruct (cl_closed (we_cl x)) eqn:Ec0; [reflexivity|]. exfalso.
      destruct RC as (R1 & _). destruct (R1 Ec0) as (Hd & Hpd & _).
      unfold proc_can_stop in Hcl. rewrite Hd in Hcl. destruct (pp s); try discriminate Hcl. apply Hpd; reflexivity. }
    rewrite Hne, Hp0, Hk. cbn [negb andb N.eqb]. eexists; split; [reflexivity|].
    split; [exact RW'|split; [exact RC'|]]. cbn [we_end]. intros Hx; discriminate Hx.
  - (* EClosed *)
    destruct (we_end x) eqn:Ex.
    + exfalso. destruct (Hend eq_refl) as [Hx|[Hx _]]; discriminate Hx.
    + eexists; split; [reflexivity|]. split; [exact RW'|split; [exact RC'|]]. intros _. eapply step_closed_end; exact H.
Qed.

Theorem will_link_holds : forall es s, bc_run es = Some s -> will_link es = true.
Proof.
  unfold will_link.
  apply (scan_sound_inv we_step will_I we_R will_I_init will_I_step we_step_ok).
  split; [|split].
  - unfold will_R, will_R', wl_new; cbn. repeat split; intros; try discriminate; auto.
    destruct H; discriminate. destruct H; discriminate.
  - unfold ConnProofsE3.cl_rel; cbn. split; [intros H; discriminate H|]. split; [intros H; discriminate H|intros _ H; contradiction H; reflexivity].
  - intros _. reflexivity.
Qed.

(* ================================================================ Part 2: what will_link says about a trace == *)

Fixpoint we_run (x : we_st) (es : list event) : option we_st :=
  match es with
  | [] => Some x
  | e :: es' => match we_step x e with Some x' => we_run x' es' | None => None end
  end.

Lemma scan_we_run : forall es x, scan we_step x es = true -> exists x', we_run x es = Some x'.
Proof.
  induction es as [|e es IH]; intros x H; cbn [scan we_run] in *; [eexists; reflexivity|].
  destruct (we_step x e) as [x1|]; [apply IH, H|discriminate H].
Qed.

Lemma we_run_app : forall es1 es2 x x', we_run x (es1 ++ es2) = Some x' ->
  exists x1, we_run x es1 = Some x1 /\ we_run x1 es2 = Some x'.
Proof.
  induction es1 as [|e es1 IH]; intros es2 x x' H; cbn [app we_run] in *; [exists x; auto|].
  destruct (we_step x e) as [x1|]; [apply IH, H|discriminate H].
Qed.

Definition ended_f (b : bool) (e : event) : bool := match e with ENewConn => false | EClosed => true | _ => b end.
Definition closing_f (b : bool) (e : event) : bool := match e with ENewConn => false | EConnClose _ => true | _ => b end.

(* the books wl_obs keeps are those of c12_will wherever the clause holds *)
Lemma wl_step_obs t e t' : wl_step t e = Some t' -> wl_obs t e = t'.
Proof.
  intros H. destruct e; cbn [wl_obs]; try (rewrite H; reflexivity).
  - (* EPub *) destruct k; [rewrite H; reflexivity|]. cbn [wl_step] in H.
    destruct (nmem g (wl_procs t)); [inv_some H; reflexivity|].
    destruct (wl_will t) as [w|]; [|discriminate H].
    destruct (message_eqb w m && wl_setup t && negb (wl_disc t) && (wl_pubs t =? 0) && (wl_terms t =? 0)) eqn:C; [|discriminate H].
    inv_some H. apply andb_true_iff in C as [C _]. apply andb_true_iff in C as [_ C]. apply N.eqb_eq in C. rewrite C. reflexivity.
  - (* ETerm *) cbn [wl_step] in H. destruct (wl_auth t && (wl_terms t =? 0)) eqn:C; [|discriminate H].
    inv_some H. apply andb_true_iff in C as [_ C]. apply N.eqb_eq in C. rewrite C. reflexivity.
  - (* EClosed *) cbn [wl_step] in H. cbv zeta in H.
    match type of H with (if ?c then _ else _) = _ => destruct c end; [inv_some H; reflexivity|discriminate H].
Qed.

Lemma cl_step_closing c e c' : cl_step c e = Some c' -> cl_closed c' = closing_f (cl_closed c) e.
Proof.
  intros H. destruct e; cbn [cl_step closing_f] in *; try (inv_some H; reflexivity).
  - repeat match type of H with context [match ?v with _ => _ end] => destruct v end; inv_some H; reflexivity.
  - destruct r; inv_some H; reflexivity.
  - match type of H with (if ?c then _ else _) = _ => destruct c end; [inv_some H; reflexivity|discriminate H].
Qed.

(* one step of will_link, taken apart *)
Lemma we_step_inv x e x' : we_step x e = Some x' ->
  wl_step (we_wl x) e = Some (we_wl x') /\ cl_step (we_cl x) e = Some (we_cl x') /\
  we_end x' = ended_f (we_end x) e /\
  (forall g m k, e = EPub g m k ->
     we_end x = false /\ wl_pubs (we_wl x) = 0 /\
     (k = None -> nmem g (wl_procs (we_wl x)) = false -> cl_closed (we_cl x) = true)) /\
  (we_end x = true -> e = ENewConn \/ after_end_ok e = true).
Proof.
  unfold we_step. intros H.
  destruct (wl_step (we_wl x) e) as [t|] eqn:Et; [|discriminate H].
  destruct (cl_step (we_cl x) e) as [c|] eqn:Ec; [|discriminate H].
  assert (Hgen : forall b, (if negb (we_end x) || after_end_ok e then Some (WeSt t c b) else None) = Some x' ->
            x' = WeSt t c b /\ (we_end x = true -> after_end_ok e = true)).
  { intros b Hb. destruct (negb (we_end x) || after_end_ok e) eqn:C; [|discriminate Hb]. inv_some Hb.
    split; [reflexivity|]. intros Hx. rewrite Hx in C. exact C. }
  destruct e;
    try (destruct (Hgen _ H) as [-> Ha]; cbn [we_wl we_cl we_end ended_f];
         repeat split; try reflexivity; try (intros; discriminate); intros Hx; right; apply Ha, Hx; fail).
  - inv_some H. cbn [we_wl we_cl we_end ended_f]. repeat split; try reflexivity; try (intros; discriminate). intros _; left; reflexivity.
  - (* EPub *)
    destruct (negb (we_end x) && (wl_pubs (we_wl x) =? 0) &&
              match k with Some _ => true | None => nmem g (wl_procs (we_wl x)) || cl_closed (we_cl x) end) eqn:C; [|discriminate H].
    inv_some H. cbn [we_wl we_cl we_end ended_f].
    apply andb_true_iff in C as [C C3]. apply andb_true_iff in C as [C1 C2].
    apply negb_true_iff in C1. apply N.eqb_eq in C2.
    split; [reflexivity|split; [reflexivity|split; [reflexivity|split]]].
    + intros ga ma ka E. injection E as <- <- <-. split; [exact C1|split; [exact C2|]].
      intros -> Hn. rewrite Hn in C3. exact C3.
    + intros Hx. rewrite Hx in C1. discriminate C1.
  - (* EClosed *)
    destruct (we_end x) eqn:Ex; [discriminate H|]. inv_some H. cbn [we_wl we_cl we_end ended_f].
    repeat split; try reflexivity; try (intros; discriminate).
Qed.

Lemma we_run_obs : forall es x x', we_run x es = Some x' ->
  we_wl x' = fold_left wl_obs es (we_wl x) /\
  we_end x' = fold_left ended_f es (we_end x) /\
  cl_closed (we_cl x') = fold_left closing_f es (cl_closed (we_cl x)).
Proof.
  induction es as [|e es IH]; intros x x' H; cbn [we_run fold_left] in *; [inv_some H; auto|].
  destruct (we_step x e) as [x1|] eqn:E; [|discriminate H].
  destruct (we_step_inv _ _ _ E) as (E1 & E2 & E3 & _).
  rewrite (wl_step_obs _ _ _ E1), <- E3, <- (cl_step_closing _ _ _ E2). apply IH, H.
Qed.

(* ---- the books of c12_will, event by event *)

Definition wl_same (t t' : wl_st) : Prop :=
  wl_will t' = wl_will t /\ wl_setup t' = wl_setup t /\ wl_auth t' = wl_auth t /\ wl_pubs t' = wl_pubs t.

Lemma wl_step_cases t e t' : wl_step t e = Some t' ->
  (e = ENewConn /\ t' = wl_new) \/
  (e <> ENewConn /\ wl_pubs t' = wl_pubs t /\ (forall g m, e = EPub g m None -> nmem g (wl_procs t) = true)) \/
  (exists g m w, e = EPub g m None /\ nmem g (wl_procs t) = false /\ wl_will t = Some w /\ message_eqb w m = true /\
     wl_pubs t = 0 /\ wl_pubs t' = 1).
Proof.
  intros H. destruct e; cbn [wl_step] in H;
    try (inv_some H; right; left; split; [discriminate|split; [reflexivity|intros; discriminate]]; fail).
  - left. inv_some H. auto.
  - (* ERx *) right; left. split; [discriminate|]. split; [|intros; discriminate].
    destruct p; try (inv_some H; reflexivity).
    destruct (wl_procs t); inv_some H; reflexivity.
  - (* EAuth *) right; left. split; [discriminate|]. split; [|intros; discriminate]. destruct r; inv_some H; reflexivity.
  - (* ESetup *) right; left. split; [discriminate|]. split; [|intros; discriminate]. destruct r; inv_some H; reflexivity.
  - (* EPub *)
    destruct k as [k|]; [inv_some H; right; left; split; [discriminate|split; [reflexivity|intros; discriminate]]|].
    destruct (nmem g (wl_procs t)) eqn:Eg.
    + inv_some H. right; left. split; [discriminate|split; [reflexivity|]]. intros g0 m0 E. injection E as <- _. exact Eg.
    + destruct (wl_will t) as [w|]; [|discriminate H].
      destruct (message_eqb w m && wl_setup t && negb (wl_disc t) && (wl_pubs t =? 0) && (wl_terms t =? 0)) eqn:C; [|discriminate H].
      inv_some H. right; right. exists g, m, w.
      apply andb_true_iff in C as [C _]. apply andb_true_iff in C as [C C4]. apply andb_true_iff in C as [C _].
      apply andb_true_iff in C as [C1 _]. apply N.eqb_eq in C4.
      repeat split; auto.
  - (* ETerm *) right; left. split; [discriminate|]. split; [|intros; discriminate].
    destruct (wl_auth t && (wl_terms t =? 0)); [inv_some H; reflexivity|discriminate H].
  - (* EClosed *) right; left. split; [discriminate|]. split; [|intros; discriminate]. cbv zeta in H.
    match type of H with (if ?c then _ else _) = _ => destruct c end; [inv_some H; reflexivity|discriminate H].
Qed.

(* within a connection, once something was received the will of the books is fixed *)
Lemma wl_step_will t e t' : wl_step t e = Some t' -> e <> ENewConn -> wl_procs t <> [] ->
  wl_will t' = wl_will t /\ wl_procs t' <> [].
Proof.
  intros H Hne Hp. destruct e; cbn [wl_step] in H; try (contradiction Hne; reflexivity);
    try (inv_some H; split; [reflexivity|exact Hp]; fail).
  - (* ERx *)
    assert (Hpr : (if nmem g (wl_procs t) then wl_procs t else g :: wl_procs t) <> []).
    { destruct (nmem g (wl_procs t)); [exact Hp|discriminate]. }
    destruct p; try (inv_some H; split; [reflexivity|exact Hpr]; fail).
    destruct (wl_procs t) eqn:E; [contradiction Hp; reflexivity|]. inv_some H. split; [reflexivity|exact Hpr].
  - (* ERxErr *) inv_some H. split; [reflexivity|]. cbn [wl_procs]. destruct (nmem g (wl_procs t)); [exact Hp|discriminate].
  - destruct r; inv_some H; split; try reflexivity; exact Hp.
  - destruct r; inv_some H; split; try reflexivity; exact Hp.
  - (* EPub *)
    destruct k as [k|]; [inv_some H; split; [reflexivity|exact Hp]|].
    destruct (nmem g (wl_procs t)); [inv_some H; split; [reflexivity|exact Hp]|].
    destruct (wl_will t) as [w|]; [|discriminate H].
    match type of H with (if ?c then _ else _) = _ => destruct c end; [inv_some H; split; [reflexivity|exact Hp]|discriminate H].
  - destruct (wl_auth t && (wl_terms t =? 0)); [inv_some H; split; [reflexivity|exact Hp]|discriminate H].
  - cbv zeta in H. match type of H with (if ?c then _ else _) = _ => destruct c end; [inv_some H; split; [reflexivity|exact Hp]|discriminate H].
Qed.

(* a will in the books was announced by a received CONNECT: some goroutine has received *)
Lemma wl_step_will_procs t e t' : wl_step t e = Some t' ->
  (wl_will t <> None -> wl_procs t <> []) -> (wl_will t' <> None -> wl_procs t' <> []).
Proof.
  intros H Hi. destruct e; cbn [wl_step] in H; try (inv_some H; exact Hi; fail).
  - inv_some H. intros Hx. contradiction Hx. reflexivity.
  - (* ERx *)
    assert (Hpr : (if nmem g (wl_procs t) then wl_procs t else g :: wl_procs t) <> [] \/ wl_procs t = []).
    { destruct (wl_procs t); [right; reflexivity|left]. destruct (nmem g (n :: l)); discriminate. }
    assert (Hpr' : forall w : option message, (w <> None -> wl_procs t <> []) ->
               w <> None -> (if nmem g (wl_procs t) then wl_procs t else g :: wl_procs t) <> []).
    { intros w Hw Hn. specialize (Hw Hn). destruct (nmem g (wl_procs t)); [exact Hw|discriminate]. }
    destruct p; try (inv_some H; cbn [wl_will wl_procs]; apply Hpr', Hi; fail).
    destruct (wl_procs t) eqn:E.
    + inv_some H. cbn [wl_will wl_procs nmem existsb]. intros _ Hx. discriminate Hx.
    + inv_some H. cbn [wl_will wl_procs]. intros _. match goal with |- (if ?b then _ else _) <> [] => destruct b end; discriminate.
  - inv_some H. cbn [wl_will wl_procs]. intros Hn. specialize (Hi Hn). destruct (nmem g (wl_procs t)); [exact Hi|discriminate].
  - destruct r; inv_some H; exact Hi.
  - destruct r; inv_some H; exact Hi.
  - destruct k as [k|]; [inv_some H; exact Hi|].
    destruct (nmem g (wl_procs t)); [inv_some H; exact Hi|].
    destruct (wl_will t) as [w|]; [|discriminate H].
    match type of H with (if ?c then _ else _) = _ => destruct c end; [inv_some H; exact Hi|discriminate H].
  - destruct (wl_auth t && (wl_terms t =? 0)); [inv_some H; exact Hi|discriminate H].
  - cbv zeta in H. match type of H with (if ?c then _ else _) = _ => destruct c end; [inv_some H; exact Hi|discriminate H].
Qed.

Lemma after_end_neutral t e : after_end_ok e = true -> wl_step t e = Some t.
Proof. destruct e; cbn; intros H; try discriminate H; reflexivity. Qed.

(* ---- an invariant of will_link's state *)

Definition we_inv (x : we_st) : Prop :=
  (we_end x = true -> Bool.eqb (wl_due (we_wl x)) (wl_pubs (we_wl x) =? 1) = true) /\
  (wl_pubs (we_wl x) = 0 \/ wl_pubs (we_wl x) = 1) /\
  (wl_will (we_wl x) <> None -> wl_procs (we_wl x) <> []).

Lemma we_inv_new : we_inv we_new.
Proof. split; [intros H; discriminate H|split; [left; reflexivity|intros H; contradiction H; reflexivity]]. Qed.

Lemma we_inv_step x e x' : we_inv x -> we_step x e = Some x' -> we_inv x'.
Proof.
  intros (I1 & I2 & I3) H. destruct (we_step_inv _ _ _ H) as (E1 & _ & E3 & _ & E5).
  split; [|split].
  - rewrite E3. intros Hx.
    destruct e; cbn [ended_f] in Hx; try discriminate Hx;
      try (destruct (E5 Hx) as [Hc|Hc]; [discriminate Hc|];
           rewrite (after_end_neutral _ _ Hc) in E1; injection E1 as <-; apply I1, Hx; fail);
      try (destruct (E5 Hx) as [Hc|Hc]; discriminate Hc).
    (* EClosed *)
    clear Hx. cbn [wl_step] in E1. cbv zeta in E1. unfold wl_due.
    match type of E1 with (if ?c then _ else _) = _ => destruct c eqn:C end; [|discriminate E1].
    injection E1 as <-. apply andb_true_iff in C as [C _]. exact C.
  - destruct (wl_step_cases _ _ _ E1) as [[_ ->]|[(_ & -> & _)|(g & m & w & _ & _ & _ & _ & _ & ->)]];
      [left; reflexivity|exact I2|right; reflexivity].
  - eapply wl_step_will_procs; [exact E1|exact I3].
Qed.

Lemma we_run_inv : forall es x x', we_inv x -> we_run x es = Some x' -> we_inv x'.
Proof.
  induction es as [|e es IH]; intros x x' Hi H; cbn [we_run] in H; [inv_some H; exact Hi|].
  destruct (we_step x e) as [x1|] eqn:E; [|discriminate H].
  eapply IH; [eapply we_inv_step; eassumption|exact H].
Qed.

(* ---- once the cleanup has published, nothing is handed to the backend on the connection any more *)
Lemma we_run_after_will : forall es x x', we_run x es = Some x' -> wl_pubs (we_wl x) = 1 -> ~ In ENewConn es ->
  wl_pubs (we_wl x') = 1 /\ published es = [].
Proof.
  induction es as [|e es IH]; intros x x' H Hp Hn; cbn [we_run] in H; [inv_some H; auto|].
  destruct (we_step x e) as [x1|] eqn:E; [|discriminate H].
  destruct (we_step_inv _ _ _ E) as (E1 & _ & _ & E4 & _).
  assert (Hne : e <> ENewConn) by (intros ->; apply Hn; left; reflexivity).
  assert (Hn' : ~ In ENewConn es) by (intros Hx; apply Hn; right; exact Hx).
  assert (Hnp : published (e :: es) = published es).
  { destruct e; try reflexivity. destruct (E4 _ _ _ eq_refl) as (_ & Hx & _). rewrite Hx in Hp. discriminate Hp. }
  assert (Hp1 : wl_pubs (we_wl x1) = 1).
  { destruct (wl_step_cases _ _ _ E1) as [[Hx _]|[(_ & -> & _)|(g & m & w & _ & _ & _ & _ & Hx & _)]];
      [contradiction|exact Hp|rewrite Hx in Hp; discriminate Hp]. }
  rewrite Hnp. apply (IH x1 x' H Hp1 Hn').
Qed.

Lemma we_run_will_fixed : forall es x x', we_run x es = Some x' -> ~ In ENewConn es -> wl_procs (we_wl x) <> [] ->
  wl_will (we_wl x') = wl_will (we_wl x).
Proof.
  induction es as [|e es IH]; intros x x' H Hn Hp; cbn [we_run] in H; [inv_some H; reflexivity|].
  destruct (we_step x e) as [x1|] eqn:E; [|discriminate H].
  destruct (we_step_inv _ _ _ E) as (E1 & _).
  assert (Hne : e <> ENewConn) by (intros ->; apply Hn; left; reflexivity).
  assert (Hn' : ~ In ENewConn es) by (intros Hx; apply Hn; right; exact Hx).
  destruct (wl_step_will _ _ _ E1 Hne Hp) as [Hw Hp1]. rewrite <- Hw. apply (IH x1 x' H Hn' Hp1).
Qed.

(* ---- where the will's Publish sits *)
Lemma will_position : forall es x x', we_run x es = Some x' -> wl_pubs (we_wl x') = 1 ->
  (wl_pubs (we_wl x) = 1 /\ published es = [] /\ ~ In ENewConn es) \/
  (exists es1 g m es2 x1 w,
     es = es1 ++ EPub g m None :: es2 /\ we_run x es1 = Some x1 /\
     wl_pubs (we_wl x1) = 0 /\ nmem g (wl_procs (we_wl x1)) = false /\
     wl_will (we_wl x1) = Some w /\ message_eqb w m = true /\ cl_closed (we_cl x1) = true /\
     published es2 = [] /\ ~ In ENewConn es2).
Proof.
  induction es as [|e es IH]; intros x x' H Hp; cbn [we_run] in H.
  - inv_some H. left. split; [exact Hp|split; [reflexivity|intros []]].
  - destruct (we_step x e) as [x1|] eqn:E; [|discriminate H].
    destruct (IH x1 x' H Hp) as [(Hp1 & Hpub & Hn)|(es1 & g & m & es2 & x2 & w & -> & Hr & A)].
    + destruct (we_step_inv _ _ _ E) as (E1 & _ & _ & E4 & _).
      destruct (wl_step_cases _ _ _ E1) as [[_ Hx]|[(Hne & Hx & _)|(g & m & w & -> & Hg & Hw & Hm & Hp0 & _)]].
      * rewrite Hx in Hp1. discriminate Hp1.
      * left. rewrite Hx in Hp1. split; [exact Hp1|]. split.
        -- destruct e; try exact Hpub. destruct (E4 _ _ _ eq_refl) as (_ & Hy & _). rewrite Hy in Hp1. discriminate Hp1.
        -- intros [Hy|Hy]; [apply Hne; exact Hy|apply Hn, Hy].
      * right. exists [], g, m, es, x, w. destruct (E4 _ _ _ eq_refl) as (_ & _ & Hc).
        repeat split; auto.
    + right. exists (e :: es1), g, m, es2, x2, w. split; [reflexivity|]. split; [cbn [we_run]; rewrite E; exact Hr|exact A].
Qed.

(* ---- the last connection of a trace is the one the books describe *)
Lemma event_eq_newconn (e : event) : {e = ENewConn} + {e <> ENewConn}.
Proof. destruct e; try (right; discriminate). left; reflexivity. Qed.

Lemma fold_closing_indep : forall es b b', In ENewConn es -> fold_left closing_f es b = fold_left closing_f es b'.
Proof.
  induction es as [|e es IH]; intros b b' H; [destruct H|]. cbn [fold_left].
  destruct (event_eq_newconn e) as [->|Hne]; [reflexivity|].
  destruct H as [H|H]; [contradiction (Hne H)|]. apply IH, H.
Qed.

(* an accepted trace begins with a connection *)
Lemma step_clo_nil s e : clos s = [] -> step_clo s e = None.
Proof.
  intros Hc. unfold step_clo. destruct e; try reflexivity; rewrite Hc; cbn [clo_find clo_del_find clo_stat_find]; try reflexivity.
  - destruct d; reflexivity.
  - destruct k; reflexivity.
Qed.

Lemma bc_run_head e es s : bc_run (e :: es) = Some s -> e = ENewConn.
Proof.
  unfold bc_run. cbn [Lts.run]. destruct (step bc_init e) as [s1|] eqn:E; [intros _|discriminate].
  assert (Hc : step_clo bc_init e = None) by (apply step_clo_nil; reflexivity).
  unfold step in E. change (conn_open bc_init) with false in E. cbn [negb] in E.
  destruct e; try reflexivity; try (rewrite Hc in E; discriminate E); try discriminate E.
Qed.

Lemma will_link_run es : will_link es = true ->
  exists x, we_run we_new es = Some x /\ we_inv x /\ we_wl x = obs es /\ we_end x = ended es.
Proof.
  intros H. destruct (scan_we_run es we_new H) as (x & Hr). exists x.
  destruct (we_run_obs es we_new x Hr) as (O1 & O2 & _).
  split; [exact Hr|split; [exact (we_run_inv es we_new x we_inv_new Hr)|split; [exact O1|exact O2]]].
Qed.

Lemma published_app es1 es2 : published (es1 ++ es2) = published es1 ++ published es2.
Proof. unfold published. apply flat_map_app. Qed.

(* (a): the connection hands a due will to the backend exactly once, when its transport has been closed, and
   nothing afterwards — from the clause will_link alone *)
Theorem will_once_conn es m :
  will_link es = true -> hd_error es = Some ENewConn -> will_due es = Some m ->
  exists es1 g es2, will_handed_once es m es1 g es2.
Proof.
  intros HL Hhd Hdue.
  destruct (will_link_run es HL) as (x & Hr & (I1 & I2 & I3) & Ow & Oe).
  unfold will_due, connect_accepted, ended_uncleanly, disconnected, will_of in Hdue. rewrite <- Ow, <- Oe in Hdue.
  destruct (wl_setup (we_wl x)) eqn:Es; [|discriminate Hdue].
  destruct (we_end x) eqn:Ee; [|discriminate Hdue].
  destruct (wl_disc (we_wl x)) eqn:Ed; [discriminate Hdue|]. cbn [andb negb] in Hdue.
  assert (Hp : wl_pubs (we_wl x) = 1).
  { specialize (I1 eq_refl). unfold wl_due in I1. rewrite Es, Ed, Hdue in I1. cbn [andb negb] in I1.
    destruct (wl_pubs (we_wl x) =? 1) eqn:C; [apply N.eqb_eq, C|discriminate I1]. }
  destruct (will_position es we_new x Hr Hp) as [(Hx & _)|(es1 & g & m' & es2 & x1 & w & -> & Hr1 & P0 & Pg & Pw & Pm & Pc & Pp & Pn)];
    [discriminate Hx|].
  apply message_eqb_true in Pm. subst m'.
  destruct (we_run_app _ _ _ _ Hr) as (x1' & Hr1' & Hr2). rewrite Hr1 in Hr1'. injection Hr1' as <-.
  destruct (we_run_obs es1 we_new x1 Hr1) as (O1 & _ & O3).
  (* the will of the books does not change after the Publish *)
  assert (Hprocs : wl_procs (we_wl x1) <> []).
  { destruct (we_run_inv es1 we_new x1 we_inv_new Hr1) as (_ & _ & J3). apply J3. rewrite Pw. discriminate. }
  assert (Hwill : wl_will (we_wl x) = wl_will (we_wl x1)).
  { apply (we_run_will_fixed (EPub g w None :: es2) x1 x Hr2); [|exact Hprocs].
    intros [Hx|Hx]; [discriminate Hx|exact (Pn Hx)]. }
  rewrite Hwill, Pw in Hdue. injection Hdue as ->.
  exists es1, g, es2. unfold will_handed_once, will_pubs, by_cleanup.
  change (obs es1) with (fold_left wl_obs es1 (we_wl we_new)). rewrite <- O1, <- Ow, P0, Pg, Hp.
  repeat split; auto.
  (* the transport was closed on this connection *)
  destruct es1 as [|e0 es1]; [discriminate Hhd|]. cbn [hd_error app] in Hhd. injection Hhd as ->.
  change (closing (ENewConn :: es1)) with (fold_left closing_f (ENewConn :: es1) false).
  rewrite (fold_closing_indep (ENewConn :: es1) false (cl_closed (we_cl we_new))); [|left; reflexivity].
  rewrite <- Pc. symmetry. exact O3.
Qed.

(* ... and when no will is due — no will announced, the CONNECT not accepted, or a DISCONNECT received — the
   connection that has ended has handed none: every Publish without closure on it was a processor's *)
Theorem will_never_conn es :
  will_link es = true -> ended es = true -> will_due es = None ->
  will_pubs es = 0 /\
  forall es1 g m' es2, es = es1 ++ EPub g m' None :: es2 -> ~ In ENewConn es2 -> by_cleanup es1 g = false.
Proof.
  intros HL He Hdue.
  destruct (will_link_run es HL) as (x & Hr & (I1 & I2 & I3) & Ow & Oe).
  assert (Hp : wl_pubs (we_wl x) = 0).
  { rewrite <- Oe in He. specialize (I1 He).
    unfold will_due, connect_accepted, ended_uncleanly, disconnected, will_of in Hdue. rewrite <- Ow, <- Oe, He in Hdue.
    assert (Hd : wl_due (we_wl x) = false).
    { unfold wl_due. destruct (wl_setup (we_wl x)); [|reflexivity]. destruct (wl_disc (we_wl x)); [reflexivity|].
      cbn [andb negb] in Hdue. rewrite Hdue. reflexivity. }
    rewrite Hd in I1. destruct I2 as [I2|I2]; [exact I2|]. rewrite I2 in I1. discriminate I1. }
  split; [unfold will_pubs; rewrite <- Ow; exact Hp|].
  intros es1 g m' es2 -> Hn.
  destruct (we_run_app _ _ _ _ Hr) as (x1 & Hr1 & Hr2).
  destruct (we_run_obs es1 we_new x1 Hr1) as (O1 & _).
  cbn [we_run] in Hr2. destruct (we_step x1 (EPub g m' None)) as [x2|] eqn:E; [|discriminate Hr2].
  destruct (we_step_inv _ _ _ E) as (E1 & _).
  unfold by_cleanup. change (obs es1) with (fold_left wl_obs es1 (we_wl we_new)). rewrite <- O1.
  destruct (wl_step_cases _ _ _ E1) as [[Hx _]|[(_ & _ & Hg)|(g0 & m0 & w & _ & _ & _ & _ & _ & Hp2)]].
  - discriminate Hx.
  - rewrite (Hg g m' eq_refl). reflexivity.
  - destruct (we_run_after_will es2 x2 x Hr2 Hp2 Hn) as [Hx _]. rewrite Hx in Hp. discriminate Hp.
Qed.

(* ================================================================ Part 3: the will's Publish in the backend == *)

Module MB.
Import Broker.Backend Broker.BackendSpec Broker.BackendProofs Broker.BackendProofsPublish Broker.BackendProofsSteps
  Broker.BackendOwn Broker.BackendProofsHist Broker.BackendLog.

Lemma trace_in_ops : forall ops st s o r s', In (s, o, r, s') (trace st ops) -> In o ops.
Proof.
  induction ops as [|o0 ops IH]; intros st s o r s' H; cbn [trace] in H; [destruct H|].
  destruct (step st o0) as [r0 st1]. destruct H as [H|H]; [injection H as _ <- _ _; left; reflexivity|right; eapply IH; exact H].
Qed.

Lemma deliver_subs e got k a m s : s_subs (deliver e got k a m s) = s_subs s.
Proof.
  unfold deliver, enqueue. destruct a; try reflexivity.
  destruct e; [destruct (mem_key k got)|]; destruct (use_temp m); reflexivity.
Qed.

Lemma enq_event_publish k temp st c m got r s :
  get_session st k = Some s ->
  enq_event k temp st (OPublish c m got) r =
  if is_ok r && Bool.eqb (use_temp m) temp && has_match (s_subs s) (m_topic m) &&
     negb (is_full (st_cap st) (queue temp s))
  then [live m] else [].
Proof.
  intros G. unfold enq_event, live. rewrite G.
  destruct (Bool.eqb (use_temp m) temp), (has_match (s_subs s) (m_topic m)), (is_full (st_cap st) (queue temp s));
    destruct r; reflexivity.
Qed.

(* at most one copy, on one of the two queues *)
Lemma will_copies_publish_le1 k st c m got r st1 :
  (length (will_copies k (st, OPublish c m got, r, st1)) <= 1)%nat.
Proof.
  unfold will_copies. destruct (get_session st k) as [s|] eqn:G.
  - rewrite !(enq_event_publish k _ st c m got r s G).
    destruct (is_ok r), (use_temp m), (has_match (s_subs s) (m_topic m)),
      (is_full (st_cap st) (queue true s)), (is_full (st_cap st) (queue false s)); cbn; lia.
  - unfold enq_event. rewrite G. cbn. lia.
Qed.

Theorem will_step_holds cap ops st c m got r st1 :
  names_ok ops = true ->
  In (st, OPublish c m got, r, st1) (history cap ops) -> returned r = true ->
  will_step_spec m (st, OPublish c m got, r, st1).
Proof.
  intros Hnames Hin Hret. unfold history in Hin.
  destruct (trace_step_facts _ _ _ _ _ _ Hin) as (W & Ow & E). cbn [step] in E.
  pose proof (own_ownok st Ow) as O.
  assert (Hn : name_ok (m_topic m) = true).
  { pose proof (trace_in_ops _ _ _ _ _ _ Hin) as Ho. unfold names_ok in Hnames. rewrite forallb_forall in Hnames.
    exact (Hnames _ Ho). }
  pose proof E as E0. rewrite publish_unfold in E.
  exists st, c, got, r, st1. split; [reflexivity|].
  destruct (pub_stuck st c m) eqn:Hs.
  - (* refused by the pre-check (a waiting call has not returned) *)
    destruct (own_refused st c m) eqn:R; injection E as <- <-; [|discriminate Hret].
    split; [right; reflexivity|].
    split; [split; [intros _; rewrite <- (own_refused_own_full st c m Hn); exact R|reflexivity]|].
    split; [intros D; unfold own_refused in R; rewrite D in R; discriminate R|].
    split; [reflexivity|].
    split; [intros t; reflexivity|].
    intros k s G. exists s. split; [exact G|split; [reflexivity|]].
    split; [|split].
    + intros temp. rewrite (enq_event_publish k temp st c m got RQueueFull s G). cbn [is_ok andb]. rewrite app_nil_r. reflexivity.
    + intros temp. apply enq_event_publish, G.
    + intros Hx; discriminate Hx.
  - (* accepted *)
    unfold pub_stuck in Hs. apply orb_false_iff in Hs as [R Hb].
    pose proof (no_midway st c m W O R) as Herr. rewrite Herr in *. cbn [negb andb] in Hb.
    injection E as <- Est.
    split; [left; reflexivity|].
    split; [split; [intros Hx; discriminate Hx|intros Hx; rewrite <- (own_refused_own_full st c m Hn), R in Hx; discriminate Hx]|].
    split; [reflexivity|].
    split; [intros Hx; discriminate Hx|].
    split; [intros t; rewrite <- Est; cbn [st_retained is_ok]; apply alookup_retain_update|].
    intros k s G.
    assert (Hnb : pub_stuck st c m = false) by (unfold pub_stuck; rewrite R, Herr, Hb; reflexivity).
    pose proof (get_session_published st c m got k Hnb) as Gp. cbv zeta in Gp. rewrite E0, G in Gp. cbn [snd option_map] in Gp.
    eexists. split; [exact Gp|]. split; [apply deliver_subs|]. split; [|split].
    + intros temp. pose proof (publish_queue st c m got temp k s W O Hn G) as Q. rewrite E0 in Q.
      destruct Q as (s' & G' & Q). rewrite Gp in G'. injection G' as <-. exact Q.
    + intros temp. apply enq_event_publish, G.
    + intros _ Hm Hf. pose proof (get_sessions st k s G) as Hi.
      pose proof (pub_err_false_session st c m k s Herr Hi) as He.
      pose proof (pub_blk_false_session st c m k s Hb Hi) as Hbl.
      rewrite (classify_cases st c m s Hn) in He, Hbl. rewrite queue_of_queue, Hm, Hf in He, Hbl.
      destruct (s_act s) as [c'|]; [right; exists c'; split; [reflexivity|]|left; reflexivity].
      destruct (c' =? c) eqn:Ec.
      * apply N.eqb_eq in Ec. subst c'. destruct (mem_n c (st_dying st)); [reflexivity|discriminate He].
      * destruct (mem_n c' (st_dying st)); [reflexivity|discriminate Hbl].
Qed.

End MB.

(* ================================================================ Part 4: the composition == *)

(* ---- lists: sequences that list at most one item per element *)
Section OMap.
  Context {A B : Type}.
  Variable f : A -> option B.
  Definition omap (l : list A) : list B := flat_map (fun a => match f a with Some b => [b] | None => [] end) l.

  Lemma omap_split : forall l P1 b P2, omap l = P1 ++ b :: P2 ->
    exists l1 a l2, l = l1 ++ a :: l2 /\ f a = Some b /\ omap l1 = P1 /\ omap l2 = P2.
  Proof.
    induction l as [|a0 l IH]; intros P1 b P2 H; [destruct P1; discriminate H|].
    unfold omap in H. cbn [flat_map] in H. fold (omap l) in H. destruct (f a0) as [b0|] eqn:Ef.
    - destruct P1 as [|p P1]; cbn [app] in H.
      + injection H as -> H. exists [], a0, l. repeat split; auto.
      + injection H as -> H. destruct (IH P1 b P2 H) as (l1 & a & l2 & -> & Ha & H1 & H2).
        exists (a0 :: l1), a, l2. repeat split; auto. unfold omap. cbn [flat_map]. rewrite Ef. fold (omap l1). rewrite H1. reflexivity.
    - cbn [app] in H. destruct (IH P1 b P2 H) as (l1 & a & l2 & -> & Ha & H1 & H2).
      exists (a0 :: l1), a, l2. repeat split; auto. unfold omap. cbn [flat_map]. rewrite Ef. fold (omap l1). exact H1.
  Qed.
End OMap.

Definition ev_pub (e : event) : option message := match e with EPub _ m _ => Some m | _ => None end.

Lemma published_omap es : published es = omap ev_pub es.
Proof. unfold published, omap. apply flat_map_ext. intros e. destruct e; reflexivity. Qed.

Lemma pub_calls_omap cPs (tr : list bstep) : pub_calls cPs tr = omap (pub_call_of cPs) tr.
Proof.
  unfold pub_calls, omap. apply flat_map_ext. intros [[[st o] r] st1]. destruct o; try reflexivity.
  cbn [pub_call_of]. destruct (Backend.mem_n c cPs && returned r); reflexivity.
Qed.

Lemma pub_call_of_inv cPs (x : bstep) m : pub_call_of cPs x = Some m ->
  exists st c got r st1, x = (st, Backend.OPublish c m got, r, st1) /\ Backend.mem_n c cPs = true /\ returned r = true.
Proof.
  destruct x as [[[st o] r] st1]. destruct o; try discriminate. cbn [pub_call_of].
  destruct (Backend.mem_n c cPs && returned r) eqn:C; [|discriminate]. intros H. injection H as ->.
  apply andb_true_iff in C as [C1 C2]. exists st, c, got, r, st1. auto.
Qed.

Lemma prefix_snoc {A} (xs ys : list A) y : prefix_of xs (ys ++ [y]) -> xs = ys ++ [y] \/ prefix_of xs ys.
Proof.
  intros [rest H]. induction rest as [|z rest' _] using rev_ind.
  - left. rewrite app_nil_r in H. symmetry. exact H.
  - right. rewrite app_assoc in H. apply app_inj_tail in H as [H _]. exists rest'. exact H.
Qed.

Lemma count_key_le_length t p l : (count_key t p l <= length l)%nat.
Proof. unfold count_key. induction l as [|x l IH]; cbn [filter length]; [lia|]. destruct (_ && _); cbn [length]; lia. Qed.

Lemma enqueued_app k temp (tr1 tr2 : list bstep) : enqueued k temp (tr1 ++ tr2) = enqueued k temp tr1 ++ enqueued k temp tr2.
Proof. unfold enqueued. apply flat_map_app. Qed.

Lemma omap_app {A B} (f : A -> option B) l1 l2 : omap f (l1 ++ l2) = omap f l1 ++ omap f l2.
Proof. unfold omap. apply flat_map_app. Qed.

Lemma ev_pub_inv e m : ev_pub e = Some m -> exists g k, e = EPub g m k.
Proof. destruct e; try discriminate. cbn [ev_pub]. intros H. injection H as ->. eauto. Qed.

(* C12 end to end: a will that is due.

   esW is the trace of a session lifetime accepted by BC whose last connection has ended with a will m due
   (CONNECT with will accepted, EClosed, no DISCONNECT received); ops any backend history with legal topic
   names; cPs the backend's numbers of the connections of esW; esS a connection trace accepted by BC whose
   Dequeue calls are those on session k of the history.  Then, for some position es1 ++ [EPub g m None] ++ es2
   of esW:
   (a) the connection hands m to the backend exactly once: that event is the only Publish of the connection's
       cleanup (will_pubs: 0 before, 1 at the end), with exactly the message m, made when the connection's
       transport had been closed, and nothing is handed to the backend afterwards (published es2 = [], same
       connection): the will follows the connection's last ordinary Publish;
   (b) if the call has returned in the history, it is the LAST returned Publish x of the clients cPs there
       (pub_calls cPs tr1 = the connection's ordinary Publishes, pub_calls cPs tr2 = []), by a client in cPs with
       message m, and the backend treats it as will_step_spec says: never refused if the backend sees the
       publisher closing; one copy per session iff that session holds a matching filter then (and has room);
       retained store updated iff retain; the own-full-queue exception;
       if it has not returned, every returned Publish of cPs in the history is an ordinary one;
   (c) the subscriber's connection forwards a message with the will's topic and payload as a fresh PUBLISH at
       most as often as x enqueued it for session k (at most once) plus as often as the rest of the history
       enqueued that content for k (elsewhere: other Publishes of the same content, retained replays); and every
       fresh PUBLISH it sends is a message it dequeued, intact and QoS-capped from one enqueued for k. *)
Theorem will_e2e_once : forall cap ops cPs k esW esS sW sS m,
  bc_run esW = Some sW -> bc_run esS = Some sS ->
  BackendLog.names_ok ops = true ->
  glue_publish cPs esW (history cap ops) ->
  glue_dequeue k esS (history cap ops) ->
  will_due esW = Some m ->
  exists es1 g es2,
    will_handed_once esW m es1 g es2 /\
    (will_returned cPs esW (history cap ops) ->
       exists tr1 x tr2,
         history cap ops = tr1 ++ x :: tr2 /\
         pub_call_of cPs x = Some m /\ pub_calls cPs tr1 = published es1 /\ pub_calls cPs tr2 = [] /\
         will_step_spec m x /\
         (length (will_copies k x) <= 1)%nat /\
         (count_key (m_topic m) (m_payload m) (forwarded esS) <=
            length (will_copies k x) + elsewhere k (m_topic m) (m_payload m) tr1 tr2)%nat) /\
    (~ will_returned cPs esW (history cap ops) ->
       prefix_of (pub_calls cPs (history cap ops)) (published es1)) /\
    (forall y, In y (forwarded esS) ->
       In y (dequeued esS) /\ exists temp z, In z (enqueued k temp (history cap ops)) /\ capped y z).
Proof.
  intros cap ops cPs k esW esS sW sS m HW HS Hnames Gp Gd Hdue.
  pose proof (will_link_holds esW sW HW) as HL.
  assert (Hhd : hd_error esW = Some ENewConn).
  { destruct esW as [|e0 esW']; [discriminate Hdue|]. rewrite (bc_run_head e0 esW' sW HW). reflexivity. }
  destruct (will_once_conn esW m HL Hhd Hdue) as (es1 & g & es2 & Hh).
  exists es1, g, es2. split; [exact Hh|].
  destruct Hh as (Ees & _ & _ & _ & _ & Hp2 & _).
  assert (Hpub : published esW = published es1 ++ [m]).
  { rewrite Ees, published_app. change (published (EPub g m None :: es2)) with (m :: published es2). rewrite Hp2. reflexivity. }
  destruct (e2e_intact_once cap ops k esS sS HS Hnames Gd) as [Hin Hcount].
  split; [|split; [|exact Hin]].
  - (* the call has returned *)
    intros Hret. unfold will_returned in Hret.
    assert (Hall : pub_calls cPs (history cap ops) = published es1 ++ [m]).
    { destruct Gp as [rest Hr]. rewrite <- Hpub, Hr. rewrite Hr, app_length in Hret.
      destruct rest; [rewrite app_nil_r; reflexivity|cbn [length] in Hret; lia]. }
    rewrite pub_calls_omap in Hall.
    destruct (omap_split _ _ _ _ _ Hall) as (tr1 & x & tr2 & Etr & Hx & H1 & H2).
    rewrite <- pub_calls_omap in H1, H2.
    exists tr1, x, tr2. split; [exact Etr|split; [exact Hx|split; [exact H1|split; [exact H2|]]]].
    destruct (pub_call_of_inv cPs x m Hx) as (st & c & got & r & st1 & -> & Hc & Hr).
    assert (Hmem : In (st, Backend.OPublish c m got, r, st1) (history cap ops)) by (rewrite Etr; apply in_elt).
    split; [exact (MB.will_step_holds cap ops st c m got r st1 Hnames Hmem Hr)|].
    split; [apply MB.will_copies_publish_le1|].
    destruct (Hcount (m_topic m) (m_payload m)) as [C1 C2].
    rewrite Etr in C2. rewrite !enqueued_app, !EndToEndProofsBackend.enqueued_cons, !count_key_app in C2.
    pose proof (count_key_le_length (m_topic m) (m_payload m) (will_copies k (st, Backend.OPublish c m got, r, st1))) as C3.
    unfold will_copies in C3 |- *. rewrite count_key_app in C3. unfold elsewhere. lia.
  - (* the call has not returned: only ordinary Publishes so far *)
    intros Hnot. unfold glue_publish in Gp. rewrite Hpub in Gp.
    destruct (prefix_snoc _ _ _ Gp) as [E|P]; [|exact P].
    exfalso. apply Hnot. unfold will_returned. rewrite E, Hpub. reflexivity.
Qed.

(* ... in particular "at most once": when nothing else in the history brings the will's content to session k *)
Lemma enq_none k t p (l : list bstep) :
  (forall y, In y l -> enq_here k t p y = 0%nat) ->
  (count_key t p (enqueued k true l) + count_key t p (enqueued k false l) = 0)%nat.
Proof.
  induction l as [|y l IH]; intros H; [reflexivity|].
  change (y :: l) with ([y] ++ l). rewrite !enqueued_app, !count_key_app.
  pose proof (H y (or_introl eq_refl)) as Hy. unfold enq_here in Hy.
  assert (Hl : forall z, In z l -> enq_here k t p z = 0%nat) by (intros z Hz; apply H; right; exact Hz).
  specialize (IH Hl). lia.
Qed.

Lemma will_fresh_elsewhere cPs k m (tr tr1 tr2 : list bstep) x :
  will_fresh cPs k m tr = true -> tr = tr1 ++ x :: tr2 -> pub_call_of cPs x = Some m ->
  elsewhere k (m_topic m) (m_payload m) tr1 tr2 = 0%nat.
Proof.
  intros Hf -> Hx. unfold will_fresh in Hf. apply andb_true_iff in Hf as [H1 H2]. apply Nat.eqb_eq in H1.
  assert (Hw : is_will_call cPs m x = true) by (unfold is_will_call; rewrite Hx; apply message_eqb_refl).
  rewrite filter_app in H1. cbn [filter] in H1. rewrite Hw, app_length in H1. cbn [length] in H1.
  assert (F1 : filter (is_will_call cPs m) tr1 = []) by (apply length_zero_iff_nil; lia).
  assert (F2 : filter (is_will_call cPs m) tr2 = []) by (apply length_zero_iff_nil; lia).
  rewrite forallb_app in H2. apply andb_true_iff in H2 as [G1 G2]. cbn [forallb] in G2. apply andb_true_iff in G2 as [_ G2].
  rewrite forallb_forall in G1, G2.
  assert (Z : forall l, filter (is_will_call cPs m) l = [] ->
              (forall y, In y l -> is_will_call cPs m y || Nat.eqb (enq_here k (m_topic m) (m_payload m) y) 0 = true) ->
              forall y, In y l -> enq_here k (m_topic m) (m_payload m) y = 0%nat).
  { intros l Fl Gl y Hy. specialize (Gl y Hy). rewrite (proj1 (filter_nil_iff _ l) Fl y Hy) in Gl. apply Nat.eqb_eq, Gl. }
  pose proof (enq_none k _ _ tr1 (Z tr1 F1 G1)) as E1. pose proof (enq_none k _ _ tr2 (Z tr2 F2 G2)) as E2.
  unfold elsewhere. lia.
Qed.

Theorem will_e2e_at_most_once : forall cap ops cPs k esW esS sW sS m,
  bc_run esW = Some sW -> bc_run esS = Some sS ->
  BackendLog.names_ok ops = true ->
  glue_publish cPs esW (history cap ops) ->
  glue_dequeue k esS (history cap ops) ->
  will_due esW = Some m ->
  will_returned cPs esW (history cap ops) ->
  will_fresh cPs k m (history cap ops) = true ->
  (count_key (m_topic m) (m_payload m) (forwarded esS) <= 1)%nat.
Proof.
  intros cap ops cPs k esW esS sW sS m HW HS Hnames Gp Gd Hdue Hret Hfresh.
  destruct (will_e2e_once cap ops cPs k esW esS sW sS m HW HS Hnames Gp Gd Hdue) as (es1 & g & es2 & _ & Hb & _).
  destruct (Hb Hret) as (tr1 & x & tr2 & Etr & Hx & _ & _ & _ & L1 & L2).
  rewrite (will_fresh_elsewhere cPs k m _ tr1 tr2 x Hfresh Etr Hx) in L2. lia.
Qed.

(* C12 end to end: no will.  When the connection has ended after a received DISCONNECT, or its CONNECT was not
   accepted (authentication denied or failed, Setup failed), its cleanup has handed nothing to the backend:
   every Publish without acknowledgement closure on that connection was made by a goroutine that had received
   (the processor, for the QoS 0 PUBLISH it received last: arrival_link) — and so, with the glue, every returned
   Publish operation of the clients cPs in a history IS one EPub event of the trace, and none of those of the
   last connection is a Publish of the cleanup: no operation of the history publishes the will. *)
Theorem will_e2e_never : forall esW sW,
  bc_run esW = Some sW -> ended esW = true ->
  disconnected esW = true \/ connect_accepted esW = false ->
  will_due esW = None /\ will_pubs esW = 0 /\
  (forall es1 g m' es2, esW = es1 ++ EPub g m' None :: es2 -> ~ In ENewConn es2 -> by_cleanup es1 g = false) /\
  (forall cap ops cPs, glue_publish cPs esW (history cap ops) ->
     forall tr1 x tr2 m', history cap ops = tr1 ++ x :: tr2 -> pub_call_of cPs x = Some m' ->
       exists es1 g ko es2, esW = es1 ++ EPub g m' ko :: es2 /\ published es1 = pub_calls cPs tr1 /\
         (~ In ENewConn es2 -> ko = None -> by_cleanup es1 g = false)).
Proof.
  intros esW sW HW He Hc.
  pose proof (will_link_holds esW sW HW) as HL.
  assert (Hdue : will_due esW = None).
  { unfold will_due, ended_uncleanly. destruct Hc as [-> | ->]; [cbn [negb]; rewrite !andb_false_r|]; reflexivity. }
  destruct (will_never_conn esW HL He Hdue) as [Hp Hproc].
  split; [exact Hdue|split; [exact Hp|split; [exact Hproc|]]].
  intros cap ops cPs Gp tr1 x tr2 m' Etr Hx.
  destruct Gp as [rest Hr]. rewrite Etr, pub_calls_omap, omap_app in Hr.
  change (omap (pub_call_of cPs) (x :: tr2)) with
    ((match pub_call_of cPs x with Some b => [b] | None => [] end) ++ omap (pub_call_of cPs) tr2) in Hr.
  rewrite Hx, published_omap in Hr. rewrite <- !app_assoc in Hr. cbn [app] in Hr.
  destruct (omap_split _ _ _ _ _ Hr) as (es1 & a & es2 & Ees & Ha & H1 & _).
  destruct (ev_pub_inv a m' Ha) as (g & ko & ->).
  exists es1, g, ko, es2. split; [exact Ees|]. split; [rewrite published_omap, pub_calls_omap; exact H1|].
  intros Hn ->. exact (Hproc es1 g m' es2 Ees Hn).
Qed.

(* the exception in the backend model, spelled out for the publisher's own session: at the will's Publish the
   publisher c still holds session k, k holds a filter matching the will's topic and its queue for the will's QoS
   class is full.  If the backend sees c as closing (st_dying: after a takeover or the backend's Close; in the Go
   code also client.Closing() of a connection dying by itself) the call returns nil and c's own session gets
   nothing (the fix d814c38 / 25be3de: skipped, not refused) while every other session is served as usual.  If it does
   not, the call is refused (ErrQueueFull) and NOTHING happens: no session gets the will, the retained store is
   untouched. *)
Theorem will_own_queue_full : forall cap ops st c m got r st1 k s,
  BackendLog.names_ok ops = true ->
  In (st, Backend.OPublish c m got, r, st1) (history cap ops) -> returned r = true ->
  Backend.session_of st c = Some (k, s) ->
  BackendSpec.has_match (Backend.s_subs s) (m_topic m) = true ->
  Backend.is_full (Backend.st_cap st) (BackendLog.queue (Backend.use_temp m) s) = true ->
  (Backend.mem_n c (Backend.st_dying st) = true ->
     r = Backend.ROk /\ will_copies k (st, Backend.OPublish c m got, r, st1) = []) /\
  (Backend.mem_n c (Backend.st_dying st) = false -> r = Backend.RQueueFull /\ st1 = st).
Proof.
  intros cap ops st c m got r st1 k s Hnames Hin Hret Hs Hm Hf.
  destruct (MB.will_step_holds cap ops st c m got r st1 Hnames Hin Hret) as
    (st' & c' & got' & r' & st1' & E & Hr & Hfull & Hdy & Hsame & _ & Hsess).
  injection E as <- <- <- <- <-.
  assert (G : Backend.get_session st k = Some s).
  { unfold Backend.session_of in Hs. destruct (Backend.alookup N.eqb c (Backend.st_sess st)) as [k0|]; [|discriminate Hs].
    destruct (Backend.get_session st k0) as [s0|] eqn:G0; [|discriminate Hs]. injection Hs as <- <-. exact G0. }
  split.
  - intros D. split; [exact (Hdy D)|]. destruct (Hsess k s G) as (s1 & _ & _ & _ & Hq & _).
    unfold will_copies. rewrite !Hq.
    destruct (Backend.use_temp m); cbn [Bool.eqb]; rewrite ?Hf, ?andb_false_r; cbn [negb andb app]; rewrite ?andb_false_r; reflexivity.
  - intros D. assert (Ho : BackendSpec.own_full st c m = true).
    { unfold BackendSpec.own_full. rewrite D, Hs, Hm. cbn [negb andb]. exact Hf. }
    apply Hfull in Ho. split; [exact Ho|exact (Hsame Ho)].
Qed.
