(* ConnProofsA_traces.v — traces observed on the implementation (recorded by
   go/cmd/brokerconn, families c20, c12, c07), used as non-vacuity witnesses of the
   C20 and C12 theorems: each is accepted by the model.  Everything by computation. *)
From Coq Require Import List NArith Bool.
From Coq.Strings Require Import Byte.
From GM Require Import Base.Lts Codec.Packet Session.Store Broker.Conn Broker.ConnSpec.
Import ListNotations.
Open Scope N_scope.

Definition accepted_a (es : list event) : bool :=
  match bc_run es with Some _ => true | None => false end.

(* scenario c20/pipe-3-m1 *)
Definition tr_pipe : list event :=
  [ ENewConn;
    ERx 2 (Connect (Conn [x63] 0 [] [] true None 4));
    EAuth 2 AOk;
    ESetup 2 (SOk false false 10 10 10);
    ETx 2 (Connack false 0) false true;
    EAll 2 Outgoing (Some []);
    ERestore 2 true;
    EDeqCall 3;
    ERx 2 (Subscribe 48825 [([x66; x30; x2f; x2b], 0); ([x66; x31; x2f; x2b], 1); ([x66; x32; x2f; x2b], 2)]);
    ESub 2 [([x66; x30; x2f; x2b], 0); ([x66; x31; x2f; x2b], 1); ([x66; x32; x2f; x2b], 2)] 1;
    ESubRet 2 true;
    ERx 2 Pingreq;
    ETx 2 Pingresp true true;
    ERx 2 (Unsubscribe 48826 [[x78]; [x79]]);
    EUnsub 2 [[x78]; [x79]] 2;
    EUnsubRet 2 true;
    ERx 2 (Subscribe 48825 [([x66; x30; x2f; x2b], 0)]);
    ESub 2 [([x66; x30; x2f; x2b], 0)] 3;
    ESubRet 2 true;
    ERx 2 Pingreq;
    ETx 2 Pingresp true true;
    EAckCall 3 1;
    EAckRet 3 1;
    ETx 4 (Suback 48825 [0]) true true;
    EAckCall 1 1;
    EAckRet 1 1;
    ETx 4 (Suback 48825 [0; 1; 2]) true true;
    EAckCall 2 1;
    EAckRet 2 1;
    ETx 4 (Unsuback 48826) true true;
    EQuiescent;
    ERxErr 2;
    EDie 2 KTransport;
    EConnClose 2;
    EDeqRet 3 QNone;
    ETerm 5 true;
    EClosed ].
(* scenario c20/auth-deny *)
Definition tr_deny : list event :=
  [ ENewConn;
    ERx 2 (Connect (Conn [x63] 0 [] [] true (Some (Msg [x6d] [x09] 1 false)) 4));
    EAuth 2 ADeny;
    ETx 2 (Connack false 5) false true;
    EDie 2 KClient;
    EConnClose 2;
    EClosed ].
(* scenario c20/first-7 *)
Definition tr_first_not_connect : list event :=
  [ ENewConn;
    ERx 2 (Pubrel 6);
    EDie 2 KClient;
    EConnClose 2;
    EClosed ].
(* scenario c20/second-0-m0 *)
Definition tr_second_connect : list event :=
  [ ENewConn;
    ERx 2 (Connect (Conn [x63] 0 [] [] true None 4));
    EAuth 2 AOk;
    ESetup 2 (SOk false false 10 10 10);
    ETx 2 (Connack false 0) false true;
    EAll 2 Outgoing (Some []);
    ERestore 2 true;
    EDeqCall 3;
    ERx 2 (Connect (Conn [x63] 0 [] [] true None 4));
    EDie 2 KClient;
    EConnClose 2;
    EDeqRet 3 QNone;
    ETerm 4 true;
    EClosed ].
(* scenario c20/failsend-3 *)
Definition tr_failsend : list event :=
  [ ENewConn;
    ERx 2 (Connect (Conn [x63] 0 [] [] true None 4));
    EAuth 2 AOk;
    ESetup 2 (SOk false false 10 10 10);
    ETx 2 (Connack false 0) false true;
    EAll 2 Outgoing (Some []);
    ERestore 2 true;
    EDeqCall 3;
    ERx 2 (Subscribe 8 [([x61], 1); ([x62; x2f; x23], 2)]);
    ESub 2 [([x61], 1); ([x62; x2f; x23], 2)] 1;
    EAckCall 1 2;
    EAckRet 1 2;
    ESubRet 2 true;
    ETx 4 (Suback 8 [1; 2]) true true;
    ERx 2 Pingreq;
    ETx 2 Pingresp true false;
    EDie 2 KTransport;
    EConnClose 2;
    EDeqRet 3 QNone;
    ETerm 5 true;
    EClosed ].
(* scenario c20/sub-tokens *)
Definition tr_sub_tokens : list event :=
  [ ENewConn;
    ERx 2 (Connect (Conn [x63] 0 [] [] true None 4));
    EAuth 2 AOk;
    ESetup 2 (SOk false false 10 10 2);
    ETx 2 (Connack false 0) false true;
    EAll 2 Outgoing (Some []);
    ERestore 2 true;
    EDeqCall 3;
    ERx 2 (Subscribe 8 [([x61], 1); ([x62; x2f; x23], 2)]);
    ESub 2 [([x61], 1); ([x62; x2f; x23], 2)] 1;
    ESubRet 2 true;
    ERx 2 (Subscribe 8 [([x61], 1); ([x62; x2f; x23], 2)]);
    ESub 2 [([x61], 1); ([x62; x2f; x23], 2)] 2;
    ESubRet 2 true;
    ERx 2 (Subscribe 8 [([x61], 1); ([x62; x2f; x23], 2)]);
    EAckCall 1 1;
    EAckRet 1 1;
    ETx 4 (Suback 8 [1; 2]) true true;
    ESub 2 [([x61], 1); ([x62; x2f; x23], 2)] 3;
    ESubRet 2 true;
    EAckCall 2 1;
    EAckRet 2 1;
    ETx 4 (Suback 8 [1; 2]) true true;
    EAckCall 3 1;
    EAckRet 3 1;
    ETx 4 (Suback 8 [1; 2]) true true;
    EQuiescent;
    ERxErr 2;
    EDie 2 KTransport;
    EConnClose 2;
    EDeqRet 3 QNone;
    ETerm 5 true;
    EClosed ].
(* scenario c20/sub-token-timeout *)
Definition tr_token_timeout : list event :=
  [ ENewConn;
    ERx 2 (Connect (Conn [x63] 0 [] [] true None 4));
    EAuth 2 AOk;
    ESetup 2 (SOk false false 10 10 1);
    ETx 2 (Connack false 0) false true;
    EAll 2 Outgoing (Some []);
    ERestore 2 true;
    EDeqCall 3;
    ERx 2 (Subscribe 8 [([x61], 1); ([x62; x2f; x23], 2)]);
    ESub 2 [([x61], 1); ([x62; x2f; x23], 2)] 1;
    ESubRet 2 true;
    ERx 2 (Subscribe 8 [([x61], 1); ([x62; x2f; x23], 2)]);
    EDie 2 KClient;
    EConnClose 2;
    EDeqRet 3 QNone;
    ETerm 4 true;
    EClosed ].
(* scenario c07/P1.R1.R1 *)
Definition tr_q2_retx : list event :=
  [ ENewConn;
    ERx 2 (Connect (Conn [x63] 0 [] [] false None 4));
    EAuth 2 AOk;
    ESetup 2 (SOk false false 10 10 10);
    ETx 2 (Connack false 0) false true;
    EAll 2 Outgoing (Some []);
    ERestore 2 true;
    EDeqCall 3;
    ERx 2 (Publish false (Msg [x74] [x01] 2 false) 1);
    ESave 2 Incoming (Publish false (Msg [x74] [x01] 2 false) 1) true;
    ETx 2 (Pubrec 1) true true;
    ERx 2 (Pubrel 1);
    ELookup 2 Incoming 1 (LRes (Some (Publish false (Msg [x74] [x01] 2 false) 1)));
    EPub 2 (Msg [x74] [x01] 2 false) (Some 1);
    EAckCall 1 2;
    EDelete 2 Incoming 1 true;
    EAckRet 1 2;
    EPubRet 2 true;
    ETx 4 (Pubcomp 1) true true;
    ERx 2 (Pubrel 1);
    ELookup 2 Incoming 1 (LRes None);
    ETx 2 (Pubcomp 1) true true;
    EQuiescent;
    ERxErr 2;
    EDie 2 KTransport;
    EConnClose 2;
    EDeqRet 3 QNone;
    ETerm 5 true;
    EClosed ].
(* scenario c12/will2-eof-mid-q2-in *)
Definition tr_will_eof : list event :=
  [ ENewConn;
    ERx 2 (Connect (Conn [x63] 0 [] [] true (Some (Msg [x77; x2f; x31] [x78] 1 true)) 4));
    EAuth 2 AOk;
    ESetup 2 (SOk false false 10 10 10);
    ETx 2 (Connack false 0) false true;
    EAll 2 Outgoing (Some []);
    ERestore 2 true;
    EDeqCall 3;
    ERx 2 (Publish false (Msg [x74] [x01] 2 false) 1);
    ESave 2 Incoming (Publish false (Msg [x74] [x01] 2 false) 1) true;
    ETx 2 (Pubrec 1) true true;
    ERxErr 2;
    EDie 2 KTransport;
    EConnClose 2;
    EDeqRet 3 QNone;
    EPub 4 (Msg [x77; x2f; x31] [x78] 1 true) None;
    EPubRet 4 true;
    ETerm 4 true;
    EClosed ].
(* scenario c12/will2-disconnect-idle *)
Definition tr_will_disconnect : list event :=
  [ ENewConn;
    ERx 2 (Connect (Conn [x63] 0 [] [] true (Some (Msg [x77; x2f; x31] [x78] 1 true)) 4));
    EAuth 2 AOk;
    ESetup 2 (SOk false false 10 10 10);
    ETx 2 (Connack false 0) false true;
    EAll 2 Outgoing (Some []);
    ERestore 2 true;
    EDeqCall 3;
    ERx 2 Disconnect;
    EConnClose 2;
    EDeqRet 3 QNone;
    ETerm 4 true;
    EClosed ].
(* scenario c12/will2-deny *)
Definition tr_will_deny : list event :=
  [ ENewConn;
    ERx 2 (Connect (Conn [x63] 0 [] [] true (Some (Msg [x77; x2f; x31] [x78] 1 true)) 4));
    EAuth 2 ADeny;
    ETx 2 (Connack false 5) false true;
    EDie 2 KClient;
    EConnClose 2;
    EClosed ].
(* scenario c12/will1-second-connect-idle *)
Definition tr_will_second_connect : list event :=
  [ ENewConn;
    ERx 2 (Connect (Conn [x63] 0 [] [] true (Some (Msg [x77] [x62; x79; x65] 0 false)) 4));
    EAuth 2 AOk;
    ESetup 2 (SOk false false 10 10 10);
    ETx 2 (Connack false 0) false true;
    EAll 2 Outgoing (Some []);
    ERestore 2 true;
    EDeqCall 3;
    ERx 2 (Connect (Conn [x63] 0 [] [] true None 4));
    EDie 2 KClient;
    EConnClose 2;
    EDeqRet 3 QNone;
    EPub 4 (Msg [x77] [x62; x79; x65] 0 false) None;
    EPubRet 4 true;
    ETerm 4 true;
    EClosed ].
(* scenario c12/will3-fail-pub *)
Definition tr_will_failpub : list event :=
  [ ENewConn;
    ERx 2 (Connect (Conn [x63] 0 [] [] true (Some (Msg [x77; x2f; x32] [] 2 true)) 4));
    EAuth 2 AOk;
    ESetup 2 (SOk false false 10 10 10);
    ETx 2 (Connack false 0) false true;
    EAll 2 Outgoing (Some []);
    ERestore 2 true;
    EDeqCall 3;
    ERx 2 (Publish false (Msg [x74] [x01] 1 false) 1);
    EPub 2 (Msg [x74] [x01] 1 false) (Some 1);
    EPubRet 2 false;
    EDie 2 KBackend;
    EConnClose 2;
    EDeqRet 3 QNone;
    EPub 4 (Msg [x77; x2f; x32] [] 2 true) None;
    EPubRet 4 true;
    ETerm 4 true;
    EClosed ].
(* scenario c12/will1-autherr *)
Definition tr_will_autherr : list event :=
  [ ENewConn;
    ERx 2 (Connect (Conn [x63] 0 [] [] true (Some (Msg [x77] [x62; x79; x65] 0 false)) 4));
    EAuth 2 AErr;
    EDie 2 KBackend;
    EConnClose 2;
    EClosed ].
(* scenario c12/will1-close-idle *)
Definition tr_will_close : list event :=
  [ ENewConn;
    ERx 2 (Connect (Conn [x63] 0 [] [] true (Some (Msg [x77] [x62; x79; x65] 0 false)) 4));
    EAuth 2 AOk;
    ESetup 2 (SOk false false 10 10 10);
    ETx 2 (Connack false 0) false true;
    EAll 2 Outgoing (Some []);
    ERestore 2 true;
    EDeqCall 3;
    ECloseReq;
    EConnClose 1;
    ERxErr 2;
    EDie 2 KTransport;
    EConnClose 2;
    EDeqRet 3 QNone;
    EPub 4 (Msg [x77] [x62; x79; x65] 0 false) None;
    EPubRet 4 true;
    ETerm 4 true;
    EClosed ].

Definition all_traces_a : list (list event) :=
  [tr_pipe; tr_deny; tr_first_not_connect; tr_second_connect; tr_failsend; tr_sub_tokens; tr_token_timeout;
   tr_q2_retx; tr_will_eof; tr_will_disconnect; tr_will_deny; tr_will_second_connect; tr_will_failpub;
   tr_will_autherr; tr_will_close].

Lemma all_traces_a_accepted : forallb accepted_a all_traces_a = true.
Proof. vm_compute. reflexivity. Qed.
