(* ConnProofsD1.v — every trace accepted by the broker-connection model BC satisfies
   the trace clauses of ConnSpec2.v: c14_lifecycle, c15_resend_order,
   c15_dequeue_order, c15_in_order, c15_release_intact. *)
From Coq Require Import List NArith Bool Lia.
From Coq.Strings Require Import Byte.
From GM Require Import Base.Lts Codec.Packet Session.Ids Session.Store Session.StoreProofs
  Broker.Conn Broker.ConnSpec Broker.ConnSpec2 Broker.ConnBase Broker.ConnProofsD0.
Import ListNotations.
Open Scope N_scope.

(* ========================================================= c14_lifecycle == *)

Definition lc_R (s : bc) (t : lc_st) : Prop :=
  lc_open t = conn_open s /\
  lc_auth t = phase_geq_connected (ph s) /\
  (lc_setup t = true -> phase_geq_connected (ph s) = true) /\
  (match pp s with PFirst | PAuth _ | PDeny | PDieLog _ | PDieClose | PDone => True | _ => phase_geq_connected (ph s) = true end) /\
  (lp s <> LNone -> pp s = PDone) /\
  match lp s with
  | LNone => lc_terms t = 0
  | LWillR | LWillDie | LTerm => lc_terms t = 0 /\ phase_geq_connected (ph s) = true
  | LTermDie | LClosed => lc_terms t = 1
  | LEnd => True
  end.

(* events the life-cycle scanner lets pass unchanged while the connection is open *)
Definition lc_neutral (e : event) : bool :=
  match e with
  | ENewConn | ETerm _ _ | EClosed | EAuth _ AOk | ESetup _ (SOk _ _ _ _ _) => false
  | _ => true
  end.

Lemma lc_neutral_step t e : lc_open t = true -> lc_neutral e = true -> lc_step t e = Some t.
Proof.
  intros Ho Hn. destruct e; cbn [lc_neutral] in Hn; try discriminate Hn; cbn [lc_step]; rewrite ?Ho; try reflexivity.
  - destruct r; try discriminate Hn; cbn [lc_step]; rewrite ?Ho; reflexivity.
  - destruct r; try discriminate Hn; cbn [lc_step]; rewrite ?Ho; reflexivity.
Qed.

Lemma lc_clo_step t e : clo_event e = true -> lc_step t e = Some t.
Proof.
  intros H. destruct e; cbn [clo_event] in H; try discriminate H; reflexivity.
Qed.

Lemma deq_event_neutral e : deq_event e = true -> lc_neutral e = true.
Proof. destruct e; cbn [deq_event lc_neutral]; intros H; try discriminate H; reflexivity. Qed.
Lemma ack_event_neutral e : ack_event e = true -> lc_neutral e = true.
Proof. destruct e; cbn [ack_event lc_neutral]; intros H; try discriminate H; reflexivity. Qed.

Lemma lc_step_ok s t e s' : lc_R s t -> step s e = Some s' -> exists t', lc_step t e = Some t' /\ lc_R s' t'.
Proof.
  intros HR H. destruct (step_cases _ _ _ H) as
    [He Hlp Hs|He Ho Hs|He Hq Hs|Hc|He Hc|g s1 Ho Hg Hc Hi Hv Hp|g s1 Ho Hg Hc Hi Hr1 Hv Hp
    |g s1 Ho Hg Hc Hi Hr1 Hr2 Hv Hp|g s1 Ho Hg Hc Hi Hr1 Hr2 Hr3 Hv Hp|g He Ho Hc Hi Hf Hs].
  - (* ENewConn *)
    subst e s'. destruct HR as (R1 & _). unfold conn_open in R1. rewrite Hlp in R1.
    cbn [lc_step]. rewrite R1. eexists; split; [reflexivity|].
    unfold lc_R, conn_open, new_conn. sf. cbn [lc_open lc_auth lc_setup lc_terms phase_geq_connected].
    repeat split; try reflexivity; try discriminate. intros Hx; exfalso; apply Hx; reflexivity.
  - subst e s'. exists t. split; [reflexivity|exact HR].
  - subst e s'. exists t. split; [reflexivity|exact HR].
  - (* closure *)
    exists t. split; [apply lc_clo_step; eapply step_clo_event; exact Hc|].
    destruct (step_clo_shape _ _ _ Hc) as (si & cl & dy & q & ->).
    unfold lc_R, conn_open in *; sf; exact HR.
  - (* EClosed *)
    subst e. destruct HR as (R1 & R2 & R3 & R4 & R5 & R6).
    unfold step_cleanup, guard in Hc. destruct (lp s) eqn:Elp; try discriminate Hc; bm Hc; inv_some Hc.
    + match goal with Hx : _ && negb _ = true |- _ => apply andb_true_iff in Hx as [Hst Hph] end. apply negb_true_iff in Hph.
      unfold conn_open in R1. rewrite Elp in R1. cbn [lc_step]. rewrite R1.
      destruct (lc_setup t) eqn:Es; [specialize (R3 eq_refl); congruence|]. cbn [andb].
      eexists; split; [reflexivity|]. unfold lc_R, conn_open. sf. cbn [lc_open lc_auth lc_setup lc_terms].
      repeat split; auto.
    + unfold conn_open in R1. rewrite Elp in R1. cbn [lc_step]. rewrite R1, R6.
      destruct (lc_setup t); cbn [andb N.eqb Pos.eqb]; (eexists; split; [reflexivity|]);
      unfold lc_R, conn_open; sf; cbn [lc_open lc_auth lc_setup lc_terms]; repeat split; auto;
      intros _; apply R5; discriminate.
  - (* processor *)
    assert (HR1 : lc_R s1 t).
    { destruct Hv as [[-> _]|(_ & _ & -> & _)]; [exact HR|]. unfold lc_R, conn_open in *; sf; exact HR. }
    assert (Hopen : lc_open t = true) by (destruct HR as (R1 & _); congruence).
    clear HR H Hv Hc Hi. destruct HR1 as (R1 & R2 & R3 & R4 & R5 & R6).
    assert (Hl : lp s1 = LNone).
    { destruct (lp s1) eqn:El; try reflexivity; exfalso;
      (assert (Hd : pp s1 = PDone) by (apply R5; discriminate));
      unfold step_proc in Hp; rewrite Hd in Hp; destruct e; discriminate Hp. }
    rewrite Hl in *. clear R5.
    unfold step_proc, proc_dispatch, die_p, guard in Hp.
    destruct (pp s1) eqn:Epp; destruct e; try discriminate Hp; bm Hp; inv_some Hp; inv_helpers; inv_tdia;
    (eexists; split; [cbn [lc_step]; rewrite ?Hopen; reflexivity|]).
    all: unfold lc_R, conn_open in *; sf; rewrite ?Hl; cbn [lc_open lc_auth lc_setup lc_terms phase_geq_connected].
    all: try (repeat split; auto; try (intros Hx; exfalso; apply Hx; reflexivity); fail).
    all: repeat split; auto; congruence.
  - (* dequeuer *)
    assert (HR1 : lc_R s1 t).
    { destruct Hv as [[-> _]|(_ & _ & ->)]; [exact HR|]. unfold lc_R, conn_open in *; sf; exact HR. }
    assert (Hopen : lc_open t = true) by (destruct HR as (R1 & _); congruence).
    exists t. split; [apply lc_neutral_step; [exact Hopen|eapply deq_event_neutral, step_deq_event; exact Hp]|].
    destruct (step_deq_shape _ _ _ Hp) as (se & d & dy & t1 & t2 & t3 & ->).
    unfold lc_R, conn_open in *; sf; exact HR1.
  - (* acker *)
    assert (HR1 : lc_R s1 t).
    { destruct Hv as [[-> _]|(_ & _ & ->)]; [exact HR|]. unfold lc_R, conn_open in *; sf; exact HR. }
    assert (Hopen : lc_open t = true) by (destruct HR as (R1 & _); congruence).
    exists t. split; [apply lc_neutral_step; [exact Hopen|eapply ack_event_neutral, step_ack_event; exact Hp]|].
    destruct (step_ack_shape _ _ _ Hp) as (a & dy & t1 & t2 & t3 & q & ->).
    unfold lc_R, conn_open in *; sf; exact HR1.
  - (* cleanup *)
    assert (HR1 : lc_R s1 t).
    { destruct Hv as [[-> _]|(_ & _ & ->)]; [exact HR|]. unfold lc_R, conn_open in *; sf; exact HR. }
    assert (Hopen : lc_open t = true) by (destruct HR as (R1 & _); congruence).
    clear HR H Hv Hc Hi. destruct HR1 as (R1 & R2 & R3 & R4 & R5 & R6).
    unfold step_cleanup, guard in Hp.
    destruct (lp s1) eqn:Elp; destruct e; try discriminate Hp; try discriminate Hg; bm Hp; inv_some Hp;
    repeat match goal with Hx : _ && _ = true |- _ => apply andb_true_iff in Hx as [Hx ?] end.
    all: try match goal with Hx : phase_connected (ph ?x) = true |- _ =>
           assert (Hgeq : phase_geq_connected (ph x) = true) by (destruct (ph x); try discriminate Hx; reflexivity) end.
    all: try match type of R6 with _ /\ _ => destruct R6 as [R6 Hgeq] end.
    all: cbn [lc_step]; rewrite ?Hopen, ?R2;
         try (match goal with Hx : phase_geq_connected (ph _) = true |- _ => rewrite Hx end); try rewrite R6; cbn [andb N.eqb];
         (eexists; split; [reflexivity|]).
    all: unfold lc_R, conn_open in *; sf; cbn [lc_open lc_auth lc_setup lc_terms].
    all: try (repeat split; auto; try discriminate; try congruence; fail).
    all: repeat split; auto; try discriminate; try congruence; intros _; apply R5; discriminate.
  - (* Close from outside *)
    subst e s'. assert (Hopen : lc_open t = true) by (destruct HR as (R1 & _); congruence).
    exists t. split; [apply lc_neutral_step; [exact Hopen|reflexivity]|].
    unfold lc_R, conn_open in *; sf; exact HR.
Qed.

Theorem c14_lifecycle_holds : forall es s, bc_run es = Some s -> c14_lifecycle es = true.
Proof.
  apply (scan_sound lc_step lc_R lc_step_ok).
  unfold lc_R, conn_open, bc_init. sf. cbn [lc_open lc_auth lc_setup lc_terms phase_geq_connected].
  repeat split; auto; discriminate.
Qed.

(* A slightly stricter life-cycle scanner: in lc_step the patterns for a successful
   EAuth / ESetup come before the "nothing after Closed" line and therefore are not
   subject to it.  The variant below also refuses them once the connection is closed;
   every accepted trace satisfies it as well. *)
Definition lc_step_strict (t : lc_st) (e : event) : option lc_st :=
  match e with
  | EAuth _ AOk | ESetup _ (SOk _ _ _ _ _) => if lc_open t then lc_step t e else None
  | _ => lc_step t e
  end.
Definition c14_lifecycle_strict (es : list event) : bool := scan lc_step_strict (LcSt false false false 0) es.

Lemma step_needs_open s e s' :
  step s e = Some s' -> clo_event e = false -> e <> ENewConn -> conn_open s = true.
Proof.
  intros H Hc Hn. destruct (conn_open s) eqn:Eo; [reflexivity|exfalso].
  destruct (step_cases _ _ _ H) as
    [He Hlp Hs|He Ho Hs|He Hq Hs|Hx|He Hx|g s1 Ho|g s1 Ho|g s1 Ho|g s1 Ho|g He Ho]; try congruence.
  - unfold quiescent in Hq. rewrite Eo in Hq. discriminate Hq.
  - rewrite (step_clo_event _ _ _ Hx) in Hc. discriminate Hc.
  - unfold step_cleanup in Hx. rewrite (conn_open_false _ Eo) in Hx. subst e. discriminate Hx.
Qed.

Lemma lc_strict_step_ok s t e s' :
  lc_R s t -> step s e = Some s' -> exists t', lc_step_strict t e = Some t' /\ lc_R s' t'.
Proof.
  intros HR H. destruct (lc_step_ok s t e s' HR H) as (t' & Ht & HR').
  exists t'. split; [|exact HR']. destruct HR as (R1 & _).
  destruct e; try exact Ht; cbn [lc_step_strict].
  - destruct r; try exact Ht. rewrite R1, (step_needs_open _ _ _ H); [exact Ht|reflexivity|discriminate].
  - destruct r; try exact Ht. rewrite R1, (step_needs_open _ _ _ H); [exact Ht|reflexivity|discriminate].
Qed.

Theorem c14_lifecycle_strict_holds : forall es s, bc_run es = Some s -> c14_lifecycle_strict es = true.
Proof.
  apply (scan_sound lc_step_strict lc_R lc_strict_step_ok).
  unfold lc_R, conn_open, bc_init. sf. cbn [lc_open lc_auth lc_setup lc_terms phase_geq_connected].
  repeat split; auto; discriminate.
Qed.

(* ====================================================== c15_resend_order == *)

Definition out (s : bc) : store := s_out (sess s).

Definition pid (p : packet) : list N := match get_id p with Some i => [i] | None => [] end.

Lemma nmem_keys_lookup st i : nmem i (keys st) = match store_lookup st i with Some _ => true | None => false end.
Proof.
  destruct (store_lookup st i) eqn:E.
  - apply nmem_true_iff. destruct (in_dec N.eq_dec i (keys st)) as [Hin|Hn]; [exact Hin|].
    apply lookup_none_notin in Hn. congruence.
  - apply nmem_false_iff. apply lookup_none_notin. exact E.
Qed.

Lemma keys_save st p :
  keys (store_save st p) =
  match get_id p with Some i => if nmem i (keys st) then keys st else keys st ++ [i] | None => keys st end.
Proof.
  unfold store_save. destruct (get_id p) as [i|]; [|reflexivity].
  rewrite keys_put, nmem_keys_lookup. destruct (store_lookup st i); reflexivity.
Qed.

Lemma keys_save_mono st p i : In i (keys st) -> In i (keys (store_save st p)).
Proof.
  intros H. rewrite keys_save. destruct (get_id p) as [j|]; [|exact H].
  destruct (nmem j (keys st)); [exact H|]. apply in_or_app. left. exact H.
Qed.

Lemma keys_save_present st p : (forall i, get_id p = Some i -> In i (keys st)) -> keys (store_save st p) = keys st.
Proof.
  intros H. rewrite keys_save. destruct (get_id p) as [j|]; [|reflexivity].
  assert (Hm : nmem j (keys st) = true) by (apply nmem_true_iff, H; reflexivity). rewrite Hm. reflexivity.
Qed.

Lemma nodup_save st p : NoDup (keys st) -> NoDup (keys (store_save st p)).
Proof. intros H. unfold store_save. destruct (get_id p); [apply nodup_put; exact H|exact H]. Qed.

Lemma ids_ok_save st p : ids_ok st -> ids_ok (store_save st p).
Proof. intros H. unfold store_save. destruct (get_id p) eqn:E; [apply ids_ok_put; assumption|exact H]. Qed.

Lemma in_store_delete st j i p : In (i, p) (store_delete st j) -> In (i, p) st.
Proof.
  induction st as [|[k q] st IH]; cbn [store_delete]; [tauto|].
  destruct (j =? k); cbn [In]; [tauto|]. intros [E|Hin]; [left; exact E|right; apply IH, Hin].
Qed.

Lemma ids_ok_delete st j : ids_ok st -> ids_ok (store_delete st j).
Proof. intros H i p Hin. apply H. eapply in_store_delete. exact Hin. Qed.

Lemma ids_of_all st : ids_ok st -> flat_map pid (store_all st) = keys st.
Proof.
  induction st as [|[k q] st IH]; intros Hok; [reflexivity|].
  cbn [store_all map snd flat_map keys fst]. unfold pid at 1. rewrite (Hok k q (or_introl eq_refl)). cbn [app].
  f_equal. apply IH. intros i p Hin. apply Hok. right. exact Hin.
Qed.

Lemma all_ids_in_keys st p i : ids_ok st -> In p (store_all st) -> get_id p = Some i -> In i (keys st).
Proof.
  intros Hok Hin Hid. unfold store_all in Hin. apply in_map_iff in Hin as ([k q] & E & Hin). cbn [snd] in E. subst q.
  rewrite (Hok _ _ Hin) in Hid. injection Hid as <-. unfold keys. apply in_map_iff. exists (k, p). split; [reflexivity|exact Hin].
Qed.

Lemma get_id_set_dup p : get_id (set_dup p) = get_id p.
Proof. destruct p; reflexivity. Qed.

Lemma list_eqb_N_refl l : list_eqb N.eqb l l = true.
Proof. apply list_eqb_refl. apply N.eqb_refl. Qed.

Definition ro_R (s : bc) (t : list N) : Prop :=
  t = keys (out s) /\ NoDup (keys (out s)) /\ ids_ok (out s) /\
  (forall ps, pp s = PResend ps -> forall p i, In p ps -> get_id p = Some i -> In i (keys (out s))).

(* events the resend-order scanner ignores *)
Definition ro_neutral (e : event) : bool :=
  match e with
  | ESave _ Outgoing _ true | EDelete _ Outgoing _ true | ESetup _ (SOk _ true _ _ _) | EAll _ Outgoing (Some _) => false
  | _ => true
  end.

Lemma ro_neutral_step t e : ro_neutral e = true -> ro_step t e = Some t.
Proof.
  intros Hn. destruct e; cbn [ro_neutral] in Hn; try discriminate Hn; cbn [ro_step]; try reflexivity.
  - destruct r as [|a b w p q]; [reflexivity|]. destruct b; [discriminate Hn|reflexivity].
  - destruct d; [reflexivity|]. destruct ok; [discriminate Hn|reflexivity].
  - destruct d; [reflexivity|]. destruct ok; [discriminate Hn|reflexivity].
  - destruct d; [reflexivity|]. destruct r; [discriminate Hn|reflexivity].
Qed.

Lemma clo_event_ro e : clo_event e = true -> ro_neutral e = true.
Proof.
  destruct e; cbn [clo_event ro_neutral]; intros H; try discriminate H; try reflexivity.
  destruct d; [reflexivity|discriminate H].
Qed.
Lemma ack_event_ro e : ack_event e = true -> ro_neutral e = true.
Proof. destruct e; cbn [ack_event ro_neutral]; intros H; try discriminate H; reflexivity. Qed.
Lemma cleanup_event_ro e : cleanup_event e = true -> ro_neutral e = true.
Proof. destruct e; cbn [cleanup_event ro_neutral]; intros H; try discriminate H; reflexivity. Qed.

Lemma ro_R_frame s s' t :
  out s' = out s -> (pp s' = pp s \/ forall ps, pp s' <> PResend ps) -> ro_R s t -> ro_R s' t.
Proof.
  intros Ho Hp (R1 & R2 & R3 & R4). unfold ro_R. rewrite Ho. repeat split; try assumption.
  intros ps Hps. destruct Hp as [Hp|Hp]; [rewrite Hp in Hps; apply R4; exact Hps|exfalso; eapply Hp; exact Hps].
Qed.

Lemma ro_R_save s t p s' :
  ro_R s t -> out s' = store_save (out s) p -> (pp s' = pp s \/ forall ps, pp s' <> PResend ps) ->
  ro_R s' (match get_id p with Some id => if nmem id t then t else t ++ [id] | None => t end).
Proof.
  intros (R1 & R2 & R3 & R4) Ho Hp. unfold ro_R. rewrite Ho. split; [|split; [|split]].
  - rewrite keys_save, R1. reflexivity.
  - apply nodup_save, R2.
  - apply ids_ok_save, R3.
  - intros ps Hps q i Hq Hi. destruct Hp as [Hp|Hp]; [|exfalso; eapply Hp; exact Hps].
    apply keys_save_mono. rewrite Hp in Hps. eapply R4; eassumption.
Qed.

Lemma ro_R_delete s t id s' :
  ro_R s t -> out s' = store_delete (out s) id -> (forall ps, pp s' <> PResend ps) ->
  ro_R s' (filter (fun j => negb (j =? id)) t).
Proof.
  intros (R1 & R2 & R3 & R4) Ho Hp. unfold ro_R. rewrite Ho. split; [|split; [|split]].
  - rewrite keys_delete by exact R2. rewrite R1. reflexivity.
  - apply nodup_delete, R2.
  - apply ids_ok_delete, R3.
  - intros ps Hps. exfalso. eapply Hp. exact Hps.
Qed.

Lemma ro_R_resave s t p rest s' :
  ro_R s t -> pp s = PResend (p :: rest) -> out s' = store_save (out s) (set_dup p) ->
  (pp s' = PResend rest \/ forall ps, pp s' <> PResend ps) -> ro_R s' t.
Proof.
  intros (R1 & R2 & R3 & R4) Hpp Ho Hp.
  assert (Hk : keys (store_save (out s) (set_dup p)) = keys (out s)).
  { apply keys_save_present. intros i Hi. rewrite get_id_set_dup in Hi. eapply R4; [exact Hpp|left; reflexivity|exact Hi]. }
  unfold ro_R. rewrite Ho. split; [|split; [|split]].
  - rewrite Hk. exact R1.
  - apply nodup_save, R2.
  - apply ids_ok_save, R3.
  - intros ps Hps q i Hq Hi. rewrite Hk. destruct Hp as [Hp|Hp]; [|exfalso; eapply Hp; exact Hps].
    rewrite Hp in Hps. injection Hps as <-. eapply R4; [exact Hpp|right; exact Hq|exact Hi].
Qed.

Lemma ro_R_all s t ps s' g :
  ro_R s t -> ps = store_all (out s) -> out s' = out s ->
  (pp s' = PResend ps \/ forall qs, pp s' <> PResend qs) ->
  ro_step t (EAll g Outgoing (Some ps)) = Some t /\ ro_R s' t.
Proof.
  intros (R1 & R2 & R3 & R4) E Ho Hp. split.
  - cbn [ro_step]. change (flat_map _ ps) with (flat_map pid ps). rewrite E, (ids_of_all _ R3), R1, list_eqb_N_refl. reflexivity.
  - unfold ro_R. rewrite Ho. repeat split; try assumption.
    intros qs Hqs q i Hq Hi. destruct Hp as [Hp|Hp]; [|exfalso; eapply Hp; exact Hqs].
    rewrite Hp in Hqs. injection Hqs as <-. rewrite E in Hq. eapply all_ids_in_keys; eassumption.
Qed.

Lemma ro_step_ok s t e s' : ro_R s t -> step s e = Some s' -> exists t', ro_step t e = Some t' /\ ro_R s' t'.
Proof.
  intros HR H. destruct (step_cases _ _ _ H) as
    [He Hlp Hs|He Ho Hs|He Hq Hs|Hc|He Hc|g s1 Ho Hg Hc Hi Hv Hp|g s1 Ho Hg Hc Hi Hr1 Hv Hp
    |g s1 Ho Hg Hc Hi Hr1 Hr2 Hv Hp|g s1 Ho Hg Hc Hi Hr1 Hr2 Hr3 Hv Hp|g He Ho Hc Hi Hf Hs].
  - subst e s'. exists t. split; [reflexivity|]. apply (ro_R_frame s _ t); [reflexivity| |exact HR].
    right. intros ps. unfold new_conn; sf. discriminate.
  - subst e s'. exists t. split; [reflexivity|exact HR].
  - subst e s'. exists t. split; [reflexivity|exact HR].
  - exists t. split; [apply ro_neutral_step, clo_event_ro; eapply step_clo_event; exact Hc|].
    destruct (step_clo_shape _ _ _ Hc) as (si & cl & dy & q & ->).
    apply (ro_R_frame s _ t); [reflexivity|left; reflexivity|exact HR].
  - subst e. exists t. split; [reflexivity|].
    destruct (step_cleanup_shape _ _ _ Hc) as (p & d & a & l & -> & _ & Hx).
    apply (ro_R_frame s _ t); [reflexivity| |exact HR].
    destruct Hx as [(-> & _)|(_ & _ & -> & _)]; [left; reflexivity|right; intros ps; sf; discriminate].
  - (* processor *)
    assert (HR1 : ro_R s1 t).
    { destruct Hv as [[-> _]|(_ & _ & -> & _)]; [exact HR|]. apply (ro_R_frame s _ t); [reflexivity|left; reflexivity|exact HR]. }
    clear HR H Hv Hc Hi. pose proof HR1 as (R1 & R2 & R3 & R4).
    unfold step_proc, proc_dispatch, die_p, guard in Hp.
    destruct (pp s1) eqn:Epp; destruct e; try discriminate Hp; bm Hp; inv_some Hp; inv_helpers; inv_tdia.
    all: try (exists t; split; [reflexivity|]; unfold ro_R, out in R1, R2, R3, R4 |- *; sf;
              repeat split; try assumption; intros xps Hxps; discriminate Hxps).
    all: first
      [ (* Setup with a fresh session object *)
        exists []; split; [reflexivity|]; unfold ro_R, out; sf; cbn [session_new s_out keys map];
        (split; [reflexivity|split; [constructor|split; [intros ? ? []|intros xps Hxps; discriminate Hxps]]])
      | (* All: what is listed is the store, in first-save order *)
        exists t; apply (ro_R_all s1);
        [exact HR1|apply (list_eqb_eq _ packet_eqb_eq); assumption|reflexivity
        |first [left; reflexivity|right; intros qs; sf; discriminate]]
      | (* re-send: the stored packet is replaced in place *)
        exists t; split; [reflexivity|]; eapply (ro_R_resave s1);
        [exact HR1|exact Epp|reflexivity|first [left; reflexivity|right; intros qs; sf; discriminate]]
      | (* delete on PUBACK / PUBCOMP *)
        match goal with Hx : (_ =? _) = true |- _ => apply N.eqb_eq in Hx; rewrite <- Hx end;
        eexists; split; [reflexivity|];
        apply (ro_R_delete s1); [exact HR1|reflexivity|intros qs; sf; discriminate]
      | (* PUBREL replaces PUBLISH on PUBREC *)
        match goal with Hx : (_ =? _) = true |- _ => apply N.eqb_eq in Hx; rewrite <- Hx end;
        eexists; split; [reflexivity|];
        apply (ro_R_save s1 t (Pubrel _)); [exact HR1|reflexivity|right; intros qs; sf; discriminate] ].
  - (* dequeuer *)
    assert (HR1 : ro_R s1 t).
    { destruct Hv as [[-> _]|(_ & _ & ->)]; [exact HR|]. apply (ro_R_frame s _ t); [reflexivity|left; reflexivity|exact HR]. }
    clear HR H Hv Hc Hi.
    unfold step_deq, take_deq, guard in Hp.
    destruct (dp s1) eqn:Edp; destruct e; try discriminate Hp; bm Hp; inv_some Hp.
    all: try (exists t; split; [reflexivity|]; apply (ro_R_frame s1 _ t); [reflexivity|left; reflexivity|exact HR1]).
    all: try (exists t; split; [reflexivity|];
              match goal with |- context [match ?p with Publish _ _ _ => _ | _ => _ end] => destruct p end;
              try match goal with |- context [if ?b then _ else _] => destruct b end;
              apply (ro_R_frame s1 _ t); [reflexivity|left; reflexivity|exact HR1]).
    (* Save of the dequeued message *)
    all: match goal with Hx : packet_eqb _ _ = true |- _ => apply packet_eqb_eq in Hx; rewrite <- Hx end;
      exists (match get_id p with Some id => if nmem id t then t else t ++ [id] | None => t end);
      (split; [cbn [ro_step]; destruct (get_id p); reflexivity|]);
      apply (ro_R_save s1 t); [exact HR1|reflexivity|left; reflexivity].
  - (* acker *)
    assert (HR1 : ro_R s1 t).
    { destruct Hv as [[-> _]|(_ & _ & ->)]; [exact HR|]. apply (ro_R_frame s _ t); [reflexivity|left; reflexivity|exact HR]. }
    exists t. split; [apply ro_neutral_step, ack_event_ro; eapply step_ack_event; exact Hp|].
    destruct (step_ack_shape _ _ _ Hp) as (a & dy & t1 & t2 & t3 & q & ->).
    apply (ro_R_frame s1 _ t); [reflexivity|left; reflexivity|exact HR1].
  - (* cleanup *)
    assert (HR1 : ro_R s1 t).
    { destruct Hv as [[-> _]|(_ & _ & ->)]; [exact HR|]. apply (ro_R_frame s _ t); [reflexivity|left; reflexivity|exact HR]. }
    exists t. split; [apply ro_neutral_step, cleanup_event_ro; eapply step_cleanup_event; exact Hp|].
    destruct (step_cleanup_shape _ _ _ Hp) as (p & d & a & l & -> & _ & Hx).
    apply (ro_R_frame s1 _ t); [reflexivity| |exact HR1].
    destruct Hx as [(-> & _)|(_ & _ & -> & _)]; [left; reflexivity|right; intros ps; sf; discriminate].
  - subst e s'. exists t. split; [reflexivity|].
    apply (ro_R_frame s _ t); [reflexivity|left; reflexivity|exact HR].
Qed.

Theorem c15_resend_order_holds : forall es s, bc_run es = Some s -> c15_resend_order es = true.
Proof.
  apply (scan_sound ro_step ro_R ro_step_ok).
  unfold ro_R, out, bc_init. sf. cbn [session_new s_out keys map].
  split; [reflexivity|split; [constructor|split; [intros ? ? []|intros xps Hxps; discriminate Hxps]]].
Qed.

Lemma entries_aput {A} (t : list (N * A)) g x (r : option N) :
  (forall g' v, aget t g' = Some v -> r = Some g') -> r = Some g ->
  forall g' v, aget (aput t g x) g' = Some v -> r = Some g'.
Proof.
  intros H Hr g' v. rewrite aget_aput. destruct (N.eqb_spec g' g) as [->|]; [intros _; exact Hr|apply H].
Qed.

Lemma entries_adel {A} (t : list (N * A)) g (r : option N) :
  (forall g' v, aget t g' = Some v -> r = Some g') ->
  forall g' v, aget (adel t g) g' = Some v -> r = Some g'.
Proof.
  intros H g' v. rewrite aget_adel. destruct (g' =? g); [discriminate|apply H].
Qed.

(* ===================================================== c15_dequeue_order == *)

Definition dq_early (x : ppc) : bool :=
  match x with
  | PFirst | PAuth _ | PDeny | PSetup _ | PConnack _ _ | PAll | PResend _ | PRestore => true
  | _ => false
  end.

Definition dq_v (s : bc) (t : list (N * option message)) : option (option message) :=
  match gdeq s with Some g => aget t g | None => None end.

Definition dq_R (s : bc) (t : list (N * option message)) : Prop :=
  (forall g v, aget t g = Some v -> gdeq s = Some g) /\
  (dq_early (pp s) = true -> dp s = DOff) /\
  match dp s with
  | DOff => dq_v s t = None
  | DNextId m _ => dq_v s t = Some (Some m)
  | DSave p _ | DBackAck p | DSend p => exists m id, p = Publish false m id /\ dq_v s t = Some (Some m)
  | DToken | DWait => dq_v s t = None \/ dq_v s t = Some None
  | _ => True
  end.

Definition dq_neutral (e : event) : bool :=
  match e with
  | ENewConn | EDeqRet _ (QMsg _ _) | ETx _ (Publish false _ _) _ _ => false
  | _ => true
  end.

Lemma dq_neutral_step t e : dq_neutral e = true -> dq_step t e = Some t.
Proof.
  intros Hn. destruct e; cbn [dq_neutral] in Hn; try discriminate Hn; cbn [dq_step]; try reflexivity.
  - destruct p; try reflexivity. destruct dup; [reflexivity|discriminate Hn].
  - destruct r; try reflexivity. discriminate Hn.
Qed.

Lemma dq_noentry_step t e g : ack_event e = true -> ev_g e = Some g -> aget t g = None -> dq_step t e = Some t.
Proof.
  intros He Hg Ha. destruct e; cbn [ack_event] in He; try discriminate He;
    cbn [ev_g] in Hg; try discriminate Hg; injection Hg as ->; cbn [dq_step]; try reflexivity.
  destruct p; try reflexivity. destruct dup; [reflexivity|]. rewrite Ha. reflexivity.
Qed.

Lemma clo_event_dq e : clo_event e = true -> dq_neutral e = true.
Proof. destruct e; cbn [clo_event dq_neutral]; intros H; try discriminate H; reflexivity. Qed.
Lemma cleanup_event_dq e : cleanup_event e = true -> dq_neutral e = true.
Proof. destruct e; cbn [cleanup_event dq_neutral]; intros H; try discriminate H; reflexivity. Qed.

Lemma set_dup_neutral g p a ok : dq_neutral (ETx g (set_dup p) a ok) = true.
Proof. destruct p; reflexivity. Qed.

(* what the processor does, as far as the dequeue-order relation is concerned *)
Lemma step_proc_dq s e s' : step_proc s e = Some s' ->
  dq_neutral e = true /\ gdeq s' = gdeq s /\
  ((dp s' = dp s /\ (dq_early (pp s') = true -> dq_early (pp s) = true)) \/
   (pp s = PRestore /\ dp s' = DToken /\ dq_early (pp s') = false)).
Proof.
  intros H. unfold step_proc, proc_dispatch, die_p, guard in H.
  destruct (pp s) eqn:Epp; destruct e; try discriminate H; bm H; inv_some H; inv_helpers; inv_tdia; sf.
  all: try (split; [reflexivity|split; [reflexivity|left; split; [reflexivity|cbn [dq_early]; auto]]]; fail).
  all: try (split; [reflexivity|split; [reflexivity|right; repeat split; reflexivity]]; fail).
  all: match goal with Hx : packet_eqb _ _ = true |- _ => apply packet_eqb_eq in Hx; rewrite Hx end;
       (split; [apply set_dup_neutral|split; [reflexivity|left; split; [reflexivity|cbn [dq_early]; auto]]]).
Qed.

Lemma dq_R_roles s t p d a c :
  gdeq s = None \/ d = gdeq s -> dq_R s t -> dq_R (set_roles s p d a c) t.
Proof.
  intros Hd (R1 & R2 & R3). unfold dq_R, dq_v in *. sf. destruct Hd as [Hd| ->]; [|repeat split; assumption].
  assert (Hn : forall g, aget t g = None).
  { intros g. destruct (aget t g) eqn:E; [|reflexivity]. specialize (R1 _ _ E). congruence. }
  rewrite Hd in R3. split; [intros g v E; rewrite Hn in E; discriminate E|]. split; [exact R2|].
  destruct d as [g|]; [rewrite Hn|]; exact R3.
Qed.

Lemma dq_step_ok s t e s' : dq_R s t -> step s e = Some s' -> exists t', dq_step t e = Some t' /\ dq_R s' t'.
Proof.
  intros HR H. destruct (step_cases _ _ _ H) as
    [He Hlp Hs|He Ho Hs|He Hq Hs|Hc|He Hc|g s1 Ho Hg Hc Hi Hv Hp|g s1 Ho Hg Hc Hi Hr1 Hv Hp
    |g s1 Ho Hg Hc Hi Hr1 Hr2 Hv Hp|g s1 Ho Hg Hc Hi Hr1 Hr2 Hr3 Hv Hp|g He Ho Hc Hi Hf Hs].
  - subst e s'. exists []. split; [reflexivity|]. unfold dq_R, dq_v, new_conn; sf.
    split; [intros g v E; discriminate E|split; reflexivity].
  - subst e s'. exists t. split; [reflexivity|exact HR].
  - subst e s'. exists t. split; [reflexivity|exact HR].
  - exists t. split; [apply dq_neutral_step, clo_event_dq; eapply step_clo_event; exact Hc|].
    destruct (step_clo_shape _ _ _ Hc) as (si & cl & dy & q & ->).
    unfold dq_R, dq_v in *; sf; exact HR.
  - subst e. exists t. split; [reflexivity|].
    destruct (step_cleanup_shape _ _ _ Hc) as (p & d & a & l & -> & _ & Hx). destruct HR as (R1 & R2 & R3).
    unfold dq_R, dq_v in *; sf.
    destruct Hx as [(-> & -> & _)|(_ & _ & -> & -> & _)]; [repeat split; assumption|].
    split; [exact R1|split; [discriminate|]]. destruct (dp s); auto.
  - (* processor *)
    assert (HR1 : dq_R s1 t).
    { destruct Hv as [[-> _]|(_ & _ & -> & _)]; [exact HR|]. apply dq_R_roles; [right; reflexivity|exact HR]. }
    destruct (step_proc_dq _ _ _ Hp) as (Hn & Hgd & Hd).
    exists t. split; [apply dq_neutral_step, Hn|]. destruct HR1 as (R1 & R2 & R3).
    unfold dq_R, dq_v in *. rewrite Hgd. destruct Hd as [(Hd & He)|(Hpr & Hd & He)].
    + rewrite Hd. split; [exact R1|split; [|exact R3]]. intros Hx. apply R2, He, Hx.
    + rewrite Hd, He. rewrite Hpr in R2. rewrite (R2 eq_refl) in R3.
      split; [exact R1|split; [discriminate|left; exact R3]].
  - (* dequeuer *)
    assert (HR1 : dq_R s1 t /\ gdeq s1 = Some g).
    { destruct Hv as [[-> Hgd]|(Hgd & _ & ->)]; [split; [exact HR|exact Hgd]|].
      split; [apply dq_R_roles; [left; exact Hgd|exact HR]|reflexivity]. }
    clear HR H Hv Hc Hi. destruct HR1 as ((R1 & R2 & R3) & Hgd). unfold dq_v in R3. rewrite Hgd in R3.
    unfold step_deq, take_deq, guard in Hp.
    destruct (dp s1) eqn:Edp; destruct e; try discriminate Hp; bm Hp; inv_some Hp; cbn [ev_g] in Hg; injection Hg as ->.
    all: try (exists t; split; [reflexivity|]; unfold dq_R, dq_v; sf;
              split; [exact R1|split; [intros Hx; specialize (R2 Hx); discriminate R2|]]; rewrite ?Hgd; eauto; fail).
    (* a message is dequeued *)
    all: try (exists (aput t g (Some m)); split;
              [cbn [dq_step]; destruct R3 as [R3|R3]; rewrite R3; reflexivity|];
              unfold dq_R, dq_v; sf;
              split; [apply entries_aput; assumption|split; [intros Hx; specialize (R2 Hx); discriminate R2|]];
              rewrite Hgd, aget_aput, N.eqb_refl; eauto; fail).
    (* the PUBLISH is sent *)
    all: destruct R3 as (xm & xid & Ep & R3);
         match goal with Hq : packet_eqb _ _ = true |- _ => apply packet_eqb_eq in Hq; rewrite <- Hq end;
         rewrite Ep in *; try discriminate;
         (exists (aput t g None); split; [cbn [dq_step]; rewrite R3, message_eqb_refl; reflexivity|]);
         unfold dq_R, dq_v; sf;
         (split; [apply entries_aput; assumption|split; [intros Hx; specialize (R2 Hx); discriminate R2|]]);
         rewrite ?Hgd, ?aget_aput, ?N.eqb_refl; auto.
  - (* acker *)
    assert (HR1 : dq_R s1 t /\ gdeq s1 = gdeq s).
    { destruct Hv as [[-> _]|(_ & _ & ->)]; [split; [exact HR|reflexivity]|].
      split; [apply dq_R_roles; [right; reflexivity|exact HR]|reflexivity]. }
    destruct HR1 as (HR1 & Hgd).
    assert (Hn : aget t g = None).
    { destruct (aget t g) eqn:E; [|reflexivity]. destruct HR as (R1 & _). specialize (R1 _ _ E).
      rewrite R1, is_role_some in Hr2. discriminate Hr2. }
    exists t. split; [eapply dq_noentry_step; [eapply step_ack_event; exact Hp|exact Hg|exact Hn]|].
    destruct (step_ack_shape _ _ _ Hp) as (a & dy & t1 & t2 & t3 & q & ->).
    unfold dq_R, dq_v in *; sf; exact HR1.
  - (* cleanup *)
    assert (HR1 : dq_R s1 t).
    { destruct Hv as [[-> _]|(_ & _ & ->)]; [exact HR|]. apply dq_R_roles; [right; reflexivity|exact HR]. }
    exists t. split; [apply dq_neutral_step, cleanup_event_dq; eapply step_cleanup_event; exact Hp|].
    destruct (step_cleanup_shape _ _ _ Hp) as (p & d & a & l & -> & _ & Hx). destruct HR1 as (R1 & R2 & R3).
    unfold dq_R, dq_v in *; sf.
    destruct Hx as [(-> & -> & _)|(_ & _ & -> & -> & _)]; [repeat split; assumption|].
    split; [exact R1|split; [discriminate|]]. destruct (dp s1); auto.
  - subst e s'. exists t. split; [reflexivity|]. unfold dq_R, dq_v in *; sf; exact HR.
Qed.

Theorem c15_dequeue_order_holds : forall es s, bc_run es = Some s -> c15_dequeue_order es = true.
Proof.
  apply (scan_sound dq_step dq_R dq_step_ok).
  unfold dq_R, dq_v, bc_init. sf. split; [intros g v E; discriminate E|split; reflexivity].
Qed.

(* ========================================================== c15_in_order == *)

Definition io_ok (x : ppc) (v : option (packet * bool)) : Prop :=
  match x with
  | PPub0 m => exists d id, v = Some (Publish d m id, false) /\ m_qos m = 0
  | PPub1W _ m => exists d id, v = Some (Publish d m id, false) /\ m_qos m = 1
  | PRelLookup id | PRelPub id _ => v = Some (Pubrel id, false)
  | _ => True
  end.

Definition io_v (s : bc) (t : list (N * (packet * bool))) : option (packet * bool) :=
  match gproc s with Some g => aget t g | None => None end.

Definition io_R (s : bc) (t : list (N * (packet * bool))) : Prop :=
  (forall g v, aget t g = Some v -> gproc s = Some g) /\ io_ok (pp s) (io_v s t).

Definition io_neutral (e : event) : bool :=
  match e with ENewConn | ERx _ _ | EPub _ _ _ => false | _ => true end.

Lemma io_neutral_step t e : io_neutral e = true -> io_step t e = Some t.
Proof. intros Hn. destruct e; cbn [io_neutral] in Hn; try discriminate Hn; reflexivity. Qed.

Lemma clo_event_io e : clo_event e = true -> io_neutral e = true.
Proof. destruct e; cbn [clo_event io_neutral]; intros H; try discriminate H; reflexivity. Qed.
Lemma deq_event_io e : deq_event e = true -> io_neutral e = true.
Proof. destruct e; cbn [deq_event io_neutral]; intros H; try discriminate H; reflexivity. Qed.
Lemma ack_event_io e : ack_event e = true -> io_neutral e = true.
Proof. destruct e; cbn [ack_event io_neutral]; intros H; try discriminate H; reflexivity. Qed.

Lemma io_R_roles s t p d a c :
  gproc s = None \/ p = gproc s -> io_R s t -> io_R (set_roles s p d a c) t.
Proof.
  intros Hd (R1 & R2). unfold io_R, io_v in *. sf. destruct Hd as [Hd| ->]; [|split; assumption].
  assert (Hn : forall g, aget t g = None).
  { intros g. destruct (aget t g) eqn:E; [|reflexivity]. specialize (R1 _ _ E). congruence. }
  rewrite Hd in R2. split; [intros g v E; rewrite Hn in E; discriminate E|].
  destruct p as [g|]; [rewrite Hn|]; exact R2.
Qed.

Lemma io_ok_done v : io_ok PDone v.
Proof. exact I. Qed.

Lemma io_step_ok s t e s' : io_R s t -> step s e = Some s' -> exists t', io_step t e = Some t' /\ io_R s' t'.
Proof.
  intros HR H. destruct (step_cases _ _ _ H) as
    [He Hlp Hs|He Ho Hs|He Hq Hs|Hc|He Hc|g s1 Ho Hg Hc Hi Hv Hp|g s1 Ho Hg Hc Hi Hr1 Hv Hp
    |g s1 Ho Hg Hc Hi Hr1 Hr2 Hv Hp|g s1 Ho Hg Hc Hi Hr1 Hr2 Hr3 Hv Hp|g He Ho Hc Hi Hf Hs].
  - subst e s'. exists []. split; [reflexivity|]. unfold io_R, io_v, new_conn; sf.
    split; [intros g v E; discriminate E|exact I].
  - subst e s'. exists t. split; [reflexivity|exact HR].
  - subst e s'. exists t. split; [reflexivity|exact HR].
  - exists t. split; [apply io_neutral_step, clo_event_io; eapply step_clo_event; exact Hc|].
    destruct (step_clo_shape _ _ _ Hc) as (si & cl & dy & q & ->).
    unfold io_R, io_v in *; sf; exact HR.
  - subst e. exists t. split; [reflexivity|].
    destruct (step_cleanup_shape _ _ _ Hc) as (p & d & a & l & -> & _ & Hx). destruct HR as (R1 & R2).
    unfold io_R, io_v in *; sf.
    destruct Hx as [(-> & _)|(_ & _ & -> & _)]; [split; assumption|split; [exact R1|exact I]].
  - (* processor *)
    assert (HR1 : io_R s1 t /\ gproc s1 = Some g).
    { destruct Hv as [[-> Hgd]|(Hgd & _ & -> & _)]; [split; [exact HR|exact Hgd]|].
      split; [apply io_R_roles; [left; exact Hgd|exact HR]|reflexivity]. }
    clear HR H Hv Hc Hi. destruct HR1 as ((R1 & R2) & Hgp). unfold io_v in R2. rewrite Hgp in R2.
    unfold step_proc, proc_dispatch, die_p, guard in Hp.
    destruct (pp s1) eqn:Epp; destruct e; try discriminate Hp; bm Hp; inv_some Hp; inv_helpers; inv_tdia;
      cbn [ev_g] in Hg; injection Hg as ->; cbn [io_ok] in R2.
    all: try (exists t; split; [reflexivity|]; unfold io_R, io_v; sf;
              split; [exact R1|]; rewrite ?Hgp; cbn [io_ok]; auto; fail).
    (* a packet is received *)
    all: try (eexists; split; [reflexivity|]; unfold io_R, io_v; sf;
              split; [apply entries_aput; assumption|]; rewrite ?Hgp, ?aget_aput, ?N.eqb_refl; cbn [io_ok]; auto;
              repeat match goal with Hx : (_ =? _) = true |- _ => apply N.eqb_eq in Hx end; eauto; fail).
    (* the backend Publish is issued *)
    all: match goal with Hx : message_eqb _ _ = true |- _ => apply message_eqb_eq in Hx; rewrite <- Hx end.
    all: try destruct R2 as (xd & xid & R2 & Rq).
    all: (eexists; split; [cbn [io_step]; rewrite R2; cbn beta iota; rewrite ?Rq, ?message_eqb_refl; reflexivity|]).
    all: unfold io_R, io_v; sf; (split; [apply entries_aput; assumption|exact I]).
  - (* dequeuer *)
    assert (HR1 : io_R s1 t).
    { destruct Hv as [[-> _]|(_ & _ & ->)]; [exact HR|]. apply io_R_roles; [right; reflexivity|exact HR]. }
    exists t. split; [apply io_neutral_step, deq_event_io; eapply step_deq_event; exact Hp|].
    destruct (step_deq_shape _ _ _ Hp) as (se & d & dy & t1 & t2 & t3 & ->).
    unfold io_R, io_v in *; sf; exact HR1.
  - (* acker *)
    assert (HR1 : io_R s1 t).
    { destruct Hv as [[-> _]|(_ & _ & ->)]; [exact HR|]. apply io_R_roles; [right; reflexivity|exact HR]. }
    exists t. split; [apply io_neutral_step, ack_event_io; eapply step_ack_event; exact Hp|].
    destruct (step_ack_shape _ _ _ Hp) as (a & dy & t1 & t2 & t3 & q & ->).
    unfold io_R, io_v in *; sf; exact HR1.
  - (* cleanup: it never received anything, so it has no entry *)
    assert (HR1 : io_R s1 t).
    { destruct Hv as [[-> _]|(_ & _ & ->)]; [exact HR|]. apply io_R_roles; [right; reflexivity|exact HR]. }
    assert (Hn : aget t g = None).
    { destruct (aget t g) eqn:E; [|reflexivity]. destruct HR as (R1 & _). specialize (R1 _ _ E).
      rewrite R1, is_role_some in Hr1. discriminate Hr1. }
    exists t. split.
    + pose proof (step_cleanup_event _ _ _ Hp) as He. destruct e; cbn [cleanup_event] in He; try discriminate He;
        try reflexivity. cbn [ev_g] in Hg. injection Hg as ->. cbn [io_step]. rewrite Hn. reflexivity.
    + destruct (step_cleanup_shape _ _ _ Hp) as (p & d & a & l & -> & _ & Hx). destruct HR1 as (R1 & R2).
      unfold io_R, io_v in *; sf.
      destruct Hx as [(-> & _)|(_ & _ & -> & _)]; [split; assumption|split; [exact R1|exact I]].
  - subst e s'. exists t. split; [reflexivity|]. unfold io_R, io_v in *; sf; exact HR.
Qed.

Theorem c15_in_order_holds : forall es s, bc_run es = Some s -> c15_in_order es = true.
Proof.
  apply (scan_sound io_step io_R io_step_ok).
  unfold io_R, io_v, bc_init. sf. split; [intros g v E; discriminate E|exact I].
Qed.

(* ==================================================== c15_release_intact == *)

Definition ri_exp (s : bc) (g : N) : option message :=
  match pp s with
  | PRelPub _ m => if is_role (gproc s) g then Some m else None
  | _ => None
  end.

Definition ri_R (s : bc) (t : list (N * message)) : Prop :=
  (lp s <> LNone -> pp s = PDone) /\
  (gproc s = None -> pp s = PFirst \/ pp s = PDone) /\
  forall g, aget t g = ri_exp s g.

Definition ri_neutral (e : event) : bool :=
  match e with ELookup _ Incoming _ _ | ERx _ _ | EPub _ _ (Some _) => false | _ => true end.

Lemma ri_neutral_step t e : ri_neutral e = true -> ri_step t e = Some t.
Proof.
  intros Hn. destruct e; cbn [ri_neutral] in Hn; try discriminate Hn; try reflexivity.
  - destruct k; [discriminate Hn|reflexivity].
  - destruct d; [discriminate Hn|reflexivity].
Qed.

Lemma clo_event_ri e : clo_event e = true -> ri_neutral e = true.
Proof. destruct e; cbn [clo_event ri_neutral]; intros H; try discriminate H; reflexivity. Qed.
Lemma deq_event_ri e : deq_event e = true -> ri_neutral e = true.
Proof. destruct e; cbn [deq_event ri_neutral]; intros H; try discriminate H; reflexivity. Qed.
Lemma ack_event_ri e : ack_event e = true -> ri_neutral e = true.
Proof. destruct e; cbn [ack_event ri_neutral]; intros H; try discriminate H; reflexivity. Qed.
Lemma cleanup_event_ri e : cleanup_event e = true -> ri_neutral e = true.
Proof.
  destruct e; cbn [cleanup_event ri_neutral]; intros H; try discriminate H; try reflexivity.
  destruct k; [discriminate H|reflexivity].
Qed.

(* learning a role other than the processor's *)
Lemma ri_R_roles s t d a c : ri_R s t -> ri_R (set_roles s (gproc s) d a c) t.
Proof. intros HR. unfold ri_R, ri_exp in *; sf; exact HR. Qed.

Lemma ri_R_learn_proc s t g : gproc s = None -> ri_R s t -> ri_R (set_roles s (Some g) (gdeq s) (gack s) (gcl s)) t.
Proof.
  intros Hn (R1 & R2 & R3). unfold ri_R, ri_exp in *; sf. split; [exact R1|split; [discriminate|]].
  intros g'. rewrite R3. destruct (R2 Hn) as [E|E]; rewrite E; reflexivity.
Qed.

(* the cleanup cannot begin while a release is pending *)
Lemma ri_R_cleanup s t s' e : ri_R s t -> step_cleanup s e = Some s' -> ri_R s' t.
Proof.
  intros (R1 & R2 & R3) Hp.
  destruct (step_cleanup_shape _ _ _ Hp) as (p & d & a & l & -> & Hl & Hx).
  unfold ri_R, ri_exp in *; sf.
  destruct Hx as [(-> & _ & _ & Hlp)|(Hlp & Hst & -> & _)].
  - split; [intros _; apply R1, Hlp|split; [exact R2|exact R3]].
  - split; [reflexivity|split; [right; reflexivity|]]. intros g. rewrite R3.
    unfold all_stopped, proc_can_stop in Hst. destruct (pp s); try reflexivity. discriminate Hst.
Qed.

Lemma ri_step_ok s t e s' : ri_R s t -> step s e = Some s' -> exists t', ri_step t e = Some t' /\ ri_R s' t'.
Proof.
  intros HR H. destruct (step_cases _ _ _ H) as
    [He Hlp Hs|He Ho Hs|He Hq Hs|Hc|He Hc|g s1 Ho Hg Hc Hi Hv Hp|g s1 Ho Hg Hc Hi Hr1 Hv Hp
    |g s1 Ho Hg Hc Hi Hr1 Hr2 Hv Hp|g s1 Ho Hg Hc Hi Hr1 Hr2 Hr3 Hv Hp|g He Ho Hc Hi Hf Hs].
  - subst e s'. exists t. split; [reflexivity|]. destruct HR as (R1 & R2 & R3).
    assert (Hd : pp s = PDone) by (apply R1; rewrite Hlp; discriminate).
    unfold ri_R, ri_exp, new_conn in *; sf.
    split; [intros Hx; exfalso; apply Hx; reflexivity|split; [left; reflexivity|]].
    intros g. rewrite R3, Hd. reflexivity.
  - subst e s'. exists t. split; [reflexivity|exact HR].
  - subst e s'. exists t. split; [reflexivity|exact HR].
  - exists t. split; [apply ri_neutral_step, clo_event_ri; eapply step_clo_event; exact Hc|].
    destruct (step_clo_shape _ _ _ Hc) as (si & cl & dy & q & ->).
    unfold ri_R, ri_exp in *; sf; exact HR.
  - subst e. exists t. split; [reflexivity|]. eapply ri_R_cleanup; eassumption.
  - (* processor *)
    assert (HR1 : ri_R s1 t /\ gproc s1 = Some g).
    { destruct Hv as [[-> Hgd]|(Hgd & _ & -> & _)]; [split; [exact HR|exact Hgd]|].
      split; [apply ri_R_learn_proc; assumption|reflexivity]. }
    clear HR H Hv Hc Hi. destruct HR1 as ((R1 & R2 & R3) & Hgp). unfold ri_exp in R3. rewrite Hgp in R3.
    assert (Hl : lp s1 = LNone).
    { destruct (lp s1) eqn:El; try reflexivity; exfalso;
      (assert (Hd : pp s1 = PDone) by (apply R1; discriminate));
      unfold step_proc in Hp; rewrite Hd in Hp; destruct e; discriminate Hp. }
    clear R1 R2.
    unfold step_proc, proc_dispatch, die_p, guard in Hp.
    destruct (pp s1) eqn:Epp; destruct e; try discriminate Hp; bm Hp; inv_some Hp; inv_helpers; inv_tdia;
      cbn [ev_g] in Hg; injection Hg as ->.
    all: try (exists t; split; [reflexivity|]; unfold ri_R, ri_exp; sf;
              split; [intros Hx; exfalso; apply Hx; exact Hl
                     |split; [intros Hx; rewrite Hx in Hgp; discriminate Hgp|exact R3]]; fail).
    (* receive, or a lookup that finds no PUBLISH: the entry is dropped *)
    all: try (exists (adel t g); split; [reflexivity|]; unfold ri_R, ri_exp; sf;
              split; [intros Hx; exfalso; apply Hx; exact Hl
                     |split; [intros Hx; rewrite Hx in Hgp; discriminate Hgp|]];
              intros g'; rewrite aget_adel; destruct (g' =? g); [reflexivity|apply R3]; fail).
    all: first
      [ (* QoS 1 publish: no release pending *)
        exists t; split; [cbn [ri_step]; rewrite R3; reflexivity|]; unfold ri_R, ri_exp; sf;
        (split; [intros Hx; exfalso; apply Hx; exact Hl|split; [intros Hx; rewrite Hx in Hgp; discriminate Hgp|exact R3]])
      | (* the stored PUBLISH is found *)
        match goal with |- context [PRelPub _ ?m] =>
          exists (aput t g m); split; [reflexivity|]; unfold ri_R, ri_exp; sf;
          (split; [intros Hx; exfalso; apply Hx; exact Hl|split; [intros Hx; rewrite Hx in Hgp; discriminate Hgp|]]);
          intros g'; rewrite aget_aput, Hgp; cbn [is_role]; destruct (g' =? g); [reflexivity|apply R3]
        end
      | (* the release: exactly the stored message is handed on *)
        match goal with Hx : message_eqb _ _ = true |- _ => apply message_eqb_eq in Hx; rewrite <- Hx end;
        exists (adel t g); (split; [cbn [ri_step]; rewrite R3, is_role_some, message_eqb_refl; reflexivity|]);
        unfold ri_R, ri_exp; sf;
        (split; [intros Hx; exfalso; apply Hx; exact Hl|split; [intros Hx; rewrite Hx in Hgp; discriminate Hgp|]]);
        intros g'; rewrite aget_adel; destruct (N.eqb_spec g' g) as [->|Hne]; [reflexivity|];
        rewrite R3; cbn [is_role]; destruct (N.eqb_spec g' g); [contradiction|reflexivity] ].
  - (* dequeuer *)
    assert (HR1 : ri_R s1 t).
    { destruct Hv as [[-> _]|(_ & _ & ->)]; [exact HR|]. apply ri_R_roles; exact HR. }
    exists t. split; [apply ri_neutral_step, deq_event_ri; eapply step_deq_event; exact Hp|].
    destruct (step_deq_shape _ _ _ Hp) as (se & d & dy & t1 & t2 & t3 & ->).
    unfold ri_R, ri_exp in *; sf; exact HR1.
  - (* acker *)
    assert (HR1 : ri_R s1 t).
    { destruct Hv as [[-> _]|(_ & _ & ->)]; [exact HR|]. apply ri_R_roles; exact HR. }
    exists t. split; [apply ri_neutral_step, ack_event_ri; eapply step_ack_event; exact Hp|].
    destruct (step_ack_shape _ _ _ Hp) as (a & dy & t1 & t2 & t3 & q & ->).
    unfold ri_R, ri_exp in *; sf; exact HR1.
  - (* cleanup *)
    assert (HR1 : ri_R s1 t).
    { destruct Hv as [[-> _]|(_ & _ & ->)]; [exact HR|]. apply ri_R_roles; exact HR. }
    exists t. split; [apply ri_neutral_step, cleanup_event_ri; eapply step_cleanup_event; exact Hp|].
    eapply ri_R_cleanup; eassumption.
  - subst e s'. exists t. split; [reflexivity|]. unfold ri_R, ri_exp in *; sf; exact HR.
Qed.

Theorem c15_release_intact_holds : forall es s, bc_run es = Some s -> c15_release_intact es = true.
Proof.
  apply (scan_sound ri_step ri_R ri_step_ok).
  unfold ri_R, ri_exp, bc_init. sf. split; [reflexivity|split; [right; reflexivity|reflexivity]].
Qed.
