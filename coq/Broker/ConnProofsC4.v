(* ConnProofsC4.v — C16: the inflight window.
   c16_bound is FALSE of the model (and of the code): on a resumed connection every
   stored packet is re-sent, "continue if depleted" (client.go:607-630), so the bound
   is exceeded whenever the outgoing store holds more PUBLISH packets than the window
   of the new connection (ConnProofsCTraces: tr_c16_shrink, tr_c16_spurious).
   c16_bound holds of every accepted trace on which, at each resume, the store lists
   at most W PUBLISH packets (c16_resume_fits). *)
From Coq Require Import List NArith Bool Lia ZArith ZifyN ZifyNat ZifyBool.
From GM Require Import Base.Lts Codec.Packet Session.Ids Session.Store Session.StoreProofs
  Broker.Conn Broker.ConnSpec Broker.ConnBase Broker.ConnProofsCDefs Broker.ConnProofsC0 Broker.ConnProofsC1 Broker.ConnProofsCTraces.
Import ListNotations.
Open Scope N_scope.

(* a clause under a trace hypothesis *)
Section Scan2.
  Context {S U : Type}.
  Variable f : S -> event -> option S.
  Variable h : U -> event -> option U.
  Variable I : bc -> Prop.
  Variable R : bc -> S -> U -> Prop.
  Hypothesis HI0 : I bc_init.
  Hypothesis HIstep : forall s e s', I s -> step s e = Some s' -> I s'.
  Hypothesis Hstep : forall s t u e s' u', I s -> R s t u -> step s e = Some s' -> h u e = Some u' ->
                                           exists t', f t e = Some t' /\ R s' t' u'.
  Lemma scan2_from : forall es s t u s', I s -> R s t u -> Lts.run step s es = Some s' ->
                                         scan h u es = true -> scan f t es = true.
  Proof.
    induction es as [|e es IH]; intros s t u s' Hi HR Hrun Hh; cbn [scan]; [reflexivity|].
    cbn [Lts.run] in Hrun. destruct (step s e) as [s1|] eqn:E; [|discriminate].
    cbn [scan] in Hh. destruct (h u e) as [u1|] eqn:Eh; [|discriminate].
    destruct (Hstep s t u e s1 u1 Hi HR E Eh) as (t' & Ef & HR'). rewrite Ef.
    eapply IH; [eapply HIstep; eassumption|exact HR'|exact Hrun|exact Hh].
  Qed.
  Theorem scan2_sound t0 u0 : R bc_init t0 u0 ->
    forall es s', bc_run es = Some s' -> scan h u0 es = true -> scan f t0 es = true.
  Proof. intros H0 es s' Hrun Hh. eapply scan2_from; [exact HI0|exact H0|exact Hrun|exact Hh]. Qed.
End Scan2.

(* ------------------------------------------------------------ the relation *)

Definition pre_setup (p : ppc) : bool :=
  match p with PFirst | PAuth _ | PDeny | PSetup _ => true | _ => false end.

(* model / hypothesis part: the hypothesis scanner knows the window; no window before Setup *)
Definition RA (s : bc) (u : N) : Prop := u = cw s /\ (pre_setup (pp s) = true -> cw s = 0).

(* |in flight| + free slots + slot held by the dequeuer + slot about to be returned <= W *)
Definition RB (s : bc) (t : wb_st) : Prop :=
  wb_spur t = true \/
  (wb_w t = cw s /\
   N.of_nat (length (wb_fl t)) + tdeq s + held (dp s) + credit (pp s) <= cw s /\
   match pp s with
   | PResend rest => N.of_nat (length (wb_fl t)) + N.of_nat (npub rest) <= cw s
   | PConnack _ _ | PAll => wb_fl t = []
   | _ => True
   end).

Lemma RA_proc s u e s' u' : RA s u -> step_proc s e = Some s' -> rf_step u e = Some u' -> RA s' u'.
Proof.
  intros [Hu Hp] H Hh. unfold step_proc, proc_dispatch, die_p, guard in H.
  inv_step H; inv_helpers; injection H as <-; subst; cbn [pre_setup] in Hp; cbn [rf_step] in Hh.
  all: try (injection Hh as <-; split; bcsimpl; cbn [pre_setup]; try reflexivity; try discriminate; try exact Hp; fail).
  - destruct (N.of_nat (npub l) <=? cw s); [|discriminate]. injection Hh as <-.
    destruct l; split; bcsimpl; cbn [pre_setup]; try reflexivity; discriminate.
  - injection Hh as <-. unfold take_deq_if_any, take_deq.
    destruct (0 <? tdeq s); destruct l; split; bcsimpl; cbn [pre_setup]; try reflexivity; discriminate.
  - injection Hh as <-. unfold take_deq_if_any, take_deq.
    destruct (0 <? tdeq s); split; bcsimpl; cbn [pre_setup]; try reflexivity; discriminate.
Qed.

Lemma RA_frame s s' u : cw s' = cw s -> (pre_setup (pp s') = true -> pre_setup (pp s) = true) -> RA s u -> RA s' u.
Proof. intros Ec Ep [Hu Hp]. split; rewrite Ec; [exact Hu|intros H; apply Hp, Ep, H]. Qed.

Lemma RA_same s s' u : same_pd s s' -> RA s u -> RA s' u.
Proof. intros Hs. apply RA_frame; [apply (sp_cw _ _ Hs)|rewrite (sp_pp _ _ Hs); exact (fun x => x)]. Qed.

Lemma RA_frozen s s' u : frozen s s' -> RA s u -> RA s' u.
Proof. intros Hf. apply RA_frame; [apply (fz_cw _ _ Hf)|rewrite (fz_pp _ _ Hf); discriminate]. Qed.

Lemma RA_learned s s1 u : learned s s1 -> RA s u -> RA s1 u.
Proof. intros [->|(g & _ & [[_ ->]|[[_ ->]|[[_ ->]|[_ ->]]]])] HR; exact HR. Qed.

Lemma rf_step_other u e :
  match e with ENewConn | ESetup _ _ | EAll _ _ _ => False | _ => True end -> rf_step u e = Some u.
Proof. destruct e; try contradiction; reflexivity. Qed.

Lemma RA_deq s u e s' u' : RA s u -> step_deq s e = Some s' -> rf_step u e = Some u' -> RA s' u'.
Proof.
  intros HR H Hh. unfold step_deq, guard in H.
  inv_step H; inv_helpers; injection H as <-; subst; cbn [rf_step] in Hh; injection Hh as <-.
  all: try ((eapply RA_frame; [| |exact HR]); bcsimpl; [reflexivity|exact (fun x => x)]).
  destruct p; try ((eapply RA_frame; [| |exact HR]); bcsimpl; [reflexivity|exact (fun x => x)]).
  destruct (m_qos m =? 0); (eapply RA_frame; [| |exact HR]); bcsimpl; try reflexivity; exact (fun x => x).
Qed.

Lemma RA_step s u e s' u' : RA s u -> step s e = Some s' -> rf_step u e = Some u' -> RA s' u'.
Proof.
  intros HR H Hh. apply step_inv in H.
  destruct H as [He Ho ->|He Ho ->|He Hq ->|Hc|g s1 Hg Hl Hr Ho Hp|g s1 Hg Hl Hr Ho Hnp Hd
                |g s1 Hg Hl Hr Ho Hnp Hnd Ha|g s1 Hg Hl Hr Ho Hc|He Hc|g He Ho ->].
  - subst e. cbn [rf_step] in Hh. injection Hh as <-. split; bcsimpl; reflexivity.
  - subst e. cbn [rf_step] in Hh. injection Hh as <-. exact HR.
  - subst e. cbn [rf_step] in Hh. injection Hh as <-. exact HR.
  - apply step_clo_sum in Hc as (He & Hs & _). rewrite rf_step_other in Hh by (destruct e; try contradiction; exact I).
    injection Hh as <-. eapply RA_same; eassumption.
  - eapply RA_proc; [eapply RA_learned; eassumption|exact Hp|exact Hh].
  - eapply RA_deq; [eapply RA_learned; eassumption|exact Hd|exact Hh].
  - pose proof (step_ack_sum _ _ _ Ha) as (Hs & _ & He).
    rewrite rf_step_other in Hh by (destruct e; try contradiction; exact I).
    injection Hh as <-. eapply RA_same; [exact Hs|eapply RA_learned; eassumption].
  - apply step_cleanup_sum in Hc as (He & Hc).
    rewrite rf_step_other in Hh by (destruct e; try contradiction; exact I). injection Hh as <-.
    destruct Hc as [(Hs & _)|Hf]; [eapply RA_same|eapply RA_frozen]; try eassumption; eapply RA_learned; eassumption.
  - apply step_cleanup_sum in Hc as (He' & Hc).
    rewrite rf_step_other in Hh by (destruct e; try contradiction; exact I). injection Hh as <-.
    destruct Hc as [(Hs & _)|Hf]; [eapply RA_same|eapply RA_frozen]; eassumption.
  - subst e. cbn [rf_step] in Hh. injection Hh as <-. (eapply RA_frame; [| |exact HR]); [reflexivity|exact (fun x => x)].
Qed.

Lemma wb_step_spur t e : wb_spur t = true -> e <> ENewConn ->
  exists t', wb_step t e = Some t' /\ wb_spur t' = true.
Proof.
  intros Hs Hne. destruct e; try contradiction; try (eexists; split; [reflexivity|exact Hs]).
  - (* ERx *) destruct p; try (eexists; split; [reflexivity|exact Hs]);
      cbn [wb_step]; destruct (nmem id (wb_fl t)); eexists; (split; [reflexivity|]); try exact Hs; reflexivity.
  - (* ETx *) destruct p; try (eexists; split; [reflexivity|exact Hs]).
    destruct ok; [|eexists; split; [reflexivity|exact Hs]].
    cbn [wb_step]. destruct (m_qos m =? 0); [eexists; split; [reflexivity|exact Hs]|].
    rewrite Hs. cbn [orb]. eexists; split; [reflexivity|reflexivity].
  - (* ESetup *) destruct r; eexists; (split; [reflexivity|exact Hs]).
Qed.

Lemma step_proc_newconn s : step_proc s ENewConn = None.
Proof. unfold step_proc. destruct (pp s) as [| | | | | |ps| | | | | | | | | | | | | | | | | | | | | |]; cbv beta iota; try reflexivity. destruct ps; reflexivity. Qed.

Lemma set_dup_is_publish q p : packet_eqb q (set_dup p) = true -> is_publish q = is_publish p.
Proof. destruct q, p; cbn [set_dup packet_eqb is_publish]; intros H; try discriminate H; reflexivity. Qed.

Lemma npub_cons p l : npub (p :: l) = if is_publish p then S (npub l) else npub l.
Proof. unfold npub. cbn [filter]. destruct (is_publish p); reflexivity. Qed.

(* the scanner's reaction to an acknowledgement *)
Lemma wb_rx_ack t g p id : p = Puback id \/ p = Pubcomp id ->
  (nmem id (wb_fl t) = true /\
   wb_step t (ERx g p) = Some (WbSt (wb_w t) (nremove1 id (wb_fl t)) (wb_spur t)) /\
   S (length (nremove1 id (wb_fl t))) = length (wb_fl t)) \/
  (wb_step t (ERx g p) = Some (WbSt (wb_w t) (wb_fl t) true)).
Proof.
  intros Hp. destruct (nmem id (wb_fl t)) eqn:En.
  - left. split; [reflexivity|]. split; [|apply nremove1_length; exact En].
    destruct Hp as [->| ->]; cbn [wb_step]; rewrite En; reflexivity.
  - right. destruct Hp as [->| ->]; cbn [wb_step]; rewrite En; reflexivity.
Qed.

(* the scanner's reaction to a successful send of a packet *)
Lemma wb_tx_cases t g p a :
  (wb_step t (ETx g p a true) = Some t /\ (is_publish p = false \/ exists d m id, p = Publish d m id /\ (m_qos m =? 0) = true)) \/
  (exists d m id fl, p = Publish d m id /\ (m_qos m =? 0) = false /\ (length fl <= S (length (wb_fl t)))%nat /\
     wb_step t (ETx g p a true) =
     if wb_spur t || (N.of_nat (length fl) <=? wb_w t) then Some (WbSt (wb_w t) fl (wb_spur t)) else None).
Proof.
  destruct p; try (left; split; [reflexivity|left; reflexivity]).
  destruct (m_qos m =? 0) eqn:Eq.
  - left. split; [cbn [wb_step]; rewrite Eq; reflexivity|right; exists dup, m, id; split; [reflexivity|exact Eq]].
  - right. exists dup, m, id, (if nmem id (wb_fl t) then wb_fl t else id :: wb_fl t).
    split; [reflexivity|]. split; [exact Eq|]. split; [destruct (nmem id (wb_fl t)); cbn [length]; lia|].
    cbn [wb_step]. rewrite Eq. reflexivity.
Qed.

Lemma RB_spur s t : wb_spur t = true -> RB s t.
Proof. intros H. left. exact H. Qed.

Ltac rb_easy := right; bcsimpl; cbn [credit held deq_busy]; repeat split; first [assumption|lia|exact I].

Lemma RB_proc s t u e s' : INV s -> RA s u -> RB s t -> step_proc s e = Some s' ->
  (exists u', rf_step u e = Some u') ->
  exists t', wb_step t e = Some t' /\ RB s' t'.
Proof.
  intros HI [Hu Hps] HR H Hh.
  destruct HR as [Hsp|HB].
  { destruct (wb_step_spur t e Hsp) as (t' & E & Hsp').
    - intros ->. rewrite step_proc_newconn in H. discriminate H.
    - exists t'. split; [exact E|apply RB_spur; exact Hsp']. }
  pose proof (I_pre _ HI) as Hpre. pose proof (I_resend _ HI) as Hrs.
  unfold step_proc, proc_dispatch, die_p, guard in H.
  inv_step H; inv_helpers; injection H as <-; subst; cbn [pre_setup pre_loop] in Hps, Hpre;
    destruct HB as (Hw & Hineq & Hpc); cbn [credit] in Hineq.
  all: try (cbn [wb_step]; eexists; split; [reflexivity|]; rb_easy; fail).
  - (* Rx Puback before CONNECT *)
    destruct (wb_rx_ack t g (Puback id) id (or_introl eq_refl)) as [(En & -> & Hl)| ->];
      (eexists; split; [reflexivity|]); [|left; reflexivity].
    right; bcsimpl; cbn [credit held deq_busy wb_w wb_fl wb_spur]; repeat split; first [assumption|lia|exact I].
  - destruct (wb_rx_ack t g (Pubcomp id) id (or_intror eq_refl)) as [(En & -> & Hl)| ->];
      (eexists; split; [reflexivity|]); [|left; reflexivity].
    right; bcsimpl; cbn [credit held deq_busy wb_w wb_fl wb_spur]; repeat split; first [assumption|lia|exact I].
  - (* Setup *)
    cbn [wb_step]. eexists; split; [reflexivity|].
    destruct (Hpre eq_refl) as [Hd _]. pose proof (Hps eq_refl) as Hc0.
    assert (Hfl : wb_fl t = []). { destruct (wb_fl t); [reflexivity|]. cbn [length] in Hineq. lia. }
    destruct fresh; right; bcsimpl; cbn [credit held deq_busy wb_w wb_fl wb_spur]; rewrite ?Hd, ?Hfl;
      cbn [held deq_busy length]; repeat split; lia.
  - (* All *)
    cbn [wb_step]. eexists; split; [reflexivity|].
    destruct Hh as (u' & Hh). cbn [rf_step] in Hh. destruct (N.leb_spec (N.of_nat (npub l)) (cw s)) as [Hle|]; [|discriminate Hh].
    destruct l; right; bcsimpl; cbn [credit]; repeat split; try assumption; try exact I.
    rewrite Hpc. cbn [length]. lia.
  - (* Resend ok *)
    destruct (Hpre eq_refl) as [Hd _]. rewrite Hd in Hineq. cbn [held deq_busy] in Hineq.
    match goal with Hq : packet_eqb _ _ = true |- _ => pose proof (set_dup_is_publish _ _ Hq) as Hip end.
    rewrite npub_cons in Hpc.
    assert (Hnext : forall t', wb_w t' = cw s ->
              N.of_nat (length (wb_fl t')) + tdeq (take_deq_if_any s) <= cw s ->
              N.of_nat (length (wb_fl t')) + N.of_nat (npub l) <= cw s ->
              RB (set_pp (sess_save (take_deq_if_any s) Outgoing (set_dup p))
                         match l with [] => PRestore | _ :: _ => PResend l end) t').
    { intros t' H1 H2 H3. right. unfold take_deq_if_any, take_deq in *.
      destruct (0 <? tdeq s); destruct l; bcsimpl; rewrite ?Hd; cbn [credit held deq_busy];
        repeat split; first [assumption|lia|exact I]. }
    assert (Htd : tdeq (take_deq_if_any s) <= tdeq s /\ (0 < tdeq s -> tdeq (take_deq_if_any s) + 1 = tdeq s)).
    { unfold take_deq_if_any, take_deq. destruct (N.ltb_spec 0 (tdeq s)); bcsimpl; lia. }
    destruct (wb_tx_cases t g p0 true) as [(E & _)|(d & m & id & fl & -> & _ & Hfl & E)]; rewrite E.
    + eexists; split; [reflexivity|]. apply Hnext; [exact Hw| |destruct (is_publish p)]; lia.
    + cbn [is_publish] in Hip. rewrite <- Hip in Hpc.
      assert (Hb : N.of_nat (length fl) <= cw s) by lia.
      rewrite <- Hw in Hb. apply N.leb_le in Hb. rewrite Hb, orb_true_r.
      eexists; split; [reflexivity|]. apply Hnext; cbn [wb_w wb_fl]; [exact Hw| |lia].
      destruct (N.eq_dec (tdeq s) 0); lia.
  - (* Resend fail *)
    destruct (Hpre eq_refl) as [Hd _]. rewrite Hd in Hineq. cbn [held deq_busy] in Hineq.
    assert (E : wb_step t (ETx g p0 true false) = Some t) by (destruct p0; reflexivity).
    rewrite E. eexists; split; [reflexivity|]. right. unfold take_deq_if_any, take_deq.
    destruct (N.ltb_spec 0 (tdeq s)); bcsimpl; rewrite ?Hd; cbn [credit held deq_busy]; repeat split;
      first [assumption|lia|exact I].
  - (* Rx Puback in the loop *)
    destruct (wb_rx_ack t g (Puback id) id (or_introl eq_refl)) as [(En & -> & Hl)| ->];
      (eexists; split; [reflexivity|]); [|left; reflexivity].
    right; bcsimpl; cbn [credit held deq_busy wb_w wb_fl wb_spur]; repeat split; first [assumption|lia|exact I].
  - destruct (wb_rx_ack t g (Pubcomp id) id (or_intror eq_refl)) as [(En & -> & Hl)| ->];
      (eexists; split; [reflexivity|]); [|left; reflexivity].
    right; bcsimpl; cbn [credit held deq_busy wb_w wb_fl wb_spur]; repeat split; first [assumption|lia|exact I].
Qed.

Lemma step_deq_newconn s : step_deq s ENewConn = None.
Proof. unfold step_deq. destruct (dp s); reflexivity. Qed.

Lemma RB_deq s t e s' : INV s -> RB s t -> step_deq s e = Some s' ->
  exists t', wb_step t e = Some t' /\ RB s' t'.
Proof.
  intros HI HR H.
  destruct HR as [Hsp|HB].
  { destruct (wb_step_spur t e Hsp) as (t' & E & Hsp').
    - intros ->. rewrite step_deq_newconn in H. discriminate H.
    - exists t'. split; [exact E|apply RB_spur; exact Hsp']. }
  pose proof (I_shape _ HI) as Hsh. unfold step_deq, guard in H.
  inv_step H; inv_helpers; injection H as <-; subst; cbn [dp_shape] in Hsh;
    destruct HB as (Hw & Hineq & Hpc); cbn [held deq_busy] in Hineq.
  all: try (cbn [wb_step]; eexists; split; [reflexivity|]; rb_easy; fail).
  - cbn [wb_step]. eexists; split; [reflexivity|]. destruct backack; rb_easy.
  - cbn [wb_step]. eexists; split; [reflexivity|]. destruct ba; rb_easy.
  - (* Send ok *)
    destruct Hsh as (m & id & ->).
    match goal with Hq : packet_eqb _ _ = true |- _ => apply packet_eqb_publish_l in Hq; subst end.
    destruct (wb_tx_cases t g (Publish false m id) true) as [(E & [Hf|(d & m' & id' & Hp & Hq)])|(d & m' & id' & fl & Hp & Hq & Hfl & E)];
      rewrite E.
    + discriminate Hf.
    + injection Hp as <- <- <-. rewrite Hq. eexists; split; [reflexivity|]. rb_easy.
    + assert (Hb : N.of_nat (length fl) <= cw s) by lia.
      rewrite <- Hw in Hb. apply N.leb_le in Hb. rewrite Hb, orb_true_r.
      eexists; split; [reflexivity|]. injection Hp as <- <- <-. rewrite Hq.
      assert (Hnp : pre_loop (pp s) = false).
      { destruct (pre_loop (pp s)) eqn:Ep; [|reflexivity]. destruct (I_pre _ HI Ep) as [Hd _]. congruence. }
      right; bcsimpl; cbn [credit held deq_busy wb_w wb_fl wb_spur]; repeat split; [assumption|lia|].
      destruct (pp s); try discriminate Hnp; exact I.
  - (* Send fail *)
    assert (E : wb_step t (ETx g p0 true false) = Some t) by (destruct p0; reflexivity).
    rewrite E. eexists; split; [reflexivity|]. rb_easy.
Qed.

Lemma RB_frame s s' t :
  cw s' = cw s -> tdeq s' = tdeq s -> held (dp s') <= held (dp s) -> pp s' = pp s -> RB s t -> RB s' t.
Proof.
  intros Ec Et Eh Ep [Hsp|(Hw & Hineq & Hpc)]; [left; exact Hsp|right].
  rewrite Ec, Et, Ep. repeat split; try assumption. lia.
Qed.

Lemma RB_same s s' t : same_pd s s' -> RB s t -> RB s' t.
Proof.
  intros Hs. apply RB_frame; [apply (sp_cw _ _ Hs)|apply (sp_tdeq _ _ Hs)|rewrite (sp_dp _ _ Hs); lia|apply (sp_pp _ _ Hs)].
Qed.

Lemma RB_frozen s s' t : frozen s s' -> RB s t -> RB s' t.
Proof.
  intros Hf [Hsp|(Hw & Hineq & Hpc)]; [left; exact Hsp|right].
  rewrite (fz_cw _ _ Hf), (fz_tdeq _ _ Hf), (fz_pp _ _ Hf), (fz_dp _ _ Hf). cbn [credit].
  repeat split; try assumption; try exact I.
  assert (held (match dp s with DOff => DOff | _ => DDone end) = 0) as -> by (destruct (dp s); reflexivity).
  lia.
Qed.

Lemma RB_learned s s1 t : learned s s1 -> RB s t -> RB s1 t.
Proof. intros [->|(g & _ & [[_ ->]|[[_ ->]|[[_ ->]|[_ ->]]]])] HR; exact HR. Qed.

Lemma wb_step_other t e :
  match e with ENewConn | ESetup _ _ | ETx _ _ _ _ | ERx _ _ => False | _ => True end -> wb_step t e = Some t.
Proof. destruct e; try contradiction; reflexivity. Qed.

Lemma wb_step_tx_nonpub t g p a ok : is_publish p = false -> wb_step t (ETx g p a ok) = Some t.
Proof. destruct p; try discriminate; reflexivity. Qed.

Lemma ack_not_publish p : is_ack_packet p = true -> is_publish p = false.
Proof. destruct p; try discriminate; reflexivity. Qed.

Definition R_wb (s : bc) (t : wb_st) (u : N) : Prop := RA s u /\ RB s t.

Lemma wb_step_ok s t u e s' u' : INV s -> R_wb s t u -> step s e = Some s' -> rf_step u e = Some u' ->
  exists t', wb_step t e = Some t' /\ R_wb s' t' u'.
Proof.
  intros HI [HA HB] H Hh.
  pose proof (RA_step _ _ _ _ _ HA H Hh) as HA'.
  assert (HB' : exists t', wb_step t e = Some t' /\ RB s' t');
    [|destruct HB' as (t' & E & HB'); exists t'; split; [exact E|split; assumption]].
  apply step_inv in H.
  destruct H as [He Ho ->|He Ho ->|He Hq ->|Hc|g s1 Hg Hl Hr Ho Hp|g s1 Hg Hl Hr Ho Hnp Hd
                |g s1 Hg Hl Hr Ho Hnp Hnd Ha|g s1 Hg Hl Hr Ho Hc|He Hc|g He Ho ->].
  - subst e. eexists. split; [reflexivity|]. right. bcsimpl. cbn [wb_w wb_fl length held deq_busy credit].
    repeat split; try reflexivity; lia.
  - subst e. exists t. split; [reflexivity|exact HB].
  - subst e. exists t. split; [reflexivity|exact HB].
  - apply step_clo_sum in Hc as (He & Hs & _). exists t.
    split; [apply wb_step_other; destruct e; try contradiction; exact I|eapply RB_same; eassumption].
  - eapply RB_proc; [eapply INV_learned; eassumption|eapply RA_learned; eassumption|eapply RB_learned; eassumption|exact Hp|].
    exists u'. exact Hh.
  - eapply RB_deq; [eapply INV_learned; eassumption|eapply RB_learned; eassumption|exact Hd].
  - pose proof (INV_learned _ _ Hl HI) as HI1. pose proof (step_ack_sum _ _ _ Ha) as (Hs & _ & He).
    exists t. split; [|eapply RB_same; [exact Hs|eapply RB_learned; eassumption]].
    destruct e; try contradiction; try reflexivity.
    destruct async; [|contradiction]. destruct He as (q' & Ht & _).
    apply wb_step_tx_nonpub. apply ack_not_publish. eapply ackq_take_is_ack; [exact Ht|apply (I_ackq _ HI1)].
  - apply step_cleanup_sum in Hc as (He & Hc). exists t.
    split; [apply wb_step_other; destruct e; try contradiction; exact I|].
    destruct Hc as [(Hs & _)|Hf]; [eapply RB_same|eapply RB_frozen]; try eassumption; eapply RB_learned; eassumption.
  - apply step_cleanup_sum in Hc as (He' & Hc). exists t.
    split; [apply wb_step_other; destruct e; try contradiction; exact I|].
    destruct Hc as [(Hs & _)|Hf]; [eapply RB_same|eapply RB_frozen]; eassumption.
  - subst e. exists t. split; [reflexivity|]. (eapply RB_frame; [| | | |exact HB]); reflexivity.
Qed.

(* the bound, for traces whose resumes fit the window *)
Theorem c16_bound_partial_holds :
  forall es s, bc_run es = Some s -> c16_resume_fits es = true -> c16_bound es = true.
Proof.
  apply (scan2_sound wb_step rf_step INV R_wb INV_init INV_step wb_step_ok).
  split; [split; [reflexivity|reflexivity]|]. right. cbn. repeat split. lia.
Qed.

(* the unconditional bound is false *)
Theorem c16_bound_refuted_holds : exists es s, bc_run es = Some s /\ c16_bound es = false.
Proof.
  destruct (bc_run ConnProofsCTraces.tr_c16_shrink) as [s|] eqn:E.
  - exists ConnProofsCTraces.tr_c16_shrink, s. split; [exact E|vm_compute; reflexivity].
  - vm_compute in E. discriminate E.
Qed.
