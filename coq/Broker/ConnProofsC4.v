(* ConnProofsC4.v — C16: the inflight window.
   c16_bound is FALSE of the model (and of the code): on a resumed connection every
   stored packet is re-sent, "continue if depleted" (client.go:607-630), so the bound
   is exceeded whenever the outgoing store holds more packets than the window of the
   new connection (ConnProofsCTraces.tr_c16_shrink).
   c16_bound holds of every accepted trace on which, at each resume, the store lists
   at most W packets (c16_resume_fits). *)
From Coq Require Import List NArith Bool Lia ZArith ZifyN ZifyNat ZifyBool.
From GM Require Import Base.Lts Codec.Packet Session.Ids Session.Store Session.StoreProofs
  Broker.Conn Broker.ConnSpec Broker.ConnBase Broker.ConnProofsCDefs Broker.ConnProofsC0 Broker.ConnProofsC1 Broker.ConnProofsCTraces.
Import ListNotations.
Open Scope N_scope.

(* a clause under a trace hypothesis *)
Section Scan2.
  Context {S U : Type}.
  Variable f : S -> event -> option S.
  Variable h : U -> event -> option U.
  Variable I : bc -> Prop.
  Variable R : bc -> S -> U -> Prop.
  Hypothesis HI0 : I bc_init.
  Hypothesis HIstep : forall s e s', I s -> step s e = Some s' -> I s'.
  Hypothesis Hstep : forall s t u e s' u', I s -> R s t u -> step s e = Some s' -> h u e = Some u' ->
                                           exists t', f t e = Some t' /\ R s' t' u'.
  Lemma scan2_from : forall es s t u s', I s -> R s t u -> Lts.run step s es = Some s' ->
                                         scan h u es = true -> scan f t es = true.
  Proof.
    induction es as [|e es IH]; intros s t u s' Hi HR Hrun Hh; cbn [scan]; [reflexivity|].
    cbn [Lts.run] in Hrun. destruct (step s e) as [s1|] eqn:E; [|discriminate].
    cbn [scan] in Hh. destruct (h u e) as [u1|] eqn:Eh; [|discriminate].
    destruct (Hstep s t u e s1 u1 Hi HR E Eh) as (t' & Ef & HR'). rewrite Ef.
    eapply IH; [eapply HIstep; eassumption|exact HR'|exact Hrun|exact Hh].
  Qed.
  (* the same induction, keeping the final states *)
  Lemma scan2_rel : forall es s t u s', I s -> R s t u -> Lts.run step s es = Some s' ->
    scan h u es = true -> exists t' u', srun f t es = Some t' /\ R s' t' u'.
  Proof.
    induction es as [|e es IH]; intros s t u s' Hi HR Hrun Hh.
    - cbn in Hrun. injection Hrun as <-. exists t, u. split; [reflexivity|exact HR].
    - cbn [Lts.run] in Hrun. destruct (step s e) as [s1|] eqn:E; [|discriminate].
      cbn [scan] in Hh. destruct (h u e) as [u1|] eqn:Eh; [|discriminate].
      destruct (Hstep s t u e s1 u1 Hi HR E Eh) as (t1 & Ef & HR1).
      cbn [srun]. rewrite Ef. eapply IH; [eapply HIstep; eassumption|exact HR1|exact Hrun|exact Hh].
  Qed.
  Theorem scan2_sound t0 u0 : R bc_init t0 u0 ->
    forall es s', bc_run es = Some s' -> scan h u0 es = true -> scan f t0 es = true.
  Proof. intros H0 es s' Hrun Hh. eapply scan2_from; [exact HI0|exact H0|exact Hrun|exact Hh]. Qed.
End Scan2.

(* ------------------------------------------------------------ the relation *)

Definition pre_setup (p : ppc) : bool :=
  match p with PFirst | PAuth _ | PDeny | PSetup _ => true | _ => false end.
(* phases of a connection in which nothing can be in flight yet *)
Definition early (p : ppc) : bool :=
  match p with PFirst | PAuth _ | PDeny | PSetup _ | PConnack _ _ | PAll => true | _ => false end.

Definition is_setup_ok (e : event) : bool := match e with ESetup _ (SOk _ _ _ _ _) => true | _ => false end.

(* the window as a function of the event *)
Definition next_w (w : N) (e : event) : N :=
  match e with ENewConn => 0 | ESetup _ (SOk _ _ w' _ _) => w' | _ => w end.

Lemma step_proc_cw s e s' : step_proc s e = Some s' -> cw s' = next_w (cw s) e.
Proof.
  intros H. unfold step_proc, proc_dispatch, die_p, guard in H.
  inv_step H; inv_helpers; injection H as <-; subst; bcsimpl; cbn [next_w]; try reflexivity.
  all: unfold take_deq_if_any, take_deq; destruct (0 <? tdeq s); reflexivity.
Qed.

Lemma step_deq_cw s e s' : step_deq s e = Some s' -> cw s' = next_w (cw s) e.
Proof.
  intros H. unfold step_deq, guard in H.
  inv_step H; inv_helpers; injection H as <-; subst; bcsimpl; cbn [next_w]; try reflexivity.
  all: repeat match goal with |- context[match ?x with _ => _ end] => destruct x end; reflexivity.
Qed.

Lemma next_w_other w e : match e with ENewConn | ESetup _ _ => False | _ => True end -> next_w w e = w.
Proof. destruct e; try contradiction; reflexivity. Qed.

Lemma step_cw s e s' : step s e = Some s' -> cw s' = next_w (cw s) e.
Proof.
  intros H. apply step_inv in H.
  destruct H as [He Ho ->|He Ho ->|He Hq ->|Hc|g s1 Hg Hl Hr Ho Hp|g s1 Hg Hl Hr Ho Hnp Hd
                |g s1 Hg Hl Hr Ho Hnp Hnd Ha|g s1 Hg Hl Hr Ho Hc|He Hc|g He Ho ->]; try (subst e; reflexivity).
  - apply step_clo_sum in Hc as (He & Hs & _). rewrite (sp_cw _ _ Hs), next_w_other; [reflexivity|destruct e; try contradiction; exact I].
  - assert (E : cw s1 = cw s) by (destruct Hl as [->|(g0 & _ & [[_ ->]|[[_ ->]|[[_ ->]|[_ ->]]]])]; reflexivity).
    rewrite <- E. apply step_proc_cw. exact Hp.
  - assert (E : cw s1 = cw s) by (destruct Hl as [->|(g0 & _ & [[_ ->]|[[_ ->]|[[_ ->]|[_ ->]]]])]; reflexivity).
    rewrite <- E. apply step_deq_cw. exact Hd.
  - assert (E : cw s1 = cw s) by (destruct Hl as [->|(g0 & _ & [[_ ->]|[[_ ->]|[[_ ->]|[_ ->]]]])]; reflexivity).
    pose proof (step_ack_sum _ _ _ Ha) as (Hs & _ & He). rewrite (sp_cw _ _ Hs), E, next_w_other; [reflexivity|destruct e; try contradiction; exact I].
  - assert (E : cw s1 = cw s) by (destruct Hl as [->|(g0 & _ & [[_ ->]|[[_ ->]|[[_ ->]|[_ ->]]]])]; reflexivity).
    apply step_cleanup_sum in Hc as (He & Hc).
    rewrite next_w_other by (destruct e; try contradiction; exact I).
    destruct Hc as [(Hs & _)|Hf]; [rewrite (sp_cw _ _ Hs)|rewrite (fz_cw _ _ Hf)]; exact E.
  - apply step_cleanup_sum in Hc as (He' & Hc). subst e. cbn [next_w].
    destruct Hc as [(Hs & _)|Hf]; [apply (sp_cw _ _ Hs)|apply (fz_cw _ _ Hf)].
Qed.

(* the hypothesis scanner of c16_resume_fits knows the window *)
Definition RA (s : bc) (u : N) : Prop := u = cw s.

Lemma rf_step_w u e u' : rf_step u e = Some u' -> u' = next_w u e.
Proof.
  destruct e; cbn [rf_step next_w]; intros H; try (injection H as <-; reflexivity).
  - destruct r; injection H as <-; reflexivity.
  - destruct d; try (injection H as <-; reflexivity). destruct r as [ps|]; [|injection H as <-; reflexivity].
    destruct (N.of_nat (length ps) <=? u); [injection H as <-; reflexivity|discriminate].
Qed.

Lemma RA_step s u e s' u' : RA s u -> step s e = Some s' -> rf_step u e = Some u' -> RA s' u'.
Proof. unfold RA. intros -> H Hh. rewrite (step_cw _ _ _ H). apply rf_step_w. exact Hh. Qed.

(* what a resume needs: the listing fits the window *)
Definition fits (s : bc) (e : event) : Prop :=
  forall g ps, e = EAll g Outgoing (Some ps) -> N.of_nat (length ps) <= cw s.

Lemma fits_of_rf s u e u' : RA s u -> rf_step u e = Some u' -> fits s e.
Proof.
  unfold RA. intros -> H g ps ->. cbn [rf_step] in H.
  destruct (N.leb_spec (N.of_nat (length ps)) (cw s)) as [Hle|]; [exact Hle|discriminate].
Qed.

(* always: the scanner knows the window, and nothing is in flight in the early phases *)
Definition RW (s : bc) (t : wb_st) : Prop := wb_w t = cw s /\ (early (pp s) = true -> wb_fl t = []).

Lemma wb_step_w t e t' : wb_step t e = Some t' -> wb_w t' = next_w (wb_w t) e.
Proof.
  destruct e; cbn [wb_step next_w]; intros H; try (injection H as <-; reflexivity).
  - destruct p; try (injection H as <-; reflexivity);
      destruct (nmem id (wb_fl t)); injection H as <-; reflexivity.
  - destruct p; try (injection H as <-; reflexivity).
    + destruct ok; [|injection H as <-; reflexivity]. destruct (m_qos m =? 0); [injection H as <-; reflexivity|].
      match type of H with (if ?b then _ else _) = _ => destruct b end; [injection H as <-; reflexivity|discriminate].
    + destruct ok; [|injection H as <-; reflexivity].
      match type of H with (if ?b then _ else _) = _ => destruct b end; [injection H as <-; reflexivity|discriminate].
  - destruct r; injection H as <-; reflexivity.
Qed.

(* the in-flight list stays empty under every event but a successful PUBLISH / PUBREL send *)
Definition tx_counted (e : event) : bool :=
  match e with ETx _ (Publish _ _ _) _ true | ETx _ (Pubrel _) _ true => true | _ => false end.

Lemma wb_step_fl_nil t e t' : wb_step t e = Some t' -> wb_fl t = [] -> tx_counted e = false -> wb_fl t' = [].
Proof.
  intros H Hn Hc. destruct e; cbn [wb_step] in H; try (injection H as <-; exact Hn).
  - reflexivity || (injection H as <-; reflexivity).
  - destruct p; try (injection H as <-; exact Hn); rewrite Hn in H; cbn [nmem existsb] in H; injection H as <-; first [exact Hn|reflexivity].
  - destruct p; try (injection H as <-; exact Hn); destruct ok; try discriminate Hc; injection H as <-; exact Hn.
  - destruct r; injection H as <-; exact Hn.
Qed.

Lemma RW_proc s t e s' t' : RW s t -> step_proc s e = Some s' -> wb_step t e = Some t' ->
  early (pp s') = true -> wb_fl t' = [].
Proof.
  intros [_ Hfl] H Hw. unfold step_proc, proc_dispatch, die_p, guard in H.
  inv_step H; inv_helpers; injection H as <-; subst; bcsimpl; cbn [early] in *; intros He; try discriminate He.
  all: try (eapply wb_step_fl_nil; [exact Hw|apply Hfl; reflexivity|reflexivity]).
  all: destruct l; discriminate He.
Qed.

Lemma RW_step s t e s' t' : INV s -> RW s t -> step s e = Some s' -> wb_step t e = Some t' -> RW s' t'.
Proof.
  intros HI HR H Hw. split.
  { rewrite (step_cw _ _ _ H), (wb_step_w _ _ _ Hw). destruct HR as [-> _]. reflexivity. }
  apply step_inv in H.
  destruct H as [He Ho ->|He Ho ->|He Hq ->|Hc|g s1 Hg Hl Hr Ho Hp|g s1 Hg Hl Hr Ho Hnp Hd
                |g s1 Hg Hl Hr Ho Hnp Hnd Ha|g s1 Hg Hl Hr Ho Hc|He Hc|g He Ho ->].
  - subst e. cbn [wb_step] in Hw. injection Hw as <-. intros _. reflexivity.
  - subst e. cbn [wb_step] in Hw. injection Hw as <-. apply HR.
  - subst e. cbn [wb_step] in Hw. injection Hw as <-. apply HR.
  - apply step_clo_sum in Hc as (He & Hs & _). rewrite (sp_pp _ _ Hs). intros Hx.
    eapply wb_step_fl_nil; [exact Hw|apply HR; exact Hx|destruct e; try contradiction; reflexivity].
  - assert (HR1 : RW s1 t) by (destruct Hl as [->|(g0 & _ & [[_ ->]|[[_ ->]|[[_ ->]|[_ ->]]]])]; exact HR).
    eapply RW_proc; eassumption.
  - (* the dequeuer does not run in the early phases *)
    assert (E : pp s1 = pp s /\ dp s1 = dp s) by (destruct Hl as [->|(g0 & _ & [[_ ->]|[[_ ->]|[[_ ->]|[_ ->]]]])]; split; reflexivity).
    destruct E as [Ep Ed]. assert (Epp : pp s' = pp s1).
    { unfold step_deq, guard in Hd. inv_step Hd; inv_helpers; injection Hd as <-; try reflexivity.
      all: repeat match goal with |- context[match ?x with _ => _ end] => destruct x end; reflexivity. }
    rewrite Epp, Ep. intros Hx. exfalso.
    assert (Hpl : pre_loop (pp s) = true) by (destruct (pp s); try discriminate Hx; reflexivity).
    destruct (I_pre _ HI Hpl) as [Hoff _]. unfold step_deq in Hd. rewrite Ed, Hoff in Hd. discriminate Hd.
  - assert (E : pp s1 = pp s /\ ap s1 = ap s) by (destruct Hl as [->|(g0 & _ & [[_ ->]|[[_ ->]|[[_ ->]|[_ ->]]]])]; split; reflexivity).
    destruct E as [Ep Ea]. pose proof (step_ack_sum _ _ _ Ha) as (Hs & _ & _).
    rewrite (sp_pp _ _ Hs), Ep. intros Hx. exfalso.
    assert (Hpl : pre_loop (pp s) = true) by (destruct (pp s); try discriminate Hx; reflexivity).
    destruct (I_pre _ HI Hpl) as [_ Hoff]. unfold step_ack in Ha. rewrite Ea, Hoff in Ha. discriminate Ha.
  - assert (E : pp s1 = pp s) by (destruct Hl as [->|(g0 & _ & [[_ ->]|[[_ ->]|[[_ ->]|[_ ->]]]])]; reflexivity).
    apply step_cleanup_sum in Hc as (He & Hc).
    destruct Hc as [(Hs & _)|Hf]; [|rewrite (fz_pp _ _ Hf); discriminate].
    rewrite (sp_pp _ _ Hs), E. intros Hx.
    eapply wb_step_fl_nil; [exact Hw|apply HR; exact Hx|destruct e; try contradiction; reflexivity].
  - subst e. cbn [wb_step] in Hw. injection Hw as <-.
    apply step_cleanup_sum in Hc as (_ & [(Hs & _)|Hf]); [rewrite (sp_pp _ _ Hs); apply HR|rewrite (fz_pp _ _ Hf); discriminate].
  - subst e. cbn [wb_step] in Hw. injection Hw as <-. apply HR.
Qed.

(* unless the peer sent a spurious acknowledgement in this session:
   |in flight| + free slots + slot held by the dequeuer + slot about to be returned <= W *)
Definition RB (s : bc) (t : wb_st) : Prop :=
  wb_spur t = true \/
  (N.of_nat (length (wb_fl t)) + tdeq s + held (dp s) + credit (pp s) <= cw s /\
   match pp s with
   | PResend rest => N.of_nat (length (wb_fl t)) + N.of_nat (length rest) <= cw s
   | PRecSave id | PRelTx id => nmem id (wb_fl t) = true
   | _ => True
   end).

Lemma wb_step_spur t e : wb_spur t = true -> is_setup_ok e = false ->
  exists t', wb_step t e = Some t' /\ wb_spur t' = true.
Proof.
  intros Hs Hne. destruct e; try discriminate Hne; try (eexists; split; [reflexivity|exact Hs]).
  - (* ERx *) destruct p; try (eexists; split; [reflexivity|exact Hs]);
      cbn [wb_step]; destruct (nmem id (wb_fl t)); eexists; (split; [reflexivity|]); try exact Hs; reflexivity.
  - (* ETx *) destruct p; try (eexists; split; [reflexivity|exact Hs]).
    + destruct ok; [|eexists; split; [reflexivity|exact Hs]].
      cbn [wb_step]. destruct (m_qos m =? 0); [eexists; split; [reflexivity|exact Hs]|].
      rewrite Hs. cbn [orb]. eexists; split; [reflexivity|reflexivity].
    + destruct ok; [|eexists; split; [reflexivity|exact Hs]].
      cbn [wb_step]. rewrite Hs. cbn [orb]. eexists; split; [reflexivity|reflexivity].
  - (* ESetup *) destruct r; [eexists; split; [reflexivity|exact Hs]|discriminate Hne].
Qed.

Lemma step_proc_newconn s : step_proc s ENewConn = None.
Proof. unfold step_proc. destruct (pp s) as [| | | | | |ps| | | | | | | | | | | | | | | | | | | | | |]; cbv beta iota; try reflexivity. destruct ps; reflexivity. Qed.

Lemma RB_spur s t : wb_spur t = true -> RB s t.
Proof. intros H. left. exact H. Qed.

(* the scanner's reaction to an acknowledgement *)
Lemma wb_rx_ack t g p id : p = Puback id \/ p = Pubcomp id ->
  (nmem id (wb_fl t) = true /\
   wb_step t (ERx g p) = Some (WbSt (wb_w t) (nremove1 id (wb_fl t)) (wb_spur t)) /\
   S (length (nremove1 id (wb_fl t))) = length (wb_fl t)) \/
  (wb_step t (ERx g p) = Some (WbSt (wb_w t) (wb_fl t) true)).
Proof.
  intros Hp. destruct (nmem id (wb_fl t)) eqn:En.
  - left. split; [reflexivity|]. split; [|apply nremove1_length; exact En].
    destruct Hp as [->| ->]; cbn [wb_step]; rewrite En; reflexivity.
  - right. destruct Hp as [->| ->]; cbn [wb_step]; rewrite En; reflexivity.
Qed.

(* the packets that count as in flight once sent *)
Definition counted_id (p : packet) : option N :=
  match p with
  | Publish _ m id => if m_qos m =? 0 then None else Some id
  | Pubrel id => Some id
  | _ => None
  end.

Definition fl_add (id : N) (fl : list N) : list N := if nmem id fl then fl else id :: fl.

Lemma fl_add_length id fl : (length (fl_add id fl) <= S (length fl))%nat.
Proof. unfold fl_add. destruct (nmem id fl); cbn [length]; lia. Qed.

Lemma wb_tx_ok t g p a :
  wb_step t (ETx g p a true) =
  match counted_id p with
  | None => Some t
  | Some id => if wb_spur t || (N.of_nat (length (fl_add id (wb_fl t))) <=? wb_w t)
               then Some (WbSt (wb_w t) (fl_add id (wb_fl t)) (wb_spur t)) else None
  end.
Proof.
  destruct p; cbn [wb_step counted_id]; try reflexivity.
  destruct (m_qos m =? 0); reflexivity.
Qed.

Lemma wb_tx_fail t g p a : wb_step t (ETx g p a false) = Some t.
Proof. destruct p; reflexivity. Qed.

Lemma counted_set_dup q p : packet_eqb q (set_dup p) = true -> counted_id q = counted_id p.
Proof.
  destruct q, p; cbn [set_dup packet_eqb counted_id]; intros H; try discriminate H; try reflexivity.
  - apply andb_prop in H as [H H3]. apply andb_prop in H as [_ H2]. apply message_eqb_eq in H2. apply N.eqb_eq in H3.
    subst. reflexivity.
  - apply N.eqb_eq in H. subst. reflexivity.
Qed.

Ltac rb_easy := right; bcsimpl; cbn [credit held deq_busy]; repeat split; first [assumption|lia|exact I].

(* Setup starts the accounting afresh, whatever happened before *)
Lemma RB_setup (s : bc) (t : wb_st) (c : connect) (g : N) (resumed fresh : bool) (w p b : N) :
  INV s -> RW s t -> pp s = PSetup c ->
  RB (BC (conn_no (if fresh then set_sess s session_new else s)) (sess (if fresh then set_sess s session_new else s))
         (clos (if fresh then set_sess s session_new else s)) (gproc (if fresh then set_sess s session_new else s))
         (gdeq (if fresh then set_sess s session_new else s)) (gack (if fresh then set_sess s session_new else s))
         (gcl (if fresh then set_sess s session_new else s)) (ph (if fresh then set_sess s session_new else s))
         (PConnack c resumed) (dp (if fresh then set_sess s session_new else s))
         (ap (if fresh then set_sess s session_new else s)) (lp (if fresh then set_sess s session_new else s))
         (dying (if fresh then set_sess s session_new else s)) (c_will c) w p b w p b [])
     (WbSt w (wb_fl t) (if fresh then false else wb_spur t)) /\
  wb_step t (ESetup g (SOk resumed fresh w p b)) = Some (WbSt w (wb_fl t) (if fresh then false else wb_spur t)).
Proof.
  intros HI [_ Hfl] Hp. split; [|reflexivity].
  assert (Hn : wb_fl t = []) by (apply Hfl; rewrite Hp; reflexivity).
  assert (Hd : dp s = DOff) by (apply (I_pre _ HI); rewrite Hp; reflexivity).
  right. destruct fresh; bcsimpl; cbn [wb_fl credit]; rewrite Hn, Hd; cbn [held deq_busy length]; split; try exact I; lia.
Qed.

Lemma RB_proc s t e s' : INV s -> RW s t -> RB s t -> step_proc s e = Some s' -> wb_spur t = true \/ fits s e ->
  exists t', wb_step t e = Some t' /\ RB s' t'.
Proof.
  intros HI HW HR H Hh.
  assert (Hcase : wb_spur t = true \/ (wb_spur t = false /\ fits s e)).
  { destruct (wb_spur t) eqn:Es; [left; reflexivity|right; split; [reflexivity|]]. destruct Hh as [C|Hh]; [discriminate C|exact Hh]. }
  clear Hh. destruct Hcase as [Hsp|[Hns Hh]].
  { destruct (is_setup_ok e) eqn:Ese.
    - destruct e; try discriminate Ese. destruct r as [|resumed fresh w p b]; [discriminate Ese|].
      unfold step_proc in H. destruct (pp s) as [| | | | | |ps| | | | | | | | | | | | | | | | | | | | | |] eqn:Ep;
        try discriminate H; [|destruct ps; discriminate H]. cbv beta iota zeta in H. unfold guard in H.
      destruct ((0 <? w) && (0 <? p) && (0 <? b)); [|discriminate H]. injection H as <-.
      destruct (RB_setup s t c g resumed fresh w p b HI HW Ep) as [Hrb Hst]. eexists. split; [exact Hst|exact Hrb].
    - destruct (wb_step_spur t e Hsp Ese) as (t' & E & Hsp'). exists t'. split; [exact E|apply RB_spur; exact Hsp']. }
  destruct HR as [Hsp|HB]; [congruence|].
  pose proof (I_pre _ HI) as Hpre. pose proof HW as [Hw Hfl].
  unfold step_proc, proc_dispatch, die_p, guard in H.
  inv_step H; inv_helpers; injection H as <-; subst; cbn [pre_loop early] in Hpre, Hfl;
    destruct HB as (Hineq & Hpc); cbn [credit] in Hineq.
  all: try (cbn [wb_step]; eexists; split; [reflexivity|]; rb_easy; fail).
  - (* Rx Puback before CONNECT *)
    destruct (wb_rx_ack t g (Puback id) id (or_introl eq_refl)) as [(En & -> & Hl)| ->];
      (eexists; split; [reflexivity|]); [|left; reflexivity].
    right; bcsimpl; cbn [credit held deq_busy wb_w wb_fl wb_spur]; repeat split; first [assumption|lia|exact I].
  - (* Rx Pubrec before CONNECT *)
    cbn [wb_step]. destruct (nmem id (wb_fl t)); (eexists; split; [reflexivity|]); [rb_easy|left; reflexivity].
  - destruct (wb_rx_ack t g (Pubcomp id) id (or_intror eq_refl)) as [(En & -> & Hl)| ->];
      (eexists; split; [reflexivity|]); [|left; reflexivity].
    right; bcsimpl; cbn [credit held deq_busy wb_w wb_fl wb_spur]; repeat split; first [assumption|lia|exact I].
  - (* Setup *)
    match goal with Hp : Conn.pp s = PSetup _ |- _ =>
      destruct (RB_setup s t c g resumed fresh w pp ps HI HW Hp) as [Hrb Hst] end.
    eexists. split; [exact Hst|exact Hrb].
  - (* All *)
    cbn [wb_step]. eexists; split; [reflexivity|].
    pose proof (Hh g l eq_refl) as Hle. pose proof (Hfl eq_refl) as Hn.
    destruct l; right; bcsimpl; cbn [credit]; repeat split; try assumption; try exact I.
    rewrite Hn. cbn [length] in *. lia.
  - (* Resend ok *)
    destruct (Hpre eq_refl) as [Hd _]. rewrite Hd in Hineq. cbn [held deq_busy] in Hineq.
    match goal with Hq : packet_eqb _ _ = true |- _ => pose proof (counted_set_dup _ _ Hq) as Hip end.
    cbn [length] in Hpc.
    assert (Hnext : forall t', 
              N.of_nat (length (wb_fl t')) + tdeq (take_deq_if_any s) <= cw s ->
              N.of_nat (length (wb_fl t')) + N.of_nat (length l) <= cw s ->
              RB (set_pp (sess_save (take_deq_if_any s) Outgoing (set_dup p))
                         match l with [] => PRestore | _ :: _ => PResend l end) t').
    { intros t' H2 H3. right. unfold take_deq_if_any, take_deq in *.
      destruct (0 <? tdeq s); destruct l; bcsimpl; rewrite ?Hd; cbn [credit held deq_busy];
        repeat split; first [assumption|lia|exact I]. }
    assert (Htd : tdeq (take_deq_if_any s) <= tdeq s /\ (0 < tdeq s -> tdeq (take_deq_if_any s) + 1 = tdeq s)).
    { unfold take_deq_if_any, take_deq. destruct (N.ltb_spec 0 (tdeq s)); bcsimpl; lia. }
    rewrite wb_tx_ok. destruct (counted_id p0) as [id|].
    + pose proof (fl_add_length id (wb_fl t)) as Hfa.
      assert (Hb : N.of_nat (length (fl_add id (wb_fl t))) <= cw s) by lia.
      rewrite <- Hw in Hb. apply N.leb_le in Hb. rewrite Hb, orb_true_r.
      eexists; split; [reflexivity|]. apply Hnext; cbn [wb_w wb_fl]; [|lia].
      destruct (N.eq_dec (tdeq s) 0); lia.
    + eexists; split; [reflexivity|]. apply Hnext; lia.
  - (* Resend fail *)
    destruct (Hpre eq_refl) as [Hd _]. rewrite Hd in Hineq. cbn [held deq_busy] in Hineq.
    rewrite wb_tx_fail. eexists; split; [reflexivity|]. right. unfold take_deq_if_any, take_deq.
    destruct (N.ltb_spec 0 (tdeq s)); bcsimpl; rewrite ?Hd; cbn [credit held deq_busy]; repeat split;
      first [assumption|lia|exact I].
  - (* Rx Puback in the loop *)
    destruct (wb_rx_ack t g (Puback id) id (or_introl eq_refl)) as [(En & -> & Hl)| ->];
      (eexists; split; [reflexivity|]); [|left; reflexivity].
    right; bcsimpl; cbn [credit held deq_busy wb_w wb_fl wb_spur]; repeat split; first [assumption|lia|exact I].
  - (* Rx Pubrec in the loop *)
    cbn [wb_step]. destruct (nmem id (wb_fl t)) eqn:En; (eexists; split; [reflexivity|]); [|left; reflexivity].
    right; bcsimpl; cbn [credit held deq_busy]; repeat split; first [assumption|lia|exact I].
  - destruct (wb_rx_ack t g (Pubcomp id) id (or_intror eq_refl)) as [(En & -> & Hl)| ->];
      (eexists; split; [reflexivity|]); [|left; reflexivity].
    right; bcsimpl; cbn [credit held deq_busy wb_w wb_fl wb_spur]; repeat split; first [assumption|lia|exact I].
  - (* RelTx ok: the id is in flight already *)
    match goal with Hq : (_ =? _) = true |- _ => apply N.eqb_eq in Hq; subst end.
    rewrite wb_tx_ok. cbn [counted_id]. unfold fl_add. rewrite Hpc.
    assert (Hb : N.of_nat (length (wb_fl t)) <= cw s) by lia.
    rewrite <- Hw in Hb. apply N.leb_le in Hb. rewrite Hb, orb_true_r.
    eexists; split; [reflexivity|]. right; bcsimpl; cbn [credit held deq_busy wb_w wb_fl wb_spur]; repeat split;
      first [assumption|lia|exact I].
Qed.

Lemma step_deq_not_setup s e s' : step_deq s e = Some s' -> is_setup_ok e = false.
Proof. unfold step_deq. destruct (dp s), e; try discriminate; reflexivity. Qed.

Lemma RB_deq s t e s' : INV s -> RW s t -> RB s t -> step_deq s e = Some s' ->
  exists t', wb_step t e = Some t' /\ RB s' t'.
Proof.
  intros HI [Hw _] HR H.
  destruct HR as [Hsp|HB].
  { destruct (wb_step_spur t e Hsp (step_deq_not_setup _ _ _ H)) as (t' & E & Hsp').
    exists t'. split; [exact E|apply RB_spur; exact Hsp']. }
  pose proof (I_shape _ HI) as Hsh.
  assert (Hnp : pre_loop (pp s) = false).
  { destruct (pre_loop (pp s)) eqn:Ep; [|reflexivity]. destruct (I_pre _ HI Ep) as [Hd _].
    unfold step_deq in H. rewrite Hd in H. discriminate H. }
  assert (Hphase : forall fl, (forall id, nmem id (wb_fl t) = true -> nmem id fl = true) ->
            match pp s with
            | PResend rest => N.of_nat (length fl) + N.of_nat (length rest) <= cw s
            | PRecSave id | PRelTx id => nmem id fl = true
            | _ => True end).
  { intros fl Hsub. destruct HB as (_ & Hpc). destruct (pp s); try exact I; try discriminate Hnp; apply Hsub; exact Hpc. }
  unfold step_deq, guard in H.
  inv_step H; inv_helpers; injection H as <-; subst; cbn [dp_shape] in Hsh;
    destruct HB as (Hineq & Hpc); cbn [held deq_busy] in Hineq.
  all: try (cbn [wb_step]; eexists; split; [reflexivity|]; rb_easy; fail).
  - cbn [wb_step]. eexists; split; [reflexivity|]. destruct backack; rb_easy.
  - cbn [wb_step]. eexists; split; [reflexivity|]. destruct ba; rb_easy.
  - (* Send ok *)
    destruct Hsh as (m & id & ->).
    match goal with Hq : packet_eqb _ _ = true |- _ => apply packet_eqb_publish_l in Hq; subst end.
    rewrite wb_tx_ok. cbn [counted_id]. destruct (m_qos m =? 0) eqn:Eq.
    + eexists; split; [reflexivity|]. rb_easy.
    + pose proof (fl_add_length id (wb_fl t)) as Hfa.
      assert (Hb : N.of_nat (length (fl_add id (wb_fl t))) <= cw s) by lia.
      rewrite <- Hw in Hb. apply N.leb_le in Hb. rewrite Hb, orb_true_r.
      eexists; split; [reflexivity|].
      right; bcsimpl; cbn [credit held deq_busy wb_w wb_fl wb_spur]; split; [lia|].
      apply Hphase. intros id' Hin. unfold fl_add. destruct (nmem id (wb_fl t)); [exact Hin|].
      cbn [nmem existsb]. unfold nmem in Hin. rewrite Hin. apply orb_true_r.
  - (* Send fail *)
    rewrite wb_tx_fail. eexists; split; [reflexivity|]. rb_easy.
Qed.

Lemma RB_frame s s' t :
  cw s' = cw s -> tdeq s' = tdeq s -> held (dp s') <= held (dp s) -> pp s' = pp s -> RB s t -> RB s' t.
Proof.
  intros Ec Et Eh Ep [Hsp|(Hineq & Hpc)]; [left; exact Hsp|right].
  rewrite Ec, Et, Ep. split; [lia|exact Hpc].
Qed.

Lemma RB_same s s' t : same_pd s s' -> RB s t -> RB s' t.
Proof.
  intros Hs. apply RB_frame; [apply (sp_cw _ _ Hs)|apply (sp_tdeq _ _ Hs)|rewrite (sp_dp _ _ Hs); lia|apply (sp_pp _ _ Hs)].
Qed.

Lemma RB_frozen s s' t : frozen s s' -> RB s t -> RB s' t.
Proof.
  intros Hf [Hsp|(Hineq & Hpc)]; [left; exact Hsp|right].
  rewrite (fz_cw _ _ Hf), (fz_tdeq _ _ Hf), (fz_pp _ _ Hf), (fz_dp _ _ Hf). cbn [credit].
  split; [|exact I].
  assert (held (match dp s with DOff => DOff | _ => DDone end) = 0) as -> by (destruct (dp s); reflexivity).
  lia.
Qed.

Lemma RB_learned s s1 t : learned s s1 -> RB s t -> RB s1 t.
Proof. intros [->|(g & _ & [[_ ->]|[[_ ->]|[[_ ->]|[_ ->]]]])] HR; exact HR. Qed.

Lemma RW_learned s s1 t : learned s s1 -> RW s t -> RW s1 t.
Proof. intros [->|(g & _ & [[_ ->]|[[_ ->]|[[_ ->]|[_ ->]]]])] HR; exact HR. Qed.

Lemma wb_step_other t e :
  match e with ENewConn | ESetup _ _ | ETx _ _ _ _ | ERx _ _ => False | _ => True end -> wb_step t e = Some t.
Proof. destruct e; try contradiction; reflexivity. Qed.

Lemma ack_not_counted p : is_ack_packet p = true -> counted_id p = None.
Proof. destruct p; try discriminate; reflexivity. Qed.

(* the bound clause advances whenever the resume (if the event is one) fits *)
Lemma RB_step s t e s' : INV s -> RW s t -> RB s t -> step s e = Some s' -> wb_spur t = true \/ fits s e ->
  exists t', wb_step t e = Some t' /\ RB s' t'.
Proof.
  intros HI HW HB H Hh. apply step_inv in H.
  destruct H as [He Ho ->|He Ho ->|He Hq ->|Hc|g s1 Hg Hl Hr Ho Hp|g s1 Hg Hl Hr Ho Hnp Hd
                |g s1 Hg Hl Hr Ho Hnp Hnd Ha|g s1 Hg Hl Hr Ho Hc|He Hc|g He Ho ->].
  - subst e. eexists. split; [reflexivity|]. destruct (wb_spur t) eqn:Es; [left; reflexivity|right].
    bcsimpl. cbn [wb_fl length held deq_busy credit]. split; [lia|exact I].
  - subst e. exists t. split; [reflexivity|exact HB].
  - subst e. exists t. split; [reflexivity|exact HB].
  - apply step_clo_sum in Hc as (He & Hs & _). exists t.
    split; [apply wb_step_other; destruct e; try contradiction; exact I|eapply RB_same; eassumption].
  - assert (Hh1 : wb_spur t = true \/ fits s1 e).
    { destruct Hh as [Hh|Hh]; [left; exact Hh|right]. intros g' ps E. pose proof (Hh g' ps E) as Hle.
      destruct Hl as [->|(g0 & _ & [[_ ->]|[[_ ->]|[[_ ->]|[_ ->]]]])]; exact Hle. }
    eapply RB_proc; [eapply INV_learned; eassumption|eapply RW_learned; eassumption|eapply RB_learned; eassumption|exact Hp|exact Hh1].
  - eapply RB_deq; [eapply INV_learned; eassumption|eapply RW_learned; eassumption|eapply RB_learned; eassumption|exact Hd].
  - pose proof (INV_learned _ _ Hl HI) as HI1. pose proof (step_ack_sum _ _ _ Ha) as (Hs & _ & He).
    exists t. split; [|eapply RB_same; [exact Hs|eapply RB_learned; eassumption]].
    destruct e; try contradiction; try reflexivity.
    destruct async; [|contradiction]. destruct He as (q' & Ht & _).
    destruct ok; [|apply wb_tx_fail]. rewrite wb_tx_ok, ack_not_counted; [reflexivity|].
    eapply ackq_take_is_ack; [exact Ht|apply (I_ackq _ HI1)].
  - apply step_cleanup_sum in Hc as (He & Hc). exists t.
    split; [apply wb_step_other; destruct e; try contradiction; exact I|].
    destruct Hc as [(Hs & _)|Hf]; [eapply RB_same|eapply RB_frozen]; try eassumption; eapply RB_learned; eassumption.
  - apply step_cleanup_sum in Hc as (He' & Hc). exists t.
    split; [apply wb_step_other; destruct e; try contradiction; exact I|].
    destruct Hc as [(Hs & _)|Hf]; [eapply RB_same|eapply RB_frozen]; eassumption.
  - subst e. exists t. split; [reflexivity|]. (eapply RB_frame; [| | | |exact HB]); reflexivity.
Qed.

Definition R_wb (s : bc) (t : wb_st) (u : N) : Prop := RA s u /\ RW s t /\ RB s t.

Lemma wb_step_ok s t u e s' u' : INV s -> R_wb s t u -> step s e = Some s' -> rf_step u e = Some u' ->
  exists t', wb_step t e = Some t' /\ R_wb s' t' u'.
Proof.
  intros HI (HA & HW & HB) H Hh.
  destruct (RB_step s t e s' HI HW HB H (or_intror (fits_of_rf _ _ _ _ HA Hh))) as (t' & E & HB').
  exists t'. split; [exact E|]. split; [eapply RA_step; eassumption|]. split; [eapply RW_step; eassumption|exact HB'].
Qed.

Lemma R_wb_init : R_wb bc_init (WbSt 0 [] false) 0.
Proof. split; [reflexivity|]. split; [split; reflexivity|]. right. cbn. split; [lia|exact I]. Qed.

(* the bound, for traces whose resumes fit the window *)
Theorem c16_bound_partial_holds :
  forall es s, bc_run es = Some s -> c16_resume_fits es = true -> c16_bound es = true.
Proof. exact (scan2_sound wb_step rf_step INV R_wb INV_init INV_step wb_step_ok _ _ R_wb_init). Qed.

(* the unconditional bound is false *)
Theorem c16_bound_refuted_holds : exists es s, bc_run es = Some s /\ c16_bound es = false.
Proof.
  destruct (bc_run ConnProofsCTraces.tr_c16_shrink) as [s|] eqn:E.
  - exists ConnProofsCTraces.tr_c16_shrink, s. split; [exact E|vm_compute; reflexivity].
  - vm_compute in E. discriminate E.
Qed.
