(* ConnSpec5.v — further trace clauses of the broker connection (same conventions as
   ConnSpec.v / ConnSpec2.v; definitions only):
     c06_forward_intact   the connection half of C06's delivery clause
     c14_lifecycle2       the life-cycle clause of C14, with "nothing after Closed"
                          applied to every event of the connection
   and the trace function pending_pubrels used by the C07 progress statement. *)
From Coq Require Import List NArith Bool.
From GM Require Import Codec.Packet Session.Store Broker.Conn Broker.ConnSpec Broker.ConnSpec2.
Import ListNotations.
Open Scope N_scope.

(* ================================================================== C06 == *)

(* C06_forward_intact: every message the dequeuer takes from the backend
   (EDeqRet g (QMsg m _)) is forwarded by that goroutine as exactly one PUBLISH whose
   message equals m field for field (topic, payload, qos as dequeued, retain as queued),
   with dup = false and, for QoS > 0, the packet id allocated for it by ENextId g id
   (id 0 for QoS 0); it is forwarded before the next message is taken; and that
   goroutine sends no other fresh (dup = false) PUBLISH. *)
Inductive fw_st :=
| FwGot (m : message) (id : option N)     (* dequeued, not forwarded yet; the id allocated since *)
| FwSent.                                 (* forwarded (the goroutine is a dequeuer) *)

Definition fw_step (s : list (N * fw_st)) (e : event) : option (list (N * fw_st)) :=
  match e with
  | ENewConn => Some []
  | EDeqRet g (QMsg m _) =>
      match aget s g with
      | Some (FwGot _ _) => None                           (* the previous message was never forwarded *)
      | _ => Some (aput s g (FwGot m None))
      end
  | ENextId g id =>
      match aget s g with
      | Some (FwGot m _) => Some (aput s g (FwGot m (Some id)))
      | _ => Some s
      end
  | ETx g (Publish dup m id) _ _ =>
      match aget s g with
      | None => Some s                                     (* not a dequeuer: resends, other coroutines *)
      | Some FwSent => if dup then Some s else None        (* a fresh PUBLISH without a dequeued message *)
      | Some (FwGot m' oid) =>
          let want := if m_qos m' =? 0 then Some 0 else oid in
          if negb dup && message_eqb m m' && option_eqb N.eqb (Some id) want
          then Some (aput s g FwSent) else None
      end
  | _ => Some s
  end.
Definition c06_forward_intact (es : list event) : bool := scan fw_step [] es.

(* ================================================================== C14 == *)

(* C14_lifecycle2: c14_lifecycle (ConnSpec2.v) with the "nothing of the connection
   happens after Closed" line applied to a successful Authenticate / Setup as well
   (in lc_step their patterns come first and escape it). *)
Definition lc_step2 (s : lc_st) (e : event) : option lc_st :=
  match e with
  | EAuth _ AOk | ESetup _ (SOk _ _ _ _ _) => if lc_open s then lc_step s e else None
  | _ => lc_step s e
  end.
Definition c14_lifecycle2 (es : list event) : bool := scan lc_step2 (LcSt false false false 0) es.

(* ================================================================== C07 == *)

(* the ids of the PUBRELs received on the current connection for which no PUBCOMP has
   been sent (successfully) yet, with multiplicity *)
Definition pend_step (l : list N) (e : event) : list N :=
  match e with
  | ENewConn => []
  | ERx _ (Pubrel id) => id :: l
  | ETx _ (Pubcomp id) _ true => nremove1 id l
  | _ => l
  end.
Definition pending_pubrels (es : list event) : list N := fold_left pend_step es [].

(* ================================================================== C15 == *)

(* C15_resend_first: retransmissions come first.  On every connection, from the
   successful Setup until Restore -- the window in which the stored outgoing packets are
   listed (EAll _ Outgoing) and re-sent -- nothing is dequeued (no EDeqCall / EDeqRet)
   and nothing is sent except, by the goroutine that called Setup (the processor), the
   CONNACK and then exactly the listed packets (PUBLISH with dup set, PUBREL as such) in
   listing order; Restore comes only when the list is exhausted.  So no message
   published while the subscriber was offline can overtake the retransmission of an
   earlier unacknowledged one. *)
Inductive rf_st :=
| RfIdle
| RfOpen (g : N) (todo : option (list packet)).     (* None: not listed yet *)

Definition rf_step (t : rf_st) (e : event) : option rf_st :=
  match e with
  | ENewConn => Some RfIdle
  | ESetup g (SOk _ _ _ _ _) => Some (RfOpen g None)
  | _ =>
    match t with
    | RfIdle => Some t
    | RfOpen g todo =>
        match e with
        | EDeqCall _ | EDeqRet _ _ => None
        | EAll g' Outgoing (Some ps) => if g' =? g then Some (RfOpen g (Some (map set_dup ps))) else Some t
        | ETx g' p _ _ =>
            if negb (g' =? g) then None else
            match todo, p with
            | None, Connack _ _ => Some t
            | Some (q :: rest), _ => if packet_eqb p q then Some (RfOpen g (Some rest)) else None
            | _, _ => None
            end
        | ERestore g' _ =>
            match todo with
            | Some [] => if g' =? g then Some RfIdle else None
            | _ => None
            end
        | _ => Some t
        end
    end
  end.
Definition c15_resend_first (es : list event) : bool := scan rf_step RfIdle es.
