(* BackendC13Proofs.v — the uniqueness invariant of C13 (state part) holds after every
   history without kill timeout and without backend Close:
     C13_unique_state : unique_ok (run_state (init cap) ops) = true.
   The proof goes through a stronger inductive invariant (Inv). *)
From Coq Require Import List NArith Bool Lia.
From Coq.Strings Require Import Byte.
From GM Require Import Codec.Packet Topic.MatchSpec Broker.Backend Broker.BackendSpec
  Broker.BackendProofs Broker.BackendProofsPublish Broker.BackendProofsSteps Broker.BackendProofsHist
  Broker.BackendC13.
Import ListNotations.
Open Scope N_scope.

Definition sess_of (st : state) (c : conn) : option skey := alookup N.eqb c (st_sess st).

Record Core (st : state) : Prop := {
  i_wf : wf st;
  i_act_nd : NoDup (map fst (st_active st));
  (* a connection that holds a session is live, the session is its own temporary one or the stored
     one of its client id, and that session names it as active *)
  i_s1 : forall c k, sess_of st c = Some k ->
           mem_n c (st_term st) = false /\
           (k = KTemp c \/ (k = KStored (cid_of st c) /\ cid_of st c <> [])) /\
           exists s, get_session st k = Some s /\ s_act s = Some c;
  (* and conversely *)
  i_s2 : forall k s c, get_session st k = Some s -> s_act s = Some c -> sess_of st c = Some k;
  (* the active map lists exactly the session-holding connections with a client id *)
  i_ac1 : forall id c, alookup bytes_eqb id (st_active st) = Some c ->
           id <> [] /\ cid_of st c = id /\ sess_of st c <> None;
  i_ac2 : forall c k, sess_of st c = Some k -> cid_of st c <> [] ->
           alookup bytes_eqb (cid_of st c) (st_active st) = Some c;
  (* a stored session and a temporary session never coexist for one client id *)
  i_x : forall id c, alookup bytes_eqb id (st_stored st) <> None -> sess_of st c = Some (KTemp c) -> cid_of st c <> id;
  i_st : forall id, alookup bytes_eqb id (st_stored st) <> None -> id <> [];
  i_t1 : forall c s, alookup N.eqb c (st_temps st) = Some s -> s_act s = Some c;
  i_cid : forall c, (sess_of st c <> None \/ mem_n c (st_term st) = true) -> alookup N.eqb c (st_cid st) <> None;
  i_closed : forall c, mem_n c (st_closed st) = true -> mem_n c (st_term st) = true
}.

Definition Pend (st : state) : Prop :=
  forall p, st_pending st = Some p ->
    p_id p <> [] /\ alookup N.eqb (p_conn p) (st_cid st) = Some (p_id p) /\
    sess_of st (p_conn p) = None /\ mem_n (p_conn p) (st_term st) = false /\
    (forall c k, sess_of st c = Some k -> cid_of st c = p_id p -> c = p_old p).

Definition Inv (st : state) : Prop := Core st /\ Pend st.

(* ------------------------------------------------------------------ small facts *)
Lemma mem_add_n c x l : mem_n c (add_n x l) = (c =? x) || mem_n c l.
Proof.
  unfold add_n. destruct (mem_n x l) eqn:E.
  - destruct (c =? x) eqn:C; [apply N.eqb_eq in C; subst; rewrite E; reflexivity|reflexivity].
  - unfold mem_n. cbn [existsb]. reflexivity.
Qed.

Lemma is_nil_false {A} (l : list A) : is_nil l = false <-> l <> [].
Proof. destruct l; cbn; split; congruence. Qed.

Lemma neq_none_some {A} (o : option A) : o <> None <-> exists x, o = Some x.
Proof. destruct o; split; [eauto|congruence|congruence|intros [x H]; discriminate]. Qed.

Lemma bytes_neq_eqb a b : a <> b -> bytes_eqb a b = false.
Proof. intros H. apply bytes_eqb_neq; exact H. Qed.

Lemma n_neq_eqb (a b : N) : a <> b -> (a =? b) = false.
Proof. intros H. apply N.eqb_neq; exact H. Qed.

Lemma inv_init cap : Inv (init cap).
Proof.
  split.
  - constructor.
    + apply wf_init.
    + constructor.
    + intros c k H; discriminate.
    + intros k s c H. destruct k; discriminate.
    + intros id c H; discriminate.
    + intros c k H; discriminate.
    + intros id c H; exfalso; apply H; reflexivity.
    + intros id H; exfalso; apply H; reflexivity.
    + intros c s H; discriminate.
    + intros c [H|H]; [exfalso; apply H; reflexivity|discriminate].
    + intros c H; discriminate.
  - intros p H. discriminate.
Qed.

(* ------------------------------------------------------------------ steps that only rewrite queues and subscriptions *)
Record frame (st st' : state) : Prop := {
  f_sess : st_sess st' = st_sess st;
  f_cid : st_cid st' = st_cid st;
  f_term : st_term st' = st_term st;
  f_active : st_active st' = st_active st;
  f_pending : st_pending st' = st_pending st;
  f_closing : st_closing st' = st_closing st;
  f_closed : forall c, mem_n c (st_closed st') = true -> mem_n c (st_closed st) = true \/ mem_n c (st_term st) = true;
  f_wf : wf st';
  f_act : forall k, option_map s_act (get_session st' k) = option_map s_act (get_session st k)
}.

Lemma frame_get st st' k s' :
  frame st st' -> get_session st' k = Some s' -> exists s, get_session st k = Some s /\ s_act s = s_act s'.
Proof.
  intros F G. pose proof (f_act _ _ F k) as X. rewrite G in X. cbn in X.
  destruct (get_session st k) as [s|]; [|discriminate]. cbn in X. injection X as X. exists s; auto.
Qed.

Lemma frame_get' st st' k s :
  frame st st' -> get_session st k = Some s -> exists s', get_session st' k = Some s' /\ s_act s' = s_act s.
Proof.
  intros F G. pose proof (f_act _ _ F k) as X. rewrite G in X. cbn in X.
  destruct (get_session st' k) as [s'|]; [|discriminate]. cbn in X. injection X as X. exists s'; auto.
Qed.

Lemma inv_frame st st' : Inv st -> frame st st' -> Inv st'.
Proof.
  intros (C & P) F.
  assert (Ecid : forall c, cid_of st' c = cid_of st c) by (intros c; unfold cid_of; rewrite (f_cid _ _ F); reflexivity).
  assert (Esess : forall c, sess_of st' c = sess_of st c) by (intros c; unfold sess_of; rewrite (f_sess _ _ F); reflexivity).
  assert (Est : forall id, alookup bytes_eqb id (st_stored st') <> None <-> alookup bytes_eqb id (st_stored st) <> None).
  { intros id. pose proof (f_act _ _ F (KStored id)) as X. cbn [get_session] in X.
    destruct (alookup bytes_eqb id (st_stored st')), (alookup bytes_eqb id (st_stored st)); cbn in X; try discriminate; split; congruence. }
  split.
  - constructor.
    + exact (f_wf _ _ F).
    + rewrite (f_active _ _ F). exact (i_act_nd _ C).
    + intros c k H. rewrite Esess in H. destruct (i_s1 _ C c k H) as (H1 & H2 & s & G & A).
      rewrite (f_term _ _ F), Ecid. split; [exact H1|]. split; [exact H2|].
      destruct (frame_get' _ _ _ _ F G) as [s' [G' A']]. exists s'; split; [exact G'|congruence].
    + intros k s' c G A. destruct (frame_get _ _ _ _ F G) as [s [G0 A0]]. rewrite Esess.
      apply (i_s2 _ C k s c G0). congruence.
    + intros id c H. rewrite (f_active _ _ F) in H. rewrite Ecid, Esess. exact (i_ac1 _ C id c H).
    + intros c k H Hn. rewrite Esess in H. rewrite Ecid in *. rewrite (f_active _ _ F). exact (i_ac2 _ C c k H Hn).
    + intros id c H1 H2. rewrite Esess in H2. rewrite Ecid. apply (i_x _ C id c); [apply Est; exact H1|exact H2].
    + intros id H. apply (i_st _ C id). apply Est; exact H.
    + intros c s' G. destruct (frame_get _ _ (KTemp c) s' F G) as [s [G0 A0]]. rewrite <- A0. exact (i_t1 _ C c s G0).
    + intros c H. rewrite Esess, (f_term _ _ F) in H. rewrite (f_cid _ _ F). exact (i_cid _ C c H).
    + intros c H. rewrite (f_term _ _ F). destruct (f_closed _ _ F c H) as [H1|H1]; [exact (i_closed _ C c H1)|exact H1].
  - intros p H. rewrite (f_pending _ _ F) in H. destruct (P p H) as (P1 & P2 & P3 & P4 & P5).
    rewrite (f_cid _ _ F), Esess, (f_term _ _ F). repeat split; auto.
    intros c k Hs Hc. rewrite Esess in Hs. rewrite Ecid in Hc. exact (P5 c k Hs Hc).
Qed.

Lemma frame_put st k s0 s2 :
  wf st -> get_session st k = Some s0 -> s_act s2 = s_act s0 -> frame st (put_session st k s2).
Proof.
  intros W G A. constructor; try (destruct k; reflexivity).
  - intros c H. left. destruct k; exact H.
  - apply wf_put; exact W.
  - intros k'. rewrite get_put. destruct (skey_eqb k' k) eqn:E; [|reflexivity].
    apply skey_eqb_eq in E; subst k'. rewrite G. cbn. rewrite A. reflexivity.
Qed.

Lemma frame_refl st : wf st -> frame st st.
Proof. intros W. constructor; auto. Qed.

Lemma deliver_act err got k a m s : s_act (deliver err got k a m s) = s_act s.
Proof.
  unfold deliver. destruct a; try reflexivity.
  destruct err; [destruct (mem_key k got)|]; try reflexivity; unfold enqueue; destruct (use_temp m); reflexivity.
Qed.

Lemma frame_publish st c m got : wf st -> frame st (snd (publish st c m got)).
Proof.
  intros W. destruct (pub_stuck st c m) eqn:Hnb.
  - rewrite publish_unfold, Hnb. apply frame_refl; exact W.
  - pose proof (wf_step st (OPublish c m got) W) as W'. cbn [step] in W'.
    constructor; try (rewrite publish_unfold, Hnb; reflexivity).
    + intros x H. left. rewrite publish_unfold, Hnb in H. exact H.
    + exact W'.
    + intros k. rewrite (get_session_published st c m got k Hnb).
      destruct (get_session st k) as [s|]; [|reflexivity]. cbn. rewrite deliver_act. reflexivity.
Qed.

(* ------------------------------------------------------------------ Setup *)
(* what setup_finish needs of the state it starts from *)
Record PreFinish (st : state) (c : conn) (id : bytes) : Prop := {
  pf_core : Core st;
  pf_id : id <> [];
  pf_cid : alookup N.eqb c (st_cid st) = Some id;
  pf_nosess : sess_of st c = None;
  pf_noterm : mem_n c (st_term st) = false;
  pf_free : forall c' k, sess_of st c' = Some k -> cid_of st c' <> id     (* no live connection with this client id *)
}.

Lemma pf_active_none st c id : PreFinish st c id -> alookup bytes_eqb id (st_active st) = None.
Proof.
  intros PF. destruct (alookup bytes_eqb id (st_active st)) as [c1|] eqn:A; [|reflexivity].
  destruct (i_ac1 _ (pf_core _ _ _ PF) id c1 A) as (_ & H2 & H3).
  apply neq_none_some in H3 as [k H3]. exfalso. exact (pf_free _ _ _ PF c1 k H3 H2).
Qed.

Lemma pf_stored_offline st c id s :
  PreFinish st c id -> alookup bytes_eqb id (st_stored st) = Some s -> s_act s = None.
Proof.
  intros PF L. destruct (s_act s) as [c1|] eqn:A; [|reflexivity]. exfalso.
  pose proof (i_s2 _ (pf_core _ _ _ PF) (KStored id) s c1 L A) as S.
  destruct (i_s1 _ (pf_core _ _ _ PF) c1 _ S) as (_ & [H|[H Hn]] & _); [discriminate|].
  injection H as H. exact (pf_free _ _ _ PF c1 _ S (eq_sym H)).
Qed.

Lemma pf_no_act st c id k s : PreFinish st c id -> get_session st k = Some s -> s_act s <> Some c.
Proof.
  intros PF G A. pose proof (i_s2 _ (pf_core _ _ _ PF) k s c G A) as S. rewrite (pf_nosess _ _ _ PF) in S. discriminate.
Qed.

Lemma pf_cid_of st c id : PreFinish st c id -> cid_of st c = id.
Proof. intros PF. unfold cid_of. rewrite (pf_cid _ _ _ PF). reflexivity. Qed.

Ltac eqb_cases :=
  repeat match goal with
  | |- context [N.eqb ?a ?b] => let E := fresh "E" in destruct (N.eqb a b) eqn:E; [apply N.eqb_eq in E; subst|apply N.eqb_neq in E]
  | |- context [bytes_eqb ?a ?b] => let E := fresh "E" in destruct (bytes_eqb a b) eqn:E; [apply bytes_eqb_eq in E; subst|apply bytes_eqb_neq in E]
  end.

Lemma skey_neq_eqb a b : a <> b -> skey_eqb a b = false.
Proof. intros H. destruct (skey_eqb a b) eqn:E; [apply skey_eqb_eq in E; contradiction|reflexivity]. Qed.

(* giving connection c the session K (fresh temporary, or the stored one of its id) *)
Lemma inv_add_session st st' c id K S :
  PreFinish st c id ->
  (K = KTemp c \/ K = KStored id) ->
  s_act S = Some c ->
  wf st' ->
  st_active st' = aset bytes_eqb id c (st_active st) ->
  st_sess st' = aset N.eqb c K (st_sess st) ->
  st_cid st' = st_cid st -> st_term st' = st_term st -> st_closed st' = st_closed st ->
  st_closing st' = st_closing st -> st_pending st' = None ->
  get_session st' K = Some S ->
  (forall k' s', k' <> K -> get_session st' k' = Some s' -> get_session st k' = Some s') ->
  (forall k' s', k' <> K -> k' <> KStored id -> get_session st k' = Some s' -> get_session st' k' = Some s') ->
  (K = KTemp c -> alookup bytes_eqb id (st_stored st') = None) ->
  Inv st'.
Proof.
  intros PF HK HS W' Eact Esess Ecid Eterm Eclosed Eclosing Epend GK Gold Gkeep Gclean.
  pose proof (pf_core _ _ _ PF) as C.
  pose proof (pf_cid_of _ _ _ PF) as CID.
  assert (Ecid_of : forall x, cid_of st' x = cid_of st x) by (intros x; unfold cid_of; rewrite Ecid; reflexivity).
  assert (Sess' : forall x, sess_of st' x = if x =? c then Some K else sess_of st x).
  { intros x. unfold sess_of. rewrite Esess. apply (alookup_aset N.eqb N.eqb_eq). }
  assert (Act' : forall i, alookup bytes_eqb i (st_active st') = if bytes_eqb i id then Some c else alookup bytes_eqb i (st_active st)).
  { intros i. rewrite Eact. apply (alookup_aset bytes_eqb bytes_eqb_eq). }
  assert (Kne : forall c' k, c' <> c -> sess_of st c' = Some k -> k <> K /\ k <> KStored id).
  { intros c' k Hc Hs. destruct (i_s1 _ C c' k Hs) as (_ & Sh & _).
    pose proof (pf_free _ _ _ PF c' k Hs) as Hfree.
    destruct Sh as [->|[-> Hn]]; destruct HK as [->| ->]; split; try discriminate; try congruence. }
  split.
  - constructor.
    + exact W'.
    + rewrite Eact. apply (nodup_aset bytes_eqb bytes_eqb_eq). exact (i_act_nd _ C).
    + (* i_s1 *)
      intros c' k H. rewrite Sess' in H. rewrite Eterm, Ecid_of.
      destruct (c' =? c) eqn:E.
      * apply N.eqb_eq in E; subst c'. injection H as <-. split; [exact (pf_noterm _ _ _ PF)|].
        split; [|exists S; auto].
        destruct HK as [->| ->]; [left; reflexivity|right; rewrite CID; split; [reflexivity|exact (pf_id _ _ _ PF)]].
      * apply N.eqb_neq in E. destruct (i_s1 _ C c' k H) as (H1 & H2 & s & G & A).
        split; [exact H1|]. split; [exact H2|]. exists s; split; [|exact A].
        destruct (Kne c' k E H) as [N1 N2]. exact (Gkeep k s N1 N2 G).
    + (* i_s2 *)
      intros k s' c1 G A. rewrite Sess'.
      destruct (skey_eqb k K) eqn:EK.
      * apply skey_eqb_eq in EK; subst k. rewrite GK in G; injection G as <-.
        rewrite HS in A; injection A as <-. rewrite N.eqb_refl. reflexivity.
      * assert (NK : k <> K) by (intros ->; rewrite skey_eqb_refl in EK; discriminate).
        pose proof (Gold k s' NK G) as G0. pose proof (i_s2 _ C k s' c1 G0 A) as S1.
        destruct (c1 =? c) eqn:E; [|exact S1]. apply N.eqb_eq in E; subst c1.
        rewrite (pf_nosess _ _ _ PF) in S1; discriminate.
    + (* i_ac1 *)
      intros i c1 H. rewrite Act' in H. rewrite Ecid_of, Sess'. destruct (bytes_eqb i id) eqn:E.
      * apply bytes_eqb_eq in E; subst i. injection H as <-. rewrite N.eqb_refl.
        split; [exact (pf_id _ _ _ PF)|]. split; [exact CID|discriminate].
      * destruct (i_ac1 _ C i c1 H) as (H1 & H2 & H3). split; [exact H1|]. split; [exact H2|].
        destruct (c1 =? c) eqn:E1; [discriminate|exact H3].
    + (* i_ac2 *)
      intros c' k H Hn. rewrite Sess' in H. rewrite Ecid_of in *. rewrite Act'.
      destruct (c' =? c) eqn:E.
      * apply N.eqb_eq in E; subst c'. rewrite CID, bytes_eqb_refl. reflexivity.
      * apply N.eqb_neq in E. pose proof (pf_free _ _ _ PF c' k H) as Hfree.
        rewrite (bytes_neq_eqb _ _ Hfree). exact (i_ac2 _ C c' k H Hn).
    + (* i_x *)
      intros i c' Hst Hs. rewrite Sess' in Hs. rewrite Ecid_of.
      assert (Hst0 : i = id /\ K = KStored id \/ alookup bytes_eqb i (st_stored st) <> None).
      { destruct (alookup bytes_eqb i (st_stored st')) as [s'|] eqn:L; [|congruence].
        destruct (skey_eqb (KStored i) K) eqn:EK.
        - apply skey_eqb_eq in EK. left. destruct HK as [->| ->]; [discriminate|]. injection EK as ->. auto.
        - right. assert (NK : KStored i <> K) by (intros X; rewrite X, skey_eqb_refl in EK; discriminate).
          pose proof (Gold (KStored i) s' NK L) as G0. cbn [get_session] in G0. congruence. }
      destruct (c' =? c) eqn:E.
      * apply N.eqb_eq in E; subst c'. injection Hs as HKc. rewrite CID.
        pose proof (Gclean HKc) as Hnone. intros <-. apply Hst. exact Hnone.
      * apply N.eqb_neq in E. destruct Hst0 as [[-> _]|Hst0].
        -- exact (pf_free _ _ _ PF c' _ Hs).
        -- exact (i_x _ C i c' Hst0 Hs).
    + (* i_st *)
      intros i Hst. destruct (alookup bytes_eqb i (st_stored st')) as [s'|] eqn:L; [|congruence].
      destruct (skey_eqb (KStored i) K) eqn:EK.
      * apply skey_eqb_eq in EK. destruct HK as [->| ->]; [discriminate|]. injection EK as ->. exact (pf_id _ _ _ PF).
      * assert (NK : KStored i <> K) by (intros X; rewrite X, skey_eqb_refl in EK; discriminate).
        pose proof (Gold (KStored i) s' NK L) as G0. cbn [get_session] in G0. apply (i_st _ C i). congruence.
    + (* i_t1 *)
      intros c' s' L. destruct (skey_eqb (KTemp c') K) eqn:EK.
      * apply skey_eqb_eq in EK. change (get_session st' (KTemp c') = Some s') in L. rewrite EK, GK in L. injection L as <-.
        destruct HK as [->| ->]; [injection EK as ->; exact HS|discriminate].
      * assert (NK : KTemp c' <> K) by (intros X; rewrite X, skey_eqb_refl in EK; discriminate).
        pose proof (Gold (KTemp c') s' NK L) as G0. exact (i_t1 _ C c' s' G0).
    + (* i_cid *)
      intros c' H. rewrite Ecid. rewrite Sess', Eterm in H. destruct (c' =? c) eqn:E.
      * apply N.eqb_eq in E; subst c'. rewrite (pf_cid _ _ _ PF); discriminate.
      * exact (i_cid _ C c' H).
    + intros c' H. rewrite Eclosed in H. rewrite Eterm. exact (i_closed _ C c' H).
  - intros p H. rewrite Epend in H; discriminate.
Qed.

Lemma inv_setup_finish st c id clean :
  PreFinish st c id -> Inv (snd (setup_finish st c id clean)).
Proof.
  intros PF. pose proof (wf_setup_finish st c id clean (i_wf _ (pf_core _ _ _ PF))) as W'.
  unfold setup_finish in *. destruct clean.
  - cbn [snd] in *.
    apply (inv_add_session st _ c id (KTemp c) (new_session c) PF); try reflexivity; auto.
    + cbn [get_session st_temps]. rewrite (alookup_aset N.eqb N.eqb_eq), N.eqb_refl. reflexivity.
    + intros k' s' Hk G. destruct k' as [c'|i]; cbn [get_session st_temps st_stored] in *.
      * rewrite (alookup_aset N.eqb N.eqb_eq) in G. destruct (c' =? c) eqn:E; [|exact G].
        apply N.eqb_eq in E; subst c'. exfalso; apply Hk; reflexivity.
      * rewrite (alookup_aremove bytes_eqb bytes_eqb_eq) in G. destruct (bytes_eqb i id); [discriminate|exact G].
    + intros k' s' Hk Hk2 G. destruct k' as [c'|i]; cbn [get_session st_temps st_stored] in *.
      * rewrite (alookup_aset N.eqb N.eqb_eq). destruct (c' =? c) eqn:E; [|exact G].
        apply N.eqb_eq in E; subst c'. exfalso; apply Hk; reflexivity.
      * rewrite (alookup_aremove bytes_eqb bytes_eqb_eq). destruct (bytes_eqb i id) eqn:E; [|exact G].
        apply bytes_eqb_eq in E; subst i. exfalso; apply Hk2; reflexivity.
    + intros _. cbn [st_stored]. rewrite (alookup_aremove bytes_eqb bytes_eqb_eq), bytes_eqb_refl. reflexivity.
  - destruct (alookup bytes_eqb id (st_stored st)) as [s|] eqn:L; cbn [snd] in *.
    + apply (inv_add_session st _ c id (KStored id) (Sess (s_subs s) [] (s_sq s) (Some c)) PF); try reflexivity; auto.
      * cbn [get_session st_stored]. rewrite (alookup_aset bytes_eqb bytes_eqb_eq), bytes_eqb_refl. reflexivity.
      * intros k' s' Hk G. destruct k' as [c'|i]; cbn [get_session st_temps st_stored] in *; [exact G|].
        rewrite (alookup_aset bytes_eqb bytes_eqb_eq) in G. destruct (bytes_eqb i id) eqn:E; [|exact G].
        apply bytes_eqb_eq in E; subst i. exfalso; apply Hk; reflexivity.
      * intros k' s' Hk Hk2 G. destruct k' as [c'|i]; cbn [get_session st_temps st_stored] in *; [exact G|].
        rewrite (alookup_aset bytes_eqb bytes_eqb_eq). destruct (bytes_eqb i id) eqn:E; [|exact G].
        apply bytes_eqb_eq in E; subst i. exfalso; apply Hk; reflexivity.
      * discriminate.
    + apply (inv_add_session st _ c id (KStored id) (new_session c) PF); try reflexivity; auto.
      * cbn [get_session st_stored]. rewrite (alookup_aset bytes_eqb bytes_eqb_eq), bytes_eqb_refl. reflexivity.
      * intros k' s' Hk G. destruct k' as [c'|i]; cbn [get_session st_temps st_stored] in *; [exact G|].
        rewrite (alookup_aset bytes_eqb bytes_eqb_eq) in G. destruct (bytes_eqb i id) eqn:E; [|exact G].
        apply bytes_eqb_eq in E; subst i. exfalso; apply Hk; reflexivity.
      * intros k' s' Hk Hk2 G. destruct k' as [c'|i]; cbn [get_session st_temps st_stored] in *; [exact G|].
        rewrite (alookup_aset bytes_eqb bytes_eqb_eq). destruct (bytes_eqb i id) eqn:E; [|exact G].
        apply bytes_eqb_eq in E; subst i. exfalso; apply Hk; reflexivity.
      * discriminate.
Qed.

(* ------------------------------------------------------------------ Setup: recording the client id of a new connection *)
Definition with_cid (st : state) (c : conn) (id : bytes) : state :=
  St (st_cap st) (st_stored st) (st_temps st) (st_active st) (st_retained st) (st_closing st)
     (st_sess st) (aset N.eqb c id (st_cid st)) (st_dying st) (st_closed st) (st_term st) None.

Lemma fresh_conn st c :
  Core st -> alookup N.eqb c (st_cid st) = None -> sess_of st c = None /\ mem_n c (st_term st) = false.
Proof.
  intros C H. split.
  - destruct (sess_of st c) eqn:E; [|reflexivity]. exfalso. apply (i_cid _ C c); [left; congruence|exact H].
  - destruct (mem_n c (st_term st)) eqn:E; [|reflexivity]. exfalso. apply (i_cid _ C c); [right; exact E|exact H].
Qed.

Lemma cid_of_with st c id x : cid_of (with_cid st c id) x = if x =? c then id else cid_of st x.
Proof. unfold cid_of, with_cid. cbn [st_cid]. rewrite (alookup_aset N.eqb N.eqb_eq). destruct (x =? c); reflexivity. Qed.

Lemma core_with_cid st c id :
  Core st -> st_pending st = None -> alookup N.eqb c (st_cid st) = None -> Core (with_cid st c id).
Proof.
  intros C P H. destruct (fresh_conn st c C H) as [NS NT].
  assert (Same : forall x, sess_of st x <> None -> cid_of (with_cid st c id) x = cid_of st x).
  { intros x Hx. rewrite cid_of_with. destruct (x =? c) eqn:E; [|reflexivity]. apply N.eqb_eq in E; subst x. congruence. }
  constructor; try exact (i_wf _ C); try exact (i_act_nd _ C);
    try exact (i_s2 _ C); try exact (i_st _ C); try exact (i_t1 _ C); try exact (i_closed _ C).
  - intros x k Hs. change (sess_of st x = Some k) in Hs. rewrite (Same x) by congruence. exact (i_s1 _ C x k Hs).
  - intros i x Ha. change (alookup bytes_eqb i (st_active st) = Some x) in Ha.
    destruct (i_ac1 _ C i x Ha) as (H1 & H2 & H3). rewrite (Same x H3). auto.
  - intros x k Hs Hn. change (sess_of st x = Some k) in Hs. rewrite (Same x) in * by congruence. exact (i_ac2 _ C x k Hs Hn).
  - intros i x Hst Hs. change (sess_of st x = Some (KTemp x)) in Hs. rewrite (Same x) by congruence. exact (i_x _ C i x Hst Hs).
  - intros x Hx. change (sess_of st x <> None \/ mem_n x (st_term st) = true) in Hx.
    unfold with_cid; cbn [st_cid]. rewrite (alookup_aset N.eqb N.eqb_eq). destruct (x =? c); [discriminate|exact (i_cid _ C x Hx)].
Qed.

(* a connection without client id gets a fresh temporary session *)
Lemma inv_setup_empty st c :
  Inv st -> st_pending st = None -> alookup N.eqb c (st_cid st) = None ->
  let st1 := with_cid st c [] in
  Inv (St (st_cap st1) (st_stored st1) (aset N.eqb c (new_session c) (st_temps st1)) (st_active st1)
          (st_retained st1) (st_closing st1) (aset N.eqb c (KTemp c) (st_sess st1)) (st_cid st1)
          (st_dying st1) (st_closed st1) (st_term st1) None).
Proof.
  intros (C0 & _) P H st1.
  pose proof (core_with_cid st c [] C0 P H) as C. fold st1 in C.
  destruct (fresh_conn st c C0 H) as [NS NT].
  assert (NS1 : sess_of st1 c = None) by exact NS.
  assert (CID : cid_of st1 c = []) by (unfold st1; rewrite cid_of_with, N.eqb_refl; reflexivity).
  set (st' := St _ _ _ _ _ _ _ _ _ _ _ _).
  assert (Sess' : forall x, sess_of st' x = if x =? c then Some (KTemp c) else sess_of st1 x).
  { intros x. unfold sess_of, st'. cbn [st_sess]. apply (alookup_aset N.eqb N.eqb_eq). }
  assert (Get' : forall k, get_session st' k = if skey_eqb k (KTemp c) then Some (new_session c) else get_session st1 k).
  { intros [x|i]; cbn [get_session skey_eqb]; unfold st'; cbn [st_temps st_stored]; [|reflexivity].
    apply (alookup_aset N.eqb N.eqb_eq). }
  assert (Ecid_of : forall x, cid_of st' x = cid_of st1 x) by reflexivity.
  assert (Tnone : alookup N.eqb c (st_temps st1) = None).
  { destruct (alookup N.eqb c (st_temps st1)) as [s|] eqn:T; [|reflexivity].
    pose proof (i_t1 _ C c s T) as A. pose proof (i_s2 _ C (KTemp c) s c T A) as S. congruence. }
  split.
  - constructor.
    + destruct (i_wf _ C) as (Wt & Ws & Wr). unfold wf, st'; cbn [st_temps st_stored st_retained]. repeat split; auto.
      apply (nodup_aset N.eqb N.eqb_eq); exact Wt.
    + exact (i_act_nd _ C).
    + intros x k Hs. rewrite Sess' in Hs. rewrite Ecid_of. change (st_term st') with (st_term st1).
      destruct (x =? c) eqn:E.
      * apply N.eqb_eq in E; subst x. injection Hs as <-. split; [exact NT|]. split; [left; reflexivity|].
        exists (new_session c). rewrite Get', skey_eqb_refl. split; reflexivity.
      * apply N.eqb_neq in E. destruct (i_s1 _ C x k Hs) as (H1 & H2 & s & G & A). split; [exact H1|]. split; [exact H2|].
        exists s. split; [|exact A]. rewrite Get'. destruct (skey_eqb k (KTemp c)) eqn:EK; [|exact G].
        apply skey_eqb_eq in EK; subst k. cbn [get_session] in G. congruence.
    + intros k s x G A. rewrite Get' in G. rewrite Sess'. destruct (skey_eqb k (KTemp c)) eqn:EK.
      * apply skey_eqb_eq in EK; subst k. injection G as <-. cbn in A. injection A as <-. rewrite N.eqb_refl; reflexivity.
      * pose proof (i_s2 _ C k s x G A) as S. destruct (x =? c) eqn:E; [|exact S]. apply N.eqb_eq in E; subst x. congruence.
    + intros i x Ha. change (alookup bytes_eqb i (st_active st1) = Some x) in Ha. rewrite Ecid_of, Sess'.
      destruct (i_ac1 _ C i x Ha) as (H1 & H2 & H3). split; [exact H1|]. split; [exact H2|]. destruct (x =? c); [discriminate|exact H3].
    + intros x k Hs Hn. rewrite Sess' in Hs. rewrite Ecid_of in *. change (st_active st') with (st_active st1).
      destruct (x =? c) eqn:E; [apply N.eqb_eq in E; subst x; congruence|exact (i_ac2 _ C x k Hs Hn)].
    + intros i x Hst Hs. change (alookup bytes_eqb i (st_stored st1) <> None) in Hst. rewrite Sess' in Hs. rewrite Ecid_of.
      destruct (x =? c) eqn:E.
      * apply N.eqb_eq in E; subst x. rewrite CID. intros <-. exact (i_st _ C [] Hst eq_refl).
      * exact (i_x _ C i x Hst Hs).
    + exact (i_st _ C).
    + intros x s L. change (get_session st' (KTemp x) = Some s) in L. rewrite Get' in L. cbn [skey_eqb] in L.
      destruct (x =? c) eqn:E; [apply N.eqb_eq in E; subst x; injection L as <-; reflexivity|exact (i_t1 _ C x s L)].
    + intros x Hx. rewrite Sess' in Hx. change (st_term st') with (st_term st1) in Hx. change (st_cid st') with (st_cid st1).
      destruct (x =? c) eqn:E.
      * apply N.eqb_eq in E; subst x. unfold st1, with_cid; cbn [st_cid]. rewrite (alookup_aset N.eqb N.eqb_eq), N.eqb_refl. discriminate.
      * exact (i_cid _ C x Hx).
    + exact (i_closed _ C).
  - intros p Hp. discriminate.
Qed.

Lemma cid_shape st c k : Core st -> sess_of st c = Some k -> k = KStored (cid_of st c) \/ k = KTemp c.
Proof. intros C H. destruct (i_s1 _ C c k H) as (_ & [X|[X _]] & _); auto. Qed.

(* the session Setup looks up for a client id (stored first, then the temporary one of the active connection) *)
Lemma existing_owner st id s c1 :
  Core st -> id <> [] -> existing_session st id = Some s -> s_act s = Some c1 ->
  forall c' k, sess_of st c' = Some k -> cid_of st c' = id -> c' = c1.
Proof.
  intros C Hid E A c' k Hs Hc.
  assert (A' : alookup bytes_eqb id (st_active st) = Some c').
  { rewrite <- Hc. apply (i_ac2 _ C c' k Hs). rewrite Hc; exact Hid. }
  unfold existing_session in E. destruct (alookup bytes_eqb id (st_stored st)) as [s0|] eqn:L.
  - injection E as ->. pose proof (i_s2 _ C (KStored id) s c1 L A) as S1.
    destruct (i_s1 _ C c1 _ S1) as (_ & [X|[X Xn]] & _); [discriminate|]. injection X as X.
    pose proof (i_ac2 _ C c1 _ S1 Xn) as A1. rewrite <- X in A1. congruence.
  - rewrite A' in E. pose proof (i_t1 _ C c' s E) as T. congruence.
Qed.

Lemma existing_free st id :
  Core st -> id <> [] ->
  (existing_session st id = None \/ exists s, existing_session st id = Some s /\ s_act s = None) ->
  forall c' k, sess_of st c' = Some k -> cid_of st c' <> id.
Proof.
  intros C Hid E c' k Hs Hc.
  assert (A' : alookup bytes_eqb id (st_active st) = Some c').
  { rewrite <- Hc. apply (i_ac2 _ C c' k Hs). rewrite Hc; exact Hid. }
  destruct (i_s1 _ C c' k Hs) as (_ & Sh & s' & G & A).
  unfold existing_session in E. destruct (alookup bytes_eqb id (st_stored st)) as [s0|] eqn:L.
  - destruct Sh as [->|[-> _]].
    + apply (i_x _ C id c'); [congruence|exact Hs|exact Hc].
    + rewrite Hc in G. cbn [get_session] in G. rewrite L in G. injection G as <-.
      destruct E as [E|[s [E An]]]; [discriminate|]. injection E as <-. congruence.
  - rewrite A' in E. destruct Sh as [->|[-> _]].
    + cbn [get_session] in G. rewrite G in E. destruct E as [E|[s [E An]]]; [discriminate|]. injection E as <-. congruence.
    + rewrite Hc in G. cbn [get_session] in G. congruence.
Qed.

Lemma inv_setup st c id clean : Inv st -> Inv (snd (setup st c id clean)).
Proof.
  intros I. pose proof I as (C0 & Pe). unfold setup.
  destruct (st_pending st) eqn:P; [exact I|].
  destruct (alookup N.eqb c (st_cid st)) eqn:H; [exact I|].
  cbn [st_closing].
  pose proof (core_with_cid st c id C0 P H) as C.
  destruct (fresh_conn st c C0 H) as [NS NT].
  destruct (st_closing st) eqn:CL.
  { (* the backend is closing: the connection is refused, only its client id has been recorded *)
    cbn [snd].
    assert (E : St (st_cap st) (st_stored st) (st_temps st) (st_active st) (st_retained st) true
               (st_sess st) (aset N.eqb c id (st_cid st)) (st_dying st) (st_closed st) (st_term st) None = with_cid st c id)
      by (unfold with_cid; rewrite CL; reflexivity).
    rewrite E. split; [exact C|]. intros p Hp; discriminate. }
  assert (Est1 : St (st_cap st) (st_stored st) (st_temps st) (st_active st) (st_retained st) false
             (st_sess st) (aset N.eqb c id (st_cid st)) (st_dying st) (st_closed st) (st_term st) None = with_cid st c id).
  { unfold with_cid. rewrite CL. reflexivity. }
  rewrite Est1.
  destruct (is_nil id) eqn:Hid.
  - destruct id; [|discriminate]. cbn [snd]. pose proof (inv_setup_empty st c I P H) as X. cbv zeta in X.
    unfold with_cid in X |- *.
    cbn [st_cap st_stored st_temps st_active st_retained st_closing st_sess st_cid st_dying st_closed st_term] in X |- *.
    rewrite CL in X. exact X.
  - apply is_nil_false in Hid.
    assert (CIDc : alookup N.eqb c (st_cid (with_cid st c id)) = Some id).
    { unfold with_cid; cbn [st_cid]. rewrite (alookup_aset N.eqb N.eqb_eq), N.eqb_refl. reflexivity. }
    destruct (existing_session (with_cid st c id) id) as [s|] eqn:E.
    + destruct s as [su tq sq [c1|]] eqn:Es.
      * (* takeover: wait for c1 *)
        cbn [snd]. unfold set_pending.
        split.
        -- constructor; try exact (i_wf _ C); try exact (i_act_nd _ C);
             try exact (i_s1 _ C); try exact (i_s2 _ C); try exact (i_ac1 _ C); try exact (i_ac2 _ C);
             try exact (i_x _ C); try exact (i_st _ C); try exact (i_t1 _ C); try exact (i_cid _ C); try exact (i_closed _ C).
        -- intros p Hp. cbn [st_pending] in Hp. injection Hp as <-. cbn [p_id p_conn p_old].
           split; [exact Hid|]. split; [exact CIDc|]. split; [exact NS|]. split; [exact NT|].
           exact (existing_owner _ id _ c1 C Hid E eq_refl).
      * apply inv_setup_finish. constructor; auto.
        apply (existing_free _ id C Hid). right. exists (Sess su tq sq None). split; [exact E|reflexivity].
    + apply inv_setup_finish. constructor; auto.
      apply (existing_free _ id C Hid). left; exact E.
Qed.

(* ------------------------------------------------------------------ SetupEnd (the old connection has closed) *)
Lemma inv_setup_end st : Inv st -> Inv (snd (setup_end st false)).
Proof.
  intros I. pose proof I as (C & Pe). unfold setup_end.
  destruct (st_pending st) as [p|] eqn:P; [|exact I].
  destruct (mem_n (p_old p) (st_closed st)) eqn:Cl; [|exact I].
  destruct (Pe p P) as (P1 & P2 & P3 & P4 & P5).
  apply inv_setup_finish. constructor; auto.
  intros c' k Hs Hc. pose proof (P5 c' k Hs Hc) as ->.
  destruct (i_s1 _ C (p_old p) k Hs) as (NT & _). rewrite (i_closed _ C _ Cl) in NT. discriminate.
Qed.

(* a kill timeout only gives up the wait; backend Close only sets the flag and closes the connections *)
Lemma inv_forget st pend dy cl :
  Inv st -> (pend = st_pending st \/ pend = None) ->
  Inv (St (st_cap st) (st_stored st) (st_temps st) (st_active st) (st_retained st) cl (st_sess st) (st_cid st)
          dy (st_closed st) (st_term st) pend).
Proof.
  intros (C & Pe) Hp. split.
  - constructor; try exact (i_wf _ C); try exact (i_act_nd _ C);
      try exact (i_s1 _ C); try exact (i_s2 _ C); try exact (i_ac1 _ C); try exact (i_ac2 _ C);
      try exact (i_x _ C); try exact (i_st _ C); try exact (i_t1 _ C); try exact (i_cid _ C); try exact (i_closed _ C).
  - intros p H. cbn [st_pending] in H. destruct Hp as [-> | ->]; [exact (Pe p H)|discriminate].
Qed.

(* ------------------------------------------------------------------ MarkClosed *)
Lemma inv_mark_closed st c : Inv st -> Inv (snd (mark_closed st c)).
Proof.
  intros I. unfold mark_closed. destruct (mem_n c (st_term st)) eqn:T; [|exact I]. cbn [snd].
  apply (inv_frame st _ I). constructor; try reflexivity.
  - intros x Hx. cbn [st_closed] in Hx. rewrite mem_add_n in Hx. apply orb_true_iff in Hx as [Hx|Hx]; [|left; exact Hx].
    apply N.eqb_eq in Hx; subst x. right; exact T.
  - exact (i_wf _ (proj1 I)).
Qed.

(* ------------------------------------------------------------------ Terminate *)
Lemma aremove_absent {K V} (eqb : K -> K -> bool) (k : K) (l : list (K * V)) :
  alookup eqb k l = None -> aremove eqb k l = l.
Proof.
  induction l as [|[k0 v0] l IH]; cbn [alookup aremove]; [reflexivity|].
  destruct (eqb k k0); [discriminate|]. intros H. rewrite (IH H). reflexivity.
Qed.

Lemma inv_terminate st c : Inv st -> Inv (snd (terminate st c)).
Proof.
  intros I. pose proof I as (C & Pe).
  pose proof (wf_step st (OTerminate c) (i_wf _ C)) as W'. cbn [step] in W'. revert W'. unfold terminate.
  destruct (alookup N.eqb c (st_cid st)) as [id|] eqn:CID; [|intros _; exact I].
  destruct (mem_n c (st_term st)) eqn:T; [intros _; exact I|]. cbn [orb].
  destruct (match st_pending st with Some p => p_conn p =? c | None => false end) eqn:PC; [intros _; exact I|].
  assert (CIDc : cid_of st c = id) by (unfold cid_of; rewrite CID; reflexivity).
  fold (sess_of st c).
  destruct (sess_of st c) as [k|] eqn:HS.
  2:{ (* the Setup of c failed: it holds no session and is not registered; only its own bookkeeping changes *)
    assert (NA : option_eqb N.eqb (alookup bytes_eqb id (st_active st)) (Some c) = false).
    { destruct (alookup bytes_eqb id (st_active st)) as [x|] eqn:A; [|reflexivity]. cbn.
      destruct (x =? c) eqn:E; [|reflexivity]. apply N.eqb_eq in E; subst x.
      destruct (i_ac1 _ C id c A) as (_ & _ & H3). congruence. }
    rewrite NA. cbn [snd]. intros W'.
    assert (Tnone : alookup N.eqb c (st_temps st) = None).
    { destruct (alookup N.eqb c (st_temps st)) as [s0|] eqn:L; [|reflexivity].
      pose proof (i_t1 _ C c s0 L) as A0. pose proof (i_s2 _ C (KTemp c) s0 c L A0) as S0. congruence. }
    set (st' := St _ _ _ _ _ _ _ _ _ _ _ _) in *.
    assert (Sess' : forall x, sess_of st' x = sess_of st x).
    { intros x. unfold sess_of, st'. cbn [st_sess]. rewrite (alookup_aremove N.eqb N.eqb_eq).
      destruct (x =? c) eqn:E; [apply N.eqb_eq in E; subst x; symmetry; exact HS|reflexivity]. }
    assert (Term' : forall x, mem_n x (st_term st') = (x =? c) || mem_n x (st_term st)).
    { intros x. unfold st'. cbn [st_term]. apply mem_add_n. }
    assert (Get' : forall k', get_session st' k' = get_session st k').
    { intros [x|i]; cbn [get_session]; unfold st'; cbn [st_temps st_stored]; [|reflexivity].
      rewrite (alookup_aremove N.eqb N.eqb_eq). destruct (x =? c) eqn:E; [apply N.eqb_eq in E; subst x; symmetry; exact Tnone|reflexivity]. }
    assert (Live : forall x, sess_of st x <> None -> (x =? c) = false).
    { intros x Hx. destruct (x =? c) eqn:E; [|reflexivity]. apply N.eqb_eq in E; subst x. congruence. }
    split.
    - constructor.
      + exact W'.
      + exact (i_act_nd _ C).
      + intros x k' Hx. rewrite Sess' in Hx. destruct (i_s1 _ C x k' Hx) as (H1 & H2 & s1 & G1 & A1).
        rewrite Term', (Live x) by congruence. cbn [orb]. split; [exact H1|]. split; [exact H2|].
        exists s1. rewrite Get'. auto.
      + intros k' s' x G' A'. rewrite Get' in G'. rewrite Sess'. exact (i_s2 _ C k' s' x G' A').
      + intros i x Ha. rewrite Sess'. exact (i_ac1 _ C i x Ha).
      + intros x k' Hx Hn. rewrite Sess' in Hx. exact (i_ac2 _ C x k' Hx Hn).
      + intros i x Hst Hx. rewrite Sess' in Hx. exact (i_x _ C i x Hst Hx).
      + exact (i_st _ C).
      + intros x s' L. change (get_session st' (KTemp x) = Some s') in L. rewrite Get' in L. exact (i_t1 _ C x s' L).
      + intros x Hx. rewrite Sess', Term' in Hx. change (st_cid st') with (st_cid st).
        destruct (x =? c) eqn:E; [apply N.eqb_eq in E; subst x; congruence|]. cbn [orb] in Hx. exact (i_cid _ C x Hx).
      + intros x Hx. change (st_closed st') with (st_closed st) in Hx. rewrite Term', (i_closed _ C x Hx). apply orb_true_r.
    - intros p Hp. change (st_pending st') with (st_pending st) in Hp. destruct (Pe p Hp) as (P1 & P2 & P3 & P4 & P5).
      rewrite Hp in PC. split; [exact P1|]. split; [exact P2|]. rewrite Sess', Term', PC. cbn [orb].
      split; [exact P3|]. split; [exact P4|].
      intros x k' Hx Hc. rewrite Sess' in Hx. exact (P5 x k' Hx Hc). }
  (* c holds session k, which still names it, and it is the registered connection of its id (if it has one):
     Terminate releases exactly that *)
  destruct (i_s1 _ C c k HS) as (_ & Sh & s & G & A).
  assert (Eact : (if option_eqb N.eqb (alookup bytes_eqb id (st_active st)) (Some c)
                  then aremove bytes_eqb id (st_active st) else st_active st) = aremove bytes_eqb id (st_active st)).
  { destruct id as [|b0 id'].
    - assert (X : alookup bytes_eqb [] (st_active st) = None).
      { destruct (alookup bytes_eqb [] (st_active st)) as [x|] eqn:E; [|reflexivity].
        destruct (i_ac1 _ C [] x E) as (H1 & _). exfalso; apply H1; reflexivity. }
      rewrite X. cbn [option_eqb]. symmetry. apply aremove_absent. exact X.
    - assert (Hn : cid_of st c <> []) by (rewrite CIDc; discriminate).
      pose proof (i_ac2 _ C c k HS Hn) as X. rewrite CIDc in X. rewrite X. cbn [option_eqb]. rewrite N.eqb_refl. reflexivity. }
  assert (Estored : match k with
                    | KStored i => match alookup bytes_eqb i (st_stored st) with
                                   | Some s0 => if option_eqb N.eqb (s_act s0) (Some c)
                                                then aset bytes_eqb i (Sess (s_subs s0) (s_tq s0) (s_sq s0) None) (st_stored st)
                                                else st_stored st
                                   | None => st_stored st end
                    | KTemp _ => st_stored st end =
                    match k with
                    | KStored i => match alookup bytes_eqb i (st_stored st) with
                                   | Some s0 => aset bytes_eqb i (Sess (s_subs s0) (s_tq s0) (s_sq s0) None) (st_stored st)
                                   | None => st_stored st end
                    | KTemp _ => st_stored st end).
  { destruct k as [x|i]; [reflexivity|]. cbn [get_session] in G. rewrite G, A. cbn [option_eqb]. rewrite N.eqb_refl. reflexivity. }
  rewrite Eact, Estored. cbn [snd]. intros W'.
  set (stored' := match k with
                  | KStored i => match alookup bytes_eqb i (st_stored st) with
                                 | Some s0 => aset bytes_eqb i (Sess (s_subs s0) (s_tq s0) (s_sq s0) None) (st_stored st)
                                 | None => st_stored st end
                  | KTemp _ => st_stored st end) in *.
  set (st' := St _ _ _ _ _ _ _ _ _ _ _ _) in *.
  assert (Sess' : forall x, sess_of st' x = if x =? c then None else sess_of st x).
  { intros x. unfold sess_of, st'. cbn [st_sess]. apply (alookup_aremove N.eqb N.eqb_eq). }
  assert (Term' : forall x, mem_n x (st_term st') = (x =? c) || mem_n x (st_term st)).
  { intros x. unfold st'. cbn [st_term]. apply mem_add_n. }
  assert (Act' : forall i, alookup bytes_eqb i (st_active st') = if bytes_eqb i id then None else alookup bytes_eqb i (st_active st)).
  { intros i. unfold st'. cbn [st_active]. apply (alookup_aremove bytes_eqb bytes_eqb_eq). }
  assert (Ecid_of : forall x, cid_of st' x = cid_of st x) by reflexivity.
  (* sessions other than k are untouched; k loses its active connection (stored) or disappears (temporary) *)
  assert (Get' : forall k', k' <> k -> get_session st' k' = get_session st k').
  { intros k' Hne. destruct k' as [x|i]; cbn [get_session]; unfold st'; cbn [st_temps st_stored].
    - rewrite (alookup_aremove N.eqb N.eqb_eq). destruct (x =? c) eqn:E; [|reflexivity].
      apply N.eqb_eq in E; subst x. destruct (alookup N.eqb c (st_temps st)) as [s0|] eqn:L; [|reflexivity].
      pose proof (i_t1 _ C c s0 L) as A0. pose proof (i_s2 _ C (KTemp c) s0 c L A0) as S0. congruence.
    - unfold stored'. destruct k as [x|i0]; [reflexivity|].
      destruct (alookup bytes_eqb i0 (st_stored st)); [|reflexivity].
      rewrite (alookup_aset bytes_eqb bytes_eqb_eq). destruct (bytes_eqb i i0) eqn:E; [|reflexivity].
      apply bytes_eqb_eq in E; subst i0. exfalso; apply Hne; reflexivity. }
  assert (Getk : forall s', get_session st' k = Some s' -> s_act s' = None).
  { intros s' G'. destruct k as [x|i]; cbn [get_session] in G'; unfold st' in G'; cbn [st_temps st_stored] in G'.
    - destruct Sh as [X|[X _]]; [injection X as ->|discriminate].
      rewrite (alookup_aremove N.eqb N.eqb_eq), N.eqb_refl in G'. discriminate.
    - unfold stored' in G'. cbn [get_session] in G. rewrite G in G'.
      rewrite (alookup_aset bytes_eqb bytes_eqb_eq), bytes_eqb_refl in G'. injection G' as <-. reflexivity. }
  assert (Stored' : forall i, alookup bytes_eqb i (st_stored st') <> None <-> alookup bytes_eqb i (st_stored st) <> None).
  { intros i. unfold st'; cbn [st_stored]. unfold stored'. destruct k as [x|i0]; [tauto|].
    destruct (alookup bytes_eqb i0 (st_stored st)) as [s0|] eqn:L; [|tauto].
    rewrite (alookup_aset bytes_eqb bytes_eqb_eq). destruct (bytes_eqb i i0) eqn:E; [|tauto].
    apply bytes_eqb_eq in E; subst i0. rewrite L. split; discriminate. }
  (* another connection never shares k *)
  assert (Other : forall x k', x <> c -> sess_of st x = Some k' -> k' <> k).
  { intros x k' Hne Hx ->. destruct (i_s1 _ C x k Hx) as (_ & _ & s1 & G1 & A1). congruence. }
  split.
  - constructor.
    + exact W'.
    + unfold st'; cbn [st_active]. apply (nodup_aremove bytes_eqb bytes_eqb_eq). exact (i_act_nd _ C).
    + intros x k' Hx. rewrite Sess' in Hx. destruct (x =? c) eqn:E; [discriminate|]. apply N.eqb_neq in E.
      destruct (i_s1 _ C x k' Hx) as (H1 & H2 & s1 & G1 & A1).
      rewrite Term', (n_neq_eqb _ _ E), Ecid_of. cbn [orb]. split; [exact H1|]. split; [exact H2|].
      exists s1. split; [|exact A1]. rewrite (Get' k' (Other x k' E Hx)). exact G1.
    + intros k' s' x G' A'. rewrite Sess'.
      destruct (skey_eqb k' k) eqn:EK.
      * apply skey_eqb_eq in EK; subst k'. rewrite (Getk s' G') in A'. discriminate.
      * assert (NK : k' <> k) by (intros X; rewrite X, skey_eqb_refl in EK; discriminate).
        rewrite (Get' k' NK) in G'. pose proof (i_s2 _ C k' s' x G' A') as Sx.
        destruct (x =? c) eqn:E; [|exact Sx]. apply N.eqb_eq in E; subst x. congruence.
    + intros i x Ha. rewrite Act' in Ha. destruct (bytes_eqb i id) eqn:E; [discriminate|]. apply bytes_eqb_neq in E.
      destruct (i_ac1 _ C i x Ha) as (H1 & H2 & H3). rewrite Ecid_of, Sess'. split; [exact H1|]. split; [exact H2|].
      destruct (x =? c) eqn:E2; [|exact H3]. apply N.eqb_eq in E2; subst x. congruence.
    + intros x k' Hx Hn. rewrite Sess' in Hx. destruct (x =? c) eqn:E; [discriminate|]. apply N.eqb_neq in E.
      rewrite Ecid_of in *. rewrite Act'. pose proof (i_ac2 _ C x k' Hx Hn) as A2.
      destruct (bytes_eqb (cid_of st x) id) eqn:E2; [|exact A2].
      apply bytes_eqb_eq in E2. exfalso.
      assert (Hnc : cid_of st c <> []) by (rewrite CIDc, <- E2; exact Hn).
      pose proof (i_ac2 _ C c k HS Hnc) as A3. rewrite CIDc, <- E2 in A3. congruence.
    + intros i x Hst Hx. rewrite Sess' in Hx. destruct (x =? c) eqn:E; [discriminate|].
      rewrite Ecid_of. apply (i_x _ C i x); [apply Stored'; exact Hst|exact Hx].
    + intros i Hst. apply (i_st _ C i). apply Stored'; exact Hst.
    + intros x s' L. change (get_session st' (KTemp x) = Some s') in L.
      destruct (skey_eqb (KTemp x) k) eqn:EK.
      * apply skey_eqb_eq in EK. rewrite EK in L. pose proof (Getk s' L) as An.
        (* a temporary session k = KTemp x of c is removed, so L is impossible *)
        exfalso. rewrite <- EK in L. cbn [get_session] in L. unfold st' in L; cbn [st_temps] in L.
        destruct Sh as [X|[X _]]; [|congruence]. rewrite X in EK. injection EK as ->.
        rewrite (alookup_aremove N.eqb N.eqb_eq), N.eqb_refl in L. discriminate.
      * assert (NK : KTemp x <> k) by (intros X; rewrite X, skey_eqb_refl in EK; discriminate).
        rewrite (Get' _ NK) in L. exact (i_t1 _ C x s' L).
    + intros x Hx. rewrite Sess', Term' in Hx. change (st_cid st') with (st_cid st).
      destruct (x =? c) eqn:E; [apply N.eqb_eq in E; subst x; congruence|]. cbn [orb] in Hx. exact (i_cid _ C x Hx).
    + intros x Hx. change (st_closed st') with (st_closed st) in Hx. rewrite Term', (i_closed _ C x Hx). apply orb_true_r.
  - intros p Hp. change (st_pending st') with (st_pending st) in Hp. destruct (Pe p Hp) as (P1 & P2 & P3 & P4 & P5).
    rewrite Hp in PC. split; [exact P1|]. split; [exact P2|]. rewrite Sess', Term', PC. cbn [orb].
    split; [exact P3|]. split; [exact P4|].
    intros x k' Hx Hc. rewrite Sess' in Hx. destruct (x =? c); [discriminate|]. exact (P5 x k' Hx Hc).
Qed.

(* ------------------------------------------------------------------ every step, every history *)
Lemma inv_step st o : Inv st -> Inv (snd (step st o)).
Proof.
  intros I. pose proof (i_wf _ (proj1 I)) as W.
  destruct o as [c id clean|t|c|c subs b|c fs|c m got|c t|c|]; cbn [step].
  - apply inv_setup; exact I.
  - destruct t; [|apply inv_setup_end; exact I].
    (* kill timeout: the wait is given up, nothing else changes *)
    unfold setup_end. destruct (st_pending st) as [p|]; [|exact I]. cbn [snd]. unfold set_pending.
    apply inv_forget; [exact I|right; reflexivity].
  - apply inv_mark_closed; exact I.
  - unfold subscribe. destruct (session_of st c) as [[k s]|] eqn:S; [|exact I].
    destruct (negb _); [exact I|]. cbn [snd].
    apply (inv_frame st _ I). apply (frame_put st k s _ W (session_of_get _ _ _ _ S)). reflexivity.
  - unfold unsubscribe. destruct (session_of st c) as [[k s]|] eqn:S; [|exact I]. cbn [snd].
    apply (inv_frame st _ I). apply (frame_put st k s _ W (session_of_get _ _ _ _ S)). reflexivity.
  - apply (inv_frame st _ I). apply frame_publish; exact W.
  - unfold dequeue. destruct (session_of st c) as [[k s]|] eqn:S; [|exact I].
    destruct t; [destruct (s_tq s)|destruct (s_sq s)]; try exact I; cbn [snd];
      apply (inv_frame st _ I); apply (frame_put st k s _ W (session_of_get _ _ _ _ S)); reflexivity.
  - apply inv_terminate; exact I.
  - (* backend Close: the flag is set and the active connections are closed *)
    unfold close_backend. cbn [snd]. apply inv_forget; [exact I|left; reflexivity].
Qed.

Lemma inv_run ops : forall st, Inv st -> Inv (run_state st ops).
Proof.
  unfold run_state. induction ops as [|o ops IH]; intros st I; cbn [run snd]; [exact I|].
  pose proof (inv_step st o I) as I1. destruct (step st o) as [r st1]; cbn [snd] in I1.
  specialize (IH st1 I1). destruct (run st1 ops) as [rs st2]; cbn [snd] in *. exact IH.
Qed.

Lemma skey_opt_eqb_refl k : option_eqb skey_eqb (Some k) (Some k) = true.
Proof. cbn. apply skey_eqb_refl. Qed.

Lemma inv_unique st : Inv st -> unique_ok st = true.
Proof.
  intros (C & _). unfold unique_ok. rewrite !andb_true_iff. split; [split|].
  - apply nodup_keys_iff. exact (i_act_nd _ C).
  - apply forallb_forall. intros [id c] Hin. cbn [fst snd].
    pose proof (In_alookup bytes_eqb bytes_eqb_eq id c _ (i_act_nd _ C) Hin) as A.
    destruct (i_ac1 _ C id c A) as (H1 & H2 & H3). apply neq_none_some in H3 as [k H3].
    destruct (i_s1 _ C c k H3) as (_ & _ & s & G & As).
    unfold sess_of in H3. rewrite H3, G, As, H2. rewrite act_eqb_refl, bytes_eqb_refl. reflexivity.
  - apply forallb_forall. intros [k s] Hin. cbn [fst snd].
    pose proof (sessions_get st k s (i_wf _ C) Hin) as G.
    destruct (s_act s) as [c|] eqn:A; [|reflexivity].
    pose proof (i_s2 _ C k s c G A) as S. destruct (i_s1 _ C c k S) as (NT & _ & _).
    unfold sess_of in S. rewrite NT, S, skey_opt_eqb_refl. cbn [negb andb].
    destruct (is_nil (cid_of st c)) eqn:E; [reflexivity|]. cbn [orb].
    apply is_nil_false in E. rewrite (i_ac2 _ C c k S E). apply act_eqb_refl.
Qed.

(* C13, state part: after EVERY history (kill timeouts, failed Setups and backend Close included), client id ->
   active connection is a partial function, every entry names the connection that holds the session of that id, and
   a session's active connection is a live one that holds exactly that session and is the registered connection of
   its client id. *)
Theorem unique_state cap ops : unique_ok (run_state (init cap) ops) = true.
Proof. apply inv_unique, inv_run, inv_init. Qed.
