(* ConnProofsA_resp2.v — C20_responses (also C07's "acks only for invoked
   closures"): the relation between the model state and the scanner rs_step, in
   two independent parts: the closure/ack-queue bookkeeping (clo_R) and the
   processor's last received packet (last_R). *)
From Coq Require Import List NArith Bool Lia.
From GM Require Import Base.Lts Codec.Packet Session.Ids Session.Store
  Broker.Conn Broker.ConnSpec Broker.ConnBase Broker.ConnProofsA_lib Broker.ConnProofsA_inv
  Broker.ConnProofsA_sc Broker.ConnProofsA_resp1.
Import ListNotations.
Open Scope N_scope.

(* ========================================================= closure bookkeeping *)

Definition is_mid (st : cstat) : bool :=
  match st with CDel _ | CDieLog _ | CDieClose _ => true | _ => false end.
Definition is_reg (st : cstat) : bool := match st with CReg => true | _ => false end.

(* closures of connection cn that were invoked but have not queued their packet *)
Definition midf (cn : N) (p : packet) (c : closure) : bool :=
  (c_conn c =? cn) && is_mid (c_stat c) && packet_eqb p (ack_packet (c_kind c)).
(* invoked closures of connection cn standing for p whose packet the scanner still expects *)
Definition invf (rclo : list (N * (N * packet))) (cn : N) (p : packet) (k : N) : bool :=
  match aget rclo k with Some (c, q) => (c =? cn) && packet_eqb p q | None => false end.

Definition tab_R (cl : list closure) (rclo : list (N * (N * packet))) (rdone : list N) : Prop :=
  forall k, match clo_find cl k with
            | None => aget rclo k = None
            | Some c => aget rclo k = Some (c_conn c, ack_packet (c_kind c)) /\
                        nmem k rdone = negb (is_reg (c_stat c))
            end.

Definition clo_R (cn : N) (cl : list closure) (q : list packet) (dy : bool) (l : lpc)
                 (rclo : list (N * (N * packet))) (rinv rdone : list N) : Prop :=
  tab_R cl rclo rdone /\
  (forall k, In k rinv -> aget rclo k <> None) /\
  (forall k, nmem k rdone = true -> aget rclo k <> None) /\
  (forall p, (flen (packet_eqb p) q + flen (midf cn p) cl <= flen (invf rclo cn p) rinv)%nat) /\
  (dy = false -> l <> LEnd ->
   forall p, (flen (invf rclo cn p) rinv <= flen (packet_eqb p) q + flen (midf cn p) cl)%nat).

Lemma nmem_in k l : nmem k l = true <-> In k l.
Proof.
  unfold nmem. rewrite existsb_exists. split.
  - intros (x & Hx & E). apply N.eqb_eq in E. subst. exact Hx.
  - intros H. exists k. split; [exact H|apply N.eqb_refl].
Qed.

Lemma nmem_cons k x l : nmem k (x :: l) = (k =? x) || nmem k l.
Proof. reflexivity. Qed.

(* no closure of connection cn is known to the scanner: nothing is expected *)
Lemma invf_none_of_conn cl rclo rdone cn rinv p :
  tab_R cl rclo rdone -> (forall k, In k rinv -> aget rclo k <> None) ->
  (forall n, In n (map c_conn cl) -> n <> cn) ->
  flen (invf rclo cn p) rinv = 0%nat.
Proof.
  intros HB HH Hno. apply flen_all_false. intros k Hk. unfold invf.
  specialize (HB k). specialize (HH k Hk).
  destruct (clo_find cl k) as [c|] eqn:E; [|rewrite HB in HH; contradiction].
  destruct HB as [HB _]. rewrite HB. apply clo_find_in in E as [E _].
  assert (Hx : c_conn c <> cn) by (apply Hno, in_map, E).
  apply N.eqb_neq in Hx. rewrite Hx. reflexivity.
Qed.

Lemma midf_none_of_conn cl cn p : (forall n, In n (map c_conn cl) -> n <> cn) -> flen (midf cn p) cl = 0%nat.
Proof.
  intros Hno. apply flen_all_false. intros c Hc. unfold midf.
  assert (Hx : c_conn c <> cn) by (apply Hno, in_map, Hc). apply N.eqb_neq in Hx. rewrite Hx. reflexivity.
Qed.

(* a new connection *)
Lemma clo_R_new cn cl q dy l rclo rinv rdone :
  clo_R cn cl q dy l rclo rinv rdone -> (forall n, In n (map c_conn cl) -> n <= cn) ->
  clo_R (cn + 1) cl [] false LNone rclo rinv rdone.
Proof.
  intros (HB & HH & HI & HL & HU) Hle.
  assert (Hno : forall n, In n (map c_conn cl) -> n <> cn + 1) by (intros n Hn; specialize (Hle n Hn); lia).
  split; [exact HB|]. split; [exact HH|]. split; [exact HI|].
  split; intros; rewrite (invf_none_of_conn _ _ _ _ _ _ HB HH Hno), (midf_none_of_conn _ _ _ Hno); cbn; lia.
Qed.

(* the ack queue is emptied while the connection has no closures (Setup) *)
Lemma clo_R_reset cn cl q dy l rclo rinv rdone :
  clo_R cn cl q dy l rclo rinv rdone -> (forall n, In n (map c_conn cl) -> n <> cn) ->
  clo_R cn cl [] dy l rclo rinv rdone.
Proof.
  intros (HB & HH & HI & HL & HU) Hno.
  split; [exact HB|]. split; [exact HH|]. split; [exact HI|].
  split; intros; rewrite (invf_none_of_conn _ _ _ _ _ _ HB HH Hno), (midf_none_of_conn _ _ _ Hno); cbn; lia.
Qed.

(* dying and lp only matter for the upper bound *)
Lemma clo_R_weaken cn cl q dy l dy' l' rclo rinv rdone :
  clo_R cn cl q dy l rclo rinv rdone -> (dy' = false -> dy = false) -> (l' <> LEnd -> l <> LEnd) ->
  clo_R cn cl q dy' l' rclo rinv rdone.
Proof.
  intros (HB & HH & HI & HL & HU) H1 H2. repeat split; try assumption. intros Hd Hl. apply HU; auto.
Qed.

(* registering a fresh closure *)
Lemma clo_R_reg cn cl q dy l rclo rinv rdone k a :
  clo_R cn cl q dy l rclo rinv rdone -> clo_find cl k = None ->
  clo_R cn (cl ++ [Clo k cn a CReg]) q dy l ((k, (cn, ack_packet a)) :: rclo) rinv rdone.
Proof.
  intros (HB & HH & HI & HL & HU) Hk.
  assert (Hnone : aget rclo k = None) by (specialize (HB k); rewrite Hk in HB; exact HB).
  assert (Hinv : forall p, flen (invf ((k, (cn, ack_packet a)) :: rclo) cn p) rinv = flen (invf rclo cn p) rinv).
  { intros p. apply flen_ext. intros x Hx. unfold invf. rewrite aget_cons_ne; [reflexivity|].
    intros ->. apply (HH k Hx). exact Hnone. }
  assert (Hmid : forall p, flen (midf cn p) (cl ++ [Clo k cn a CReg]) = flen (midf cn p) cl).
  { intros p. rewrite flen_app, flen_cons, flen_nil. unfold midf at 2. cbn [c_stat is_mid].
    rewrite andb_false_r. cbn. lia. }
  split.
  { intros k'. rewrite clo_find_app. specialize (HB k'). destruct (clo_find cl k') as [c|] eqn:E.
    - assert (Hne : k' <> k) by (intros ->; rewrite Hk in E; discriminate E).
      rewrite aget_cons_ne; [exact HB|exact Hne].
    - cbn [c_k]. destruct (k =? k') eqn:Ek.
      + apply N.eqb_eq in Ek. subst k'. rewrite aget_cons_eq. cbn [c_conn c_kind c_stat is_reg negb]. split; [reflexivity|].
        destruct (nmem k rdone) eqn:Ed; [|reflexivity]. exfalso. apply (HI k Ed). exact Hnone.
      + apply N.eqb_neq in Ek. rewrite aget_cons_ne; [exact HB|congruence]. }
  split.
  { intros k' Hk'. destruct (N.eq_dec k' k) as [->|Hne]; [rewrite aget_cons_eq; discriminate|].
    rewrite aget_cons_ne; [apply HH, Hk'|exact Hne]. }
  split.
  { intros k' Hk'. destruct (N.eq_dec k' k) as [->|Hne]; [rewrite aget_cons_eq; discriminate|].
    rewrite aget_cons_ne; [apply HI, Hk'|exact Hne]. }
  split.
  - intros p. rewrite Hinv, Hmid. apply HL.
  - intros Hd Hl p. rewrite Hinv, Hmid. apply HU; assumption.
Qed.

(* ------------------------------------------------ a closure changes its status *)

Lemma tab_R_set cl rclo rdone k c st' :
  tab_R cl rclo rdone -> clo_find cl k = Some c -> is_reg st' = false ->
  tab_R (clo_set cl k st') rclo (if is_reg (c_stat c) then k :: rdone else rdone).
Proof.
  intros HB Hk Hst k'. destruct (N.eq_dec k' k) as [->|Hne].
  - rewrite (clo_find_set_eq _ _ _ _ Hk). specialize (HB k). rewrite Hk in HB. destruct HB as [HB1 HB2].
    cbn [with_stat c_conn c_kind c_stat]. split; [exact HB1|]. rewrite Hst. cbn [negb].
    destruct (is_reg (c_stat c)); [rewrite nmem_cons, N.eqb_refl; reflexivity|exact HB2].
  - rewrite (clo_find_set_ne _ _ _ _ Hne). specialize (HB k'). destruct (clo_find cl k') as [c'|]; [|exact HB].
    destruct HB as [HB1 HB2]. split; [exact HB1|]. destruct (is_reg (c_stat c)); [|exact HB2].
    rewrite nmem_cons. apply N.eqb_neq in Hne. rewrite Hne. exact HB2.
Qed.

Lemma mid_set cn p cl k c st' : clo_find cl k = Some c ->
  (flen (midf cn p) (clo_set cl k st') + b2n ((c_conn c =? cn) && is_mid (c_stat c) && packet_eqb p (ack_packet (c_kind c)))
   = flen (midf cn p) cl + b2n ((c_conn c =? cn) && is_mid st' && packet_eqb p (ack_packet (c_kind c))))%nat.
Proof. intros Hk. exact (flen_clo_set (midf cn p) _ _ _ st' Hk). Qed.

Lemma invf_of_tab cl rclo rdone cn p k c : tab_R cl rclo rdone -> clo_find cl k = Some c ->
  invf rclo cn p k = (c_conn c =? cn) && packet_eqb p (ack_packet (c_kind c)).
Proof. intros HB Hk. specialize (HB k). rewrite Hk in HB. destruct HB as [HB _]. unfold invf. rewrite HB. reflexivity. Qed.

Definition live (cn : N) (l : lpc) (c : closure) : bool :=
  (c_conn c =? cn) && negb (match l with LEnd => true | _ => false end).

Lemma live_conn cn l c : live cn l c = true -> (c_conn c =? cn) = true.
Proof. unfold live. intros H. apply andb_true_iff in H as [H _]. exact H. Qed.

Lemma live_open cn l c : l <> LEnd -> live cn l c = (c_conn c =? cn).
Proof. unfold live. intros H. destruct l; try contradiction; rewrite andb_true_r; reflexivity. Qed.

Lemma flen_snoc {A} (f : A -> bool) l x : flen f (l ++ [x]) = (flen f l + b2n (f x))%nat.
Proof. rewrite flen_app, flen_cons, flen_nil. lia. Qed.

(* EAckCall of a registered pubcomp closure: it starts running, nothing is queued yet *)
Lemma clo_R_invoke_del cn cl q dy l rclo rinv rdone k c g :
  clo_R cn cl q dy l rclo rinv rdone -> clo_find cl k = Some c -> c_stat c = CReg ->
  clo_R cn (clo_set cl k (CDel g)) q dy l rclo (k :: rinv) (k :: rdone).
Proof.
  intros (HB & HH & HI & HL & HU) Hk Hst.
  assert (Hreg : aget rclo k <> None).
  { specialize (HB k). rewrite Hk in HB. destruct HB as [HB _]. rewrite HB. discriminate. }
  pose proof (tab_R_set _ _ _ _ _ (CDel g) HB Hk eq_refl) as HB'. rewrite Hst in HB'. cbn [is_reg] in HB'.
  split; [exact HB'|]. split; [intros k' [<-|Hk']; [exact Hreg|apply HH, Hk']|].
  split; [intros k' Hk'; rewrite nmem_cons in Hk'; apply orb_true_iff in Hk' as [Hk'|Hk'];
          [apply N.eqb_eq in Hk'; subst k'; exact Hreg|apply HI, Hk']|].
  split; [intros p|intros Hd Hl p; specialize (HU Hd Hl p)]; specialize (HL p);
    pose proof (mid_set cn p _ _ _ (CDel g) Hk) as Hm; rewrite Hst in Hm; cbn [is_mid] in Hm;
    rewrite flen_cons, (invf_of_tab _ _ _ cn p _ _ HB Hk);
    rewrite andb_false_r in Hm; rewrite andb_true_r in Hm; cbn [andb b2n] in Hm; lia.
Qed.

(* EAckCall of a registered closure of another kind: it queues its packet at once if
   the ack queue of its connection can still be fed *)
Lemma clo_R_invoke_run cn cl q dy l rclo rinv rdone k c g :
  clo_R cn cl q dy l rclo rinv rdone -> clo_find cl k = Some c -> c_stat c = CReg ->
  clo_R cn (clo_set cl k (CRun g)) (if live cn l c then q ++ [ack_packet (c_kind c)] else q) dy l
        rclo (k :: rinv) (k :: rdone).
Proof.
  intros (HB & HH & HI & HL & HU) Hk Hst.
  assert (Hreg : aget rclo k <> None).
  { specialize (HB k). rewrite Hk in HB. destruct HB as [HB _]. rewrite HB. discriminate. }
  pose proof (tab_R_set _ _ _ _ _ (CRun g) HB Hk eq_refl) as HB'. rewrite Hst in HB'. cbn [is_reg] in HB'.
  split; [exact HB'|]. split; [intros k' [<-|Hk']; [exact Hreg|apply HH, Hk']|].
  split; [intros k' Hk'; rewrite nmem_cons in Hk'; apply orb_true_iff in Hk' as [Hk'|Hk'];
          [apply N.eqb_eq in Hk'; subst k'; exact Hreg|apply HI, Hk']|].
  split; [intros p|intros Hd Hl p; specialize (HU Hd Hl p); rewrite (live_open _ _ _ Hl)]; specialize (HL p);
    pose proof (mid_set cn p _ _ _ (CRun g) Hk) as Hm; rewrite Hst in Hm; cbn [is_mid] in Hm;
    rewrite flen_cons, (invf_of_tab _ _ _ cn p _ _ HB Hk);
    rewrite !andb_false_r in Hm; cbn [andb b2n] in Hm.
  - destruct (live cn l c) eqn:El; [rewrite flen_snoc, (live_conn _ _ _ El); cbn [andb]; lia|lia].
  - destruct (c_conn c =? cn); [rewrite flen_snoc; cbn [andb]; lia|cbn [andb b2n]; lia].
Qed.

(* a running pubcomp closure has deleted the stored PUBLISH and queues its packet *)
Lemma clo_R_deleted cn cl q dy l rclo rinv rdone k c g g' :
  clo_R cn cl q dy l rclo rinv rdone -> clo_find cl k = Some c -> c_stat c = CDel g ->
  clo_R cn (clo_set cl k (CRun g')) (if live cn l c then q ++ [ack_packet (c_kind c)] else q) dy l
        rclo rinv rdone.
Proof.
  intros (HB & HH & HI & HL & HU) Hk Hst.
  pose proof (tab_R_set _ _ _ _ _ (CRun g') HB Hk eq_refl) as HB'. rewrite Hst in HB'. cbn [is_reg] in HB'.
  split; [exact HB'|]. split; [exact HH|]. split; [exact HI|].
  split; [intros p|intros Hd Hl p; specialize (HU Hd Hl p); rewrite (live_open _ _ _ Hl)]; specialize (HL p);
    pose proof (mid_set cn p _ _ _ (CRun g') Hk) as Hm; rewrite Hst in Hm; cbn [is_mid] in Hm;
    rewrite !andb_false_r, !andb_true_r in Hm; cbn [andb b2n] in Hm.
  - destruct (live cn l c) eqn:El; [rewrite flen_snoc; rewrite (live_conn _ _ _ El) in Hm; cbn [andb] in Hm; lia|lia].
  - destruct (c_conn c =? cn); [rewrite flen_snoc; cbn [andb] in Hm; lia|cbn [andb b2n] in Hm; lia].
Qed.

(* status changes that neither queue nor invoke: CDel -> CDieLog -> CDieClose, CRun -> CDone *)
Lemma clo_R_same cn cl q dy l rclo rinv rdone k c st' :
  clo_R cn cl q dy l rclo rinv rdone -> clo_find cl k = Some c ->
  is_reg (c_stat c) = false -> is_reg st' = false -> is_mid st' = is_mid (c_stat c) ->
  clo_R cn (clo_set cl k st') q dy l rclo rinv rdone.
Proof.
  intros (HB & HH & HI & HL & HU) Hk Hr Hr' Hm'.
  pose proof (tab_R_set _ _ _ _ _ st' HB Hk Hr') as HB'. rewrite Hr in HB'.
  split; [exact HB'|]. split; [exact HH|]. split; [exact HI|].
  split; [intros p|intros Hd Hl p; specialize (HU Hd Hl p)]; specialize (HL p);
    pose proof (mid_set cn p _ _ _ st' Hk) as Hm; rewrite Hm' in Hm; lia.
Qed.

(* the closure whose delete failed has closed the connection and goes on: its
   packet will never be queued; if it belongs to this connection the connection is dying *)
Lemma clo_R_gaveup cn cl q dy l rclo rinv rdone k c g g' :
  clo_R cn cl q dy l rclo rinv rdone -> clo_find cl k = Some c -> c_stat c = CDieClose g ->
  clo_R cn (clo_set cl k (CRun g')) q (if c_conn c =? cn then true else dy) l rclo rinv rdone.
Proof.
  intros (HB & HH & HI & HL & HU) Hk Hst.
  pose proof (tab_R_set _ _ _ _ _ (CRun g') HB Hk eq_refl) as HB'. rewrite Hst in HB'. cbn [is_reg] in HB'.
  split; [exact HB'|]. split; [exact HH|]. split; [exact HI|].
  split; [intros p|intros Hd Hl p]; specialize (HL p);
    pose proof (mid_set cn p _ _ _ (CRun g') Hk) as Hm; rewrite Hst in Hm; cbn [is_mid] in Hm;
    rewrite !andb_false_r, !andb_true_r in Hm; cbn [andb b2n] in Hm.
  - lia.
  - destruct (c_conn c =? cn); [discriminate Hd|]. specialize (HU Hd Hl p). cbn [andb b2n] in Hm. lia.
Qed.

(* the acker takes a queued packet: the scanner finds an invoked closure for it *)
Lemma rs_pick_some t inv p k : rs_pick t inv p = Some k -> In k inv /\ invf (rs_clo t) (rs_conn t) p k = true.
Proof.
  induction inv as [|x inv IH]; cbn [rs_pick]; [discriminate|]. unfold invf.
  destruct (aget (rs_clo t) x) as [[c q]|] eqn:E.
  - destruct ((c =? rs_conn t) && packet_eqb p q) eqn:E2; intros H.
    + injection H as <-. split; [left; reflexivity|]. rewrite E. exact E2.
    + destruct (IH H) as [H1 H2]. split; [right; exact H1|exact H2].
  - intros H. destruct (IH H) as [H1 H2]. split; [right; exact H1|exact H2].
Qed.

Lemma rs_pick_ex t inv p : (0 < flen (invf (rs_clo t) (rs_conn t) p) inv)%nat -> exists k, rs_pick t inv p = Some k.
Proof.
  induction inv as [|x inv IH]; [cbn; lia|]. rewrite flen_cons. cbn [rs_pick]. unfold invf at 1.
  destruct (aget (rs_clo t) x) as [[c q]|] eqn:E.
  - destruct ((c =? rs_conn t) && packet_eqb p q) eqn:E2; [intros _; eauto|]. cbn [b2n]. intros H. apply IH. lia.
  - cbn [b2n]. intros H. apply IH. lia.
Qed.

Lemma invf_packet rclo cn p p' k : invf rclo cn p k = true -> invf rclo cn p' k = packet_eqb p' p.
Proof.
  unfold invf. destruct (aget rclo k) as [[c q]|]; [|discriminate]. intros H.
  apply andb_true_iff in H as [H1 H2]. rewrite H1. apply packet_eqb_eq in H2. subst q. reflexivity.
Qed.

Lemma clo_R_take cn cl q dy l rclo rinv rdone p q' k :
  clo_R cn cl q dy l rclo rinv rdone -> ackq_take q p = Some q' ->
  In k rinv -> invf rclo cn p k = true ->
  clo_R cn cl q' dy l rclo (nremove1 k rinv) rdone.
Proof.
  intros (HB & HH & HI & HL & HU) Hq Hk Hf.
  split; [exact HB|]. split; [intros k' Hk'; apply HH; eapply nremove1_in; exact Hk'|]. split; [exact HI|].
  split; [intros p'|intros Hd Hl p'; specialize (HU Hd Hl p')]; specialize (HL p');
    pose proof (ackq_take_flen _ _ _ p' Hq) as H1;
    pose proof (flen_nremove1 (invf rclo cn p') _ _ Hk) as H2;
    rewrite (invf_packet _ _ _ p' _ Hf) in H2; lia.
Qed.

(* =================================================== the last received packet *)

(* what the processor's control point says about the packet it received last *)
Definition pp_last_ok (p : ppc) (lastp : packet) (answered : bool) : Prop :=
  match p with
  | PSubW id subs => lastp = Subscribe id subs
  | PUnsubW id ts => lastp = Unsubscribe id ts
  | PPub1W id m => (exists d, lastp = Publish d m id) /\ (m_qos m =? 1) = true
  | PRelLookup id | PRelPub id _ | PCompTx id => lastp = Pubrel id
  | PPing => lastp = Pingreq /\ answered = false
  | PDieLog _ | PDieClose | PDone => True
  | _ => lastp = Pingreq -> answered = true
  end.

Definition last_R (gp : option N) (p : ppc) (last : list (N * (packet * bool))) (nl : list (N * N)) : Prop :=
  (last = [] \/
   exists g lastp a, gp = Some g /\ last = [(g, (lastp, a))] /\ pp_last_ok p lastp a /\
                     (forall id, p = PCompTx id -> aget nl g = Some id)) /\
  (p <> PFirst -> dead_pp p = false -> last <> []).

Definition rs_R (s : bc) (t : rs_st) : Prop :=
  rs_conn t = conn_no s /\
  clo_R (conn_no s) (clos s) (ackq s) (dying s) (lp s) (rs_clo t) (rs_inv t) (rs_done t) /\
  last_R (gproc s) (pp s) (rs_last t) (rs_nolookup t).

Definition rs_I (s : bc) : Prop := inv_store s /\ inv_clos s.

Lemma rs_I_init : rs_I bc_init.
Proof. split; [exact inv_store_init|exact inv_clos_init]. Qed.
Lemma rs_I_step s e s' : rs_I s -> step s e = Some s' -> rs_I s'.
Proof. intros [H1 H2] H. split; [eapply inv_store_step; eassumption|eapply inv_clos_step; eassumption]. Qed.

Ltac rs_proj := cbn [rs_conn rs_last rs_nolookup rs_clo rs_inv rs_done] in *.

(* events on which the scanner does nothing *)
Definition rs_neutral (e : event) : bool :=
  match e with
  | ENewConn | ERx _ _ | ELookup _ Incoming _ (LRes None) | ESub _ _ _ | EUnsub _ _ _ | EPub _ _ (Some _)
  | EAckCall _ _ | ETx _ _ _ _ | EQuiescent => false
  | _ => true
  end.

Lemma rs_neutral_step t e : rs_neutral e = true -> rs_step t e = Some t.
Proof.
  destruct e; cbn [rs_neutral rs_step]; intros H; try discriminate H; try reflexivity.
  - destruct k; [discriminate H|reflexivity].
  - destruct d; [|reflexivity]. destruct r as [|[p|]]; try discriminate H; reflexivity.
Qed.

(* the entry of the processor in rs_last, and of nobody else *)
Lemma aget_single {A} g0 (x : A) g : aget [(g0, x)] g = if g =? g0 then Some x else None.
Proof. reflexivity. Qed.

Lemma last_R_other gp p last nl g : last_R gp p last nl -> is_role gp g = false -> aget last g = None.
Proof.
  intros [[->|(g0 & lastp & a & -> & -> & _)] _] Hr; [reflexivity|].
  rewrite aget_single. cbn [is_role] in Hr. rewrite Hr. reflexivity.
Qed.

(* cleanup freezes the processor *)
Lemma last_R_freeze s last nl : proc_can_stop s = true ->
  last_R (gproc s) (pp s) last nl -> last_R (gproc s) PDone last nl.
Proof.
  intros Hs [[->|(g0 & lastp & a & Hg & -> & Hok & Hnl)] _].
  - split; [left; reflexivity|]. intros _ Hd. discriminate Hd.
  - split; [|intros _ Hd; discriminate Hd]. right. exists g0, lastp, a.
    split; [exact Hg|]. split; [reflexivity|]. split; [exact I|]. intros id Hx. discriminate Hx.
Qed.

Lemma store_lookup_in st i p : store_lookup st i = Some p -> In p (store_all st).
Proof.
  unfold store_all. induction st as [|[j q] st IH]; cbn [store_lookup map snd]; [discriminate|].
  destruct (i =? j); intros H; [injection H as <-; left; reflexivity|right; apply IH, H].
Qed.

Lemma lookup_publish st r id : all_ok is_publish (store_all st) -> opt_packet_eqb r (store_lookup st id) = true ->
  r = None \/ exists d m i, r = Some (Publish d m i).
Proof.
  intros Hok H. apply (option_eqb_eq _ packet_eqb_eq) in H. subst r.
  destruct (store_lookup st id) as [p|] eqn:E; [|left; reflexivity]. right.
  apply store_lookup_in in E. unfold all_ok in Hok. rewrite Forall_forall in Hok. specialize (Hok p E).
  destruct p; try discriminate Hok. eauto.
Qed.

(* a processor step on an event the scanner ignores *)
Lemma step_proc_rs_neutral s e s' : inv_store s -> rs_neutral e = true -> step_proc s e = Some s' ->
  clos s' = clos s /\
  (ackq s' = ackq s \/ (ackq s' = [] /\ pre_connack (pp s) = true)) /\
  (dying s' = false -> dying s = false) /\
  (forall lastp a, pp_last_ok (pp s) lastp a -> pp_last_ok (pp s') lastp a) /\
  (forall id, pp s' <> PCompTx id) /\
  pp s' <> PFirst /\
  (dead_pp (pp s') = false -> pp s <> PFirst /\ dead_pp (pp s) = false).
Proof.
  intros (_ & Hin & _) Hn Hp. unfold_proc Hp.
  destruct (pp s) eqn:Epp; destruct e; try discriminate Hn; try discriminate Hp; bm Hp; inv_some Hp; subst;
    try discriminate Hn;
    try (exfalso; match goal with Hx : _ && opt_packet_eqb _ _ = true |- _ =>
           apply andb_true_iff in Hx as [_ Hx]; apply (lookup_publish _ _ _ Hin) in Hx;
           destruct Hx as [Hx|(?&?&?&Hx)]; discriminate Hx end);
    sf; cbn [pre_connack dead_pp pp_last_ok];
    (split; [reflexivity|]); (split; [first [left; reflexivity|right; split; reflexivity]|]);
    (split; [first [exact (fun x => x) | intros Hx; discriminate Hx]|]); (split; [|split; [discriminate|split; [discriminate|]]]);
    try (intros Hd; first [discriminate Hd | split; [discriminate|reflexivity]]);
    try (intros lastp a Hok; exact I);
    try (intros lastp a Hok; try exact Hok; intros Hpr; subst lastp;
         try discriminate Hpr; try discriminate Hok; try (destruct Hok as [[? Hok] _]; discriminate Hok);
         try (destruct Hok as [_ Hok]; discriminate Hok); try (apply Hok; reflexivity)).
Qed.

(* ------------------------------------- processor steps the scanner reacts to *)

Lemma step_proc_rx s g p s' : step_proc s (ERx g p) = Some s' ->
  clos s' = clos s /\ ackq s' = ackq s /\ dying s' = dying s /\
  pp_last_ok (pp s') p false /\ (forall id, pp s' <> PCompTx id) /\ pp s' <> PFirst.
Proof.
  intros Hp. unfold_proc Hp.
  destruct (pp s) eqn:Epp; try discriminate Hp; bm Hp; inv_some Hp; subst; sf; cbn [pp_last_ok];
    repeat split; try reflexivity; try discriminate; try assumption; try exact I; eauto.
Qed.

Definition plain_tx (p : packet) : bool :=
  match p with Pingresp | Pubcomp _ | Suback _ _ | Unsuback _ | Puback _ => false | _ => true end.

Lemma step_proc_tx_rs s g p a ok s' : pp_ok (pp s) -> step_proc s (ETx g p a ok) = Some s' ->
  clos s' = clos s /\ ackq s' = ackq s /\ dying s' = dying s /\
  pp s <> PFirst /\ dead_pp (pp s) = false /\ (forall id, pp s' <> PCompTx id) /\ pp s' <> PFirst /\
  ( (p = Pingresp /\ pp s = PPing /\ (forall lastp, pp_last_ok (pp s') lastp true))
    \/ (exists id, p = Pubcomp id /\ pp s = PCompTx id /\ (forall lastp b, lastp = Pubrel id -> pp_last_ok (pp s') lastp b))
    \/ (plain_tx p = true /\ forall lastp b, pp_last_ok (pp s) lastp b -> pp_last_ok (pp s') lastp b) ).
Proof.
  intros Hok Hp. unfold_proc Hp.
  destruct (pp s) eqn:Epp; try discriminate Hp; bm Hp; inv_some Hp; subst; sf; cbn [pp_last_ok pp_ok dead_pp] in *;
    repeat match goal with Hx : (_ =? _) = true |- _ => apply N.eqb_eq in Hx; subst end;
    (split; [reflexivity|]); (split; [reflexivity|]); (split; [reflexivity|]); (split; [discriminate|]);
    (split; [reflexivity|]); (split; [discriminate|]); (split; [discriminate|]).
  all: try (right; right; split; [reflexivity|]; intros lastp b0 Hl; try exact I; try exact Hl;
            intros Hpr; subst lastp; try discriminate Hl; apply Hl; reflexivity).
  all: try (left; split; [reflexivity|]; split; [reflexivity|]; intros lastp; try exact I; intros _; reflexivity).
  all: try (right; left; eexists; split; [reflexivity|]; split; [reflexivity|];
            intros lastp b0 ->; try exact I; discriminate).
  (* re-sent packets come from the outgoing store: PUBLISH or PUBREL *)
  all: match goal with Hx : packet_eqb _ _ = true |- _ => apply packet_eqb_eq in Hx; subst end.
  all: pose proof (all_ok_head _ _ _ Hok) as Hh.
  all: right; right; (split; [match goal with Hx : out_ok ?x = true |- _ => destruct x; try discriminate Hx; reflexivity end|]).
  all: intros lastp b0 Hl; try exact I; exact Hl.
Qed.

Lemma plain_tx_step {A} p (x : option A) (y : N -> option A) z :
  plain_tx p = true ->
  match p with
  | Pingresp => x
  | Pubcomp id => y id
  | Suback _ _ | Unsuback _ | Puback _ => None
  | _ => z
  end = z.
Proof. destruct p; cbn; intros H; try discriminate H; reflexivity. Qed.

Lemma step_proc_lookup_none s g id' s' : step_proc s (ELookup g Incoming id' (LRes None)) = Some s' ->
  clos s' = clos s /\ ackq s' = ackq s /\ dying s' = dying s /\
  pp s = PRelLookup id' /\ pp s' = PCompTx id'.
Proof.
  intros Hp. unfold_proc Hp.
  destruct (pp s) eqn:Epp; try discriminate Hp; bm Hp; inv_some Hp; subst; sf.
  match goal with Hx : _ && _ = true |- _ => apply andb_true_iff in Hx as [Hx _]; apply N.eqb_eq in Hx; subst end.
  repeat split; reflexivity.
Qed.

Lemma step_proc_sub s g subs' k s' : step_proc s (ESub g subs' k) = Some s' ->
  exists id, pp s = PSubW id subs' /\ clo_find (clos s) k = None /\
    clos s' = clos s ++ [Clo k (conn_no s) (KSuback id (map snd subs')) CReg] /\
    ackq s' = ackq s /\ dying s' = dying s /\ pp s' = PSubR.
Proof.
  intros Hp. unfold_proc Hp.
  destruct (pp s) eqn:Epp; try discriminate Hp; bm Hp; inv_some Hp; subst; sf.
  match goal with Hx : subs_eqb _ _ = true |- _ => apply subs_eqb_eq in Hx; subst end.
  eexists. repeat split; try reflexivity; assumption.
Qed.

Lemma step_proc_unsub s g ts' k s' : step_proc s (EUnsub g ts' k) = Some s' ->
  exists id, pp s = PUnsubW id ts' /\ clo_find (clos s) k = None /\
    clos s' = clos s ++ [Clo k (conn_no s) (KUnsuback id) CReg] /\
    ackq s' = ackq s /\ dying s' = dying s /\ pp s' = PUnsubR.
Proof.
  intros Hp. unfold_proc Hp.
  destruct (pp s) eqn:Epp; try discriminate Hp; bm Hp; inv_some Hp; subst; sf.
  match goal with Hx : list_eqb bytes_eqb _ _ = true |- _ => apply (list_eqb_eq _ bytes_eqb_eq) in Hx; subst end.
  eexists. repeat split; try reflexivity; assumption.
Qed.

Lemma step_proc_pub s g m' k s' : step_proc s (EPub g m' (Some k)) = Some s' ->
  exists a, ((exists id, pp s = PPub1W id m' /\ a = KPuback id) \/ (exists id m, pp s = PRelPub id m /\ a = KPubcomp id)) /\
    clo_find (clos s) k = None /\
    clos s' = clos s ++ [Clo k (conn_no s) a CReg] /\
    ackq s' = ackq s /\ dying s' = dying s /\ pp s' = PPubR.
Proof.
  intros Hp. unfold_proc Hp.
  destruct (pp s) eqn:Epp; try discriminate Hp; bm Hp; inv_some Hp; subst; sf;
    match goal with Hx : message_eqb _ _ = true |- _ => apply message_eqb_eq in Hx; subst end;
    eexists; (split; [first [left; eexists; split; reflexivity | right; do 2 eexists; split; reflexivity]|]);
    repeat split; try reflexivity; assumption.
Qed.

(* --------------------------------------------------------------- processor *)

Lemma last_R_entry gp0 g p last nl :
  last_R gp0 p last nl -> (gp0 = Some g \/ gp0 = None) -> p <> PFirst -> dead_pp p = false ->
  exists lastp a, last = [(g, (lastp, a))] /\ pp_last_ok p lastp a /\ (forall id, p = PCompTx id -> aget nl g = Some id).
Proof.
  intros [[->|(g0 & lastp & a & Hg & -> & Hok & Hnl)] He] Hgp Hp Hd; [exfalso; apply (He Hp Hd); reflexivity|].
  destruct Hgp as [Hgp|Hgp]; [|congruence]. assert (g0 = g) by congruence. subst g0. eauto.
Qed.

Lemma rs_proc s t e s' g gp0 :
  rs_I s -> rs_conn t = conn_no s ->
  clo_R (conn_no s) (clos s) (ackq s) (dying s) (lp s) (rs_clo t) (rs_inv t) (rs_done t) ->
  last_R gp0 (pp s) (rs_last t) (rs_nolookup t) ->
  gproc s = Some g -> ev_g e = Some g ->
  (gp0 = Some g \/ (gp0 = None /\ is_rx e = true)) ->
  step_proc s e = Some s' ->
  exists t', rs_step t e = Some t' /\ rs_R s' t'.
Proof.
  intros [Hst Hcl] HA HC HL Hgp Hg Hgp0 Hp.
  destruct (step_proc_frame _ _ _ Hp) as (Fc & Fg & _ & _ & _ & Fl).
  assert (Hgp0' : gp0 = Some g \/ gp0 = None) by (destruct Hgp0 as [?|[? _]]; auto).
  destruct t as [rc rlast rnl rclo rinv rdone]. rs_proj. subst rc.
  unfold rs_R; rs_proj. rewrite Fc, Fg, Fl, Hgp.
  destruct (rs_neutral e) eqn:Hn.
  { (* events the scanner ignores *)
    eexists. split; [apply rs_neutral_step, Hn|]. rs_proj.
    destruct (step_proc_rs_neutral _ _ _ Hst Hn Hp) as (N1 & N2 & N3 & N4 & N5 & N6 & N7).
    split; [reflexivity|]. split.
    - rewrite N1. destruct N2 as [->|[-> Hpc]].
      + eapply clo_R_weaken; [exact HC|exact N3|auto].
      + destruct Hcl as (_ & _ & H3). destruct (H3 Hpc) as [H4 _].
        eapply clo_R_weaken; [eapply clo_R_reset; [exact HC|exact H4]|exact N3|auto].
    - destruct HL as [[->|(g0 & lastp & a & Hg0 & -> & Hok & Hnl)] He].
      + split; [left; reflexivity|]. intros _ Hd. destruct (N7 Hd) as [H1 H2]. exact (He H1 H2).
      + assert (g0 = g) by (destruct Hgp0' as [?|?]; congruence). subst g0.
        split; [|intros _ _; discriminate]. right. exists g, lastp, a.
        split; [reflexivity|]. split; [reflexivity|]. split; [apply N4, Hok|].
        intros id Hx. destruct (N5 id Hx). }
  destruct e; try discriminate Hn; cbn [ev_g] in Hg; try discriminate Hg; injection Hg as ->.
  - (* ERx *)
    destruct (step_proc_rx _ _ _ _ Hp) as (X1 & X2 & X3 & X4 & X5 & X6).
    eexists. split; [reflexivity|]. rs_proj. split; [reflexivity|]. split; [rewrite X1, X2, X3; exact HC|].
    assert (Hlast : aput rlast g (p, false) = [(g, (p, false))]).
    { destruct HL as [[->|(g0 & lastp & a & Hg0 & -> & _)] _]; [apply aput_nil|].
      assert (g0 = g) by (destruct Hgp0' as [?|?]; congruence). subst g0. apply aput_single. }
    rewrite Hlast. split; [|intros _ _; discriminate]. right. exists g, p, false.
    split; [reflexivity|]. split; [reflexivity|]. split; [exact X4|]. intros id Hx. destruct (X5 id Hx).
  - (* ETx *)
    destruct Hgp0 as [->|[_ Hx]]; [|discriminate Hx].
    destruct Hst as (_ & _ & Hppok & _).
    destruct (step_proc_tx_rs _ _ _ _ _ _ Hppok Hp) as (X1 & X2 & X3 & X4 & X5 & X6 & X7 & X8).
    destruct (last_R_entry _ g _ _ _ HL (or_introl eq_refl) X4 X5) as (lastp & b & -> & Hok & Hnl).
    cbn [rs_step]; rs_proj. rewrite aget_single, N.eqb_refl.
    destruct X8 as [(-> & Hpp & Hnew)|[(id & -> & Hpp & Hnew)|(Hpl & Hnew)]].
    + (* PINGRESP answers the PINGREQ *)
      rewrite Hpp in Hok. cbn [pp_last_ok] in Hok. destruct Hok as [-> ->].
      eexists. split; [reflexivity|]. rs_proj. split; [reflexivity|]. split; [rewrite X1, X2, X3; exact HC|].
      rewrite aput_single. split; [|intros _ _; discriminate]. right. exists g, Pingreq, true.
      split; [reflexivity|]. split; [reflexivity|]. split; [apply Hnew|]. intros id Hx. destruct (X6 id Hx).
    + (* PUBCOMP sent by the processor itself: the PUBREL's id is unknown to the session *)
      rewrite Hpp in Hok. cbn [pp_last_ok] in Hok. subst lastp. rewrite (Hnl id Hpp), !N.eqb_refl. cbn [andb].
      eexists. split; [reflexivity|]. rs_proj. split; [reflexivity|]. split; [rewrite X1, X2, X3; exact HC|].
      split; [|intros _ _; discriminate]. right. exists g, (Pubrel id), b.
      split; [reflexivity|]. split; [reflexivity|]. split; [apply Hnew; reflexivity|]. intros id' Hx. destruct (X6 id' Hx).
    + rewrite (plain_tx_step p _ _ _ Hpl).
      eexists. split; [reflexivity|]. rs_proj. split; [reflexivity|]. split; [rewrite X1, X2, X3; exact HC|].
      split; [|intros _ _; discriminate]. right. exists g, lastp, b.
      split; [reflexivity|]. split; [reflexivity|]. split; [apply Hnew, Hok|]. intros id' Hx. destruct (X6 id' Hx).
  - (* ESub *)
    destruct Hgp0 as [->|[_ Hx]]; [|discriminate Hx].
    destruct (step_proc_sub _ _ _ _ _ Hp) as (id & Hpp & Hk & Y1 & Y2 & Y3 & Y4).
    assert (Ha : pp s <> PFirst /\ dead_pp (pp s) = false) by (rewrite Hpp; split; [discriminate|reflexivity]).
    destruct (last_R_entry _ g _ _ _ HL (or_introl eq_refl) (proj1 Ha) (proj2 Ha)) as (lastp & b & -> & Hok & Hnl).
    rewrite Hpp in Hok. cbn [pp_last_ok] in Hok. subst lastp.
    cbn [rs_step]. unfold rs_last_p, rs_reg; rs_proj. rewrite aget_single, N.eqb_refl, subs_eqb_refl.
    pose proof HC as (HB & _). specialize (HB k). rewrite Hk in HB. rewrite HB.
    eexists. split; [reflexivity|]. rs_proj. split; [reflexivity|].
    split; [rewrite Y1, Y2, Y3; apply (clo_R_reg _ _ _ _ _ _ _ _ k (KSuback id (map snd subs)) HC Hk)|].
    rewrite Y4. split; [|intros _ _; discriminate]. right. exists g, (Subscribe id subs), b.
    split; [reflexivity|]. split; [reflexivity|]. split; [cbn; discriminate|discriminate].
  - (* EUnsub *)
    destruct Hgp0 as [->|[_ Hx]]; [|discriminate Hx].
    destruct (step_proc_unsub _ _ _ _ _ Hp) as (id & Hpp & Hk & Y1 & Y2 & Y3 & Y4).
    assert (Ha : pp s <> PFirst /\ dead_pp (pp s) = false) by (rewrite Hpp; split; [discriminate|reflexivity]).
    destruct (last_R_entry _ g _ _ _ HL (or_introl eq_refl) (proj1 Ha) (proj2 Ha)) as (lastp & b & -> & Hok & Hnl).
    rewrite Hpp in Hok. cbn [pp_last_ok] in Hok. subst lastp.
    cbn [rs_step]. unfold rs_last_p, rs_reg; rs_proj. rewrite aget_single, N.eqb_refl.
    rewrite (list_eqb_refl _ bytes_eqb_refl).
    pose proof HC as (HB & _). specialize (HB k). rewrite Hk in HB. rewrite HB.
    eexists. split; [reflexivity|]. rs_proj. split; [reflexivity|].
    split; [rewrite Y1, Y2, Y3; apply (clo_R_reg _ _ _ _ _ _ _ _ k (KUnsuback id) HC Hk)|].
    rewrite Y4. split; [|intros _ _; discriminate]. right. exists g, (Unsubscribe id topics), b.
    split; [reflexivity|]. split; [reflexivity|]. split; [cbn; discriminate|discriminate].
  - (* EPub (Some k) *)
    destruct Hgp0 as [->|[_ Hx]]; [|discriminate Hx].
    destruct k as [k|]; [|discriminate Hn].
    destruct (step_proc_pub _ _ _ _ _ Hp) as (a & Hsrc & Hk & Y1 & Y2 & Y3 & Y4).
    assert (Ha : pp s <> PFirst /\ dead_pp (pp s) = false).
    { destruct Hsrc as [(id & -> & _)|(id & m0 & -> & _)]; split; try discriminate; reflexivity. }
    destruct (last_R_entry _ g _ _ _ HL (or_introl eq_refl) (proj1 Ha) (proj2 Ha)) as (lastp & b & -> & Hok & Hnl).
    pose proof HC as (HB & _). specialize (HB k). rewrite Hk in HB.
    cbn [rs_step]. unfold rs_last_p, rs_reg; rs_proj. rewrite aget_single, N.eqb_refl.
    destruct Hsrc as [(id & Hpp & ->)|(id & m0 & Hpp & ->)]; rewrite Hpp in Hok; cbn [pp_last_ok] in Hok.
    + destruct Hok as [[d ->] Hq]. rewrite Hq, message_eqb_refl. cbn [andb]. rewrite HB.
      eexists. split; [reflexivity|]. rs_proj. split; [reflexivity|].
      split; [rewrite Y1, Y2, Y3; apply (clo_R_reg _ _ _ _ _ _ _ _ k (KPuback id) HC Hk)|].
      rewrite Y4. split; [|intros _ _; discriminate]. right. exists g, (Publish d m id), b.
      split; [reflexivity|]. split; [reflexivity|]. split; [cbn; discriminate|discriminate].
    + subst lastp. rewrite HB.
      eexists. split; [reflexivity|]. rs_proj. split; [reflexivity|].
      split; [rewrite Y1, Y2, Y3; apply (clo_R_reg _ _ _ _ _ _ _ _ k (KPubcomp id) HC Hk)|].
      rewrite Y4. split; [|intros _ _; discriminate]. right. exists g, (Pubrel id), b.
      split; [reflexivity|]. split; [reflexivity|]. split; [cbn; discriminate|discriminate].
  - (* ELookup Incoming (LRes None) *)
    destruct Hgp0 as [->|[_ Hx]]; [|discriminate Hx].
    destruct d; [|discriminate Hn]. destruct r as [|[q|]]; try discriminate Hn.
    destruct (step_proc_lookup_none _ _ _ _ Hp) as (Y1 & Y2 & Y3 & Hpp & Y4).
    assert (Ha : pp s <> PFirst /\ dead_pp (pp s) = false) by (rewrite Hpp; split; [discriminate|reflexivity]).
    destruct (last_R_entry _ g _ _ _ HL (or_introl eq_refl) (proj1 Ha) (proj2 Ha)) as (lastp & b & -> & Hok & Hnl).
    rewrite Hpp in Hok. cbn [pp_last_ok] in Hok. subst lastp.
    eexists. split; [reflexivity|]. rs_proj. split; [reflexivity|]. split; [rewrite Y1, Y2, Y3; exact HC|].
    rewrite Y4. split; [|intros _ _; discriminate]. right. exists g, (Pubrel id), b.
    split; [reflexivity|]. split; [reflexivity|]. split; [reflexivity|].
    intros id' Hx. injection Hx as <-. apply aget_aput_eq.
Qed.

(* ---------------------------------------------------------------- closures *)

(* rs_R looks at conn_no, clos, ackq, dying, lp, gproc, pp *)
Lemma rs_R_of s' t cn cl q dy l gp p :
  conn_no s' = cn -> clos s' = cl -> ackq s' = q -> dying s' = dy -> lp s' = l -> gproc s' = gp -> pp s' = p ->
  rs_conn t = cn -> clo_R cn cl q dy l (rs_clo t) (rs_inv t) (rs_done t) -> last_R gp p (rs_last t) (rs_nolookup t) ->
  rs_R s' t.
Proof. intros <- <- <- <- <- <- <- H1 H2 H3. split; [exact H1|split; [exact H2|exact H3]]. Qed.

Lemma enqueue_fields s c :
  conn_no (clo_enqueue s c) = conn_no s /\ clos (clo_enqueue s c) = clos s /\
  ackq (clo_enqueue s c) = (if live (conn_no s) (lp s) c then ackq s ++ [ack_packet (c_kind c)] else ackq s) /\
  dying (clo_enqueue s c) = dying s /\ lp (clo_enqueue s c) = lp s /\ gproc (clo_enqueue s c) = gproc s /\
  pp (clo_enqueue s c) = pp s.
Proof.
  unfold clo_enqueue. change (clo_live s c) with (live (conn_no s) (lp s) c).
  destruct (live (conn_no s) (lp s) c); sf; repeat split; reflexivity.
Qed.

Ltac sfc :=
  cbn [conn_no sess clos gproc gdeq gack gcl ph pp dp ap lp dying will cw cpp cps tdeq tpub tsub ackq
       set_pp set_dp set_ap set_lp set_sess set_clos set_dying set_tok set_ackq set_ph set_roles sess_delete].

Lemma rs_clo_step s t e s' :
  rs_I s -> rs_R s t -> step_clo s e = Some s' -> exists t', rs_step t e = Some t' /\ rs_R s' t'.
Proof.
  intros [Hst (Hnd & _)] (HA & HC & HL) H.
  destruct t as [rc rlast rnl rclo rinv rdone]. rs_proj. subst rc.
  pose proof HC as (HB & _).
  unfold step_clo, guard in H. destruct e; try discriminate H.
  - (* EConnClose by a closure whose delete failed *)
    exists (RsSt (conn_no s) rlast rnl rclo rinv rdone). split; [reflexivity|].
    match type of H with match ?x with _ => _ end = _ => destruct x as [c|] eqn:Ed; [|discriminate H] end.
    destruct (clo_stat_find_some _ _ _ Ed) as (Hin & Hf).
    destruct (c_stat c) eqn:Est; try discriminate Hf.
    pose proof (clo_find_of_in _ _ Hnd Hin) as Ek. inv_some H.
    pose proof (clo_R_gaveup _ _ _ _ _ _ _ _ _ _ _ g HC Ek Est) as HC'.
    destruct (c_conn c =? conn_no s); eapply (rs_R_of _ _ (conn_no s) _ (ackq s) _ (lp s) (gproc s) (pp s)); sfc; rs_proj; try reflexivity; try eassumption.
  - (* EAckCall *)
    destruct (clo_find (clos s) k) as [c|] eqn:Ek; [|discriminate H].
    pose proof (HB k) as HBk. rewrite Ek in HBk. destruct HBk as [HB1 HB2].
    cbn [rs_step]; rs_proj. rewrite HB1, HB2.
    destruct (c_stat c) eqn:Est; try discriminate H; cbn [is_reg negb].
    + destruct (in_closure s g); [discriminate H|].
      destruct (c_kind c) eqn:Ekind; inv_some H; (eexists; split; [reflexivity|]); rs_proj.
      1-3: destruct (enqueue_fields s c) as (F1 & F2 & F3 & F4 & F5 & F6 & F7);
           eapply (rs_R_of _ _ (conn_no s) _ (if live (conn_no s) (lp s) c then ackq s ++ [ack_packet (c_kind c)] else ackq s)
                     (dying s) (lp s) (gproc s) (pp s)); sfc; rs_proj; try assumption; try reflexivity;
           apply clo_R_invoke_run; assumption.
      eapply (rs_R_of _ _ (conn_no s) _ (ackq s) _ (lp s) (gproc s) (pp s)); sfc; rs_proj; try reflexivity; try eassumption. eapply clo_R_invoke_del; eassumption.
    + bm H; inv_some H. eexists; split; [reflexivity|]. split; [reflexivity|split; assumption].
  - (* EAckRet *)
    exists (RsSt (conn_no s) rlast rnl rclo rinv rdone). split; [reflexivity|].
    destruct (clo_find (clos s) k) as [c|] eqn:Ek; [|discriminate H].
    destruct (c_stat c) eqn:Est; try discriminate H.
    + destruct (g =? g0); [|discriminate H]. inv_some H.
      eapply (rs_R_of _ _ (conn_no s) _ (ackq s) _ (lp s) (gproc s) (pp s)); sfc; rs_proj; try reflexivity; try eassumption.
      apply (clo_R_same _ _ _ _ _ _ _ _ _ _ CDone HC Ek); rewrite ?Est; reflexivity.
    + bm H; inv_some H. split; [reflexivity|split; assumption].
  - (* EDelete Incoming: a running pubcomp closure *)
    destruct d; [|discriminate H].
    exists (RsSt (conn_no s) rlast rnl rclo rinv rdone). split; [reflexivity|].
    destruct (clo_del_find (clos s) g id) as [c|] eqn:Ed; [|discriminate H].
    destruct (clo_del_find_some _ _ _ _ Ed) as (Hin & Est & Ekind).
    pose proof (clo_find_of_in _ _ Hnd Hin) as Ek.
    destruct ok; inv_some H.
    + destruct (enqueue_fields (sess_delete s Incoming id) c) as (F1 & F2 & F3 & F4 & F5 & F6 & F7).
      revert F1 F2 F3 F4 F5 F6 F7. sfc. intros F1 F2 F3 F4 F5 F6 F7.
      eapply (rs_R_of _ _ (conn_no s) _ (if live (conn_no s) (lp s) c then ackq s ++ [ack_packet (c_kind c)] else ackq s)
                (dying s) (lp s) (gproc s) (pp s)); sfc; rs_proj; try assumption; try reflexivity.
      eapply clo_R_deleted; eassumption.
    + eapply (rs_R_of _ _ (conn_no s) _ (ackq s) _ (lp s) (gproc s) (pp s)); sfc; rs_proj; try reflexivity; try eassumption.
      apply (clo_R_same _ _ _ _ _ _ _ _ _ _ (CDieLog g) HC Ek); rewrite ?Est; reflexivity.
  - (* EDie KSession by a closure whose delete failed *)
    destruct k; try discriminate H.
    exists (RsSt (conn_no s) rlast rnl rclo rinv rdone). split; [reflexivity|].
    match type of H with match ?x with _ => _ end = _ => destruct x as [c|] eqn:Ed; [|discriminate H] end.
    destruct (clo_stat_find_some _ _ _ Ed) as (Hin & Hf).
    destruct (c_stat c) eqn:Est; try discriminate Hf.
    pose proof (clo_find_of_in _ _ Hnd Hin) as Ek. inv_some H.
    eapply (rs_R_of _ _ (conn_no s) _ (ackq s) _ (lp s) (gproc s) (pp s)); sfc; rs_proj; try reflexivity; try eassumption.
    apply (clo_R_same _ _ _ _ _ _ _ _ _ _ (CDieClose g) HC Ek); rewrite ?Est; reflexivity.
Qed.

(* ------------------------------------------------------------------- acker *)

Lemma step_cleanup_open s e s' : step_cleanup s e = Some s' -> lp s <> LEnd.
Proof. unfold step_cleanup. intros H E. rewrite E in H. discriminate H. Qed.

Lemma rs_ack_step s t e s' g :
  rs_I s -> rs_R s t -> ev_g e = Some g -> is_role (gproc s) g = false ->
  step_ack s e = Some s' -> exists t', rs_step t e = Some t' /\ rs_R s' t'.
Proof.
  intros [(_ & _ & _ & _ & Hackok) _] (HA & HC & HL) Hg Hr H.
  destruct t as [rc rlast rnl rclo rinv rdone]. rs_proj. subst rc.
  unfold step_ack in H. destruct (ap s) eqn:Eap; destruct e; try discriminate H.
  - (* AIdle, ETx *)
    cbn [ev_g] in Hg. injection Hg as ->.
    destruct async; [|discriminate H]. destruct (ackq_take (ackq s) p) as [q'|] eqn:Eq; [|discriminate H].
    assert (Hack : is_ack_packet p = true).
    { unfold all_ok in Hackok. rewrite Forall_forall in Hackok. apply Hackok. eapply ackq_take_in; exact Eq. }
    cbn [rs_step]; rs_proj. rewrite (last_R_other _ _ _ _ _ HL Hr), Hack.
    pose proof HC as (_ & _ & _ & HLo & _).
    assert (Hpos : (0 < flen (invf rclo (conn_no s) p) rinv)%nat).
    { specialize (HLo p). pose proof (ackq_take_pos _ _ _ Eq). lia. }
    destruct (rs_pick_ex (RsSt (conn_no s) rlast rnl rclo rinv rdone) rinv p Hpos) as [k Hk].
    rewrite Hk. destruct (rs_pick_some _ _ _ _ Hk) as [Hin Hf]. rs_proj.
    eexists. split; [reflexivity|].
    pose proof (clo_R_take _ _ _ _ _ _ _ _ _ _ _ HC Eq Hin Hf) as HC'.
    destruct ok; inv_some H.
    + unfold ack_token_back. destruct p; try discriminate Hack;
        eapply (rs_R_of _ _ (conn_no s) (clos s) q' (dying s) (lp s) (gproc s) (pp s)); sfc; rs_proj;
        try reflexivity; try eassumption.
    + eapply (rs_R_of _ _ (conn_no s) (clos s) q' (dying s) (lp s) (gproc s) (pp s)); sfc; rs_proj;
        try reflexivity; try eassumption.
  - (* ADieLog, EDie *)
    destruct k; try discriminate H. inv_some H. eexists. split; [reflexivity|].
    eapply (rs_R_of _ _ (conn_no s) (clos s) (ackq s) (dying s) (lp s) (gproc s) (pp s)); sfc; rs_proj;
      try reflexivity; try eassumption.
  - (* ADieClose, EConnClose *)
    inv_some H. eexists. split; [reflexivity|].
    eapply (rs_R_of _ _ (conn_no s) (clos s) (ackq s) true (lp s) (gproc s) (pp s)); sfc; rs_proj;
      try reflexivity; try eassumption.
    eapply clo_R_weaken; [exact HC|discriminate|auto].
Qed.

(* --------------------------------------------------------------- all steps *)

Lemma quiescent_parts s : quiescent s = true ->
  dying s = false /\ pp s = PLoop /\ ackq s = [] /\ lp s = LNone /\ forallb clo_idle (clos s) = true.
Proof.
  unfold quiescent. intros H.
  destruct (conn_open s); [|discriminate H]. destruct (dying s); [discriminate H|].
  destruct (pp s); try discriminate H. destruct (dp s); try discriminate H. destruct (ap s); try discriminate H.
  destruct (ackq s); try discriminate H. destruct (lp s); try discriminate H.
  cbn [andb negb] in H. repeat split; try reflexivity. exact H.
Qed.

Lemma step_deq_dying s e s' : step_deq s e = Some s' -> dying s' = false -> dying s = false.
Proof.
  intros H. unfold step_deq, take_deq, guard in H.
  destruct (dp s); destruct e; try discriminate H; bm H; inv_some H;
    repeat match goal with |- context [match ?b with _ => _ end] => destruct b end; sf; auto; discriminate.
Qed.

Lemma rs_step_lemma s t e s' :
  rs_I s -> rs_R s t -> step s e = Some s' -> exists t', rs_step t e = Some t' /\ rs_R s' t'.
Proof.
  intros Hi HR H. pose proof Hi as [Hst Hcl]. pose proof HR as (HA & HC & HL).
  destruct (step_cases _ _ _ H) as
      [-> Hl -> | -> Ho -> | -> Hq -> | Hc | -> Hc | g s1 Ho Hg Hc Hin Hv Hp | g s1 Ho Hg Hc Hin R1 Hv Hp
      | g s1 Ho Hg Hc Hin R1 R2 Hv Hp | g s1 Ho Hg Hc Hin R1 R2 R3 Hv Hp | g -> Ho Hc Hin Hfr ->].
  - (* ENewConn *)
    eexists. split; [reflexivity|]. destruct Hcl as (_ & Hle & _).
    unfold rs_R; rs_proj; sf. split; [rewrite HA; reflexivity|]. split.
    + eapply clo_R_new; eassumption.
    + split; [left; reflexivity|]. intros Hx. contradiction.
  - exists t. split; [reflexivity|exact HR].
  - (* EQuiescent *)
    destruct (quiescent_parts _ Hq) as (Q1 & Q2 & Q3 & Q4 & Q5).
    cbn [rs_step].
    assert (Hlpe : lp s <> LEnd) by (rewrite Q4; discriminate).
    pose proof HC as (HB & HH & _ & _ & HU). specialize (HU Q1 Hlpe).
    assert (Hmid : forall p, flen (midf (conn_no s) p) (clos s) = 0%nat).
    { intros p. apply flen_all_false. intros c Hc'. rewrite forallb_forall in Q5. specialize (Q5 c Hc').
      unfold midf. unfold clo_idle in Q5. destruct (c_stat c); try discriminate Q5; cbn [is_mid];
        rewrite andb_false_r; reflexivity. }
    assert (F1 : forallb (fun k => match aget (rs_clo t) k with Some (c, _) => negb (c =? rs_conn t) | None => true end)
                   (rs_inv t) = true).
    { apply forallb_forall. intros k Hk. destruct (aget (rs_clo t) k) as [[c q]|] eqn:E; [|reflexivity].
      specialize (HU q). rewrite Q3, Hmid in HU. cbn in HU.
      assert (Hz : flen (invf (rs_clo t) (conn_no s) q) (rs_inv t) = 0%nat) by lia.
      pose proof (flen_zero_all _ _ Hz k Hk) as Hf. unfold invf in Hf. rewrite E, packet_eqb_refl, andb_true_r in Hf.
      rewrite HA, Hf. reflexivity. }
    assert (F2 : forallb (fun e => match snd e with (Pingreq, false) => false | _ => true end) (rs_last t) = true).
    { destruct HL as [[->|(g0 & lastp & a & _ & -> & Hok & _)] _]; [reflexivity|].
      rewrite Q2 in Hok. cbn [pp_last_ok] in Hok. cbn [forallb snd]. rewrite andb_true_r.
      destruct lastp; try reflexivity. rewrite (Hok eq_refl). reflexivity. }
    rewrite F1, F2. exists t. split; [reflexivity|exact HR].
  - (* closure *)
    eapply rs_clo_step; eassumption.
  - (* EClosed *)
    exists t. split; [reflexivity|]. pose proof (step_cleanup_open _ _ _ Hc) as Hopen.
    destruct (step_cleanup_shape _ _ _ Hc) as (p & d & a & l & -> & Hsh).
    destruct Hsh as [(-> & -> & -> & Hn)|(Hn & Hstop & -> & -> & ->)];
      eapply (rs_R_of _ _ (conn_no s) (clos s) (ackq s) (dying s) l (gproc s)); sfc; try reflexivity; try eassumption;
      try (eapply clo_R_weaken; [exact HC|auto|auto]).
    apply last_R_freeze; [|exact HL]. unfold all_stopped in Hstop.
    apply andb_true_iff in Hstop as [Hstop _]. apply andb_true_iff in Hstop as [Hstop _]. exact Hstop.
  - (* processor *)
    eapply (rs_proc s1 t e s' g (gproc s)); try eassumption.
    + destruct Hv as [[-> _]|(_ & _ & -> & _)]; exact Hi.
    + destruct Hv as [[-> _]|(_ & _ & -> & _)]; exact HA.
    + destruct Hv as [[-> _]|(_ & _ & -> & _)]; exact HC.
    + destruct Hv as [[-> _]|(_ & _ & -> & _)]; exact HL.
    + destruct Hv as [[-> Hx]|(_ & _ & -> & _)]; [exact Hx|reflexivity].
    + destruct Hv as [[-> Hx]|(Hx & _ & -> & Hrx)]; [left; exact Hx|right; split; assumption].
  - (* dequeuer *)
    assert (Hgp : gproc s1 = gproc s) by (destruct Hv as [[-> _]|(_ & _ & ->)]; reflexivity).
    assert (Hdp1 : dp s1 = dp s) by (destruct Hv as [[-> _]|(_ & _ & ->)]; reflexivity).
    assert (HR' : rs_R s' t).
    { destruct (step_deq_shape _ _ _ Hp) as (se & d & dy & t1 & t2 & t3 & ->).
      assert (Hdy : dy = false -> dying s = false).
      { intros Hd. pose proof (step_deq_dying _ _ _ Hp) as Hx. sfc. specialize (Hx Hd).
        destruct Hv as [[-> _]|(_ & _ & ->)]; exact Hx. }
      eapply (rs_R_of _ _ (conn_no s) (clos s) (ackq s) dy (lp s) (gproc s) (pp s)); sfc; try reflexivity;
        try (destruct Hv as [[-> _]|(_ & _ & ->)]; reflexivity); try eassumption.
      eapply clo_R_weaken; [exact HC|exact Hdy|auto]. }
    destruct (rs_neutral e) eqn:Hn; [exists t; split; [apply rs_neutral_step, Hn|exact HR']|].
    unfold step_deq, guard in Hp. rewrite Hdp1 in Hp.
    destruct (dp s) eqn:Edp; destruct e; try discriminate Hp; try discriminate Hn.
    cbn [ev_g] in Hg. injection Hg as ->. destruct Hst as (_ & _ & _ & Hdpok & _). rewrite Edp in Hdpok. cbn [dp_ok] in Hdpok.
    destruct async; try discriminate Hp. destruct (packet_eqb p p0) eqn:Ep; [|discriminate Hp].
    apply packet_eqb_eq in Ep. subst p0.
    cbn [rs_step]. rewrite (last_R_other _ _ _ _ _ HL R1).
    exists t. split; [|exact HR']. destruct p; try discriminate Hdpok; reflexivity.
  - (* acker *)
    assert (Hx : exists t', rs_step t e = Some t' /\ rs_R s' t').
    { destruct Hv as [[-> _]|(_ & _ & ->)].
      - eapply rs_ack_step; eassumption.
      - eapply (rs_ack_step (set_roles s (gproc s) (gdeq s) (Some g) (gcl s))); try eassumption. }
    exact Hx.
  - (* cleanup *)
    assert (Hn : rs_neutral e = true).
    { unfold step_cleanup in Hp. destruct (lp s1); destruct e; try discriminate Hp; try reflexivity.
      destruct k; [discriminate Hp|reflexivity]. }
    exists t. split; [apply rs_neutral_step, Hn|]. pose proof (step_cleanup_open _ _ _ Hp) as Hopen.
    destruct (step_cleanup_shape _ _ _ Hp) as (p & d & a & l & -> & Hsh).
    assert (Hlp1 : lp s1 = lp s) by (destruct Hv as [[-> _]|(_ & _ & ->)]; reflexivity).
    assert (Hpp1 : pp s1 = pp s) by (destruct Hv as [[-> _]|(_ & _ & ->)]; reflexivity).
    assert (Hgp1 : gproc s1 = gproc s) by (destruct Hv as [[-> _]|(_ & _ & ->)]; reflexivity).
    assert (Hdy1 : dying s1 = dying s) by (destruct Hv as [[-> _]|(_ & _ & ->)]; reflexivity).
    rewrite Hlp1 in Hopen.
    destruct Hsh as [(-> & -> & -> & Hnn)|(Hnn & Hstop & -> & -> & ->)];
      eapply (rs_R_of _ _ (conn_no s) (clos s) (ackq s) (dying s) l (gproc s)); sfc; rewrite ?Hpp1; try reflexivity;
      try (destruct Hv as [[-> _]|(_ & _ & ->)]; reflexivity); try eassumption;
      try (eapply clo_R_weaken; [exact HC|auto|auto]).
    rewrite <- Hgp1. apply last_R_freeze.
    + unfold all_stopped in Hstop.
      apply andb_true_iff in Hstop as [Hstop _]. apply andb_true_iff in Hstop as [Hstop _]. exact Hstop.
    + rewrite Hgp1, Hpp1. exact HL.
  - (* Close() from outside *)
    exists t. split; [reflexivity|].
    eapply (rs_R_of _ _ (conn_no s) (clos s) (ackq s) true (lp s) (gproc s) (pp s)); sfc; try reflexivity; try eassumption.
    eapply clo_R_weaken; [exact HC|discriminate|auto].
Qed.

Theorem c20_responses_holds : forall es s, bc_run es = Some s -> c20_responses es = true.
Proof.
  unfold c20_responses.
  apply (scan_sound_inv rs_step rs_I rs_R rs_I_init rs_I_step rs_step_lemma).
  unfold rs_R; cbn. split; [reflexivity|]. split.
  - unfold clo_R, tab_R; cbn. repeat split; intros; try discriminate; try contradiction; auto.
  - split; [left; reflexivity|]. intros _ Hd. discriminate Hd.
Qed.
