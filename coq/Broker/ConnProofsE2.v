(* ConnProofsE2.v — c20_acted_on and c16_quiescent_dequeuing (ConnSpec6.v) hold of
   every trace the broker-connection model accepts. *)
From Coq Require Import List NArith Bool Lia.
From GM Require Import Base.Lts Codec.Packet Session.Ids Session.Store Session.StoreProofs
  Broker.Conn Broker.ConnSpec Broker.ConnSpec6 Broker.ConnBase
  Broker.ConnProofsB1 Broker.ConnProofsB2 Broker.ConnProofsB3 Broker.ConnProofsB4.
Import ListNotations.
Open Scope N_scope.

(* ============================================================ c20_acted_on == *)

(* the control points at which the processor still owes the first step of a request *)
Definition awaits (x : ppc) (p : packet) : bool :=
  match x with
  | PAuth _ => match p with Connect _ => true | _ => false end
  | PSubW _ _ => match p with Subscribe _ _ => true | _ => false end
  | PUnsubW _ _ => match p with Unsubscribe _ _ => true | _ => false end
  | PPub0 _ => match p with Publish _ m _ => m_qos m =? 0 | _ => false end
  | PPub1W _ _ => match p with Publish _ m _ => m_qos m =? 1 | _ => false end
  | PPub2W _ => match p with Publish _ m _ => m_qos m =? 2 | _ => false end
  | PAckDel _ => match p with Puback _ | Pubcomp _ => true | _ => false end
  | PRecSave _ => match p with Pubrec _ => true | _ => false end
  | PRelLookup _ => match p with Pubrel _ => true | _ => false end
  | PPing => match p with Pingreq => true | _ => false end
  | PDisc => match p with Disconnect => true | _ => false end
  | PDieLog KClient | PDieClose | PDone => true
  | _ => false
  end.

Definition nd_rel (s : bc) (t : list (N * packet)) : Prop :=
  forall g p, aget t g = Some p -> gproc s = Some g /\ awaits (pp s) p = true.

Definition nd_special (e : event) : bool :=
  match e with ENewConn | ERx _ _ | ERxErr _ | EQuiescent => true | _ => false end.

(* on every other event the scanner at most forgets an entry *)
Lemma nd_shrinks t e : nd_special e = false ->
  exists t', nd_step t e = Some t' /\ forall g p, aget t' g = Some p -> aget t g = Some p.
Proof.
  intros Hs. destruct e; try discriminate Hs; cbn [nd_step ev_g];
    try (eexists; split; [reflexivity|]; intros g0 p0 H0; exact H0);
    match goal with |- context [aget t ?g] => destruct (aget t g) as [p0|] eqn:Eg end;
    try (eexists; split; [reflexivity|]; intros g0 q0 H0; exact H0);
    match goal with |- context [nd_discharges ?p ?e] => destruct (nd_discharges p e) end;
    (eexists; split; [reflexivity|]); intros g0 q0 H0; try exact H0;
    apply aget_adel_some in H0; exact (proj1 H0).
Qed.

Lemma nd_rel_weaken s s' t t' :
  (forall g p, aget t' g = Some p -> aget t g = Some p) ->
  gproc s' = gproc s -> (pp s' = pp s \/ pp s' = PDone) -> nd_rel s t -> nd_rel s' t'.
Proof.
  intros Hsub Hg Hp HR g p H. destruct (HR g p (Hsub _ _ H)) as [H1 H2]. rewrite Hg. split; [exact H1|].
  destruct Hp as [->| ->]; [exact H2|reflexivity].
Qed.

Lemma step_proc_not_special s e s' : step_proc s e = Some s' -> e <> ENewConn /\ e <> EQuiescent.
Proof. intros H. unfold step_proc in H. split; intros ->; destruct (pp s); try discriminate H; bm H. Qed.

(* the processor's own steps *)
Lemma nd_proc s t e s' g : gproc s = Some g -> ev_g e = Some g ->
  (forall p, aget t g = Some p -> awaits (pp s) p = true) ->
  step_proc s e = Some s' ->
  exists t', nd_step t e = Some t' /\
    (forall p, aget t' g = Some p -> awaits (pp s') p = true) /\
    (forall g' p, g' <> g -> aget t' g' = Some p -> aget t g' = Some p).
Proof.
  intros Hg Heg Haw H.
  destruct (aget t g) as [p0|] eqn:Eg.
  - (* the processor owes a step: the event is that step, or the request stays owed *)
    specialize (Haw p0 eq_refl).
    unfold step_proc, proc_dispatch, die_p, guard, take_pub, take_sub, clo_reg, take_deq_if_any, take_deq in H.
    destruct (pp s) eqn:Epp; cbn [awaits] in Haw; try discriminate Haw;
      destruct e; try discriminate H; bm H; inv_some H;
      cbn [ev_g] in Heg; injection Heg as Heg; subst; sf;
      destruct p0; try discriminate Haw;
      cbn [nd_step ev_g]; rewrite Eg; cbn [nd_discharges]; rewrite ?Haw;
      (eexists; split; [reflexivity|]); (split; [intros q Hq|intros g' q Hne Hq]);
      rewrite ?aget_adel_eq in Hq; try discriminate Hq;
      try (rewrite aget_adel_ne in Hq by exact Hne; exact Hq);
      try exact Hq;
      try (rewrite Eg in Hq; injection Hq as <-; cbn [awaits]; first [reflexivity|exact Haw]).
  - (* nothing owed *)
    destruct (nd_special e) eqn:Es.
    + destruct e; try discriminate Es.
      * destruct (step_proc_not_special _ _ _ H) as [Hn _]. contradiction Hn. reflexivity.
      * (* ERx *)
        cbn [ev_g] in Heg. injection Heg as ->. cbn [nd_step]. rewrite Eg.
        eexists; split; [reflexivity|]. split.
        -- intros q Hq. rewrite aget_aput_eq in Hq. injection Hq as <-.
           unfold step_proc, proc_dispatch, die_p in H.
           destruct (pp s) eqn:Epp; try discriminate H; bm H; inv_some H; sf; cbn [awaits]; first [reflexivity|assumption].
        -- intros g' q Hne Hq. rewrite aget_aput_ne in Hq by exact Hne. exact Hq.
      * (* ERxErr *)
        cbn [ev_g] in Heg. injection Heg as ->. cbn [nd_step]. rewrite Eg.
        eexists; split; [reflexivity|]. split; [intros q Hq; rewrite Eg in Hq; discriminate Hq|intros g' q _ Hq; exact Hq].
      * destruct (step_proc_not_special _ _ _ H) as [_ Hn]. contradiction Hn. reflexivity.
    + assert (Ht : nd_step t e = Some t).
      { destruct e; try discriminate Es; cbn [nd_step ev_g]; cbn [ev_g] in Heg; try discriminate Heg;
          injection Heg as ->; rewrite Eg; reflexivity. }
      exists t. split; [exact Ht|]. split; [intros q Hq; rewrite Eg in Hq; discriminate Hq|intros g' q _ Hq; exact Hq].
Qed.

Lemma nd_rel_roles_other s t p d a c : gproc s = p -> nd_rel s t -> nd_rel (set_roles s p d a c) t.
Proof. intros <- HR g q H. destruct (HR g q H) as [H1 H2]. sf. split; assumption. Qed.

Lemma nd_rel_none s t : gproc s = None -> nd_rel s t -> forall g, aget t g = None.
Proof.
  intros Hn HR g. destruct (aget t g) as [p|] eqn:E; [|reflexivity].
  destruct (HR g p E) as [H1 _]. rewrite Hn in H1. discriminate H1.
Qed.

Lemma nd_hstep s t e s' : nd_rel s t -> step s e = Some s' -> exists t', nd_step t e = Some t' /\ nd_rel s' t'.
Proof.
  intros HR H. apply step_cases in H.
  destruct H as [-> _ -> | -> _ -> | -> Hq -> | H | -> H
                | g s1 _ Hev _ _ Hv H | g s1 _ Hev _ _ Rp Hv H | g s1 _ Hev _ _ Rp _ Hv H | g s1 _ Hev _ _ Rp _ _ Hv H
                | g -> _ _ _ Hf ->].
  - (* ENewConn *) exists []. split; [reflexivity|]. intros g p E. discriminate E.
  - (* ECloseReq *) exists t. split; [reflexivity|exact HR].
  - (* EQuiescent: the processor is back in Receive *)
    assert (Ht : t = []).
    { destruct t as [|[g p] t]; [reflexivity|]. exfalso.
      destruct (HR g p (aget_cons_eq _ _ _)) as [_ Ha].
      unfold quiescent in Hq. repeat (apply andb_true_iff in Hq; destruct Hq as [Hq ?]).
      destruct (pp s); discriminate. }
    subst t. exists []. split; [reflexivity|exact HR].
  - (* closure *)
    assert (Hs : nd_special e = false).
    { apply step_clo_event in H. destruct e; try discriminate H; reflexivity. }
    destruct (nd_shrinks t e Hs) as (t' & Ht & Hsub). exists t'. split; [exact Ht|].
    apply step_clo_shape in H. destruct H as (se & cl & dy & q & ->).
    eapply nd_rel_weaken; [exact Hsub| |left|exact HR]; reflexivity.
  - (* EClosed *)
    exists t. split; [reflexivity|].
    apply step_cleanup_frame in H. destruct H as (_ & _ & _ & Hg & _ & _ & Hp & _).
    eapply nd_rel_weaken; [intros g0 p0 H0; exact H0|exact Hg|exact Hp|exact HR].
  - (* processor *)
    assert (Hg1 : gproc s1 = Some g) by (destruct Hv as [[-> Hg]|(_ & _ & -> & _)]; [exact Hg|reflexivity]).
    assert (HR1 : nd_rel s1 t).
    { destruct Hv as [[-> _]|(Hn & _ & -> & _)]; [exact HR|].
      intros g0 p0 E. rewrite (nd_rel_none _ _ Hn HR g0) in E. discriminate E. }
    destruct (nd_proc s1 t e s' g Hg1 Hev (fun p E => proj2 (HR1 g p E)) H) as (t' & Ht & Hown & Hoth).
    exists t'. split; [exact Ht|].
    apply step_proc_clos in H. destruct H as (_ & _ & Hg' & _).
    intros g0 p0 E. rewrite Hg', Hg1. destruct (N.eq_dec g0 g) as [->|Hne].
    + split; [reflexivity|apply Hown, E].
    + exfalso. destruct (HR1 g0 p0 (Hoth _ _ Hne E)) as [Hx _]. rewrite Hg1 in Hx. injection Hx as Hx. congruence.
  - (* dequeuer *)
    assert (Hs : nd_special e = false).
    { apply step_deq_event in H. destruct e; try contradiction; reflexivity. }
    destruct (nd_shrinks t e Hs) as (t' & Ht & Hsub). exists t'. split; [exact Ht|].
    apply step_deq_frame in H. destruct H as (_ & _ & Hp & Hg & _).
    eapply nd_rel_weaken; [exact Hsub|exact Hg|left; exact Hp|].
    destruct Hv as [[-> _]|(_ & _ & ->)]; [exact HR|apply nd_rel_roles_other; [reflexivity|exact HR]].
  - (* acker *)
    assert (Hs : nd_special e = false).
    { apply step_ack_event in H. destruct e; try contradiction; reflexivity. }
    destruct (nd_shrinks t e Hs) as (t' & Ht & Hsub). exists t'. split; [exact Ht|].
    apply step_ack_frame in H. destruct H as (_ & _ & Hp & Hg & _).
    eapply nd_rel_weaken; [exact Hsub|exact Hg|left; exact Hp|].
    destruct Hv as [[-> _]|(_ & _ & ->)]; [exact HR|apply nd_rel_roles_other; [reflexivity|exact HR]].
  - (* cleanup *)
    assert (Hs : nd_special e = false).
    { apply step_cleanup_event in H. destruct e; try discriminate H; reflexivity. }
    destruct (nd_shrinks t e Hs) as (t' & Ht & Hsub). exists t'. split; [exact Ht|].
    apply step_cleanup_frame in H. destruct H as (_ & _ & _ & Hg & _ & _ & Hp & _).
    eapply nd_rel_weaken; [exact Hsub|exact Hg|exact Hp|].
    destruct Hv as [[-> _]|(_ & _ & ->)]; [exact HR|apply nd_rel_roles_other; [reflexivity|exact HR]].
  - (* Close() from outside *)
    destruct (nd_shrinks t (EConnClose g) eq_refl) as (t' & Ht & Hsub). exists t'. split; [exact Ht|].
    eapply nd_rel_weaken; [exact Hsub| |left|exact HR]; reflexivity.
Qed.

Theorem c20_acted_on_holds : forall es s, bc_run es = Some s -> c20_acted_on es = true.
Proof.
  unfold c20_acted_on. apply (scan_sound nd_step nd_rel nd_hstep).
  intros g p E. discriminate E.
Qed.

(* ================================================= c16_quiescent_dequeuing == *)

Definition qd_rel (s : bc) (t : bool) : Prop := dp s = DWait -> t = true.

Lemma qd_deq s e s' : step_deq s e = Some s' -> dp s' = DWait -> exists g, e = EDeqCall g.
Proof.
  intros H Hd. unfold step_deq, take_deq, guard in H.
  destruct (dp s) eqn:Edp; destruct e; try discriminate H; bm H; inv_some H; sf;
    try discriminate Hd; try (eexists; reflexivity);
    repeat match goal with Hx : context [match ?b with _ => _ end] |- _ => destruct b end; discriminate Hd.
Qed.

Lemma step_proc_dp s e s' : step_proc s e = Some s' ->
  (dp s' = dp s \/ dp s' = DToken) /\
  match e with EDeqCall _ | EDeqRet _ _ | ENewConn | EQuiescent => False | _ => True end.
Proof.
  intros H. unfold step_proc, proc_dispatch, die_p, guard, take_pub, take_sub, clo_reg, take_deq_if_any, take_deq in H.
  destruct (pp s) eqn:Epp; destruct e; try discriminate H; bm H; inv_some H; sf;
    (split; [|exact I]); first [left; reflexivity|right; reflexivity|destruct fresh; left; reflexivity].
Qed.

Lemma step_cleanup_dp s e s' : step_cleanup s e = Some s' -> dp s' = dp s \/ dp s' <> DWait.
Proof.
  intros H. unfold step_cleanup, guard in H.
  destruct (lp s) eqn:Elp; destruct e; try discriminate H; bm H; inv_some H; sf;
    try (left; reflexivity); right; destruct (dp s); discriminate.
Qed.

Lemma qd_step_other t e :
  match e with EDeqCall _ | EDeqRet _ _ | ENewConn | EQuiescent => False | _ => True end -> qd_step t e = Some t.
Proof. destruct e; intros H; try contradiction; reflexivity. Qed.

Lemma qd_hstep s t e s' : qd_rel s t -> step s e = Some s' -> exists t', qd_step t e = Some t' /\ qd_rel s' t'.
Proof.
  intros HR H. apply step_cases in H.
  destruct H as [-> _ -> | -> _ -> | -> Hq -> | H | -> H
                | g s1 _ Hev _ _ Hv H | g s1 _ Hev _ _ Rp Hv H | g s1 _ Hev _ _ Rp _ Hv H | g s1 _ Hev _ _ Rp _ _ Hv H
                | g -> _ _ _ Hf ->].
  - exists false. split; [reflexivity|]. intros Hd. discriminate Hd.
  - exists t. split; [reflexivity|exact HR].
  - (* EQuiescent: the dequeuer is inside Dequeue *)
    assert (Hd : dp s = DWait).
    { unfold quiescent in Hq. repeat (apply andb_true_iff in Hq; destruct Hq as [Hq ?]).
      destruct (dp s); try discriminate. reflexivity. }
    rewrite (HR Hd). exists true. split; [reflexivity|]. intros _. reflexivity.
  - exists t. split.
    + apply qd_step_other. apply step_clo_event in H. destruct e; try discriminate H; exact I.
    + apply step_clo_shape in H. destruct H as (se & cl & dy & q & ->). exact HR.
  - exists t. split; [reflexivity|].
    unfold qd_rel in *. destruct (step_cleanup_dp _ _ _ H) as [->|Hn]; [exact HR|intros Hd; contradiction].
  - (* processor *)
    assert (HR1 : qd_rel s1 t) by (destruct Hv as [[-> _]|(_ & _ & -> & _)]; exact HR).
    destruct (step_proc_dp _ _ _ H) as [Hd He]. exists t. split; [apply qd_step_other, He|].
    unfold qd_rel in *. destruct Hd as [->| ->]; [exact HR1|intros Hd; discriminate Hd].
  - (* dequeuer *)
    assert (HR1 : qd_rel s1 t) by (destruct Hv as [[-> _]|(_ & _ & ->)]; exact HR).
    destruct (dp s' ) eqn:Ed'; try (
      assert (Hx : exists t', qd_step t e = Some t') by
        (apply step_deq_event in H; destruct e; try contradiction; eexists; reflexivity);
      destruct Hx as (t' & Ht); exists t'; split; [exact Ht|]; unfold qd_rel; rewrite Ed'; intros Hd; discriminate Hd).
    destruct (qd_deq _ _ _ H Ed') as (g0 & ->). exists true. split; [reflexivity|]. intros _. reflexivity.
  - (* acker *)
    exists t. split.
    + apply qd_step_other. apply step_ack_event in H. destruct e; try contradiction; exact I.
    + apply step_ack_shape in H. destruct H as (a & dy & t1 & t2 & t3 & q & ->). unfold qd_rel; sf.
      destruct Hv as [[-> _]|(_ & _ & ->)]; exact HR.
  - (* cleanup *)
    exists t. split.
    + apply qd_step_other. apply step_cleanup_event in H. destruct e; try discriminate H; exact I.
    + assert (HR1 : qd_rel s1 t) by (destruct Hv as [[-> _]|(_ & _ & ->)]; exact HR).
      unfold qd_rel in *. destruct (step_cleanup_dp _ _ _ H) as [->|Hn]; [exact HR1|intros Hd; contradiction].
  - exists t. split; [reflexivity|exact HR].
Qed.

Theorem c16_quiescent_dequeuing_holds : forall es s, bc_run es = Some s -> c16_quiescent_dequeuing es = true.
Proof.
  unfold c16_quiescent_dequeuing. apply (scan_sound qd_step qd_rel qd_hstep).
  intros Hd. discriminate Hd.
Qed.
