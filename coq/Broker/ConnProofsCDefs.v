(* ConnProofsCDefs.v — definitions used in the statements of the C16 theorems
   (trace hypotheses as executable scanners, token bookkeeping).  Definitions
   only, extractable (no proof library is imported). *)
From Coq Require Import List NArith Bool.
From GM Require Import Codec.Packet Session.Store Broker.Conn Broker.ConnSpec.
Import ListNotations.
Open Scope N_scope.

Definition is_publish (p : packet) : bool := match p with Publish _ _ _ => true | _ => false end.
Definition npub (ps : list packet) : nat := length (filter is_publish ps).

(* c16_resume_fits: at every resume (the processor's listing of the outgoing store after
   CONNACK) the store holds at most W packets (PUBLISH or PUBREL: each is an
   unacknowledged QoS>0 message), W the window the connection was set up with *)
Definition rf_step (w : N) (e : event) : option N :=
  match e with
  | ENewConn => Some 0
  | ESetup _ (SOk _ _ w' _ _) => Some w'
  | EAll _ Outgoing (Some ps) => if N.of_nat (length ps) <=? w then Some w else None
  | _ => Some w
  end.
Definition c16_resume_fits (es : list event) : bool := scan rf_step 0 es.

(* c16_window_const: as long as the peer has not acknowledged an id that was not in
   flight (the wb_spur flag of the c16_bound scanner, which is run alongside),
     - the window of a connection that continues a session (Setup not fresh) is not
       smaller than the window of the previous connection that was set up, and
     - NextID does not hand out an id that is still in the outgoing store (it would need
       65535 allocations while one message stays unacknowledged).
   [pk_ids] are the ids in the outgoing store, read off the trace: saved and not deleted. *)
Record pk_st := PkSt { pk_last : N; pk_ids : list N }.
Definition pk_step (v : pk_st) (e : event) : option pk_st :=
  match e with
  | ESetup _ (SOk _ fresh w _ _) =>
      if fresh || (pk_last v <=? w) then Some (PkSt w (if fresh then [] else pk_ids v)) else None
  | ESave _ Outgoing p true =>
      match get_id p with
      | Some i => Some (PkSt (pk_last v) (if nmem i (pk_ids v) then pk_ids v else pk_ids v ++ [i]))
      | None => Some v
      end
  | EDelete _ Outgoing id true => Some (PkSt (pk_last v) (filter (fun j => negb (j =? id)) (pk_ids v)))
  | ENextId _ id => if nmem id (pk_ids v) then None else Some v
  | _ => Some v
  end.
Definition pkw_step (x : wb_st * pk_st) (e : event) : option (wb_st * pk_st) :=
  let (t, v) := x in
  let t' := match wb_step t e with Some t' => t' | None => t end in
  match pk_step v e with
  | Some v' => Some (t', v')
  | None => if wb_spur t then Some (t', v) else None
  end.
Definition c16_window_const (es : list event) : bool := scan pkw_step (WbSt 0 [] false, PkSt 0 []) es.

(* the scanner state reached after a trace *)
Fixpoint srun {S : Type} (f : S -> event -> option S) (t : S) (es : list event) : option S :=
  match es with
  | [] => Some t
  | e :: es' => match f t e with Some t' => srun f t' es' | None => None end
  end.

(* does the dequeuer hold a window slot? *)
Definition deq_busy (d : dpc) : bool :=
  match d with DWait | DNextId _ _ | DSave _ _ | DBackAck _ | DSend _ => true | _ => false end.
Definition held (d : dpc) : N := if deq_busy d then 1 else 0.
(* is the processor about to return a window slot? *)
Definition credit (p : ppc) : N := match p with PAckDel _ => 1 | _ => 0 end.

(* c16_slots_not_lost2 ("window slots are returned by every completed handshake and are not
   lost over time or across reconnects"): the dequeuer — a goroutine that has delivered before
   and is not inside Dequeue ([s2_idle]: set at its successful send of a fresh PUBLISH, cleared
   at its next Dequeue call) — reports a token-wait timeout (EDie g KClient) only when the
   window is full:  in flight + acknowledgements in hand >= W,  unless the peer has
   acknowledged an id not in flight ([s2_spur], same rules as wb_spur).  In flight
   ([s2_fl], same rules as wb_fl): fresh PUBLISH, dup PUBLISH and PUBREL sent successfully and
   not yet acknowledged.  An acknowledgement that was received frees its slot only when the
   stored packet has been deleted successfully ([s2_ack]: acknowledgements in the processor's
   hands; a failed Delete leaves the id there: that slot is legitimately gone, the connection
   is dying). *)
Record sl2_st := Sl2St { s2_w : N; s2_fl : list N; s2_ack : list N; s2_spur : bool; s2_idle : list N }.
Definition sl2_step (s : sl2_st) (e : event) : option sl2_st :=
  match e with
  | ENewConn => Some (Sl2St 0 [] [] (s2_spur s) [])
  | ESetup _ (SOk _ fresh w _ _) =>
      Some (Sl2St w (s2_fl s) (s2_ack s) (if fresh then false else s2_spur s) (s2_idle s))
  | EDeqCall g => Some (Sl2St (s2_w s) (s2_fl s) (s2_ack s) (s2_spur s) (filter (fun x => negb (x =? g)) (s2_idle s)))
  | ETx g (Publish false m id) _ true =>
      Some (Sl2St (s2_w s) (if (m_qos m =? 0) || nmem id (s2_fl s) then s2_fl s else id :: s2_fl s) (s2_ack s) (s2_spur s)
                  (if nmem g (s2_idle s) then s2_idle s else g :: s2_idle s))
  | ETx _ (Publish true _ id) _ true | ETx _ (Pubrel id) _ true =>
      Some (Sl2St (s2_w s) (if nmem id (s2_fl s) then s2_fl s else id :: s2_fl s) (s2_ack s) (s2_spur s) (s2_idle s))
  | ERx _ (Puback id) | ERx _ (Pubcomp id) =>
      if nmem id (s2_fl s)
      then Some (Sl2St (s2_w s) (nremove1 id (s2_fl s)) (id :: s2_ack s) (s2_spur s) (s2_idle s))
      else Some (Sl2St (s2_w s) (s2_fl s) (s2_ack s) true (s2_idle s))
  | ERx _ (Pubrec id) =>
      if nmem id (s2_fl s) then Some s else Some (Sl2St (s2_w s) (s2_fl s) (s2_ack s) true (s2_idle s))
  | EDelete _ Outgoing id true =>
      Some (Sl2St (s2_w s) (s2_fl s) (nremove1 id (s2_ack s)) (s2_spur s) (s2_idle s))
  | EDie g KClient =>
      if nmem g (s2_idle s) && negb (s2_spur s)
         && (N.of_nat (length (s2_fl s) + length (s2_ack s)) <? s2_w s) then None else Some s
  | _ => Some s
  end.
Definition c16_slots_not_lost2 (es : list event) : bool := scan sl2_step (Sl2St 0 [] [] false []) es.
