(* ConnProofsCDefs.v — definitions used in the statements of the C16 theorems
   (trace hypotheses as executable scanners, token bookkeeping).  Definitions
   only, extractable (no proof library is imported). *)
From Coq Require Import List NArith Bool.
From GM Require Import Codec.Packet Session.Store Broker.Conn Broker.ConnSpec.
Import ListNotations.
Open Scope N_scope.

Definition is_publish (p : packet) : bool := match p with Publish _ _ _ => true | _ => false end.
Definition npub (ps : list packet) : nat := length (filter is_publish ps).

(* c16_resume_fits: at every resume (the processor's listing of the outgoing store after
   CONNACK) the store holds at most W packets (PUBLISH or PUBREL: each is an
   unacknowledged QoS>0 message), W the window the connection was set up with *)
Definition rf_step (w : N) (e : event) : option N :=
  match e with
  | ENewConn => Some 0
  | ESetup _ (SOk _ _ w' _ _) => Some w'
  | EAll _ Outgoing (Some ps) => if N.of_nat (length ps) <=? w then Some w else None
  | _ => Some w
  end.
Definition c16_resume_fits (es : list event) : bool := scan rf_step 0 es.

(* c16_window_const: as long as the peer has not acknowledged an id that was not in
   flight (the wb_spur flag of the c16_bound scanner, which is run alongside),
     - the window of a connection that continues a session (Setup not fresh) is not
       smaller than the window of the previous connection that was set up, and
     - NextID does not hand out an id that is still in the outgoing store (it would need
       65535 allocations while one message stays unacknowledged).
   [pk_ids] are the ids in the outgoing store, read off the trace: saved and not deleted. *)
Record pk_st := PkSt { pk_last : N; pk_ids : list N }.
Definition pk_step (v : pk_st) (e : event) : option pk_st :=
  match e with
  | ESetup _ (SOk _ fresh w _ _) =>
      if fresh || (pk_last v <=? w) then Some (PkSt w (if fresh then [] else pk_ids v)) else None
  | ESave _ Outgoing p true =>
      match get_id p with
      | Some i => Some (PkSt (pk_last v) (if nmem i (pk_ids v) then pk_ids v else pk_ids v ++ [i]))
      | None => Some v
      end
  | EDelete _ Outgoing id true => Some (PkSt (pk_last v) (filter (fun j => negb (j =? id)) (pk_ids v)))
  | ENextId _ id => if nmem id (pk_ids v) then None else Some v
  | _ => Some v
  end.
Definition pkw_step (x : wb_st * pk_st) (e : event) : option (wb_st * pk_st) :=
  let (t, v) := x in
  let t' := match wb_step t e with Some t' => t' | None => t end in
  match pk_step v e with
  | Some v' => Some (t', v')
  | None => if wb_spur t then Some (t', v) else None
  end.
Definition c16_window_const (es : list event) : bool := scan pkw_step (WbSt 0 [] false, PkSt 0 []) es.

(* the scanner state reached after a trace *)
Fixpoint srun {S : Type} (f : S -> event -> option S) (t : S) (es : list event) : option S :=
  match es with
  | [] => Some t
  | e :: es' => match f t e with Some t' => srun f t' es' | None => None end
  end.

(* does the dequeuer hold a window slot? *)
Definition deq_busy (d : dpc) : bool :=
  match d with DWait | DNextId _ _ | DSave _ _ | DBackAck _ | DSend _ => true | _ => false end.
Definition held (d : dpc) : N := if deq_busy d then 1 else 0.
(* is the processor about to return a window slot? *)
Definition credit (p : ppc) : N := match p with PAckDel _ => 1 | _ => 0 end.
